/- Whole-stream invariant of the L1 hll_sketch model (helper lemmas for Props/C03.lean). -/
import DSProofs.Lemmas.HllRegs
import DSProofs.Lemmas.HllItems
namespace DS.Hll

variable {ν : Type} [HNum ν]

/-! ### the distinct nonzero coupons of a stream, in first-occurrence order -/

def distinctStep (acc : List Nat) (c : Nat) : List Nat := if c = 0 ∨ c ∈ acc then acc else acc ++ [c]
def distinct (cs : List Nat) : List Nat := cs.foldl distinctStep []

theorem distinct_snoc (cs : List Nat) (c : Nat) : distinct (cs ++ [c]) = distinctStep (distinct cs) c := by
  simp [distinct, List.foldl_append]

theorem distinctFrom_spec : ∀ (cs acc : List Nat), acc.Nodup → (∀ c ∈ acc, c ≠ 0) →
    (cs.foldl distinctStep acc).Nodup ∧ ∀ c, c ∈ cs.foldl distinctStep acc ↔ (c ∈ acc ∨ (c ∈ cs ∧ c ≠ 0))
  | [], acc, hn, _ => by simp [hn]
  | a :: l, acc, hn, hz => by
    simp only [List.foldl_cons]
    have e : distinctStep acc a = if a = 0 ∨ a ∈ acc then acc else acc ++ [a] := rfl
    rw [e]
    by_cases h : a = 0 ∨ a ∈ acc
    · rw [if_pos h]
      have ih := distinctFrom_spec l acc hn hz
      refine ⟨ih.1, fun c => ?_⟩
      rw [ih.2 c]
      simp only [List.mem_cons]
      constructor
      · rintro (h1 | ⟨h1, h2⟩)
        · exact Or.inl h1
        · exact Or.inr ⟨Or.inr h1, h2⟩
      · rintro (h1 | ⟨h1 | h1, h2⟩)
        · exact Or.inl h1
        · subst h1
          rcases h with h | h
          · exact absurd h h2
          · exact Or.inl h
        · exact Or.inr ⟨h1, h2⟩
    · rw [if_neg h]
      have h0 : a ≠ 0 := fun e => h (Or.inl e)
      have hna : a ∉ acc := fun e => h (Or.inr e)
      have ih := distinctFrom_spec l (acc ++ [a]) (by
        rw [List.nodup_append]
        refine ⟨hn, by simp, ?_⟩
        intro x hx y hy
        simp only [List.mem_singleton] at hy
        subst hy
        intro e; subst e; exact hna hx) (by
        intro c hc
        simp only [List.mem_append, List.mem_singleton] at hc
        rcases hc with hc | hc
        · exact hz c hc
        · subst hc; exact h0)
      refine ⟨ih.1, fun c => ?_⟩
      rw [ih.2 c]
      simp only [List.mem_append, List.mem_singleton, List.mem_cons]
      constructor
      · rintro ((h1 | h1) | ⟨h1, h2⟩)
        · exact Or.inl h1
        · rcases h1 with h1 | h1
          · subst h1; exact Or.inr ⟨Or.inl rfl, h0⟩
          · simp at h1
        · exact Or.inr ⟨Or.inr h1, h2⟩
      · rintro (h1 | ⟨h1 | h1, h2⟩)
        · exact Or.inl (Or.inl h1)
        · exact Or.inl (Or.inr (Or.inl h1))
        · exact Or.inr ⟨h1, h2⟩

theorem distinct_spec (cs : List Nat) : (distinct cs).Nodup ∧ ∀ c, c ∈ distinct cs ↔ (c ∈ cs ∧ c ≠ 0) := by
  have h := distinctFrom_spec cs [] List.nodup_nil (by simp)
  exact ⟨h.1, fun c => by rw [distinct, h.2 c]; simp⟩

theorem distinct_nodup (cs : List Nat) : (distinct cs).Nodup := (distinct_spec cs).1
theorem mem_distinct {cs : List Nat} {c : Nat} : c ∈ distinct cs ↔ (c ∈ cs ∧ c ≠ 0) := (distinct_spec cs).2 c

/-- streams with the same nonzero coupons have the same distinct coupons up to order -/
theorem distinct_perm {a b : List Nat} (h : ∀ c, c ≠ 0 → (c ∈ a ↔ c ∈ b)) : (distinct a).Perm (distinct b) := by
  rw [List.perm_ext_iff_of_nodup (distinct_nodup a) (distinct_nodup b)]
  intro c
  rw [mem_distinct, mem_distinct]
  constructor
  · rintro ⟨h1, h2⟩; exact ⟨(h c h2).1 h1, h2⟩
  · rintro ⟨h1, h2⟩; exact ⟨(h c h2).2 h1, h2⟩

/-! ### mode as a function of the number of distinct coupons -/

/-- what `couponUpdate` does to (mode, lgArr) when a NEW coupon arrives and `n'` coupons are then held -/
def modeStep (p : Params) (lgK : Nat) (ph : Mode × Nat) (n' : Nat) : Mode × Nat :=
  match ph.1 with
  | .list => if n' = 2^ph.2 then (if lgK < p.listToHllBelow then (.hll, 0) else (.set, p.lgInitSet)) else ph
  | .set =>
    if p.resizeDen * n' > p.resizeNum * 2^ph.2 then (if ph.2 = lgK - p.setMaxBelow then (.hll, 0) else (.set, ph.2 + 1))
    else ph
  | .hll => ph

/-- (mode, lgArr) after `n` distinct coupons -/
def phase (p : Params) (lgK : Nat) : Nat → Mode × Nat
  | 0 => (.list, p.lgInitList)
  | n + 1 => modeStep p lgK (phase p lgK n) (n + 1)

/-! ### promotion helpers -/

@[simp] theorem items_mk_tbl (s : St ν) (t : Array Nat) : ({ s with tbl := t } : St ν).items = itemsOf t := rfl

theorem setAdd_new (p : Params) (s : St ν) (c : Nat) (hc : c ≠ 0) (hn : c ∉ s.items) :
    let r := setAdd p s c
    r.1.items.Perm (c :: s.items) ∧ r.1.lgK = s.lgK ∧ r.1.tt = s.tt ∧ r.1.mode = s.mode ∧ r.1.startFull = s.startFull ∧
    (r.2 = true ↔ (p.resizeDen * (s.items.length + 1) > p.resizeNum * 2^s.lgArr ∧ s.lgArr = s.lgK - p.setMaxBelow)) ∧
    r.1.lgArr = (if p.resizeDen * (s.items.length + 1) > p.resizeNum * 2^s.lgArr ∧ s.lgArr ≠ s.lgK - p.setMaxBelow
      then s.lgArr + 1 else s.lgArr) := by
  have hcont : s.tbl.contains c = false := by
    cases h : s.tbl.contains c
    · rfl
    · exact absurd ((contains_iff_mem_itemsOf hc).1 h) hn
  have hp := setPlace_perm p (tbl := s.tbl) (lgArr := s.lgArr) hc
  have hlen : (itemsOf (setPlace p s.tbl s.lgArr c)).length = s.items.length + 1 := by
    rw [hp.length_eq]; rfl
  unfold setAdd
  simp only [hcont, Bool.false_eq_true, if_false, items_mk_tbl, hlen]
  by_cases h1 : p.resizeDen * (s.items.length + 1) > p.resizeNum * 2^s.lgArr
  · rw [if_pos h1]
    by_cases h2 : s.lgArr = s.lgK - p.setMaxBelow
    · rw [if_pos h2]
      refine ⟨hp, rfl, rfl, rfl, rfl, ?_, ?_⟩
      · simp only [true_iff]; exact ⟨h1, h2⟩
      · simp [h2]
    · rw [if_neg h2]
      refine ⟨(growSet_perm p _ _).trans hp, rfl, rfl, rfl, rfl, by simp [h2], ?_⟩
      simp [h1, h2]
  · rw [if_neg h1]
    refine ⟨hp, rfl, rfl, rfl, rfl, by simp [h1], ?_⟩
    simp [h1]

/-- folding `setAdd` over fresh coupons while the load stays below the resize threshold: no growth, no promotion request -/
theorem foldl_setAdd_nogrow (p : Params) : ∀ (l : List Nat) (t : St ν), l.Nodup → (∀ c ∈ l, c ≠ 0 ∧ c ∉ t.items) →
    p.resizeDen * (t.items.length + l.length) ≤ p.resizeNum * 2^t.lgArr →
    let r := l.foldl (fun t c => (setAdd p t c).1) t
    r.items.Perm (l ++ t.items) ∧ r.lgK = t.lgK ∧ r.tt = t.tt ∧ r.mode = t.mode ∧ r.startFull = t.startFull ∧ r.lgArr = t.lgArr
  | [], t, _, _, _ => by simp
  | a :: l, t, hnd, hfresh, hload => by
    simp only [List.foldl_cons]
    have ha := hfresh a List.mem_cons_self
    have h1 := setAdd_new p t a ha.1 ha.2
    simp only at h1
    obtain ⟨hperm, hk, htt, hm, hsf, _, hlg⟩ := h1
    have hlg' : (setAdd p t a).1.lgArr = t.lgArr := by
      rw [hlg, if_neg]
      intro hh
      simp only [List.length_cons] at hload
      have : p.resizeDen * (t.items.length + 1) ≤ p.resizeDen * (t.items.length + (l.length + 1)) :=
        Nat.mul_le_mul_left _ (by omega)
      omega
    rw [List.nodup_cons] at hnd
    have ih := foldl_setAdd_nogrow p l (setAdd p t a).1 hnd.2 (by
      intro c hc
      refine ⟨(hfresh c (List.mem_cons_of_mem _ hc)).1, ?_⟩
      intro hmem
      have := hperm.mem_iff.1 hmem
      rcases List.mem_cons.1 this with e | e
      · subst e; exact hnd.1 hc
      · exact (hfresh c (List.mem_cons_of_mem _ hc)).2 e) (by
      rw [hperm.length_eq, hlg']
      simp only [List.length_cons] at hload ⊢
      have : t.items.length + 1 + l.length = t.items.length + (l.length + 1) := by omega
      rw [this]; exact hload)
    simp only at ih
    obtain ⟨iperm, ik, itt, im, isf, ilg⟩ := ih
    refine ⟨?_, ik.trans hk, itt.trans htt, im.trans hm, isf.trans hsf, ilg.trans hlg'⟩
    refine iperm.trans ?_
    refine (List.Perm.append_left l hperm).trans ?_
    exact List.perm_middle

/-! ### the invariant of a sketch that started as an empty LIST -/

/-- `cs` = every coupon offered so far -/
structure RInv (p : Params) (lgK : Nat) (s : St ν) (cs : List Nat) : Prop where
  lgK_eq : s.lgK = lgK
  sf : s.startFull = false
  ph : (s.mode, s.lgArr) = phase p lgK (distinct cs).length
  items_perm : s.mode ≠ .hll → s.items.Perm (distinct cs)
  hll : s.mode = .hll → HInv p s (fun c => c ∈ cs ∧ c ≠ 0)

theorem RInv.init (p : Params) (lgK : Nat) (tt : TType) : RInv p lgK (newList p lgK tt : St ν) [] := by
  refine ⟨rfl, rfl, rfl, ?_, ?_⟩
  · intro _; simp [St.items, newList, itemsOf_replicate_zero, distinct]
  · intro h; simp [newList] at h

theorem promoteToHll_inv (p : Params) (s : St ν) :
    (promoteToHll p s).mode = .hll ∧ (promoteToHll p s).lgArr = 0 ∧ (promoteToHll p s).lgK = s.lgK ∧
    (promoteToHll p s).tt = s.tt ∧ (promoteToHll p s).startFull = false ∧
    HInv p (promoteToHll p s) (fun c => c ∈ s.items) := by
  have hf := foldl_hllUpdate_fields p s.items (newHll s.lgK s.tt false : St ν)
  have hi := (HInv.newHll (ν := ν) p s.lgK s.tt false).foldl s.items
  unfold promoteToHll
  refine ⟨hf.2.2.1, hf.2.2.2.2.1, hf.1, hf.2.1, hf.2.2.2.2.2, ?_⟩
  refine ⟨hi.size, fun slot hs => IsMaxAt.congr (by simp) (hi.regs slot hs), hi.cm_le, hi.cnt4, hi.cnt68⟩

/-- the side condition on the tunables: re-inserting a full LIST into a fresh SET does not trigger a resize -/
def Params.listFitsSet (p : Params) : Prop := p.resizeDen * 2^p.lgInitList ≤ p.resizeNum * 2^p.lgInitSet

instance (p : Params) : Decidable p.listFitsSet := by unfold Params.listFitsSet; infer_instance

theorem phase_hll_absorb (p : Params) (lgK n : Nat) (h : (phase p lgK n).1 = .hll) : phase p lgK (n + 1) = phase p lgK n := by
  simp only [phase, modeStep, h]

theorem HInv.weaken_mem {p : Params} {s : St ν} {cs : List Nat} {c : Nat} (hc : c ≠ 0)
    (h : HInv p s (fun x => (x ∈ cs ∧ x ≠ 0) ∨ x = c)) : HInv p s (fun x => x ∈ cs ++ [c] ∧ x ≠ 0) := by
  refine ⟨h.size, fun slot hs => IsMaxAt.congr ?_ (h.regs slot hs), h.cm_le, h.cnt4, h.cnt68⟩
  intro x
  simp only [List.mem_append, List.mem_singleton]
  constructor
  · rintro (⟨h1, h2⟩ | h1)
    · exact ⟨Or.inl h1, h2⟩
    · subst h1; exact ⟨Or.inr rfl, hc⟩
  · rintro ⟨h1 | h1, h2⟩
    · exact Or.inl ⟨h1, h2⟩
    · exact Or.inr h1

theorem phase_list_lgArr (p : Params) (lgK : Nat) : ∀ n, (phase p lgK n).1 = .list → (phase p lgK n).2 = p.lgInitList
  | 0, _ => rfl
  | n + 1, h => by
    simp only [phase, modeStep] at h ⊢
    cases hm : (phase p lgK n).1 with
    | list =>
      have ih := phase_list_lgArr p lgK n hm
      rw [hm] at h
      simp only at h ⊢
      by_cases h1 : n + 1 = 2 ^ (phase p lgK n).2
      · rw [if_pos h1] at h
        by_cases h2 : lgK < p.listToHllBelow
        · rw [if_pos h2] at h; cases h
        · rw [if_neg h2] at h; cases h
      · rw [if_neg h1]; exact ih
    | set =>
      rw [hm] at h
      simp only at h
      by_cases h1 : p.resizeDen * (n + 1) > p.resizeNum * 2 ^ (phase p lgK n).2
      · rw [if_pos h1] at h
        by_cases h2 : (phase p lgK n).2 = lgK - p.setMaxBelow
        · rw [if_pos h2] at h; cases h
        · rw [if_neg h2] at h; cases h
      · rw [if_neg h1, hm] at h; cases h
    | hll =>
      rw [hm] at h
      simp only at h
      rw [hm] at h; cases h

/-- one more coupon -/
theorem RInv.step {p : Params} (hp : p.listFitsSet) {lgK : Nat} {s : St ν} {cs : List Nat} (h : RInv p lgK s cs) (c : Nat) :
    RInv p lgK (couponUpdate p s c) (cs ++ [c]) := by
  unfold couponUpdate
  by_cases hc0 : c = 0
  · -- EMPTY coupon: ignored
    rw [if_pos hc0]
    have hd : distinct (cs ++ [c]) = distinct cs := by rw [distinct_snoc]; simp [distinctStep, hc0]
    refine ⟨h.lgK_eq, h.sf, by rw [hd]; exact h.ph, by rw [hd]; exact h.items_perm, ?_⟩
    intro hm
    have := h.hll hm
    refine ⟨this.size, fun slot hs => IsMaxAt.congr ?_ (this.regs slot hs), this.cm_le, this.cnt4, this.cnt68⟩
    intro x; subst hc0
    simp only [List.mem_append, List.mem_singleton]
    constructor
    · rintro ⟨h1, h2⟩; exact ⟨Or.inl h1, h2⟩
    · rintro ⟨h1 | h1, h2⟩
      · exact ⟨h1, h2⟩
      · exact absurd h1 h2
  · rw [if_neg hc0]
    have hph := h.ph
    cases hmode : s.mode with
    | hll =>
      simp only
      have hH := h.hll hmode
      have hf := hllUpdate_fields p s c
      have hphl : (phase p lgK (distinct cs).length).1 = .hll := by rw [← hph, hmode]
      refine ⟨hf.1.trans h.lgK_eq, hf.2.2.2.2.2.trans h.sf, ?_, ?_, ?_⟩
      · rw [hf.2.2.1, hf.2.2.2.2.1, distinct_snoc]
        unfold distinctStep
        by_cases hin : c = 0 ∨ c ∈ distinct cs
        · rw [if_pos hin]; exact hph
        · rw [if_neg hin, List.length_append, List.length_singleton, phase_hll_absorb p lgK _ hphl]; exact hph
      · intro hne; rw [hf.2.2.1] at hne; exact absurd hmode hne
      · intro _; exact (hH.hllUpdate c).weaken_mem hc0
    | list =>
      simp only
      unfold listUpdate
      have hperm := h.items_perm (by rw [hmode]; simp)
      rw [hmode] at hph
      by_cases hin : c ∈ s.items
      · -- duplicate
        have hcont : s.tbl.contains c = true := (contains_iff_mem_itemsOf hc0).2 hin
        rw [if_pos hcont]
        have hd : distinct (cs ++ [c]) = distinct cs := by
          rw [distinct_snoc]; simp [distinctStep, hperm.mem_iff.1 hin]
        refine ⟨h.lgK_eq, h.sf, by rw [hd, hmode]; exact hph, by rw [hd]; exact h.items_perm, ?_⟩
        intro hm; rw [hmode] at hm; cases hm
      · have hcont : ¬ s.tbl.contains c = true := fun e => hin ((contains_iff_mem_itemsOf hc0).1 e)
        rw [if_neg hcont]
        have hnd : c ∉ distinct cs := fun e => hin (hperm.mem_iff.2 e)
        have hd : distinct (cs ++ [c]) = distinct cs ++ [c] := by
          rw [distinct_snoc]; simp [distinctStep, hc0, hnd]
        have hp1 : (itemsOf (placeFirst s.tbl c)).Perm (distinct (cs ++ [c])) := by
          rw [hd]
          exact (placeFirst_perm hc0).trans ((List.Perm.cons c hperm).trans (List.perm_append_singleton c _).symm)
        have hlen : (itemsOf (placeFirst s.tbl c)).length = (distinct cs).length + 1 := by
          rw [hp1.length_eq, hd]; simp
        have hphase : phase p lgK (distinct (cs ++ [c])).length = modeStep p lgK (.list, s.lgArr) ((distinct cs).length + 1) := by
          rw [hd, List.length_append, List.length_singleton, phase, ← hph]
        have hlg : s.lgArr = p.lgInitList := by
          have h1 := phase_list_lgArr p lgK (distinct cs).length (by rw [← hph])
          rw [← hph] at h1; exact h1
        simp only [items_mk_tbl]
        by_cases hfull : (itemsOf (placeFirst s.tbl c)).length = 2^s.lgArr
        · simp only [hfull, ↓reduceIte]
          rw [hlen] at hfull
          by_cases hk : s.lgK < p.listToHllBelow
          · rw [if_pos hk]
            have hpr := promoteToHll_inv p ({ s with tbl := placeFirst s.tbl c } : St ν)
            refine ⟨hpr.2.2.1.trans h.lgK_eq, hpr.2.2.2.2.1, ?_, ?_, ?_⟩
            · rw [hpr.1, hpr.2.1, hphase]
              simp only [modeStep, hfull, if_true]
              rw [← h.lgK_eq, if_pos hk]
            · intro hne; exact absurd hpr.1 hne
            · intro _
              have := hpr.2.2.2.2.2
              refine ⟨this.size, fun slot hs => IsMaxAt.congr ?_ (this.regs slot hs), this.cm_le, this.cnt4, this.cnt68⟩
              intro x
              simp only [items_mk_tbl]
              rw [hp1.mem_iff, mem_distinct]
          · rw [if_neg hk]
            -- LIST -> SET: re-insert the coupons into a fresh hash set
            unfold promoteListToSet
            simp only [items_mk_tbl]
            have hnd1 : (itemsOf (placeFirst s.tbl c)).Nodup := hp1.nodup_iff.2 (distinct_nodup _)
            have hfr := foldl_setAdd_nogrow p (itemsOf (placeFirst s.tbl c))
              ({ s with mode := .set, tbl := Array.replicate (2^p.lgInitSet) 0, lgArr := p.lgInitSet } : St ν)
              hnd1 (by
                intro x hx
                refine ⟨fun e => zero_not_mem_itemsOf _ (e ▸ hx), ?_⟩
                simp [St.items, itemsOf_replicate_zero]) (by
                simp only [St.items, itemsOf_replicate_zero, List.length_nil, Nat.zero_add]
                rw [hlen, hfull, hlg]; exact hp)
            simp only [St.items, itemsOf_replicate_zero, List.append_nil] at hfr
            obtain ⟨fperm, fk, ftt, fm, fsf, flg⟩ := hfr
            refine ⟨fk.trans h.lgK_eq, fsf.trans h.sf, ?_, ?_, ?_⟩
            · rw [fm, flg, hphase]
              simp only [modeStep, hfull, if_true]
              rw [← h.lgK_eq, if_neg hk]
            · intro _; exact fperm.trans hp1
            · intro hm; rw [fm] at hm; cases hm
        · simp only [hfull, ↓reduceIte]
          rw [hlen] at hfull
          refine ⟨h.lgK_eq, h.sf, ?_, ?_, ?_⟩
          · rw [hphase]
            simp only [modeStep, hfull, if_false]
            rw [hmode]
          · intro _; exact hp1
          · intro hm; simp only at hm; rw [hmode] at hm; cases hm
    | set =>
      simp only
      unfold setUpdate
      simp only
      have hperm := h.items_perm (by rw [hmode]; simp)
      rw [hmode] at hph
      by_cases hin : c ∈ s.items
      · have hcont : s.tbl.contains c = true := (contains_iff_mem_itemsOf hc0).2 hin
        have hsa : setAdd p s c = (s, false) := by unfold setAdd; rw [if_pos hcont]
        rw [hsa]
        simp only [Bool.false_eq_true, if_false]
        have hd : distinct (cs ++ [c]) = distinct cs := by
          rw [distinct_snoc]; simp [distinctStep, hperm.mem_iff.1 hin]
        refine ⟨h.lgK_eq, h.sf, by rw [hd, hmode]; exact hph, by rw [hd]; exact h.items_perm, ?_⟩
        intro hm; rw [hmode] at hm; cases hm
      · have hnd : c ∉ distinct cs := fun e => hin (hperm.mem_iff.2 e)
        have hd : distinct (cs ++ [c]) = distinct cs ++ [c] := by
          rw [distinct_snoc]; simp [distinctStep, hc0, hnd]
        have hnew := setAdd_new p s c hc0 hin
        simp only at hnew
        obtain ⟨nperm, nk, ntt, nm, nsf, nflag, nlg⟩ := hnew
        have hp1 : (setAdd p s c).1.items.Perm (distinct (cs ++ [c])) := by
          rw [hd]
          exact nperm.trans ((List.Perm.cons c hperm).trans (List.perm_append_singleton c _).symm)
        have hlen : s.items.length = (distinct cs).length := hperm.length_eq
        have hphase : phase p lgK (distinct (cs ++ [c])).length = modeStep p lgK (.set, s.lgArr) ((distinct cs).length + 1) := by
          rw [hd, List.length_append, List.length_singleton, phase, ← hph]
        rw [hlen] at nflag nlg
        by_cases hflag : (setAdd p s c).2 = true
        · rw [if_pos hflag]
          have hcond := nflag.1 hflag
          have hpr := promoteToHll_inv p (setAdd p s c).1
          refine ⟨(hpr.2.2.1.trans nk).trans h.lgK_eq, hpr.2.2.2.2.1, ?_, ?_, ?_⟩
          · rw [hpr.1, hpr.2.1, hphase]
            simp only [modeStep]
            rw [if_pos hcond.1, ← h.lgK_eq, if_pos hcond.2]
          · intro hne; exact absurd hpr.1 hne
          · intro _
            have := hpr.2.2.2.2.2
            refine ⟨this.size, fun slot hs => IsMaxAt.congr ?_ (this.regs slot hs), this.cm_le, this.cnt4, this.cnt68⟩
            intro x
            rw [hp1.mem_iff, mem_distinct]
        · rw [if_neg hflag]
          have hncond : ¬ (p.resizeDen * ((distinct cs).length + 1) > p.resizeNum * 2^s.lgArr ∧ s.lgArr = s.lgK - p.setMaxBelow) :=
            fun e => hflag (nflag.2 e)
          refine ⟨nk.trans h.lgK_eq, nsf.trans h.sf, ?_, ?_, ?_⟩
          · rw [nm, hmode, nlg, hphase]
            simp only [modeStep]
            by_cases h1 : p.resizeDen * ((distinct cs).length + 1) > p.resizeNum * 2^s.lgArr
            · have h2 : s.lgArr ≠ s.lgK - p.setMaxBelow := fun e => hncond ⟨h1, e⟩
              rw [if_pos h1, if_pos ⟨h1, h2⟩, ← h.lgK_eq, if_neg h2]
            · rw [if_neg h1, if_neg (fun e => h1 e.1)]
          · intro _; exact hp1
          · intro hm; rw [nm, hmode] at hm; cases hm

/-- a whole stream -/
theorem RInv.run {p : Params} (hp : p.listFitsSet) {lgK : Nat} : ∀ (l : List Nat) {s : St ν} {cs : List Nat},
    RInv p lgK s cs → RInv p lgK (run p s l) (cs ++ l)
  | [], s, cs, h => by simpa [DS.Hll.run] using h
  | a :: l, s, cs, h => by
    have := RInv.run hp l (h.step hp a)
    simpa [DS.Hll.run, List.append_assoc] using this

/-! ### a sketch started full-size is an HLL array from the first coupon on -/

theorem run_startFull (p : Params) : ∀ (l : List Nat) {s : St ν} {cs : List Nat}, s.mode = .hll →
    HInv p s (fun c => c ∈ cs ∧ c ≠ 0) →
    (run p s l).mode = .hll ∧ (run p s l).lgK = s.lgK ∧ (run p s l).tt = s.tt ∧ HInv p (run p s l) (fun c => c ∈ cs ++ l ∧ c ≠ 0)
  | [], s, cs, hm, h => by simpa [DS.Hll.run] using ⟨hm, h⟩
  | a :: l, s, cs, hm, h => by
    have hstep : (couponUpdate p s a).mode = .hll ∧ (couponUpdate p s a).lgK = s.lgK ∧ (couponUpdate p s a).tt = s.tt ∧
        HInv p (couponUpdate p s a) (fun c => c ∈ cs ++ [a] ∧ c ≠ 0) := by
      unfold couponUpdate
      by_cases ha : a = 0
      · rw [if_pos ha]
        refine ⟨hm, rfl, rfl, h.size, fun slot hs => IsMaxAt.congr ?_ (h.regs slot hs), h.cm_le, h.cnt4, h.cnt68⟩
        intro x; subst ha
        simp only [List.mem_append, List.mem_singleton]
        constructor
        · rintro ⟨h1, h2⟩; exact ⟨Or.inl h1, h2⟩
        · rintro ⟨h1 | h1, h2⟩
          · exact ⟨h1, h2⟩
          · exact absurd h1 h2
      · rw [if_neg ha, hm]
        simp only
        have hf := hllUpdate_fields p s a
        exact ⟨hf.2.2.1.trans hm, hf.1, hf.2.1, (h.hllUpdate a).weaken_mem ha⟩
    have ih := run_startFull p l hstep.1 hstep.2.2.2
    simp only [DS.Hll.run, List.foldl_cons] at ih ⊢
    refine ⟨ih.1, ih.2.1.trans hstep.2.1, ih.2.2.1.trans hstep.2.2.1, ?_⟩
    have := ih.2.2.2
    simpa [List.append_assoc] using this

end DS.Hll

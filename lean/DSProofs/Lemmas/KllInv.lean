/- Structural invariant of the KLL model and its preservation by update (compress_while_updating). -/
import DSProofs.Lemmas.KllCap
import DSProofs.Lemmas.KllCT
namespace DS.Kll
open DS DS.SortedView

variable {α : Type}

/-- every level above 0 is sorted -/
def LevelsSorted (lt : α → α → Bool) (L : List (List α)) : Prop := ∀ i, 0 < i → Sorted lt (L.getD i [])

theorem sorted_nil (lt : α → α → Bool) : Sorted lt ([] : List α) := List.Pairwise.nil

structure InvS (P : Params) (lt : α → α → Bool) (s : Sketch α) : Prop where
  ne : s.levels ≠ []
  weight : weightSum 0 s.levels = s.n
  cap : s.itemsSize = computeTotalCapacity P s.k s.levels.length
  ret_le : sizeSum s.levels ≤ s.itemsSize
  sorted : LevelsSorted lt s.levels
  sorted0 : s.sorted0 = true → Sorted lt (s.levels.getD 0 [])
  top : s.levels.length = 1 ∨ s.levels.getD (s.levels.length - 1) [] ≠ []

theorem init_inv (P : Params) (ok : ParamsOk P) (lt : α → α → Bool) (k : Nat) (hk : validK P k = true) :
    InvS P lt (init k : Sketch α) := by
  have hk' : P.m ≤ k := by
    simp only [validK, Bool.and_eq_true, decide_eq_true_eq] at hk
    have := ok.minK_ge; omega
  refine ⟨by simp [init], by simp [init, weightSum], ?_, by simp [init, sizeSum], ?_, by simp [init], Or.inl (by simp [init])⟩
  · simp only [init, List.length_singleton]; exact (computeTotalCapacity_one P ok k hk').symm
  · intro i hi
    have : ([[]] : List (List α)).getD i [] = [] := by
      cases i with
      | zero => omega
      | succ j => simp
    simp only [init, this]; exact sorted_nil lt

theorem push_inv {P : Params} {lt : α → α → Bool} {s : Sketch α} (h : InvS P lt s)
    (hlt : sizeSum s.levels < s.itemsSize) (x : α) : InvS P lt (push s x) := by
  have hpos : 0 < s.levels.length := List.length_pos_iff.mpr h.ne
  obtain ⟨l0, t, hL⟩ : ∃ l0 t, s.levels = l0 :: t := by
    cases hs : s.levels with
    | nil => exact absurd hs h.ne
    | cons a b => exact ⟨a, b, rfl⟩
  refine ⟨by simp [push], ?_, ?_, ?_, ?_, by simp [push], ?_⟩
  · simp only [push]; rw [weightSum_push 0 x s.levels hpos, h.weight]
  · simp only [push, List.length_cons, List.length_tail]
    rw [h.cap]; congr 1; omega
  · simp only [push]; rw [sizeSum_push x s.levels hpos]; omega
  · intro i hi
    have := h.sorted i hi
    simp only [push, hL, List.headD_cons, List.tail_cons] at this ⊢
    cases i with
    | zero => omega
    | succ j => simpa using this
  · have := h.top
    simp only [push, hL, List.headD_cons, List.tail_cons, List.length_cons] at this ⊢
    rcases this with h1 | h1
    · exact Or.inl h1
    · refine Or.inr ?_
      cases ht : t.length with
      | zero => simp only [ht] at h1 ⊢; simp
      | succ j => simp only [ht, Nat.add_sub_cancel, List.getD_cons_succ] at h1 ⊢; exact h1

/-! ### one compaction on a list of levels -/

theorem compactAt_getD_self (lt : α → α → Bool) (srt c : Bool) (lvl : Nat) (L : List (List α)) (h : lvl + 1 < L.length) :
    (compactAt lt srt c lvl L).getD lvl [] = leftoverOf (L.getD lvl []) := by
  unfold compactAt
  rw [getD_set_ne _ _ _ _ _ (by omega), getD_set_self _ _ _ _ (by omega)]

theorem compactAt_getD_above (lt : α → α → Bool) (srt c : Bool) (lvl : Nat) (L : List (List α)) (h : lvl + 1 < L.length) :
    (compactAt lt srt c lvl L).getD (lvl + 1) [] = newAbove lt srt c (L.getD lvl []) (L.getD (lvl + 1) []) := by
  unfold compactAt
  rw [getD_set_self _ _ _ _ (by simp only [List.length_set]; exact h)]

theorem compactAt_getD_other (lt : α → α → Bool) (srt c : Bool) (lvl : Nat) (L : List (List α)) (i : Nat)
    (h1 : i ≠ lvl) (h2 : i ≠ lvl + 1) : (compactAt lt srt c lvl L).getD i [] = L.getD i [] := by
  unfold compactAt
  rw [getD_set_ne _ _ _ _ _ (by omega), getD_set_ne _ _ _ _ _ (by omega)]

/-- sortedness after a compaction: the compacted run must be sorted (or be sorted by the step) -/
theorem compactAt_sorted {lt : α → α → Bool} (sw : StrictWeak lt) (srt c : Bool) (lvl : Nat) (L : List (List α))
    (h : lvl + 1 < L.length) (hs : LevelsSorted lt L) (hc : srt = true ∨ Sorted lt (L.getD lvl [])) :
    LevelsSorted lt (compactAt lt srt c lvl L) ∧ (lvl = 0 → Sorted lt ((compactAt lt srt c lvl L).getD 0 [])) := by
  refine ⟨?_, ?_⟩
  · intro i hi
    by_cases h1 : i = lvl
    · subst h1; rw [compactAt_getD_self _ _ _ _ _ h]; exact sorted_leftoverOf _
    · by_cases h2 : i = lvl + 1
      · subst h2; rw [compactAt_getD_above _ _ _ _ _ h]
        exact sorted_newAbove sw srt c hc (hs _ (by omega))
      · rw [compactAt_getD_other _ _ _ _ _ _ h1 h2]; exact hs i hi
  · intro h0; subst h0
    rw [compactAt_getD_self _ _ _ _ _ h]; exact sorted_leftoverOf _

theorem getD_append_nil_nil (L : List (List α)) (i : Nat) : (L ++ [[]]).getD i [] = L.getD i [] :=
  getD_append_singleton_default [] L i

/-- `compress_while_updating` on a full sketch keeps the invariant and frees at least one slot -/
theorem compress_inv {P : Params} (ok : ParamsOk P) {c : Cmp α} (sw : StrictWeak c.lt) {s : Sketch α}
    (h : InvS P c.lt s) (hfull : sizeSum s.levels = s.itemsSize) (coin : Bool) :
    InvS P c.lt (compress P c s coin) ∧ sizeSum (compress P c s coin).levels < (compress P c s coin).itemsSize ∧
    (compress P c s coin).n = s.n ∧ (compress P c s coin).k = s.k ∧ 2 ≤ (compress P c s coin).levels.length := by
  have hpos : 0 < s.levels.length := List.length_pos_iff.mpr h.ne
  -- the level to compact exists (pigeonhole) and is at capacity
  have hfind : findLevel P s.k s.levels.length s.levels 0 < s.levels.length := by
    rcases Nat.lt_or_ge (findLevel P s.k s.levels.length s.levels 0) s.levels.length with h1 | h1
    · exact h1
    · exfalso
      have hle := findLevel_le P s.k s.levels.length s.levels 0
      have := findLevel_none P s.k s.levels.length s.levels 0 (by omega) h.ne
      rw [← computeTotalCapacity_eq_capsFrom, ← h.cap] at this
      omega
  have hcap := findLevel_spec P s.k s.levels.length s.levels 0 (by omega)
  simp only [Nat.sub_zero] at hcap
  have hm := levelCapacity_ge P s.k s.levels.length (findLevel P s.k s.levels.length s.levels 0)
  have hm2 := ok.m_ge
  generalize hl : findLevel P s.k s.levels.length s.levels 0 = lvl at hfind hcap hm
  have hcur : 2 ≤ (s.levels.getD lvl []).length := by omega
  unfold compress
  simp only [Sketch.numLevels, hl, if_neg (Nat.not_le.mpr hfind)]
  by_cases htop : lvl + 1 = s.levels.length
  · -- the top level is compacted: a new empty top level is added first
    simp only [htop, BEq.rfl, if_true, addTop, Sketch.numLevels]
    have hlen : lvl + 1 < (s.levels ++ [[]]).length := by simp only [List.length_append, List.length_singleton]; omega
    have hw := weightSum_compactAt c.lt (lvl == 0 && !s.sorted0) coin lvl (s.levels ++ [[]]) hlen
    have hsz := sizeSum_compactAt c.lt (lvl == 0 && !s.sorted0) coin lvl (s.levels ++ [[]]) hlen
    rw [getD_append_nil_nil] at hsz
    rw [weightSum_append_nil] at hw
    rw [sizeSum_append_nil] at hsz
    have hsrt : LevelsSorted c.lt (s.levels ++ [[]]) := by
      intro i hi; rw [getD_append_nil_nil]; exact h.sorted i hi
    have hc : ((lvl == 0 && !s.sorted0) = true) ∨ Sorted c.lt ((s.levels ++ [[]]).getD lvl []) := by
      rw [getD_append_nil_nil]
      by_cases h0 : lvl = 0
      · subst h0
        cases hs0 : s.sorted0 with
        | false => left; simp
        | true => right; exact h.sorted0 hs0
      · right; exact h.sorted lvl (by omega)
    have hso := compactAt_sorted sw (lvl == 0 && !s.sorted0) coin lvl _ hlen hsrt hc
    refine ⟨⟨?_, ?_, ?_, ?_, hso.1, ?_, ?_⟩, ?_, trivial, trivial, ?_⟩
    · intro hnil
      have := congrArg List.length hnil
      simp only [compactAt_length, List.length_append, List.length_singleton, List.length_nil] at this
      omega
    · rw [hw]; exact h.weight
    · simp only [compactAt_length, List.length_append, List.length_singleton]
      rw [computeTotalCapacity_succ, h.cap]
    · first | omega | (dsimp only; omega)
    · intro hs0
      by_cases h0 : lvl = 0
      · exact hso.2 h0
      · rw [compactAt_getD_other _ _ _ _ _ _ (by omega) (by omega), getD_append_nil_nil]; exact h.sorted0 hs0
    · right
      simp only [compactAt_length, List.length_append, List.length_singleton]
      have e : s.levels.length + 1 - 1 = lvl + 1 := by omega
      rw [e, compactAt_getD_above _ _ _ _ _ hlen]
      intro hnil
      have := congrArg List.length hnil
      rw [newAbove_length, getD_append_nil_nil] at this
      simp only [List.length_nil] at this
      omega
    · have := levelCapacity_ge P s.k (s.levels.length + 1) 0
      first | omega | (dsimp only; omega)
    · simp only [compactAt_length, List.length_append, List.length_singleton]; omega
  · have hne : (lvl + 1 == s.levels.length) = false := by simpa using htop
    simp only [hne, Bool.false_eq_true, if_false]
    have hlen : lvl + 1 < s.levels.length := by omega
    have hw := weightSum_compactAt c.lt (lvl == 0 && !s.sorted0) coin lvl s.levels hlen
    have hsz := sizeSum_compactAt c.lt (lvl == 0 && !s.sorted0) coin lvl s.levels hlen
    have hc : ((lvl == 0 && !s.sorted0) = true) ∨ Sorted c.lt (s.levels.getD lvl []) := by
      by_cases h0 : lvl = 0
      · subst h0
        cases hs0 : s.sorted0 with
        | false => left; simp
        | true => right; exact h.sorted0 hs0
      · right; exact h.sorted lvl (by omega)
    have hso := compactAt_sorted sw (lvl == 0 && !s.sorted0) coin lvl _ hlen h.sorted hc
    refine ⟨⟨?_, ?_, ?_, ?_, hso.1, ?_, ?_⟩, ?_, trivial, trivial, ?_⟩
    · intro hnil
      have := congrArg List.length hnil
      simp only [compactAt_length, List.length_nil] at this
      omega
    · rw [hw]; exact h.weight
    · simp only [compactAt_length]; exact h.cap
    · first | omega | (dsimp only; omega)
    · intro hs0
      by_cases h0 : lvl = 0
      · exact hso.2 h0
      · rw [compactAt_getD_other _ _ _ _ _ _ (by omega) (by omega)]; exact h.sorted0 hs0
    · right
      simp only [compactAt_length]
      rcases h.top with h1 | h1
      · omega
      · by_cases h2 : s.levels.length - 1 = lvl + 1
        · rw [h2, compactAt_getD_above _ _ _ _ _ hlen]
          intro hnil
          have := congrArg List.length hnil
          rw [newAbove_length] at this
          simp only [List.length_nil] at this
          omega
        · rw [compactAt_getD_other _ _ _ _ _ _ (by omega) h2]; exact h1
    · first | omega | (dsimp only; omega)
    · simp only [compactAt_length]; omega

theorem internalUpdateT_inv {P : Params} (ok : ParamsOk P) {c : Cmp α} (sw : StrictWeak c.lt) {s : Sketch α}
    (h : InvS P c.lt s) (x : α) :
    CT.All (fun s' => InvS P c.lt s' ∧ s'.n = s.n + 1 ∧ s'.k = s.k ∧ s'.levels.getD 0 [] ≠ []) (internalUpdateT P c s x) := by
  unfold internalUpdateT
  by_cases hf : s.full = true
  · simp only [hf, if_true, CT.All_flip, CT.All_ret]
    intro coin
    have hfull : sizeSum s.levels = s.itemsSize := by simpa [Sketch.full, Sketch.retained] using hf
    obtain ⟨hi, hlt, hn, hk, _⟩ := compress_inv ok sw h hfull coin
    refine ⟨push_inv hi hlt x, ?_, ?_, ?_⟩
    · simp only [push, hn]
    · simp only [push, hk]
    · simp [push]
  · simp only [hf, Bool.false_eq_true, if_false, CT.All_ret]
    have hlt : sizeSum s.levels < s.itemsSize := by
      have := h.ret_le
      have hne : sizeSum s.levels ≠ s.itemsSize := by simpa [Sketch.full, Sketch.retained] using hf
      omega
    exact ⟨push_inv h hlt x, by simp [push], by simp [push], by simp [push]⟩

theorem updateMinMax_inv {P : Params} {c : Cmp α} {s : Sketch α} (h : InvS P c.lt s) (x : α) :
    InvS P c.lt (updateMinMax c s x) := by
  unfold updateMinMax
  split <;> exact ⟨h.ne, h.weight, h.cap, h.ret_le, h.sorted, h.sorted0, h.top⟩

theorem updateT_inv {P : Params} (ok : ParamsOk P) {c : Cmp α} (sw : StrictWeak c.lt) {s : Sketch α}
    (h : InvS P c.lt s) (x : α) : CT.All (InvS P c.lt) (updateT P c s x) := by
  unfold updateT
  split
  · exact h
  · exact CT.All.imp (fun _ hs => hs.1) (internalUpdateT_inv ok sw (updateMinMax_inv h x) x)

theorem sortLevelZero_inv {P : Params} {c : Cmp α} (sw : StrictWeak c.lt) {s : Sketch α} (h : InvS P c.lt s) :
    InvS P c.lt (sortLevelZero c s) := by
  unfold sortLevelZero
  split
  · exact h
  · obtain ⟨l0, t, hL⟩ : ∃ l0 t, s.levels = l0 :: t := by
      cases hs : s.levels with
      | nil => exact absurd hs h.ne
      | cons a b => exact ⟨a, b, rfl⟩
    have hw := h.weight; have hc := h.cap; have hr := h.ret_le; have hs := h.sorted; have ht := h.top
    simp only [hL, sortHead] at hw hc hr hs ht ⊢
    refine ⟨by simp, ?_, ?_, ?_, ?_, ?_, ?_⟩
    · simpa [weightSum, sortBy_length] using hw
    · simpa using hc
    · simpa [sizeSum, sortBy_length] using hr
    · intro i hi
      cases i with
      | zero => omega
      | succ j => simpa using hs (j + 1) hi
    · intro _; simpa using sorted_sortBy sw l0
    · rcases ht with h1 | h1
      · left; simpa using h1
      · cases t with
        | nil => left; simp
        | cons a b => right; simpa using h1

end DS.Kll

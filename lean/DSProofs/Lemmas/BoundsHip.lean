/- C06: why `number of non-zero registers ≤ HIP accumulator` (hypothesis of hll_bounds_order_partial) and
   `coupons ≤ HIP accumulator` (hypothesis of cpc_bounds_order_partial) hold for sketches that were only updated:
   an abstract register model of hipAndKxQIncrementalUpdate / cpc update_hip.  Exact arithmetic over an ordered field. -/
import Mathlib.Algebra.Order.Field.Basic
import Mathlib.Algebra.BigOperators.Group.List.Basic
import Mathlib.Tactic.Linarith
import Mathlib.Tactic.Positivity
namespace DS.Bounds

variable {K : Type} [Field K] [LinearOrder K] [IsStrictOrderedRing K]

/-- kxq0 + kxq1 = Σ over registers of 2^-value -/
def kxqSum : List Nat → K
  | [] => 0
  | v :: t => (1 / 2 : K) ^ v + kxqSum t

def nonZeroCount : List Nat → Nat
  | [] => 0
  | v :: t => (if v = 0 then 0 else 1) + nonZeroCount t

theorem kxqSum_pos_le : ∀ regs : List Nat, regs ≠ [] → (0 : K) < kxqSum regs ∧ (kxqSum regs : K) ≤ regs.length
  | [], h => absurd rfl h
  | [v], _ => by
    have h1 : (0 : K) < (1 / 2 : K) ^ v := by positivity
    have h2 : ((1 / 2 : K)) ^ v ≤ 1 := pow_le_one₀ (by norm_num) (by norm_num)
    simp only [kxqSum, add_zero, List.length_singleton, Nat.cast_one]
    exact ⟨h1, h2⟩
  | v :: w :: t, _ => by
    have ih := kxqSum_pos_le (w :: t) (by simp)
    have h1 : (0 : K) < (1 / 2 : K) ^ v := by positivity
    have h2 : ((1 / 2 : K)) ^ v ≤ 1 := pow_le_one₀ (by norm_num) (by norm_num)
    simp only [kxqSum, List.length_cons, Nat.cast_add, Nat.cast_one] at ih ⊢
    constructor
    · linarith [ih.1]
    · linarith [ih.2]

theorem nonZeroCount_set_le : ∀ (regs : List Nat) (i v : Nat), nonZeroCount (regs.set i v) ≤ nonZeroCount regs + 1
  | [], _, _ => by simp [nonZeroCount]
  | a :: t, 0, v => by
    simp only [List.set_cons_zero, nonZeroCount]
    split <;> split <;> omega
  | a :: t, i + 1, v => by
    simp only [List.set_cons_succ, nonZeroCount]
    have := nonZeroCount_set_le t i v
    omega

/-- HllArray::couponUpdate → hipAndKxQIncrementalUpdate for an in-order sketch: when slot i grows to v, the HIP accumulator
    gains k/(kxq0+kxq1) computed BEFORE the register changes -/
def hipStep (s : List Nat × K) (u : Nat × Nat) : List Nat × K :=
  if s.1.getD u.1 0 < u.2 ∧ u.1 < s.1.length then (s.1.set u.1 u.2, s.2 + (s.1.length : K) / kxqSum s.1) else s

def hipRun (s : List Nat × K) (ups : List (Nat × Nat)) : List Nat × K := ups.foldl hipStep s

theorem hipStep_inv (s : List Nat × K) (u : Nat × Nat) (h : ((nonZeroCount s.1 : Nat) : K) ≤ s.2) :
    ((nonZeroCount (hipStep s u).1 : Nat) : K) ≤ (hipStep s u).2 := by
  unfold hipStep
  split
  · rename_i hc
    have hne : s.1 ≠ [] := by
      intro he; rw [he] at hc; simp at hc
    obtain ⟨p, q⟩ := kxqSum_pos_le (K := K) s.1 hne
    have h1 : (1 : K) ≤ (s.1.length : K) / kxqSum s.1 := by rw [le_div_iff₀ p]; linarith
    have h2 : ((nonZeroCount (s.1.set u.1 u.2) : Nat) : K) ≤ ((nonZeroCount s.1 : Nat) : K) + 1 := by
      exact_mod_cast nonZeroCount_set_le s.1 u.1 u.2
    simp only
    linarith
  · exact h

/-- after ANY sequence of register updates starting from the empty array (all k registers 0, HIP = 0):
    number of non-zero registers ≤ HIP accumulator -/
theorem hip_ge_nonzero_registers (k : Nat) (ups : List (Nat × Nat)) :
    ((nonZeroCount (hipRun (K := K) (List.replicate k 0, 0) ups).1 : Nat) : K) ≤ (hipRun (K := K) (List.replicate k 0, 0) ups).2 := by
  have h0 : ((nonZeroCount (List.replicate k 0) : Nat) : K) ≤ 0 := by
    have : nonZeroCount (List.replicate k 0) = 0 := by
      induction k with
      | zero => rfl
      | succ n ih => simp [List.replicate_succ, nonZeroCount, ih]
    rw [this]; simp
  suffices H : ∀ (ups : List (Nat × Nat)) (s : List Nat × K), ((nonZeroCount s.1 : Nat) : K) ≤ s.2 →
      ((nonZeroCount (hipRun s ups).1 : Nat) : K) ≤ (hipRun s ups).2 from H ups _ h0
  intro ups
  induction ups with
  | nil => intro s h; exact h
  | cons u t ih => intro s h; exact ih (hipStep s u) (hipStep_inv s u h)

end DS.Bounds

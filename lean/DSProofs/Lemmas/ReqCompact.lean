/- One compaction step of the REQ model: range arithmetic, invariants, counting. (Helper lemmas.) -/
import DSProofs.Lemmas.ReqBasic
namespace DS.Req

variable {ρ : Type}

/-- decidable side conditions on the tunables under which the theorems are proved (discharged by `decide` for DSGen's values) -/
structure TunOK (T : Tun) : Prop where
  minK2 : 2 ≤ T.minK
  minK256 : T.minK < 256
  sec1 : 1 ≤ T.initSections
  mult2 : 2 ≤ T.multiplier

/-- per-compactor invariant at level `h` of a sketch in mode `hra` -/
structure CInv (T : Tun) (hra : Bool) (h : Nat) (c : Compactor ρ) : Prop where
  lg : c.lgWeight = h
  hraEq : c.hra = hra
  ns : 1 ≤ c.numSections
  ss : 2 ≤ c.sectionSize
  srt : (h ≠ 0 ∨ c.sorted = true) → Sorted c.items

/-! ### take / drop bookkeeping -/

theorem split3 (l : List Int) (lo hi : Nat) (h : lo ≤ hi) :
    l = l.take lo ++ ((l.take hi).drop lo ++ l.drop hi) := by
  have h1 : l.take hi = (l.take hi).take lo ++ (l.take hi).drop lo := (List.take_append_drop lo _).symm
  have h2 : (l.take hi).take lo = l.take lo := by rw [List.take_take, Nat.min_eq_left h]
  calc l = l.take hi ++ l.drop hi := (List.take_append_drop hi l).symm
    _ = (l.take lo ++ (l.take hi).drop lo) ++ l.drop hi := by rw [← h2, ← h1]
    _ = _ := by rw [List.append_assoc]

theorem cntP_split3 (p : Int → Bool) (l : List Int) (lo hi : Nat) (h : lo ≤ hi) :
    cntP p (l.take lo ++ l.drop hi) + cntP p ((l.take hi).drop lo) = cntP p l := by
  conv => rhs; rw [split3 l lo hi h]
  simp only [cntP_append]; omega

theorem kept_sublist (l : List Int) (lo hi : Nat) (h : lo ≤ hi) : (l.take lo ++ l.drop hi).Sublist l := by
  have h1 : (l.drop hi).Sublist (l.drop lo) := by
    have : l.drop hi = (l.drop lo).drop (hi - lo) := by rw [List.drop_drop]; congr 1; omega
    rw [this]; exact List.drop_sublist _ _
  have := List.Sublist.append (List.Sublist.refl (l.take lo)) h1
  rwa [List.take_append_drop] at this

theorem range_sublist (l : List Int) (lo hi : Nat) : ((l.take hi).drop lo).Sublist l :=
  (List.drop_sublist _ _).trans (List.take_sublist _ _)

theorem length_range (l : List Int) (lo hi : Nat) (_h1 : lo ≤ hi) (h2 : hi ≤ l.length) :
    ((l.take hi).drop lo).length = hi - lo := by
  simp [List.length_drop, List.length_take, Nat.min_eq_left h2]

theorem length_kept (l : List Int) (lo hi : Nat) (h1 : lo ≤ hi) (h2 : hi ≤ l.length) :
    (l.take lo ++ l.drop hi).length = l.length - (hi - lo) := by
  simp [List.length_drop, List.length_take]; omega

/-! ### the compaction range -/

theorem secs_bounds (c : Compactor ρ) (hns : 1 ≤ c.numSections) : 1 ≤ c.secsToCompact ∧ c.secsToCompact ≤ c.numSections := by
  unfold Compactor.secsToCompact; omega

/-- under `TunOK`, when the buffer is at least nominally full, the range has even length ≥ 2, lies inside the buffer and
leaves at least one item behind: `compact` never throws "compaction range error" -/
theorem range_facts {T : Tun} (hT : TunOK T) (c : Compactor ρ) (hns : 1 ≤ c.numSections) (hss : 2 ≤ c.sectionSize)
    (hfull : c.nomCap T ≤ c.items.length) :
    let rg := c.compactionRange T
    rg.1 + 2 ≤ rg.2 ∧ rg.2 ≤ c.items.length ∧ (rg.2 - rg.1) % 2 = 0 ∧ 1 ≤ c.items.length - (rg.2 - rg.1) ∧
    (c.hra = true → rg.1 = 0) ∧ (c.hra = false → rg.2 = c.items.length) := by
  have ⟨hs1, hs2⟩ := secs_bounds c hns
  have hY : c.sectionSize ≤ c.numSections * c.sectionSize := Nat.le_mul_of_pos_left _ (by omega)
  have hB : (c.numSections - c.secsToCompact) * c.sectionSize ≤ c.numSections * c.sectionSize - c.sectionSize := by
    have : (c.numSections - c.secsToCompact) ≤ c.numSections - 1 := by omega
    calc (c.numSections - c.secsToCompact) * c.sectionSize ≤ (c.numSections - 1) * c.sectionSize := Nat.mul_le_mul_right _ this
      _ = c.numSections * c.sectionSize - c.sectionSize := by rw [Nat.sub_mul, Nat.one_mul]
  have hX : 2 * (c.numSections * c.sectionSize) ≤ c.nomCap T := by
    unfold Compactor.nomCap
    rw [Nat.mul_assoc]
    exact Nat.mul_le_mul_right _ hT.mult2
  simp only [Compactor.compactionRange]
  generalize c.nomCap T = X at *
  generalize (c.numSections - c.secsToCompact) * c.sectionSize = B at *
  generalize c.numSections * c.sectionSize = Y at *
  generalize c.items.length = len at *
  cases c.hra <;> simp only [Bool.false_eq_true, if_false, if_true] <;> split <;> (refine ⟨?_, ?_, ?_, ?_, ?_, ?_⟩ <;> (try simp) <;> omega)

/-! ### `ensureEnough` keeps the invariant -/

theorem ensureEnough_items (T : Tun) (F : SecFns ρ) (c : Compactor ρ) :
    (c.ensureEnough T F).1.items = c.items ∧ (c.ensureEnough T F).1.lgWeight = c.lgWeight ∧
    (c.ensureEnough T F).1.hra = c.hra ∧ (c.ensureEnough T F).1.sorted = c.sorted ∧
    (c.ensureEnough T F).1.coin = c.coin ∧ (c.ensureEnough T F).1.state = c.state ∧
    (c.ensureEnough T F).1.entered = c.entered ∧ (c.ensureEnough T F).1.rnd = c.rnd := by
  simp only [Compactor.ensureEnough]; split <;> simp

theorem ensureEnough_CInv {T : Tun} (hT : TunOK T) (F : SecFns ρ) {hra : Bool} {h : Nat} {c : Compactor ρ}
    (hc : CInv T hra h c) : CInv T hra h (c.ensureEnough T F).1 := by
  simp only [Compactor.ensureEnough]; split
  · rename_i hcond
    exact ⟨hc.lg, hc.hraEq, by show 1 ≤ 2 * c.numSections; have := hc.ns; omega,
           by show 2 ≤ F.ne (F.next c.ssRaw); have := hT.minK2; omega, hc.srt⟩
  · exact hc

theorem ensureLoop_CInv {T : Tun} (hT : TunOK T) (F : SecFns ρ) {hra : Bool} {h : Nat} (fuel : Nat) {c : Compactor ρ}
    (hc : CInv T hra h c) : CInv T hra h (Compactor.ensureLoop T F fuel c) := by
  induction fuel generalizing c with
  | zero => exact hc
  | succ n ih =>
    simp only [Compactor.ensureLoop]; split
    · exact ih (ensureEnough_CInv hT F hc)
    · exact hc

theorem ensureLoop_items (T : Tun) (F : SecFns ρ) (fuel : Nat) (c : Compactor ρ) :
    (Compactor.ensureLoop T F fuel c).items = c.items ∧ (Compactor.ensureLoop T F fuel c).lgWeight = c.lgWeight ∧
    (Compactor.ensureLoop T F fuel c).hra = c.hra ∧ (Compactor.ensureLoop T F fuel c).sorted = c.sorted ∧
    (Compactor.ensureLoop T F fuel c).coin = c.coin ∧ (Compactor.ensureLoop T F fuel c).state = c.state ∧
    (Compactor.ensureLoop T F fuel c).entered = c.entered ∧ (Compactor.ensureLoop T F fuel c).rnd = c.rnd := by
  induction fuel generalizing c with
  | zero => simp [Compactor.ensureLoop]
  | succ n ih =>
    simp only [Compactor.ensureLoop]; split
    · have h1 := ih (c.ensureEnough T F).1
      have h2 := ensureEnough_items T F c
      simp only [h1, h2, and_self]
    · simp

/-! ### one `compact` -/

/-- everything the sketch-level proofs need to know about one compaction of a nominally full, sorted compactor -/
structure CompactSpec (T : Tun) (hra : Bool) (h : Nat) (c nxt : Compactor ρ) (r : CompactRes ρ) : Prop where
  ok : r.rangeOk = true
  cur : CInv T hra h r.cur
  nx : CInv T hra (h + 1) r.nxt
  num1 : 1 ≤ r.num
  lenCur : r.cur.items.length + 2 * r.num = c.items.length
  lenNxt : r.nxt.items.length = nxt.items.length + r.num
  curNe : r.cur.items ≠ []
  capOld : r.capOld = c.nomCap T
  capNew : r.capNew = r.cur.nomCap T
  curEntered : r.cur.entered = c.entered
  nxtSorted : r.nxt.sorted = nxt.sorted

theorem compact_spec {T : Tun} (hT : TunOK T) (F : SecFns ρ) {hra : Bool} {h : Nat} {c nxt : Compactor ρ} (d : Bool)
    (hc : CInv T hra h c) (hsorted : Sorted c.items) (hn : CInv T hra (h + 1) nxt)
    (hfull : c.nomCap T ≤ c.items.length) :
    CompactSpec T hra h c nxt (c.compact T F nxt d) := by
  have rf := range_facts hT c hc.ns hc.ss hfull
  simp only at rf
  obtain ⟨r1, r2, r3, r4, r5, r6⟩ := rf
  have hlo : (c.compactionRange T).1 ≤ (c.compactionRange T).2 := by omega
  have hrange := length_range c.items _ _ hlo r2
  have hkept := length_kept c.items _ _ hlo r2
  have hprom : ∀ coin, (promote ((c.items.take (c.compactionRange T).2).drop (c.compactionRange T).1) coin).length
      = ((c.compactionRange T).2 - (c.compactionRange T).1) / 2 := by
    intro coin; rw [length_promote _ _ (by rw [hrange]; exact r3), hrange]
  have hnxSorted : Sorted nxt.items := hn.srt (Or.inl (by omega))
  have hpromSorted : ∀ coin, Sorted (promote ((c.items.take (c.compactionRange T).2).drop (c.compactionRange T).1) coin) :=
    fun coin => sorted_sublist ((promote_sublist _ _).trans (range_sublist _ _ _)) hsorted
  constructor
  · simp only [Compactor.compact]; exact decide_eq_true r1
  · -- cur
    have e := ensureEnough_items T F
      ({ c with coin := if c.state % 2 = 1 then !c.coin else d,
                items := c.items.take (c.compactionRange T).1 ++ c.items.drop (c.compactionRange T).2,
                state := c.state + 1, rnd := if c.state % 2 = 1 then c.rnd else true } : Compactor ρ)
    apply ensureEnough_CInv hT F
    exact ⟨hc.lg, hc.hraEq, hc.ns, hc.ss, fun _ => sorted_sublist (kept_sublist _ _ _ hlo) hsorted⟩
  · -- nxt
    refine ⟨hn.lg, ?_, hn.ns, hn.ss, fun _ => ?_⟩
    · exact hn.hraEq
    · simp only [Compactor.compact]
      split
      · exact sorted_mergeRuns _ _ (hpromSorted _) hnxSorted
      · exact sorted_mergeRuns _ _ hnxSorted (hpromSorted _)
  · simp only [Compactor.compact]; omega
  · simp only [Compactor.compact]
    rw [(ensureEnough_items T F _).1]
    simp only [hkept]; omega
  · simp only [Compactor.compact]
    split <;> rw [length_mergeRuns, hprom] <;> omega
  · simp only [Compactor.compact]
    rw [(ensureEnough_items T F _).1]
    intro hnil
    have := congrArg List.length hnil
    simp only [hkept, List.length_nil] at this; omega
  · rfl
  · rfl
  · simp only [Compactor.compact]
    rw [(ensureEnough_items T F _).2.2.2.2.2.2.1]
  · rfl

/-- counting through one compaction, for an arbitrary predicate on items -/
theorem compact_cnt (T : Tun) (F : SecFns ρ) (p : Int → Bool) (c nxt : Compactor ρ) (d : Bool)
    (hlo : (c.compactionRange T).1 ≤ (c.compactionRange T).2) :
    let r := c.compact T F nxt d
    let range := (c.items.take (c.compactionRange T).2).drop (c.compactionRange T).1
    cntP p r.cur.items + cntP p range = cntP p c.items ∧
    cntP p r.nxt.items = cntP p nxt.items + cntP p (promote range r.cur.coin) := by
  simp only [Compactor.compact]
  rw [(ensureEnough_items T F _).1, (ensureEnough_items T F _).2.2.2.2.1]
  refine ⟨cntP_split3 p _ _ _ hlo, ?_⟩
  split <;> rw [cntP_mergeRuns] <;> dsimp only <;> omega

end DS.Req

/- Payload homomorphisms of the update table (tuple vs theta; array-of-doubles column-wise) and per-key folds. -/
import DSProofs.Lemmas.ThetaInv
namespace DS.Theta

variable {σ τ V : Type}

/-- apply `g` to every payload -/
def mapEnts (g : σ → τ) (l : List (Nat × σ)) : List (Nat × τ) := l.map (fun e => (e.1, g e.2))

def mapSt (g : σ → τ) (s : St σ) : St τ :=
  { theta := s.theta, ents := mapEnts g s.ents, isEmpty := s.isEmpty, lgCur := s.lgCur }

@[simp] theorem keys_mapEnts (g : σ → τ) (l : List (Nat × σ)) : keys (mapEnts g l) = keys l := by
  simp [keys, mapEnts, List.map_map]

@[simp] theorem length_mapEnts (g : σ → τ) (l : List (Nat × σ)) : (mapEnts g l).length = l.length := by
  simp [mapEnts]

theorem lookup_mapEnts (g : σ → τ) (h : Nat) (l : List (Nat × σ)) : lookup h (mapEnts g l) = (lookup h l).map g := by
  induction l with
  | nil => rfl
  | cons a t ih =>
    obtain ⟨k, v⟩ := a
    simp only [mapEnts, List.map_cons, lookup]
    split
    · rfl
    · exact ih

theorem upsert_mapEnts (g : σ → τ) (h : Nat) (f : Option σ → σ) (f' : Option τ → τ)
    (hf : ∀ o, g (f o) = f' (o.map g)) (l : List (Nat × σ)) :
    mapEnts g (upsert h f l) = upsert h f' (mapEnts g l) := by
  induction l with
  | nil => simp [upsert, mapEnts, hf none]
  | cons a t ih =>
    obtain ⟨k, v⟩ := a
    simp only [upsert, mapEnts, List.map_cons]
    split
    · simp [hf none]
    · split
      · simp [hf (some v)]
      · simp only [List.map_cons, List.cons.injEq, true_and]; exact ih

theorem take_mapEnts (g : σ → τ) (n : Nat) (l : List (Nat × σ)) : mapEnts g (l.take n) = (mapEnts g l).take n := by
  simp [mapEnts, List.map_take]

theorem mapSt_rebuild (c : Cfg) (g : σ → τ) (s : St σ) : mapSt g (rebuild c s) = rebuild c (mapSt g s) := by
  unfold rebuild
  simp only [mapSt, keys_mapEnts]
  split <;> simp [mapSt, take_mapEnts]

theorem mapSt_afterInsert (c : Cfg) (g : σ → τ) (s : St σ) : mapSt g (afterInsert c s) = afterInsert c (mapSt g s) := by
  have hl : (mapSt g s).ents.length = s.ents.length := length_mapEnts g s.ents
  have hc : (mapSt g s).lgCur = s.lgCur := rfl
  unfold afterInsert
  rw [hl, hc]
  by_cases h1 : s.ents.length > capacity c s.lgCur
  · simp only [h1, if_true]
    by_cases h2 : s.lgCur ≤ c.lgNom
    · simp only [h2, if_true]; rfl
    · simp only [h2, if_false]; exact mapSt_rebuild c g s
  · simp only [h1, if_false]

/-- related operations: same hash, update functions that commute with `g` -/
inductive OpRel (g : σ → τ) : Op σ → Op τ → Prop where
  | upd (h : Nat) (f : Option σ → σ) (f' : Option τ → τ) (hf : ∀ o, g (f o) = f' (o.map g)) : OpRel g (.upd h f) (.upd h f')
  | trim : OpRel g .trim .trim
  | reset : OpRel g .reset .reset

theorem mapSt_step (c : Cfg) (g : σ → τ) (s : St σ) (op : Op σ) (op' : Op τ) (h : OpRel g op op') :
    mapSt g (step c s op) = step c (mapSt g s) op' := by
  cases h with
  | upd hash f f' hf =>
    simp only [step, offer]
    have hl := lookup_mapEnts g hash s.ents
    by_cases hsc : hash = 0 ∨ s.theta ≤ hash
    · simp [mapSt, hsc]
    · simp only [mapSt, hsc, if_false, hl]
      cases hlk : lookup hash s.ents with
      | some v =>
        simp only [Option.map_some]
        simp [mapSt, upsert_mapEnts g hash f f' hf]
      | none =>
        simp only [Option.map_none]
        have := mapSt_afterInsert c g ({ theta := s.theta, ents := upsert hash f s.ents, isEmpty := false, lgCur := s.lgCur } : St σ)
        simp only [mapSt, upsert_mapEnts g hash f f' hf] at this
        exact this
  | trim =>
    simp only [step, trim, mapSt, length_mapEnts]
    split
    · exact mapSt_rebuild c g s
    · rfl
  | reset => simp [step, reset, init, mapSt, mapEnts]

/-- pointwise related operation lists -/
inductive OpsRel (g : σ → τ) : List (Op σ) → List (Op τ) → Prop where
  | nil : OpsRel g [] []
  | cons {op op' ops ops'} (h : OpRel g op op') (t : OpsRel g ops ops') : OpsRel g (op :: ops) (op' :: ops')

theorem mapSt_foldl (c : Cfg) (g : σ → τ) (ops : List (Op σ)) : ∀ (ops' : List (Op τ)) (s : St σ),
    OpsRel g ops ops' → mapSt g (ops.foldl (step c) s) = ops'.foldl (step c) (mapSt g s) := by
  induction ops with
  | nil => intro ops' s h; cases h; rfl
  | cons op rest ih =>
    intro ops' s h
    cases h with
    | cons h1 h2 =>
      simp only [List.foldl_cons]
      rw [ih _ _ h2, mapSt_step c g s op _ h1]

/-! ### per-key folds -/

/-- a tuple-sketch operation: update key-hash `h` with value `v` -/
inductive TOp (V : Type) where
  | upd (h : Nat) (v : V)
  | trim
  | reset

/-- the table operation a tuple update performs under the policy (create, update) -/
def TOp.toOp (create : σ) (update : σ → V → σ) : TOp V → Op σ
  | .upd h v => .upd h (fun o => update (o.getD create) v)
  | .trim => .trim
  | .reset => .reset

/-- values offered with each key since the last reset, in arrival order -/
def valsStep (vf : Nat → List V) : TOp V → (Nat → List V)
  | .upd h v => fun k => if k = h then vf k ++ [v] else vf k
  | .trim => vf
  | .reset => fun _ => []

def valsOf (ops : List (TOp V)) : Nat → List V := ops.foldl valsStep (fun _ => [])

theorem lookup_upsert (h : Nat) (f : Option σ → σ) (l : List (Nat × σ)) (hs : (keys l).Pairwise (· < ·)) (k : Nat) :
    lookup k (upsert h f l) = if k = h then some (f (lookup h l)) else lookup k l := by
  induction l with
  | nil =>
    simp only [upsert, lookup]
    by_cases hk : k = h
    · simp [hk]
    · have : ¬ h = k := fun e => hk e.symm
      simp [hk, this]
  | cons a t ih =>
    obtain ⟨k0, v0⟩ := a
    simp only [keys_cons, List.pairwise_cons] at hs
    simp only [upsert]
    split
    · rename_i hlt
      -- h < k0: h is not in the list at all
      have hnot : lookup h ((k0, v0) :: t) = none := by
        rw [lookup_none_iff]
        simp only [keys_cons, List.mem_cons, not_or]
        refine ⟨by omega, fun hm => ?_⟩
        have := hs.1 h hm; omega
      rw [hnot]
      simp only [lookup]
      by_cases hk : k = h
      · subst hk; simp
      · have : ¬ h = k := fun e => hk e.symm
        simp [hk, this]
    · split
      · rename_i _ heq
        subst heq
        simp only [lookup]
        by_cases hk : k = h
        · subst hk; simp
        · have : ¬ h = k := fun e => hk e.symm
          simp [hk, this]
      · rename_i h1 h2
        simp only [lookup]
        by_cases hk0 : k0 = k
        · subst hk0
          have : ¬ k0 = h := fun e => h2 e.symm
          simp [this]
        · have hne : ¬ k0 = h := fun e => h2 e.symm
          simp only [hk0, if_false, hne]
          exact ih hs.2

theorem lookup_take (k n : Nat) (l : List (Nat × σ)) (v : σ) (h : lookup k (l.take n) = some v) : lookup k l = some v := by
  induction l generalizing n with
  | nil => simp [lookup] at h
  | cons a t ih =>
    obtain ⟨k0, v0⟩ := a
    cases n with
    | zero => simp [lookup] at h
    | succ n =>
      simp only [List.take_succ_cons, lookup] at h ⊢
      split
      · rename_i he; simp only [he, if_true] at h; exact h
      · rename_i he; simp only [he, if_false] at h; exact ih n h

end DS.Theta

namespace DS.Theta
variable {σ V : Type}

theorem lookup_some_iff' (h : Nat) (l : List (Nat × σ)) : (∃ v, lookup h l = some v) ↔ h ∈ keys l := by
  constructor
  · rintro ⟨v, hv⟩
    apply Classical.byContradiction
    intro hc
    rw [(lookup_none_iff h l).2 hc] at hv
    cases hv
  · intro hm
    cases hl : lookup h l with
    | none => exact absurd hm ((lookup_none_iff h l).1 hl)
    | some v => exact ⟨v, rfl⟩

theorem rebuild_ents_prefix (c : Cfg) (s : St σ) : ∃ n, (rebuild c s).ents = s.ents.take n := by
  unfold rebuild
  split
  · exact ⟨_, rfl⟩
  · exact ⟨s.ents.length, by simp⟩

theorem afterInsert_ents_prefix (c : Cfg) (s : St σ) : ∃ n, (afterInsert c s).ents = s.ents.take n := by
  unfold afterInsert
  split
  · split
    · exact ⟨s.ents.length, by simp⟩
    · exact rebuild_ents_prefix c s
  · exact ⟨s.ents.length, by simp⟩

theorem trim_ents_prefix (c : Cfg) (s : St σ) : ∃ n, (trim c s).ents = s.ents.take n := by
  unfold trim
  split
  · exact rebuild_ents_prefix c s
  · exact ⟨s.ents.length, by simp⟩

/-- every stored summary is the fold of the values offered with its key -/
def FoldInv (create : σ) (update : σ → V → σ) (vf : Nat → List V) (s : St σ) : Prop :=
  ∀ k v, lookup k s.ents = some v → v = (vf k).foldl update create

theorem fold_step (c : Cfg) (create : σ) (update : σ → V → σ) (seen : List Nat) (vf : Nat → List V) (s : St σ) (op : TOp V)
    (hI : Inv c seen s) (hz : ∀ k, k ∉ seen → vf k = []) (hF : FoldInv create update vf s) :
    Inv c (seenStep seen (op.toOp create update)) (step c s (op.toOp create update)) ∧
    (∀ k, k ∉ seenStep seen (op.toOp create update) → valsStep vf op k = []) ∧
    FoldInv create update (valsStep vf op) (step c s (op.toOp create update)) := by
  refine ⟨inv_step c seen s _ hI, ?_, ?_⟩
  · cases op with
    | upd h v =>
      intro k hk
      simp only [TOp.toOp, seenStep, List.mem_append, List.mem_singleton, not_or] at hk
      simp only [valsStep, hk.2, if_false]
      exact hz k hk.1
    | trim => intro k hk; exact hz k hk
    | reset => intro k _; rfl
  · cases op with
    | upd h v =>
      simp only [TOp.toOp, step, offer]
      by_cases hsc : h = 0 ∨ s.theta ≤ h
      · simp only [hsc, if_true]
        intro k x hx
        have hkin : k ∈ keys s.ents := (lookup_some_iff' k s.ents).1 ⟨x, hx⟩
        have hk := (hI.mem k).1 hkin
        have hne : k ≠ h := by rintro rfl; rcases hsc with h0 | h0 <;> omega
        simp only [valsStep, hne, if_false]
        exact hF k x hx
      · simp only [hsc, if_false]
        have hpos : 0 < h := by omega
        have hlt : h < s.theta := by omega
        cases hlk : lookup h s.ents with
        | some old =>
          simp only
          intro k x hx
          rw [lookup_upsert h _ s.ents hI.sorted k] at hx
          by_cases hk : k = h
          · subst hk
            simp only [if_true, hlk, Option.getD_some, Option.some.injEq] at hx
            simp only [valsStep, if_true, List.foldl_append, List.foldl_cons, List.foldl_nil]
            rw [← hF k old hlk]; exact hx.symm
          · simp only [hk, if_false] at hx
            simp only [valsStep, hk, if_false]
            exact hF k x hx
        | none =>
          simp only
          have hnin : h ∉ keys s.ents := (lookup_none_iff h s.ents).1 hlk
          have hns : h ∉ seen := fun hm => hnin ((hI.mem h).2 ⟨hm, hpos, hlt⟩)
          obtain ⟨n, hn⟩ := afterInsert_ents_prefix c ({ theta := s.theta, ents := upsert h (fun o => update (o.getD create) v) s.ents, isEmpty := false, lgCur := s.lgCur } : St σ)
          intro k x hx
          rw [hn] at hx
          have hx' := lookup_take k n _ x hx
          simp only at hx'
          rw [lookup_upsert h _ s.ents hI.sorted k] at hx'
          by_cases hk : k = h
          · subst hk
            simp only [if_true, hlk, Option.getD_none, Option.some.injEq] at hx'
            simp only [valsStep, if_true, hz k hns, List.nil_append, List.foldl_cons, List.foldl_nil]
            exact hx'.symm
          · simp only [hk, if_false] at hx'
            simp only [valsStep, hk, if_false]
            exact hF k x hx'
    | trim =>
      simp only [TOp.toOp, step, valsStep]
      obtain ⟨n, hn⟩ := trim_ents_prefix c s
      intro k x hx
      rw [hn] at hx
      exact hF k x (lookup_take k n _ x hx)
    | reset =>
      simp only [TOp.toOp, step, reset, init]
      intro k x hx
      simp [lookup] at hx

theorem fold_foldl (c : Cfg) (create : σ) (update : σ → V → σ) (ops : List (TOp V)) :
    ∀ (seen : List Nat) (vf : Nat → List V) (s : St σ), Inv c seen s → (∀ k, k ∉ seen → vf k = []) → FoldInv create update vf s →
      FoldInv create update (ops.foldl valsStep vf) ((ops.map (TOp.toOp create update)).foldl (step c) s) := by
  induction ops with
  | nil => intro seen vf s _ _ hF; exact hF
  | cons op rest ih =>
    intro seen vf s hI hz hF
    obtain ⟨h1, h2, h3⟩ := fold_step c create update seen vf s op hI hz hF
    simp only [List.map_cons, List.foldl_cons]
    exact ih _ _ _ h1 h2 h3

end DS.Theta

/- C06: the exact-arithmetic instance of the numeric class used by the estimator models.
   `K` is any linearly ordered field; `sqrt / log / floor / ceil / pow` are supplied as functions (`MathFns`), the facts the
   theorems need about them are the fields of `MathFns.OK` (all true of the real functions: DSProofs/Lemmas/BoundsReal.lean). -/
import DSModel.Bounds.Num
import Mathlib.Algebra.Order.Field.Basic
import Mathlib.Tactic.Linarith
import Mathlib.Tactic.Positivity
import Mathlib.Tactic.Ring
import Mathlib.Tactic.FieldSimp
namespace DS.Bounds

structure MathFns (K : Type) where
  sqrt : K → K
  log : K → K
  floor : K → K
  ceil : K → K
  pow : K → K → K

variable {K : Type} [Field K] [LinearOrder K] [IsStrictOrderedRing K]

/-- the facts about the real functions that the C06 theorems use -/
structure MathFns.OK (F : MathFns K) : Prop where
  sqrt_nonneg : ∀ x, 0 ≤ F.sqrt x
  sqrt_sq : ∀ x, 0 ≤ x → F.sqrt x * F.sqrt x = x
  log_one : F.log 1 = 0
  log_lt : ∀ x y, 0 < x → x < y → F.log x < F.log y
  floor_mono : ∀ x y, x ≤ y → F.floor x ≤ F.floor y
  ceil_mono : ∀ x y, x ≤ y → F.ceil x ≤ F.ceil y
  le_ceil : ∀ x, x ≤ F.ceil x

/-- literals by their exact value num/den -/
def litK (t : Lit) : K := (t.2.1 : K) / (t.2.2 : K)

/-- the one fact about `pow` that is used (ICON exponential branch): r ≤ 0.7940236163830469·2^r for r ≥ 5 -/
def MathFns.ExpOK (F : MathFns K) : Prop := ∀ r : K, 5 ≤ r → r ≤ litK cIconExp * F.pow 2 r

@[reducible] def fieldNum (F : MathFns K) : BNum K where
  toAdd := inferInstance
  toSub := inferInstance
  toMul := inferInstance
  toDiv := inferInstance
  toNeg := inferInstance
  toLT := inferInstance
  toLE := inferInstance
  decLt := fun a b => inferInstance
  decLe := fun a b => inferInstance
  eqb := fun a b => decide (a = b)
  ofNat := fun n => (n : K)
  lit := litK
  sqrt := F.sqrt
  log := F.log
  floor := F.floor
  ceil := F.ceil
  pow := F.pow
  fmax := fun a b => max a b

end DS.Bounds

/-
The whole-stream specification `packFields` / `unpackFields` decomposes into whole blocks of 8 fields (exactly `eb`
bytes each: what the unrolled routines handle) plus a tail bit stream; with `BitPackLift` this makes the compressed
theta writer/reader "over the translated routines" equal to the specification writer/reader (helper lemmas).
-/
import DSProofs.Lemmas.BitPackLift
import DSModel.Wire.ThetaV4IR
namespace DS.Wire.BitPack
open DSGen.BitPackIR

theorem joinFields_append (eb : Nat) (l1 l2 : List Nat) :
    joinFields eb (l1 ++ l2) = joinFields eb l1 * 2 ^ (eb * l2.length) + joinFields eb l2 := by
  induction l1 with
  | nil => simp [joinFields]
  | cons d t ih =>
    simp only [List.cons_append, joinFields, List.length_append, ih]
    rw [Nat.mul_add, Nat.pow_add, Nat.add_mul, Nat.mul_assoc, Nat.add_assoc]

theorem splitFields_append (eb a b A B : Nat) (hB : B < 2 ^ (eb * b)) :
    splitFields eb (a + b) (A * 2 ^ (eb * b) + B) = splitFields eb a A ++ splitFields eb b B := by
  induction a with
  | zero =>
    simp only [Nat.zero_add, splitFields, List.nil_append]
    rw [← splitFields_mod, Nat.add_comm, Nat.add_mul_mod_self_right, Nat.mod_eq_of_lt hB]
  | succ a ih =>
    have e : a + 1 + b = (a + b) + 1 := by omega
    rw [e]
    simp only [splitFields, List.cons_append]
    have hp : 2 ^ (eb * (a + b)) = 2 ^ (eb * b) * 2 ^ (eb * a) := by rw [← Nat.pow_add]; congr 1; rw [Nat.mul_add]; omega
    have hh : (A * 2 ^ (eb * b) + B) / 2 ^ (eb * (a + b)) = A / 2 ^ (eb * a) := by
      rw [hp, ← Nat.div_div_eq_div_mul, Nat.add_comm, Nat.add_mul_div_right _ _ (Nat.two_pow_pos _), Nat.div_eq_of_lt hB, Nat.zero_add]
    rw [hh, ih]

theorem wBe_eq_map (len x : Nat) : wBe len x = (splitFields 8 len x).map UInt8.ofNat := by
  induction len with
  | zero => rfl
  | succ n ih =>
    simp only [wBe, splitFields, List.map_cons, ih]
    have : (256 : Nat) ^ n = 2 ^ (8 * n) := (two_pow_8_mul n).symm
    rw [this]

theorem bytesForBits_add (eb x : Nat) : bytesForBits (eb * 8 + x) = eb + bytesForBits x := by
  unfold bytesForBits; omega

theorem splitFields_lt_len (eb n x : Nat) (l : List Nat) (h : splitFields eb n x = l) : l.length = n := by
  rw [← h, length_splitFields]

/-- a whole block of 8 fields occupies exactly `eb` bytes and can be packed on its own -/
theorem packFields_block (eb : Nat) (l1 l2 : List Nat) (h8 : l1.length = 8) (h2 : ∀ d ∈ l2, d < 2 ^ eb) :
    packFields eb (l1 ++ l2) = packFields eb l1 ++ packFields eb l2 := by
  unfold packFields
  simp only [List.length_append, h8]
  have hb : bytesForBits (eb * (8 + l2.length)) = eb + bytesForBits (eb * l2.length) := by
    rw [Nat.mul_add]; exact bytesForBits_add eb _
  have hb8 : bytesForBits (eb * 8) = eb := by
    have := bytesForBits_add eb 0
    simpa [bytesForBits] using this
  rw [hb, hb8]
  have hpad : 8 * (eb + bytesForBits (eb * l2.length)) - eb * (8 + l2.length) = 8 * bytesForBits (eb * l2.length) - eb * l2.length := by
    rw [Nat.mul_add, Nat.mul_add]; have := eight_bytesForBits (eb * l2.length); omega
  have hpad8 : 8 * eb - eb * 8 = 0 := by omega
  rw [hpad, hpad8, Nat.pow_zero, Nat.mul_one, joinFields_append, wBe_eq_map, wBe_eq_map, wBe_eq_map, ← List.map_append]
  congr 1
  have hle := eight_bytesForBits (eb * l2.length)
  have hj2 := joinFields_lt eb l2 h2
  -- (J1·2^(eb·m) + J2)·2^pad = J1·2^(8·L2) + J2·2^pad
  have hsum : (joinFields eb l1 * 2 ^ (eb * l2.length) + joinFields eb l2) * 2 ^ (8 * bytesForBits (eb * l2.length) - eb * l2.length)
      = joinFields eb l1 * 2 ^ (8 * bytesForBits (eb * l2.length)) + joinFields eb l2 * 2 ^ (8 * bytesForBits (eb * l2.length) - eb * l2.length) := by
    rw [Nat.add_mul, Nat.mul_assoc, ← Nat.pow_add]
    congr 3
    omega
  rw [hsum]
  apply splitFields_append
  calc joinFields eb l2 * 2 ^ (8 * bytesForBits (eb * l2.length) - eb * l2.length)
      < 2 ^ (eb * l2.length) * 2 ^ (8 * bytesForBits (eb * l2.length) - eb * l2.length) := Nat.mul_lt_mul_of_pos_right hj2 (Nat.two_pow_pos _)
    _ = 2 ^ (8 * bytesForBits (eb * l2.length)) := by rw [← Nat.pow_add]; congr 1; omega

/-- the blockwise writer equals the whole-stream specification whenever the block routine does on 8 fields -/
theorem packBlocksWith_eq (pack8 : List Nat → Bytes) (eb : Nat)
    (h8 : ∀ l, l.length = 8 → (∀ v ∈ l, v < 2 ^ eb) → pack8 l = packFields eb l) :
    ∀ ds, (∀ d ∈ ds, d < 2 ^ eb) → packBlocksWith pack8 eb ds = packFields eb ds := by
  intro ds
  induction ds using packBlocksWith.induct with
  | case1 a b c d e f g h rest ih =>
    intro hd
    rw [packBlocksWith]
    have hblock : ∀ v ∈ [a, b, c, d, e, f, g, h], v < 2 ^ eb := fun v hv => hd v (by simp at hv ⊢; omega)
    have hrest : ∀ v ∈ rest, v < 2 ^ eb := fun v hv => hd v (by simp [hv])
    rw [h8 _ rfl hblock, ih hrest]
    exact (packFields_block eb [a, b, c, d, e, f, g, h] rest rfl hrest).symm
  | case2 tail hne =>
    intro _
    rw [packBlocksWith]
    intro a b c d e f g h rest heq
    exact hne a b c d e f g h rest heq


/-! ### unpacking by blocks -/

theorem beNat_append (b1 b2 : Bytes) : beNat (b1 ++ b2) = beNat b1 * 256 ^ b2.length + beNat b2 := by
  induction b1 with
  | nil => simp [beNat]
  | cons x t ih =>
    simp only [List.cons_append, beNat, List.length_append, ih]
    rw [Nat.pow_add, Nat.add_mul, Nat.mul_assoc, Nat.add_assoc]

theorem beNat_lt (bs : Bytes) : beNat bs < 256 ^ bs.length := by
  induction bs with
  | nil => simp [beNat]
  | cons x t ih =>
    simp only [beNat, List.length_cons, Nat.pow_succ]
    have := x.toNat_lt
    calc x.toNat * 256 ^ t.length + beNat t < x.toNat * 256 ^ t.length + 256 ^ t.length := by omega
      _ = (x.toNat + 1) * 256 ^ t.length := by rw [Nat.add_mul, Nat.one_mul]
      _ ≤ 256 * 256 ^ t.length := Nat.mul_le_mul_right _ (by omega)
      _ = 256 ^ t.length * 256 := Nat.mul_comm _ _

theorem beNat_eq_joinFields (bs : Bytes) : beNat bs = joinFields 8 (bs.map (·.toNat)) := by
  induction bs with
  | nil => rfl
  | cons x t ih =>
    simp only [beNat, List.map_cons, joinFields, List.length_map, ih]
    rw [two_pow_8_mul]

theorem unpackFields_block (eb m : Nat) (b1 b2 : Bytes) (h1 : b1.length = eb) (h2 : b2.length = bytesForBits (eb * m)) :
    unpackFields eb (8 + m) (b1 ++ b2) = unpackFields eb 8 b1 ++ unpackFields eb m b2 := by
  unfold unpackFields
  simp only [List.length_append, h1, h2]
  have hle := eight_bytesForBits (eb * m)
  have hpad : 8 * (eb + bytesForBits (eb * m)) - eb * (8 + m) = 8 * bytesForBits (eb * m) - eb * m := by
    rw [Nat.mul_add, Nat.mul_add]; omega
  have hpad8 : 8 * eb - eb * 8 = 0 := by omega
  rw [hpad, hpad8, Nat.pow_zero, Nat.div_one, beNat_append, h2]
  have h256 : (256 : Nat) ^ bytesForBits (eb * m) = 2 ^ (eb * m) * 2 ^ (8 * bytesForBits (eb * m) - eb * m) := by
    rw [← two_pow_8_mul, ← Nat.pow_add]; congr 1; omega
  have hdiv : (beNat b1 * 256 ^ bytesForBits (eb * m) + beNat b2) / 2 ^ (8 * bytesForBits (eb * m) - eb * m)
      = beNat b1 * 2 ^ (eb * m) + beNat b2 / 2 ^ (8 * bytesForBits (eb * m) - eb * m) := by
    rw [h256, ← Nat.mul_assoc, Nat.add_comm, Nat.add_mul_div_right _ _ (Nat.two_pow_pos _), Nat.add_comm]
  rw [hdiv]
  apply splitFields_append
  rw [Nat.div_lt_iff_lt_mul (Nat.two_pow_pos _), ← h256, ← h2]
  exact beNat_lt b2

theorem unpackBlocksWith_eq (unpack8 : Bytes → List Nat) (eb : Nat) (h8 : ∀ b, b.length = eb → unpack8 b = unpackFields eb 8 b) :
    ∀ n bs, bs.length = bytesForBits (eb * n) → unpackBlocksWith unpack8 eb n bs = unpackFields eb n bs := by
  intro n
  induction n using Nat.strongRecOn with
  | ind n ih =>
    intro bs hlen
    by_cases h : 8 ≤ n
    · obtain ⟨m, rfl⟩ : ∃ m, n = m + 8 := ⟨n - 8, by omega⟩
      rw [unpackBlocksWith]
      have hb : bytesForBits (eb * (m + 8)) = eb + bytesForBits (eb * m) := by
        rw [Nat.mul_add, Nat.add_comm]; exact bytesForBits_add eb _
      rw [hb] at hlen
      have ht : (bs.take eb).length = eb := by rw [List.length_take]; omega
      have hd : (bs.drop eb).length = bytesForBits (eb * m) := by rw [List.length_drop]; omega
      rw [h8 _ ht, ih m (by omega) _ hd]
      have := unpackFields_block eb m (bs.take eb) (bs.drop eb) ht hd
      rw [List.take_append_drop, Nat.add_comm 8 m] at this
      exact this.symm
    · match n, h with
      | 0, _ => rw [unpackBlocksWith]; intro m hm; omega
      | 1, _ => rw [unpackBlocksWith]; intro m hm; omega
      | 2, _ => rw [unpackBlocksWith]; intro m hm; omega
      | 3, _ => rw [unpackBlocksWith]; intro m hm; omega
      | 4, _ => rw [unpackBlocksWith]; intro m hm; omega
      | 5, _ => rw [unpackBlocksWith]; intro m hm; omega
      | 6, _ => rw [unpackBlocksWith]; intro m hm; omega
      | 7, _ => rw [unpackBlocksWith]; intro m hm; omega
      | k + 8, h => omega

/-! ### the translated block routines are the specification on 8 fields -/

theorem packFields_eight (n : Nat) (l : List Nat) (h8 : l.length = 8) : packFields n l = wBe n (joinFields n l) := by
  unfold packFields
  simp only [h8]
  have hb8 : bytesForBits (n * 8) = n := by
    have := bytesForBits_add n 0
    simpa [bytesForBits] using this
  have hpad8 : 8 * n - n * 8 = 0 := by omega
  rw [hb8, hpad8, Nat.pow_zero, Nat.mul_one]

theorem irPack8_eq (n : Nat) (h1 : 1 ≤ n) (h63 : n ≤ 63) (l : List Nat) (h8 : l.length = 8) (hv : ∀ v ∈ l, v < 2 ^ n) :
    irPack8 n l = packFields n l := by
  unfold irPack8
  rw [(dispatch_eval n h1 h63).1]
  obtain ⟨pk, hl, he⟩ := pack_eval_zero_filled n h1 h63 l h8 hv (List.replicate n 0) (by simp) (by intro x hx; exact (List.mem_replicate.1 hx).2)
  simp only [hl, he]
  rw [packFields_eight n l h8, wBe_eq_map]

theorem irUnpack8_eq (n : Nat) (h1 : 1 ≤ n) (h63 : n ≤ 63) (b : Bytes) (hb : b.length = n) : irUnpack8 n b = unpackFields n 8 b := by
  unfold irUnpack8
  rw [(dispatch_eval n h1 h63).2]
  obtain ⟨up, hl, he⟩ := unpack_eval n h1 h63 (b.map (·.toNat)) (by simp [hb])
    (by intro x hx; simp only [List.mem_map] at hx; obtain ⟨y, _, rfl⟩ := hx; exact y.toNat_lt)
    (List.replicate 8 0) (by simp) (by intro x hx; rw [(List.mem_replicate.1 hx).2]; exact Nat.two_pow_pos _)
  simp only [hl, he]
  unfold unpackFields
  have hpad8 : 8 * b.length - n * 8 = 0 := by omega
  rw [hpad8, Nat.pow_zero, Nat.div_one, beNat_eq_joinFields]

end DS.Wire.BitPack

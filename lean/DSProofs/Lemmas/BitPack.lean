/-
Specification-level facts about the MSB-first bit stream: big-endian bytes, field join/split round trips,
`unpackFields (packFields ds) = ds`, width adequacy (helper lemmas).
-/
import DSModel.Wire.BitPack
import DSProofs.Lemmas.Wire
namespace DS.Wire.BitPack
open DS.Wire

theorem length_wBe (len x : Nat) : (wBe len x).length = len := by
  induction len with
  | zero => rfl
  | succ n ih => simp [wBe, ih]

theorem beNat_wBe_mod (len x : Nat) : beNat (wBe len x) = x % 256 ^ len := by
  induction len with
  | zero => simp [wBe, beNat, Nat.mod_one]
  | succ n ih =>
    simp only [wBe, beNat, length_wBe, ih]
    have h256 : (UInt8.ofNat (x / 256 ^ n % 256)).toNat = x / 256 ^ n % 256 := by
      simp [UInt8.toNat_ofNat', Nat.mod_mod_of_dvd]
    rw [h256, Nat.mod_pow_succ, Nat.mul_comm, Nat.add_comm]

theorem beNat_wBe (len x : Nat) (h : x < 256 ^ len) : beNat (wBe len x) = x := by
  rw [beNat_wBe_mod, Nat.mod_eq_of_lt h]

theorem two_pow_8_mul (len : Nat) : 2 ^ (8 * len) = 256 ^ len := by
  rw [Nat.pow_mul]

/-! ### fields -/

theorem joinFields_lt (eb : Nat) (ds : List Nat) (h : ∀ d ∈ ds, d < 2 ^ eb) : joinFields eb ds < 2 ^ (eb * ds.length) := by
  induction ds with
  | nil => simp [joinFields]
  | cons d t ih =>
    have hd : d < 2 ^ eb := h d (by simp)
    have ht := ih (fun x hx => h x (by simp [hx]))
    simp only [joinFields, List.length_cons]
    have : 2 ^ (eb * (t.length + 1)) = 2 ^ eb * 2 ^ (eb * t.length) := by
      rw [Nat.mul_succ, Nat.pow_add, Nat.mul_comm]
    rw [this]
    calc d * 2 ^ (eb * t.length) + joinFields eb t
        < d * 2 ^ (eb * t.length) + 2 ^ (eb * t.length) := by omega
      _ = (d + 1) * 2 ^ (eb * t.length) := by rw [Nat.add_mul, Nat.one_mul]
      _ ≤ 2 ^ eb * 2 ^ (eb * t.length) := Nat.mul_le_mul_right _ hd

theorem splitFields_mod (eb : Nat) : ∀ n x, splitFields eb n (x % 2 ^ (eb * n)) = splitFields eb n x := by
  intro n
  induction n with
  | zero => intro x; rfl
  | succ n ih =>
    intro x
    simp only [splitFields]
    have hpow : 2 ^ (eb * (n + 1)) = 2 ^ (eb * n) * 2 ^ eb := by rw [Nat.mul_succ, Nat.pow_add]
    congr 1
    · rw [hpow, Nat.mod_mul_right_div_self, Nat.mod_mod]
    · rw [← ih (x % 2 ^ (eb * (n + 1))), ← ih x]
      congr 1
      rw [hpow]
      exact Nat.mod_mul_right_mod x (2 ^ (eb * n)) (2 ^ eb)

theorem splitFields_joinFields (eb : Nat) (ds : List Nat) (h : ∀ d ∈ ds, d < 2 ^ eb) :
    splitFields eb ds.length (joinFields eb ds) = ds := by
  induction ds with
  | nil => rfl
  | cons d t ih =>
    have hd : d < 2 ^ eb := h d (by simp)
    have ht : ∀ x ∈ t, x < 2 ^ eb := fun x hx => h x (by simp [hx])
    have hj := joinFields_lt eb t ht
    simp only [List.length_cons, splitFields, joinFields]
    congr 1
    · rw [Nat.add_comm, Nat.add_mul_div_right _ _ (Nat.two_pow_pos _), Nat.div_eq_of_lt hj, Nat.zero_add, Nat.mod_eq_of_lt hd]
    · rw [← splitFields_mod, Nat.add_comm, Nat.add_mul_mod_self_right, Nat.mod_eq_of_lt hj]
      exact ih ht

theorem length_splitFields (eb n x : Nat) : (splitFields eb n x).length = n := by
  induction n with
  | zero => rfl
  | succ n ih => simp [splitFields, ih]

theorem eight_bytesForBits (b : Nat) : b ≤ 8 * bytesForBits b := by
  unfold bytesForBits; omega

theorem length_packFields (eb : Nat) (ds : List Nat) : (packFields eb ds).length = bytesForBits (eb * ds.length) := by
  simp [packFields, length_wBe]

/-- **bit-packing round trip at specification level** -/
theorem unpackFields_packFields (eb : Nat) (ds : List Nat) (h : ∀ d ∈ ds, d < 2 ^ eb) :
    unpackFields eb ds.length (packFields eb ds) = ds := by
  unfold unpackFields
  rw [length_packFields]
  unfold packFields
  simp only
  have hle := eight_bytesForBits (eb * ds.length)
  have hj := joinFields_lt eb ds h
  have hlt : joinFields eb ds * 2 ^ (8 * bytesForBits (eb * ds.length) - eb * ds.length) < 256 ^ bytesForBits (eb * ds.length) := by
    rw [← two_pow_8_mul]
    calc joinFields eb ds * 2 ^ (8 * bytesForBits (eb * ds.length) - eb * ds.length)
        < 2 ^ (eb * ds.length) * 2 ^ (8 * bytesForBits (eb * ds.length) - eb * ds.length) :=
          Nat.mul_lt_mul_of_pos_right hj (Nat.two_pow_pos _)
      _ = 2 ^ (8 * bytesForBits (eb * ds.length)) := by rw [← Nat.pow_add]; congr 1; omega
  rw [beNat_wBe _ _ hlt, Nat.mul_div_cancel _ (Nat.two_pow_pos _)]
  exact splitFields_joinFields eb ds h

end DS.Wire.BitPack

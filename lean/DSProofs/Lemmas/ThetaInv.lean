/- Invariant of the theta update model and its preservation by every operation. -/
import DSProofs.Lemmas.Theta
namespace DS.Theta

variable {σ : Type}

/-- hashes offered since the last reset (oldest first) -/
def seenStep (seen : List Nat) : Op σ → List Nat
  | .upd h _ => seen ++ [h]
  | .trim => seen
  | .reset => []
def seenOf (ops : List (Op σ)) : List Nat := ops.foldl seenStep []

structure Inv (c : Cfg) (seen : List Nat) (s : St σ) : Prop where
  sorted    : (keys s.ents).Pairwise (· < ·)
  mem       : ∀ x, x ∈ keys s.ents ↔ (x ∈ seen ∧ 0 < x ∧ x < s.theta)
  theta_le  : s.theta ≤ c.theta0
  theta_mem : s.theta = c.theta0 ∨ (s.theta ∈ seen ∧ 0 < s.theta)
  klen      : s.theta < c.theta0 → 2^c.lgNom ≤ s.ents.length
  empty_nil : s.isEmpty = true → seen = []

theorem inv_init (c : Cfg) : Inv c [] (init c : St σ) where
  sorted := by simp [init]
  mem := by simp [init]
  theta_le := by simp [init]
  theta_mem := Or.inl rfl
  klen := by simp [init]
  empty_nil := fun _ => rfl

theorem inv_rebuild (c : Cfg) (seen : List Nat) (s : St σ) (h : Inv c seen s) : Inv c seen (rebuild c s) := by
  unfold rebuild
  split
  · rename_i t ht
    have htm : t ∈ keys s.ents := List.mem_of_getElem? ht
    have ht' := (h.mem t).1 htm
    have hklt : 2^c.lgNom < (keys s.ents).length := by
      have := List.getElem?_eq_some_iff.1 ht; exact this.1
    constructor
    · simp only [keys_take]; exact pairwise_take _ _ h.sorted
    · intro x
      simp only [keys_take]
      rw [mem_take_sorted _ h.sorted _ t ht, h.mem]
      constructor
      · rintro ⟨⟨h1, h2, _⟩, h4⟩; exact ⟨h1, h2, h4⟩
      · rintro ⟨h1, h2, h3⟩; exact ⟨⟨h1, h2, Nat.lt_trans h3 ht'.2.2⟩, h3⟩
    · exact Nat.le_trans (Nat.le_of_lt ht'.2.2) h.theta_le
    · exact Or.inr ⟨ht'.1, ht'.2.1⟩
    · intro _
      simp only [List.length_take]
      simp only [keys_length] at hklt
      omega
    · exact h.empty_nil
  · exact h

theorem rebuild_theta_le (c : Cfg) (seen : List Nat) (s : St σ) (h : Inv c seen s) : (rebuild c s).theta ≤ s.theta := by
  unfold rebuild
  split
  · rename_i t ht
    have htm : t ∈ keys s.ents := List.mem_of_getElem? ht
    exact Nat.le_of_lt ((h.mem t).1 htm).2.2
  · exact Nat.le_refl _

theorem rebuild_isEmpty (c : Cfg) (s : St σ) : (rebuild c s).isEmpty = s.isEmpty := by
  unfold rebuild; split <;> rfl

theorem inv_afterInsert (c : Cfg) (seen : List Nat) (s : St σ) (h : Inv c seen s) : Inv c seen (afterInsert c s) := by
  unfold afterInsert
  split
  · split
    · exact ⟨h.sorted, h.mem, h.theta_le, h.theta_mem, h.klen, h.empty_nil⟩
    · exact inv_rebuild c seen s h
  · exact h

theorem afterInsert_theta_le (c : Cfg) (seen : List Nat) (s : St σ) (h : Inv c seen s) : (afterInsert c s).theta ≤ s.theta := by
  unfold afterInsert
  split
  · split
    · exact Nat.le_refl _
    · exact rebuild_theta_le c seen s h
  · exact Nat.le_refl _

theorem afterInsert_isEmpty (c : Cfg) (s : St σ) : (afterInsert c s).isEmpty = s.isEmpty := by
  unfold afterInsert
  split
  · split
    · rfl
    · exact rebuild_isEmpty c s
  · rfl

/-- weakening `seen` by one more offered hash that is screened out or already accounted for -/
theorem inv_offer (c : Cfg) (seen : List Nat) (s : St σ) (hash : Nat) (f : Option σ → σ)
    (h : Inv c seen s) : Inv c (seen ++ [hash]) (offer c s hash f) := by
  have hth : s.theta = c.theta0 ∨ (s.theta ∈ seen ++ [hash] ∧ 0 < s.theta) := by
    rcases h.theta_mem with h1 | h1
    · exact Or.inl h1
    · exact Or.inr ⟨List.mem_append_left _ h1.1, h1.2⟩
  unfold offer
  simp only
  split
  · -- screened out
    rename_i hsc
    refine ⟨h.sorted, ?_, h.theta_le, hth, h.klen, by simp⟩
    intro x
    rw [h.mem]
    simp only [List.mem_append, List.mem_singleton]
    constructor
    · rintro ⟨h1, h2, h3⟩; exact ⟨Or.inl h1, h2, h3⟩
    · rintro ⟨h1 | h1, h2, h3⟩
      · exact ⟨h1, h2, h3⟩
      · subst h1; omega
  · rename_i hsc
    have hpos : 0 < hash := by omega
    have hlt : hash < s.theta := by omega
    have hmem' : ∀ x, x ∈ keys (upsert hash f s.ents) ↔ (x ∈ seen ++ [hash] ∧ 0 < x ∧ x < s.theta) := by
      intro x
      rw [mem_keys_upsert, h.mem]
      simp only [List.mem_append, List.mem_singleton]
      constructor
      · rintro (rfl | ⟨h1, h2, h3⟩)
        · exact ⟨Or.inr rfl, hpos, hlt⟩
        · exact ⟨Or.inl h1, h2, h3⟩
      · rintro ⟨h1 | h1, h2, h3⟩
        · exact Or.inr ⟨h1, h2, h3⟩
        · exact Or.inl h1
    split
    · -- key present: payload updated only
      rename_i v hv
      have hin : hash ∈ keys s.ents := by
        apply Classical.byContradiction
        intro hc
        rw [(lookup_none_iff hash s.ents).2 hc] at hv
        cases hv
      refine ⟨sorted_upsert _ _ _ h.sorted, hmem', h.theta_le, hth, ?_, by simp⟩
      intro hlt'
      simp only [length_upsert_old _ _ _ hin h.sorted]
      exact h.klen hlt'
    · rename_i hv
      have hnin : hash ∉ keys s.ents := (lookup_none_iff hash s.ents).1 hv
      apply inv_afterInsert
      refine ⟨sorted_upsert _ _ _ h.sorted, hmem', h.theta_le, hth, ?_, by simp⟩
      intro hlt'
      simp only [length_upsert_new _ _ _ hnin]
      have := h.klen hlt'
      omega

theorem offer_theta_le (c : Cfg) (seen : List Nat) (s : St σ) (hash : Nat) (f : Option σ → σ)
    (h : Inv c seen s) : (offer c s hash f).theta ≤ s.theta := by
  have hI := inv_offer c seen s hash f h
  unfold offer
  simp only
  split
  · exact Nat.le_refl _
  · rename_i hsc
    split
    · exact Nat.le_refl _
    · rename_i hv
      have hnin : hash ∉ keys s.ents := (lookup_none_iff hash s.ents).1 hv
      -- the intermediate state satisfies the invariant with seen ++ [hash]
      have hpos : 0 < hash := by omega
      have hlt : hash < s.theta := by omega
      have hmid : Inv c (seen ++ [hash]) ({ theta := s.theta, ents := upsert hash f s.ents, isEmpty := false, lgCur := s.lgCur } : St σ) := by
        refine ⟨sorted_upsert _ _ _ h.sorted, ?_, h.theta_le, ?_, ?_, by simp⟩
        · intro x
          rw [mem_keys_upsert, h.mem]
          simp only [List.mem_append, List.mem_singleton]
          constructor
          · rintro (rfl | ⟨h1, h2, h3⟩)
            · exact ⟨Or.inr rfl, hpos, hlt⟩
            · exact ⟨Or.inl h1, h2, h3⟩
          · rintro ⟨h1 | h1, h2, h3⟩
            · exact Or.inr ⟨h1, h2, h3⟩
            · exact Or.inl h1
        · rcases h.theta_mem with h1 | h1
          · exact Or.inl h1
          · exact Or.inr ⟨List.mem_append_left _ h1.1, h1.2⟩
        · intro hlt'
          simp only [length_upsert_new _ _ _ hnin]
          have := h.klen hlt'
          omega
      exact afterInsert_theta_le c _ _ hmid

theorem inv_trim (c : Cfg) (seen : List Nat) (s : St σ) (h : Inv c seen s) : Inv c seen (trim c s) := by
  unfold trim; split
  · exact inv_rebuild c seen s h
  · exact h

theorem trim_theta_le (c : Cfg) (seen : List Nat) (s : St σ) (h : Inv c seen s) : (trim c s).theta ≤ s.theta := by
  unfold trim; split
  · exact rebuild_theta_le c seen s h
  · exact Nat.le_refl _

theorem trim_length_le (c : Cfg) (seen : List Nat) (s : St σ) (_h : Inv c seen s) : (trim c s).ents.length ≤ 2^c.lgNom := by
  unfold trim; split
  · rename_i hgt
    unfold rebuild
    split
    · simp only [List.length_take]; omega
    · rename_i hn
      have : (keys s.ents)[2^c.lgNom]? ≠ none := by
        rw [Ne, List.getElem?_eq_none_iff]; simp only [keys_length]; omega
      exact absurd hn this
  · omega

theorem inv_step (c : Cfg) (seen : List Nat) (s : St σ) (op : Op σ) (h : Inv c seen s) :
    Inv c (seenStep seen op) (step c s op) := by
  cases op with
  | upd hash f => exact inv_offer c seen s hash f h
  | trim => exact inv_trim c seen s h
  | reset => exact inv_init c

theorem inv_foldl (c : Cfg) (ops : List (Op σ)) : ∀ (seen : List Nat) (s : St σ), Inv c seen s →
    Inv c (ops.foldl seenStep seen) (ops.foldl (step c) s) := by
  induction ops with
  | nil => intro seen s h; exact h
  | cons op rest ih => intro seen s h; exact ih _ _ (inv_step c seen s op h)

theorem inv_run (c : Cfg) (ops : List (Op σ)) : Inv c (seenOf ops) (run c ops) :=
  inv_foldl c ops [] (init c) (inv_init c)

theorem run_snoc (c : Cfg) (ops : List (Op σ)) (op : Op σ) : run c (ops ++ [op]) = step c (run c ops) op := by
  simp [run, List.foldl_append]

theorem seenOf_snoc (ops : List (Op σ)) (op : Op σ) : seenOf (ops ++ [op]) = seenStep (seenOf ops) op := by
  simp [seenOf, List.foldl_append]

end DS.Theta

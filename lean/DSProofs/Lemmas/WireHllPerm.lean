/- The documented table-order freedom: the API content of an image does not depend on the order of the entries of
its unordered table (compact set coupons; HLL_4 aux entries with pairwise distinct slots). -/
import DSProofs.Lemmas.WireHllSize

namespace DS

theorem insertNat_comm (x y : Nat) : ∀ l : List Nat, insertNat x (insertNat y l) = insertNat y (insertNat x l)
  | [] => by
    simp only [insertNat]
    by_cases h1 : x ≤ y <;> by_cases h2 : y ≤ x <;> simp [insertNat, h1, h2]
    · omega
    · omega
  | z :: t => by
    have ih := insertNat_comm x y t
    by_cases hxz : x ≤ z <;> by_cases hyz : y ≤ z <;> by_cases hxy : x ≤ y <;> by_cases hyx : y ≤ x <;>
      simp [insertNat, hxz, hyz, hxy, hyx, ih] <;> omega

theorem sortNat_perm {l l' : List Nat} (h : l.Perm l') : sortNat l = sortNat l' := by
  induction h with
  | nil => rfl
  | cons x _ ih => simp only [sortNat, List.foldr_cons] at ih ⊢; rw [ih]
  | swap x y l => simp only [sortNat, List.foldr_cons]; exact insertNat_comm y x _
  | trans _ _ ih1 ih2 => exact ih1.trans ih2

end DS

namespace DS.Wire.Hll
open DS

theorem couponsStr_perm {l l' : List Nat} (h : l.Perm l') : couponsStr l = couponsStr l' := by
  unfold couponsStr
  rw [sortNat_perm h]
  have : l.isEmpty = l'.isEmpty := by
    cases l with
    | nil => rw [List.Perm.nil_eq h]
    | cons a t =>
      cases l' with
      | nil => exact absurd (List.Perm.eq_nil h) (by simp)
      | cons b u => rfl
  rw [this]

/-- `find?` of a predicate satisfied by at most one element does not depend on the order -/
theorem find?_perm_of_unique {α : Type} (p : α → Bool) {l l' : List α} (h : l.Perm l')
    (hu : ∀ a ∈ l, ∀ b ∈ l, p a = true → p b = true → a = b) : l.find? p = l'.find? p := by
  cases h1 : l.find? p with
  | none =>
    have hn : ∀ a ∈ l, ¬ p a = true := by simpa [List.find?_eq_none] using h1
    symm
    rw [List.find?_eq_none]
    intro a ha
    exact hn a (h.mem_iff.mpr ha)
  | some a =>
    have ha := List.mem_of_find?_eq_some h1
    have hpa := List.find?_some h1
    cases h2 : l'.find? p with
    | none =>
      have hn : ∀ b ∈ l', ¬ p b = true := by simpa [List.find?_eq_none] using h2
      exact absurd hpa (hn a (h.mem_iff.mp ha))
    | some b =>
      have hb := h.mem_iff.mpr (List.mem_of_find?_eq_some h2)
      have hpb := List.find?_some h2
      rw [hu a ha b hb hpa hpb]

end DS.Wire.Hll

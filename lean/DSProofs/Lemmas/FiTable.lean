/- First L2 facts about the reverse-purge table model (DSModel/Fi/Table.lean): the purge sample and its median.
   (free to change; property statements live in Props/C12.lean) -/
import DSModel.Fi.Table
import DSProofs.Lemmas.FiMap
namespace DS.Fi
set_option linter.unusedSectionVars false

theorem sortNat_perm_eq {l m : List Nat} (h : l.Perm m) : sortNat l = sortNat m :=
  List.Perm.eq_of_pairwise (fun _ _ _ _ h1 h2 => Nat.le_antisymm h1 h2) (sorted_sortNat l) (sorted_sortNat m)
    ((perm_sortNat l).trans (h.trans (perm_sortNat m).symm))

/-- the median does not depend on the order in which the counters are listed -/
theorem medianOf_perm {l m : List Nat} (h : l.Perm m) : medianOf l = medianOf m := by
  unfold medianOf
  rw [sortNat_perm_eq h, h.length_eq]

/-- when the whole table fits the purge sample, `purge()` samples every counter -/
theorem Tab.sample_all (T : Tun) (t : Tab) (h1 : t.activeIdx.length = t.numActive) (h2 : t.numActive ≤ T.maxSample) :
    t.sample T = DS.Fi.vals t.entries := by
  unfold Tab.sample Tab.entries DS.Fi.vals
  rw [List.take_of_length_le (by omega)]
  simp [List.map_map, Function.comp_def]

/-- … and its purge amount is the median of all counters, however the abstract map lists them -/
theorem Tab.sampleMedian_eq_all (T : Tun) (t : Tab) (h1 : t.activeIdx.length = t.numActive)
    (h2 : t.numActive ≤ T.maxSample) (m : Map Nat) (hp : m.Perm t.entries) :
    t.sampleMedian T = purgeAmountAll m := by
  unfold Tab.sampleMedian purgeAmountAll
  rw [Tab.sample_all T t h1 h2]
  exact medianOf_perm (hp.map _).symm

end DS.Fi

/-
Per-sketch consequences of the invariant for the classic quantiles sketch: the sorted view (total, order, rank =
weight below), exact mode (ranks and quantiles of the input multiset), retained count, rejected queries.
-/
import DSProofs.Lemmas.QuantilesView
import DSProofs.Lemmas.QuantilesRel
namespace DS.Quantiles

open DS.SortedView

variable {α : Type}

theorem sortBB_flag (c : Cmp α) (s : Sketch α) : (s.sortBB c).bbSorted = true := by
  unfold Sketch.sortBB
  by_cases h : s.bbSorted = true <;> simp [h]

theorem cumulate_items (raw : List (α × Nat)) (acc : Nat) : (cumulate acc raw).map (·.1) = raw.map (·.1) := by
  induction raw generalizing acc with
  | nil => rfl
  | cons e t ih => obtain ⟨x, w⟩ := e; simp [cumulate, ih]

section
variable {c : Cmp α} (hlt : SWO c.lt) {s : Sketch α} (h : Inv c (Sorted c.lt) s)
include hlt h

theorem rawView_sortBB_sorted : SortedE c.lt ((s.sortBB c).rawView c) := by
  have h' := sortBB_inv (sortOK_sorted hlt) h
  exact rawView_sorted hlt (h'.bb_sorted (sortBB_flag c s)) h'.lv_shape.sorted

/-- the numerator of `get_rank(x, inclusive)` is the total weight of the retained items `≤ x` (resp. `< x`) -/
theorem view_rankNum (x : α) (incl : Bool) :
    SortedView.rankNum c.lt (s.view c) x incl = wSketch (belowP c.lt x incl) s := by
  unfold Sketch.view SortedView.rankNum SortedView.build
  simp only
  rw [go_cumulate, Nat.zero_add, prefW_eq_selW (belowP_down hlt x incl) (rawView_sortBB_sorted hlt h),
    selW_perm _ (rawView_perm c _), selW_expectedIter, wSketch_sortBB]

/-- the view's total weight is `n` -/
theorem view_total : (s.view c).total = s.n := by
  unfold Sketch.view SortedView.build
  simp only
  rw [total_eq, ((rawView_perm c (s.sortBB c)).map _).sum_nat,
    (expectedIter_facts (sortBB_inv (sortOK_sorted hlt) h)).2, (sortBB_fields c s).2.1]

/-- the view is ascending in the items and holds exactly the iterator's pairs -/
theorem view_sorted : Sorted c.lt ((s.view c).ents.map (·.1)) := by
  unfold Sketch.view SortedView.build
  simp only [cumulate_items]
  have := rawView_sortBB_sorted hlt h
  unfold SortedE at this
  unfold Sorted
  rw [List.pairwise_map]
  exact this

theorem view_length : (s.view c).ents.length = s.numRetained := by
  unfold Sketch.view SortedView.build
  simp only
  have : ∀ (raw : List (α × Nat)) (acc : Nat), (cumulate acc raw).length = raw.length := by
    intro raw
    induction raw with
    | nil => intro _; rfl
    | cons e t ih => intro acc; obtain ⟨x, w⟩ := e; simp [cumulate, ih]
  rw [this, (rawView_perm c _).length_eq, (expectedIter_facts (sortBB_inv (sortOK_sorted hlt) h)).1]
  obtain ⟨f1, f2, _⟩ := sortBB_fields c s
  simp [Sketch.numRetained, f1, f2]

end

/-! ### monotonicity of the rank numerator -/

theorem countP_mono_pred {p q : α → Bool} (hpq : ∀ e, p e = true → q e = true) (l : List α) : l.countP p ≤ l.countP q := by
  induction l with
  | nil => simp
  | cons x t ih =>
    simp only [List.countP_cons]
    by_cases hp : p x = true
    · simp only [hp, hpq x hp, if_true]; omega
    · simp only [hp, Bool.false_eq_true, if_false]
      by_cases hq : q x = true <;> simp [hq] <;> omega

theorem wLevels_mono {p q : α → Bool} (hpq : ∀ e, p e = true → q e = true) (W : Nat) (lv : List (List α)) :
    wLevels p W lv ≤ wLevels q W lv := by
  induction lv generalizing W with
  | nil => simp [wLevels]
  | cons l r ih =>
    simp only [wLevels]
    exact Nat.add_le_add (Nat.mul_le_mul_left _ (countP_mono_pred hpq l)) (ih (2 * W))

theorem wSketch_mono {p q : α → Bool} (hpq : ∀ e, p e = true → q e = true) (s : Sketch α) : wSketch p s ≤ wSketch q s :=
  Nat.add_le_add (countP_mono_pred hpq s.bb) (wLevels_mono hpq 2 s.levels)

theorem belowP_mono {lt : α → α → Bool} (hlt : SWO lt) {x y : α} (hxy : lt y x = false) (incl : Bool) (e : α)
    (h : belowP lt x incl e = true) : belowP lt y incl e = true := by
  cases incl with
  | true =>
    simp only [belowP, if_true, Bool.not_eq_true'] at h ⊢
    exact hlt.ntrans y x e hxy h
  | false =>
    simp only [belowP, Bool.false_eq_true, if_false] at h ⊢
    cases hey : lt e y with
    | true => rfl
    | false => have := hlt.ntrans e y x hey hxy; rw [h] at this; exact absurd this (by simp)

theorem belowP_excl_incl {lt : α → α → Bool} (hlt : SWO lt) (x e : α) (h : belowP lt x false e = true) :
    belowP lt x true e = true := by
  simp only [belowP, Bool.false_eq_true, if_false, if_true, Bool.not_eq_true'] at h ⊢
  cases hxe : lt x e with
  | false => rfl
  | true => have := hlt.trans e x e h hxe; rw [hlt.irrefl] at this; exact absurd this (by simp)

/-! ### retained count -/

theorem retained_formula {c : Cmp α} {S : List α → Prop} {s : Sketch α} (h : Inv c S s) :
    s.numRetained = s.bb.length + s.k * popcount s.bits ∧ s.bits = s.n / (2 * s.k) ∧
    s.bb.length + totalLen s.levels = s.numRetained := by
  refine ⟨?_, h.bits_eq, ?_⟩
  · simp [Sketch.numRetained, computeRetained, h.bb_len, h.bits_eq]
  · simp [Sketch.numRetained, computeRetained, h.bb_len, h.lv_shape.totalLen, h.bits_eq]

/-! ### exact mode -/

theorem qgo_exact (w : Nat) (incl : Bool) : ∀ (l : List α) (acc : Nat) (last : Option α),
    SortedView.quantGo w incl (cumulate acc (l.map (fun x => (x, 1)))) last =
      match l[(if incl then w - 1 else w) - acc]? with
      | some x => some x
      | none => (l.getLast?).or last := by
  intro l
  induction l with
  | nil => intro acc last; simp [cumulate, SortedView.quantGo]
  | cons x t ih =>
    intro acc last
    simp only [List.map_cons, cumulate, SortedView.quantGo]
    have hlast : (t.getLast?).or (some x) = ((x :: t).getLast?).or last := by
      rw [List.getLast?_cons]
      cases t.getLast? <;> simp
    cases incl with
    | true =>
      simp only [if_true]
      by_cases hc : acc + 1 < w
      · have : (w - 1 - acc) = (w - 1 - (acc + 1)) + 1 := by omega
        simp only [hc, decide_true, Bool.not_true, Bool.false_eq_true, if_false]
        rw [ih, this, List.getElem?_cons_succ, hlast]
        simp
      · have : w - 1 - acc = 0 := by omega
        simp [hc, this]
    | false =>
      simp only [Bool.false_eq_true, if_false]
      by_cases hc : w < acc + 1
      · have : w - acc = 0 := by omega
        simp [hc, this]
      · have : (w - acc) = (w - (acc + 1)) + 1 := by omega
        simp only [hc, decide_false, Bool.false_eq_true, if_false]
        rw [ih, this, List.getElem?_cons_succ, hlast]
        simp

/-- in exact mode (`n < 2k`) the view is the sorted list of ALL accepted items with weight 1 -/
theorem exact_view {c : Cmp α} (hlt : SWO c.lt) {s : Sketch α} {items : List α}
    (h : Inv c (Sorted c.lt) s) (hr : RelC c s items) (hex : s.n < 2 * s.k) :
    ∃ sorted : List α, sorted.Perm items ∧ Sorted c.lt sorted ∧
      (s.sortBB c).rawView c = sorted.map (fun x => (x, 1)) := by
  have hK : 0 < 2 * s.k := by have := h.kpos; omega
  have hb : s.bits = 0 := by rw [h.bits_eq]; exact (Nat.div_eq_zero_iff_lt hK).mpr hex
  have h' := sortBB_inv (sortOK_sorted hlt) h
  obtain ⟨_, _, f3, f4, _, _, f7⟩ := sortBB_fields c s
  have hlv : (s.sortBB c).levels = [] := by
    rw [f4]; exact List.eq_nil_of_length_eq_zero (by rw [h.lv_len, hb, bitLen_zero])
  refine ⟨(s.sortBB c).bb, f7.trans (hr.exact hb), h'.bb_sorted (sortBB_flag c s), ?_⟩
  simp [Sketch.rawView, hlv, addLevels, SortedView.add]

/-- exact mode: every rank is the true rank of the input multiset -/
theorem exact_rank {c : Cmp α} (hlt : SWO c.lt) {s : Sketch α} {items : List α}
    (h : Inv c (Sorted c.lt) s) (hr : RelC c s items) (hex : s.n < 2 * s.k) (x : α) (incl : Bool) :
    SortedView.rankNum c.lt (s.view c) x incl = items.countP (belowP c.lt x incl) ∧ (s.view c).total = items.length := by
  have hK : 0 < 2 * s.k := by have := h.kpos; omega
  have hb : s.bits = 0 := by rw [h.bits_eq]; exact (Nat.div_eq_zero_iff_lt hK).mpr hex
  have hlv : s.levels = [] := List.eq_nil_of_length_eq_zero (by rw [h.lv_len, hb, bitLen_zero])
  refine ⟨?_, by rw [view_total hlt h, hr.len]⟩
  rw [view_rankNum hlt h]
  simp [wSketch, hlv, wLevels, (hr.exact hb).countP_eq]

/-- exact mode: every quantile is an order statistic of the input multiset: for the integer weight threshold `w`
computed by the code (`⌈r·n⌉` inclusive, `⌊r·n⌋` exclusive) the answer is the element of index `w - 1`
(inclusive) / `w` (exclusive) of the sorted input, clamped to the last one -/
theorem exact_quantile {c : Cmp α} (hlt : SWO c.lt) {s : Sketch α} {items : List α}
    (h : Inv c (Sorted c.lt) s) (hr : RelC c s items) (hex : s.n < 2 * s.k) (w : Nat) (incl : Bool) :
    ∃ sorted : List α, sorted.Perm items ∧ Sorted c.lt sorted ∧
      SortedView.quantileAt (s.view c) w incl =
        match sorted[(if incl then w - 1 else w)]? with
        | some x => some x
        | none => sorted.getLast? := by
  obtain ⟨sorted, hp, hs, hraw⟩ := exact_view hlt h hr hex
  refine ⟨sorted, hp, hs, ?_⟩
  unfold Sketch.view SortedView.quantileAt SortedView.build
  simp only [hraw]
  rw [qgo_exact]
  simp

/-! ### rejected queries -/

theorem empty_rejected (c : Cmp α) {s : Sketch α} (hn : s.n = 0) (x : α) (incl : Bool) (cls : RankClass)
    (wOf : Nat → Nat) (sp : List α) :
    s.getRankNum c x incl = (s, .rejected) ∧ s.getQuantileCore c cls wOf incl = (s, .rejected) ∧
    s.getCDFNum c sp incl = (s, .rejected) := by
  simp [Sketch.getRankNum, Sketch.getQuantileCore, Sketch.getCDFNum, hn]

theorem rank_out_of_range_rejected (c : Cmp α) (s : Sketch α) (cls : RankClass) (hc : cls = .neg ∨ cls = .big)
    (wOf : Nat → Nat) (incl : Bool) : s.getQuantileCore c cls wOf incl = (s, .rejected) := by
  unfold Sketch.getQuantileCore
  by_cases hn : s.n = 0
  · simp [hn]
  · rcases hc with rfl | rfl <;> simp [hn, rankRejected]

theorem checkSplitPoints_nan (c : Cmp α) : ∀ (sp : List α) (x : α), x ∈ sp → c.nan x = true → checkSplitPoints c sp = false := by
  intro sp
  induction sp with
  | nil => intro x hx; simp at hx
  | cons a t ih =>
    intro x hx hnan
    cases t with
    | nil =>
      simp at hx; subst hx
      simp [checkSplitPoints, hnan]
    | cons b t' =>
      rcases List.mem_cons.mp hx with rfl | hx
      · simp [checkSplitPoints, hnan]
      · simp [checkSplitPoints, ih x hx hnan]

theorem checkSplitPoints_order (c : Cmp α) : ∀ (pre post : List α) (a b : α), c.lt a b = false →
    checkSplitPoints c (pre ++ a :: b :: post) = false := by
  intro pre
  induction pre with
  | nil => intro post a b hab; simp [checkSplitPoints, hab]
  | cons x t ih =>
    intro post a b hab
    cases t with
    | nil => simp [checkSplitPoints, hab]
    | cons y t' =>
      have := ih post a b hab
      simp only [List.cons_append] at this ⊢
      simp [checkSplitPoints, this]

theorem bad_splits_rejected (c : Cmp α) (s : Sketch α) (sp : List α) (incl : Bool)
    (hbad : checkSplitPoints c sp = false) : (s.getCDFNum c sp incl).2 = .rejected := by
  unfold Sketch.getCDFNum
  by_cases hn : s.n = 0
  · simp [hn]
  · simp [hn, hbad]

end DS.Quantiles

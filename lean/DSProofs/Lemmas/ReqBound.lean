/- retained < max_nom_size after every public operation (non-lazy compression, capacity-monotone section schedule).
   (Helper lemmas for C07.) -/
import DSProofs.Lemmas.ReqStore
namespace DS.Req

variable {ρ : Type}

def iterN (f : ρ → ρ) : Nat → ρ → ρ
  | 0, x => x
  | n + 1, x => f (iterN f n x)

/-- the section-size schedule never shrinks the nominal capacity: for every k the constructor can produce and every point of the
schedule raw_j = next^j (float k): `nearest_even (float k) = k`, and if the next section size is still ≥ MIN_K it is at least half
the current one (so doubling the number of sections does not reduce the capacity).  For the float code this is checked by execution
for every k and the whole schedule (`dsmodel_req selftest`); the kernel cannot evaluate Float32. -/
structure SecOK (T : Tun) (F : SecFns ρ) : Prop where
  init : ∀ k0, F.ne (F.ofNat (effectiveK T k0)) = effectiveK T k0
  grow : ∀ k0 j, T.minK ≤ F.ne (F.next (iterN F.next j (F.ofNat (effectiveK T k0)))) →
    F.ne (iterN F.next j (F.ofNat (effectiveK T k0))) ≤ 2 * F.ne (F.next (iterN F.next j (F.ofNat (effectiveK T k0))))

/-- the compactor's section parameters are a point of the schedule of the sketch's k -/
def SecInv (F : SecFns ρ) (k : Nat) (c : Compactor ρ) : Prop :=
  ∃ j, c.ssRaw = iterN F.next j (F.ofNat k) ∧ c.sectionSize = F.ne c.ssRaw

theorem ensureEnough_sec {T : Tun} {F : SecFns ρ} (hF : SecOK T F) (k0 : Nat) (c : Compactor ρ) (h : SecInv F (effectiveK T k0) c) :
    SecInv F (effectiveK T k0) (c.ensureEnough T F).1 ∧ c.nomCap T ≤ (c.ensureEnough T F).1.nomCap T := by
  obtain ⟨j, h1, h2⟩ := h
  simp only [Compactor.ensureEnough]
  split
  · rename_i hc
    refine ⟨⟨j + 1, by show F.next c.ssRaw = _; rw [h1]; rfl, rfl⟩, ?_⟩
    have hg := hF.grow k0 j (by rw [← h1]; exact hc.2)
    rw [← h1, ← h2] at hg
    show T.multiplier * c.numSections * c.sectionSize ≤ T.multiplier * (2 * c.numSections) * F.ne (F.next c.ssRaw)
    calc T.multiplier * c.numSections * c.sectionSize ≤ T.multiplier * c.numSections * (2 * F.ne (F.next c.ssRaw)) := Nat.mul_le_mul_left _ hg
      _ = T.multiplier * (2 * c.numSections) * F.ne (F.next c.ssRaw) := by
        simp only [Nat.mul_assoc, Nat.mul_left_comm 2]
  · exact ⟨⟨j, h1, h2⟩, Nat.le_refl _⟩

theorem ensureLoop_sec {T : Tun} {F : SecFns ρ} (hF : SecOK T F) (k0 : Nat) (fuel : Nat) (c : Compactor ρ) (h : SecInv F (effectiveK T k0) c) :
    SecInv F (effectiveK T k0) (Compactor.ensureLoop T F fuel c) := by
  induction fuel generalizing c with
  | zero => exact h
  | succ n ih =>
    simp only [Compactor.ensureLoop]; split
    · exact ih _ (ensureEnough_sec hF k0 c h).1
    · exact h

theorem sec_of_fields {F : SecFns ρ} {k : Nat} {c c' : Compactor ρ} (h : SecInv F k c) (h1 : c'.ssRaw = c.ssRaw) (h2 : c'.sectionSize = c.sectionSize) :
    SecInv F k c' := by
  obtain ⟨j, a, b⟩ := h; exact ⟨j, by rw [h1, a], by rw [h2, h1, b]⟩

/-- what one compaction leaves behind is below the (old, hence the new) nominal capacity -/
theorem compact_bound {T : Tun} (hT : TunOK T) {F : SecFns ρ} (hF : SecOK T F) (k0 : Nat) {hra : Bool} {h : Nat} {c nxt : Compactor ρ} (d : Bool)
    (hc : CInv T hra h c) (hsec : SecInv F (effectiveK T k0) c) (hsecn : SecInv F (effectiveK T k0) nxt)
    (hfull : c.nomCap T ≤ c.items.length) :
    (c.compact T F nxt d).cur.items.length < (c.compact T F nxt d).cur.nomCap T ∧
    SecInv F (effectiveK T k0) (c.compact T F nxt d).cur ∧ SecInv F (effectiveK T k0) (c.compact T F nxt d).nxt := by
  have rf := range_facts hT c hc.ns hc.ss hfull
  simp only at rf
  obtain ⟨r1, r2, r3, r4, r5, r6⟩ := rf
  have ⟨hs1, hs2⟩ := secs_bounds c hc.ns
  -- the kept part is smaller than the old capacity
  have hkept : c.items.length - ((c.compactionRange T).2 - (c.compactionRange T).1) < c.nomCap T := by
    have hY : c.sectionSize ≤ c.numSections * c.sectionSize := Nat.le_mul_of_pos_left _ (by have := hc.ns; omega)
    have hB : (c.numSections - c.secsToCompact) * c.sectionSize ≤ c.numSections * c.sectionSize - c.sectionSize := by
      have : (c.numSections - c.secsToCompact) ≤ c.numSections - 1 := by omega
      calc (c.numSections - c.secsToCompact) * c.sectionSize ≤ (c.numSections - 1) * c.sectionSize := Nat.mul_le_mul_right _ this
        _ = c.numSections * c.sectionSize - c.sectionSize := by rw [Nat.sub_mul, Nat.one_mul]
    have hX : 2 * (c.numSections * c.sectionSize) ≤ c.nomCap T := by
      unfold Compactor.nomCap; rw [Nat.mul_assoc]; exact Nat.mul_le_mul_right _ hT.mult2
    have hss := hc.ss
    revert r1 r2 r3 r4 r5 r6
    simp only [Compactor.compactionRange]
    generalize c.nomCap T = X at *
    generalize (c.numSections - c.secsToCompact) * c.sectionSize = B at *
    generalize c.numSections * c.sectionSize = Y at *
    generalize c.items.length = len at *
    cases c.hra <;> simp only [Bool.false_eq_true, if_false, if_true] <;> split <;> intros <;> omega
  have hlo : (c.compactionRange T).1 ≤ (c.compactionRange T).2 := by omega
  have hsec1 : SecInv F (effectiveK T k0)
      ({ c with coin := if c.state % 2 = 1 then !c.coin else d,
                items := c.items.take (c.compactionRange T).1 ++ c.items.drop (c.compactionRange T).2,
                state := c.state + 1, rnd := if c.state % 2 = 1 then c.rnd else true } : Compactor ρ) :=
    sec_of_fields hsec rfl rfl
  have e := ensureEnough_sec hF k0 _ hsec1
  refine ⟨?_, ?_, ?_⟩
  · simp only [Compactor.compact]
    rw [(ensureEnough_items T F _).1]
    have hk := length_kept c.items _ _ hlo r2
    have e2 : c.nomCap T ≤ _ := e.2
    simp only [hk]
    omega
  · simp only [Compactor.compact]; exact e.1
  · exact sec_of_fields hsecn rfl rfl

def AllSec (F : SecFns ρ) (k : Nat) (cs : List (Compactor ρ)) : Prop := ∀ c ∈ cs, SecInv F k c
def AllBelow (T : Tun) (cs : List (Compactor ρ)) : Prop := ∀ c ∈ cs, c.items.length < c.nomCap T

theorem mk'_sec {T : Tun} {F : SecFns ρ} (hF : SecOK T F) (k0 : Nat) (hra : Bool) (lg : Nat) (d : Bool) :
    SecInv F (effectiveK T k0) (Compactor.mkC T F hra lg (effectiveK T k0) d) := by
  obtain ⟨_, _, _, _, _, a6, _, _, a9, _⟩ := mkC_fields T F hra lg (effectiveK T k0) d
  exact ⟨0, a9, by rw [a6, a9]; exact (hF.init k0).symm⟩

theorem sort_sec {F : SecFns ρ} {k : Nat} {c : Compactor ρ} (h : SecInv F k c) : SecInv F k c.sort :=
  sec_of_fields h (sort_fields c).2.2.2.2.2.2.2.2 (sort_fields c).2.2.2.1

/-- with non-lazy compression and enough fuel every level ends below its nominal capacity -/
theorem compressLoop_bound {T : Tun} (hT : TunOK T) (hlazy : T.lazy = false) {F : SecFns ρ} (hF : SecOK T F) (k0 : Nat) (hra : Bool) :
    ∀ (fuel h : Nat) (todo : List (Compactor ρ)) (ctr : Ctr) (acc : Acc),
      CsInv T hra h todo → AllSec F (effectiveK T k0) todo → sumItems todo + todo.length ≤ fuel →
      AllBelow T (compressLoop T F hra (effectiveK T k0) fuel h todo ctr acc).1 ∧
      AllSec F (effectiveK T k0) (compressLoop T F hra (effectiveK T k0) fuel h todo ctr acc).1 := by
  intro fuel
  induction fuel with
  | zero =>
    intro h todo ctr acc _ _ hf
    have : todo = [] := by cases todo with
      | nil => rfl
      | cons a b => simp at hf
    subst this
    exact ⟨fun c hc => by simp [compressLoop] at hc, fun c hc => by simp [compressLoop] at hc⟩
  | succ fuel ih =>
    intro h todo ctr acc hinv hsec hf
    cases todo with
    | nil => exact ⟨fun c hc => by simp [compressLoop] at hc, fun c hc => by simp [compressLoop] at hc⟩
    | cons c rest =>
      obtain ⟨hc, hrest⟩ := hinv
      simp only [compressLoop, hlazy, Bool.false_and, Bool.false_eq_true, if_false]
      simp only [sumItems_cons, List.length_cons] at hf
      split
      · rename_i hfull
        simp only [Compactor.numItems, ge_iff_le] at hfull
        have hc1 : CInv T hra h (sortIf0 h c) := by unfold sortIf0; split; exact sort_CInv hc; exact hc
        have hs1 : Sorted (sortIf0 h c).items := by
          unfold sortIf0; split
          · exact sort_sorted hc
          · rename_i h0; exact hc.srt (Or.inl h0)
        have hl1 : (sortIf0 h c).items.length = c.items.length := by unfold sortIf0; split; exact sort_length c; rfl
        have hcap1 : (sortIf0 h c).nomCap T = c.nomCap T := by unfold sortIf0; split; exact sort_nomCap T c; rfl
        have hsec1 : SecInv F (effectiveK T k0) (sortIf0 h c) := by
          unfold sortIf0; split
          · exact sort_sec (hsec c (by simp))
          · exact hsec c (by simp)
        have hfull1 : (sortIf0 h c).nomCap T ≤ (sortIf0 h c).items.length := by rw [hcap1, hl1]; exact hfull
        have hnx : CInv T hra (h + 1) (nextOf T F hra (effectiveK T k0) h rest acc.peek) ∧ CsInv T hra (h + 1 + 1) rest.tail ∧
            SecInv F (effectiveK T k0) (nextOf T F hra (effectiveK T k0) h rest acc.peek) ∧ AllSec F (effectiveK T k0) rest.tail ∧
            sumItems rest = (nextOf T F hra (effectiveK T k0) h rest acc.peek).items.length + sumItems rest.tail ∧
            rest.tail.length + 1 ≤ rest.length + 1 ∧ (rest = [] → rest.tail.length = 0) ∧ (rest ≠ [] → rest.tail.length + 1 = rest.length) := by
          cases rest with
          | nil => exact ⟨mkC_CInv hT F hra (h + 1) _ (effectiveK_ge hT k0) acc.peek, trivial, mk'_sec hF k0 hra (h + 1) acc.peek, fun c hc => by simp at hc, by simp [nextOf, (mkC_fields T F hra (h + 1) (effectiveK T k0) acc.peek).1], by simp, fun _ => rfl, fun x => absurd rfl x⟩
          | cons x t => exact ⟨hrest.1, hrest.2, hsec x (by simp), fun c hc => hsec c (by simp only [List.tail_cons] at hc; simp [hc]), by simp [nextOf], by simp, fun x => by simp at x, fun _ => by simp⟩
        obtain ⟨n1, n2, n3, n4, n5, n6, n7, n8⟩ := hnx
        have sp := compact_spec hT F (acc.growDraw T rest.isEmpty (h + 1)).peek hc1 hs1 n1 hfull1
        have cb := compact_bound hT hF k0 (acc.growDraw T rest.isEmpty (h + 1)).peek hc1 hsec1 n3 hfull1
        generalize (sortIf0 h c).compact T F (nextOf T F hra (effectiveK T k0) h rest acc.peek) (acc.growDraw T rest.isEmpty (h + 1)).peek = res at sp cb
        have hf' : sumItems (res.nxt :: rest.tail) + (res.nxt :: rest.tail).length ≤ fuel := by
          have a1 := sp.lenCur; have a2 := sp.lenNxt; have a3 := sp.num1
          simp only [sumItems_cons, List.length_cons]
          by_cases hr : rest = []
          · have := n7 hr; subst hr; simp at n5 hf ⊢; omega
          · have := n8 hr; omega
        have IH := ih (h + 1) (res.nxt :: rest.tail) (ctrAfter (ctrGrow T ctr rest.isEmpty (nextOf T F hra (effectiveK T k0) h rest acc.peek)) res)
          ((acc.growDraw T rest.isEmpty (h + 1)).afterCompact (sortIf0 h c).lgWeight res.fresh res.oddConst res.rangeOk) ⟨sp.nx, n2⟩
          (fun c' hc' => by rcases List.mem_cons.1 hc' with rfl | hc'; exact cb.2.2; exact n4 c' hc') hf'
        refine ⟨?_, ?_⟩
        · intro c' hc'
          rcases List.mem_cons.1 hc' with rfl | hc'
          · exact cb.1
          · exact IH.1 c' hc'
        · intro c' hc'
          rcases List.mem_cons.1 hc' with rfl | hc'
          · exact cb.2.1
          · exact IH.2 c' hc'
      · rename_i hnf
        simp only [Compactor.numItems, ge_iff_le, Nat.not_le] at hnf
        have IH := ih (h + 1) rest ctr acc hrest (fun c' hc' => hsec c' (List.mem_cons_of_mem _ hc')) (by omega)
        refine ⟨?_, ?_⟩
        · intro c' hc'
          rcases List.mem_cons.1 hc' with rfl | hc'
          · exact hnf
          · exact IH.1 c' hc'
        · intro c' hc'
          rcases List.mem_cons.1 hc' with rfl | hc'
          · exact hsec c' (by simp)
          · exact IH.2 c' hc'

theorem sum_lt_of_AllBelow (T : Tun) : ∀ (cs : List (Compactor ρ)), cs ≠ [] → AllBelow T cs → sumItems cs < sumCap T cs := by
  intro cs
  induction cs with
  | nil => intro h; exact absurd rfl h
  | cons c t ih =>
    intro _ hb
    have h1 := hb c (by simp)
    by_cases ht : t = []
    · subst ht; simpa using h1
    · have := ih ht (fun c' hc' => hb c' (List.mem_cons_of_mem _ hc'))
      simp only [sumItems_cons, sumCap_cons]; omega

/-- the bound invariant of a sketch -/
structure BInv (T : Tun) (F : SecFns ρ) (s : Sketch ρ) : Prop where
  keff : ∃ k0, s.k = effectiveK T k0
  sec : AllSec F s.k s.compactors
  lt : s.numRetained < s.maxNomSize

theorem compress_BInv {T : Tun} (hT : TunOK T) (hlazy : T.lazy = false) {F : SecFns ρ} (hF : SecOK T F) (s : Sketch ρ) (acc : Acc)
    (h : SInv T s) (hn : s.n ≠ 0) (hk : ∃ k0, s.k = effectiveK T k0) (hsec : AllSec F s.k s.compactors) :
    BInv T F (s.compress T F acc).1 := by
  obtain ⟨k0, hk0⟩ := hk
  have hI := (compress_SInv hT F s acc h hn).1
  have cb := compressLoop_bound hT hlazy hF k0 s.hra (sumItems s.compactors + s.compactors.length + 1) 0 s.compactors
    { retained := s.numRetained, maxNom := s.maxNomSize } acc h.cs (by rw [← hk0]; exact hsec) (by omega)
  rw [← hk0] at cb
  refine ⟨⟨k0, hk0⟩, cb.2, ?_⟩
  rw [hI.ret, hI.cap]
  exact sum_lt_of_AllBelow T _ hI.nonnil cb.1

theorem new_BInv {T : Tun} (hT : TunOK T) {F : SecFns ρ} (hF : SecOK T F) (k : Nat) (hra d : Bool) : BInv T F (Sketch.new T F k hra d) := by
  obtain ⟨e1, _, e3, e4, _, _, _, e8⟩ := new_compactors T F k hra d
  refine ⟨⟨k, e4⟩, ?_, ?_⟩
  · intro c hc
    rw [e1] at hc
    simp only [List.mem_singleton] at hc
    subst hc; rw [e4]; exact mk'_sec hF k hra _ d
  · rw [e3, e8]
    simp only [sumCap_cons, sumCap_nil, Nat.add_zero, mkC_nomCap]
    have := effectiveK_ge hT k
    exact Nat.mul_pos (Nat.mul_pos (by have := hT.mult2; omega) (by have := hT.sec1; omega)) (by omega)

theorem append_sec {F : SecFns ρ} {k : Nat} {c : Compactor ρ} (x : Int) (h : SecInv F k c) : SecInv F k (c.append x) :=
  sec_of_fields h rfl rfl

theorem update_BInv {T : Tun} (hT : TunOK T) (hlazy : T.lazy = false) {F : SecFns ρ} (hF : SecOK T F) (s : Sketch ρ) (x : Int) (acc : Acc)
    (h : SInv T s) (hb : BInv T F s) : BInv T F (s.update T F x acc).1 := by
  have hI1 := (append1_SInv s x h).1
  have hsec1 : AllSec F (s.append1 x).k (s.append1 x).compactors := by
    show AllSec F s.k (appendLevel0 s.compactors x)
    have := hb.sec
    cases hc : s.compactors with
    | nil => intro c hc'; simp [appendLevel0] at hc'
    | cons c0 t =>
      rw [hc] at this
      intro c hc'
      simp only [appendLevel0] at hc'
      rcases List.mem_cons.1 hc' with rfl | hc'
      · exact append_sec x (this c0 (by simp))
      · exact this c (List.mem_cons_of_mem _ hc')
  simp only [Sketch.update]
  split
  · exact compress_BInv hT hlazy hF _ acc hI1 (by simp [Sketch.append1]) hb.keff hsec1
  · rename_i hne
    refine ⟨hb.keff, hsec1, ?_⟩
    have := hb.lt
    simp only [Sketch.append1] at hne ⊢
    omega

theorem grow_sec {T : Tun} {F : SecFns ρ} (hF : SecOK T F) (s : Sketch ρ) (d : Bool) (k0 : Nat) (hk : s.k = effectiveK T k0) (h : AllSec F s.k s.compactors) :
    AllSec F (s.grow T F d).k (s.grow T F d).compactors := by
  intro c hc
  simp only [Sketch.grow, List.mem_append, List.mem_singleton] at hc
  rcases hc with hc | rfl
  · exact h c hc
  · show SecInv F s.k (Compactor.mkC T F s.hra s.compactors.length s.k d)
    rw [hk]; exact mk'_sec hF k0 _ _ d

theorem growTo_sec {T : Tun} {F : SecFns ρ} (hF : SecOK T F) (target k0 : Nat) : ∀ (fuel : Nat) (s : Sketch ρ) (acc : Acc), s.k = effectiveK T k0 →
    AllSec F s.k s.compactors → AllSec F (growTo T F fuel target s acc).1.k (growTo T F fuel target s acc).1.compactors ∧ (growTo T F fuel target s acc).1.k = s.k := by
  intro fuel
  induction fuel with
  | zero => intro s acc _ h; exact ⟨h, rfl⟩
  | succ n ih =>
    intro s acc hk h
    simp only [growTo]
    split
    · have := ih (s.grow T F acc.peek) (acc.drawIf T.initCoinRandom s.compactors.length) hk (grow_sec hF s acc.peek k0 hk h)
      exact ⟨this.1, this.2⟩
    · exact ⟨h, rfl⟩

theorem cmerge_sec {T : Tun} {F : SecFns ρ} (hF : SecOK T F) (k0 : Nat) (c o : Compactor ρ) (h : SecInv F (effectiveK T k0) c) :
    SecInv F (effectiveK T k0) (c.merge T F o) := by
  have h1 : SecInv F (effectiveK T k0) (c.orState o) := sec_of_fields h rfl rfl
  have h2 := ensureLoop_sec hF k0 ((c.orState o).state + 2) _ h1
  exact sec_of_fields h2 rfl rfl

theorem mergeLevels_sec {T : Tun} {F : SecFns ρ} (hF : SecOK T F) (k0 : Nat) : ∀ (cs os : List (Compactor ρ)),
    AllSec F (effectiveK T k0) cs → AllSec F (effectiveK T k0) (mergeLevels T F cs os) := by
  intro cs
  induction cs with
  | nil => intro os _ c hc; cases os <;> simp [mergeLevels] at hc
  | cons c t ih =>
    intro os h
    cases os with
    | nil => simpa [mergeLevels] using h
    | cons o ot =>
      intro c' hc'
      simp only [mergeLevels] at hc'
      rcases List.mem_cons.1 hc' with rfl | hc'
      · exact cmerge_sec hF k0 c o (h c (by simp))
      · exact ih ot (fun x hx => h x (List.mem_cons_of_mem _ hx)) c' hc'

theorem merge_BInv {T : Tun} (hT : TunOK T) (hlazy : T.lazy = false) {F : SecFns ρ} (hF : SecOK T F) (s o : Sketch ρ) (acc : Acc)
    (hs : SInv T s) (ho : SInv T o) (hb : BInv T F s) (r : Sketch ρ × Acc) (hr : s.merge T F o acc = some r) : BInv T F r.1 := by
  simp only [Sketch.merge] at hr
  split at hr
  · exact absurd hr (by simp)
  rename_i hhra
  have hhra' : s.hra = o.hra := by simpa using hhra
  split at hr
  · have : r = (s, acc) := by simpa using hr.symm
    subst this; exact hb
  rename_i hn0
  obtain ⟨k0, hk0⟩ := hb.keff
  obtain ⟨hI2, _, _, hk2, hn2, _⟩ := mergePre_SInv hT F s o acc hs ho hhra' hn0
  have hsecP : AllSec F (s.mergePre T F o acc).1.k (s.mergePre T F o acc).1.compactors := by
    have g := growTo_sec hF o.compactors.length k0 o.compactors.length s acc hk0 hb.sec
    rw [hk2]
    show AllSec F s.k (mergeLevels T F (growTo T F o.compactors.length o.compactors.length s acc).1.compactors o.compactors)
    rw [hk0]
    apply mergeLevels_sec hF k0
    have := g.1; rw [g.2, hk0] at this; exact this
  split at hr
  · have : r = (s.mergePre T F o acc).1.compress T F (s.mergePre T F o acc).2 := by simpa using hr.symm
    subst this
    exact compress_BInv hT hlazy hF _ _ hI2 (by rw [hn2]; omega) ⟨k0, by rw [hk2]; exact hk0⟩ hsecP
  · rename_i hlt
    have : r = s.mergePre T F o acc := by simpa using hr.symm
    subst this
    exact ⟨⟨k0, by rw [hk2]; exact hk0⟩, hsecP, by omega⟩

theorem afterRank_BInv {T : Tun} {F : SecFns ρ} (s : Sketch ρ) (hb : BInv T F s) : BInv T F s.afterRank := by
  refine ⟨hb.keff, ?_, hb.lt⟩
  intro c hc
  simp only [Sketch.afterRank, sortAll, List.mem_map] at hc
  obtain ⟨c0, h0, rfl⟩ := hc
  exact sort_sec (hb.sec c0 h0)

theorem afterView_BInv {T : Tun} {F : SecFns ρ} (s : Sketch ρ) (hb : BInv T F s) : BInv T F s.afterView := by
  refine ⟨hb.keff, ?_, hb.lt⟩
  intro c hc
  have hsec := hb.sec
  show SecInv F s.k c
  have hc' : c ∈ sortLevel0 s.compactors := hc
  cases hcs : s.compactors with
  | nil => rw [hcs] at hc'; simp [sortLevel0] at hc'
  | cons c0 t =>
    rw [hcs] at hc' hsec
    simp only [sortLevel0] at hc'
    rcases List.mem_cons.1 hc' with rfl | hc'
    · exact sort_sec (hsec c0 (by simp))
    · exact hsec c (List.mem_cons_of_mem _ hc')

/-! ### every object of every history -/

theorem AL_get_set {α : Type} (st : List (Nat × α)) (id id' : Nat) (a : α) :
    AL.get (AL.set st id a) id' = if id = id' then some a else AL.get st id' := by
  induction st with
  | nil => simp [AL.set, AL.get]
  | cons x t ih =>
    obtain ⟨i, b⟩ := x
    simp only [AL.set]
    by_cases h1 : i = id
    · subst h1
      simp only [if_true, AL.get]
      split <;> rfl
    · simp only [h1, if_false, AL.get, ih]
      by_cases h2 : i = id'
      · subst h2
        have : ¬ id = i := fun e => h1 e.symm
        simp [this]
      · simp [h2]

def AllSk (P : Sketch ρ → Prop) (st : Store ρ) : Prop := ∀ id s, st.get id = some s → P s

theorem AllSk_set {P : Sketch ρ → Prop} {st : Store ρ} (h : AllSk P st) (id : Nat) (s : Sketch ρ) (hs : P s) : AllSk P (st.set id s) := by
  intro id' s' hg
  simp only [Store.get, Store.set, AL_get_set] at hg
  split at hg
  · have : s = s' := by simpa using hg
    subst this; exact hs
  · exact h id' s' hg

theorem stepOp_BInv {T : Tun} (hT : TunOK T) (hlazy : T.lazy = false) {F : SecFns ρ} (hF : SecOK T F) (st : Store ρ) (m : List (Nat × SpecSk))
    (acc : Acc) (op : Op) (hI : StoreRel T st m) (hb : AllSk (BInv T F) st) : AllSk (BInv T F) (stepOp T F st acc op).1 := by
  have sinv : ∀ id s, st.get id = some s → SInv T s := by
    intro id s hg
    rcases ALRel_get hI id with ⟨g1, _⟩ | ⟨s0, sp, g1, _, hs⟩
    · simp only [Store.get] at hg; rw [g1] at hg; exact absurd hg (by simp)
    · simp only [Store.get] at hg; rw [g1] at hg
      have : s0 = s := by simpa using hg
      subst this; exact hs.1
  cases op with
  | new id k hra => exact AllSk_set hb id _ (new_BInv hT hF k hra acc.peek)
  | upd id x =>
    simp only [stepOp]
    cases hg : st.get id with
    | none => exact hb
    | some s => exact AllSk_set hb id _ (update_BInv hT hlazy hF s x acc (sinv id s hg) (hb id s hg))
  | merge i j =>
    simp only [stepOp]
    split
    · exact hb
    · cases hg : st.get i with
      | none => exact hb
      | some s =>
        cases hg' : st.get j with
        | none => exact hb
        | some o =>
          simp only
          cases hm : s.merge T F o acc with
          | none => exact hb
          | some r => exact AllSk_set hb i _ (merge_BInv hT hlazy hF s o acc (sinv i s hg) (sinv j o hg') (hb i s hg) r hm)
  | copy i j =>
    simp only [stepOp]
    cases hg : st.get i with
    | none => exact hb
    | some s => exact AllSk_set hb j _ (hb i s hg)
  | rankq id =>
    simp only [stepOp]
    cases hg : st.get id with
    | none => exact hb
    | some s => exact AllSk_set hb id _ (afterRank_BInv s (hb id s hg))
  | viewq id =>
    simp only [stepOp]
    cases hg : st.get id with
    | none => exact hb
    | some s => exact AllSk_set hb id _ (afterView_BInv s (hb id s hg))

theorem runOps_BInv {T : Tun} (hT : TunOK T) (hlazy : T.lazy = false) {F : SecFns ρ} (hF : SecOK T F) (ops : List Op) :
    ∀ (st : Store ρ) (m : List (Nat × SpecSk)) (acc : Acc), StoreRel T st m → AllSk (BInv T F) st →
      AllSk (BInv T F) (runOps T F st acc ops).1 := by
  induction ops with
  | nil => intro st m acc _ hb; exact hb
  | cons op ops ih =>
    intro st m acc hI hb
    simp only [runOps]
    exact ih _ _ _ (stepOp_rel hT F st m acc op hI).1 (stepOp_BInv hT hlazy hF st m acc op hI hb)

end DS.Req

/- Header read-back: what `parseImage` sees in a serialized image, in a freshly initialised block, and after writes. -/
import DSProofs.Lemmas.BloomLocal
namespace DS.Bloom

theorem getField_congr (X Y off w : Nat) (h : ∀ i, i < w → X.testBit (off + i) = Y.testBit (off + i)) :
    getField X off w = getField Y off w := by
  apply Nat.eq_of_testBit_eq
  intro i
  rw [testBit_getField, testBit_getField]
  by_cases hi : i < w
  · simp [hi, h i hi]
  · simp [hi]

theorem getField_setField_inside (x W v off w : Nat) (h : off + w ≤ W) :
    getField (setField x 0 W v) off w = getField v off w := by
  apply getField_congr
  intro i hi
  have := testBit_setField_in x 0 W v (off + i) (by omega)
  simpa using this

theorem getField_of_lt (v w : Nat) (h : v < 2 ^ w) : getField v 0 w = v := by
  simp [getField, Nat.mod_eq_of_lt h]

/-- wire constants as the readers expect them -/
structure Params.Wire (P : Params) : Prop where
  layout : P.Layout
  dirty : P.dirty = 2 ^ 64 - 1
  preEmpty : P.preEmpty = 3
  preStd : P.preStd = 4
  family : P.family < 256
  serVer : P.serVer < 256
  emptyMask : P.emptyMask = 4

/-- field ranges of a filter -/
structure FWF (f : Filter) : Prop where
  capPos : 0 < f.capBits
  cap64 : f.capBits % 64 = 0
  capLt : f.capBits < 2 ^ 38
  nh : f.numHashes < 2 ^ 16
  seed : f.seed < 2 ^ 64

/-- the header fields of `headerVal` -/
theorem headerVal_fields (P : Params) (pre flags nh seed nl : Nat) :
    getField (headerVal P pre flags nh seed nl) 0 8 = pre % 2 ^ 8 ∧
    getField (headerVal P pre flags nh seed nl) 8 8 = P.serVer % 2 ^ 8 ∧
    getField (headerVal P pre flags nh seed nl) 16 8 = P.family % 2 ^ 8 ∧
    getField (headerVal P pre flags nh seed nl) 24 8 = flags % 2 ^ 8 ∧
    getField (headerVal P pre flags nh seed nl) 32 16 = nh % 2 ^ 16 ∧
    getField (headerVal P pre flags nh seed nl) 64 64 = seed % 2 ^ 64 ∧
    getField (headerVal P pre flags nh seed nl) 128 32 = nl % 2 ^ 32 := by
  unfold headerVal
  refine ⟨?_, ?_, ?_, ?_, ?_, ?_, ?_⟩
  · repeat rw [getField_setField_disj _ _ _ _ _ _ (by omega)]
    exact getField_setField_same _ _ _ _
  · repeat rw [getField_setField_disj _ _ _ _ _ _ (by omega)]
    exact getField_setField_same _ _ _ _
  · repeat rw [getField_setField_disj _ _ _ _ _ _ (by omega)]
    exact getField_setField_same _ _ _ _
  · repeat rw [getField_setField_disj _ _ _ _ _ _ (by omega)]
    exact getField_setField_same _ _ _ _
  · repeat rw [getField_setField_disj _ _ _ _ _ _ (by omega)]
    exact getField_setField_same _ _ _ _
  · repeat rw [getField_setField_disj _ _ _ _ _ _ (by omega)]
    exact getField_setField_same _ _ _ _
  · exact getField_setField_same _ _ _ _

/-- bits of `headerVal` at and above 192 are clear -/
theorem headerVal_high (P : Params) (pre flags nh seed nl i : Nat) (hi : 160 ≤ i) :
    (headerVal P pre flags nh seed nl).testBit i = false := by
  unfold headerVal
  repeat rw [testBit_setField_out _ _ _ _ _ (by omega)]
  simp

/-- `parseImage` only depends on the length and on the fields it reads -/
theorem parseImage_congr (P : Params) (b b' : Block) (hl : b'.len = b.len)
    (h0 : getField b'.val 0 8 = getField b.val 0 8) (h1 : getField b'.val 8 8 = getField b.val 8 8)
    (h2 : getField b'.val 16 8 = getField b.val 16 8) (h3 : getField b'.val 24 8 = getField b.val 24 8)
    (h4 : getField b'.val 32 16 = getField b.val 32 16) (h5 : getField b'.val 64 64 = getField b.val 64 64)
    (h6 : getField b'.val 128 32 = getField b.val 128 32) (h7 : getField b'.val 192 64 = getField b.val 192 64) :
    parseImage P b' = parseImage P b := by
  simp only [parseImage, hl, h0, h1, h2, h3, h4, h5, h6, h7]

end DS.Bloom

/- L2 HLL_4 array: nibble packing, aux map, internalHll4Update and shiftToBiggerCurMin refine the register abstraction
(helper lemmas for Props/C03.lean `hll4_refines`). -/
import DSModel.Hll.Array4
import DSProofs.Lemmas.HllArrays
import Batteries.Data.List.Perm
namespace DS.Hll

/-! ### nibbles -/

theorem putNib_size (b : Array Nat) (s v : Nat) : (putNib b s v).size = b.size := by
  unfold putNib; simp only; split <;> simp

theorem getNib_putNib_same (b : Array Nat) (s v : Nat) (hs : s / 2 < b.size) : getNib (putNib b s v) s = v % 16 := by
  unfold getNib putNib
  simp only
  by_cases hp : s % 2 = 0
  · rw [if_pos hp, if_neg (by omega), getD_setIfInBounds_self hs]; omega
  · rw [if_neg hp, if_pos (by omega), getD_setIfInBounds_self hs]; omega

theorem getNib_putNib_ne (b : Array Nat) (s s' v : Nat) (hne : s' ≠ s) : getNib (putNib b s v) s' = getNib b s' := by
  unfold getNib putNib
  simp only
  by_cases hb : s' / 2 = s / 2
  · -- same byte, the other nibble
    by_cases hsz : s / 2 < b.size
    · by_cases hp : s % 2 = 0
      · rw [if_pos hp, hb, getD_setIfInBounds_self hsz, if_pos (by omega), if_pos (by omega)]; omega
      · rw [if_neg hp, hb, getD_setIfInBounds_self hsz, if_neg (by omega), if_neg (by omega)]; omega
    · have e : ∀ x, b.setIfInBounds (s / 2) x = b := by
        intro x; apply Array.ext (by simp)
        intro i h1 h2; rw [Array.getElem_setIfInBounds h2, if_neg (by omega)]
      by_cases hp : s % 2 = 0
      · rw [if_pos hp, e]
      · rw [if_neg hp, e]
  · by_cases hp : s % 2 = 0
    · rw [if_pos hp, getD_setIfInBounds_ne (Ne.symm hb)]
    · rw [if_neg hp, getD_setIfInBounds_ne (Ne.symm hb)]

theorem getNib_lt (b : Array Nat) (s : Nat) (hb : ∀ i, i < b.size → b.getD i 0 < 256) : getNib b s < 16 := by
  unfold getNib
  simp only
  have hlt : b.getD (s / 2) 0 < 256 := by
    by_cases hsz : s / 2 < b.size
    · exact hb _ hsz
    · have : b.getD (s / 2) 0 = 0 := by simp [Array.getD_eq_getD_getElem?, hsz]
      omega
  by_cases hp : s % 2 = 1
  · rw [if_pos hp]; omega
  · rw [if_neg hp]; omega

theorem putNib_bytes_lt (b : Array Nat) (s v : Nat) (hb : ∀ i, i < b.size → b.getD i 0 < 256) :
    ∀ i, i < (putNib b s v).size → (putNib b s v).getD i 0 < 256 := by
  intro i hi
  rw [putNib_size] at hi
  unfold putNib
  simp only
  by_cases he : s / 2 = i
  · subst he
    have := hb _ hi
    by_cases hp : s % 2 = 0
    · rw [if_pos hp, getD_setIfInBounds_self hi]; omega
    · rw [if_neg hp, getD_setIfInBounds_self hi]; omega
  · by_cases hp : s % 2 = 0
    · rw [if_pos hp, getD_setIfInBounds_ne he]; exact hb i hi
    · rw [if_neg hp, getD_setIfInBounds_ne he]; exact hb i hi

/-! ### aux map (association list with distinct slots) -/

theorem find_ents_some_iff : ∀ (l : List (Nat × Nat)), (l.map (·.1)).Nodup → ∀ (slot v : Nat),
    ((l.find? (·.1 = slot)).map (·.2) = some v ↔ (slot, v) ∈ l)
  | [], _, slot, v => by simp
  | e :: t, hn, slot, v => by
    simp only [List.map_cons, List.nodup_cons] at hn
    rw [List.find?_cons]
    by_cases he : e.1 = slot
    · have hd : decide (e.1 = slot) = true := by simp [he]
      rw [hd]
      simp only [Option.map_some, Option.some.injEq, List.mem_cons]
      constructor
      · intro h; left
        have : e = (e.1, e.2) := rfl
        rw [this, he, h]
      · rintro (h | h)
        · rw [← h]
        · exfalso; apply hn.1
          rw [he]; exact List.mem_map.2 ⟨(slot, v), h, rfl⟩
    · have hd : decide (e.1 = slot) = false := by simp [he]
      rw [hd]
      simp only [List.mem_cons]
      rw [find_ents_some_iff t hn.2 slot v]
      constructor
      · intro h; exact Or.inr h
      · rintro (h | h)
        · exfalso; apply he; rw [← h]
        · exact h

theorem find_ents_none_iff : ∀ (l : List (Nat × Nat)) (slot : Nat),
    ((l.find? (·.1 = slot)).map (·.2) = none ↔ ∀ v, (slot, v) ∉ l)
  | [], slot => by simp
  | e :: t, slot => by
    rw [List.find?_cons]
    by_cases he : e.1 = slot
    · have hd : decide (e.1 = slot) = true := by simp [he]
      rw [hd]
      simp only [Option.map_some, reduceCtorEq, false_iff]
      intro h
      apply h e.2
      have : e = (e.1, e.2) := rfl
      rw [← he]; exact List.mem_cons_self
    · have hd : decide (e.1 = slot) = false := by simp [he]
      rw [hd]
      simp only [List.mem_cons, not_or]
      rw [find_ents_none_iff t slot]
      constructor
      · intro h v; exact ⟨fun hh => he (by rw [← hh]), h v⟩
      · intro h v; exact (h v).2

theorem Aux.find_some_iff {a : Aux} (hn : (a.ents.map (·.1)).Nodup) {slot v : Nat} :
    a.find slot = some v ↔ (slot, v) ∈ a.ents := find_ents_some_iff a.ents hn slot v

theorem Aux.find_none_iff {a : Aux} {slot : Nat} : a.find slot = none ↔ ∀ v, (slot, v) ∉ a.ents :=
  find_ents_none_iff a.ents slot

end DS.Hll

/- L2 HLL_4 array: nibble packing, aux map, internalHll4Update and shiftToBiggerCurMin refine the register abstraction
(helper lemmas for Props/C03.lean `hll4_refines`). -/
import DSModel.Hll.Array4
import DSProofs.Lemmas.HllArrays
import Batteries.Data.List.Perm
namespace DS.Hll

/-! ### nibbles -/

theorem putNib_size (b : Array Nat) (s v : Nat) : (putNib b s v).size = b.size := by
  unfold putNib; simp only; split <;> simp

theorem getNib_putNib_same (b : Array Nat) (s v : Nat) (hs : s / 2 < b.size) : getNib (putNib b s v) s = v % 16 := by
  unfold getNib putNib
  simp only
  by_cases hp : s % 2 = 0
  · rw [if_pos hp, if_neg (by omega), getD_setIfInBounds_self hs]; omega
  · rw [if_neg hp, if_pos (by omega), getD_setIfInBounds_self hs]; omega

theorem getNib_putNib_ne (b : Array Nat) (s s' v : Nat) (hne : s' ≠ s) : getNib (putNib b s v) s' = getNib b s' := by
  unfold getNib putNib
  simp only
  by_cases hb : s' / 2 = s / 2
  · -- same byte, the other nibble
    by_cases hsz : s / 2 < b.size
    · by_cases hp : s % 2 = 0
      · rw [if_pos hp, hb, getD_setIfInBounds_self hsz, if_pos (by omega), if_pos (by omega)]; omega
      · rw [if_neg hp, hb, getD_setIfInBounds_self hsz, if_neg (by omega), if_neg (by omega)]; omega
    · have e : ∀ x, b.setIfInBounds (s / 2) x = b := by
        intro x; apply Array.ext (by simp)
        intro i h1 h2; rw [Array.getElem_setIfInBounds h2, if_neg (by omega)]
      by_cases hp : s % 2 = 0
      · rw [if_pos hp, e]
      · rw [if_neg hp, e]
  · by_cases hp : s % 2 = 0
    · rw [if_pos hp, getD_setIfInBounds_ne (Ne.symm hb)]
    · rw [if_neg hp, getD_setIfInBounds_ne (Ne.symm hb)]

theorem getNib_lt (b : Array Nat) (s : Nat) (hb : ∀ i, i < b.size → b.getD i 0 < 256) : getNib b s < 16 := by
  unfold getNib
  simp only
  have hlt : b.getD (s / 2) 0 < 256 := by
    by_cases hsz : s / 2 < b.size
    · exact hb _ hsz
    · have : b.getD (s / 2) 0 = 0 := by simp [Array.getD_eq_getD_getElem?, hsz]
      omega
  by_cases hp : s % 2 = 1
  · rw [if_pos hp]; omega
  · rw [if_neg hp]; omega

theorem putNib_bytes_lt (b : Array Nat) (s v : Nat) (hb : ∀ i, i < b.size → b.getD i 0 < 256) :
    ∀ i, i < (putNib b s v).size → (putNib b s v).getD i 0 < 256 := by
  intro i hi
  rw [putNib_size] at hi
  unfold putNib
  simp only
  by_cases he : s / 2 = i
  · subst he
    have := hb _ hi
    by_cases hp : s % 2 = 0
    · rw [if_pos hp, getD_setIfInBounds_self hi]; omega
    · rw [if_neg hp, getD_setIfInBounds_self hi]; omega
  · by_cases hp : s % 2 = 0
    · rw [if_pos hp, getD_setIfInBounds_ne he]; exact hb i hi
    · rw [if_neg hp, getD_setIfInBounds_ne he]; exact hb i hi

/-! ### aux map (association list with distinct slots) -/

theorem find_ents_some_iff : ∀ (l : List (Nat × Nat)), (l.map (·.1)).Nodup → ∀ (slot v : Nat),
    ((l.find? (·.1 = slot)).map (·.2) = some v ↔ (slot, v) ∈ l)
  | [], _, slot, v => by simp
  | e :: t, hn, slot, v => by
    simp only [List.map_cons, List.nodup_cons] at hn
    rw [List.find?_cons]
    by_cases he : e.1 = slot
    · have hd : decide (e.1 = slot) = true := by simp [he]
      rw [hd]
      simp only [Option.map_some, Option.some.injEq, List.mem_cons]
      constructor
      · intro h; left
        have : e = (e.1, e.2) := rfl
        rw [this, he, h]
      · rintro (h | h)
        · rw [← h]
        · exfalso; apply hn.1
          rw [he]; exact List.mem_map.2 ⟨(slot, v), h, rfl⟩
    · have hd : decide (e.1 = slot) = false := by simp [he]
      rw [hd]
      simp only [List.mem_cons]
      rw [find_ents_some_iff t hn.2 slot v]
      constructor
      · intro h; exact Or.inr h
      · rintro (h | h)
        · exfalso; apply he; rw [← h]
        · exact h

theorem find_ents_none_iff : ∀ (l : List (Nat × Nat)) (slot : Nat),
    ((l.find? (·.1 = slot)).map (·.2) = none ↔ ∀ v, (slot, v) ∉ l)
  | [], slot => by simp
  | e :: t, slot => by
    rw [List.find?_cons]
    by_cases he : e.1 = slot
    · have hd : decide (e.1 = slot) = true := by simp [he]
      rw [hd]
      simp only [Option.map_some, reduceCtorEq, false_iff]
      intro h
      apply h e.2
      have : e = (e.1, e.2) := rfl
      rw [← he]; exact List.mem_cons_self
    · have hd : decide (e.1 = slot) = false := by simp [he]
      rw [hd]
      simp only [List.mem_cons, not_or]
      rw [find_ents_none_iff t slot]
      constructor
      · intro h v; exact ⟨fun hh => he (by rw [← hh]), h v⟩
      · intro h v; exact (h v).2

theorem Aux.find_some_iff {a : Aux} (hn : (a.ents.map (·.1)).Nodup) {slot v : Nat} :
    a.find slot = some v ↔ (slot, v) ∈ a.ents := find_ents_some_iff a.ents hn slot v

theorem Aux.find_none_iff {a : Aux} {slot : Nat} : a.find slot = none ↔ ∀ v, (slot, v) ∉ a.ents :=
  find_ents_none_iff a.ents slot

/-! ### representation invariant -/

def H4.ents (h : H4) : List (Nat × Nat) := match h.aux with | some a => a.ents | none => []

theorem H4.aux_find (h : H4) (slot : Nat) : h.aux.bind (·.find slot) = (h.ents.find? (·.1 = slot)).map (·.2) := by
  unfold H4.ents
  cases h.aux with
  | none => simp
  | some a => simp [Aux.find]

/-- HLL_4 representation invariant: a nibble below AUX_TOKEN holds `register - curMin`; a nibble equal to AUX_TOKEN marks exactly
the slots of the aux map, whose values are at least `curMin + 15`; `numAtCurMin` is the number of registers equal to `curMin` -/
structure Inv4 (p : Params) (h : H4) : Prop where
  lgK_pos : 1 ≤ h.lgK
  size : h.bytes.size = 2^(h.lgK - 1)
  blt : ∀ i, i < h.bytes.size → h.bytes.getD i 0 < 256
  notbad : h.bad = false
  nodup : (h.ents.map (·.1)).Nodup
  tok_iff : ∀ slot, slot < 2^h.lgK → (getNib h.bytes slot = 15 ↔ ∃ v, (slot, v) ∈ h.ents)
  slot_lt : ∀ e, e ∈ h.ents → e.1 < 2^h.lgK
  val_ge : ∀ e, e ∈ h.ents → h.curMin + 15 ≤ e.2
  cnt : h.numAtCurMin = (h.regs p).count h.curMin

theorem two_pow_pred {n : Nat} (h : 1 ≤ n) : 2^n = 2 * 2^(n - 1) := by
  obtain ⟨m, rfl⟩ : ∃ m, n = m + 1 := ⟨n - 1, by omega⟩
  simp [Nat.pow_succ, Nat.mul_comm]

theorem H4.regs_size (p : Params) (h : H4) : (h.regs p).size = 2^h.lgK := by simp [H4.regs]

theorem H4.regs_getD (p : Params) (h : H4) {slot : Nat} (hs : slot < 2^h.lgK) : (h.regs p).getD slot 0 = h.reg p slot := by
  simp [H4.regs, Array.getD_eq_getD_getElem?, hs]

/-- two L2 states with the same registers slot by slot have the same register array -/
theorem H4.regs_ext (p : Params) (h h' : H4) (hk : h'.lgK = h.lgK) (f : Nat → Nat)
    (hf : ∀ s, s < 2^h.lgK → h'.reg p s = f s) (a : Array Nat) (ha : a.size = 2^h.lgK)
    (hga : ∀ s, s < 2^h.lgK → a.getD s 0 = f s) : h'.regs p = a := by
  apply Array.ext
  · rw [H4.regs_size, hk, ha]
  · intro i h1 h2
    rw [← getD_eq_getElem (d := 0) h1, ← getD_eq_getElem (d := 0) h2]
    have hi : i < 2^h.lgK := by rw [← ha]; exact h2
    rw [H4.regs_getD p h' (by rw [hk]; exact hi), hf i hi, hga i hi]

theorem Inv4.byte_idx {p : Params} {h : H4} (hi : Inv4 p h) {slot : Nat} (hs : slot < 2^h.lgK) : slot / 2 < h.bytes.size := by
  rw [hi.size]; have := two_pow_pred hi.lgK_pos; omega

theorem Inv4.reg_tok {p : Params} {h : H4} (hi : Inv4 p h) (ht : p.auxToken = 15) {slot v : Nat}
    (hm : (slot, v) ∈ h.ents) : h.reg p slot = v := by
  have hs := hi.slot_lt _ hm
  have htok := (hi.tok_iff slot hs).2 ⟨v, hm⟩
  unfold H4.reg
  simp only [htok, ht, if_true]
  rw [H4.aux_find, (find_ents_some_iff h.ents hi.nodup slot v).2 hm]; rfl

theorem Inv4.reg_nib {p : Params} {h : H4} (ht : p.auxToken = 15) {slot : Nat}
    (hn : getNib h.bytes slot ≠ 15) : h.reg p slot = getNib h.bytes slot + h.curMin := by
  unfold H4.reg
  simp only [ht, hn, if_false]

theorem Inv4.curMin_le {p : Params} {h : H4} (hi : Inv4 p h) (ht : p.auxToken = 15) {slot : Nat} (hs : slot < 2^h.lgK) :
    h.curMin ≤ h.reg p slot := by
  by_cases hn : getNib h.bytes slot = 15
  · obtain ⟨v, hm⟩ := (hi.tok_iff slot hs).1 hn
    rw [hi.reg_tok ht hm]; have := hi.val_ge _ hm; simp only at this; omega
  · rw [Inv4.reg_nib ht hn]; omega

/-! ### storing a bigger value (cases 1-4 of internalHll4Update) -/

/-- the structural part of the invariant (everything but the numAtCurMin count) -/
structure Inv4s (p : Params) (h : H4) : Prop where
  lgK_pos : 1 ≤ h.lgK
  size : h.bytes.size = 2^(h.lgK - 1)
  blt : ∀ i, i < h.bytes.size → h.bytes.getD i 0 < 256
  notbad : h.bad = false
  nodup : (h.ents.map (·.1)).Nodup
  tok_iff : ∀ slot, slot < 2^h.lgK → (getNib h.bytes slot = 15 ↔ ∃ v, (slot, v) ∈ h.ents)
  slot_lt : ∀ e, e ∈ h.ents → e.1 < 2^h.lgK
  val_ge : ∀ e, e ∈ h.ents → h.curMin + 15 ≤ e.2

theorem Inv4.toS {p : Params} {h : H4} (hi : Inv4 p h) : Inv4s p h :=
  ⟨hi.lgK_pos, hi.size, hi.blt, hi.notbad, hi.nodup, hi.tok_iff, hi.slot_lt, hi.val_ge⟩

theorem Inv4s.toInv {p : Params} {h : H4} (hi : Inv4s p h) (hc : h.numAtCurMin = (h.regs p).count h.curMin) : Inv4 p h :=
  ⟨hi.lgK_pos, hi.size, hi.blt, hi.notbad, hi.nodup, hi.tok_iff, hi.slot_lt, hi.val_ge, hc⟩

theorem Inv4s.byte_idx {p : Params} {h : H4} (hi : Inv4s p h) {slot : Nat} (hs : slot < 2^h.lgK) : slot / 2 < h.bytes.size := by
  rw [hi.size]; have := two_pow_pred hi.lgK_pos; omega

theorem Inv4s.reg_tok {p : Params} {h : H4} (hi : Inv4s p h) (ht : p.auxToken = 15) {slot v : Nat}
    (hm : (slot, v) ∈ h.ents) : h.reg p slot = v := by
  have hs := hi.slot_lt _ hm
  have htok := (hi.tok_iff slot hs).2 ⟨v, hm⟩
  unfold H4.reg
  simp only [htok, ht, if_true]
  rw [H4.aux_find, (find_ents_some_iff h.ents hi.nodup slot v).2 hm]; rfl

theorem store_spec {p : Params} (ht : p.auxToken = 15) {h : H4} (hi : Inv4s p h) {slot nv : Nat} (hs : slot < 2^h.lgK)
    (hgt : h.reg p slot < nv) :
    let h1 := H4.store p h slot nv (getNib h.bytes slot)
    Inv4s p h1 ∧ h1.lgK = h.lgK ∧ h1.curMin = h.curMin ∧ h1.numAtCurMin = h.numAtCurMin ∧
    ∀ s, s < 2^h.lgK → h1.reg p s = if s = slot then nv else h.reg p s := by
  intro h1
  have hbi := hi.byte_idx hs
  have hnib_lt := getNib_lt h.bytes slot hi.blt
  by_cases hraw : getNib h.bytes slot = 15
  · -- case 1: the slot already is an exception
    obtain ⟨v, hm⟩ := (hi.tok_iff slot hs).1 hraw
    have hreg := hi.reg_tok ht hm
    have hv := hi.val_ge _ hm
    simp only at hv
    rw [hreg] at hgt
    have hfind : h.aux.bind (·.find slot) = some v := by
      rw [H4.aux_find]; exact (find_ents_some_iff h.ents hi.nodup slot v).2 hm
    -- the aux map exists
    obtain ⟨a, ha⟩ : ∃ a, h.aux = some a := by
      cases hx : h.aux with
      | none => simp [H4.ents, hx] at hm
      | some a => exact ⟨a, rfl⟩
    have hents : h.ents = a.ents := by simp [H4.ents, ha]
    have hfa : a.find slot = some v := by simpa [ha] using hfind
    have hrep : h.aux.bind (·.replace slot nv) =
        some { a with ents := a.ents.map (fun e => if e.1 = slot then (slot, nv) else e) } := by
      simp [ha, Aux.replace, hfa]
    have e1 : h1 = { h with aux := some { a with ents := a.ents.map (fun e => if e.1 = slot then (slot, nv) else e) } } := by
      show H4.store p h slot nv (getNib h.bytes slot) = _
      unfold H4.store
      simp only [hraw, ht, if_true]
      rw [if_pos (by omega), hrep]
    have hents1 : h1.ents = h.ents.map (fun e => if e.1 = slot then (slot, nv) else e) := by
      rw [e1, hents]; rfl
    have hkeys : h1.ents.map (·.1) = h.ents.map (·.1) := by
      rw [hents1, List.map_map]
      apply List.map_congr_left
      intro e _
      simp only [Function.comp]
      by_cases he : e.1 = slot
      · simp [he]
      · simp [he]
    have hmem1 : ∀ s w, (s, w) ∈ h1.ents ↔ ((s = slot ∧ w = nv) ∨ (s ≠ slot ∧ (s, w) ∈ h.ents)) := by
      intro s w
      rw [hents1, List.mem_map]
      constructor
      · rintro ⟨e, he, heq⟩
        by_cases hes : e.1 = slot
        · rw [if_pos hes] at heq; cases heq; exact Or.inl ⟨rfl, rfl⟩
        · rw [if_neg hes] at heq; subst heq; exact Or.inr ⟨hes, he⟩
      · rintro (⟨rfl, rfl⟩ | ⟨hne, he⟩)
        · exact ⟨(s, v), hm, by simp⟩
        · exact ⟨(s, w), he, by simp [hne]⟩
    have hb1 : h1.bytes = h.bytes := by rw [e1]
    have hS : Inv4s p h1 := by
      refine ⟨by rw [e1]; exact hi.lgK_pos, by rw [hb1, e1]; exact hi.size, by rw [hb1]; exact hi.blt,
        by rw [e1]; exact hi.notbad, by rw [hkeys]; exact hi.nodup, ?_, ?_, ?_⟩
      · intro s hs'
        have hs'' : s < 2^h.lgK := by rw [e1] at hs'; exact hs'
        rw [hb1, hi.tok_iff s hs'']
        constructor
        · rintro ⟨w, hw⟩
          by_cases hss : s = slot
          · exact ⟨nv, (hmem1 s nv).2 (Or.inl ⟨hss, rfl⟩)⟩
          · exact ⟨w, (hmem1 s w).2 (Or.inr ⟨hss, hw⟩)⟩
        · rintro ⟨w, hw⟩
          rcases (hmem1 s w).1 hw with ⟨rfl, _⟩ | ⟨_, he⟩
          · exact ⟨v, hm⟩
          · exact ⟨w, he⟩
      · intro e he
        have : e.1 < 2^h.lgK := by
          rcases (hmem1 e.1 e.2).1 he with ⟨h1', _⟩ | ⟨_, he'⟩
          · rw [h1']; exact hs
          · exact hi.slot_lt _ he'
        rw [e1]; exact this
      · intro e he
        have hcm : h1.curMin = h.curMin := by rw [e1]
        rw [hcm]
        rcases (hmem1 e.1 e.2).1 he with ⟨_, h2⟩ | ⟨_, he'⟩
        · rw [h2]; omega
        · exact hi.val_ge _ he'
    refine ⟨hS, by rw [e1], by rw [e1], by rw [e1], ?_⟩
    intro s hs'
    by_cases hss : s = slot
    · rw [if_pos hss, hss]
      exact hS.reg_tok ht ((hmem1 slot nv).2 (Or.inl ⟨rfl, rfl⟩))
    · rw [if_neg hss]
      by_cases hn : getNib h.bytes s = 15
      · obtain ⟨w, hw⟩ := (hi.tok_iff s hs').1 hn
        rw [hi.reg_tok ht hw]
        exact hS.reg_tok ht ((hmem1 s w).2 (Or.inr ⟨hss, hw⟩))
      · have hn1 : getNib h1.bytes s ≠ 15 := by rw [hb1]; exact hn
        rw [Inv4.reg_nib ht hn, Inv4.reg_nib ht hn1, hb1, e1]
  · -- the slot holds a plain nibble
    have hreg : h.reg p slot = getNib h.bytes slot + h.curMin := Inv4.reg_nib ht hraw
    rw [hreg] at hgt
    have hnot : ∀ w, (slot, w) ∉ h.ents := fun w hw => hraw ((hi.tok_iff slot hs).2 ⟨w, hw⟩)
    by_cases hexc : nv - h.curMin ≥ 15
    · -- case 3: new exception
      have hfindnone : ∀ (a : Aux), a.ents = h.ents → a.find slot = none := by
        intro a ha
        rw [Aux.find_none_iff, ha]; exact hnot
      -- the aux map after `getD`
      let a0 : Aux := h.aux.getD (newAux p h.lgK)
      have ha0 : a0.ents = h.ents := by
        show (h.aux.getD (newAux p h.lgK)).ents = h.ents
        unfold H4.ents
        cases h.aux with
        | none => simp [newAux]
        | some a => simp
      have hadd : a0.add p slot nv = some (Aux.grown p { a0 with ents := a0.ents ++ [(slot, nv)] }) := by
        simp [Aux.add, hfindnone a0 ha0]
      have e1 : h1 = { h with bytes := putNib h.bytes slot 15,
                              aux := some (Aux.grown p { a0 with ents := a0.ents ++ [(slot, nv)] }) } := by
        show H4.store p h slot nv (getNib h.bytes slot) = _
        unfold H4.store
        simp only [ht, hraw, if_false]
        rw [if_pos hexc]
        show (match a0.add p slot nv with | some a => _ | none => _) = _
        rw [hadd]
      have hgrown : ∀ (x : Aux), (Aux.grown p x).ents = x.ents := by
        intro x; unfold Aux.grown; split <;> rfl
      have hents1 : h1.ents = h.ents ++ [(slot, nv)] := by
        rw [e1]; simp only [H4.ents, hgrown]; rw [ha0]; rfl
      have hb1 : h1.bytes = putNib h.bytes slot 15 := by rw [e1]
      have hS : Inv4s p h1 := by
        refine ⟨by rw [e1]; exact hi.lgK_pos, by rw [hb1, putNib_size, e1]; exact hi.size,
          by rw [hb1]; exact putNib_bytes_lt _ _ _ hi.blt, by rw [e1]; exact hi.notbad, ?_, ?_, ?_, ?_⟩
        · rw [hents1, List.map_append, List.nodup_append]
          refine ⟨hi.nodup, by simp, ?_⟩
          intro x hx y hy
          simp only [List.map_cons, List.map_nil, List.mem_singleton] at hy
          subst hy
          intro hxy; subst hxy
          rcases List.mem_map.1 hx with ⟨e, he, hes⟩
          exact hnot e.2 (by rw [← hes]; exact he)
        · intro s hs'
          have hs'' : s < 2^h.lgK := by rw [e1] at hs'; exact hs'
          rw [hb1, hents1]
          by_cases hss : s = slot
          · subst hss
            rw [getNib_putNib_same _ _ _ hbi]
            simp
          · rw [getNib_putNib_ne _ _ _ _ hss, hi.tok_iff s hs'']
            constructor
            · rintro ⟨w, hw⟩; exact ⟨w, List.mem_append_left _ hw⟩
            · rintro ⟨w, hw⟩
              rcases List.mem_append.1 hw with hw | hw
              · exact ⟨w, hw⟩
              · simp only [List.mem_singleton, Prod.mk.injEq] at hw; exact absurd hw.1 hss
        · intro e he
          rw [hents1] at he
          have : e.1 < 2^h.lgK := by
            rcases List.mem_append.1 he with he | he
            · exact hi.slot_lt _ he
            · simp only [List.mem_singleton] at he; rw [he]; exact hs
          rw [e1]; exact this
        · intro e he
          rw [hents1] at he
          have hcm : h1.curMin = h.curMin := by rw [e1]
          rw [hcm]
          rcases List.mem_append.1 he with he | he
          · exact hi.val_ge _ he
          · simp only [List.mem_singleton] at he; rw [he]; simp only; omega
      refine ⟨hS, by rw [e1], by rw [e1], by rw [e1], ?_⟩
      intro s hs'
      by_cases hss : s = slot
      · rw [if_pos hss, hss]
        exact hS.reg_tok ht (by rw [hents1]; simp)
      · rw [if_neg hss]
        by_cases hn : getNib h.bytes s = 15
        · obtain ⟨w, hw⟩ := (hi.tok_iff s hs').1 hn
          rw [hi.reg_tok ht hw]
          exact hS.reg_tok ht (by rw [hents1]; exact List.mem_append_left _ hw)
        · have hn1 : getNib h1.bytes s ≠ 15 := by rw [hb1, getNib_putNib_ne _ _ _ _ hss]; exact hn
          rw [Inv4.reg_nib ht hn, Inv4.reg_nib ht hn1, hb1, getNib_putNib_ne _ _ _ _ hss, e1]
    · -- case 4: plain nibble stays a plain nibble
      have e1 : h1 = { h with bytes := putNib h.bytes slot (nv - h.curMin) } := by
        show H4.store p h slot nv (getNib h.bytes slot) = _
        unfold H4.store
        simp only [ht, hraw, if_false]
        rw [if_neg hexc]
      have hents1 : h1.ents = h.ents := by rw [e1]; rfl
      have hb1 : h1.bytes = putNib h.bytes slot (nv - h.curMin) := by rw [e1]
      have hnibslot : getNib h1.bytes slot = nv - h.curMin := by
        rw [hb1, getNib_putNib_same _ _ _ hbi]; omega
      have hS : Inv4s p h1 := by
        refine ⟨by rw [e1]; exact hi.lgK_pos, by rw [hb1, putNib_size, e1]; exact hi.size,
          by rw [hb1]; exact putNib_bytes_lt _ _ _ hi.blt, by rw [e1]; exact hi.notbad, by rw [hents1]; exact hi.nodup, ?_, ?_, ?_⟩
        · intro s hs'
          have hs'' : s < 2^h.lgK := by rw [e1] at hs'; exact hs'
          rw [hents1]
          by_cases hss : s = slot
          · subst hss
            rw [hnibslot]
            constructor
            · intro h15; omega
            · rintro ⟨w, hw⟩; exact absurd hw (hnot w)
          · rw [hb1, getNib_putNib_ne _ _ _ _ hss]; exact hi.tok_iff s hs''
        · intro e he; rw [hents1] at he; rw [e1]; exact hi.slot_lt _ he
        · intro e he; rw [hents1] at he
          have hcm : h1.curMin = h.curMin := by rw [e1]
          rw [hcm]; exact hi.val_ge _ he
      refine ⟨hS, by rw [e1], by rw [e1], by rw [e1], ?_⟩
      intro s hs'
      by_cases hss : s = slot
      · rw [if_pos hss, hss]
        have hn1 : getNib h1.bytes slot ≠ 15 := by rw [hnibslot]; omega
        rw [Inv4.reg_nib ht hn1, hnibslot, e1]; simp only; omega
      · rw [if_neg hss]
        by_cases hn : getNib h.bytes s = 15
        · obtain ⟨w, hw⟩ := (hi.tok_iff s hs').1 hn
          rw [hi.reg_tok ht hw]
          exact hS.reg_tok ht (by rw [hents1]; exact hw)
        · have hn1 : getNib h1.bytes s ≠ 15 := by rw [hb1, getNib_putNib_ne _ _ _ _ hss]; exact hn
          rw [Inv4.reg_nib ht hn, Inv4.reg_nib ht hn1, hb1, getNib_putNib_ne _ _ _ _ hss, e1]

/-! ### shiftToBiggerCurMin, first loop: decrement every plain nibble -/

theorem filter_range_succ (n : Nat) (q : Nat → Bool) :
    ((List.range (n + 1)).filter q).length = ((List.range n).filter q).length + (if q n then 1 else 0) := by
  rw [List.range_succ, List.filter_append, List.length_append]
  by_cases h : q n <;> simp [h]

theorem shiftNibs_spec (p : Params) (ht : p.auxToken = 15) (hasAux : Bool) (b0 : Array Nat) (k : Nat)
    (hk : ∀ s, s < k → s / 2 < b0.size) (hb : ∀ i, i < b0.size → b0.getD i 0 < 256)
    (hnz : ∀ s, s < k → getNib b0 s ≠ 0) (haux : hasAux = true ∨ ∀ s, s < k → getNib b0 s ≠ 15) :
    ∀ n, n ≤ k →
      let r := (List.range n).foldl (shiftNibStep p hasAux) (b0, 0, 0, false)
      r.1.size = b0.size ∧ (∀ i, i < r.1.size → r.1.getD i 0 < 256) ∧
      (∀ s, s < k → getNib r.1 s = if s < n ∧ getNib b0 s < 15 then getNib b0 s - 1 else getNib b0 s) ∧
      r.2.1 = ((List.range n).filter (fun s => getNib b0 s = 1)).length ∧
      r.2.2.1 = ((List.range n).filter (fun s => getNib b0 s = 15)).length ∧
      r.2.2.2 = false
  | 0, _ => by
    intro r
    refine ⟨rfl, hb, fun s _ => ?_, rfl, rfl, rfl⟩
    simp [r]
  | n + 1, hn => by
    have ih := shiftNibs_spec p ht hasAux b0 k hk hb hnz haux n (by omega)
    intro r
    have hr : r = shiftNibStep p hasAux ((List.range n).foldl (shiftNibStep p hasAux) (b0, 0, 0, false)) n := by
      simp [r, List.range_succ, List.foldl_append]
    generalize (List.range n).foldl (shiftNibStep p hasAux) (b0, 0, 0, false) = st at ih hr
    obtain ⟨bytes, nNew, nTok, bad⟩ := st
    simp only at ih
    obtain ⟨hsz, hblt, hnib, hnew, htok, hbad⟩ := ih
    have hnk : n < k := by omega
    have hold : getNib bytes n = getNib b0 n := by
      rw [hnib n hnk, if_neg (by omega)]
    have hlt16 := getNib_lt b0 n hb
    have hnz' := hnz n hnk
    rw [hr]
    unfold shiftNibStep
    simp only [hold, ht]
    rw [if_neg hnz']
    rw [filter_range_succ, filter_range_succ]
    by_cases hlt : getNib b0 n < 15
    · rw [if_pos hlt]
      simp only
      refine ⟨by rw [putNib_size]; exact hsz, putNib_bytes_lt _ _ _ hblt, ?_, ?_, ?_, hbad⟩
      · intro s hs
        by_cases hsn : s = n
        · subst hsn
          rw [getNib_putNib_same _ _ _ (by rw [hsz]; exact hk s hs), if_pos ⟨by omega, hlt⟩]; omega
        · rw [getNib_putNib_ne _ _ _ _ hsn, hnib s hs]
          by_cases hc : s < n ∧ getNib b0 s < 15
          · rw [if_pos hc, if_pos ⟨by omega, hc.2⟩]
          · rw [if_neg hc, if_neg (by intro hc'; exact hc ⟨by omega, hc'.2⟩)]
      · rw [hnew]
        by_cases h1 : getNib b0 n = 1
        · simp [h1]
        · have : ¬ (getNib b0 n - 1 = 0) := by omega
          simp [h1, this]
      · rw [htok]; simp [show ¬ getNib b0 n = 15 by omega]
    · rw [if_neg hlt]
      have h15 : getNib b0 n = 15 := by omega
      have hA : hasAux = true := by
        rcases haux with h | h
        · exact h
        · exact absurd h15 (h n hnk)
      simp only
      refine ⟨hsz, hblt, ?_, ?_, ?_, by simp [hbad, hA]⟩
      · intro s hs
        rw [hnib s hs]
        by_cases hc : s < n ∧ getNib b0 s < 15
        · rw [if_pos hc, if_pos ⟨by omega, hc.2⟩]
        · rw [if_neg hc, if_neg]
          intro hc'
          by_cases hsn : s = n
          · subst hsn; omega
          · exact hc ⟨by omega, hc'.2⟩
      · rw [hnew]; simp [show ¬ getNib b0 n = 1 by omega]
      · rw [htok]; simp [h15]

/-! ### shiftToBiggerCurMin, second loop: walk the old aux map -/

def entsOf (na : Option Aux) : List (Nat × Nat) := match na with | some a => a.ents | none => []

theorem Aux.grown_ents (p : Params) (x : Aux) : (Aux.grown p x).ents = x.ents := by
  unfold Aux.grown; split <;> rfl

theorem shiftAux_spec (p : Params) (ht : p.auxToken = 15) (lgK ncm : Nat) :
    ∀ (l : List (Nat × Nat)) (b : Array Nat) (na : Option Aux) (t : Nat),
      (l.map (·.1)).Nodup →
      (∀ i, i < b.size → b.getD i 0 < 256) →
      (∀ e, e ∈ l → e.1 / 2 < b.size ∧ getNib b e.1 = 15 ∧ ncm + 14 ≤ e.2) →
      (∀ e, e ∈ l → ∀ w, (e.1, w) ∉ entsOf na) →
      let r := l.foldl (shiftAuxStep p lgK ncm) (b, na, t, false)
      r.1.size = b.size ∧ (∀ i, i < r.1.size → r.1.getD i 0 < 256) ∧
      (∀ s, getNib r.1 s = if (∃ e, e ∈ l ∧ e.1 = s ∧ e.2 = ncm + 14) then 14 else getNib b s) ∧
      entsOf r.2.1 = entsOf na ++ l.filter (fun e => ncm + 15 ≤ e.2) ∧
      r.2.2.1 = t - (l.filter (fun e => e.2 = ncm + 14)).length ∧
      r.2.2.2 = false
  | [], b, na, t, _, hb, _, _ => by
    intro r
    refine ⟨rfl, hb, fun s => by simp [r], by simp [r], by simp [r], rfl⟩
  | (slot, v) :: l, b, na, t, hnd, hb, hl, hdis => by
    intro r
    simp only [List.map_cons, List.nodup_cons] at hnd
    obtain ⟨hsz, hnib, hv⟩ := hl (slot, v) List.mem_cons_self
    simp only at hsz hnib hv
    have hr : r = l.foldl (shiftAuxStep p lgK ncm) (shiftAuxStep p lgK ncm (b, na, t, false) (slot, v)) := by
      simp [r]
    have hne : ∀ e, e ∈ l → e.1 ≠ slot := by
      intro e he heq
      exact hnd.1 (List.mem_map.2 ⟨e, he, heq⟩)
    by_cases hv14 : v = ncm + 14
    · -- the former exception is exactly 14 above the new curMin: it moves back into the nibble array
      have hstep : shiftAuxStep p lgK ncm (b, na, t, false) (slot, v) = (putNib b slot 14, na, t - 1, false) := by
        unfold shiftAuxStep
        simp only [ht, hnib]
        rw [if_neg (by omega), if_pos (by omega)]
        have : v - ncm = 14 := by omega
        simp [this]
      have ih := shiftAux_spec p ht lgK ncm l (putNib b slot 14) na (t - 1) hnd.2 (putNib_bytes_lt _ _ _ hb)
        (by
          intro e he
          obtain ⟨h1, h2, h3⟩ := hl e (List.mem_cons_of_mem _ he)
          exact ⟨by rw [putNib_size]; exact h1, by rw [getNib_putNib_ne _ _ _ _ (hne e he)]; exact h2, h3⟩)
        (fun e he => hdis e (List.mem_cons_of_mem _ he))
      rw [hr, hstep]
      simp only at ih
      obtain ⟨i1, i2, i3, i4, i5, i6⟩ := ih
      refine ⟨by rw [i1, putNib_size], i2, ?_, ?_, ?_, i6⟩
      · intro s
        rw [i3 s]
        by_cases hss : s = slot
        · subst hss
          have hno : ¬ ∃ e, e ∈ l ∧ e.1 = s ∧ e.2 = ncm + 14 := by
            rintro ⟨e, he, h1, _⟩; exact hne e he h1
          rw [if_neg hno, getNib_putNib_same _ _ _ hsz, if_pos ⟨(s, v), List.mem_cons_self, rfl, hv14⟩]
        · rw [getNib_putNib_ne _ _ _ _ hss]
          have : (∃ e, e ∈ l ∧ e.1 = s ∧ e.2 = ncm + 14) ↔ (∃ e, e ∈ (slot, v) :: l ∧ e.1 = s ∧ e.2 = ncm + 14) := by
            constructor
            · rintro ⟨e, he, h1, h2⟩; exact ⟨e, List.mem_cons_of_mem _ he, h1, h2⟩
            · rintro ⟨e, he, h1, h2⟩
              rcases List.mem_cons.1 he with rfl | he
              · exact absurd h1.symm hss
              · exact ⟨e, he, h1, h2⟩
          by_cases hc : ∃ e, e ∈ l ∧ e.1 = s ∧ e.2 = ncm + 14
          · rw [if_pos hc, if_pos (this.1 hc)]
          · rw [if_neg hc, if_neg (fun h => hc (this.2 h))]
      · rw [i4, List.filter_cons]
        simp [show ¬ (ncm + 15 ≤ v) by omega]
      · rw [i5, List.filter_cons]
        simp only [hv14, decide_true, if_true, List.length_cons]
        omega
    · -- the exception stays an exception: it goes into the new aux map
      have hge : ncm + 15 ≤ v := by omega
      have hfind : (na.getD (newAux p lgK)).find slot = none := by
        rw [Aux.find_none_iff]
        intro w hw
        apply hdis (slot, v) List.mem_cons_self w
        cases na with
        | none => simp [newAux] at hw
        | some a => simpa [entsOf] using hw
      have hstep : shiftAuxStep p lgK ncm (b, na, t, false) (slot, v) =
          (b, some (Aux.grown p { (na.getD (newAux p lgK)) with ents := (na.getD (newAux p lgK)).ents ++ [(slot, v)] }), t, false) := by
        unfold shiftAuxStep
        simp only [ht, hnib]
        rw [if_neg (by omega), if_neg (by omega)]
        simp [Aux.add, hfind]
      have hents' : entsOf (some (Aux.grown p { (na.getD (newAux p lgK)) with ents := (na.getD (newAux p lgK)).ents ++ [(slot, v)] })) =
          entsOf na ++ [(slot, v)] := by
        simp only [entsOf, Aux.grown_ents]
        cases na with
        | none => simp [newAux]
        | some a => simp
      have ih := shiftAux_spec p ht lgK ncm l b _ t hnd.2 hb
        (fun e he => hl e (List.mem_cons_of_mem _ he))
        (by
          intro e he w hw
          rw [hents'] at hw
          rcases List.mem_append.1 hw with hw | hw
          · exact hdis e (List.mem_cons_of_mem _ he) w hw
          · simp only [List.mem_singleton, Prod.mk.injEq] at hw; exact hne e he hw.1)
      rw [hr, hstep]
      simp only at ih
      obtain ⟨i1, i2, i3, i4, i5, i6⟩ := ih
      refine ⟨i1, i2, ?_, ?_, ?_, i6⟩
      · intro s
        rw [i3 s]
        have : (∃ e, e ∈ l ∧ e.1 = s ∧ e.2 = ncm + 14) ↔ (∃ e, e ∈ (slot, v) :: l ∧ e.1 = s ∧ e.2 = ncm + 14) := by
          constructor
          · rintro ⟨e, he, h1, h2⟩; exact ⟨e, List.mem_cons_of_mem _ he, h1, h2⟩
          · rintro ⟨e, he, h1, h2⟩
            rcases List.mem_cons.1 he with rfl | he
            · exact absurd h2 hv14
            · exact ⟨e, he, h1, h2⟩
        by_cases hc : ∃ e, e ∈ l ∧ e.1 = s ∧ e.2 = ncm + 14
        · rw [if_pos hc, if_pos (this.1 hc)]
        · rw [if_neg hc, if_neg (fun h => hc (this.2 h))]
      · rw [i4, hents', List.filter_cons]
        simp [hge]
      · rw [i5, List.filter_cons]
        simp [hv14]

/-! ### shiftToBiggerCurMin as a whole -/

theorem H4.ents_eq_entsOf (h : H4) : h.ents = entsOf h.aux := rfl

theorem tok_count {p : Params} {h : H4} (hi : Inv4s p h) :
    ((List.range (2^h.lgK)).filter (fun s => getNib h.bytes s = 15)).length = h.ents.length := by
  have h1 : ((List.range (2^h.lgK)).filter (fun s => getNib h.bytes s = 15)).Perm (h.ents.map (·.1)) := by
    rw [List.perm_ext_iff_of_nodup (List.Nodup.sublist List.filter_sublist List.nodup_range) hi.nodup]
    intro s
    simp only [List.mem_filter, List.mem_range, decide_eq_true_eq, List.mem_map]
    constructor
    · rintro ⟨hs, hn⟩
      obtain ⟨v, hv⟩ := (hi.tok_iff s hs).1 hn
      exact ⟨(s, v), hv, rfl⟩
    · rintro ⟨e, he, rfl⟩
      exact ⟨hi.slot_lt e he, (hi.tok_iff _ (hi.slot_lt e he)).2 ⟨e.2, he⟩⟩
  rw [h1.length_eq, List.length_map]

theorem filter_partition_len (l : List (Nat × Nat)) (n : Nat) (h : ∀ e, e ∈ l → n + 14 ≤ e.2) :
    l.length = (l.filter (fun e => n + 15 ≤ e.2)).length + (l.filter (fun e => e.2 = n + 14)).length := by
  induction l with
  | nil => simp
  | cons a t ih =>
    have ha := h a List.mem_cons_self
    have := ih (fun e he => h e (List.mem_cons_of_mem _ he))
    rw [List.filter_cons, List.filter_cons]
    by_cases h1 : a.2 = n + 14
    · simp [h1]; omega
    · have h2 : n + 15 ≤ a.2 := by omega
      simp [h1, h2]; omega

theorem shift_spec {p : Params} (ht : p.auxToken = 15) {h : H4} (hi : Inv4s p h)
    (hnone : ∀ s, s < 2^h.lgK → h.reg p s ≠ h.curMin) :
    Inv4s p (h.shift p) ∧ (h.shift p).lgK = h.lgK ∧ (h.shift p).curMin = h.curMin + 1 ∧
    (∀ s, s < 2^h.lgK → (h.shift p).reg p s = h.reg p s) ∧
    (h.shift p).numAtCurMin = ((List.range (2^h.lgK)).filter (fun s => h.reg p s = h.curMin + 1)).length := by
  -- facts about the old nibbles
  have hnz : ∀ s, s < 2^h.lgK → getNib h.bytes s ≠ 0 := by
    intro s hs h0
    have : h.reg p s = h.curMin := by rw [Inv4.reg_nib ht (by omega), h0]; omega
    exact hnone s hs this
  have haux : h.aux.isSome = true ∨ ∀ s, s < 2^h.lgK → getNib h.bytes s ≠ 15 := by
    cases hx : h.aux with
    | some a => exact Or.inl rfl
    | none =>
      right
      intro s hs h15
      obtain ⟨v, hv⟩ := (hi.tok_iff s hs).1 h15
      simp [H4.ents, hx] at hv
  have l1 := shiftNibs_spec p ht h.aux.isSome h.bytes (2^h.lgK) (fun s hs => hi.byte_idx hs) hi.blt hnz haux (2^h.lgK) (Nat.le_refl _)
  simp only at l1
  -- name the result of the first loop
  generalize hfold : (List.range (2^h.lgK)).foldl (shiftNibStep p h.aux.isSome) (h.bytes, 0, 0, false) = st1 at l1
  obtain ⟨b1, nNew, nTok, bad1⟩ := st1
  simp only at l1
  obtain ⟨s1, blt1, nib1, hNew, hTok, hbad1⟩ := l1
  subst hbad1
  have nib1' : ∀ s, s < 2^h.lgK → getNib b1 s = if getNib h.bytes s < 15 then getNib h.bytes s - 1 else getNib h.bytes s := by
    intro s hs
    rw [nib1 s hs]
    by_cases hc : getNib h.bytes s < 15
    · rw [if_pos ⟨hs, hc⟩, if_pos hc]
    · rw [if_neg (fun x => hc x.2), if_neg hc]
  have hnewcnt : nNew = ((List.range (2^h.lgK)).filter (fun s => h.reg p s = h.curMin + 1)).length := by
    rw [hNew]
    congr 1
    apply List.filter_congr
    intro s hs
    rw [List.mem_range] at hs
    by_cases h15 : getNib h.bytes s = 15
    · obtain ⟨v, hv⟩ := (hi.tok_iff s hs).1 h15
      have := hi.val_ge _ hv
      simp only at this
      rw [hi.reg_tok ht hv]
      simp [h15]; omega
    · rw [Inv4.reg_nib ht h15]
      simp only [decide_eq_decide]; omega
  -- the shape of `shift`
  have hshift : h.shift p =
      (match h.aux with
       | some a =>
         let r2 := a.ents.foldl (shiftAuxStep p h.lgK (h.curMin + 1)) (b1, none, nTok, false)
         { h with bytes := r2.1, aux := r2.2.1, curMin := h.curMin + 1, numAtCurMin := nNew,
                  bad := r2.2.2.2 || (match r2.2.1 with | some x => x.ents.length != r2.2.2.1 | none => false) }
       | none => { h with bytes := b1, aux := none, curMin := h.curMin + 1, numAtCurMin := nNew, bad := false || (nTok != 0) }) := by
    unfold H4.shift
    simp only [hi.notbad, hfold]
    cases h.aux <;> rfl
  cases hx : h.aux with
  | none =>
    have hents : h.ents = [] := by simp [H4.ents, hx]
    have hTok0 : nTok = 0 := by
      rw [hTok, tok_count hi, hents]; rfl
    rw [hx] at hshift
    simp only [hTok0] at hshift
    have e1 : h.shift p = { h with bytes := b1, aux := none, curMin := h.curMin + 1, numAtCurMin := nNew, bad := false } := by
      rw [hshift]; rfl
    have hno15 : ∀ s, s < 2^h.lgK → getNib h.bytes s ≠ 15 := by
      intro s hs h15
      obtain ⟨v, hv⟩ := (hi.tok_iff s hs).1 h15
      rw [hents] at hv; simp at hv
    have hnibnew : ∀ s, s < 2^h.lgK → getNib b1 s = getNib h.bytes s - 1 := by
      intro s hs
      have := getNib_lt h.bytes s hi.blt
      rw [nib1' s hs, if_pos (by have := hno15 s hs; omega)]
    rw [e1]
    refine ⟨⟨hi.lgK_pos, by simpa using s1.trans hi.size, blt1, rfl, by simp [H4.ents], ?_, by simp [H4.ents], by simp [H4.ents]⟩,
      rfl, rfl, ?_, hnewcnt⟩
    · intro s hs
      simp only [H4.ents]
      have hs' : s < 2^h.lgK := hs
      have := getNib_lt h.bytes s hi.blt
      have h2 := hno15 s hs'
      rw [hnibnew s hs']
      constructor
      · intro h15; omega
      · rintro ⟨v, hv⟩; simp at hv
    · intro s hs
      have := getNib_lt h.bytes s hi.blt
      have h2 := hno15 s hs
      have h3 := hnz s hs
      have hn1 : getNib b1 s ≠ 15 := by rw [hnibnew s hs]; omega
      rw [Inv4.reg_nib ht h2, Inv4.reg_nib (h := { h with bytes := b1, aux := none, curMin := h.curMin + 1, numAtCurMin := nNew, bad := false }) ht hn1]
      simp only
      rw [hnibnew s hs]; omega
  | some a =>
    have hents : h.ents = a.ents := by simp [H4.ents, hx]
    have l2 := shiftAux_spec p ht h.lgK (h.curMin + 1) a.ents b1 none nTok (by rw [← hents]; exact hi.nodup) blt1
      (by
        intro e he
        rw [← hents] at he
        have hs := hi.slot_lt e he
        have h15 := (hi.tok_iff e.1 hs).2 ⟨e.2, he⟩
        refine ⟨by rw [s1]; exact hi.byte_idx hs, ?_, ?_⟩
        · rw [nib1' e.1 hs, if_neg (by omega)]; exact h15
        · have := hi.val_ge e he; omega)
      (by intro e _ w hw; simp [entsOf] at hw)
    simp only at l2
    generalize hfold2 : a.ents.foldl (shiftAuxStep p h.lgK (h.curMin + 1)) (b1, none, nTok, false) = st2 at l2
    obtain ⟨b2, na, nTok2, bad2⟩ := st2
    simp only at l2
    obtain ⟨s2, blt2, nib2, hkept, hTok2, hbad2⟩ := l2
    subst hbad2
    simp only [entsOf, List.nil_append] at hkept
    have hkept' : entsOf na = a.ents.filter (fun e => h.curMin + 1 + 15 ≤ e.2) := hkept
    -- the final consistency check of the code passes
    have hlen : (entsOf na).length = nTok2 := by
      rw [hkept', hTok2, hTok, tok_count hi, hents]
      have := filter_partition_len a.ents (h.curMin + 1) (by
        intro e he; rw [← hents] at he; have := hi.val_ge e he; omega)
      omega
    have hcheck : (match na with | some x => x.ents.length != nTok2 | none => false) = false := by
      cases na with
      | none => rfl
      | some x => simp only [entsOf] at hlen; simp [hlen]
    rw [hx] at hshift
    simp only [hfold2, hcheck, Bool.or_false] at hshift
    have e1 : h.shift p = { h with bytes := b2, aux := na, curMin := h.curMin + 1, numAtCurMin := nNew, bad := false } := hshift
    have hents' : (h.shift p).ents = a.ents.filter (fun e => h.curMin + 1 + 15 ≤ e.2) := by
      rw [e1]; exact hkept'
    -- membership in the new aux map
    have hmem' : ∀ s v, (s, v) ∈ (h.shift p).ents ↔ ((s, v) ∈ h.ents ∧ h.curMin + 16 ≤ v) := by
      intro s v
      rw [hents', hents, List.mem_filter]
      simp only [decide_eq_true_eq]
    have huniq : ∀ s v w, (s, v) ∈ h.ents → (s, w) ∈ h.ents → v = w := by
      intro s v w hv hw
      have h1 := (find_ents_some_iff h.ents hi.nodup s v).2 hv
      have h2 := (find_ents_some_iff h.ents hi.nodup s w).2 hw
      rw [h1] at h2; cases h2; rfl
    -- new nibbles
    have hnibnew : ∀ s, s < 2^h.lgK → getNib b2 s =
        if getNib h.bytes s < 15 then getNib h.bytes s - 1
        else if (s, h.curMin + 15) ∈ h.ents then 14 else 15 := by
      intro s hs
      rw [nib2 s]
      have hlt := getNib_lt h.bytes s hi.blt
      by_cases hc : getNib h.bytes s < 15
      · rw [if_pos hc, if_neg, nib1' s hs, if_pos hc]
        rintro ⟨e, he, h1, _⟩
        rw [← hents] at he
        have := (hi.tok_iff s hs).2 ⟨e.2, by rw [← h1]; exact he⟩
        omega
      · rw [if_neg hc]
        have h15 : getNib h.bytes s = 15 := by omega
        by_cases hm : (s, h.curMin + 15) ∈ h.ents
        · rw [if_pos hm, if_pos ⟨(s, h.curMin + 15), by rw [← hents]; exact hm, rfl, by omega⟩]
        · rw [if_neg hm, if_neg, nib1' s hs, if_neg hc, h15]
          rintro ⟨e, he, h1, h2⟩
          apply hm
          rw [← hents] at he
          have : e = (s, h.curMin + 15) := by
            cases e; simp only at h1 h2; subst h1; rw [h2]
          rw [← this]; exact he
    have hS : Inv4s p (h.shift p) := by
      refine ⟨by rw [e1]; exact hi.lgK_pos, by rw [e1]; simpa using (s2.trans s1).trans hi.size, by rw [e1]; exact blt2,
        by rw [e1], ?_, ?_, ?_, ?_⟩
      · rw [hents']
        have : (a.ents.filter (fun e => h.curMin + 1 + 15 ≤ e.2)).map (·.1) |>.Sublist (a.ents.map (·.1)) :=
          (List.filter_sublist).map _
        exact List.Nodup.sublist this (by rw [← hents]; exact hi.nodup)
      · intro s hs
        have hs' : s < 2^h.lgK := by rw [e1] at hs; exact hs
        have hb : (h.shift p).bytes = b2 := by rw [e1]
        rw [hb, hnibnew s hs']
        have hlt := getNib_lt h.bytes s hi.blt
        by_cases hc : getNib h.bytes s < 15
        · rw [if_pos hc]
          constructor
          · intro h15; omega
          · rintro ⟨v, hv⟩
            have := (hi.tok_iff s hs').2 ⟨v, ((hmem' s v).1 hv).1⟩
            omega
        · rw [if_neg hc]
          have h15 : getNib h.bytes s = 15 := by omega
          obtain ⟨v, hv⟩ := (hi.tok_iff s hs').1 h15
          by_cases hm : (s, h.curMin + 15) ∈ h.ents
          · rw [if_pos hm]
            constructor
            · intro hh; omega
            · rintro ⟨w, hw⟩
              have := (hmem' s w).1 hw
              have := huniq s _ _ hm this.1
              omega
          · rw [if_neg hm]
            constructor
            · intro _
              refine ⟨v, (hmem' s v).2 ⟨hv, ?_⟩⟩
              have := hi.val_ge _ hv
              simp only at this
              rcases Nat.lt_or_ge v (h.curMin + 16) with hlt' | hge
              · have : v = h.curMin + 15 := by omega
                subst this; exact absurd hv hm
              · exact hge
            · intro _; rfl
      · intro e he
        have := (hmem' e.1 e.2).1 he
        rw [e1]; exact hi.slot_lt _ this.1
      · intro e he
        have := (hmem' e.1 e.2).1 he
        have hcm : (h.shift p).curMin = h.curMin + 1 := by rw [e1]
        rw [hcm]; omega
    refine ⟨hS, by rw [e1], by rw [e1], ?_, by rw [e1]; exact hnewcnt⟩
    intro s hs
    have hb : (h.shift p).bytes = b2 := by rw [e1]
    have hcm : (h.shift p).curMin = h.curMin + 1 := by rw [e1]
    have hlt := getNib_lt h.bytes s hi.blt
    by_cases hc : getNib h.bytes s < 15
    · have hn : getNib (h.shift p).bytes s ≠ 15 := by rw [hb, hnibnew s hs, if_pos hc]; omega
      rw [Inv4.reg_nib ht hn, Inv4.reg_nib ht (by omega : getNib h.bytes s ≠ 15), hb, hnibnew s hs, if_pos hc, hcm]
      have := hnz s hs; omega
    · have h15 : getNib h.bytes s = 15 := by omega
      obtain ⟨v, hv⟩ := (hi.tok_iff s hs).1 h15
      rw [hi.reg_tok ht hv]
      by_cases hm : (s, h.curMin + 15) ∈ h.ents
      · have hvv := huniq s _ _ hm hv
        have hn : getNib (h.shift p).bytes s ≠ 15 := by rw [hb, hnibnew s hs, if_neg hc, if_pos hm]; omega
        rw [Inv4.reg_nib ht hn, hb, hnibnew s hs, if_neg hc, if_pos hm, hcm]; omega
      · have hge : h.curMin + 16 ≤ v := by
          have := hi.val_ge _ hv
          simp only at this
          rcases Nat.lt_or_ge v (h.curMin + 16) with hlt' | hge
          · have : v = h.curMin + 15 := by omega
            subst this; exact absurd hv hm
          · exact hge
        exact hS.reg_tok ht ((hmem' s v).2 ⟨hv, hge⟩)

/-! ### the while loop and the whole update -/

theorem count_map_filter (f : Nat → Nat) (v : Nat) : ∀ (l : List Nat), (l.map f).count v = (l.filter (fun s => f s = v)).length
  | [] => rfl
  | a :: t => by
    rw [List.map_cons, List.count_cons, List.filter_cons, count_map_filter f v t]
    by_cases h : f a = v <;> simp [h]

theorem H4.regs_count (p : Params) (h : H4) (v : Nat) :
    (h.regs p).count v = ((List.range (2^h.lgK)).filter (fun s => h.reg p s = v)).length := by
  unfold H4.regs
  rw [← count_map_filter]
  simp

theorem H4.regs_eq_of_reg (p : Params) (h h' : H4) (hk : h'.lgK = h.lgK) (hr : ∀ s, s < 2^h.lgK → h'.reg p s = h.reg p s) :
    h'.regs p = h.regs p :=
  H4.regs_ext p h h' hk (h.reg p) hr (h.regs p) (H4.regs_size p h) (fun s hs => H4.regs_getD p h hs)

theorem shiftWhile_of_ne (p : Params) (fuel : Nat) (h : H4) (hn : h.numAtCurMin ≠ 0) : H4.shiftWhile p fuel h = h := by
  cases fuel with
  | zero => rfl
  | succ f => simp [H4.shiftWhile, hn]

theorem shiftWhile_spec {p : Params} (ht : p.auxToken = 15) : ∀ (fuel : Nat) (h : H4), Inv4 p h → h.numAtCurMin = 0 →
    Inv4 p (H4.shiftWhile p fuel h) ∧ (H4.shiftWhile p fuel h).lgK = h.lgK ∧ (H4.shiftWhile p fuel h).regs p = h.regs p ∧
    ((H4.shiftWhile p fuel h).curMin, (H4.shiftWhile p fuel h).numAtCurMin) = shiftLoop (h.regs p) fuel h.curMin
  | 0, h, hi, h0 => by
    have e : H4.shiftWhile p 0 h = h := rfl
    rw [e]
    exact ⟨hi, rfl, rfl, by simp [shiftLoop, h0]⟩
  | fuel + 1, h, hi, h0 => by
    simp only [H4.shiftWhile, h0, if_true, shiftLoop]
    have hnone : ∀ s, s < 2^h.lgK → h.reg p s ≠ h.curMin := by
      intro s hs heq
      have hc := hi.cnt
      rw [h0] at hc
      have := count_pos_of_getD (a := h.regs p) (i := s) (w := h.curMin) (by rw [H4.regs_size]; exact hs)
        (by rw [H4.regs_getD p h hs]; exact heq)
      omega
    obtain ⟨hS, hk, hcm, hreg, hcnt⟩ := shift_spec ht hi.toS hnone
    have hregs : (h.shift p).regs p = h.regs p := H4.regs_eq_of_reg p h (h.shift p) hk hreg
    have hcnt' : (h.shift p).numAtCurMin = (h.regs p).count (h.curMin + 1) := by
      rw [hcnt, H4.regs_count]
    have hI : Inv4 p (h.shift p) := hS.toInv (by rw [hregs, hcm]; exact hcnt')
    by_cases hz : (h.regs p).count (h.curMin + 1) = 0
    · rw [if_pos hz]
      have ih := shiftWhile_spec ht fuel (h.shift p) hI (by rw [hcnt', hz])
      rw [hregs, hcm, hk] at ih
      exact ih
    · rw [if_neg hz]
      rw [shiftWhile_of_ne p fuel _ (by rw [hcnt']; exact hz)]
      exact ⟨hI, hk, hregs, by rw [hcm, hcnt']⟩

theorem Inv4.new (p : Params) (lgK : Nat) (hk : 1 ≤ lgK) : Inv4 p (H4.new lgK) := by
  have hnib : ∀ s, getNib (Array.replicate (2^(lgK - 1)) 0) s = 0 := by
    intro s
    unfold getNib
    have : (Array.replicate (2^(lgK - 1)) 0).getD (s / 2) 0 = 0 := by
      simp only [Array.getD_eq_getD_getElem?]
      by_cases hh : s / 2 < 2^(lgK - 1) <;> simp [hh]
    simp only [this]; split <;> rfl
  have hreg : ∀ s, (H4.new lgK).reg p s = if 0 = p.auxToken then 0 else 0 := by
    intro s
    unfold H4.reg H4.new
    simp only [hnib]
    split <;> simp
  refine ⟨hk, by simp [H4.new], ?_, rfl, by simp [H4.ents, H4.new], ?_, by simp [H4.ents, H4.new], by simp [H4.ents, H4.new], ?_⟩
  · intro i hi
    simp only [H4.new, Array.size_replicate] at hi
    simp [H4.new, Array.getD_eq_getD_getElem?, hi]
  · intro s _
    simp only [H4.new, hnib, H4.ents]
    constructor
    · intro h; omega
    · rintro ⟨v, hv⟩; simp at hv
  · rw [H4.regs_count]
    have : (List.range (2^(H4.new lgK).lgK)).filter (fun s => (H4.new lgK).reg p s = (H4.new lgK).curMin) = List.range (2^lgK) := by
      show (List.range (2^lgK)).filter _ = _
      apply List.filter_eq_self.2
      intro s _
      rw [hreg s]
      simp [H4.new]
    rw [this]; simp [H4.new]

/-- HLL_4 refinement: under the representation invariant one coupon update of the concrete array (nibbles, aux map,
curMin shift) is the abstract register update `maxUpdate`, keeps the invariant (so no `throw` branch of the code is
reachable), and moves (curMin, numAtCurMin) exactly like the L1 model's HLL_4 bookkeeping `bumpPair` -/
theorem h4_refines {p : Params} (ht : p.auxToken = 15) {h : H4} (hi : Inv4 p h) (c : Nat) :
    Inv4 p (h.update p c) ∧ (h.update p c).lgK = h.lgK ∧
    (h.update p c).regs p = maxUpdate p h.lgK (h.regs p) c ∧
    ((h.update p c).curMin, (h.update p c).numAtCurMin) =
      (if (h.regs p).getD (cSlot p h.lgK c) 0 < cValue p c then
        bumpPair .h4 ((h.regs p).setIfInBounds (cSlot p h.lgK c) (cValue p c)) h.curMin h.numAtCurMin
          ((h.regs p).getD (cSlot p h.lgK c) 0)
       else (h.curMin, h.numAtCurMin)) := by
  have hs := cSlot_lt p h.lgK c
  generalize hslot : cSlot p h.lgK c = slot at hs
  generalize hnv : cValue p c = nv
  have hgd : (h.regs p).getD slot 0 = h.reg p slot := H4.regs_getD p h hs
  have hcm_le := hi.curMin_le ht hs
  -- nothing changes when the new value does not exceed the register
  have keep : nv ≤ h.reg p slot →
      Inv4 p h ∧ h.lgK = h.lgK ∧ h.regs p = maxUpdate p h.lgK (h.regs p) c ∧
      (h.curMin, h.numAtCurMin) = (if (h.regs p).getD slot 0 < nv then
        bumpPair .h4 ((h.regs p).setIfInBounds slot nv) h.curMin h.numAtCurMin ((h.regs p).getD slot 0)
       else (h.curMin, h.numAtCurMin)) := by
    intro hle
    refine ⟨hi, rfl, ?_, ?_⟩
    · unfold maxUpdate; rw [hslot, hnv, hgd, if_neg (by omega)]
    · rw [hgd, if_neg (by omega)]
  unfold H4.update
  rw [hnv, hslot]
  by_cases hq : nv ≤ h.curMin
  · rw [if_pos hq]; exact keep (by omega)
  · rw [if_neg hq]
    unfold H4.update4
    have hlt16 := getNib_lt h.bytes slot hi.blt
    -- the actual old value is the register
    have hact : H4.actualOld p h slot (getNib h.bytes slot) = some (h.reg p slot) := by
      unfold H4.actualOld
      rw [ht]
      by_cases h15 : getNib h.bytes slot = 15
      · obtain ⟨v, hv⟩ := (hi.tok_iff slot hs).1 h15
        rw [if_neg (by omega), H4.aux_find, (find_ents_some_iff h.ents hi.nodup slot v).2 hv, hi.reg_tok ht hv]
      · rw [if_pos (by omega), Inv4.reg_nib ht h15]
    have hlb : getNib h.bytes slot + h.curMin ≤ h.reg p slot := by
      by_cases h15 : getNib h.bytes slot = 15
      · obtain ⟨v, hv⟩ := (hi.tok_iff slot hs).1 h15
        rw [hi.reg_tok ht hv]; have := hi.val_ge _ hv; simp only at this; omega
      · rw [Inv4.reg_nib ht h15]; omega
    by_cases hgt1 : nv > getNib h.bytes slot + h.curMin
    · rw [if_pos hgt1, hact]
      simp only
      by_cases hgt : nv > h.reg p slot
      · rw [if_pos hgt]
        obtain ⟨hS1, hk1, hcm1, hn1, hreg1⟩ := store_spec ht hi.toS hs hgt
        generalize H4.store p h slot nv (getNib h.bytes slot) = h1 at hS1 hk1 hcm1 hn1 hreg1
        -- the new register array
        have hregs1 : h1.regs p = (h.regs p).setIfInBounds slot nv := by
          apply H4.regs_ext p h h1 hk1 (fun s => if s = slot then nv else h.reg p s) hreg1
          · simp [H4.regs_size]
          · intro s hs'
            by_cases he : s = slot
            · rw [if_pos he, he, getD_setIfInBounds_self (by rw [H4.regs_size]; exact hs)]
            · rw [if_neg he, getD_setIfInBounds_ne (Ne.symm he), H4.regs_getD p h hs']
        have hcs := count_setIfInBounds (a := h.regs p) (i := slot) (v := nv) (w := h.curMin) (by rw [H4.regs_size]; exact hs)
        rw [hgd, if_neg (show ¬ nv = h.curMin by omega)] at hcs
        have hmu : maxUpdate p h.lgK (h.regs p) c = (h.regs p).setIfInBounds slot nv := by
          unfold maxUpdate; rw [hslot, hnv, hgd, if_pos hgt]
        rw [hgd, if_pos hgt]
        unfold bumpPair
        simp only
        by_cases hoc : h.reg p slot = h.curMin
        · rw [if_pos hoc, if_pos hoc]
          rw [if_pos hoc] at hcs
          -- numAtCurMin - 1 is the new multiplicity
          have hI2 : Inv4 p { h1 with numAtCurMin := h1.numAtCurMin - 1 } := by
            refine ⟨hS1.lgK_pos, hS1.size, hS1.blt, hS1.notbad, hS1.nodup, hS1.tok_iff, hS1.slot_lt, hS1.val_ge, ?_⟩
            show h1.numAtCurMin - 1 = ((H4.regs p { h1 with numAtCurMin := h1.numAtCurMin - 1 })).count h1.curMin
            have : H4.regs p { h1 with numAtCurMin := h1.numAtCurMin - 1 } = h1.regs p := rfl
            rw [this, hregs1, hn1, hcm1, hcs, hi.cnt]; omega
          by_cases hz : h.numAtCurMin - 1 = 0
          · rw [if_pos hz]
            have hsw := shiftWhile_spec ht 64 _ hI2 (by show h1.numAtCurMin - 1 = 0; rw [hn1]; exact hz)
            have hr2 : H4.regs p { h1 with numAtCurMin := h1.numAtCurMin - 1 } = (h.regs p).setIfInBounds slot nv := hregs1
            rw [hr2] at hsw
            refine ⟨hsw.1, hsw.2.1.trans hk1, by rw [hsw.2.2.1, hmu], ?_⟩
            rw [hsw.2.2.2]
            show shiftLoop _ 64 h1.curMin = _
            rw [hcm1]
          · rw [if_neg hz]
            rw [shiftWhile_of_ne p 64 _ (by show h1.numAtCurMin - 1 ≠ 0; rw [hn1]; exact hz)]
            refine ⟨hI2, hk1, by rw [← hmu] at hregs1; exact hregs1, ?_⟩
            show (h1.curMin, h1.numAtCurMin - 1) = _
            rw [hcm1, hn1]
        · rw [if_neg hoc, if_neg hoc]
          rw [if_neg hoc] at hcs
          refine ⟨hS1.toInv (by rw [hregs1, hn1, hcm1, hcs]; exact hi.cnt), hk1, by rw [hregs1, hmu], by rw [hcm1, hn1]⟩
      · rw [if_neg hgt]; exact keep (by omega)
    · rw [if_neg hgt1]; exact keep (by omega)

end DS.Hll

/- Emptiness, converting copies, coupon arithmetic (helper lemmas for Props/C03.lean). -/
import DSProofs.Lemmas.HllInv
namespace DS.Hll

variable {ν : Type} [HNum ν]

/-! ### coupon arithmetic -/

theorem cValue_cPair (p : Params) (slot v : Nat) : cValue p (cPair p slot v) = v := by
  unfold cValue cPair
  have hp : 0 < 2^p.keyBits := Nat.two_pow_pos _
  rw [Nat.mul_comm, Nat.mul_add_div hp, Nat.div_eq_of_lt (Nat.mod_lt _ hp)]; rfl

theorem cSlot_cPair (p : Params) {lgK slot : Nat} (v : Nat) (hk : lgK ≤ p.keyBits) (hs : slot < 2^lgK) :
    cSlot p lgK (cPair p slot v) = slot := by
  unfold cSlot cPair
  have h1 : slot < 2^p.keyBits := Nat.lt_of_lt_of_le hs (Nat.pow_le_pow_right (by omega) hk)
  rw [Nat.mul_comm, Nat.mul_add_mod, Nat.mod_mod, Nat.mod_eq_of_lt h1, Nat.mod_eq_of_lt hs]

theorem cValue_coupon (p : Params) (h1 h2 : UInt64) : cValue p (coupon p h1 h2) = min (clz64 h2) 62 + 1 := by
  unfold cValue coupon
  have hp : 0 < 2^p.keyBits := Nat.two_pow_pos _
  rw [Nat.mul_comm, Nat.mul_add_div hp, Nat.div_eq_of_lt (Nat.mod_lt _ hp)]

/-- folding a coupon to a coarser precision: `slot lgSmall c = slot lgBig c mod 2^lgSmall` -/
theorem slot_fold (p : Params) {lgSmall lgBig : Nat} (h : lgSmall ≤ lgBig) (c : Nat) :
    cSlot p lgSmall c = cSlot p lgBig c % 2^lgSmall := by
  unfold cSlot
  exact (Nat.mod_mod_of_dvd _ (Nat.pow_dvd_pow 2 h)).symm

/-! ### emptiness of an HLL array -/

theorem isEmpty_hll_iff {p : Params} {s : St ν} {M : Nat → Prop} (h : HInv p s M) (hm : s.mode = .hll) :
    isEmpty s = true ↔ ∀ slot, slot < 2^s.lgK → s.regs.getD slot 0 = 0 := by
  have hall : s.regs.count 0 = s.regs.size ↔ ∀ slot, slot < 2^s.lgK → s.regs.getD slot 0 = 0 := by
    rw [Array.count_eq_size]
    constructor
    · intro hb slot hs
      have hs' : slot < s.regs.size := by rw [h.size]; exact hs
      rw [getD_eq_getElem hs']
      exact (hb _ (Array.getElem_mem hs')).symm
    · intro hb b hbm
      rcases Array.mem_iff_getElem.1 hbm with ⟨i, hi, he⟩
      have := hb i (by rw [← h.size]; exact hi)
      rw [getD_eq_getElem hi] at this
      omega
  unfold isEmpty
  rw [hm]
  simp only [decide_eq_true_eq]
  by_cases htt : s.tt = .h4
  · have hc := h.cnt4 htt
    constructor
    · rintro ⟨h0, hn⟩
      rw [h0] at hc
      rw [← hall, ← hc, hn, h.size]
    · intro hz
      have hpos : 0 < 2^s.lgK := Nat.two_pow_pos _
      have h0 : s.curMin = 0 := by
        have := h.cm_le htt 0 hpos
        rw [hz 0 hpos] at this; omega
      refine ⟨h0, ?_⟩
      rw [hc, h0, hall.2 hz, h.size]
  · have hc := h.cnt68 htt
    constructor
    · rintro ⟨_, hn⟩
      rw [← hall, ← hc.2, hn, h.size]
    · intro hz
      exact ⟨hc.1, by rw [hc.2, hall.2 hz, h.size]⟩

/-! ### converting copies -/

theorem hllUpdate_value_zero (p : Params) (s : St ν) (c : Nat) (h : cValue p c = 0) : hllUpdate p s c = s := by
  unfold hllUpdate
  rw [h]
  by_cases hq : s.tt = .h4 ∧ 0 ≤ s.curMin
  · rw [if_pos hq]
  · rw [if_neg hq, if_neg (Nat.not_lt_zero _)]

theorem replayRegs_eq (p : Params) (src : Array Nat) (t : St ν) :
    replayRegs p src t = ((List.range src.size).map (fun i => cPair p i (src.getD i 0))).foldl (hllUpdate p) t := by
  unfold replayRegs
  rw [List.foldl_map]
  congr 1
  funext t i
  by_cases hv : src.getD i 0 = 0
  · simp only [hv, if_true]
    rw [hllUpdate_value_zero]; rw [cValue_cPair]
  · simp only [hv, if_false]

/-- the converting constructors reproduce every register -/
theorem convertTo_regs (p : Params) (s : St ν) (tt : TType) (hsz : s.regs.size = 2^s.lgK) (hk : s.lgK ≤ p.keyBits) :
    (convertTo p s tt).regs = s.regs ∧ (convertTo p s tt).lgK = s.lgK ∧ (convertTo p s tt).mode = .hll ∧
    (convertTo p s tt).tt = tt := by
  let t0 : St ν := { (newHll s.lgK tt s.startFull : St ν) with ooo := s.ooo }
  have h0 : HInv p t0 (fun _ => False) := by
    have := HInv.newHll (ν := ν) p s.lgK tt s.startFull
    exact ⟨this.size, this.regs, this.cm_le, this.cnt4, this.cnt68⟩
  let l := (List.range s.regs.size).map (fun i => cPair p i (s.regs.getD i 0))
  have hi := h0.foldl l
  have hf := foldl_hllUpdate_fields p l t0
  have hregs : (convertTo p s tt).regs = (l.foldl (hllUpdate p) t0).regs := by
    unfold convertTo
    simp only
    rw [replayRegs_eq]
    cases tt <;> rfl
  have hlgk : (l.foldl (hllUpdate p) t0).lgK = s.lgK := hf.1
  refine ⟨?_, ?_, ?_, ?_⟩
  · rw [hregs]
    apply Array.ext
    · rw [hi.size, hlgk, hsz]
    · intro i h1 h2
      rw [← getD_eq_getElem (d := 0) h1, ← getD_eq_getElem (d := 0) h2]
      have hi2 : i < 2^s.lgK := by rw [← hsz]; exact h2
      have hm := hi.regs i (by rw [hlgk]; exact hi2)
      rw [hlgk] at hm
      refine IsMaxAt.unique hm ⟨?_, ?_⟩
      · rintro c (hc | hc) hs
        · exact absurd hc (by simp)
        · rcases List.mem_map.1 hc with ⟨j, hj, rfl⟩
          rw [List.mem_range] at hj
          rw [cSlot_cPair p _ hk (by rw [← hsz]; exact hj)] at hs
          subst hs
          rw [cValue_cPair]; exact Nat.le_refl _
      · by_cases hz : s.regs.getD i 0 = 0
        · exact Or.inl hz
        · refine Or.inr ⟨cPair p i (s.regs.getD i 0), Or.inr (List.mem_map.2 ⟨i, List.mem_range.2 h2, rfl⟩), ?_, ?_⟩
          · exact cSlot_cPair p _ hk hi2
          · exact cValue_cPair p _ _
  · unfold convertTo
    simp only
    rw [replayRegs_eq]
    cases tt <;> exact hf.1
  · unfold convertTo
    simp only
    rw [replayRegs_eq]
    cases tt <;> exact hf.2.2.1
  · unfold convertTo
    simp only
    rw [replayRegs_eq]
    cases tt <;> exact hf.2.1

theorem copyAs_preserves (p : Params) (s : St ν) (tt : TType)
    (hsz : s.mode = .hll → s.regs.size = 2^s.lgK) (hk : s.lgK ≤ p.keyBits) :
    (copyAs p s tt).mode = s.mode ∧ (copyAs p s tt).lgK = s.lgK ∧ (copyAs p s tt).tt = tt ∧
    (copyAs p s tt).regs = s.regs ∧ (s.mode ≠ .hll → (copyAs p s tt).items = s.items) := by
  unfold copyAs
  cases hm : s.mode with
  | hll =>
    simp only
    by_cases hc : tt = s.tt ∧ s.rebuild = false
    · rw [if_pos hc]; exact ⟨hm, rfl, hc.1.symm, rfl, fun h => absurd rfl h⟩
    · rw [if_neg hc]
      have h := convertTo_regs p s tt (hsz hm) hk
      exact ⟨h.2.2.1, h.2.1, h.2.2.2, h.1, fun h => absurd rfl h⟩
  | list => simp [St.items]
  | set => simp [St.items]

/-- emptiness is exact (the proof of Props/C03 `hll_empty_iff`) -/
theorem isEmpty_run_iff (p : Params) (hp : p.listFitsSet) (lgK : Nat) (tt : TType) (sf : Bool) (cs : List Nat)
    (hv : ∀ c ∈ cs, c ≠ 0 → 0 < cValue p c) :
    isEmpty (run p (newSketch p lgK tt sf : St ν) cs) = true ↔ ∀ c ∈ cs, c = 0 := by
  -- in HLL mode: empty iff every register is zero iff no nonzero coupon was offered
  have hllcase : ∀ (s : St ν), s.lgK = lgK → s.mode = .hll → HInv p s (fun c => c ∈ cs ∧ c ≠ 0) →
      (isEmpty s = true ↔ ∀ c ∈ cs, c = 0) := by
    intro s hk hm H
    rw [isEmpty_hll_iff H hm]
    constructor
    · intro hz c hc
      apply Classical.byContradiction
      intro h0
      have hsl := cSlot_lt p s.lgK c
      have := (H.regs _ hsl).1 c ⟨hc, h0⟩ rfl
      rw [hz _ hsl] at this
      have := hv c hc h0
      omega
    · intro hall slot hs
      rcases (H.regs slot hs).2 with h0 | ⟨c, hc, _, _⟩
      · exact h0
      · exact absurd (hall c hc.1) hc.2
  cases sf with
  | true =>
    have h := run_startFull p cs (s := (newHll lgK tt true : St ν)) (cs := []) rfl
      (by have := HInv.newHll (ν := ν) p lgK tt true
          exact ⟨this.size, fun slot hs => IsMaxAt.congr (by simp) (this.regs slot hs), this.cm_le, this.cnt4, this.cnt68⟩)
    simp only [List.nil_append] at h
    exact hllcase _ h.2.1 h.1 h.2.2.2
  | false =>
    have h := RInv.run hp cs (RInv.init (ν := ν) p lgK tt)
    simp only [List.nil_append] at h
    change RInv p lgK (run p (newSketch p lgK tt false) cs) cs at h
    generalize run p (newSketch p lgK tt false : St ν) cs = s at h ⊢
    by_cases hm : s.mode = .hll
    · exact hllcase s h.lgK_eq hm (h.hll hm)
    · have hperm := h.items_perm hm
      have hie : isEmpty s = true ↔ s.items.length = 0 := by
        unfold isEmpty
        cases hmm : s.mode with
        | hll => exact absurd hmm hm
        | list => simp
        | set => simp
      rw [hie, hperm.length_eq]
      constructor
      · intro hl c hc
        apply Classical.byContradiction
        intro h0
        have : c ∈ distinct cs := mem_distinct.2 ⟨hc, h0⟩
        rw [List.length_eq_zero_iff] at hl
        rw [hl] at this
        simp at this
      · intro hall
        rw [List.length_eq_zero_iff, List.eq_nil_iff_forall_not_mem]
        intro c hc
        have := mem_distinct.1 hc
        exact this.2 (hall c this.1)

end DS.Hll

/- Repaired model: assembling `Good` after a write (owned / disciplined memory write / tainting memory write). -/
import DSProofs.Lemmas.BloomFixed4
namespace DS.Bloom

variable {ι : Type} (P : Params) (hf : ι → Nat → Option (Nat × Nat))

theorem fwf_committed {f : Filter} (h : FWF f) (x nbs : Nat) (d : Bool) : FWF (committed f x nbs d) := by
  have hf' := committed_fields f x nbs d
  exact ⟨by rw [hf'.1]; exact h.capPos, by rw [hf'.1]; exact h.cap64, by rw [hf'.1]; exact h.capLt,
         by rw [hf'.2.1]; exact h.nh, by rw [hf'.2.2.1]; exact h.seed⟩

theorem committed_ref_mem {f : Filter} {m : Nat} (x nbs : Nat) (d : Bool) (hr : f.ref = .mem m) : (committed f x nbs d).ref = .mem m := by
  unfold committed; simp [hr]

theorem committed_ref_owned {f : Filter} {b : Nat} (x nbs : Nat) (d : Bool) (hr : f.ref = .owned b) : (committed f x nbs d).ref = .owned x := by
  unfold committed; simp [hr]

theorem keyOf_eq_own_iff {u v : Nat} {fu : Filter} : keyOf u fu = .own v → u = v := by
  unfold keyOf
  cases fu.ref with
  | owned b => intro e; injection e
  | mem m => intro e; cases e

/-- write through an owned filter -/
theorem good_write_own (w : World) (p p' : PGhost ι) (hg : Good P hf w p) (v : Nat) (f : Filter) (i : VInfo ι) (b : Nat)
    (hv : w.filters v = some f) (hi : p.vi v = some i) (hr : f.ref = .owned b)
    (x nbs' : Nat) (d' : Bool) (hdr : Option Nat) (s' : SInfo ι) (M' : List ι)
    (hsi : p'.si (.own v) = s') (hsi_ne : ∀ k, k ≠ .own v → p'.si k = p.si k)
    (hvi : p'.vi v = some { i with M := M' }) (hvi_ne : ∀ u, u ≠ v → p'.vi u = p.vi u)
    (hup : i.promised = false → M' = [] ∧ s'.S = [])
    (hhs : Hashed hf f.seed M') (hcov : Covers hf x 0 f.cfg M')
    (hhsS : Hashed hf f.seed s'.S) (hcovS : Covers hf x 0 f.cfg s'.S)
    (hne : M' ≠ [] → d' = true ∨ nbs' ≠ 0)
    (hex : i.promised = true → d' = false → nbs' = popCount x 0 f.capBits) :
    Good P hf (commit P w v f x nbs' d' hdr) p' := by
  have hm : isMem f = false := by simp [isMem, hr]
  have hkey : keyOf v f = .own v := by simp [keyOf, hr]
  have hok := hg.view v f i hv hi
  refine ⟨?_, ?_, ?_, ?_, ?_, ?_, ?_⟩
  · intro u fu h'
    by_cases e : u = v
    · subst e; exact ⟨_, hvi⟩
    · rw [commit_filters_ne _ _ _ _ _ _ _ _ _ e] at h'; rw [hvi_ne u e]; exact hg.tracked u fu h'
  · intro u fu h'
    by_cases e : u = v
    · subst e; rw [commit_filter] at h'; injection h' with h'; rw [← h']; exact fwf_committed (hg.fwf u f hv) _ _ _
    · rw [commit_filters_ne _ _ _ _ _ _ _ _ _ e] at h'; exact hg.fwf u fu h'
  · intro u fu iu h' hi'
    by_cases e : u = v
    · subst e
      rw [commit_filter] at h'; injection h' with h'
      rw [hvi] at hi'; injection hi' with hi'
      subst h' hi'
      rw [committed_key, keyVal_commit_same, hkey, hsi]
      simp only [commitVal, hr]
      exact viewOK_actor_own P hf hm hok.k1 x nbs' d' M' hup hhs hcov hhsS hcovS hne hex
    · rw [commit_filters_ne _ _ _ _ _ _ _ _ _ e] at h'
      rw [hvi_ne u e] at hi'
      have hk : keyOf u fu ≠ keyOf v f := by rw [hkey]; exact keyOf_ne_own_of_ne fu e
      rw [keyVal_commit_ne P w v f _ _ _ _ hv _ hk, hsi_ne _ (by rw [← hkey]; exact hk)]
      exact hg.view u fu iu h' hi'
  · intro m b' hb' ht
    rw [commit_blocks_owned P w v f b hr] at hb'
    rw [hsi_ne _ (by intro e; cases e)] at ht ⊢
    exact hg.blk m b' hb' ht
  · intro m ht
    rw [hsi_ne _ (by intro e; cases e)] at ht ⊢
    exact hg.taintS m ht
  · intro u fu m h' hr'
    rw [commit_blocks_owned P w v f b hr]
    by_cases e : u = v
    · subst e; rw [commit_filter] at h'; injection h' with h'; subst h'
      rw [committed_ref_owned _ _ _ hr] at hr'; cases hr'
    · rw [commit_filters_ne _ _ _ _ _ _ _ _ _ e] at h'; exact hg.memref u fu m h' hr'
  · intro u fu iu m b' h' hi' hr' hb' hp hin
    rw [commit_blocks_owned P w v f b hr] at hb'
    by_cases e : u = v
    · subst e; rw [commit_filter] at h'; injection h' with h'; subst h'
      rw [committed_ref_owned _ _ _ hr] at hr'; cases hr'
    · rw [commit_filters_ne _ _ _ _ _ _ _ _ _ e] at h'
      rw [hvi_ne u e] at hi'
      rw [hsi_ne _ (by intro e; cases e)] at hin
      exact hg.memfull u fu iu m b' h' hi' hr' hb' hp hin

end DS.Bloom

/- Rat instance of the EBPPS numeric class: rewriting the ops-only class to ordinary rational arithmetic. -/
import DSModel.Ebpps.Sketch
import Mathlib.Algebra.Order.Field.Rat
import Mathlib.Tactic.Linarith
import Mathlib.Tactic.FieldSimp
import Mathlib.Tactic.Positivity
import Mathlib.Tactic.Ring
namespace DS.Ebpps

@[simp] theorem rat_lt (a b : Rat) : Num.lt a b = decide (a < b) := rfl
@[simp] theorem rat_le (a b : Rat) : Num.le a b = decide (a ≤ b) := rfl
@[simp] theorem rat_eq (a b : Rat) : Num.eq a b = decide (a = b) := rfl
@[simp] theorem rat_ofNat (n : Nat) : (Num.ofNat n : Rat) = (n : Rat) := rfl
@[simp] theorem rat_zero : (zero : Rat) = 0 := by simp [zero]
@[simp] theorem rat_one : (one : Rat) = 1 := by simp [one]
@[simp] theorem rat_floor (x : Rat) : Num.floor x = ((x.floor : Int) : Rat) := rfl
@[simp] theorem rat_toNat (x : Rat) : Num.toNat x = x.floor.toNat := rfl
@[simp] theorem rat_finite (x : Rat) : Num.finite x = true := rfl

theorem rat_cmin (a b : Rat) : cmin a b = min a b := by
  unfold cmin; simp only [rat_lt, decide_eq_true_eq]
  split
  · rw [min_eq_right]; linarith
  · rw [min_eq_left]; linarith

theorem rat_cmax (a b : Rat) : cmax a b = max a b := by
  unfold cmax; simp only [rat_lt, decide_eq_true_eq]
  split
  · rw [max_eq_right]; linarith
  · rw [max_eq_left]; linarith

theorem fl_le (x : Rat) : ((x.floor : Int) : Rat) ≤ x := Rat.floor_le x
theorem lt_fl_add_one (x : Rat) : x < ((x.floor : Int) : Rat) + 1 := by
  have := Rat.lt_floor_add_one x
  push_cast at this
  exact this

example : (7/2 : Rat).floor = 3 := by decide +kernel
end DS.Ebpps

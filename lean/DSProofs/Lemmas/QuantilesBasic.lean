/- Basic lemmas for the classic quantiles model: comparator, sorting/merging, strided sub-lists, bit-pattern arithmetic. -/
import DSModel.Quantiles.Sketch
import DSProofs.Lemmas.QuantilesTree
namespace DS.Quantiles

variable {α : Type}

/-- the comparator is a strict weak order (what `std::sort` / `std::merge` require of `comparator_`) -/
structure SWO (lt : α → α → Bool) : Prop where
  irrefl : ∀ a, lt a a = false
  trans : ∀ a b c, lt a b = true → lt b c = true → lt a c = true
  ntrans : ∀ a b c, lt a b = false → lt b c = false → lt a c = false

/-- `le a b := !lt b a` -/
abbrev leOf (lt : α → α → Bool) : α → α → Bool := fun a b => !lt b a

/-- ascending w.r.t. the comparator: no later element is strictly smaller than an earlier one -/
def Sorted (lt : α → α → Bool) (l : List α) : Prop := l.Pairwise (fun a b => leOf lt a b = true)

theorem SWO.le_trans {lt : α → α → Bool} (h : SWO lt) (a b c : α) :
    leOf lt a b = true → leOf lt b c = true → leOf lt a c = true := by
  simp only [leOf, Bool.not_eq_true']
  intro h1 h2
  exact h.ntrans c b a h2 h1

theorem SWO.le_total {lt : α → α → Bool} (h : SWO lt) (a b : α) : (leOf lt a b || leOf lt b a) = true := by
  simp only [leOf]
  cases hba : lt b a
  · simp
  · cases hab : lt a b
    · simp
    · have := h.trans a b a hab hba
      rw [h.irrefl] at this
      exact absurd this (by simp)

theorem sorted_sortBuf {lt : α → α → Bool} (h : SWO lt) (l : List α) : Sorted lt (sortBuf lt l) :=
  List.pairwise_mergeSort (le := leOf lt) h.le_trans h.le_total l

theorem sortBuf_perm (lt : α → α → Bool) (l : List α) : (sortBuf lt l).Perm l := List.mergeSort_perm l _

theorem sortBuf_length (lt : α → α → Bool) (l : List α) : (sortBuf lt l).length = l.length :=
  (sortBuf_perm lt l).length_eq

theorem sorted_merge2 {lt : α → α → Bool} (h : SWO lt) {a b : List α} (ha : Sorted lt a) (hb : Sorted lt b) :
    Sorted lt (merge2 lt a b) :=
  List.pairwise_merge (le := leOf lt) h.le_trans h.le_total b a hb ha

theorem merge2_perm (lt : α → α → Bool) (a b : List α) : (merge2 lt a b).Perm (b ++ a) :=
  List.merge_perm_append _

theorem merge2_length (lt : α → α → Bool) (a b : List α) : (merge2 lt a b).length = a.length + b.length := by
  rw [(merge2_perm lt a b).length_eq, List.length_append, Nat.add_comm]

theorem merge2_countP (lt : α → α → Bool) (p : α → Bool) (a b : List α) :
    (merge2 lt a b).countP p = a.countP p + b.countP p := by
  rw [(merge2_perm lt a b).countP_eq, List.countP_append, Nat.add_comm]

theorem sorted_nil (lt : α → α → Bool) : Sorted lt ([] : List α) := List.Pairwise.nil

/-! ### strided -/

@[simp] theorem strided_nil (s o : Nat) : strided s o ([] : List α) = [] := by cases o <;> rfl

theorem strided_sublist (s : Nat) : ∀ (o : Nat) (l : List α), (strided s o l).Sublist l := by
  intro o l
  induction l generalizing o with
  | nil => simp
  | cons x t ih =>
    cases o with
    | zero => exact (ih (s - 1)).cons_cons x
    | succ c => exact (ih c).cons x

theorem sorted_strided {lt : α → α → Bool} {l : List α} (h : Sorted lt l) (s o : Nat) : Sorted lt (strided s o l) :=
  List.Pairwise.sublist (strided_sublist s o l) h

theorem mem_of_mem_strided {s o : Nat} {l : List α} {x : α} (h : x ∈ strided s o l) : x ∈ l :=
  (strided_sublist s o l).subset h

theorem strided_length_formula (s : Nat) (hs : 0 < s) : ∀ (l : List α) (o : Nat), o < s →
    (strided s o l).length = (l.length + s - 1 - o) / s := by
  intro l
  induction l with
  | nil =>
    intro o ho
    simp only [strided_nil, List.length_nil, Nat.zero_add]
    exact (Nat.div_eq_of_lt (by omega)).symm
  | cons x t ih =>
    intro o ho
    cases o with
    | zero =>
      simp only [strided, List.length_cons]
      rw [ih (s - 1) (by omega)]
      have h1 : t.length + s - 1 - (s - 1) = t.length := by omega
      have h2 : t.length + 1 + s - 1 - 0 = t.length + s := by omega
      rw [h1, h2, Nat.add_div_right _ hs]
    | succ c =>
      simp only [strided, List.length_cons]
      rw [ih c (by omega)]
      congr 1
      omega

/-- a buffer of `s * m` items yields `m` items for every offset `o < s` -/
theorem strided_length {s m o : Nat} {l : List α} (hl : l.length = s * m) (ho : o < s) :
    (strided s o l).length = m := by
  have hs : 0 < s := by omega
  rw [strided_length_formula s hs l o ho, hl]
  have : s * m + s - 1 - o = s * m + (s - 1 - o) := by omega
  rw [this, Nat.mul_add_div hs, Nat.div_eq_of_lt (by omega)]
  rfl

theorem sumRange_succ' (n : Nat) (f : Nat → Nat) :
    Tree.sumRange (n + 1) f = f 0 + Tree.sumRange n (fun c => f (c + 1)) := by
  induction n with
  | zero => simp [Tree.sumRange]
  | succ n ih =>
    rw [Tree.sumRange, ih, Tree.sumRange]
    omega

/-- **compaction_balanced, stride version**: for every stride `s > 0`, every list and every predicate,
the counts over the `s` strided sub-lists add up to the count over the list -/
theorem strided_countP_sum (p : α → Bool) (s : Nat) (hs : 0 < s) (l : List α) :
    Tree.sumRange s (fun o => (strided s o l).countP p) = l.countP p := by
  induction l with
  | nil => simp [Tree.sumRange_const]
  | cons x t ih =>
    obtain ⟨s', rfl⟩ : ∃ s', s = s' + 1 := ⟨s - 1, by omega⟩
    rw [sumRange_succ']
    simp only [strided, Nat.add_sub_cancel, List.countP_cons]
    rw [← ih, Tree.sumRange]
    omega

/-- the coin version (`zip_buffer`): evens + odds -/
theorem strided_two_countP (p : α → Bool) (l : List α) :
    (strided 2 0 l).countP p + (strided 2 1 l).countP p = l.countP p := by
  have := strided_countP_sum p 2 (by omega) l
  simpa [Tree.sumRange] using this

/-! ### bit patterns -/

theorem bitLen_zero : bitLen 0 = 0 := by rw [bitLen]; simp

theorem bitLen_pos {x : Nat} (h : x ≠ 0) : bitLen x = bitLen (x / 2) + 1 := by rw [bitLen]; simp [h]

theorem lt_two_pow_bitLen (x : Nat) : x < 2 ^ bitLen x := by
  induction x using Nat.strongRecOn with
  | _ x ih =>
    by_cases h : x = 0
    · subst h; simp [bitLen_zero]
    · rw [bitLen_pos h, Nat.pow_succ]
      have := ih (x / 2) (by omega)
      omega

theorem bitLen_le_of_lt_two_pow {x m : Nat} (h : x < 2 ^ m) : bitLen x ≤ m := by
  induction m generalizing x with
  | zero =>
    have : x = 0 := by simpa using h
    subst this; simp [bitLen_zero]
  | succ m ih =>
    by_cases hx : x = 0
    · subst hx; simp [bitLen_zero]
    · rw [bitLen_pos hx]
      have : x / 2 < 2 ^ m := by rw [Nat.pow_succ] at h; omega
      have := ih this
      omega

theorem bitLen_mono {x y : Nat} (h : x ≤ y) : bitLen x ≤ bitLen y :=
  bitLen_le_of_lt_two_pow (Nat.lt_of_le_of_lt h (lt_two_pow_bitLen y))

theorem bitLen_eq_zero {x : Nat} : bitLen x = 0 ↔ x = 0 := by
  constructor
  · intro h
    by_cases hx : x = 0
    · exact hx
    · rw [bitLen_pos hx] at h; omega
  · intro h; subst h; exact bitLen_zero

theorem popcount_zero : popcount 0 = 0 := by rw [popcount]; simp

theorem popcount_pos {x : Nat} (h : x ≠ 0) : popcount x = x % 2 + popcount (x / 2) := by rw [popcount]; simp [h]

theorem popcount_step (x : Nat) : popcount x = x % 2 + popcount (x / 2) := by
  by_cases h : x = 0
  · subst h; simp [popcount_zero]
  · exact popcount_pos h

theorem ctz_two_pow (e : Nat) : ctz (2 ^ e) = e := by
  induction e with
  | zero => rw [ctz]; simp
  | succ e ih =>
    rw [ctz]
    have h1 : 2 ^ (e + 1) ≠ 0 := Nat.pos_iff_ne_zero.mp (Nat.two_pow_pos _)
    have h2 : 2 ^ (e + 1) % 2 = 0 := by rw [Nat.pow_succ]; omega
    have h3 : 2 ^ (e + 1) / 2 = 2 ^ e := by rw [Nat.pow_succ]; omega
    simp [h2, h3, ih]

/-- `check_k`'s test `(k & (k - 1)) == 0` (with `k ≥ 1`) means: `k` is a power of two -/
theorem pow2_of_and_pred : ∀ (k : Nat), 0 < k → k &&& (k - 1) = 0 → ∃ e, k = 2 ^ e := by
  intro k
  induction k using Nat.strongRecOn with
  | _ k ih =>
    intro hk h
    by_cases h1 : k = 1
    · exact ⟨0, by simp [h1]⟩
    · have hd : k / 2 &&& (k - 1) / 2 = 0 := by rw [← Nat.and_div_two, h]
      rcases Nat.mod_two_eq_zero_or_one k with he | ho
      · have hm : (k - 1) / 2 = k / 2 - 1 := by omega
        rw [hm] at hd
        obtain ⟨e, he'⟩ := ih (k / 2) (by omega) (by omega) hd
        exact ⟨e + 1, by rw [Nat.pow_succ]; omega⟩
      · have hm : (k - 1) / 2 = k / 2 := by omega
        rw [hm, Nat.and_self] at hd
        omega

theorem checkK_pow2 {minK maxK k : Nat} (hmin : 0 < minK) (h : checkK minK maxK k = true) : ∃ e, k = 2 ^ e := by
  unfold checkK at h
  simp only [Bool.and_eq_true, decide_eq_true_eq, beq_iff_eq] at h
  exact pow2_of_and_pred k (by omega) h.2

end DS.Quantiles

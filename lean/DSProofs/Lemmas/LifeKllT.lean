/- C19, KLL sketch: move assignment in the shape of the current header (the source's cached sorted view may be released
   first: /repo e073e34), on top of the shape-independent core proved in LifeKllD. -/
import DSProofs.Lemmas.LifeKllD
import DSProofs.Lemmas.LifeFiAux
namespace DS.Life.Kll
open DS.Life

theorem moveAssign_contract (P : Params) (rs : Bool) (n0 : Nat) (t o : Sketch) (ids0 : List Nat) :
    TripleS n0 (foot (owned t ++ owned o) n0)
      (fun h => Inv P h t ∧ Usable P h o ∧ (∀ b, b ∈ owned t → b ∉ owned o) ∧ h.ids = ids0 ∧ h.next = n0)
      (moveAssign rs t o)
      (fun r h' => Usable P h' r.1 ∧ Inv P h' r.2 ∧ (∀ b, b ∈ owned r.1 → b ∉ owned r.2) ∧
         Owns h' ids0 (owned t ++ owned o) (owned r.1 ++ owned r.2) n0) := by
  cases rs with
  | false =>
    intro h hn pre
    have := moveAssignCore_contract P n0 t o ids0 h hn pre
    simpa [moveAssign, bind_eq, pure_eq] using this
  | true =>
    intro h hn ⟨it, uo, dj, hid, hnx⟩
    have io := uo.toInv
    unfold moveAssign
    simp only [if_true]
    apply vstep_resetSortedView (fun v hv => ⟨(io.view_ok v hv).1, (io.view_ok v hv).2.1,
      foot_own (by simp [mem_owned.2 (Or.inr (Or.inr hv))])⟩)
    intro h1 so1 hid1 hnx1
    -- the source without its view is still usable, the target is untouched
    have hsv : o.view ≠ some o.self := fun e => (io.view_ok _ e).2.2.2 rfl
    have ss := so1 o.self hsv
    have uo1 : Usable P h1 { o with view := none } :=
      uo.rehome o.self none (ss.cells _ io.self_cells) (by rw [hnx1]; exact io.self_lt) (ss.st 0) (ss.st 1)
        (fun b hb => ⟨so1 b (io.items_ok b hb).2.2.2.2, (io.items_ok b hb).2.2.2.1, by simp⟩) (by omega)
        (fun v hv => by cases hv)
    have it1 : Inv P h1 t := it.transfer (fun b hb => so1 b (fun e => dj b hb (mem_owned.2 (Or.inr (Or.inr e))))) (by omega)
    have hsub : ∀ b, b ∈ owned ({ o with view := none } : Sketch) → b ∈ owned o := by
      intro b hb
      simp only [mem_owned, reduceCtorEq, or_false] at hb
      rcases hb with e | e
      · exact mem_owned.2 (Or.inl e)
      · exact mem_owned.2 (Or.inr (Or.inl e))
    have dj1 : ∀ b, b ∈ owned t → b ∉ owned ({ o with view := none } : Sketch) := fun b hb hb' => dj b hb (hsub b hb')
    have core := moveAssignCore_contract P n0 t { o with view := none } _ h1 (by omega) ⟨it1, uo1, dj1, hid1, by omega⟩
    have hfoot : ∀ b, foot (owned t ++ owned ({ o with view := none } : Sketch)) n0 b = true →
        foot (owned t ++ owned o) n0 b = true := by
      intro b hb
      simp only [foot, Bool.or_eq_true, List.contains_eq_mem, List.mem_append, decide_eq_true_eq] at hb ⊢
      rcases hb with (hb | hb) | hb
      · exact Or.inl (Or.inl hb)
      · exact Or.inl (Or.inr (hsub b hb))
      · exact Or.inr hb
    refine SafeF.mono (Fi.SafeF.weaken hfoot core) ?_
    intro r h' ⟨u, i, d, ow⟩
    refine ⟨u, i, d, ⟨fun b => ?_, fun b hb => ?_⟩⟩
    · rw [ow.ids b, hid]
      simp only [List.mem_filter, List.mem_append, not_or, bne_iff_ne, ne_eq]
      have hoi := fun y hy => (io.owned_ids y hy).1
      rw [hid] at hoi
      constructor
      · rintro (⟨⟨hb0, hnv⟩, hnt, hno'⟩ | hb)
        · left
          refine ⟨hb0, hnt, fun hbo => ?_⟩
          rcases mem_owned.1 hbo with e | e | e
          · exact hno' (mem_owned.2 (Or.inl e))
          · exact hno' (mem_owned.2 (Or.inr (Or.inl e)))
          · exact hnv (by simp [e])
        · exact Or.inr hb
      · rintro (⟨hb0, hnt, hno⟩ | hb)
        · left
          refine ⟨⟨hb0, fun e => hno (mem_owned.2 (Or.inr (Or.inr (by simpa using e))))⟩, hnt, fun hb' => hno (hsub b hb')⟩
        · exact Or.inr hb
    · rcases ow.fresh b hb with e | e
      · left
        simp only [List.mem_append] at e ⊢
        rcases e with e | e
        · exact Or.inl e
        · exact Or.inr (hsub b e)
      · exact Or.inr e

end DS.Life.Kll

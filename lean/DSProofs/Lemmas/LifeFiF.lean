/- C19 / FI part F: iteration over the active slots, `serialize`. -/
import DSProofs.Lemmas.LifeFiE
namespace DS.Life.Fi
open DS.Life

/-! ### `begin()` / `operator++` -/

theorem firstActive_succ (s size f i : Nat) : firstActive s size (f + 1) i =
    (if i < size then do
      let st ← readWord s i
      if st > 0 then pure i else firstActive s size f (i + 1)
    else pure i) := rfl

theorem firstActive_spec (S : Nat → Bool) (s n : Nat) (h : Heap) (hc : HasCells h s n) (hpos : 0 < cnt (act h s) n) :
    ∀ f i, f + i = n → (∀ j, j < i → act h s j = false) →
      SafeF S h (firstActive s n f i h) (fun r h' => h' = h ∧ r < n ∧ act h s r = true) := by
  intro f
  induction f with
  | zero =>
    intro i hfi hall
    exfalso
    have : cnt (act h s) n = 0 := cnt_zero_of_all_false (fun j hj => hall j (by omega))
    omega
  | succ f ih =>
    intro i hfi hall
    rw [firstActive_succ, if_pos (by omega : i < n)]
    obtain ⟨cs, ecs, ews, _⟩ := hc.cell_st (by omega : i < n)
    apply step_readWord ecs
    by_cases hw : cs.word > 0
    · rw [if_pos hw]
      exact SafeF.pure ⟨rfl, by omega, by simp [act]; omega⟩
    · rw [if_neg hw]
      refine ih (i + 1) (by omega) (fun j hj => ?_)
      by_cases hji : j = i
      · subst hji; simp [act]; omega
      · exact hall j (by omega)

theorem nextActive_succ (s size str f index : Nat) : nextActive s size str (f + 1) index = (do
    let st ← readWord s ((index + str) % size)
    if st > 0 then pure ((index + str) % size) else nextActive s size str f ((index + str) % size)) := rfl

theorem nextActive_spec (S : Nat → Bool) (s n str : Nat) (h : Heap) (hc : HasCells h s n) (hn : 0 < n) :
    ∀ f index, SafeF S h (nextActive s n str f index h) (fun r h' => h' = h ∧ r < n ∧ act h s r = true) := by
  intro f
  induction f with
  | zero => intro _; exact SafeF.exc _
  | succ f ih =>
    intro index
    rw [nextActive_succ]
    have hlt : (index + str) % n < n := Nat.mod_lt _ hn
    obtain ⟨cs, ecs, ews, _⟩ := hc.cell_st hlt
    apply step_readWord ecs
    by_cases hw : cs.word > 0
    · rw [if_pos hw]
      exact SafeF.pure ⟨rfl, hlt, by simp [act]; omega⟩
    · rw [if_neg hw]
      exact ih _

theorem iterLoop_succ {σ : Type} (s size str na : Nat) (body : Nat → σ → M σ) (f index count : Nat) (a : σ) :
    iterLoop s size str na body (f + 1) index count a =
    (if count < na then do
      let a' ← body index a
      if count + 1 < na then
        let ix ← nextActive s size str size index
        iterLoop s size str na body f ix (count + 1) a'
      else pure a'
    else pure a) := rfl

/-- invariant rule for the range-for over a map: the body is run on active indices, `na` times unless the code
    throws; the invariant must keep the iterated map's states array allocated -/
theorem iterLoop_safe {σ : Type} {S : Nat → Bool} (s n str na : Nat) (body : Nat → σ → M σ) (I : Nat → σ → Heap → Prop)
    (hI : ∀ c a h, I c a h → HasCells h s n) (hn : 0 < n)
    (hbody : ∀ c a h idx, c < na → I c a h → idx < n → act h s idx = true →
      SafeF S h (body idx a h) (fun a' h' => I (c + 1) a' h')) :
    ∀ f idx c a h, f + c = na → I c a h → idx < n → act h s idx = true →
      SafeF S h (iterLoop s n str na body f idx c a h) (fun a' h' => I na a' h') := by
  intro f
  induction f with
  | zero =>
    intro idx c a h hfc hi _ _
    have : c = na := by omega
    subst this
    exact SafeF.pure hi
  | succ f ih =>
    intro idx c a h hfc hi hidx hact
    rw [iterLoop_succ, if_pos (by omega : c < na)]
    apply SafeF.bind_safe (hbody c a h idx (by omega) hi hidx hact)
    intro a' h' hi' _
    by_cases hc : c + 1 < na
    · rw [if_pos hc]
      apply SafeF.bind_safe (nextActive_spec S s n str h' (hI _ _ _ hi') hn n idx)
      intro ix h'' ⟨e, hix, hact'⟩ _
      subst e
      exact ih ix (c + 1) a' h'' (by omega) hi' hix hact'
    · rw [if_neg hc]
      have : c + 1 = na := by omega
      rw [← this]
      exact SafeF.pure hi'

theorem forEachActive_eq {σ : Type} (P : Params) (m : Map) (body : Nat → σ → M σ) (a : σ) :
    forEachActive P m body a =
      (if m.numActive = 0 then pure a else
        deref m.states >>= fun s => firstActive s (2 ^ m.lgCur) (2 ^ m.lgCur) 0 >>= fun i0 =>
          iterLoop s (2 ^ m.lgCur) (P.strideOf m.lgCur) m.numActive body m.numActive i0 0 a) := rfl

theorem forEachActive_safe {σ : Type} {S : Nat → Bool} (P : Params) (m : Map) (s : Nat) (hs : m.states = some s)
    (body : Nat → σ → M σ) (I : Nat → σ → Heap → Prop) (hI : ∀ c a h, I c a h → HasCells h s (2 ^ m.lgCur))
    (hbody : ∀ c a h idx, c < m.numActive → I c a h → idx < 2 ^ m.lgCur → act h s idx = true →
      SafeF S h (body idx a h) (fun a' h' => I (c + 1) a' h'))
    (a : σ) (h : Heap) (h0 : I 0 a h) (hcnt : m.numActive = cnt (act h s) (2 ^ m.lgCur)) :
    SafeF S h (forEachActive P m body a h) (fun a' h' => I m.numActive a' h') := by
  rw [forEachActive_eq]
  by_cases hz : m.numActive = 0
  · rw [if_pos hz, hz]
    exact SafeF.pure h0
  · rw [if_neg hz, hs]
    apply step_deref
    have hpos : 0 < 2 ^ m.lgCur := Nat.pow_pos (by omega)
    apply SafeF.bind_safe (firstActive_spec S s (2 ^ m.lgCur) h (hI _ _ _ h0) (by omega) (2 ^ m.lgCur) 0 rfl
      (fun j hj => by omega))
    intro i0 h' ⟨e, hi0, hact⟩ _
    subst e
    exact iterLoop_safe s (2 ^ m.lgCur) _ m.numActive body I hI hpos hbody m.numActive i0 0 a h' (by omega) h0 hi0 hact

/-! ### loops over a temporary array of items -/

/-- `for (i...) items[i].~T()` -/
theorem destroyAll_spec (n0 : Nat) (S : Nat → Bool) (b n : Nat) (hS : S b = true) (h0 : Heap) (hc : HasCells h0 b n)
    (hnr : ∀ i, i < n → stAt h0 b i ≠ .raw) :
    TripleS n0 S (fun h => h = h0) (loopUp (fun i => destroy b i) n 0)
      (fun _ h => SameBut [b] h0 h ∧ HasCells h b n ∧ ∀ i, i < n → stAt h b i = .raw) := by
  have := TripleS.loopUp (n0 := n0) (S := S)
    (fun k h => SameBut [b] h0 h ∧ HasCells h b n ∧ (∀ i, i < k → stAt h b i = .raw) ∧
      ∀ i, k ≤ i → stAt h b i = stAt h0 b i)
    (fun i => destroy b i) n 0 ?_
  · refine this.conseq ?_ ?_
    · intro h e; subst e
      exact ⟨SameBut.refl _ _, hc, fun i hi => by omega, fun _ _ => rfl⟩
    · intro _ h ⟨a, c, r, _⟩
      exact ⟨a, c, fun i hi => r i (by omega)⟩
  · intro i _ hi h _ ⟨sb, hc', hr, hsame⟩
    have hnr' : stAt h b i ≠ .raw := by rw [hsame i (Nat.le_refl _)]; exact hnr i (by omega)
    obtain ⟨c, ec, est, _⟩ := cell_of_stAt_ne_raw hnr'
    apply SafeF.last
    apply stepR_destroy ec (by rw [est]; exact hnr') hS
    intro h' up
    apply SafeF.pure
    refine ⟨sb.trans (up.sameBut (by simp)), up.hasCells hc', ?_, ?_⟩
    · intro j hj
      by_cases hji : j = i
      · subst hji; rw [up.stAt_eq]
      · rw [up.stAt_ne (fun hh => hji hh.2)]; exact hr j (by omega)
    · intro j hj
      rw [up.stAt_ne (fun hh => by omega)]; exact hsame j (by omega)

/-- reading every (live) item -/
theorem readAll_spec (n0 : Nat) (S : Nat → Bool) (b n : Nat) (h0 : Heap)
    (hl : ∀ i, i < n → ∃ x, stAt h0 b i = .live x) :
    TripleS n0 S (fun h => h = h0) (loopUp (fun i => do let _ ← read b i; pure ()) n 0) (fun _ h => h = h0) := by
  have := TripleS.loopUp (n0 := n0) (S := S) (fun _ h => h = h0) (fun i => do let _ ← read b i; pure ()) n 0 ?_
  · exact this
  · intro i _ hi h _ e
    subst e
    obtain ⟨x, hx⟩ := hl i (by omega)
    obtain ⟨c, ec, est, _⟩ := cell_of_stAt_ne_raw (h := h) (b := b) (i := i) (by rw [hx]; simp)
    apply step_read ec (by rw [est]; exact hx)
    exact SafeF.pure rfl

/-! ### two fresh arrays -/

structure Fresh2 (h h2 : Heap) (n : Nat) : Prop where
  c0 : HasCells h2 h.next n
  c1 : HasCells h2 (h.next + 1) n
  r0 : ∀ i, stAt h2 h.next i = .raw
  r1 : ∀ i, stAt h2 (h.next + 1) i = .raw
  next : h2.next = h.next + 2
  ids : h2.ids = (h.next + 1) :: h.next :: h.ids
  old : ∀ b, b < h.next → h2.find? b = h.find? b

theorem alloc2_fresh (h : Heap) (k0 k1 : Kind) (n : Nat) : Fresh2 h ((h.afterAlloc k0 n).afterAlloc k1 n) n := by
  refine ⟨?_, ?_, ?_, ?_, rfl, rfl, ?_⟩
  · simp [HasCells, count?_afterAlloc]
  · simp [HasCells, count?_afterAlloc]
  · intro i
    rw [stAt_afterAlloc_ne (by simp)]
    exact stAt_afterAlloc_fresh h _ n i
  · intro i
    exact stAt_afterAlloc_fresh (h.afterAlloc k0 n) _ n i
  · intro b hb
    simp only [find?_afterAlloc, next_afterAlloc]
    have e2 : ¬ (b = h.next + 1) := by omega
    have e3 : ¬ (b = h.next) := by omega
    simp only [e2, e3, if_false]

/-! ### `serialize` -/

theorem serialize_spec (P : Params) (n0 : Nat) (S : Nat → Bool) (hS : ∀ b, n0 ≤ b → S b = true) (s : Sketch) (h0 : Heap) :
    TripleS n0 S (fun h => h = h0 ∧ Usable P h s.map ∧ IdsLt h) (Sketch.serialize P s)
      (fun _ h' => (∀ b, b ∈ h'.ids ↔ b ∈ h0.ids) ∧ h0.next ≤ h'.next ∧ ∀ b, b < h0.next → h'.find? b = h0.find? b) := by
  intro h hn ⟨he, hu, hlt⟩
  subst he
  unfold Sketch.serialize
  by_cases hz : s.map.numActive = 0
  · rw [if_pos hz]
    exact SafeF.pure ⟨fun _ => Iff.rfl, Nat.le_refl _, fun _ _ => rfl⟩
  · rw [if_neg hz]
    obtain ⟨k, v, st, hk, hv, hst, _, T, hc⟩ := Usable.ptrs hu
    rw [hk, hv]
    apply step_deref
    apply step_deref
    apply step_alloc _ _ (hS _ hn)
    apply step_alloc _ _ (hS _ (by simp; omega))
    have F := alloc2_fresh h .u64 .item s.map.numActive
    generalize (h.afterAlloc .u64 s.map.numActive).afterAlloc .item s.map.numActive = h2 at F
    have ltk := T.ltk; have ltv := T.ltv; have lts := T.lts
    -- the table seen from a heap that only differs in the two temporaries
    have Told : ∀ hh, SameBut [h.next, h.next + 1] h2 hh → Tbl true [] hh k v st (2 ^ s.map.lgCur) ∧ act hh st = act h st := by
      intro hh sb
      have ek : hh.find? k = h.find? k := by rw [sb.out k (by simp; omega), F.old k ltk]
      have ev : hh.find? v = h.find? v := by rw [sb.out v (by simp; omega), F.old v ltv]
      have es : hh.find? st = h.find? st := by rw [sb.out st (by simp; omega), F.old st lts]
      exact ⟨T.local ek ev es (by rw [sb.next, F.next]; omega), act_congr es⟩
    let I : Nat → Nat → Heap → Prop := fun c j hh =>
      j = c ∧ SameBut [h.next, h.next + 1] h2 hh ∧ HasCells hh h.next s.map.numActive ∧
      HasCells hh (h.next + 1) s.map.numActive ∧ (∀ i, stAt hh h.next i = .raw) ∧
      (∀ i, i < c → ∃ x, stAt hh (h.next + 1) i = .live x) ∧ (∀ i, c ≤ i → stAt hh (h.next + 1) i = .raw)
    have hI : ∀ c a hh, I c a hh → HasCells hh st (2 ^ s.map.lgCur) := fun c a hh hi => (Told hh hi.2.1).1.cs
    apply SafeF.bind_safe (forEachActive_safe (S := S) P s.map st hst _ I hI ?_ 0 h2
      ⟨rfl, SameBut.refl _ _, F.c0, F.c1, F.r0, fun i hi => by omega, fun i _ => F.r1 i⟩
      (by rw [(Told h2 (SameBut.refl _ _)).2]; exact hc))
    · intro j h3 ⟨_, sb3, cw3, ci3, rw3, hl3, _⟩ _
      -- weights are released, the items written out and destroyed
      apply step_dealloc cw3 (fun i hi => by
        obtain ⟨c, ec, _, est⟩ := cw3.cell_st hi
        exact ⟨c, ec, by rw [est]; exact rw3 i⟩) (hS _ hn)
      intro kd
      have hne : h.next + 1 ≠ h.next := by omega
      have hl4 : ∀ i, i < s.map.numActive → ∃ x, stAt (h3.afterFree h.next kd s.map.numActive) (h.next + 1) i = .live x := by
        intro i hi; rw [stAt_afterFree_ne hne]; exact hl3 i hi
      have ci4 : HasCells (h3.afterFree h.next kd s.map.numActive) (h.next + 1) s.map.numActive :=
        HasCells_afterFree_ne hne ci3
      have hids4 : (h3.afterFree h.next kd s.map.numActive).ids = (h.next + 1) :: h.ids := by
        rw [ids_afterFree, sb3.ids, F.ids, List.filter_cons]
        have : ((h.next + 1) != h.next) = true := by simp
        rw [if_pos this, filter_ne_cons_self _ _ (fun hm => Nat.lt_irrefl _ (hlt _ hm))]
      have hnext4 : (h3.afterFree h.next kd s.map.numActive).next = h.next + 2 := by
        rw [next_afterFree, sb3.next, F.next]
      have hold4 : ∀ b, b < h.next → (h3.afterFree h.next kd s.map.numActive).find? b = h.find? b := by
        intro b hb
        rw [find?_afterFree_ne _ _ _ _ (by omega), sb3.out b (by simp; omega), F.old b hb]
      generalize h3.afterFree h.next kd s.map.numActive = h4 at hl4 ci4 hids4 hnext4 hold4
      apply SafeF.bind_triple (readAll_spec n0 S (h.next + 1) s.map.numActive h4 hl4) (by rw [hnext4]; omega) rfl
      intro _ h4' e4 _
      subst e4
      apply SafeF.bind_triple (destroyAll_spec n0 S (h.next + 1) s.map.numActive (hS _ (by omega)) h4' ci4
        (fun i hi => by obtain ⟨x, hx⟩ := hl4 i hi; rw [hx]; simp)) (by rw [hnext4]; omega) rfl
      intro _ h5 ⟨sb5, ci5, hr5⟩ _
      apply SafeF.last
      apply step_dealloc ci5 (fun i hi => by
        obtain ⟨c, ec, _, est⟩ := ci5.cell_st hi
        exact ⟨c, ec, by rw [est]; exact hr5 i hi⟩) (hS _ (by omega))
      intro kd'
      apply SafeF.pure
      refine ⟨?_, by rw [next_afterFree, sb5.next, hnext4]; omega, ?_⟩
      · intro b
        rw [ids_afterFree, sb5.ids, hids4, filter_ne_cons_self _ _ (fun hm => by have := hlt _ hm; omega)]
      · intro b hb
        rw [find?_afterFree_ne _ _ _ _ (by omega), sb5.out b (by simp; omega), hold4 b hb]
    · -- the body of the range-for
      intro c j hh idx hcn ⟨hj, sb, cw, ci, rwt, hl, hraw⟩ hidx hact
      subst hj
      obtain ⟨T', hact'⟩ := Told hh sb
      have hwpos : 0 < wordAt hh st idx := by simpa [act] using hact
      obtain ⟨x, hx⟩ := (T'.slot idx hidx (by simp)).live_of_pos hwpos
      obtain ⟨ck, eck, estk, _⟩ := cell_of_stAt_ne_raw (h := hh) (b := k) (i := idx) (by rw [hx]; simp)
      rw [copyConstruct_bind]
      apply step_read eck (by rw [estk, hx])
      obtain ⟨cit, ecit, _, estit⟩ := ci.cell_st hcn
      apply stepR_construct x ecit (by rw [estit]; exact hraw j (Nat.le_refl _)) (hS _ (by omega))
      intro h1 u1
      obtain ⟨cv, ecv⟩ := T'.cv.cell hidx
      have ecv1 : h1.cell? v idx = some cv := by rw [u1.cell_ne (fun hh' => by omega)]; exact ecv
      apply step_readWord ecv1
      obtain ⟨cwt, ecwt, _, estwt⟩ := cw.cell_st hcn
      have ecwt1 : h1.cell? h.next j = some cwt := by rw [u1.cell_ne (fun hh' => by omega)]; exact ecwt
      apply stepR_writeWord cv.word ecwt1 (hS _ hn)
      intro h2' u2
      apply SafeF.pure
      refine ⟨rfl, (sb.trans (u1.sameBut (by simp))).trans (u2.sameBut (by simp)), u2.hasCells (u1.hasCells cw),
        u2.hasCells (u1.hasCells ci), ?_, ?_, ?_⟩
      · intro i
        rw [u2.stAt_same ecwt1 rfl, u1.stAt_ne (fun hh' => by omega)]; exact rwt i
      · intro i hi
        rw [u2.stAt_same ecwt1 rfl]
        by_cases hij : i = j
        · subst hij; exact ⟨x, by rw [u1.stAt_eq]⟩
        · rw [u1.stAt_ne (fun hh' => hij hh'.2)]; exact hl i (by omega)
      · intro i hi
        rw [u2.stAt_same ecwt1 rfl, u1.stAt_ne (fun hh' => by omega)]; exact hraw i (by omega)

end DS.Life.Fi

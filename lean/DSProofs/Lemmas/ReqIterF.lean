/- The repaired const_iterator (skips empty compactors) walks exactly the retained pairs of ANY compactor list. (Helper lemmas.) -/
import DSProofs.Lemmas.ReqIter
namespace DS.Req

variable {ρ : Type}

theorem leadEmpty_spec : ∀ (post : List (Compactor ρ)),
    allPairs (post.drop (leadEmpty post)) = allPairs post ∧ leadEmpty post ≤ post.length ∧
    (∀ c t, post.drop (leadEmpty post) = c :: t → c.items ≠ []) := by
  intro post
  induction post with
  | nil => exact ⟨rfl, Nat.le_refl _, fun c t h => by simp [leadEmpty] at h⟩
  | cons x t ih =>
    simp only [leadEmpty]
    split
    · rename_i he
      have hx : x.items = [] := List.isEmpty_iff.1 he
      obtain ⟨a, b, c⟩ := ih
      have hd : (x :: t).drop (1 + leadEmpty t) = t.drop (leadEmpty t) := by rw [Nat.add_comm]; rfl
      refine ⟨by rw [hd, a]; simp [pairsOf, hx], by simp; omega, fun c' t' h => c c' t' (by rw [← hd]; exact h)⟩
    · rename_i he
      refine ⟨rfl, Nat.zero_le _, fun c' t' h => ?_⟩
      simp only [List.drop_zero, List.cons.injEq] at h
      obtain ⟨rfl, _⟩ := h
      intro e; exact he (by simp [e])

theorem itWalkF_suffix (fl : Flags) (hfl : fl.iterSkipsEmpty = true) (cs : List (Compactor ρ)) :
    ∀ (n : Nat) (pre : List (Compactor ρ)) (c : Compactor ρ) (post : List (Compactor ρ)) (pos : Nat),
      cs = pre ++ c :: post → pos < c.items.length →
      n = ((pairsOf c).drop pos).length + (allPairs post).length →
      itWalkF fl cs n { lvl := pre.length, pos := pos } = ((((pairsOf c).drop pos) ++ allPairs post).map some, true) := by
  intro n
  induction n with
  | zero =>
    intro pre c post pos _ hpos hn
    have : ((pairsOf c).drop pos).length = c.items.length - pos := by simp [pairsOf]
    omega
  | succ n ih =>
    intro pre c post pos hcs hpos hn
    have hlen : cs.length = pre.length + 1 + post.length := by rw [hcs]; simp; omega
    have hget : cs[pre.length]? = some c := by rw [hcs]; exact getElem?_mid pre c post
    have hsize : sizeAt cs pre.length = c.items.length := by simp [sizeAt, hget]
    have hneq : itEq cs { lvl := pre.length, pos := pos } (itEnd cs) = false := by
      have hne' : pre.length ≠ cs.length := by omega
      simp [itEq, itEnd, hne']
    have hder : itDeref cs { lvl := pre.length, pos := pos } = some (c.items[pos], 2 ^ c.lgWeight) := by
      simp only [itDeref, hget]
      rw [List.getElem?_eq_getElem hpos]
    have hdrop : (pairsOf c).drop pos = (c.items[pos], 2 ^ c.lgWeight) :: (pairsOf c).drop (pos + 1) := by
      have hp : pos < (pairsOf c).length := by simp [pairsOf]; exact hpos
      rw [List.drop_eq_getElem_cons hp]; simp [pairsOf]
    simp only [itWalkF, hneq, Bool.false_eq_true, if_false, hder]
    rw [hdrop]
    simp only [List.cons_append, List.map_cons]
    by_cases hlast : pos + 1 = c.items.length
    · have hdr : cs.drop (pre.length + 1) = post := by rw [hcs]; simp
      have hnext : itNextF fl cs { lvl := pre.length, pos := pos } = { lvl := pre.length + 1 + leadEmpty post, pos := 0 } := by
        simp only [itNextF, hfl, if_true, hsize, hlast, hdr]
      have hd0 : (pairsOf c).drop (pos + 1) = [] := by
        apply List.drop_eq_nil_of_le; simp [pairsOf]; omega
      rw [hnext, hd0]
      rw [hdrop, hd0] at hn
      obtain ⟨la, lb, lc⟩ := leadEmpty_spec post
      cases hrest : post.drop (leadEmpty post) with
      | nil =>
        have hall : allPairs post = [] := by rw [← la, hrest]; rfl
        have hle : post.length ≤ leadEmpty post := List.drop_eq_nil_iff.1 hrest
        rw [hall] at hn ⊢
        simp at hn; subst hn
        have : pre.length + 1 + leadEmpty post = cs.length := by omega
        simp [itWalkF, itEq, itEnd, this]
      | cons c' post' =>
        have hc' : c'.items ≠ [] := lc c' post' hrest
        have hpos' : 0 < c'.items.length := by cases hc'i : c'.items with
          | nil => exact absurd hc'i hc'
          | cons a b => simp
        have hsplit : post = post.take (leadEmpty post) ++ c' :: post' := by rw [← hrest, List.take_append_drop]
        have hpl : (pre ++ c :: post.take (leadEmpty post)).length = pre.length + 1 + leadEmpty post := by
          simp [List.length_take, Nat.min_eq_left lb]; omega
        have hall : allPairs post = pairsOf c' ++ allPairs post' := by rw [← la, hrest]; simp
        have := ih (pre ++ c :: post.take (leadEmpty post)) c' post' 0
          (by rw [hcs]; conv => lhs; rw [hsplit]
              simp)
          hpos' (by rw [hall] at hn; simp at hn ⊢; omega)
        rw [hpl] at this
        simp only [List.drop_zero] at this
        simp only [List.nil_append, hall]
        rw [this]
    · have hnext : itNextF fl cs { lvl := pre.length, pos := pos } = { lvl := pre.length, pos := pos + 1 } := by
        simp only [itNextF, hfl, if_true, hsize, hlast, if_false]
      rw [hnext]
      have := ih pre c post (pos + 1) hcs (by omega) (by rw [hdrop] at hn; simp at hn ⊢; omega)
      rw [this]

/-- the repaired iteration `begin() … end()` yields exactly the retained pairs — also when compactors are empty -/
theorem iterateF_repaired (fl : Flags) (hfl : fl.iterSkipsEmpty = true) (s : Sketch ρ) (hret : s.numRetained = sumItems s.compactors) :
    s.iterateF fl = some (allPairs s.compactors) := by
  obtain ⟨la, lb, lc⟩ := leadEmpty_spec s.compactors
  have hw : itWalkF fl s.compactors s.numRetained (itBeginF fl s.compactors) = ((allPairs s.compactors).map some, true) := by
    simp only [itBeginF, hfl, if_true]
    cases hrest : s.compactors.drop (leadEmpty s.compactors) with
    | nil =>
      have hall : allPairs s.compactors = [] := by rw [← la, hrest]; rfl
      have hle : s.compactors.length ≤ leadEmpty s.compactors := List.drop_eq_nil_iff.1 hrest
      have h0 : s.numRetained = 0 := by rw [hret, ← length_allPairs, hall]; rfl
      have : leadEmpty s.compactors = s.compactors.length := by omega
      rw [h0, hall, this]
      simp [itWalkF, itEq, itEnd]
    | cons c' post' =>
      have hc' : c'.items ≠ [] := lc c' post' hrest
      have hpos' : 0 < c'.items.length := by cases hc'i : c'.items with
        | nil => exact absurd hc'i hc'
        | cons a b => simp
      have hsplit : s.compactors = s.compactors.take (leadEmpty s.compactors) ++ c' :: post' := by rw [← hrest, List.take_append_drop]
      have hall : allPairs s.compactors = pairsOf c' ++ allPairs post' := by rw [← la, hrest]; simp
      have := itWalkF_suffix fl hfl s.compactors s.numRetained (s.compactors.take (leadEmpty s.compactors)) c' post' 0 hsplit hpos'
        (by rw [hret, ← length_allPairs, hall]; simp)
      rw [List.length_take, Nat.min_eq_left lb] at this
      simp only [List.drop_zero] at this
      rw [this, hall]
  simp only [Sketch.iterateF, hw]
  simp [List.filterMap_map]

end DS.Req

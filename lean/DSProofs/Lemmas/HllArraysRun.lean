/- The concrete HLL_4 / HLL_8 arrays simulate the L1 register model on every stream (helper lemmas for Props/C03.lean). -/
import DSProofs.Lemmas.HllArray4
namespace DS.Hll

variable {ν : Type} [HNum ν]

/-- what the L1 update does to (curMin, numAtCurMin) -/
theorem hllUpdate_counts {p : Params} {s : St ν} {M : Nat → Prop} (h : HInv p s M) (c : Nat) :
    ((hllUpdate p s c).curMin, (hllUpdate p s c).numAtCurMin) =
      (if s.regs.getD (cSlot p s.lgK c) 0 < cValue p c then
        bumpPair s.tt (s.regs.setIfInBounds (cSlot p s.lgK c) (cValue p c)) s.curMin s.numAtCurMin (s.regs.getD (cSlot p s.lgK c) 0)
       else (s.curMin, s.numAtCurMin)) := by
  unfold hllUpdate
  by_cases hq : s.tt = .h4 ∧ cValue p c ≤ s.curMin
  · rw [if_pos hq]
    have := h.cm_le hq.1 _ (cSlot_lt p s.lgK c)
    rw [if_neg (by omega)]
  · rw [if_neg hq]
    by_cases hlt : s.regs.getD (cSlot p s.lgK c) 0 < cValue p c
    · rw [if_pos hlt, if_pos hlt, raiseReg_curMin, raiseReg_numAtCurMin]
    · rw [if_neg hlt, if_neg hlt]

/-- the simulation relation between the concrete HLL_4 array and the L1 state -/
structure Sim4 (p : Params) (h : H4) (s : St ν) : Prop where
  tt : s.tt = .h4
  lgK : s.lgK = h.lgK
  regs : s.regs = h.regs p
  curMin : s.curMin = h.curMin
  num : s.numAtCurMin = h.numAtCurMin

theorem Sim4.step {p : Params} (ht : p.auxToken = 15) {h : H4} {s : St ν} {M : Nat → Prop}
    (hi : Inv4 p h) (hs : HInv p s M) (hr : Sim4 p h s) (c : Nat) :
    Inv4 p (h.update p c) ∧ Sim4 p (h.update p c) (hllUpdate p s c) := by
  obtain ⟨i1, i2, i3, i4⟩ := h4_refines ht hi c
  have hf := hllUpdate_fields p s c
  have hc := hllUpdate_counts hs c
  rw [hr.tt, hr.lgK, hr.regs, hr.curMin, hr.num, ← i4] at hc
  refine ⟨i1, hf.2.1.trans hr.tt, (hf.1.trans hr.lgK).trans i2.symm, ?_, congrArg Prod.fst hc, congrArg Prod.snd hc⟩
  rw [hllUpdate_regs hs c, hr.lgK, hr.regs, i3]

theorem Sim4.foldl {p : Params} (ht : p.auxToken = 15) : ∀ (cs : List Nat) {h : H4} {s : St ν} {M : Nat → Prop},
    Inv4 p h → HInv p s M → Sim4 p h s →
    Inv4 p (cs.foldl (H4.update p) h) ∧ Sim4 p (cs.foldl (H4.update p) h) (cs.foldl (hllUpdate p) s)
  | [], _, _, _, hi, _, hr => ⟨hi, hr⟩
  | c :: cs, _, _, _, hi, hs, hr => by
    have st := Sim4.step ht hi hs hr c
    exact Sim4.foldl ht cs st.1 (hs.hllUpdate c) st.2

theorem Sim4.init (p : Params) (lgK : Nat) (sf : Bool) : Sim4 p (H4.new lgK) (newHll lgK .h4 sf : St ν) := by
  refine ⟨rfl, rfl, ?_, rfl, rfl⟩
  apply Array.ext
  · simp [newHll, H4.regs_size, H4.new]
  · intro i h1 h2
    have hi : i < 2^lgK := by simpa [newHll] using h1
    rw [← getD_eq_getElem (d := 0) h1, ← getD_eq_getElem (d := 0) h2, H4.regs_getD p _ (by simpa [H4.new] using hi)]
    have hnib : getNib (H4.new lgK).bytes i = 0 := by
      unfold getNib H4.new
      have : (Array.replicate (2^(lgK - 1)) 0).getD (i / 2) 0 = 0 := by
        simp only [Array.getD_eq_getD_getElem?]
        by_cases hh : i / 2 < 2^(lgK - 1) <;> simp [hh]
      simp only [this]; split <;> rfl
    have hreg : (H4.new lgK).reg p i = 0 := by
      unfold H4.reg
      simp only [hnib]
      split <;> simp [H4.new]
    rw [hreg]
    simp [newHll, Array.getD_eq_getD_getElem?, hi]

/-- HLL_8 on a whole stream -/
theorem h8_foldl (p : Params) : ∀ (cs : List Nat) (h : H8) (regs : Array Nat), h.bytes.size = 2^h.lgK → h.regs = regs →
    (cs.foldl (H8.update p) h).regs = cs.foldl (maxUpdate p h.lgK) regs ∧ (cs.foldl (H8.update p) h).lgK = h.lgK
  | [], _, _, _, hr => ⟨hr, rfl⟩
  | c :: cs, h, regs, hsz, hr => by
    obtain ⟨r1, r2, r3, _⟩ := h8_refines p h c hsz
    have ih := h8_foldl p cs (h.update p c) (maxUpdate p h.lgK regs c) (by rw [r3, r2]) (by rw [r1, hr])
    simp only [List.foldl_cons]
    rw [r2] at ih
    exact ⟨ih.1, ih.2⟩

end DS.Hll

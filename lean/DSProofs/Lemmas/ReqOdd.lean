/- Without merges no compactor ever flips a coin that derives from no draw. (Helper lemmas for C08.) -/
import DSProofs.Lemmas.ReqBound
import DSProofs.Lemmas.ReqRel2
namespace DS.Req

variable {ρ : Type}

/-- a compactor in an odd state holds a coin that derives from a draw -/
def OddOK (c : Compactor ρ) : Prop := c.state % 2 = 1 → c.rnd = true

def AllOdd (cs : List (Compactor ρ)) : Prop := ∀ c ∈ cs, OddOK c

theorem oddOK_of_fields {c c' : Compactor ρ} (h : OddOK c) (h1 : c'.state = c.state) (h2 : c'.rnd = c.rnd) : OddOK c' := by
  intro ho; rw [h2]; exact h (by rw [← h1]; exact ho)

theorem sort_odd {c : Compactor ρ} (h : OddOK c) : OddOK c.sort :=
  oddOK_of_fields h (sort_fields c).2.2.2.2.1 (sort_fields c).2.2.2.2.2.2.2.1

theorem compact_odd (T : Tun) (F : SecFns ρ) (c nxt : Compactor ρ) (d : Bool) (hc : OddOK c) (hn : OddOK nxt) :
    (c.compact T F nxt d).oddConst = false ∧ OddOK (c.compact T F nxt d).cur ∧ OddOK (c.compact T F nxt d).nxt := by
  refine ⟨?_, ?_, ?_⟩
  · simp only [Compactor.compact]
    by_cases ho : c.state % 2 = 1
    · simp [ho, hc ho]
    · simp [ho]
  · simp only [Compactor.compact]
    have e := ensureEnough_items T F ({ c with coin := if c.state % 2 = 1 then !c.coin else d, items := c.items.take (c.compactionRange T).1 ++ c.items.drop (c.compactionRange T).2, state := c.state + 1, rnd := if c.state % 2 = 1 then c.rnd else true } : Compactor ρ)
    intro ho
    rw [e.2.2.2.2.2.1] at ho
    rw [e.2.2.2.2.2.2.2]
    have ho' : (c.state + 1) % 2 = 1 := ho
    have : ¬ c.state % 2 = 1 := by omega
    simp [this]
  · exact oddOK_of_fields hn rfl rfl

theorem afterCompact_odd (a : Acc) (lvl : Nat) (f k : Bool) (h : a.oddConst = false) : (a.afterCompact lvl f false k).oddConst = false := by
  cases f <;> simp [Acc.afterCompact, Acc.draw, h]

theorem compressLoop_odd (T : Tun) (F : SecFns ρ) (hra : Bool) (k : Nat) :
    ∀ (fuel h : Nat) (todo : List (Compactor ρ)) (ctr : Ctr) (acc : Acc), AllOdd todo → acc.oddConst = false →
      AllOdd (compressLoop T F hra k fuel h todo ctr acc).1 ∧ (compressLoop T F hra k fuel h todo ctr acc).2.2.oddConst = false := by
  intro fuel
  induction fuel with
  | zero => intro h todo ctr acc ht ha; exact ⟨ht, ha⟩
  | succ fuel ih =>
    intro h todo ctr acc ht ha
    cases todo with
    | nil => exact ⟨ht, ha⟩
    | cons c rest =>
      simp only [compressLoop]
      split
      · have hc1 : OddOK (sortIf0 h c) := by unfold sortIf0; split; exact sort_odd (ht c (by simp)); exact ht c (by simp)
        have hnx : OddOK (nextOf T F hra k h rest acc.peek) ∧ AllOdd rest.tail := by
          cases rest with
          | nil => exact ⟨fun ho => by rw [show (nextOf T F hra k h [] acc.peek).state = 0 from (mkC_fields T F hra (h + 1) k acc.peek).2.2.2.2.2.2.1] at ho; simp at ho, fun c hc => by simp at hc⟩
          | cons x t => exact ⟨ht x (by simp), fun c hc => ht c (by simp only [List.tail_cons] at hc; simp [hc])⟩
        have co := compact_odd T F (sortIf0 h c) (nextOf T F hra k h rest acc.peek) (acc.growDraw T rest.isEmpty (h + 1)).peek hc1 hnx.1
        generalize (sortIf0 h c).compact T F (nextOf T F hra k h rest acc.peek) (acc.growDraw T rest.isEmpty (h + 1)).peek = res at co
        have ha1 : (acc.growDraw T rest.isEmpty (h + 1)).oddConst = false := by rw [(growDraw_acc T acc _ _).2.2.2.1]; exact ha
        have ha2 : ((acc.growDraw T rest.isEmpty (h + 1)).afterCompact (sortIf0 h c).lgWeight res.fresh res.oddConst res.rangeOk).oddConst = false := by
          rw [co.1]; exact afterCompact_odd _ _ _ _ ha1
        split
        · refine ⟨?_, ha2⟩
          intro c' hc'
          rcases List.mem_cons.1 hc' with rfl | hc'
          · exact co.2.1
          · rcases List.mem_cons.1 hc' with rfl | hc'
            · exact co.2.2
            · exact hnx.2 c' hc'
        · have IH := ih (h + 1) (res.nxt :: rest.tail) (ctrAfter (ctrGrow T ctr rest.isEmpty (nextOf T F hra k h rest acc.peek)) res)
            ((acc.growDraw T rest.isEmpty (h + 1)).afterCompact (sortIf0 h c).lgWeight res.fresh res.oddConst res.rangeOk)
            (fun c' hc' => by rcases List.mem_cons.1 hc' with rfl | hc'; exact co.2.2; exact hnx.2 c' hc') ha2
          refine ⟨?_, IH.2⟩
          intro c' hc'
          rcases List.mem_cons.1 hc' with rfl | hc'
          · exact co.2.1
          · exact IH.1 c' hc'
      · have IH := ih (h + 1) rest ctr acc (fun c' hc' => ht c' (List.mem_cons_of_mem _ hc')) ha
        refine ⟨?_, IH.2⟩
        intro c' hc'
        rcases List.mem_cons.1 hc' with rfl | hc'
        · exact ht c' (by simp)
        · exact IH.1 c' hc'

theorem update_odd (T : Tun) (F : SecFns ρ) (s : Sketch ρ) (x : Int) (acc : Acc) (hs : AllOdd s.compactors) (ha : acc.oddConst = false) :
    AllOdd (s.update T F x acc).1.compactors ∧ (s.update T F x acc).2.oddConst = false := by
  have h1 : AllOdd (s.append1 x).compactors := by
    show AllOdd (appendLevel0 s.compactors x)
    cases hc : s.compactors with
    | nil => intro c hc'; simp [appendLevel0] at hc'
    | cons c0 t =>
      rw [hc] at hs
      intro c hc'
      simp only [appendLevel0] at hc'
      rcases List.mem_cons.1 hc' with rfl | hc'
      · exact oddOK_of_fields (hs c0 (by simp)) rfl rfl
      · exact hs c (List.mem_cons_of_mem _ hc')
  simp only [Sketch.update]
  split
  · exact compressLoop_odd T F _ _ _ 0 _ _ acc h1 ha
  · exact ⟨h1, ha⟩

def isMerge : Op → Bool
  | .merge _ _ => true
  | _ => false

theorem stepOp_odd (T : Tun) (F : SecFns ρ) (st : Store ρ) (acc : Acc) (op : Op) (hop : isMerge op = false)
    (hs : AllSk (fun s => AllOdd s.compactors) st) (ha : acc.oddConst = false) :
    AllSk (fun s => AllOdd s.compactors) (stepOp T F st acc op).1 ∧ (stepOp T F st acc op).2.oddConst = false := by
  cases op with
  | new id k hra =>
    refine ⟨AllSk_set hs id _ ?_, by show (acc.drawIf T.initCoinRandom 0).oddConst = false; rw [(drawIf_acc acc _ _).2.2.2.1]; exact ha⟩
    intro c hc
    rw [(new_compactors T F k hra acc.peek).1] at hc
    simp only [List.mem_singleton] at hc
    subst hc; intro ho
    rw [(mkC_fields T F hra 0 (effectiveK T k) acc.peek).2.2.2.2.2.2.1] at ho; simp at ho
  | upd id x =>
    simp only [stepOp]
    cases hg : st.get id with
    | none => exact ⟨hs, ha⟩
    | some s =>
      have := update_odd T F s x acc (hs id s hg) ha
      exact ⟨AllSk_set hs id _ this.1, this.2⟩
  | merge i j => simp [isMerge] at hop
  | copy i j =>
    simp only [stepOp]
    cases hg : st.get i with
    | none => exact ⟨hs, ha⟩
    | some s => exact ⟨AllSk_set hs j _ (hs i s hg), ha⟩
  | rankq id =>
    simp only [stepOp]
    cases hg : st.get id with
    | none => exact ⟨hs, ha⟩
    | some s =>
      refine ⟨AllSk_set hs id _ ?_, ha⟩
      intro c hc
      simp only [Sketch.afterRank, sortAll, List.mem_map] at hc
      obtain ⟨c0, h0, rfl⟩ := hc
      exact sort_odd (hs id s hg c0 h0)
  | viewq id =>
    simp only [stepOp]
    cases hg : st.get id with
    | none => exact ⟨hs, ha⟩
    | some s =>
      refine ⟨AllSk_set hs id _ ?_, ha⟩
      intro c hc
      have hc' : c ∈ sortLevel0 s.compactors := hc
      have hh : AllOdd s.compactors := hs id s hg
      cases hcs : s.compactors with
      | nil => rw [hcs] at hc'; simp [sortLevel0] at hc'
      | cons c0 t =>
        rw [hcs] at hc' hh
        simp only [sortLevel0] at hc'
        rcases List.mem_cons.1 hc' with rfl | hc'
        · exact sort_odd (hh c0 (by simp))
        · exact hh c (List.mem_cons_of_mem _ hc')

theorem runOps_odd (T : Tun) (F : SecFns ρ) (ops : List Op) (hops : ∀ op ∈ ops, isMerge op = false) :
    ∀ (st : Store ρ) (acc : Acc), AllSk (fun s => AllOdd s.compactors) st → acc.oddConst = false →
      (runOps T F st acc ops).2.oddConst = false := by
  induction ops with
  | nil => intro st acc _ ha; exact ha
  | cons op ops ih =>
    intro st acc hs ha
    simp only [runOps]
    have := stepOp_odd T F st acc op (hops op (by simp)) hs ha
    exact ih (fun o ho => hops o (List.mem_cons_of_mem _ ho)) _ _ this.1 this.2

/-! ### the repaired shape: every coin derives from a draw -/

def AllRnd (cs : List (Compactor ρ)) : Prop := ∀ c ∈ cs, c.rnd = true

theorem allOdd_of_allRnd {cs : List (Compactor ρ)} (h : AllRnd cs) : AllOdd cs := fun c hc _ => h c hc

theorem compact_rnd (T : Tun) (F : SecFns ρ) (c nxt : Compactor ρ) (d : Bool) (hc : c.rnd = true) (hn : nxt.rnd = true) :
    (c.compact T F nxt d).cur.rnd = true ∧ (c.compact T F nxt d).nxt.rnd = true := by
  refine ⟨?_, hn⟩
  simp only [Compactor.compact]
  rw [(ensureEnough_items T F _).2.2.2.2.2.2.2]
  show (if c.state % 2 = 1 then c.rnd else true) = true
  split <;> simp [hc]

theorem compressLoop_rnd (T : Tun) (F : SecFns ρ) (hf : T.initCoinRandom = true) (hra : Bool) (k : Nat) :
    ∀ (fuel h : Nat) (todo : List (Compactor ρ)) (ctr : Ctr) (acc : Acc), AllRnd todo →
      AllRnd (compressLoop T F hra k fuel h todo ctr acc).1 := by
  intro fuel
  induction fuel with
  | zero => intro h todo ctr acc ht; exact ht
  | succ fuel ih =>
    intro h todo ctr acc ht
    cases todo with
    | nil => exact ht
    | cons c rest =>
      simp only [compressLoop]
      split
      · have hc1 : (sortIf0 h c).rnd = true := by
          unfold sortIf0; split
          · rw [(sort_fields c).2.2.2.2.2.2.2.1]; exact ht c (by simp)
          · exact ht c (by simp)
        have hnx : (nextOf T F hra k h rest acc.peek).rnd = true ∧ AllRnd rest.tail := by
          cases rest with
          | nil => exact ⟨((mkC_fields T F hra (h + 1) k acc.peek).2.2.2.2.2.2.2.2.2.1 hf).1, fun c hc => by simp at hc⟩
          | cons x t => exact ⟨ht x (by simp), fun c hc => ht c (by simp only [List.tail_cons] at hc; simp [hc])⟩
        have co := compact_rnd T F (sortIf0 h c) (nextOf T F hra k h rest acc.peek) (acc.growDraw T rest.isEmpty (h + 1)).peek hc1 hnx.1
        generalize (sortIf0 h c).compact T F (nextOf T F hra k h rest acc.peek) (acc.growDraw T rest.isEmpty (h + 1)).peek = res at co
        split
        · intro c' hc'
          rcases List.mem_cons.1 hc' with rfl | hc'
          · exact co.1
          · rcases List.mem_cons.1 hc' with rfl | hc'
            · exact co.2
            · exact hnx.2 c' hc'
        · have IH := ih (h + 1) (res.nxt :: rest.tail) (ctrAfter (ctrGrow T ctr rest.isEmpty (nextOf T F hra k h rest acc.peek)) res)
            ((acc.growDraw T rest.isEmpty (h + 1)).afterCompact (sortIf0 h c).lgWeight res.fresh res.oddConst res.rangeOk)
            (fun c' hc' => by rcases List.mem_cons.1 hc' with rfl | hc'; exact co.2; exact hnx.2 c' hc')
          intro c' hc'
          rcases List.mem_cons.1 hc' with rfl | hc'
          · exact co.1
          · exact IH c' hc'
      · have IH := ih (h + 1) rest ctr acc (fun c' hc' => ht c' (List.mem_cons_of_mem _ hc'))
        intro c' hc'
        rcases List.mem_cons.1 hc' with rfl | hc'
        · exact ht c' (by simp)
        · exact IH c' hc'

theorem compress_rnd (T : Tun) (F : SecFns ρ) (hf : T.initCoinRandom = true) (s : Sketch ρ) (acc : Acc) (h : AllRnd s.compactors) :
    AllRnd (s.compress T F acc).1.compactors := compressLoop_rnd T F hf _ _ _ 0 _ _ acc h

theorem growTo_rnd (T : Tun) (F : SecFns ρ) (hf : T.initCoinRandom = true) (target : Nat) : ∀ (fuel : Nat) (s : Sketch ρ) (acc : Acc),
    AllRnd s.compactors → AllRnd (growTo T F fuel target s acc).1.compactors := by
  intro fuel
  induction fuel with
  | zero => intro s acc h; exact h
  | succ n ih =>
    intro s acc h
    simp only [growTo]
    split
    · apply ih
      intro c hc
      simp only [Sketch.grow, List.mem_append, List.mem_singleton] at hc
      rcases hc with hc | rfl
      · exact h c hc
      · exact ((mkC_fields T F _ _ _ _).2.2.2.2.2.2.2.2.2.1 hf).1
    · exact h

theorem cmerge_rnd (T : Tun) (F : SecFns ρ) (c o : Compactor ρ) (h : c.rnd = true) : (c.merge T F o).rnd = true := by
  show (Compactor.ensureLoop T F ((c.orState o).state + 2) (c.orState o)).rnd = true
  rw [(ensureLoop_items T F _ _).2.2.2.2.2.2.2]; exact h

theorem mergeLevels_rnd (T : Tun) (F : SecFns ρ) : ∀ (cs os : List (Compactor ρ)), AllRnd cs → AllRnd (mergeLevels T F cs os) := by
  intro cs
  induction cs with
  | nil => intro os _ c hc; cases os <;> simp [mergeLevels] at hc
  | cons c t ih =>
    intro os h
    cases os with
    | nil => simpa [mergeLevels] using h
    | cons o ot =>
      intro c' hc'
      simp only [mergeLevels] at hc'
      rcases List.mem_cons.1 hc' with rfl | hc'
      · exact cmerge_rnd T F c o (h c (by simp))
      · exact ih ot (fun x hx => h x (List.mem_cons_of_mem _ hx)) c' hc'

theorem merge_rnd (T : Tun) (F : SecFns ρ) (hf : T.initCoinRandom = true) (s o : Sketch ρ) (acc : Acc) (h : AllRnd s.compactors)
    (r : Sketch ρ × Acc) (hr : s.merge T F o acc = some r) : AllRnd r.1.compactors := by
  have hp : AllRnd (s.mergePre T F o acc).1.compactors := mergeLevels_rnd T F _ _ (growTo_rnd T F hf _ _ s acc h)
  simp only [Sketch.merge] at hr
  split at hr
  · exact absurd hr (by simp)
  · split at hr
    · have : r = (s, acc) := by simpa using hr.symm
      subst this; exact h
    · split at hr
      · have : r = (s.mergePre T F o acc).1.compress T F (s.mergePre T F o acc).2 := by simpa using hr.symm
        subst this; exact compress_rnd T F hf _ _ hp
      · have : r = s.mergePre T F o acc := by simpa using hr.symm
        subst this; exact hp

theorem stepOp_rnd (T : Tun) (F : SecFns ρ) (hf : T.initCoinRandom = true) (st : Store ρ) (acc : Acc) (op : Op)
    (hs : AllSk (fun s => AllRnd s.compactors) st) : AllSk (fun s => AllRnd s.compactors) (stepOp T F st acc op).1 := by
  cases op with
  | new id k hra =>
    refine AllSk_set hs id _ ?_
    intro c hc
    rw [(new_compactors T F k hra acc.peek).1] at hc
    simp only [List.mem_singleton] at hc
    subst hc; exact ((mkC_fields T F _ _ _ _).2.2.2.2.2.2.2.2.2.1 hf).1
  | upd id x =>
    simp only [stepOp]
    cases hg : st.get id with
    | none => exact hs
    | some s =>
      refine AllSk_set hs id _ ?_
      have h1 : AllRnd (s.append1 x).compactors := by
        show AllRnd (appendLevel0 s.compactors x)
        have hh : AllRnd s.compactors := hs id s hg
        cases hc : s.compactors with
        | nil => intro c hc'; simp [appendLevel0] at hc'
        | cons c0 t =>
          rw [hc] at hh
          intro c hc'
          simp only [appendLevel0] at hc'
          rcases List.mem_cons.1 hc' with rfl | hc'
          · exact hh c0 (by simp)
          · exact hh c (List.mem_cons_of_mem _ hc')
      simp only [Sketch.update]
      split
      · exact compress_rnd T F hf _ _ h1
      · exact h1
  | merge i j =>
    simp only [stepOp]
    split
    · exact hs
    · cases hg : st.get i with
      | none => exact hs
      | some s =>
        cases hg' : st.get j with
        | none => exact hs
        | some o =>
          simp only
          cases hm : s.merge T F o acc with
          | none => exact hs
          | some r => exact AllSk_set hs i _ (merge_rnd T F hf s o acc (hs i s hg) r hm)
  | copy i j =>
    simp only [stepOp]
    cases hg : st.get i with
    | none => exact hs
    | some s => exact AllSk_set hs j _ (hs i s hg)
  | rankq id =>
    simp only [stepOp]
    cases hg : st.get id with
    | none => exact hs
    | some s =>
      refine AllSk_set hs id _ ?_
      intro c hc
      simp only [Sketch.afterRank, sortAll, List.mem_map] at hc
      obtain ⟨c0, h0, rfl⟩ := hc
      rw [(sort_fields c0).2.2.2.2.2.2.2.1]; exact hs id s hg c0 h0
  | viewq id =>
    simp only [stepOp]
    cases hg : st.get id with
    | none => exact hs
    | some s =>
      refine AllSk_set hs id _ ?_
      intro c hc
      have hc' : c ∈ sortLevel0 s.compactors := hc
      have hh : AllRnd s.compactors := hs id s hg
      cases hcs : s.compactors with
      | nil => rw [hcs] at hc'; simp [sortLevel0] at hc'
      | cons c0 t =>
        rw [hcs] at hc' hh
        simp only [sortLevel0] at hc'
        rcases List.mem_cons.1 hc' with rfl | hc'
        · rw [(sort_fields c0).2.2.2.2.2.2.2.1]; exact hh c0 (by simp)
        · exact hh c (List.mem_cons_of_mem _ hc')

theorem growTo_oddConst (T : Tun) (F : SecFns ρ) (target : Nat) : ∀ (fuel : Nat) (s : Sketch ρ) (acc : Acc),
    (growTo T F fuel target s acc).2.oddConst = acc.oddConst := by
  intro fuel
  induction fuel with
  | zero => intro s acc; rfl
  | succ n ih =>
    intro s acc
    simp only [growTo]
    split
    · rw [ih, (drawIf_acc acc _ _).2.2.2.1]
    · rfl

/-- in the repaired shape no compaction ever flips a coin that derives from no draw — merges included -/
theorem stepOp_oddR (T : Tun) (F : SecFns ρ) (hf : T.initCoinRandom = true) (st : Store ρ) (acc : Acc) (op : Op)
    (hs : AllSk (fun s => AllRnd s.compactors) st) (ha : acc.oddConst = false) : (stepOp T F st acc op).2.oddConst = false := by
  by_cases hm : isMerge op = false
  · exact (stepOp_odd T F st acc op hm (fun id s hg => allOdd_of_allRnd (hs id s hg)) ha).2
  · cases op with
    | merge i j =>
      simp only [stepOp]
      split
      · exact ha
      · cases hg : st.get i with
        | none => exact ha
        | some s =>
          cases hg' : st.get j with
          | none => exact ha
          | some o =>
            simp only
            have hp : AllRnd (s.mergePre T F o acc).1.compactors := mergeLevels_rnd T F _ _ (growTo_rnd T F hf _ _ s acc (hs i s hg))
            have hpa : (s.mergePre T F o acc).2.oddConst = false := by
              show (growTo T F _ _ s acc).2.oddConst = false
              rw [growTo_oddConst]; exact ha
            cases hmm : s.merge T F o acc with
            | none => exact ha
            | some r =>
              simp only [Sketch.merge] at hmm
              split at hmm
              · exact absurd hmm (by simp)
              · split at hmm
                · have : r = (s, acc) := by simpa using hmm.symm
                  subst this; exact ha
                · split at hmm
                  · have : r = (s.mergePre T F o acc).1.compress T F (s.mergePre T F o acc).2 := by simpa using hmm.symm
                    subst this
                    exact (compressLoop_odd T F _ _ _ 0 _ _ _ (allOdd_of_allRnd hp) hpa).2
                  · have : r = s.mergePre T F o acc := by simpa using hmm.symm
                    subst this; exact hpa
    | new _ _ _ => simp [isMerge] at hm
    | upd _ _ => simp [isMerge] at hm
    | copy _ _ => simp [isMerge] at hm
    | rankq _ => simp [isMerge] at hm
    | viewq _ => simp [isMerge] at hm

theorem runOps_oddR (T : Tun) (F : SecFns ρ) (hf : T.initCoinRandom = true) (ops : List Op) :
    ∀ (st : Store ρ) (acc : Acc), AllSk (fun s => AllRnd s.compactors) st → acc.oddConst = false →
      (runOps T F st acc ops).2.oddConst = false := by
  induction ops with
  | nil => intro st acc _ ha; exact ha
  | cons op ops ih =>
    intro st acc hs ha
    simp only [runOps]
    exact ih _ _ (stepOp_rnd T F hf st acc op hs) (stepOp_oddR T F hf st acc op hs ha)

end DS.Req

/- Without merges no compactor ever flips a coin that derives from no draw. (Helper lemmas for C08.) -/
import DSProofs.Lemmas.ReqBound
namespace DS.Req

variable {ρ : Type}

/-- a compactor in an odd state holds a coin that derives from a draw -/
def OddOK (c : Compactor ρ) : Prop := c.state % 2 = 1 → c.rnd = true

def AllOdd (cs : List (Compactor ρ)) : Prop := ∀ c ∈ cs, OddOK c

theorem oddOK_of_fields {c c' : Compactor ρ} (h : OddOK c) (h1 : c'.state = c.state) (h2 : c'.rnd = c.rnd) : OddOK c' := by
  intro ho; rw [h2]; exact h (by rw [← h1]; exact ho)

theorem sort_odd {c : Compactor ρ} (h : OddOK c) : OddOK c.sort :=
  oddOK_of_fields h (sort_fields c).2.2.2.2.1 (sort_fields c).2.2.2.2.2.2.2.1

theorem compact_odd (T : Tun) (F : SecFns ρ) (c nxt : Compactor ρ) (d : Bool) (hc : OddOK c) (hn : OddOK nxt) :
    (c.compact T F nxt d).oddConst = false ∧ OddOK (c.compact T F nxt d).cur ∧ OddOK (c.compact T F nxt d).nxt := by
  refine ⟨?_, ?_, ?_⟩
  · simp only [Compactor.compact]
    by_cases ho : c.state % 2 = 1
    · simp [ho, hc ho]
    · simp [ho]
  · simp only [Compactor.compact]
    have e := ensureEnough_items T F ({ c with coin := if c.state % 2 = 1 then !c.coin else d, items := c.items.take (c.compactionRange T).1 ++ c.items.drop (c.compactionRange T).2, state := c.state + 1, rnd := if c.state % 2 = 1 then c.rnd else true } : Compactor ρ)
    intro ho
    rw [e.2.2.2.2.2.1] at ho
    rw [e.2.2.2.2.2.2.2]
    have ho' : (c.state + 1) % 2 = 1 := ho
    have : ¬ c.state % 2 = 1 := by omega
    simp [this]
  · exact oddOK_of_fields hn rfl rfl

theorem afterCompact_odd (a : Acc) (lvl : Nat) (f k : Bool) (h : a.oddConst = false) : (a.afterCompact lvl f false k).oddConst = false := by
  cases f <;> simp [Acc.afterCompact, Acc.draw, h]

theorem compressLoop_odd (T : Tun) (F : SecFns ρ) (hra : Bool) (k : Nat) :
    ∀ (fuel h : Nat) (todo : List (Compactor ρ)) (ctr : Ctr) (acc : Acc), AllOdd todo → acc.oddConst = false →
      AllOdd (compressLoop T F hra k fuel h todo ctr acc).1 ∧ (compressLoop T F hra k fuel h todo ctr acc).2.2.oddConst = false := by
  intro fuel
  induction fuel with
  | zero => intro h todo ctr acc ht ha; exact ⟨ht, ha⟩
  | succ fuel ih =>
    intro h todo ctr acc ht ha
    cases todo with
    | nil => exact ⟨ht, ha⟩
    | cons c rest =>
      simp only [compressLoop]
      split
      · have hc1 : OddOK (sortIf0 h c) := by unfold sortIf0; split; exact sort_odd (ht c (by simp)); exact ht c (by simp)
        have hnx : OddOK (nextOf T F hra k h rest) ∧ AllOdd rest.tail := by
          cases rest with
          | nil => exact ⟨fun ho => by simp [nextOf, Compactor.mk'] at ho, fun c hc => by simp at hc⟩
          | cons x t => exact ⟨ht x (by simp), fun c hc => ht c (by simp only [List.tail_cons] at hc; simp [hc])⟩
        have co := compact_odd T F (sortIf0 h c) (nextOf T F hra k h rest) acc.peek hc1 hnx.1
        generalize (sortIf0 h c).compact T F (nextOf T F hra k h rest) acc.peek = res at co
        have ha2 : (acc.afterCompact (sortIf0 h c).lgWeight res.fresh res.oddConst res.rangeOk).oddConst = false := by
          rw [co.1]; exact afterCompact_odd acc _ _ _ ha
        split
        · refine ⟨?_, ha2⟩
          intro c' hc'
          rcases List.mem_cons.1 hc' with rfl | hc'
          · exact co.2.1
          · rcases List.mem_cons.1 hc' with rfl | hc'
            · exact co.2.2
            · exact hnx.2 c' hc'
        · have IH := ih (h + 1) (res.nxt :: rest.tail) (ctrAfter (ctrGrow T ctr rest.isEmpty (nextOf T F hra k h rest)) res)
            (acc.afterCompact (sortIf0 h c).lgWeight res.fresh res.oddConst res.rangeOk)
            (fun c' hc' => by rcases List.mem_cons.1 hc' with rfl | hc'; exact co.2.2; exact hnx.2 c' hc') ha2
          refine ⟨?_, IH.2⟩
          intro c' hc'
          rcases List.mem_cons.1 hc' with rfl | hc'
          · exact co.2.1
          · exact IH.1 c' hc'
      · have IH := ih (h + 1) rest ctr acc (fun c' hc' => ht c' (List.mem_cons_of_mem _ hc')) ha
        refine ⟨?_, IH.2⟩
        intro c' hc'
        rcases List.mem_cons.1 hc' with rfl | hc'
        · exact ht c' (by simp)
        · exact IH.1 c' hc'

theorem update_odd (T : Tun) (F : SecFns ρ) (s : Sketch ρ) (x : Int) (acc : Acc) (hs : AllOdd s.compactors) (ha : acc.oddConst = false) :
    AllOdd (s.update T F x acc).1.compactors ∧ (s.update T F x acc).2.oddConst = false := by
  have h1 : AllOdd (s.append1 x).compactors := by
    show AllOdd (appendLevel0 s.compactors x)
    cases hc : s.compactors with
    | nil => intro c hc'; simp [appendLevel0] at hc'
    | cons c0 t =>
      rw [hc] at hs
      intro c hc'
      simp only [appendLevel0] at hc'
      rcases List.mem_cons.1 hc' with rfl | hc'
      · exact oddOK_of_fields (hs c0 (by simp)) rfl rfl
      · exact hs c (List.mem_cons_of_mem _ hc')
  simp only [Sketch.update]
  split
  · exact compressLoop_odd T F _ _ _ 0 _ _ acc h1 ha
  · exact ⟨h1, ha⟩

def isMerge : Op → Bool
  | .merge _ _ => true
  | _ => false

theorem stepOp_odd (T : Tun) (F : SecFns ρ) (st : Store ρ) (acc : Acc) (op : Op) (hop : isMerge op = false)
    (hs : AllSk (fun s => AllOdd s.compactors) st) (ha : acc.oddConst = false) :
    AllSk (fun s => AllOdd s.compactors) (stepOp T F st acc op).1 ∧ (stepOp T F st acc op).2.oddConst = false := by
  cases op with
  | new id k hra =>
    refine ⟨AllSk_set hs id _ ?_, ha⟩
    intro c hc
    simp only [Sketch.new, Sketch.grow, List.nil_append, List.mem_singleton] at hc
    subst hc; intro ho; simp [Compactor.mk'] at ho
  | upd id x =>
    simp only [stepOp]
    cases hg : st.get id with
    | none => exact ⟨hs, ha⟩
    | some s =>
      have := update_odd T F s x acc (hs id s hg) ha
      exact ⟨AllSk_set hs id _ this.1, this.2⟩
  | merge i j => simp [isMerge] at hop
  | copy i j =>
    simp only [stepOp]
    cases hg : st.get i with
    | none => exact ⟨hs, ha⟩
    | some s => exact ⟨AllSk_set hs j _ (hs i s hg), ha⟩
  | rankq id =>
    simp only [stepOp]
    cases hg : st.get id with
    | none => exact ⟨hs, ha⟩
    | some s =>
      refine ⟨AllSk_set hs id _ ?_, ha⟩
      intro c hc
      simp only [Sketch.afterRank, sortAll, List.mem_map] at hc
      obtain ⟨c0, h0, rfl⟩ := hc
      exact sort_odd (hs id s hg c0 h0)
  | viewq id =>
    simp only [stepOp]
    cases hg : st.get id with
    | none => exact ⟨hs, ha⟩
    | some s =>
      refine ⟨AllSk_set hs id _ ?_, ha⟩
      intro c hc
      have hc' : c ∈ sortLevel0 s.compactors := hc
      have hh : AllOdd s.compactors := hs id s hg
      cases hcs : s.compactors with
      | nil => rw [hcs] at hc'; simp [sortLevel0] at hc'
      | cons c0 t =>
        rw [hcs] at hc' hh
        simp only [sortLevel0] at hc'
        rcases List.mem_cons.1 hc' with rfl | hc'
        · exact sort_odd (hh c0 (by simp))
        · exact hh c (List.mem_cons_of_mem _ hc')

theorem runOps_odd (T : Tun) (F : SecFns ρ) (ops : List Op) (hops : ∀ op ∈ ops, isMerge op = false) :
    ∀ (st : Store ρ) (acc : Acc), AllSk (fun s => AllOdd s.compactors) st → acc.oddConst = false →
      (runOps T F st acc ops).2.oddConst = false := by
  induction ops with
  | nil => intro st acc _ ha; exact ha
  | cons op ops ih =>
    intro st acc hs ha
    simp only [runOps]
    have := stepOp_odd T F st acc op (hops op (by simp)) hs ha
    exact ih (fun o ho => hops o (List.mem_cons_of_mem _ ho)) _ _ this.1 this.2

end DS.Req

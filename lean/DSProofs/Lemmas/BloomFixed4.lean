/- Repaired model: per-view building blocks for writes. -/
import DSProofs.Lemmas.BloomFixed3
namespace DS.Bloom

variable {ι : Type} (P : Params) (hf : ι → Nat → Option (Nat × Nat))

theorem insync_mem_false_of_tainted {s : SInfo ι} {f : Filter} {i : VInfo ι} (hm : isMem f = true) (ht : s.tainted = true) :
    insync s f i = false := by
  unfold insync; unfold isMem at hm
  cases hr : f.ref with
  | owned b => rw [hr] at hm; cases hm
  | mem m => simp [ht]

theorem insync_mem_false_of_lt {s : SInfo ι} {f : Filter} {i : VInfo ι} (hm : isMem f = true) (hlt : i.sync < s.ver) :
    insync s f i = false := by
  unfold insync; unfold isMem at hm
  cases hr : f.ref with
  | owned b => rw [hr] at hm; cases hm
  | mem m =>
    have : (i.sync == s.ver) = false := by simp; omega
    simp [this]

theorem insync_mem_iff {s : SInfo ι} {f : Filter} {i : VInfo ι} (hm : isMem f = true) :
    insync s f i = true ↔ s.tainted = false ∧ i.sync = s.ver := by
  unfold insync; unfold isMem at hm
  cases hr : f.ref with
  | owned b => rw [hr] at hm; cases hm
  | mem m => simp

/-- any view of a tainted block whose must-set is empty is fine, whatever the memory holds -/
theorem viewOK_tainted {X : Nat} {s : SInfo ι} {f : Filter} {i : VInfo ι} (hm : isMem f = true) (ht : s.tainted = true) (hM : i.M = [])
    (hk : i.promised = true → KOK f) (hsv : i.sync ≤ s.ver) : ViewOK P hf X s f i := by
  have hin : insync s f i = false := insync_mem_false_of_tainted hm ht
  refine ⟨fun _ => hM, ?_, hk, ?_, ?_, ?_, ?_, ?_, fun _ => hsv, fun _ _ => hM, ?_⟩
  · intro _ _ h; rw [ht] at h; cases h
  · rw [hM]; intro x hx; cases hx
  · rw [hM]; exact Covers.nil _ _ _ _
  · intro h; exact absurd hM h
  · intro _ h; rw [hin] at h; cases h
  · intro _ h; rw [hin] at h; cases h
  · intro h; rw [hm] at h; cases h

/-- another view of the block after a disciplined write by someone else: it is out of sync now; its must-set is
either cleared or kept while the bits it relies on only grew -/
theorem viewOK_stale {X X' : Nat} {s s' : SInfo ι} {f : Filter} {i : VInfo ι} (hok : ViewOK P hf X s f i) (hm : isMem f = true)
    (hver : s'.ver = s.ver + 1) (ht' : s'.tainted = false) (hts : s.tainted = false) (M' : List ι)
    (hM : M' = [] ∨ (M' = i.M ∧ ∀ j, j < f.capBits → X.testBit (f.off P + j) = true → X'.testBit (f.off P + j) = true))
    (hcap : 0 < f.capBits) :
    ViewOK P hf X' s' f { i with M := M' } := by
  have hsv := hok.sv hm
  have hin : insync s' f { i with M := M' } = false := insync_mem_false_of_lt hm (by simp only; omega)
  refine ⟨?_, ?_, hok.k1, ?_, ?_, ?_, ?_, ?_, ?_, ?_, ?_⟩
  · intro hp
    rcases hM with h | h
    · exact h
    · simp only; rw [h.1]; exact hok.up hp
  · intro hp _ _
    have := hok.us hp hm hts
    simp only; omega
  · rcases hM with h | h
    · simp only [h]; intro x hx; cases hx
    · simp only [h.1]; exact hok.hs
  · rcases hM with h | h
    · simp only [h]; exact Covers.nil _ _ _ _
    · simp only [h.1]
      exact hok.cov.mono hcap h.2
  · rcases hM with h | h
    · intro hne; exact absurd h hne
    · simp only [h.1]; exact hok.ne
  · intro _ h; rw [hin] at h; cases h
  · intro _ h; rw [hin] at h; cases h
  · intro _; simp only; omega
  · intro _ h; rw [ht'] at h; cases h
  · intro h; rw [hm] at h; cases h

theorem committed_isMem (f : Filter) (x nbs : Nat) (d : Bool) : isMem (committed f x nbs d) = isMem f := by
  unfold committed isMem
  cases hr : f.ref <;> simp [hr]

theorem committed_cfg (f : Filter) (x nbs : Nat) (d : Bool) : (committed f x nbs d).cfg = f.cfg := by
  unfold committed Filter.cfg
  cases hr : f.ref <;> simp

theorem committed_insync (s : SInfo ι) (f : Filter) (x nbs : Nat) (d : Bool) (i : VInfo ι) :
    insync s (committed f x nbs d) i = insync s f i := by
  unfold committed insync
  cases hr : f.ref <;> simp [hr]

theorem committed_isEmpty (f : Filter) (x nbs : Nat) (d : Bool) : (committed f x nbs d).isEmpty = (!d && nbs == 0) := by
  unfold Filter.isEmpty
  rw [(committed_fields f x nbs d).2.2.2.1, (committed_fields f x nbs d).2.2.2.2.1]

/-- the acting view after a disciplined write through a promised, in-sync, writable memory view -/
theorem viewOK_actor_mem {X' : Nat} {s' : SInfo ι} {f : Filter} {i : VInfo ι} (hm : isMem f = true) (hp : i.promised = true)
    (hk : KOK f) (x nbs' : Nat) (d' : Bool) (M' : List ι) (hver : s'.ver = i.sync + 1) (ht' : s'.tainted = false)
    (hhs : Hashed hf f.seed M') (hcov : Covers hf X' (f.off P) f.cfg M')
    (hne : M' ≠ [] → d' = true ∨ nbs' ≠ 0)
    (hex : d' = false → nbs' = popCount X' (f.off P) f.capBits)
    (hdh : d' = true → getField X' 192 64 = P.dirty) :
    ViewOK P hf X' s' (committed f x nbs' d') { i with sync := i.sync + 1, M := M' } := by
  have hf' := committed_fields f x nbs' d'
  refine ⟨?_, ?_, ?_, ?_, ?_, ?_, ?_, ?_, ?_, ?_, ?_⟩
  · intro h; simp only at h; rw [hp] at h; cases h
  · intro h; simp only at h; rw [hp] at h; cases h
  · intro _; exact ⟨by rw [hf'.2.1]; exact hk.1, by rw [hf'.1]; exact hk.2⟩
  · rw [hf'.2.2.1]; exact hhs
  · rw [committed_off, committed_cfg]; exact hcov
  · intro hM
    rw [committed_isEmpty]
    rcases hne hM with h | h
    · simp [h]
    · simp [h]
  · intro _ _ hd
    rw [hf'.2.2.2.2.1] at hd
    rw [hf'.2.2.2.1, committed_off, hf'.1]; exact hex hd
  · intro _ _ _ _ hd
    rw [hf'.2.2.2.2.1] at hd
    exact hdh hd
  · intro _; simp only; omega
  · intro _ h; rw [ht'] at h; cases h
  · intro h; rw [committed_isMem, hm] at h; cases h

/-- the acting view after a write through an owned filter -/
theorem viewOK_actor_own {s' : SInfo ι} {f : Filter} {i : VInfo ι} (hm : isMem f = false) (hk : i.promised = true → KOK f)
    (x nbs' : Nat) (d' : Bool) (M' : List ι)
    (hup : i.promised = false → M' = [] ∧ s'.S = [])
    (hhs : Hashed hf f.seed M') (hcov : Covers hf x 0 f.cfg M')
    (hhsS : Hashed hf f.seed s'.S) (hcovS : Covers hf x 0 f.cfg s'.S)
    (hne : M' ≠ [] → d' = true ∨ nbs' ≠ 0)
    (hex : i.promised = true → d' = false → nbs' = popCount x 0 f.capBits) :
    ViewOK P hf x s' (committed f x nbs' d') { i with M := M' } := by
  have hf' := committed_fields f x nbs' d'
  have hoff : f.off P = 0 := by
    unfold Filter.off; unfold isMem at hm; cases hr : f.ref <;> simp_all
  refine ⟨?_, ?_, ?_, ?_, ?_, ?_, ?_, ?_, ?_, ?_, ?_⟩
  · intro h; exact (hup h).1
  · intro _ h; rw [committed_isMem, hm] at h; cases h
  · intro h; exact ⟨by rw [hf'.2.1]; exact (hk h).1, by rw [hf'.1]; exact (hk h).2⟩
  · rw [hf'.2.2.1]; exact hhs
  · rw [committed_off, committed_cfg, hoff]; exact hcov
  · intro hM
    rw [committed_isEmpty]
    rcases hne hM with h | h
    · simp [h]
    · simp [h]
  · intro hp _ hd
    rw [hf'.2.2.2.2.1] at hd
    rw [hf'.2.2.2.1, committed_off, hf'.1, hoff]; exact hex hp hd
  · intro _ _ h; rw [committed_isMem, hm] at h; cases h
  · intro h; rw [committed_isMem, hm] at h; cases h
  · intro h; rw [committed_isMem, hm] at h; cases h
  · intro _
    rw [committed_cfg, hf'.2.2.1]
    exact ⟨hcovS, hhsS, fun h => (hup h).2⟩

end DS.Bloom

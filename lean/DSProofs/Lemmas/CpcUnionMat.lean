/- The union's bit matrix: what the OR operations compute, and reading a result sketch back from it (free to change). -/
import DSProofs.Lemmas.CpcFold
namespace DS.Cpc

/-- the matrix `m` (2^lgK rows) holds exactly the coupons `ys`, which are beyond SPARSE -/
structure MInv (lgK : Nat) (m : List Nat) (ys : List Nat) : Prop where
  len : m.length = 2^lgK
  bits : ∀ r c, r < 2^lgK → c < 64 → ((m.getD r 0).testBit c = true ↔ r * 64 + c ∈ ys)
  high : ∀ r c, r < 2^lgK → 64 ≤ c → (m.getD r 0).testBit c = false
  dense : 3 * 2^lgK ≤ 32 * (distinct ys).length

/-- bit-level content of a matrix (without the density clause) -/
structure MBits (k : Nat) (m : List Nat) (ys : List Nat) : Prop where
  len : m.length = k
  bits : ∀ r c, r < k → c < 64 → ((m.getD r 0).testBit c = true ↔ r * 64 + c ∈ ys)
  high : ∀ r c, r < k → 64 ≤ c → (m.getD r 0).testBit c = false

theorem testBit_foldl_or_mod (l : List Nat) (k r c : Nat) (hc : c < 64) (b : Nat) :
    (l.foldl (fun m rc => if (rc / 64) % k = r then m ||| 2^(rc % 64) else m) b).testBit c
      = (b.testBit c || l.any (fun rc => decide ((rc / 64) % k = r) && decide (rc % 64 = c))) := by
  induction l generalizing b with
  | nil => simp
  | cons x t ih =>
    simp only [List.foldl_cons, List.any_cons]
    rw [ih]
    by_cases hx : (x / 64) % k = r
    · simp only [hx, if_true, Nat.testBit_or, Nat.testBit_two_pow, decide_true, Bool.true_and, Bool.or_assoc]
    · simp [hx]

theorem testBit_foldl_or_high (l : List Nat) (k r c : Nat) (hc : 64 ≤ c) (b : Nat) (hb : b.testBit c = false) :
    (l.foldl (fun m rc => if (rc / 64) % k = r then m ||| 2^(rc % 64) else m) b).testBit c = false := by
  induction l generalizing b with
  | nil => simpa using hb
  | cons x t ih =>
    simp only [List.foldl_cons]
    apply ih
    split
    · have : x % 64 ≠ c := by omega
      simp [Nat.testBit_or, Nat.testBit_two_pow, hb, this]
    · exact hb

theorem testBit_foldl_rows (f : Nat → Nat) (n k r c : Nat) (b : Nat) :
    ((List.range n).foldl (fun a i => if i % k = r then a ||| f i else a) b).testBit c
      = (b.testBit c || (List.range n).any (fun i => decide (i % k = r) && (f i).testBit c)) := by
  induction n generalizing b with
  | zero => simp
  | succ n ih =>
    rw [List.range_succ, List.foldl_append, List.any_append]
    simp only [List.foldl_cons, List.foldl_nil, List.any_cons, List.any_nil, Bool.or_false]
    by_cases hx : n % k = r
    · simp only [hx, if_true, Nat.testBit_or, ih, decide_true, Bool.true_and, Bool.or_assoc]
    · simp only [hx, if_false, ih, decide_false, Bool.false_and, Bool.or_false]

/-- `or_table_into_matrix` adds the folded table entries -/
theorem mbits_orTable (lgK : Nat) (m : List Nat) (ys : List Nat) (table : List Nat) (h : MBits (2^lgK) m ys) :
    MBits (2^lgK) (orTableIntoMatrix (2^lgK) m table) (ys ++ table.map (foldRc lgK)) := by
  refine ⟨by simp [orTableIntoMatrix], ?_, ?_⟩
  · intro r c hr hc
    unfold orTableIntoMatrix
    rw [getD_map_range _ _ _ _ hr, testBit_foldl_or_mod _ _ r c hc, getD_toArray, List.mem_append, Bool.or_eq_true,
      h.bits r c hr hc, mem_map_foldRc lgK table r c hc, List.any_eq_true]
    simp only [Bool.and_eq_true, decide_eq_true_eq]
  · intro r c hr hc
    unfold orTableIntoMatrix
    rw [getD_map_range _ _ _ _ hr]
    apply testBit_foldl_or_high _ _ _ _ hc
    rw [getD_toArray]; exact h.high r c hr hc

/-- `dst[i mod k] |= f i`: adds the folded codes of the source rows -/
theorem mbits_orRows (lgK : Nat) (m : List Nat) (ys xs : List Nat) (f : Nat → Nat) (srcK : Nat) (h : MBits (2^lgK) m ys)
    (hv : ∀ x ∈ xs, x < 64 * srcK)
    (hf : ∀ i c, i < srcK → c < 64 → ((f i).testBit c = true ↔ i * 64 + c ∈ xs))
    (hfh : ∀ i c, i < srcK → 64 ≤ c → (f i).testBit c = false) :
    MBits (2^lgK) (orRowsInto (2^lgK) m f srcK) (ys ++ xs.map (foldRc lgK)) := by
  refine ⟨by simp [orRowsInto], ?_, ?_⟩
  · intro r c hr hc
    unfold orRowsInto
    rw [getD_map_range _ _ _ _ hr, testBit_foldl_rows, getD_toArray, List.mem_append, Bool.or_eq_true,
      h.bits r c hr hc, mem_map_foldRc lgK xs r c hc, List.any_eq_true]
    apply or_congr Iff.rfl
    constructor
    · rintro ⟨i, hi, hp⟩
      rw [List.mem_range] at hi
      simp only [Bool.and_eq_true, decide_eq_true_eq] at hp
      refine ⟨i * 64 + c, (hf i c hi hc).1 hp.2, ?_, ?_⟩
      · rw [rc_div i c hc]; exact hp.1
      · exact rc_mod i c hc
    · rintro ⟨x, hx, h1, h2⟩
      have hxv := hv x hx
      refine ⟨x / 64, List.mem_range.2 (by omega), ?_⟩
      simp only [Bool.and_eq_true, decide_eq_true_eq]
      refine ⟨h1, (hf (x / 64) c (by omega) hc).2 ?_⟩
      have : x / 64 * 64 + c = x := by omega
      rw [this]; exact hx
  · intro r c hr hc
    unfold orRowsInto
    rw [getD_map_range _ _ _ _ hr, testBit_foldl_rows, getD_toArray, h.high r c hr hc, Bool.false_or, List.any_eq_false]
    intro i hi
    rw [List.mem_range] at hi
    simp [hfh i c hi hc]

/-- `build_bit_matrix` of a valid sketch -/
theorem mbits_buildBitMatrix (s : Sketch) (xs : List Nat) (h : Inv s xs) : MBits (2^s.lgK) (buildBitMatrix s) xs := by
  refine ⟨by simp [buildBitMatrix], ?_, ?_⟩
  · intro r c hr hc
    rw [buildBitMatrix_getD s r hr, testBit_rowPattern s h.rep r c hc]; exact h.bits r c hr hc
  · intro r c hr hc
    rw [buildBitMatrix_getD s r hr]; exact rowPattern_high s h.rep r c hc

theorem mbits_congr (k : Nat) (m : List Nat) (ys ys' : List Nat) (h : MBits k m ys) (he : ∀ a, a ∈ ys ↔ a ∈ ys') :
    MBits k m ys' :=
  ⟨h.len, fun r c hr hc => by rw [h.bits r c hr hc, he], h.high⟩

theorem mbits_zero (k : Nat) : MBits k (List.replicate k 0) [] := by
  refine ⟨by simp, ?_, ?_⟩
  · intro r c hr _
    simp [List.getD_eq_getElem?_getD, List.getElem?_replicate, hr]
  · intro r c hr _
    simp [List.getD_eq_getElem?_getD, List.getElem?_replicate, hr]

/-- the number of set bits of a matrix = the number of distinct coupons it holds -/
theorem popcount_of_mbits (k : Nat) (m : List Nat) (ys : List Nat) (h : MBits k m ys) (hv : ∀ y ∈ ys, y < 64 * k) :
    (m.map popcount64).sum = (distinct ys).length := by
  have e1 := countP_mem_eq_distinct ys (64 * k) hv
  have e2 := countP_cells (fun rc => decide (rc ∈ ys)) k
  rw [← e1, e2]
  have hm : m = (List.range k).map (fun r => m.getD r 0) := by
    apply List.ext_getElem
    · simp [h.len]
    · intro i h1 h2
      simp [List.getD_eq_getElem?_getD, List.getElem?_eq_getElem h1]
  rw [hm, List.map_map]
  apply congrArg List.sum
  apply List.map_congr_left
  intro r hr
  rw [List.mem_range] at hr
  show popcountN 64 (m.getD r 0) = _
  rw [popcountN_eq]
  apply List.countP_congr
  intro c hc
  rw [List.mem_range] at hc
  have := h.bits r c hr hc
  simp only [decide_eq_true_eq]; exact this

end DS.Cpc

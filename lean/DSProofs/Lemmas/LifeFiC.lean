/- C19 / FI part C: tables under relational cell updates, key sources, the probe loop and `adjust_or_insert` on a
   table that does not grow. -/
import DSProofs.Lemmas.LifeFiB
namespace DS.Life.Fi
open DS.Life

/-! ### tables under relational updates -/

theorem Upd.sameBut {T : List Nat} {h h' : Heap} {b i : Nat} {c' : Cell} (u : Upd h h' b i c') (hb : b ∈ T) :
    SameBut T h h' :=
  ⟨u.next, u.ids, fun x hx => u.out x (fun e => hx (by rw [e]; exact hb))⟩

theorem Tbl.upd {u : Bool} {E E' : List Nat} {h h' : Heap} {k v s n b i : Nat} {c' : Cell}
    (T : Tbl u E h k v s n) (up : Upd h h' b i c') (hv : b = v → c'.st = .raw) (hs : b = s → c'.st = .raw)
    (hE : ∀ j, j ∈ E → j ∈ E') (hi : b = k ∨ b = s → i ∈ E') : Tbl u E' h' k v s n where
  ck := up.hasCells T.ck
  cv := up.hasCells T.cv
  cs := up.hasCells T.cs
  kv := T.kv
  ks := T.ks
  vs := T.vs
  ltk := by rw [up.next]; exact T.ltk
  ltv := by rw [up.next]; exact T.ltv
  lts := by rw [up.next]; exact T.lts
  rawv := fun j => by
    by_cases hne : v = b ∧ j = i
    · obtain ⟨rfl, rfl⟩ := hne
      rw [up.stAt_eq]; exact hv rfl
    · rw [up.stAt_ne hne]; exact T.rawv j
  raws := fun j => by
    by_cases hne : s = b ∧ j = i
    · obtain ⟨rfl, rfl⟩ := hne
      rw [up.stAt_eq]; exact hs rfl
    · rw [up.stAt_ne hne]; exact T.raws j
  slot := fun j hj hx => by
    have hjE : j ∉ E := fun hm => hx (hE j hm)
    have h1 : ¬ (s = b ∧ j = i) := fun hh => hx (hh.2 ▸ hi (Or.inr hh.1.symm))
    have h2 : ¬ (k = b ∧ j = i) := fun hh => hx (hh.2 ▸ hi (Or.inl hh.1.symm))
    exact (SlotOK_congr (up.wordAt_ne h1) (up.stAt_ne h2)).2 (T.slot j hj hjE)

/-- a word of the values array -/
theorem Tbl.updValue {u : Bool} {E : List Nat} {h h' : Heap} {k v s n i : Nat} {c : Cell} {w : Nat}
    (T : Tbl u E h k v s n) (hc : h.cell? v i = some c) (up : Upd h h' v i { c with word := w }) : Tbl u E h' k v s n := by
  refine T.upd up (fun _ => ?_) (fun e => (T.vs e).elim) (fun _ hj => hj) (fun e => ?_)
  · have := T.rawv i; rw [stAt_of hc] at this; exact this
  · rcases e with e | e
    · exact (T.kv e.symm).elim
    · exact (T.vs e).elim

/-- an update of a block that is none of the three arrays -/
theorem Tbl.updOther {u : Bool} {E : List Nat} {h h' : Heap} {k v s n b i : Nat} {c' : Cell}
    (T : Tbl u E h k v s n) (up : Upd h h' b i c') (hb : b ∉ [k, v, s]) : Tbl u E h' k v s n := by
  simp only [List.mem_cons, List.not_mem_nil, or_false, not_or] at hb
  exact T.upd up (fun e => (hb.2.1 e).elim) (fun e => (hb.2.2 e).elim) (fun _ hj => hj)
    (fun e => by rcases e with e | e; exact (hb.1 e).elim; exact (hb.2.2 e).elim)

theorem act_upd_ne {h h' : Heap} {b i s : Nat} {c' : Cell} (up : Upd h h' b i c') (hb : s ≠ b) : act h' s = act h s :=
  act_congr (up.out s hb)

theorem act_upd_word {h h' : Heap} {b i : Nat} {c c' : Cell} (up : Upd h h' b i c') (hc : h.cell? b i = some c)
    (hw : c'.word = c.word) (s : Nat) : act h' s = act h s := by
  funext j; simp only [act, up.wordAt_same hc hw]

theorem act_upd_s {h h' : Heap} {s i : Nat} {c' : Cell} (up : Upd h h' s i c') (j : Nat) :
    act h' s j = if j = i then decide (0 < c'.word) else act h s j := by
  unfold act
  by_cases hj : j = i
  · subst hj; rw [up.wordAt_eq]; simp
  · rw [up.wordAt_ne (fun hh => hj hh.2)]; simp [hj]

theorem cnt_upd_on {h h' : Heap} {s i n : Nat} {c c' : Cell} (up : Upd h h' s i c') (hc : h.cell? s i = some c) (hi : i < n)
    (h0 : c.word = 0) (h1 : 0 < c'.word) : cnt (act h' s) n = cnt (act h s) n + 1 := by
  apply cnt_set_true hi
  · simp [act, wordAt_of hc, h0]
  · rw [act_upd_s up, if_pos rfl]; simpa using h1
  · intro j hj; rw [act_upd_s up, if_neg hj]

theorem cnt_upd_off {h h' : Heap} {s i n : Nat} {c c' : Cell} (up : Upd h h' s i c') (hc : h.cell? s i = some c) (hi : i < n)
    (h0 : 0 < c.word) (h1 : c'.word = 0) : cnt (act h' s) n + 1 = cnt (act h s) n := by
  apply cnt_set_false hi
  · simpa [act, wordAt_of hc] using h0
  · rw [act_upd_s up, if_pos rfl]; simp [h1]
  · intro j hj; rw [act_upd_s up, if_neg hj]

/-! ### the source cell of a moved key -/

/-- block `b` is as before except that cell `i` may have become moved-from -/
def MovedAt (h h' : Heap) (b i : Nat) : Prop :=
  h'.count? b = h.count? b ∧ (∀ j, wordAt h' b j = wordAt h b j) ∧ (∀ j, j ≠ i → stAt h' b j = stAt h b j) ∧
    (stAt h' b i = stAt h b i ∨ stAt h' b i = .moved)

theorem MovedAt.of_eq {h h' : Heap} {b : Nat} (i : Nat) (e : h'.find? b = h.find? b) : MovedAt h h' b i :=
  ⟨count?_congr e, fun j => wordAt_congr e j, fun j _ => stAt_congr e j, Or.inl (stAt_congr e i)⟩

theorem MovedAt.trans {h1 h2 h3 : Heap} {b i : Nat} (a : MovedAt h1 h2 b i) (c : MovedAt h2 h3 b i) : MovedAt h1 h3 b i := by
  refine ⟨c.1.trans a.1, fun j => (c.2.1 j).trans (a.2.1 j), fun j hj => (c.2.2.1 j hj).trans (a.2.2.1 j hj), ?_⟩
  rcases c.2.2.2 with e | e
  · rcases a.2.2.2 with e' | e'
    · exact Or.inl (e.trans e')
    · exact Or.inr (e.trans e')
  · exact Or.inr e

theorem MovedAt.of_upd {h h' : Heap} {b i : Nat} {c : Cell} (hc : h.cell? b i = some c)
    (up : Upd h h' b i { c with st := .moved }) : MovedAt h h' b i :=
  ⟨up.count, fun j => up.wordAt_same hc rfl b j, fun _ hj => up.stAt_ne (fun hh => hj hh.2), Or.inr up.stAt_eq⟩

def srcBlk : KeySrc → List Nat
  | .moveOf b _ => [b]
  | _ => []

/-- the key's value -/
def SrcVal (h : Heap) : KeySrc → Nat → Prop
  | .ext v, x => x = v
  | .copyOf b i, x => stAt h b i = .live x
  | .moveOf b i, x => stAt h b i = .live x

/-- the key is a live object outside the map's own arrays -/
def SrcOK (h : Heap) (own : List Nat) : KeySrc → Prop
  | .ext _ => True
  | .copyOf b i => b ∉ own ∧ ∃ x, stAt h b i = .live x
  | .moveOf b i => b ∉ own ∧ ∃ x, stAt h b i = .live x

def SrcPost (h h' : Heap) : KeySrc → Prop
  | .moveOf b i => MovedAt h h' b i
  | _ => True

/-- what `std::forward<FwdK>(key)` consumed by a constructor does to the heap -/
def SrcStep (h hm : Heap) : KeySrc → Prop
  | .moveOf b i => ∃ cb, h.cell? b i = some cb ∧ Upd h hm b i { cb with st := .moved }
  | _ => hm = h

theorem SrcOK.val {h : Heap} {own : List Nat} {src : KeySrc} (hs : SrcOK h own src) : ∃ x, SrcVal h src x := by
  cases src with
  | ext v => exact ⟨v, rfl⟩
  | copyOf b i => exact hs.2
  | moveOf b i => exact hs.2

theorem SrcOK.notOwn {h : Heap} {own : List Nat} {src : KeySrc} (hs : SrcOK h own src) : ∀ b, b ∈ srcBlk src → b ∉ own := by
  cases src with
  | ext v => intro b hb; cases hb
  | copyOf b i => intro b hb; cases hb
  | moveOf b i =>
    intro b' hb
    simp only [srcBlk, List.mem_cons, List.not_mem_nil, or_false] at hb
    rw [hb]; exact hs.1

theorem SrcOK.congr {h h' : Heap} {own : List Nat} {src : KeySrc} (hs : SrcOK h own src)
    (e : ∀ b, b ∉ own → h'.find? b = h.find? b) : SrcOK h' own src := by
  cases src with
  | ext v => trivial
  | copyOf b i => exact ⟨hs.1, by simpa only [stAt_congr (e b hs.1)] using hs.2⟩
  | moveOf b i => exact ⟨hs.1, by simpa only [stAt_congr (e b hs.1)] using hs.2⟩

theorem SrcVal.congr {h h' : Heap} {own : List Nat} {src : KeySrc} {x : Nat} (hs : SrcOK h own src) (hv : SrcVal h src x)
    (e : ∀ b, b ∉ own → h'.find? b = h.find? b) : SrcVal h' src x := by
  cases src with
  | ext v => exact hv
  | copyOf b i => simpa only [SrcVal, stAt_congr (e b hs.1)] using hv
  | moveOf b i => simpa only [SrcVal, stAt_congr (e b hs.1)] using hv

theorem keyValue_ok {h : Heap} {src : KeySrc} {x : Nat} (hv : SrcVal h src x) : keyValue src h = .ok (x, h) := by
  cases src with
  | ext v => cases hv; rfl
  | copyOf b i =>
    obtain ⟨c, ec, est, _⟩ := cell_of_stAt_ne_raw (h := h) (b := b) (i := i) (by rw [show stAt h b i = .live x from hv]; simp)
    exact read_ok ec (by rw [est]; exact hv)
  | moveOf b i =>
    obtain ⟨c, ec, est, _⟩ := cell_of_stAt_ne_raw (h := h) (b := b) (i := i) (by rw [show stAt h b i = .live x from hv]; simp)
    exact read_ok ec (by rw [est]; exact hv)

theorem SrcStep.tbl {u : Bool} {E : List Nat} {h hm : Heap} {k v s n : Nat} {src : KeySrc} (st : SrcStep h hm src)
    (hb : ∀ b, b ∈ srcBlk src → b ∉ [k, v, s]) (T : Tbl u E h k v s n) : Tbl u E hm k v s n := by
  cases src with
  | ext v => cases st; exact T
  | copyOf b i => cases st; exact T
  | moveOf b i =>
    obtain ⟨cb, _, up⟩ := st
    exact T.updOther up (hb b (by simp [srcBlk]))

theorem SrcStep.find? {h hm : Heap} {src : KeySrc} (st : SrcStep h hm src) {b : Nat} (hb : b ∉ srcBlk src) :
    hm.find? b = h.find? b := by
  cases src with
  | ext v => cases st; rfl
  | copyOf b i => cases st; rfl
  | moveOf b' i =>
    obtain ⟨cb, _, up⟩ := st
    exact up.out b (by simpa [srcBlk] using hb)

theorem SrcStep.sameBut {h hm : Heap} {src : KeySrc} (st : SrcStep h hm src) : SameBut (srcBlk src) h hm := by
  cases src with
  | ext v => cases st; exact SameBut.refl _ _
  | copyOf b i => cases st; exact SameBut.refl _ _
  | moveOf b i =>
    obtain ⟨cb, _, up⟩ := st
    exact up.sameBut (by simp [srcBlk])

theorem SrcStep.post {h hm : Heap} {src : KeySrc} (st : SrcStep h hm src) : SrcPost h hm src := by
  cases src with
  | ext v => trivial
  | copyOf b i => trivial
  | moveOf b i =>
    obtain ⟨cb, hc, up⟩ := st
    exact MovedAt.of_upd hc up

theorem SrcPost.of_find? {h h' : Heap} {src : KeySrc} (e : ∀ b, b ∈ srcBlk src → h'.find? b = h.find? b) :
    SrcPost h h' src := by
  cases src with
  | ext v => trivial
  | copyOf b i => trivial
  | moveOf b i => exact MovedAt.of_eq i (e b (by simp [srcBlk]))

theorem SrcPost.trans {h1 h2 h3 : Heap} {src : KeySrc} (a : SrcPost h1 h2 src) (c : SrcPost h2 h3 src) : SrcPost h1 h3 src := by
  cases src with
  | ext v => trivial
  | copyOf b i => trivial
  | moveOf b i => exact MovedAt.trans a c

/-- `new (&keys_[index]) K(std::forward<FwdK>(key))` -/
theorem placeKey_step {β} {S} {h : Heap} {k idx : Nat} {src : KeySrc} {x : Nat} {c : Cell} {f : Unit → M β}
    {Q : β → Heap → Prop} (hval : SrcVal h src x) (hne : ∀ b, b ∈ srcBlk src → b ≠ k) (hc : h.cell? k idx = some c)
    (hr : c.st = .raw) (hSk : S k = true) (hSb : ∀ b, b ∈ srcBlk src → S b = true)
    (s : ∀ hm h', SrcStep h hm src → Upd hm h' k idx { c with st := .live x } → SafeF S h' (f () h') Q) :
    SafeF S h ((placeKey k idx src >>= f) h) Q := by
  cases src with
  | ext v =>
    cases hval
    exact stepR_construct _ hc hr hSk (fun h' up => s h h' rfl up)
  | copyOf b i =>
    obtain ⟨cb, ecb, est, _⟩ := cell_of_stAt_ne_raw (h := h) (b := b) (i := i) (by rw [show stAt h b i = .live x from hval]; simp)
    show SafeF S h ((copyConstruct b i k idx >>= f) h) Q
    rw [copyConstruct_bind]
    apply step_read ecb (by rw [est]; exact hval)
    exact stepR_construct _ hc hr hSk (fun h' up => s h h' rfl up)
  | moveOf b i =>
    obtain ⟨cb, ecb, est, _⟩ := cell_of_stAt_ne_raw (h := h) (b := b) (i := i) (by rw [show stAt h b i = .live x from hval]; simp)
    show SafeF S h ((moveConstruct b i k idx >>= f) h) Q
    rw [moveConstruct_bind]
    apply stepR_moveFrom ecb (by rw [est]; exact hval) (hSb b (by simp [srcBlk]))
    intro hm up
    have hkb : k ≠ b := fun e => hne b (by simp [srcBlk]) e.symm
    have hc' : hm.cell? k idx = some c := by rw [up.cell_ne (fun hh => hkb hh.1)]; exact hc
    exact stepR_construct _ hc' hr hSk (fun h' up' => s hm h' ⟨cb, ecb, up⟩ up')

/-! ### `internal_adjust_or_insert`: the probe loop -/

theorem probeLoop_succ (P : Params) (k v s size kv value f index drift : Nat) :
    probeLoop P k v s size kv value (f + 1) index drift = (do
      let st ← readWord s index
      if st > 0 then
        let kk ← read k index
        if kk = kv then
          let w ← readWord v index
          writeWord v index (w + value)
          pure (index, false, drift)
        else if drift + 1 ≥ P.driftLimit then throwExc "drift limit reached"
        else probeLoop P k v s size kv value f ((index + 1) % size) (drift + 1)
      else pure (index, true, drift)) := rfl

theorem probeLoop_spec (P : Params) (S : Nat → Bool) (k v s n kv value : Nat) (hSv : S v = true) (h : Heap)
    (T : Tbl true [] h k v s n) :
    ∀ f index drift, index < n → 1 ≤ drift →
      SafeF S h (probeLoop P k v s n kv value f index drift h)
        (fun r h' => r.1 < n ∧ 1 ≤ r.2.2 ∧ SameBut [v] h h' ∧ Tbl true [] h' k v s n ∧
          (r.2.1 = true → h' = h ∧ wordAt h s r.1 = 0)) := by
  intro f
  induction f with
  | zero => intro index drift _ _; exact SafeF.exc _
  | succ f ih =>
    intro index drift hi hd
    rw [probeLoop_succ]
    obtain ⟨cs, ecs, ews, _⟩ := T.cs.cell_st hi
    apply step_readWord ecs
    by_cases hw : cs.word > 0
    · rw [if_pos hw]
      obtain ⟨x, hx⟩ := (T.slot index hi (by simp)).live_of_pos (by omega)
      obtain ⟨ck, eck, estk, _⟩ := cell_of_stAt_ne_raw (h := h) (b := k) (i := index) (by rw [hx]; simp)
      apply step_read eck (by rw [estk, hx])
      by_cases hkk : x = kv
      · rw [if_pos hkk]
        obtain ⟨cv, ecv⟩ := T.cv.cell hi
        apply step_readWord ecv
        apply stepR_writeWord _ ecv hSv
        intro h' up
        apply SafeF.pure
        exact ⟨hi, hd, up.sameBut (by simp), T.updValue ecv up, fun hh => by cases hh⟩
      · rw [if_neg hkk]
        by_cases hdl : drift + 1 ≥ P.driftLimit
        · rw [if_pos hdl]; exact SafeF.exc _
        · rw [if_neg hdl]
          exact ih _ _ (Nat.mod_lt _ (by omega)) (by omega)
    · rw [if_neg hw]
      apply SafeF.pure
      exact ⟨hi, hd, SameBut.refl _ _, T, fun _ => ⟨rfl, by show wordAt h s index = 0; omega⟩⟩

/-! ### `adjust_or_insert` without growth -/

theorem noGrow_spec (P : Params) (n0 : Nat) (S : Nat → Bool) (m : Map) (src : KeySrc) (value : Nat)
    (hS : ∀ b, b ∈ owned m ++ srcBlk src → S b = true) (h0 : Heap) :
    TripleS n0 S (fun h => h = h0 ∧ Usable P h m ∧ SrcOK h (owned m) src)
      (adjustOrInsertNoGrow P m src value)
      (fun r h' => Usable P h' r.1 ∧ (∃ na', r.1 = { m with numActive := na' }) ∧
        SameBut (owned m ++ srcBlk src) h0 h' ∧ SrcPost h0 h' src) := by
  intro h hn ⟨he, hu, hsrc⟩
  subst he
  obtain ⟨k, v, s, hk, hv, hs, ho, T, hc⟩ := Usable.ptrs hu
  rw [ho] at hS hsrc ⊢
  have hlg := hu.lg
  have hcap0 := hu.cap
  clear hu
  obtain ⟨lgCur, lgMax, na, keys, values, states⟩ := m
  simp only at hk hv hs T hc hlg hcap0
  subst hk hv hs
  have hSk : S k = true := hS k (by simp)
  have hSv : S v = true := hS v (by simp)
  have hSs : S s = true := hS s (by simp)
  have hsrcNot := hsrc.notOwn
  have hbk : ∀ b, b ∈ srcBlk src → b ≠ k := fun b hb e => hsrcNot b hb (by simp [e])
  have hbv : ∀ b, b ∈ srcBlk src → b ≠ v := fun b hb e => hsrcNot b hb (by simp [e])
  have hbs : ∀ b, b ∈ srcBlk src → b ≠ s := fun b hb e => hsrcNot b hb (by simp [e])
  have hpos : 0 < 2 ^ lgCur := Nat.pow_pos (by omega)
  unfold adjustOrInsertNoGrow
  apply step_deref
  apply step_deref
  apply step_deref
  obtain ⟨x, hx⟩ := hsrc.val
  apply SafeF.bind_ok (keyValue_ok hx) (Frame.refl _ _)
  apply SafeF.bind_safe (probeLoop_spec P S k v s (2 ^ lgCur) x value hSv h T (2 ^ lgCur) _ 1 (Nat.mod_lt _ hpos)
    (Nat.le_refl _))
  intro r h1 ⟨hr1, hr2, sb1, T1, hnew⟩ _
  by_cases hb : r.2.1 = true
  · rw [if_pos hb]
    obtain ⟨e1, hw0⟩ := hnew hb
    subst e1
    by_cases hcap : na > getCapacity P lgCur
    · rw [if_pos hcap]; exact SafeF.exc _
    · rw [if_neg hcap]
      -- values_[index] = value
      obtain ⟨cv, ecv⟩ := T.cv.cell hr1
      apply stepR_writeWord value ecv hSv
      intro h2 u2
      have T2 : Tbl true [] h2 k v s (2 ^ lgCur) := T.updValue ecv u2
      -- states_[index] = drift
      obtain ⟨cs, ecs, ews, ests⟩ := T2.cs.cell_st hr1
      have hcs0 : cs.word = 0 := by rw [ews, u2.wordAt_ne (fun hh => T.vs hh.1.symm)]; exact hw0
      apply stepR_writeWord r.2.2 ecs hSs
      intro h3 u3
      have T3 : Tbl true [r.1] h3 k v s (2 ^ lgCur) :=
        T2.upd u3 (fun e => (T.vs e.symm).elim) (fun _ => by rw [ests]; exact T2.raws _) (fun _ hj => by cases hj)
          (fun _ => by simp)
      -- new (&keys_[index]) K(std::forward<FwdK>(key))
      have hx3 : SrcVal h3 src x := by
        refine SrcVal.congr hsrc hx (fun b hb => ?_)
        simp only [List.mem_cons, List.not_mem_nil, or_false, not_or] at hb
        rw [u3.out b hb.2.2, u2.out b hb.2.1]
      obtain ⟨ck, eck, _, estk⟩ := T3.ck.cell_st hr1
      have hraw : ck.st = .raw := by
        rw [estk, u3.stAt_ne (fun hh => T.ks hh.1), u2.stAt_ne (fun hh => T.kv hh.1)]
        exact (T.slot r.1 hr1 (by simp)).raw_of_zero hw0
      apply placeKey_step hx3 hbk eck hraw hSk (fun b hb => hS b (by simp [hb]))
      intro hm h4 hstep u4
      apply SafeF.pure
      have Tm : Tbl true [r.1] hm k v s (2 ^ lgCur) := hstep.tbl hsrcNot T3
      have T4 : Tbl true [r.1] h4 k v s (2 ^ lgCur) :=
        Tm.upd u4 (fun e => (T.kv e).elim) (fun e => (T.ks e).elim) (fun _ hj => hj) (fun _ => by simp)
      have es_m : hm.find? s = h3.find? s := hstep.find? (fun hb => hbs s hb rfl)
      have hword : wordAt h4 s r.1 = r.2.2 := by
        rw [u4.wordAt_ne (fun hh => T.ks hh.1.symm), wordAt_congr es_m, u3.wordAt_eq]
      have T5 : Tbl true [] h4 k v s (2 ^ lgCur) := by
        refine T4.close (fun j hj _ => ?_)
        simp only [List.mem_cons, List.not_mem_nil, or_false] at hj
        subst hj
        exact SlotOK.active (x := x) (by rw [hword]; omega) (by rw [u4.stAt_eq])
      have hcnt : cnt (act h4 s) (2 ^ lgCur) = na + 1 := by
        rw [act_upd_ne u4 (fun e => T.ks e.symm), act_congr es_m, cnt_upd_on u3 ecs hr1 hcs0 hr2,
          act_upd_ne u2 (fun e => T.vs e.symm), hc]
      refine ⟨?_, ⟨_, rfl⟩, ?_, ?_⟩
      · exact InvG.mk_some (m := { lgCur, lgMax, numActive := na + 1, keys := some k, values := some v, states := some s })
          rfl rfl rfl hlg (by show na + 1 ≤ getCapacity P lgCur + 1; omega) T5 hcnt.symm
      · have a2 : SameBut ([k, v, s] ++ srcBlk src) h1 h2 := u2.sameBut (by simp)
        have a3 : SameBut ([k, v, s] ++ srcBlk src) h2 h3 := u3.sameBut (by simp)
        have am : SameBut ([k, v, s] ++ srcBlk src) h3 hm := hstep.sameBut.mono (fun b hb => by simp [hb])
        have a4 : SameBut ([k, v, s] ++ srcBlk src) hm h4 := u4.sameBut (by simp)
        exact ((a2.trans a3).trans am).trans a4
      · have p3 : SrcPost h1 h3 src := SrcPost.of_find? (fun b hb => by rw [u3.out b (hbs b hb), u2.out b (hbv b hb)])
        have p4 : SrcPost hm h4 src := SrcPost.of_find? (fun b hb => u4.out b (hbk b hb))
        exact (p3.trans hstep.post).trans p4
  · rw [if_neg hb]
    apply SafeF.pure
    have es : h1.find? s = h.find? s := sb1.out s (by simp; exact fun e => T.vs e.symm)
    refine ⟨?_, ⟨na, rfl⟩, sb1.mono (fun b hb => by simp at hb; simp [hb]), ?_⟩
    · exact InvG.mk_some (m := { lgCur, lgMax, numActive := na, keys := some k, values := some v, states := some s })
        rfl rfl rfl hlg hcap0 T1 (by rw [act_congr es]; exact hc)
    · exact SrcPost.of_find? (fun b hb => sb1.out b (by simp; exact hbv b hb))

end DS.Life.Fi

/-
Helper lemmas for the compaction mechanism (DSModel/Kll/Mech.lean): `cnt` / `wb` algebra, the effect of
`compactCore` and `mstep` on `wb`, level sizes, and the unfolding of `sumAll` into a sum over coin vectors.
The property theorems are in Props/C08_Mechanism.lean.  Core Lean only.
-/
import DSModel.Kll.Mech
import DSProofs.Lemmas.KllBasic
namespace DS.Mech
open DS DS.Kll DS.SortedView

variable {α : Type}

/-! ### cnt -/

theorem cnt_nil (p : α → Bool) : cnt p ([] : List α) = 0 := rfl

theorem cnt_cons (p : α → Bool) (x : α) (l : List α) :
    cnt p (x :: l) = (if p x then 1 else 0) + cnt p l := by
  unfold cnt
  rw [List.filter_cons]
  cases p x <;> simp only [if_true, if_false, Bool.false_eq_true, List.length_cons] <;> omega

theorem cnt_append (p : α → Bool) (a b : List α) : cnt p (a ++ b) = cnt p a + cnt p b := by
  unfold cnt; rw [List.filter_append, List.length_append]

theorem cnt_le_length (p : α → Bool) (l : List α) : cnt p l ≤ l.length := List.length_filter_le p l

theorem cnt_perm (p : α → Bool) {a b : List α} (h : a.Perm b) : cnt p a = cnt p b :=
  (h.filter p).length_eq

theorem cnt_mergeUp (lt : α → α → Bool) (p : α → Bool) (a b : List α) :
    cnt p (mergeUp lt a b) = cnt p a + cnt p b := mergeUp_filter lt p a b

theorem cnt_sortBy (lt : α → α → Bool) (p : α → Bool) (l : List α) : cnt p (sortBy lt l) = cnt p l :=
  sortBy_filter lt p l

theorem cnt_evens_add_odds (p : α → Bool) (l : List α) : cnt p (evens l) + cnt p (odds l) = cnt p l :=
  evens_filter_add_odds_filter p l

/-- the two possible halves together contain every item exactly once -/
theorem cnt_halfUpDown (p : α → Bool) (adj : List α) (up : Bool) :
    cnt p (halfUpDown adj up false) + cnt p (halfUpDown adj up true) = cnt p adj := by
  unfold halfUpDown cnt
  cases up
  · exact halveDown_filter p adj
  · exact halveUp_filter p adj

theorem cnt_leftover_add_adj (lt : α → α → Bool) (p : α → Bool) (srt : Bool) (cur : List α) :
    cnt p (leftoverOf cur) + cnt p (adjOf lt srt cur) = cnt p cur :=
  leftoverOf_filter_add_adjOf_filter lt p srt cur

theorem halfUpDown_sublist (adj : List α) (up c : Bool) : (halfUpDown adj up c).Sublist adj := by
  unfold halfUpDown
  cases up
  · exact halveDown_sublist adj c
  · exact halveUp_sublist adj c

theorem halfUpDown_length (adj : List α) (up c : Bool) (h : adj.length % 2 = 0) :
    (halfUpDown adj up c).length = adj.length / 2 := by
  unfold halfUpDown
  cases up
  · exact halveDown_length adj c h
  · exact halveUp_length adj c h

theorem sorted_halfUpDown {lt : α → α → Bool} {adj : List α} (up c : Bool) (h : Sorted lt adj) :
    Sorted lt (halfUpDown adj up c) :=
  Sorted.sublist (halfUpDown_sublist adj up c) h

/-! ### wb -/

theorem wb_append (p : α → Bool) : ∀ (h : Nat) (a b : List (List α)),
    wb p h (a ++ b) = wb p h a + wb p (h + a.length) b
  | h, [], b => by simp only [List.nil_append, wb, Nat.zero_add, List.length_nil, Nat.add_zero]
  | h, l :: t, b => by
    have := wb_append p (h + 1) t b
    simp only [List.cons_append, wb, List.length_cons, this]
    rw [show h + 1 + t.length = h + (t.length + 1) by omega]; omega

theorem wb_append_nil (p : α → Bool) (h : Nat) (L : List (List α)) : wb p h (L ++ [[]]) = wb p h L := by
  rw [wb_append]
  simp only [wb, cnt_nil, Nat.mul_zero, Nat.add_zero]

theorem wb_set (p : α → Bool) : ∀ (h : Nat) (L : List (List α)) (i : Nat) (x : List α), i < L.length →
    wb p h (L.set i x) + 2 ^ (h + i) * cnt p (L.getD i []) = wb p h L + 2 ^ (h + i) * cnt p x
  | _, [], _, _, hi => absurd hi (Nat.not_lt_zero _)
  | h, l :: t, 0, x, _ => by
    simp only [List.set_cons_zero, wb, List.getD_cons_zero, Nat.add_zero]; omega
  | h, l :: t, i + 1, x, hi => by
    have := wb_set p (h + 1) t i x (Nat.lt_of_succ_lt_succ hi)
    rw [show h + 1 + i = h + (i + 1) by omega] at this
    simp only [List.set_cons_succ, wb, List.getD_cons_succ]; omega

theorem cnt_true : ∀ l : List α, cnt (fun _ => true) l = l.length
  | [] => rfl
  | x :: t => by rw [cnt_cons, cnt_true t]; simp only [if_true, List.length_cons]; omega

/-- `wb` with the always-true predicate is the total weight -/
theorem wb_true_eq_weightSum : ∀ (h : Nat) (L : List (List α)), wb (fun _ => true) h L = weightSum h L
  | _, [] => rfl
  | h, l :: t => by
    simp only [wb, weightSum, wb_true_eq_weightSum (h + 1) t, cnt_true]

theorem wb_le_weightSum (p : α → Bool) : ∀ (h : Nat) (L : List (List α)), wb p h L ≤ weightSum h L
  | _, [] => Nat.le_refl _
  | h, l :: t => by
    have h1 := wb_le_weightSum p (h + 1) t
    have h2 := Nat.mul_le_mul_left (2 ^ h) (cnt_le_length p l)
    simp only [wb, weightSum]; omega

/-- putting an item into level 0 -/
theorem wb_push (p : α → Bool) (h : Nat) (x : α) (L : List (List α)) (hL : 0 < L.length) :
    wb p h ((x :: L.headD []) :: L.tail) = wb p h L + 2 ^ h * (if p x then 1 else 0) := by
  cases L with
  | nil => exact absurd hL (Nat.lt_irrefl 0)
  | cons l t =>
    simp only [List.headD_cons, List.tail_cons, wb, cnt_cons, Nat.mul_add]; omega

theorem push_length (x : α) (L : List (List α)) (hL : 0 < L.length) :
    ((x :: L.headD []) :: L.tail).length = L.length := by
  cases L with
  | nil => exact absurd hL (Nat.lt_irrefl 0)
  | cons l t => rfl

/-! ### compactCore -/

/-- the level list with an empty top level added when the top level is compacted -/
def extTop (L : List (List α)) (i : Nat) : List (List α) := if i + 1 == L.length then L ++ [[]] else L

theorem ext_length (L : List (List α)) (i : Nat) :
    (extTop L i).length = if i + 1 == L.length then L.length + 1 else L.length := by
  unfold extTop
  split
  · simp only [List.length_append, List.length_cons, List.length_nil]
  · rfl

theorem ext_lt (L : List (List α)) (i : Nat) (hi : i < L.length) : i + 1 < (extTop L i).length := by
  rw [ext_length]
  by_cases h : i + 1 = L.length
  · simp only [h, beq_self_eq_true, if_true]; omega
  · have hb : (i + 1 == L.length) = false := by simp only [beq_eq_false_iff_ne, ne_eq, h, not_false_eq_true]
    simp only [hb, Bool.false_eq_true, if_false]; omega

theorem getD_ext (L : List (List α)) (i j : Nat) : (extTop L i).getD j [] = L.getD j [] := by
  unfold extTop
  split
  · exact getD_append_singleton_default [] L j
  · rfl

theorem wb_ext (p : α → Bool) (h : Nat) (L : List (List α)) (i : Nat) : wb p h (extTop L i) = wb p h L := by
  unfold extTop
  split
  · exact wb_append_nil p h L
  · rfl

theorem weightSum_ext (h : Nat) (L : List (List α)) (i : Nat) : weightSum h (extTop L i) = weightSum h L := by
  unfold extTop
  split
  · exact weightSum_append_nil h L
  · rfl

theorem compactCore_eq (lt : α → α → Bool) (L : List (List α)) (i : Nat) (srt up c : Bool) :
    compactCore lt L i srt up c
      = ((extTop L i).set i (leftoverOf (L.getD i []))).set (i + 1)
          (mergeUp lt (halfUpDown (adjOf lt srt (L.getD i [])) up c) (L.getD (i + 1) [])) := by
  have h1 := getD_ext L i i
  have h2 := getD_ext L i (i + 1)
  unfold extTop at h1 h2 ⊢
  unfold compactCore
  simp only [h1, h2]

theorem compactCore_length (lt : α → α → Bool) (L : List (List α)) (i : Nat) (srt up c : Bool) :
    (compactCore lt L i srt up c).length = lenAfter L.length (MOp.compact i srt up : MOp α) := by
  rw [compactCore_eq]
  simp only [List.length_set, ext_length, lenAfter]

/-- level sizes after a compaction, in closed form (no coin on the right-hand side) -/
theorem compactCore_map_length (lt : α → α → Bool) (L : List (List α)) (i : Nat) (srt up c : Bool) :
    (compactCore lt L i srt up c).map List.length
      = (((extTop L i).map List.length).set i ((L.getD i []).length % 2)).set (i + 1)
          ((L.getD i []).length / 2 + (L.getD (i + 1) []).length) := by
  rw [compactCore_eq, List.map_set, List.map_set, leftoverOf_length, mergeUp_length,
    halfUpDown_length _ _ _ (adjOf_length_even lt srt _), adjOf_length]
  congr 2
  omega

/-- the two outcomes of a compaction together carry twice the weight below (any starting height) -/
theorem compactCore_balanced (lt : α → α → Bool) (p : α → Bool) (h : Nat) (L : List (List α)) (i : Nat)
    (srt up : Bool) (hi : i < L.length) :
    wb p h (compactCore lt L i srt up false) + wb p h (compactCore lt L i srt up true) = 2 * wb p h L := by
  rw [compactCore_eq, compactCore_eq]
  have hlen : i + 1 < (extTop L i).length := ext_lt L i hi
  have hE := wb_ext p h L i
  have h1 := wb_set p h (extTop L i) i (leftoverOf (L.getD i [])) (by omega)
  rw [getD_ext] at h1
  have h2 := fun c => wb_set p h ((extTop L i).set i (leftoverOf (L.getD i []))) (i + 1)
    (mergeUp lt (halfUpDown (adjOf lt srt (L.getD i [])) up c) (L.getD (i + 1) []))
    (by simp only [List.length_set]; exact hlen)
  have h2f := h2 false
  have h2t := h2 true
  rw [getD_set_ne _ _ _ _ _ (by omega), getD_ext, cnt_mergeUp] at h2f h2t
  have hh := cnt_halfUpDown p (adjOf lt srt (L.getD i [])) up
  have hl := cnt_leftover_add_adj lt p srt (L.getD i [])
  have e : 2 ^ (h + (i + 1)) = 2 * 2 ^ (h + i) := by
    rw [← Nat.add_assoc, Nat.pow_succ, Nat.mul_comm]
  rw [e] at h2f h2t
  rw [hE] at h1
  generalize wb p h ((((extTop L i).set i (leftoverOf (L.getD i []))).set (i + 1)
    (mergeUp lt (halfUpDown (adjOf lt srt (L.getD i [])) up false) (L.getD (i + 1) [])))) = Cf at h2f ⊢
  generalize wb p h ((((extTop L i).set i (leftoverOf (L.getD i []))).set (i + 1)
    (mergeUp lt (halfUpDown (adjOf lt srt (L.getD i [])) up true) (L.getD (i + 1) [])))) = Ct at h2t ⊢
  generalize wb p h ((extTop L i).set i (leftoverOf (L.getD i []))) = S at h1 h2f h2t
  generalize wb p h L = W at h1 ⊢
  generalize cnt p (halfUpDown (adjOf lt srt (L.getD i [])) up false) = hf at hh h2f
  generalize cnt p (halfUpDown (adjOf lt srt (L.getD i [])) up true) = ht at hh h2t
  generalize cnt p (L.getD (i + 1) []) = A at h2f h2t
  generalize cnt p (leftoverOf (L.getD i [])) = lf at hl h1
  generalize cnt p (adjOf lt srt (L.getD i [])) = adj at hl hh
  generalize cnt p (L.getD i []) = cur at hl h1
  generalize 2 ^ (h + i) = w at h1 h2f h2t
  subst hl
  subst hh
  simp only [Nat.mul_add, Nat.mul_assoc] at h1 h2f h2t
  omega

/-- a compaction preserves the total weight, for either coin -/
theorem weightSum_compactCore (lt : α → α → Bool) (h : Nat) (L : List (List α)) (i : Nat)
    (srt up c : Bool) (hi : i < L.length) :
    weightSum h (compactCore lt L i srt up c) = weightSum h L := by
  rw [compactCore_eq]
  have hlen : i + 1 < (extTop L i).length := ext_lt L i hi
  have h1 := weightSum_set h (extTop L i) i (leftoverOf (L.getD i [])) (by omega)
  have h2 := weightSum_set h ((extTop L i).set i (leftoverOf (L.getD i []))) (i + 1)
    (mergeUp lt (halfUpDown (adjOf lt srt (L.getD i [])) up c) (L.getD (i + 1) []))
    (by simp only [List.length_set]; exact hlen)
  rw [getD_set_ne _ _ _ _ _ (by omega), getD_ext, mergeUp_length,
    halfUpDown_length _ _ _ (adjOf_length_even lt srt _), adjOf_length] at h2
  rw [getD_ext, leftoverOf_length, weightSum_ext] at h1
  have e : 2 ^ (h + (i + 1)) = 2 * 2 ^ (h + i) := by
    rw [← Nat.add_assoc, Nat.pow_succ, Nat.mul_comm]
  rw [e] at h2
  generalize (L.getD i []).length = n at h1 h2
  generalize (L.getD (i + 1) []).length = m at h1 h2
  generalize 2 ^ (h + i) = w at h1 h2
  have e2 : (n - n % 2) / 2 = n / 2 := by omega
  rw [e2] at h2
  have e3 : 2 * w * (n / 2) + w * (n % 2) = w * n := by
    rw [Nat.mul_comm 2 w, Nat.mul_assoc, ← Nat.mul_add]; congr 1; omega
  simp only [Nat.mul_add] at h2
  omega

/-! ### mstep -/

theorem mstep_length (lt : α → α → Bool) (L : List (List α)) (op : MOp α) (c : Bool)
    (hv : valid L.length op = true) : (mstep lt L op c).length = lenAfter L.length op := by
  cases op with
  | add x =>
    simp only [valid, decide_eq_true_eq] at hv
    simp only [mstep, lenAfter]
    exact push_length x L hv
  | compact i srt up => exact compactCore_length lt L i srt up c

theorem mstep_add_wb (lt : α → α → Bool) (p : α → Bool) (L : List (List α)) (x : α) (c : Bool)
    (hL : 0 < L.length) : wb p 0 (mstep lt L (.add x) c) = wb p 0 L + (if p x then 1 else 0) := by
  simp only [mstep]
  rw [wb_push p 0 x L hL]
  simp only [Nat.pow_zero, Nat.one_mul]

/-! ### all coin vectors -/

theorem allVecs_length : ∀ n : Nat, (allVecs n).length = 2 ^ n
  | 0 => rfl
  | n + 1 => by
    simp only [allVecs, List.length_append, List.length_map, allVecs_length n, Nat.pow_succ]; omega

theorem mem_allVecs_length : ∀ (n : Nat) (cs : List Bool), cs ∈ allVecs n → cs.length = n
  | 0, cs, h => by
    simp only [allVecs, List.mem_singleton] at h
    rw [h]; rfl
  | n + 1, cs, h => by
    simp only [allVecs, List.mem_append, List.mem_map] at h
    rcases h with ⟨t, ht, rfl⟩ | ⟨t, ht, rfl⟩ <;>
      simp only [List.length_cons, mem_allVecs_length n t ht]

theorem mem_allVecs_of_length : ∀ (n : Nat) (cs : List Bool), cs.length = n → cs ∈ allVecs n
  | 0, [], _ => by simp only [allVecs, List.mem_singleton]
  | 0, _ :: _, h => by simp only [List.length_cons] at h; omega
  | n + 1, [], h => by simp only [List.length_nil] at h; omega
  | n + 1, b :: t, h => by
    have ht := mem_allVecs_of_length n t (by simp only [List.length_cons] at h; omega)
    simp only [allVecs, List.mem_append, List.mem_map]
    cases b
    · exact Or.inl ⟨t, ht, rfl⟩
    · exact Or.inr ⟨t, ht, rfl⟩

theorem sumAll_snd (lt : α → α → Bool) (p : α → Bool) :
    ∀ (ops : List (MOp α)) (L : List (List α)), (sumAll lt p L ops).2 = 2 ^ flips ops
  | [], _ => rfl
  | .add x :: ops, L => by
    simp only [sumAll, flips]; exact sumAll_snd lt p ops _
  | .compact i srt up :: ops, L => by
    simp only [sumAll, flips, sumAll_snd lt p ops, Nat.pow_succ]; omega

theorem sumAll_fst_eq_sum (lt : α → α → Bool) (p : α → Bool) :
    ∀ (ops : List (MOp α)) (L : List (List α)),
      (sumAll lt p L ops).1 = ((allVecs (flips ops)).map (fun cs => wb p 0 (mrun lt L ops cs))).sum
  | [], L => by
    simp only [sumAll, flips, allVecs, mrun, List.map_cons, List.map_nil, List.sum_cons, List.sum_nil,
      Nat.add_zero]
  | .add x :: ops, L => by
    simp only [sumAll, flips, mrun]; exact sumAll_fst_eq_sum lt p ops _
  | .compact i srt up :: ops, L => by
    simp only [sumAll, flips, allVecs, List.map_append, List.sum_append, List.map_map]
    rw [sumAll_fst_eq_sum lt p ops, sumAll_fst_eq_sum lt p ops]
    rfl

/-- every coin vector occurs exactly once in `allVecs` -/
theorem allVecs_nodup : ∀ n : Nat, (allVecs n).Pairwise (fun a b => a ≠ b)
  | 0 => List.pairwise_singleton _ _
  | n + 1 => by
    have ih := allVecs_nodup n
    simp only [allVecs]
    refine List.pairwise_append.mpr ⟨?_, ?_, ?_⟩
    · exact List.pairwise_map.mpr (ih.imp (by intro a b hab e; exact hab (List.cons.inj e).2))
    · exact List.pairwise_map.mpr (ih.imp (by intro a b hab e; exact hab (List.cons.inj e).2))
    · intro a ha b hb e
      simp only [List.mem_map] at ha hb
      rcases ha with ⟨a', _, rfl⟩
      rcases hb with ⟨b', _, rfl⟩
      exact Bool.noConfusion (List.cons.inj e).1

/-- Σ over all coin outcomes = 2^flips · (initial weight below + weight added below) -/
theorem sumAll_fst (lt : α → α → Bool) (p : α → Bool) :
    ∀ (ops : List (MOp α)) (L : List (List α)), validAll L.length ops = true →
      (sumAll lt p L ops).1 = 2 ^ flips ops * (wb p 0 L + addedBelow p ops)
  | [], L, _ => by simp only [sumAll, flips, addedBelow, Nat.pow_zero, Nat.one_mul, Nat.add_zero]
  | .add x :: ops, L, hv => by
    simp only [validAll, Bool.and_eq_true] at hv
    have hL : 0 < L.length := by simpa only [valid, decide_eq_true_eq] using hv.1
    have hlen := mstep_length lt L (.add x) false hv.1
    have ih := sumAll_fst lt p ops (mstep lt L (.add x) false) (by rw [hlen]; exact hv.2)
    simp only [sumAll, flips, addedBelow]
    rw [ih, mstep_add_wb lt p L x false hL, Nat.add_assoc]
  | .compact i srt up :: ops, L, hv => by
    simp only [validAll, Bool.and_eq_true] at hv
    have hi : i < L.length := by simpa only [valid, decide_eq_true_eq] using hv.1
    have ihf := sumAll_fst lt p ops (mstep lt L (.compact i srt up) false)
      (by rw [mstep_length lt L _ false hv.1]; exact hv.2)
    have iht := sumAll_fst lt p ops (mstep lt L (.compact i srt up) true)
      (by rw [mstep_length lt L _ true hv.1]; exact hv.2)
    have hb := compactCore_balanced lt p 0 L i srt up hi
    simp only [sumAll, flips, addedBelow]
    rw [ihf, iht]
    simp only [mstep]
    rw [← Nat.mul_add, Nat.pow_succ, Nat.mul_assoc]
    congr 1
    omega

end DS.Mech

/-
t-digest (C17): weight bookkeeping.  Everything here holds for EVERY instance of the numeric classes
(no laws are used), in particular for the executed Float / Float32 instances with real NaN.
-/
import DSModel.TDigest.Hist
namespace DS.TDigest
open Num Conv
set_option linter.unusedSectionVars false

variable {α δ : Type} [Num α] [Num δ] [Conv α δ]

@[simp] theorem sumWeights_nil : sumWeights ([] : List (Centroid α)) = 0 := rfl

@[simp] theorem sumWeights_cons (c : Centroid α) (l : List (Centroid α)) :
    sumWeights (c :: l) = c.weight + sumWeights l := by simp [sumWeights]

@[simp] theorem sumWeights_append (a b : List (Centroid α)) :
    sumWeights (a ++ b) = sumWeights a + sumWeights b := by simp [sumWeights]

@[simp] theorem sumWeights_reverse (a : List (Centroid α)) : sumWeights a.reverse = sumWeights a := by
  induction a with
  | nil => rfl
  | cons c t ih => simp [ih, Nat.add_comm]

@[simp] theorem sumWeights_map_single (l : List α) : sumWeights (l.map single) = l.length := by
  induction l with
  | nil => rfl
  | cons c t ih => simp [ih, single, Nat.add_comm]

@[simp] theorem cadd_weight {safe : Bool} (a b : Centroid α) : (cadd safe a b).weight = a.weight + b.weight := rfl

theorem sumWeights_insertC (x : Centroid α) (l : List (Centroid α)) :
    sumWeights (insertC x l) = x.weight + sumWeights l := by
  induction l with
  | nil => rfl
  | cons y ys ih =>
    simp only [insertC]
    split
    · simp [ih]; omega
    · simp

@[simp] theorem sumWeights_stableSort (l : List (Centroid α)) : sumWeights (stableSort l) = sumWeights l := by
  induction l with
  | nil => rfl
  | cons x xs ih => simp [stableSort, sumWeights_insertC] at *; exact ih

theorem insertC_ne_nil (x : Centroid α) (l : List (Centroid α)) : insertC x l ≠ [] := by
  cases l with
  | nil => simp [insertC]
  | cons y ys => simp only [insertC]; split <;> simp

theorem stableSort_eq_nil {l : List (Centroid α)} : stableSort l = [] ↔ l = [] := by
  cases l with
  | nil => simp [stableSort]
  | cons x xs => simp [stableSort, insertC_ne_nil]

theorem sumWeights_cluster (safe : Bool) (sc : Scale δ) (kc cwD : δ) (xs : List (Centroid α)) :
    ∀ (first : Bool) (cur : Centroid α) (wsf : δ),
      sumWeights (cluster safe sc kc cwD first cur wsf xs) = cur.weight + sumWeights xs := by
  induction xs with
  | nil => intro first cur wsf; simp [cluster]
  | cons x xs ih =>
    intro first cur wsf
    simp only [cluster]
    split
    · rw [ih]; simp; omega
    · simp [ih]

theorem cluster_ne_nil (safe : Bool) (sc : Scale δ) (kc cwD : δ) (xs : List (Centroid α)) (first : Bool) (cur : Centroid α) (wsf : δ) :
    cluster safe sc kc cwD first cur wsf xs ≠ [] := by
  cases xs with
  | nil => simp [cluster]
  | cons x xs => simp only [cluster]; split <;> simp [cluster_ne_nil]

/-- `centroids_weight_` is the sum of the centroid weights -/
def InvW (s : St α) : Prop := s.cw = sumWeights s.cs

/-- the sequence `merge(buffer, weight)` iterates over -/
def mergeSeq (s : St α) (tmp : List (Centroid α)) : List (Centroid α) :=
  if s.rev then (stableSort (tmp ++ s.cs)).reverse else stableSort (tmp ++ s.cs)

theorem mergeSeq_eq_nil {s : St α} {tmp : List (Centroid α)} : mergeSeq s tmp = [] ↔ tmp ++ s.cs = [] := by
  unfold mergeSeq; split <;> simp [stableSort_eq_nil]

theorem sumWeights_mergeSeq (s : St α) (tmp : List (Centroid α)) :
    sumWeights (mergeSeq s tmp) = sumWeights tmp + sumWeights s.cs := by
  unfold mergeSeq; split <;> simp

/-- the centroid list `merge(buffer, weight)` leaves behind, given the iteration sequence `x :: xs` -/
def mergeOut (sc : Scale δ) (tun : Tun) (s : St α) (weight : Nat) (x : Centroid α) (xs : List (Centroid α)) : List (Centroid α) :=
  let out := cluster tun.caddSafe sc (ofNat (tun.comprMul * s.k) : δ) (ofNat (s.cw + weight)) true x (ofNat 0) xs
  if s.rev then out.reverse else out

theorem mergeCore_of_seq (sc : Scale δ) (tun : Tun) (s : St α) (tmp : List (Centroid α)) (weight : Nat)
    {x : Centroid α} {xs : List (Centroid α)} (h : mergeSeq s tmp = x :: xs) :
    mergeCore sc tun s tmp weight =
      { rev := !s.rev, k := s.k,
        min := if s.isEmpty then headMean (mergeOut sc tun s weight x xs) s.min
               else stdMin s.min (headMean (mergeOut sc tun s weight x xs) s.min),
        max := if s.isEmpty then lastMean (mergeOut sc tun s weight x xs) s.max
               else stdMax s.max (lastMean (mergeOut sc tun s weight x xs) s.max),
        cs := mergeOut sc tun s weight x xs, cw := s.cw + weight, buf := [] } := by
  unfold mergeSeq at h
  unfold mergeCore mergeOut
  simp only [h]

theorem mergeCore_of_nil (sc : Scale δ) (tun : Tun) (s : St α) (tmp : List (Centroid α)) (weight : Nat)
    (h : mergeSeq s tmp = []) : mergeCore sc tun s tmp weight = s := by
  unfold mergeSeq at h
  unfold mergeCore
  simp only [h]

theorem sumWeights_mergeOut (sc : Scale δ) (tun : Tun) (s : St α) (weight : Nat) (x : Centroid α) (xs : List (Centroid α)) :
    sumWeights (mergeOut sc tun s weight x xs) = x.weight + sumWeights xs := by
  unfold mergeOut
  split <;> simp [sumWeights_cluster]

theorem mergeOut_ne_nil (sc : Scale δ) (tun : Tun) (s : St α) (weight : Nat) (x : Centroid α) (xs : List (Centroid α)) :
    mergeOut sc tun s weight x xs ≠ [] := by
  unfold mergeOut
  split <;> simp [cluster_ne_nil]

/-- weight bookkeeping of the private `merge(buffer, weight)` for a non-empty input -/
theorem mergeCore_weight (sc : Scale δ) (tun : Tun) (s : St α) (tmp : List (Centroid α)) (weight : Nat)
    (hne : tmp ≠ []) (hs : InvW s) (hw : weight = sumWeights tmp) :
    InvW (mergeCore sc tun s tmp weight) ∧ (mergeCore sc tun s tmp weight).buf = [] ∧
    (mergeCore sc tun s tmp weight).cw = s.cw + weight ∧ (mergeCore sc tun s tmp weight).cs ≠ [] ∧
    (mergeCore sc tun s tmp weight).k = s.k := by
  cases hseq : mergeSeq s tmp with
  | nil => rw [mergeSeq_eq_nil] at hseq; simp at hseq; exact absurd hseq.1 hne
  | cons x xs =>
    rw [mergeCore_of_seq sc tun s tmp weight hseq]
    refine ⟨?_, rfl, rfl, mergeOut_ne_nil sc tun s weight x xs, rfl⟩
    have := sumWeights_mergeSeq s tmp
    rw [hseq] at this
    simp only [InvW, sumWeights_mergeOut] at *
    simp at this
    omega

theorem isEmpty_iff (s : St α) : s.isEmpty = true ↔ s.cs = [] ∧ s.buf = [] := by
  simp [St.isEmpty]

theorem totalWeight_of_isEmpty {s : St α} (hs : InvW s) (h : s.isEmpty = true) : s.totalWeight = 0 := by
  rw [isEmpty_iff] at h
  unfold St.totalWeight
  unfold InvW at hs
  simp [hs, h.1, h.2]

/-- `compress()` keeps the total weight and the weight invariant -/
theorem compress_weight (sc : Scale δ) (tun : Tun) (s : St α) (hs : InvW s) :
    InvW (compress sc tun s) ∧ (compress sc tun s).totalWeight = s.totalWeight ∧ (compress sc tun s).k = s.k := by
  unfold compress
  split
  · exact ⟨hs, rfl, rfl⟩
  · rename_i v t hb
    have h := mergeCore_weight sc tun s (s.buf.map single) s.buf.length (by simp [hb]) hs (by simp)
    refine ⟨h.1, ?_, h.2.2.2.2⟩
    unfold St.totalWeight
    rw [h.2.1, h.2.2.1]; simp

theorem update_weight (sc : Scale δ) (tun : Tun) (s : St α) (v : α) (hs : InvW s) :
    InvW (update sc tun s v) ∧
    (update sc tun s v).totalWeight = s.totalWeight + (if isNaN v then 0 else 1) := by
  unfold update
  split
  · exact ⟨hs, rfl⟩
  · have hc := compress_weight sc tun s hs
    split
    · refine ⟨hc.1, ?_⟩
      simp only [St.totalWeight, List.length_append, List.length_singleton] at *
      omega
    · exact ⟨hs, by simp [St.totalWeight]; omega⟩

theorem merge_weight (sc : Scale δ) (tun : Tun) (s o : St α) (hs : InvW s) (ho : InvW o) :
    InvW (merge sc tun s o) ∧ (merge sc tun s o).totalWeight = s.totalWeight + o.totalWeight := by
  unfold merge
  split
  · rename_i he
    exact ⟨hs, by rw [totalWeight_of_isEmpty ho he]; rfl⟩
  · rename_i he
    have hne : s.buf.map single ++ o.buf.map single ++ o.cs ≠ [] := by
      intro h
      simp at h
      exact he (by rw [isEmpty_iff]; exact ⟨h.2.2, h.2.1⟩)
    have h := mergeCore_weight sc tun s _ (s.buf.length + o.totalWeight) hne hs
      (by unfold InvW at ho; simp [St.totalWeight, ho]; omega)
    refine ⟨h.1, ?_⟩
    unfold St.totalWeight at *
    rw [h.2.1, h.2.2.1]; simp; omega

/-- the weight half of C17 for every numeric instance: total weight = number of accepted values -/
theorem eval_weight (sc : Scale δ) (tun : Tun) (h : Hist α) :
    InvW (h.eval sc tun) ∧ (h.eval sc tun).totalWeight = h.accepted.length := by
  induction h with
  | new k => exact ⟨rfl, rfl⟩
  | update h v ih =>
    have := update_weight sc tun (h.eval sc tun) v ih.1
    refine ⟨this.1, ?_⟩
    simp only [Hist.eval, Hist.accepted]
    rw [this.2, ih.2]
    split <;> simp
  | compress h ih =>
    have := compress_weight sc tun (h.eval sc tun) ih.1
    exact ⟨this.1, by simp only [Hist.eval, Hist.accepted]; rw [this.2.1, ih.2]⟩
  | merge h o ih1 ih2 =>
    have := merge_weight sc tun (h.eval sc tun) (o.eval sc tun) ih1.1 ih2.1
    exact ⟨this.1, by simp only [Hist.eval, Hist.accepted]; rw [this.2, ih1.2, ih2.2]; simp⟩

end DS.TDigest

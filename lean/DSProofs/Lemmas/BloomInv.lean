/- Preservation of the cover invariant by every model op (part 1: helpers, constructors, update, query_and_update). -/
import DSProofs.Lemmas.BloomCover
namespace DS.Bloom

variable {ι : Type}

/-- `P` places the count at byte 24 and the bit array at byte 32 (where the sequential writers put them) -/
def Params.Layout (P : Params) : Prop := P.nbsOff = 24 ∧ P.bitsOff = 32

theorem cover_set {P : Params} {hf : ι → Nat → Option (Nat × Nat)} {w w' : World} {g : Ghost ι}
    (hc : Cover P hf w g) (k : Key) (c : Cfg) (l : List ι)
    (hframe : ∀ key, key ≠ k → keyVal w' key = keyVal w key)
    (hk : Covers hf (keyVal w' k) (keyOff P k) c l) : Cover P hf w' (g.set k c l) := by
  intro key
  by_cases e : key = k
  · subst e; simpa using hk
  · rw [Ghost.set_S_ne _ _ _ e, Ghost.set_C_ne _ _ _ e, hframe key e]; exact hc key

theorem cover_frame {P : Params} {hf : ι → Nat → Option (Nat × Nat)} {w w' : World} {g : Ghost ι}
    (hc : Cover P hf w g) (hframe : ∀ key, keyVal w' key = keyVal w key) : Cover P hf w' g := by
  intro key; rw [hframe key]; exact hc key

theorem covers_of_k0 (hf : ι → Nat → Option (Nat × Nat)) (X off : Nat) (c : Cfg) (l : List ι) (h : c.k = 0) : Covers hf X off c l := by
  intro x _ hh _
  simp [h, indices, allSet]

theorem roundUp64_pos (n : Nat) (h : n ≠ 0) : 0 < roundUp64 n ∧ roundUp64 n % 64 = 0 := by unfold roundUp64; omega

theorem capPos_setFilter {w : World} (hp : CapPos w) (v : Nat) (f : Filter) (hf : 0 < f.capBits ∧ f.capBits % 64 = 0) : CapPos (w.setFilter v f) := by
  intro v' f' h
  simp only [World.setFilter] at h
  by_cases e : v' = v
  · simp [e] at h; rw [← h]; exact hf
  · simp [e] at h; exact hp v' f' h

theorem capPos_setBlock {w : World} (hp : CapPos w) (m : Nat) (b : Block) : CapPos (w.setBlock m b) := hp

theorem capPos_commit {P : Params} {w : World} (hp : CapPos w) (v : Nat) (f : Filter) (hv : w.filters v = some f) (x nbs : Nat) (d : Bool)
    (hdr : Option Nat) : CapPos (commit P w v f x nbs d hdr) := by
  unfold commit
  cases f.ref with
  | owned b => exact capPos_setFilter hp _ _ (hp v f hv)
  | mem m => exact capPos_setFilter (capPos_setBlock hp _ _) _ _ (hp v f hv)

theorem keyVal_setFilter_ne_own (w : World) (v : Nat) (f : Filter) (key : Key) (h : key ≠ .own v) :
    keyVal (w.setFilter v f) key = keyVal w key := by
  cases key with
  | own v' => exact keyVal_setFilter_own_ne _ _ _ _ (fun e => h (by rw [e]))
  | mem m => rfl

theorem keyVal_setBlock_ne_mem (w : World) (m : Nat) (b : Block) (key : Key) (h : key ≠ .mem m) :
    keyVal (w.setBlock m b) key = keyVal w key := by
  cases key with
  | own v' => rfl
  | mem m' => exact keyVal_setBlock_mem_ne _ _ _ _ (fun e => h (by rw [e]))

section
variable [DecidableEq ι] (P : Params) (fx : Fix) (hf : ι → Nat → Option (Nat × Nat))

/-- invariant bundle -/
def Inv (w : World) (g : Ghost ι) : Prop := Cover P hf w g ∧ CapPos w

theorem inv_new (w : World) (g : Ghost ι) (hi : Inv P hf w g) (v nb nh seed : Nat) :
    Inv P hf (opNew P w v nb nh seed).1 (gstep P hf g w (opNew P w v nb nh seed).1 (opNew P w v nb nh seed).2 (.new v nb nh seed)) := by
  unfold opNew
  by_cases hb : badSize P nb nh = true
  · simp [hb, gstep]; exact hi
  · simp only [hb, gstep]
    simp only [Bool.false_eq_true, if_false, if_true]
    refine ⟨cover_set hi.1 _ _ _ (fun key hk => keyVal_setFilter_ne_own _ _ _ _ hk) (Covers.nil _ _ _ _), ?_⟩
    apply capPos_setFilter hi.2
    have : nb ≠ 0 := by
      intro e; simp [badSize, e] at hb
    exact roundUp64_pos _ this

theorem inv_blk (w : World) (g : Ghost ι) (hi : Inv P hf w g) (m len val : Nat) :
    Inv P hf (opBlk w m len val).1 (gstep P hf g w (opBlk w m len val).1 (opBlk w m len val).2 (.blk m len val)) := by
  unfold opBlk
  cases hb : w.blocks m with
  | some b => simp [gstep]; exact hi
  | none =>
    simp only [gstep, if_true]
    exact ⟨cover_set hi.1 _ _ _ (fun key hk => keyVal_setBlock_ne_mem _ _ _ _ hk) (Covers.nil _ _ _ _), capPos_setBlock hi.2 _ _⟩

theorem inv_init (w : World) (g : Ghost ι) (hi : Inv P hf w g) (v m nb nh seed : Nat) :
    Inv P hf (opInit P w v m nb nh seed).1 (gstep P hf g w (opInit P w v m nb nh seed).1 (opInit P w v m nb nh seed).2 (.init v m nb nh seed)) := by
  unfold opInit
  by_cases hb : badSize P nb nh = true
  · simp [hb, gstep]; exact hi
  · simp only [hb, Bool.false_eq_true, if_false]
    by_cases hl : w.blockLen m < serializedSize P (roundUp64 nb)
    · simp [hl, gstep]; exact hi
    · simp only [hl, if_false, gstep, if_true]
      constructor
      · intro key
        by_cases e1 : key = .own v
        · subst e1; simp [Covers.nil]
        · rw [Ghost.set_S_ne _ _ _ e1, Ghost.set_C_ne _ _ _ e1]
          by_cases e2 : key = .mem m
          · subst e2; simp [Covers.nil]
          · rw [Ghost.set_S_ne _ _ _ e2, Ghost.set_C_ne _ _ _ e2, keyVal_setFilter_ne_own _ _ _ _ e1, keyVal_setBlock_ne_mem _ _ _ _ e2]
            exact hi.1 key
      · apply capPos_setFilter (capPos_setBlock hi.2 _ _)
        have : nb ≠ 0 := by
          intro e; simp [badSize, e] at hb
        exact roundUp64_pos _ this

end

end DS.Bloom

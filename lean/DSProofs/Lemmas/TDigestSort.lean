/-
t-digest (C17), exact arithmetic: the stable sort of `merge(buffer, weight)`.
`stableSort` is a permutation, sorted by mean, and its first / last element is the FIRST element of minimal
mean / the LAST element of maximal mean of the input (stability) — which is what makes the first and last
centroid singletons.
-/
import DSProofs.Lemmas.TDigestRat
namespace DS.TDigest
open Num Conv

abbrev C := Centroid Rat

/-- sorted by mean (non-decreasing) -/
def Sorted (l : List C) : Prop := l.Pairwise (fun a b => a.mean ≤ b.mean)

theorem insertC_perm (x : C) (l : List C) : (insertC x l).Perm (x :: l) := by
  induction l with
  | nil => exact List.Perm.refl _
  | cons y ys ih =>
    simp only [insertC]
    split
    · exact (List.Perm.cons y ih).trans (List.Perm.swap x y ys)
    · exact List.Perm.refl _

theorem stableSort_perm (l : List C) : (stableSort l).Perm l := by
  induction l with
  | nil => exact List.Perm.refl _
  | cons x xs ih =>
    show (insertC x (stableSort xs)).Perm (x :: xs)
    exact (insertC_perm x _).trans (List.Perm.cons x ih)

theorem mem_insertC {x c : C} {l : List C} : c ∈ insertC x l ↔ c = x ∨ c ∈ l := by
  rw [(insertC_perm x l).mem_iff]; simp

theorem mem_stableSort {c : C} {l : List C} : c ∈ stableSort l ↔ c ∈ l :=
  (stableSort_perm l).mem_iff

theorem insertC_sorted (x : C) (l : List C) (h : Sorted l) : Sorted (insertC x l) := by
  induction l with
  | nil => simp [insertC, Sorted]
  | cons y ys ih =>
    unfold Sorted at h
    rw [List.pairwise_cons] at h
    simp only [insertC]
    split
    · rename_i hlt
      simp at hlt
      unfold Sorted
      rw [List.pairwise_cons]
      refine ⟨?_, ih h.2⟩
      intro z hz
      rcases mem_insertC.1 hz with rfl | hz
      · exact hlt.le
      · exact h.1 z hz
    · rename_i hlt
      simp at hlt
      unfold Sorted
      rw [List.pairwise_cons, List.pairwise_cons]
      refine ⟨?_, h.1, h.2⟩
      intro z hz
      rcases List.mem_cons.1 hz with rfl | hz
      · exact hlt
      · exact le_trans hlt (h.1 z hz)

theorem stableSort_sorted (l : List C) : Sorted (stableSort l) := by
  induction l with
  | nil => simp [stableSort, Sorted]
  | cons x xs ih => exact insertC_sorted x _ ih

theorem Sorted.reverse_ge {l : List C} (h : Sorted l) : l.reverse.Pairwise (fun a b => b.mean ≤ a.mean) := by
  unfold Sorted at h
  rw [List.pairwise_reverse]
  exact h

/-! ### first element of minimal mean / last element of maximal mean -/

/-- the first element (in list order) among those of minimal mean -/
def firstMin : List C → Option C
  | [] => none
  | x :: xs =>
    match firstMin xs with
    | none => some x
    | some m => if m.mean < x.mean then some m else some x

/-- the last element (in list order) among those of maximal mean -/
def lastMax : List C → Option C
  | [] => none
  | x :: xs =>
    match lastMax xs with
    | none => some x
    | some m => if m.mean < x.mean then some x else some m

theorem head?_insertC (x : C) (l : List C) :
    (insertC x l).head? = (match l.head? with
      | none => some x
      | some y => if y.mean < x.mean then some y else some x) := by
  cases l with
  | nil => rfl
  | cons y ys =>
    simp only [insertC, List.head?_cons]
    split <;> rename_i h <;> simp at h
    · simp [h]
    · simp [not_lt.2 h]

theorem head?_stableSort (l : List C) : (stableSort l).head? = firstMin l := by
  induction l with
  | nil => rfl
  | cons x xs ih =>
    show (insertC x (stableSort xs)).head? = _
    rw [head?_insertC, ih]
    rfl

theorem getLast?_insertC (x : C) (l : List C) (h : Sorted l) :
    (insertC x l).getLast? = (match l.getLast? with
      | none => some x
      | some y => if y.mean < x.mean then some x else some y) := by
  induction l with
  | nil => rfl
  | cons y ys ih =>
    unfold Sorted at h
    rw [List.pairwise_cons] at h
    simp only [insertC]
    split <;> rename_i hlt <;> simp at hlt
    · cases ys with
      | nil => simp [insertC, hlt]
      | cons z zs =>
        have := ih h.2
        rw [List.getLast?_cons_cons] at *
        have hne : insertC x (z :: zs) ≠ [] := insertC_ne_nil _ _
        obtain ⟨a, as, ha⟩ := List.exists_cons_of_ne_nil hne
        rw [ha, List.getLast?_cons_cons, ← ha, this]
    · -- x goes first: the last element is the last of y :: ys, and it is not below x
      obtain ⟨e, he⟩ : ∃ e, (y :: ys).getLast? = some e := by
        cases hh : (y :: ys).getLast? with
        | none => simp at hh
        | some e => exact ⟨e, rfl⟩
      rw [List.getLast?_cons_cons, he]
      have hmem : e ∈ y :: ys := List.mem_of_getLast? he
      have : x.mean ≤ e.mean := by
        rcases List.mem_cons.1 hmem with rfl | hm
        · exact hlt
        · exact le_trans hlt (h.1 e hm)
      simp [not_lt.2 this]

theorem getLast?_stableSort (l : List C) : (stableSort l).getLast? = lastMax l := by
  induction l with
  | nil => rfl
  | cons x xs ih =>
    show (insertC x (stableSort xs)).getLast? = _
    rw [getLast?_insertC x _ (stableSort_sorted xs), ih]
    rfl

theorem firstMin_eq_none {l : List C} : firstMin l = none ↔ l = [] := by
  cases l with
  | nil => simp [firstMin]
  | cons x xs =>
    simp only [firstMin]
    split
    · simp
    · split <;> simp

theorem lastMax_eq_none {l : List C} : lastMax l = none ↔ l = [] := by
  cases l with
  | nil => simp [lastMax]
  | cons x xs =>
    simp only [lastMax]
    split
    · simp
    · split <;> simp

theorem firstMin_mem {l : List C} {m : C} (h : firstMin l = some m) : m ∈ l := by
  rw [← head?_stableSort] at h
  exact mem_stableSort.1 (List.mem_of_head? h)

theorem lastMax_mem {l : List C} {m : C} (h : lastMax l = some m) : m ∈ l := by
  rw [← getLast?_stableSort] at h
  exact mem_stableSort.1 (List.mem_of_getLast? h)

/-- the head of the sorted list is below every input element -/
theorem firstMin_le {l : List C} {m : C} (h : firstMin l = some m) : ∀ c ∈ l, m.mean ≤ c.mean := by
  intro c hc
  rw [← head?_stableSort] at h
  have hs := stableSort_sorted l
  have hc' : c ∈ stableSort l := mem_stableSort.2 hc
  cases hl : stableSort l with
  | nil => rw [hl] at hc'; simp at hc'
  | cons a as =>
    rw [hl] at h hs hc'
    simp at h
    subst h
    unfold Sorted at hs
    rw [List.pairwise_cons] at hs
    rcases List.mem_cons.1 hc' with rfl | hm
    · exact le_refl _
    · exact hs.1 c hm

theorem lastMax_ge {l : List C} {m : C} (h : lastMax l = some m) : ∀ c ∈ l, c.mean ≤ m.mean := by
  intro c hc
  rw [← getLast?_stableSort] at h
  have hs := stableSort_sorted l
  have hc' : c ∈ stableSort l := mem_stableSort.2 hc
  have hrev : (stableSort l).reverse.head? = some m := by rw [List.head?_reverse]; exact h
  have hsr := hs.reverse_ge
  have hcr : c ∈ (stableSort l).reverse := List.mem_reverse.2 hc'
  cases hl : (stableSort l).reverse with
  | nil => rw [hl] at hcr; simp at hcr
  | cons a as =>
    rw [hl] at hrev hsr hcr
    simp at hrev
    subst hrev
    rw [List.pairwise_cons] at hsr
    rcases List.mem_cons.1 hcr with rfl | hm
    · exact le_refl _
    · exact hsr.1 c hm

theorem firstMin_append (a b : List C) :
    firstMin (a ++ b) = (match firstMin a, firstMin b with
      | none, y => y
      | some x, none => some x
      | some x, some y => if y.mean < x.mean then some y else some x) := by
  induction a with
  | nil => simp [firstMin]
  | cons x a ih =>
    simp only [List.cons_append, firstMin, ih]
    rcases ha : firstMin a with _ | p
    · rcases hb : firstMin b with _ | y <;> rfl
    · rcases hb : firstMin b with _ | y
      · simp only []; split_ifs <;> rfl
      · by_cases h1 : y.mean < p.mean <;> by_cases h2 : p.mean < x.mean <;> by_cases h3 : y.mean < x.mean <;>
          simp [h1, h2, h3] <;> exfalso <;> linarith

theorem lastMax_append (a b : List C) :
    lastMax (a ++ b) = (match lastMax a, lastMax b with
      | none, y => y
      | some x, none => some x
      | some x, some y => if y.mean < x.mean then some x else some y) := by
  induction a with
  | nil => simp [lastMax]
  | cons x a ih =>
    simp only [List.cons_append, lastMax, ih]
    rcases ha : lastMax a with _ | p
    · rcases hb : lastMax b with _ | y <;> rfl
    · rcases hb : lastMax b with _ | y
      · simp only []; split_ifs <;> rfl
      · by_cases h1 : y.mean < p.mean <;> by_cases h2 : p.mean < x.mean <;> by_cases h3 : y.mean < x.mean <;>
          simp [h1, h2, h3] <;> exfalso <;> linarith

theorem firstMin_sorted {x : C} {xs : List C} (h : Sorted (x :: xs)) : firstMin (x :: xs) = some x := by
  unfold Sorted at h
  rw [List.pairwise_cons] at h
  simp only [firstMin]
  cases hm : firstMin xs with
  | none => rfl
  | some m =>
    have := h.1 m (firstMin_mem hm)
    simp [not_lt.2 this]

theorem lastMax_sorted {l : List C} (h : Sorted l) : lastMax l = l.getLast? := by
  induction l with
  | nil => rfl
  | cons x xs ih =>
    unfold Sorted at h
    rw [List.pairwise_cons] at h
    simp only [lastMax, ih h.2]
    cases xs with
    | nil => rfl
    | cons y ys =>
      rw [List.getLast?_cons_cons]
      cases hm : (y :: ys).getLast? with
      | none => simp at hm
      | some m =>
        have := h.1 m (List.mem_of_getLast? hm)
        simp [not_lt.2 this]

/-- every element of minimal-first position has weight 1 -/
def HeadW1 (l : List C) : Prop := ∀ m, firstMin l = some m → m.weight = 1
def LastW1 (l : List C) : Prop := ∀ m, lastMax l = some m → m.weight = 1

theorem HeadW1.append {a b : List C} (ha : HeadW1 a) (hb : HeadW1 b) : HeadW1 (a ++ b) := by
  intro m hm
  rw [firstMin_append] at hm
  cases h1 : firstMin a <;> cases h2 : firstMin b <;> rw [h1, h2] at hm <;> simp only [] at hm
  · exact absurd hm (by simp)
  · exact hb m (by rw [h2, hm])
  · exact ha m (by rw [h1, hm])
  · split at hm
    · exact hb m (by rw [h2, hm])
    · exact ha m (by rw [h1, hm])

theorem LastW1.append {a b : List C} (ha : LastW1 a) (hb : LastW1 b) : LastW1 (a ++ b) := by
  intro m hm
  rw [lastMax_append] at hm
  cases h1 : lastMax a <;> cases h2 : lastMax b <;> rw [h1, h2] at hm <;> simp only [] at hm
  · exact absurd hm (by simp)
  · exact hb m (by rw [h2, hm])
  · exact ha m (by rw [h1, hm])
  · split at hm
    · exact ha m (by rw [h1, hm])
    · exact hb m (by rw [h2, hm])

theorem HeadW1.of_all {l : List C} (h : ∀ c ∈ l, c.weight = 1) : HeadW1 l :=
  fun m hm => h m (firstMin_mem hm)

theorem LastW1.of_all {l : List C} (h : ∀ c ∈ l, c.weight = 1) : LastW1 l :=
  fun m hm => h m (lastMax_mem hm)

theorem HeadW1.of_sorted {l : List C} (hs : Sorted l) (h : ∀ c, l.head? = some c → c.weight = 1) : HeadW1 l := by
  cases l with
  | nil => intro m hm; simp [firstMin] at hm
  | cons x xs =>
    intro m hm
    rw [firstMin_sorted hs] at hm
    exact h m (by simpa using hm)

theorem LastW1.of_sorted {l : List C} (hs : Sorted l) (h : ∀ c, l.getLast? = some c → c.weight = 1) : LastW1 l := by
  intro m hm
  rw [lastMax_sorted hs] at hm
  exact h m hm

end DS.TDigest

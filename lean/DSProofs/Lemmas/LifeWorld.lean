/- C19 helper lemmas: the world of several live objects.  `ObjSpec` = what a class-level proof provides
   (owned blocks, invariant, usability, locality); `WorldInv` = every object satisfies its invariant, the objects own
   pairwise disjoint blocks, and every block of the heap is owned by some object; `WorldInv.replace` = the effect of
   one framed method on the world. -/
import DSModel.Life.World
import DSProofs.Lemmas.LifeView
namespace DS.Life

structure ObjSpec where
  owned : Obj → List Nat
  Inv : Heap → Obj → Prop
  Usable : Heap → Obj → Prop
  usable_inv : ∀ {h o}, Usable h o → Inv h o
  inv_local : ∀ {h h' o}, (∀ b, b ∈ owned o → h'.find? b = h.find? b) → h.next ≤ h'.next → Inv h o → Inv h' o
  usable_local : ∀ {h h' o}, (∀ b, b ∈ owned o → h'.find? b = h.find? b) → h.next ≤ h'.next → Usable h o → Usable h' o
  owned_ids : ∀ {h o}, Inv h o → ∀ b, b ∈ owned o → b ∈ h.ids ∧ b < h.next

structure WorldInv (sp : ObjSpec) (w : World) : Prop where
  wf : w.heap.WF
  nodup : (w.objs.map (·.id)).Nodup
  inv : ∀ e, e ∈ w.objs → sp.Inv w.heap e.obj ∧ (e.usable = true → sp.Usable w.heap e.obj)
  owner : ∀ b, b ∈ w.heap.ids → ∃ e, e ∈ w.objs ∧ b ∈ sp.owned e.obj
  disj : ∀ e1 e2, e1 ∈ w.objs → e2 ∈ w.objs → e1.id ≠ e2.id → ∀ b, b ∈ sp.owned e1.obj → b ∉ sp.owned e2.obj

theorem WorldInv.init (sp : ObjSpec) : WorldInv sp World.init :=
  ⟨⟨List.nodup_nil, fun b hb => by simp [World.init, Heap.empty, Heap.ids] at hb⟩, List.nodup_nil,
   fun e he => by simp [World.init] at he, fun b hb => by simp [World.init, Heap.empty, Heap.ids] at hb,
   fun e1 _ he1 => by simp [World.init] at he1⟩

/-- objects of a world with distinct ids are distinct entries -/
theorem WorldInv.lookup_mem {w : World} {id : Nat} {e : Entry} (hl : w.lookup id = some e) :
    e ∈ w.objs ∧ e.id = id := by
  unfold World.lookup at hl
  exact ⟨List.mem_of_find?_eq_some hl, by simpa using List.find?_some hl⟩

theorem WorldInv.lookup_none {w : World} {id : Nat} (hl : w.lookup id = none) : ∀ e, e ∈ w.objs → e.id ≠ id := by
  unfold World.lookup at hl
  intro e he
  have := List.find?_eq_none.mp hl e he
  simpa using this

theorem nodup_ids_unique : ∀ (l : List Entry), (l.map (·.id)).Nodup → ∀ {e1 e2 : Entry}, e1 ∈ l → e2 ∈ l → e1.id = e2.id → e1 = e2
  | [], _, _, _, h1, _, _ => by cases h1
  | x :: xs, nd, e1, e2, h1, h2, hid => by
    simp only [List.map_cons, List.nodup_cons, List.mem_map, not_exists, not_and] at nd
    simp only [List.mem_cons] at h1 h2
    rcases h1 with rfl | h1 <;> rcases h2 with rfl | h2
    · rfl
    · exact absurd hid.symm (nd.1 e2 h2)
    · exact absurd hid (nd.1 e1 h1)
    · exact nodup_ids_unique xs nd.2 h1 h2 hid

theorem WorldInv.unique {sp : ObjSpec} {w : World} (hw : WorldInv sp w) {e1 e2 : Entry} (h1 : e1 ∈ w.objs) (h2 : e2 ∈ w.objs)
    (hid : e1.id = e2.id) : e1 = e2 := nodup_ids_unique w.objs hw.nodup h1 h2 hid

/-- the effect of one framed method on the world: the entries whose id is in `drop` are replaced by `news` -/
theorem WorldInv.replace (sp : ObjSpec) {w : World} (hw : WorldInv sp w) (drop : List Nat) (news : List Entry) (h' : Heap)
    (own0 : List Nat)
    (hown0 : ∀ b, b ∈ own0 ↔ ∃ e, e ∈ w.objs ∧ e.id ∈ drop ∧ b ∈ sp.owned e.obj)
    (hfr : Frame (foot own0 w.heap.next) w.heap h')
    (hnews_ids : ∀ e, e ∈ news → e.id ∈ drop)
    (hnews_nodup : (news.map (·.id)).Nodup)
    (hnews_inv : ∀ e, e ∈ news → sp.Inv h' e.obj ∧ (e.usable = true → sp.Usable h' e.obj))
    (howns : Owns h' w.heap.ids own0 (news.flatMap (fun e => sp.owned e.obj)) w.heap.next)
    (hnews_disj : ∀ e1 e2, e1 ∈ news → e2 ∈ news → e1.id ≠ e2.id → ∀ b, b ∈ sp.owned e1.obj → b ∉ sp.owned e2.obj) :
    WorldInv sp { heap := h', objs := news ++ w.objs.filter (fun e => decide (e.id ∉ drop)) } := by
  have hkeep : ∀ e, e ∈ w.objs.filter (fun e => decide (e.id ∉ drop)) → e ∈ w.objs ∧ e.id ∉ drop := by
    intro e he
    simpa [List.mem_filter] using he
  -- blocks of a kept object are outside the footprint
  have hout : ∀ e, e ∈ w.objs → e.id ∉ drop → ∀ b, b ∈ sp.owned e.obj → foot own0 w.heap.next b = false := by
    intro e he hd b hb
    have hlt := (sp.owned_ids (hw.inv e he).1 b hb).2
    have hno : b ∉ own0 := by
      intro hm
      obtain ⟨e', he', hd', hb'⟩ := (hown0 b).mp hm
      have hne : e'.id ≠ e.id := fun x => hd (x ▸ hd')
      exact hw.disj e' e he' he hne b hb' hb
    simp [foot, hno]
    omega
  have hfind : ∀ e, e ∈ w.objs → e.id ∉ drop → ∀ b, b ∈ sp.owned e.obj → h'.find? b = w.heap.find? b :=
    fun e he hd b hb => find?_of_Out _ w.heap h' hfr.1 b (hout e he hd b hb)
  refine ⟨hfr.2.2 hw.wf, ?_, ?_, ?_, ?_⟩
  · -- ids distinct
    simp only [List.map_append]
    rw [List.nodup_append]
    refine ⟨hnews_nodup, (hw.nodup.sublist ((List.filter_sublist).map _)), ?_⟩
    intro a ha b hb
    simp only [List.mem_map] at ha hb
    obtain ⟨e1, he1, rfl⟩ := ha
    obtain ⟨e2, he2, rfl⟩ := hb
    intro heq
    exact (hkeep e2 he2).2 (heq ▸ hnews_ids e1 he1)
  · intro e he
    simp only [List.mem_append] at he
    rcases he with he | he
    · exact hnews_inv e he
    · obtain ⟨hm, hd⟩ := hkeep e he
      obtain ⟨i, u⟩ := hw.inv e hm
      exact ⟨sp.inv_local (hfind e hm hd) hfr.2.1 i, fun hu => sp.usable_local (hfind e hm hd) hfr.2.1 (u hu)⟩
  · intro b hb
    rcases (howns.ids b).mp hb with ⟨hb0, hno⟩ | hnew
    · obtain ⟨e, he, hbe⟩ := hw.owner b hb0
      have hd : e.id ∉ drop := fun hd => hno ((hown0 b).mpr ⟨e, he, hd, hbe⟩)
      refine ⟨e, ?_, hbe⟩
      simp only [List.mem_append, List.mem_filter, decide_eq_true_eq]
      exact Or.inr ⟨he, hd⟩
    · simp only [List.mem_flatMap] at hnew
      obtain ⟨e, he, hbe⟩ := hnew
      exact ⟨e, by simp [he], hbe⟩
  · -- disjointness
    have hnew_old : ∀ e1 e2, e1 ∈ news → e2 ∈ w.objs → e2.id ∉ drop → ∀ b, b ∈ sp.owned e1.obj → b ∉ sp.owned e2.obj := by
      intro e1 e2 he1 he2 hd2 b hb1 hb2
      have hbn : b ∈ news.flatMap (fun e => sp.owned e.obj) := List.mem_flatMap.mpr ⟨e1, he1, hb1⟩
      rcases howns.fresh b hbn with hm | hge
      · obtain ⟨e', he', hd', hb'⟩ := (hown0 b).mp hm
        have hne : e'.id ≠ e2.id := fun x => hd2 (x ▸ hd')
        exact hw.disj e' e2 he' he2 hne b hb' hb2
      · have := (sp.owned_ids (hw.inv e2 he2).1 b hb2).2
        omega
    intro e1 e2 he1 he2 hne b hb1
    simp only [List.mem_append] at he1 he2
    rcases he1 with he1 | he1 <;> rcases he2 with he2 | he2
    · exact hnews_disj e1 e2 he1 he2 hne b hb1
    · exact hnew_old e1 e2 he1 (hkeep e2 he2).1 (hkeep e2 he2).2 b hb1
    · intro hb2
      exact hnew_old e2 e1 he2 (hkeep e1 he1).1 (hkeep e1 he1).2 b hb2 hb1
    · exact hw.disj e1 e2 (hkeep e1 he1).1 (hkeep e2 he2).1 hne b hb1

/-! the shapes `World.put` / `World.remove` produce -/

theorem put_eq (objs : List Entry) (e : Entry) :
    World.put objs e = [e] ++ objs.filter (fun x => decide (x.id ∉ ([e.id] : List Nat))) := by
  unfold World.put
  simp only [List.singleton_append, List.cons.injEq, true_and]
  apply List.filter_congr
  intro x _
  by_cases h : x.id = e.id <;> simp [h]

theorem put_put_eq (objs : List Entry) (e1 e2 : Entry) (hne : e1.id ≠ e2.id) :
    World.put (World.put objs e2) e1 = [e1, e2] ++ objs.filter (fun x => decide (x.id ∉ ([e1.id, e2.id] : List Nat))) := by
  unfold World.put
  have h21 : (e2.id != e1.id) = true := by simp [bne_iff_ne]; exact fun x => hne x.symm
  simp only [List.filter_cons, h21, if_true, List.cons_append, List.nil_append, List.cons.injEq, true_and, List.filter_filter]
  apply List.filter_congr
  intro x _
  by_cases h1 : x.id = e1.id <;> by_cases h2 : x.id = e2.id <;> simp [h1, h2]

theorem remove_eq (w : World) (id : Nat) :
    w.remove id = [] ++ w.objs.filter (fun x => decide (x.id ∉ ([id] : List Nat))) := by
  unfold World.remove
  simp only [List.nil_append]
  apply List.filter_congr
  intro x _
  by_cases h : x.id = id <;> simp [h]

end DS.Life

/- Cover predicate ("every recorded item's index bits are set") and how each model op moves the bit states. -/
import DSProofs.Lemmas.BloomBits
import DSModel.Bloom.Spec
namespace DS.Bloom

variable {ι : Type}

/-! ### ghost algebra -/

@[simp] theorem Ghost.set_S_same (g : Ghost ι) (k : Key) (c : Cfg) (l : List ι) : (g.set k c l).S k = l := by simp [Ghost.set]
@[simp] theorem Ghost.set_C_same (g : Ghost ι) (k : Key) (c : Cfg) (l : List ι) : (g.set k c l).C k = c := by simp [Ghost.set]
theorem Ghost.set_S_ne (g : Ghost ι) {k k' : Key} (c : Cfg) (l : List ι) (h : k' ≠ k) : (g.set k c l).S k' = g.S k' := by simp [Ghost.set, h]
theorem Ghost.set_C_ne (g : Ghost ι) {k k' : Key} (c : Cfg) (l : List ι) (h : k' ≠ k) : (g.set k c l).C k' = g.C k' := by simp [Ghost.set, h]

theorem mem_under (g : Ghost ι) (k : Key) (c : Cfg) (x : ι) : x ∈ g.under k c ↔ g.C k = c ∧ x ∈ g.S k := by
  unfold Ghost.under
  by_cases h : g.C k = c <;> simp [h]

/-! ### index bounds -/

theorem idx_lt (h0 h1 cap i : Nat) (hc : 0 < cap) : idx h0 h1 cap i < cap := Nat.mod_lt _ hc

theorem mem_indices_lt (h0 h1 cap k j : Nat) (hc : 0 < cap) (hj : j ∈ indices h0 h1 cap k) : j < cap := by
  simp only [indices, List.mem_map] at hj
  rcases hj with ⟨a, _, rfl⟩
  exact idx_lt _ _ _ _ hc

/-! ### Covers -/

/-- every item of `l` has all its index bits (configuration `c`) set in `X` at bit offset `off` -/
def Covers (hf : ι → Nat → Option (Nat × Nat)) (X off : Nat) (c : Cfg) (l : List ι) : Prop :=
  ∀ x ∈ l, ∀ h, hf x c.seed = some h → allSet X off (indices h.1 h.2 c.cap c.k) = true

theorem Covers.nil (hf : ι → Nat → Option (Nat × Nat)) (X off : Nat) (c : Cfg) : Covers hf X off c [] := by
  intro x hx; simp at hx

/-- bits that only grow (on the window `off .. off+cap`) keep covering -/
theorem Covers.mono {hf : ι → Nat → Option (Nat × Nat)} {X Y off off' : Nat} {c : Cfg} {l : List ι}
    (hc : Covers hf X off c l) (hcap : 0 < c.cap)
    (hm : ∀ j, j < c.cap → X.testBit (off + j) = true → Y.testBit (off' + j) = true) : Covers hf Y off' c l := by
  intro x hx h hh
  apply allSet_mono X Y off off' _ _ (hc x hx h hh)
  intro j hj hb
  exact hm j (mem_indices_lt _ _ _ _ _ hcap hj) hb

theorem Covers.sub {hf : ι → Nat → Option (Nat × Nat)} {X off : Nat} {c : Cfg} {l l' : List ι}
    (hc : Covers hf X off c l) (hs : ∀ x, x ∈ l' → x ∈ l) : Covers hf X off c l' :=
  fun x hx h hh => hc x (hs x hx) h hh

theorem Covers.append {hf : ι → Nat → Option (Nat × Nat)} {X off : Nat} {c : Cfg} {l l' : List ι}
    (h1 : Covers hf X off c l) (h2 : Covers hf X off c l') : Covers hf X off c (l ++ l') := by
  intro x hx h hh
  rcases List.mem_append.mp hx with hx | hx
  · exact h1 x hx h hh
  · exact h2 x hx h hh

theorem Covers.cons_setBits {hf : ι → Nat → Option (Nat × Nat)} {X off : Nat} {c : Cfg} {l : List ι} {x : ι} {h : Nat × Nat}
    (hc : Covers hf X off c l) (hcap : 0 < c.cap) (hx : hf x c.seed = some h) :
    Covers hf (setBits X off (indices h.1 h.2 c.cap c.k)) off c (x :: l) := by
  intro y hy h' hh'
  rcases List.mem_cons.mp hy with rfl | hy
  · rw [hx] at hh'; cases hh'; exact allSet_setBits _ _ _
  · exact (hc.mono hcap (fun j _ hb => testBit_setBits_mono _ _ _ _ hb)) y hy h' hh'

/-! ### where the bits of a key live -/

def keyVal (w : World) : Key → Nat
  | .own v => match w.filters v with
    | some f => (match f.ref with | .owned b => b | .mem _ => 0)
    | none => 0
  | .mem m => w.blockVal m

def keyOff (P : Params) : Key → Nat
  | .own _ => 0
  | .mem _ => 8 * P.bitsOff

theorem val_eq_keyVal (w : World) (v : Nat) (f : Filter) (h : w.filters v = some f) : w.val f = keyVal w (keyOf v f) := by
  unfold World.val keyOf keyVal
  cases hr : f.ref with
  | owned b => simp [h, hr]
  | mem m => simp

theorem off_eq_keyOff (P : Params) (v : Nat) (f : Filter) : f.off P = keyOff P (keyOf v f) := by
  unfold Filter.off keyOf keyOff
  cases f.ref <;> rfl

/-- the invariant: every bit state covers what the ghost recorded for it -/
def Cover (P : Params) (hf : ι → Nat → Option (Nat × Nat)) (w : World) (g : Ghost ι) : Prop :=
  ∀ key, Covers hf (keyVal w key) (keyOff P key) (g.C key) (g.S key)

/-- every filter has a positive capacity that is a multiple of 64 (so the bit array has no bits beyond the capacity) -/
def CapPos (w : World) : Prop := ∀ v f, w.filters v = some f → 0 < f.capBits ∧ f.capBits % 64 = 0

/-! ### frame lemmas: what `setFilter`, `setBlock`, `commit` do to `keyVal` -/

theorem keyVal_setFilter_mem (w : World) (v : Nat) (f : Filter) (m : Nat) : keyVal (w.setFilter v f) (.mem m) = keyVal w (.mem m) := rfl

theorem keyVal_setFilter_own_ne (w : World) (v v' : Nat) (f : Filter) (h : v' ≠ v) :
    keyVal (w.setFilter v f) (.own v') = keyVal w (.own v') := by
  simp [keyVal, World.setFilter, h]

theorem keyVal_setFilter_own (w : World) (v : Nat) (f : Filter) :
    keyVal (w.setFilter v f) (.own v) = (match f.ref with | .owned b => b | .mem _ => 0) := by
  simp [keyVal, World.setFilter]

theorem keyVal_setBlock_own (w : World) (m : Nat) (b : Block) (v : Nat) : keyVal (w.setBlock m b) (.own v) = keyVal w (.own v) := rfl

theorem keyVal_setBlock_mem_ne (w : World) (m m' : Nat) (b : Block) (h : m' ≠ m) :
    keyVal (w.setBlock m b) (.mem m') = keyVal w (.mem m') := by
  simp [keyVal, World.setBlock, World.blockVal, h]

theorem keyVal_setBlock_mem (w : World) (m : Nat) (b : Block) : keyVal (w.setBlock m b) (.mem m) = b.val := by
  simp [keyVal, World.setBlock, World.blockVal]

/-- `commit` changes only the bit state of the acting filter -/
theorem keyVal_commit_ne (P : Params) (w : World) (v : Nat) (f : Filter) (x nbs : Nat) (d : Bool) (hdr : Option Nat)
    (hv : w.filters v = some f) (key : Key) (hk : key ≠ keyOf v f) :
    keyVal (commit P w v f x nbs d hdr) key = keyVal w key := by
  unfold commit
  cases hr : f.ref with
  | owned b =>
    simp only [keyOf, hr] at hk
    cases key with
    | own v' =>
      have : v' ≠ v := fun e => hk (by rw [e])
      simp [keyVal_setFilter_own_ne _ _ _ _ this]
    | mem m => simp [keyVal_setFilter_mem]
  | mem m =>
    simp only [keyOf, hr] at hk
    cases key with
    | own v' =>
      by_cases e : v' = v
      · subst e
        rw [keyVal_setFilter_own]
        simp [keyVal, hv, hr]
      · simp [keyVal_setFilter_own_ne _ _ _ _ e, keyVal_setBlock_own]
    | mem m' =>
      have : m' ≠ m := fun e => hk (by rw [e])
      simp [keyVal_setFilter_mem, keyVal_setBlock_mem_ne _ _ _ _ this]

/-- the new content of the acting filter's bit state: bits at and above the bit-array offset are those of `x` -/
theorem keyVal_commit_bit (P : Params) (hP : P.nbsOff = 24 ∧ P.bitsOff = 32) (w : World) (v : Nat) (f : Filter) (x nbs : Nat) (d : Bool)
    (hdr : Option Nat) (j : Nat) :
    (keyVal (commit P w v f x nbs d hdr) (keyOf v f)).testBit (keyOff P (keyOf v f) + j) = x.testBit (keyOff P (keyOf v f) + j) := by
  unfold commit
  cases hr : f.ref with
  | owned b => simp [keyOf, hr, keyVal_setFilter_own]
  | mem m =>
    simp only [keyOf, hr, keyVal_setFilter_mem, keyVal_setBlock_mem, keyOff]
    cases hdr with
    | none => rfl
    | some h =>
      by_cases hro : f.readOnly = true
      · simp [hro]
      · have hro' : f.readOnly = false := by simpa using hro
        simp only [hro']
        have : (false = true) = False := by simp
        simp only [this, if_false]
        rw [testBit_setField_out]
        omega

end DS.Bloom

/-
Generic facts about the reader combinators: prefix safety (closed under every combinator) and
little-endian round trips.  Helper lemmas (property statements live in Props/C09..C11).
-/
import DSModel.Wire.Reader
namespace DS.Wire
open Reader

variable {α β : Type}

/-- Prefix safety: a successful read consumed exactly `k` bytes; every shorter prefix is rejected and
every longer prefix yields the same value with the correspondingly shorter remainder. -/
def PS (rd : Reader α) : Prop := ∀ b x r, rd b = some (x, r) →
  ∃ k, k ≤ b.length ∧ r = b.drop k ∧ (∀ n, n < k → rd (b.take n) = none) ∧
       (∀ n, k ≤ n → rd (b.take n) = some (x, (b.take n).drop k))

theorem PS_pure (a : α) : PS (Reader.pure a) := by
  intro b x r h
  simp only [Reader.pure, Option.some.injEq, Prod.mk.injEq] at h
  refine ⟨0, Nat.zero_le _, by simp [h.2], by intro n hn; omega, ?_⟩
  intro n _; simp [Reader.pure, h.1]

theorem PS_fail : PS (Reader.fail : Reader α) := by
  intro b x r h; simp [Reader.fail] at h

theorem PS_byte : PS byte := by
  intro b x r h
  cases b with
  | nil => simp [byte] at h
  | cons y t =>
    simp only [byte, Option.some.injEq, Prod.mk.injEq] at h
    refine ⟨1, by simp, by simp [h.2], ?_, ?_⟩
    · intro n hn
      have : n = 0 := by omega
      subst this; simp [byte]
    · intro n hn
      cases n with
      | zero => omega
      | succ m => simp [byte, List.take_succ_cons, h.1]

theorem PS_bind (m : Reader α) (f : α → Reader β) (hm : PS m) (hf : ∀ a, PS (f a)) : PS (Reader.bind m f) := by
  intro b x r h
  simp only [Reader.bind] at h
  cases hmb : m b with
  | none => simp [hmb] at h
  | some p =>
    obtain ⟨a, r1⟩ := p
    simp only [hmb] at h
    obtain ⟨k1, hk1, hr1, hlt1, hge1⟩ := hm b a r1 hmb
    obtain ⟨k2, hk2, hr2, hlt2, hge2⟩ := hf a r1 x r h
    subst hr1
    have hlen : k2 ≤ b.length - k1 := by simpa using hk2
    refine ⟨k1 + k2, by omega, by rw [hr2, List.drop_drop], ?_, ?_⟩
    · intro n hn
      simp only [Reader.bind]
      by_cases h1 : n < k1
      · rw [hlt1 n h1]
      · have h1' : k1 ≤ n := Nat.le_of_not_lt h1
        rw [hge1 n h1', List.drop_take]
        exact hlt2 (n - k1) (by omega)
    · intro n hn
      simp only [Reader.bind]
      have h1' : k1 ≤ n := by omega
      rw [hge1 n h1', List.drop_take]
      show f a (List.take (n - k1) (List.drop k1 b)) = _
      rw [hge2 (n - k1) (by omega)]
      simp only [List.drop_take, List.drop_drop, Option.some.injEq, Prod.mk.injEq, true_and]
      congr 1
      omega

theorem PS_guard (c : Bool) : PS (guard c) := by
  unfold guard; split
  · exact PS_pure ()
  · exact PS_fail

theorem PS_bytesN : ∀ n, PS (bytesN n)
  | 0 => PS_pure []
  | n + 1 => PS_bind _ _ PS_byte (fun _ => PS_bind _ _ (PS_bytesN n) (fun _ => PS_pure _))

theorem PS_repeatN (r : Reader α) (hr : PS r) : ∀ n, PS (repeatN r n)
  | 0 => PS_pure []
  | n + 1 => PS_bind _ _ hr (fun _ => PS_bind _ _ (PS_repeatN r hr n) (fun _ => PS_pure _))

theorem PS_leNat : ∀ n, PS (leNat n)
  | 0 => PS_pure 0
  | n + 1 => PS_bind _ _ PS_byte (fun _ => PS_bind _ _ (PS_leNat n) (fun _ => PS_pure _))

theorem PS_skip (n : Nat) : PS (skip n) := PS_bind _ _ (PS_bytesN n) (fun _ => PS_pure _)

/-- **Prefix rejection**: if a prefix-safe reader decodes an image completely (no remainder) then every
strict prefix of the image is rejected. -/
theorem prefix_rejected (rd : Reader α) (h : PS rd) (img : Bytes) (x : α) (hd : rd img = some (x, []))
    (n : Nat) (hn : n < img.length) : rd (img.take n) = none := by
  obtain ⟨k, hk, hr, hlt, _⟩ := h img x [] hd
  have : k = img.length := by
    have h1 : (img.drop k).length = 0 := by rw [← hr]; rfl
    simp only [List.length_drop] at h1
    omega
  exact hlt n (by omega)

/-! ### little-endian round trips -/

theorem length_wLe (n x : Nat) : (wLe n x).length = n := by
  induction n generalizing x with
  | zero => rfl
  | succ n ih => simp [wLe, ih]

theorem leNat_wLe (n x : Nat) (hx : x < 256 ^ n) (r : Bytes) : leNat n (wLe n x ++ r) = some (x, r) := by
  induction n generalizing x with
  | zero =>
    have : x = 0 := by simpa using hx
    subst this; rfl
  | succ n ih =>
    have hdiv : x / 256 < 256 ^ n := by
      rw [Nat.div_lt_iff_lt_mul (by decide)]
      rw [Nat.pow_succ] at hx; exact hx
    simp only [wLe, leNat, List.cons_append, Reader.bind, byte, ih (x / 256) hdiv, Reader.pure]
    have h256 : (UInt8.ofNat (x % 256)).toNat = x % 256 := by
      simp [UInt8.toNat_ofNat', Nat.mod_mod_of_dvd]
    rw [h256]
    congr 2
    omega

theorem u8_w8 (x : Nat) (hx : x < 2^8) (r : Bytes) : u8 (w8 x ++ r) = some (x, r) := leNat_wLe 1 x (by simpa using hx) r
theorem u16_w16 (x : Nat) (hx : x < 2^16) (r : Bytes) : u16 (w16 x ++ r) = some (x, r) := leNat_wLe 2 x (by omega) r
theorem u32_w32 (x : Nat) (hx : x < 2^32) (r : Bytes) : u32 (w32 x ++ r) = some (x, r) := leNat_wLe 4 x (by omega) r
theorem u64_w64 (x : Nat) (hx : x < 2^64) (r : Bytes) : u64 (w64 x ++ r) = some (x, r) := leNat_wLe 8 x (by omega) r

theorem bytesN_append (a r : Bytes) : bytesN a.length (a ++ r) = some (a, r) := by
  induction a with
  | nil => rfl
  | cons x t ih => simp [bytesN, Reader.bind, byte, ih, Reader.pure]

theorem skip_zeros (n : Nat) (r : Bytes) : skip n (wZeros n ++ r) = some ((), r) := by
  have := bytesN_append (wZeros n) r
  simp only [wZeros, List.length_replicate] at this
  simp [skip, Reader.bind, wZeros, this, Reader.pure]

end DS.Wire

/- serialize -> deserialize on a state satisfying the invariant (non-gadget): an explicit formula. -/
import DSProofs.Lemmas.VarOptQuery
namespace DS.VarOpt
open DS

/-- what `deserialize(serialize(sk))` is for a non-gadget sketch satisfying the invariant: the same regions and
    counters; `m_` is left at 1 (`mStale`) exactly when the sketch is in estimation mode -/
theorem serde_formula (T : Tunables) (sk : Sk Rat) (ins L : List E) (hinv : Inv sk ins L) (hgad : sk.gadget = false)
    (hk : sk.k ≤ T.maxK) (hne : sk.isEmpty = false) :
    ∃ a, serdeRoundTrip T sk = some { sk with M := [], totalWtR := if sk.R.length > 0 then sk.totalWtR else 0,
                                              numMarksInH := 0, mStale := decide (sk.R.length > 0) && !T.deserializeM0, alloc := a } := by
  have hmarks : ∀ e ∈ sk.H, e.mark = false := hinv.marks.2 hgad
  have hHmap : sk.H.map (fun e => ({ e with mark := sk.gadget && e.mark } : E)) = sk.H := by
    conv_rhs => rw [← List.map_id sk.H]
    apply List.map_congr_left
    intro e he
    have hm := hmarks e he
    cases e
    simp only at hm
    simp [hm]
  have hHpos : ∀ e ∈ sk.H, 0 < e.wt := fun e he => hinv.pos e (hinv.perm.symm.subset (List.mem_append_left _ he))
  have hkpos := hinv.kpos
  have hc0 : (sk.k == 0 || decide (sk.k > T.maxK)) = false := by simp; omega
  have hwts : (sk.H.any (fun e => !(Num.lt (Num.zero : Rat) e.wt))) = false := by
    simp only [List.any_eq_false]
    intro e he
    simp [hHpos e he]
  have hlen := hinv.perm.length_eq
  rw [List.length_append] at hlen
  have hshape : (if sk.n ≤ sk.k then (sk.R.length == 0 && sk.n == sk.H.length)
      else (decide (sk.R.length > 0) && sk.H.length + sk.R.length == sk.k)) = true := by
    by_cases hR : sk.R = []
    · obtain ⟨hL, hhk, _⟩ := hinv.warm hR
      have hnh : sk.n = sk.H.length := by rw [hinv.n_eq, hlen, hL]; simp
      rw [if_pos (by omega)]; simp [hR, hnh]
    · have he := hinv.est hR
      have hrpos : 0 < sk.R.length := length_pos_of_ne_nil hR
      have hnk : ¬ sk.n ≤ sk.k := by
        rw [hinv.n_eq, hlen]
        have := he.cnt; have := he.rLen; omega
      rw [if_neg hnk]; simp [hrpos, he.cnt]
  have hwr : (decide (sk.R.length > 0) && !(Num.lt (Num.zero : Rat) sk.totalWtR)) = false := by
    by_cases hR : sk.R = []
    · simp [hR]
    · have he := hinv.est hR
      have hLne : L ≠ [] := by intro h; have := he.rLen; rw [h] at this; simp at this
      have hWpos : 0 < sk.totalWtR := by
        rw [he.wtR]
        exact sumW_pos hLne (fun e heL => hinv.pos e (hinv.perm.symm.subset (List.mem_append_right _ heL)))
      simp [hWpos]
  unfold serdeRoundTrip
  rw [if_neg (by rw [hc0]; simp), if_neg (by rw [hne]; simp)]
  simp only []
  rw [if_neg (by rw [hshape]; simp), if_neg (by rw [hwr]; simp), if_neg (by rw [hwts]; simp)]
  rw [hHmap]
  refine ⟨if sk.n ≤ sk.k then
      leaveGap sk.k (getAdjustedSize sk.k (2 ^ startingSubMultiple (Nat.log2 (ceilPow2 sk.k)) sk.rf (Nat.log2 (ceilPow2 sk.H.length))))
    else sk.k + 1, ?_⟩
  simp [hgad]

/-- the deserialized copy satisfies the invariant (so it keeps accepting the stream) when the sketch is in warm-up,
    or — in any mode — when the reader is the repaired one (`T.deserializeM0`) -/
theorem serde_inv (T : Tunables) (sk : Sk Rat) (ins L : List E) (hinv : Inv sk ins L) (hgad : sk.gadget = false)
    (hk : sk.k ≤ T.maxK) (hne : sk.isEmpty = false) (hok : sk.R = [] ∨ T.deserializeM0 = true) :
    ∃ sk2, serdeRoundTrip T sk = some sk2 ∧ Inv sk2 ins L ∧ sk2.gadget = false := by
  obtain ⟨a, hform⟩ := serde_formula T sk ins L hinv hgad hk hne
  refine ⟨_, hform, ?_, hgad⟩
  have hfresh : (decide (sk.R.length > 0) && !T.deserializeM0) = false := by
    rcases hok with h | h
    · simp [h]
    · simp [h]
  have hmk : (0 : Nat) = countMarks sk.H := by
    unfold countMarks
    rw [List.filter_eq_nil_iff.mpr (fun e he => by simp [hinv.marks.2 hgad e he])]; rfl
  refine { kpos := hinv.kpos, mnil := rfl, fresh := hfresh, n_eq := hinv.n_eq, perm := hinv.perm, pos := hinv.pos,
           marks := ⟨hmk, hinv.marks.2⟩, warm := ?_, est := ?_ }
  · intro hR
    obtain ⟨hL, hhk, _⟩ := hinv.warm hR
    have hR' : sk.R = [] := hR
    exact ⟨hL, hhk, by simp [hR']⟩
  · intro hR
    have hR' : sk.R ≠ [] := hR
    have he := hinv.est hR'
    have hrpos : sk.R.length > 0 := length_pos_of_ne_nil hR'
    have hW : (if sk.R.length > 0 then sk.totalWtR else 0) = sk.totalWtR := by rw [if_pos hrpos]
    exact { cnt := he.cnt, heap := he.heap, wtR := by show (if sk.R.length > 0 then sk.totalWtR else 0) = sumW L; rw [hW]; exact he.wtR,
            rItems := he.rItems, rLen := he.rLen,
            lLight := fun e h => by show e.wt * (sk.R.length : Rat) ≤ (if sk.R.length > 0 then sk.totalWtR else 0); rw [hW]; exact he.lLight e h,
            hHeavy := fun e h => by show (if sk.R.length > 0 then sk.totalWtR else 0) ≤ e.wt * (sk.R.length : Rat); rw [hW]; exact he.hHeavy e h }

end DS.VarOpt

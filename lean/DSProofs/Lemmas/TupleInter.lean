/- Summaries inside the intersection: policy folded over the summaries of ALL inputs, in presentation order. -/
import DSProofs.Lemmas.TupleUnion
namespace DS.Theta

variable {σ : Type}

/-- summaries carried with key `k` by the processed inputs, in order -/
def sumsAll (k : Nat) : List (Compact σ) → List σ
  | [] => []
  | sk :: r => sumsIn k sk.ents ++ sumsAll k r

theorem sumsAll_append (k : Nat) (P : List (Compact σ)) (sk : Compact σ) :
    sumsAll k (P ++ [sk]) = sumsAll k P ++ sumsIn k sk.ents := by
  induction P with
  | nil => simp [sumsAll]
  | cons a t ih => simp [sumsAll, ih, List.append_assoc]

theorem mem_of_lookup (k : Nat) (v : σ) (l : List (Nat × σ)) (h : lookup k l = some v) : (k, v) ∈ l := by
  induction l with
  | nil => simp [lookup] at h
  | cons a t ih =>
    obtain ⟨k0, v0⟩ := a
    simp only [lookup] at h
    split at h
    · rename_i he; subst he; simp only [Option.some.injEq] at h; subst h; simp
    · simp [ih h]

theorem mem_insertKV (e x : Nat × σ) (l : List (Nat × σ)) : x ∈ insertKV e l ↔ x = e ∨ x ∈ l := by
  induction l with
  | nil => simp [insertKV]
  | cons a t ih =>
    simp only [insertKV]
    split
    · simp
    · simp only [List.mem_cons, ih]
      constructor
      · rintro (h | h | h) <;> simp [h]
      · rintro (h | h | h) <;> simp [h]

theorem mem_sortKV (x : Nat × σ) (l : List (Nat × σ)) : x ∈ sortKV l ↔ x ∈ l := by
  induction l with
  | nil => simp [sortKV]
  | cons a t ih =>
    have : sortKV (a :: t) = insertKV a (sortKV t) := rfl
    rw [this, mem_insertKV, ih]; simp

theorem sumsIn_of_mem_nodup (k : Nat) (v : σ) (l : List (Nat × σ)) (hn : (keys l).Nodup) (h : (k, v) ∈ l) :
    sumsIn k l = [v] := by
  induction l with
  | nil => simp at h
  | cons a t ih =>
    obtain ⟨k0, v0⟩ := a
    simp only [keys_cons, List.nodup_cons] at hn
    simp only [List.mem_cons, Prod.mk.injEq] at h
    rw [sumsIn_cons]
    rcases h with ⟨rfl, rfl⟩ | h
    · simp [sumsIn_nil_of_not_mem k t hn.1]
    · have hk : k ∈ keys t := by unfold keys; exact List.mem_map.2 ⟨(k, v), h, rfl⟩
      have : ¬ k = k0 := by rintro rfl; exact hn.1 hk
      simp [this, ih hn.2 h]

/-- what the match loop produces: every produced entry pairs a table summary with the incoming one -/
theorem mem_interLoop (pol : σ → σ → σ) (θ : Nat) (tbl : List (Nat × σ)) (ord : Bool) (l : List (Nat × σ)) (k : Nat) (v : σ)
    (h : (k, v) ∈ interLoop pol θ tbl ord l) : ∃ x e2, lookup k tbl = some x ∧ (k, e2) ∈ l ∧ v = pol x e2 := by
  induction l with
  | nil => simp [interLoop] at h
  | cons e t ih =>
    simp only [interLoop] at h
    split at h
    · split at h
      · rename_i x hx
        simp only [List.mem_cons, Prod.mk.injEq] at h
        rcases h with ⟨rfl, rfl⟩ | h
        · exact ⟨x, e.2, hx, by simp, rfl⟩
        · obtain ⟨x', e2, h1, h2, h3⟩ := ih h
          exact ⟨x', e2, h1, by simp [h2], h3⟩
      · obtain ⟨x', e2, h1, h2, h3⟩ := ih h
        exact ⟨x', e2, h1, by simp [h2], h3⟩
    · split at h
      · simp at h
      · obtain ⟨x', e2, h1, h2, h3⟩ := ih h
        exact ⟨x', e2, h1, by simp [h2], h3⟩

/-- shape of the entries after one intersection update -/
theorem interUpdate_ents (pol : σ → σ → σ) (sh : Nat) (i i' : Inter σ) (sk : Compact σ)
    (hu : interUpdate pol sh i sk = some i') :
    i'.ents = [] ∨ (i.isEmpty = true ∧ i' = i) ∨ (i.valid = false ∧ i'.ents = sortKV sk.ents) ∨
    (i.valid = true ∧ ∃ θ, i'.ents = sortKV (interLoop pol θ i.ents sk.ordered sk.ents)) := by
  unfold interUpdate at hu
  split at hu
  · rename_i he; simp only [Option.some.injEq] at hu; exact Or.inr (Or.inl ⟨he, hu.symm⟩)
  · split at hu
    · cases hu
    · simp only at hu
      split at hu
      · simp only [Option.some.injEq] at hu
        rename_i hc
        simp only [Bool.and_eq_true, List.isEmpty_iff] at hc
        left; subst hu; exact hc.2
      · split at hu
        · simp only [Option.some.injEq] at hu; left; subst hu; rfl
        · split at hu
          · rename_i hv
            split at hu
            · cases hu
            · simp only [Option.some.injEq] at hu
              right; right; left
              refine ⟨by simpa using hv, ?_⟩
              subst hu; rfl
          · rename_i hv
            have hv' : i.valid = true := by simpa using hv
            repeat' (split at hu)
            all_goals (injection hu with hu; subst hu; first | (left; rfl) | (right; right; right; exact ⟨hv', _, rfl⟩))

/-- every stored summary is the fold over all processed inputs -/
def ISum (pol : σ → σ → σ) (P : List (Compact σ)) (i : Inter σ) : Prop :=
  ∀ k v, lookup k i.ents = some v → foldSums pol (sumsAll k P) = some v

theorem isum_update (pol : σ → σ → σ) (sh : Nat) (P : List (Compact σ)) (i i' : Inter σ) (sk : Compact σ)
    (hI : IInv P i) (hS : ISum pol P i) (hw : WFop sk) (hu : interUpdate pol sh i sk = some i') :
    ISum pol (P ++ [sk]) i' := by
  intro k v hv
  rw [sumsAll_append]
  rcases interUpdate_ents pol sh i i' sk hu with h | ⟨he, h⟩ | ⟨hval, h⟩ | ⟨hval, θ, h⟩
  · rw [h] at hv; simp [lookup] at hv
  · -- input ignored: the intersection was already exactly empty, so it has no entries
    subst h
    have := (hI.em he).1
    rw [this] at hv; simp [lookup] at hv
  · have hkv : (k, v) ∈ i'.ents := mem_of_lookup k v _ hv
    rw [h, mem_sortKV] at hkv
    have hPnil : P = [] := by
      apply Classical.byContradiction
      intro hc
      have := (hI.valid_iff).2 hc
      rw [hval] at this; cases this
    subst hPnil
    simp [sumsAll, sumsIn_of_mem_nodup k v sk.ents hw.nodup hkv, foldSums]
  · have hkv : (k, v) ∈ i'.ents := mem_of_lookup k v _ hv
    rw [h, mem_sortKV] at hkv
    obtain ⟨x, e2, h4, h5, h6⟩ := mem_interLoop pol _ _ _ _ k v hkv
    rw [sumsIn_of_mem_nodup k e2 sk.ents hw.nodup h5, foldSums_snoc, hS k x h4, h6]

end DS.Theta

namespace DS.Theta
variable {σ : Type}

theorem isum_fold (pol : σ → σ → σ) (sh : Nat) (sks : List (Compact σ)) :
    ∀ (P : List (Compact σ)) (i i' : Inter σ), IInv P i → ISum pol P i → (∀ s, s ∈ P → WFop s) → (∀ s, s ∈ sks → WFop s) →
      interFold pol sh i sks = some i' → IInv (P ++ sks) i' ∧ ISum pol (P ++ sks) i' := by
  induction sks with
  | nil =>
    intro P i i' h hS _ _ hf
    simp only [interFold, Option.some.injEq] at hf
    subst hf; simpa using ⟨h, hS⟩
  | cons sk rest ih =>
    intro P i i' h hS hwP hw hf
    simp only [interFold] at hf
    cases hup : interUpdate pol sh i sk with
    | none => simp [hup] at hf
    | some i1 =>
      simp only [hup] at hf
      have h1 := iinv_update pol sh P i i1 sk h hwP (hw sk (by simp)) hup
      have h2 := isum_update pol sh P i i1 sk h hS (hw sk (by simp)) hup
      have := ih (P ++ [sk]) i1 i' h1 h2 (by
        intro s hs
        simp only [List.mem_append, List.mem_singleton] at hs
        rcases hs with hs | rfl
        · exact hwP s hs
        · exact hw s (by simp)) (fun s hs => hw s (by simp [hs])) hf
      simpa [List.append_assoc] using this

end DS.Theta

/-
Structural invariant of the classic quantiles sketch and the specs (invariant + arities + weight sums) of
`process_full_base_buffer`, `update` and a run of updates.
-/
import DSProofs.Lemmas.QuantilesSpec
namespace DS.Quantiles

open Tree

variable {α : Type}

/-- what every reachable sketch satisfies (`S` = sortedness predicate on buffers, see `SortOK`) -/
structure Inv (c : Cmp α) (S : List α → Prop) (s : Sketch α) : Prop where
  kpow : ∃ e, s.k = 2 ^ e
  bb_len : s.bb.length = s.n % (2 * s.k)
  bits_eq : s.bits = s.n / (2 * s.k)
  lv_len : s.levels.length = bitLen s.bits
  lv_shape : LevelsShape S s.k s.levels s.bits
  bb_ok : ∀ x ∈ s.bb, c.nan x = false
  bb_sorted : s.bbSorted = true → S s.bb

theorem Inv.kpos {c : Cmp α} {S : List α → Prop} {s : Sketch α} (h : Inv c S s) : 0 < s.k := by
  obtain ⟨e, he⟩ := h.kpow
  rw [he]; exact Nat.two_pow_pos e

/-! ### arithmetic helpers -/

theorem succ_divmod_lt {K n : Nat} (hK : 0 < K) (h : n % K + 1 < K) :
    (n + 1) / K = n / K ∧ (n + 1) % K = n % K + 1 := by
  apply (Nat.div_mod_unique hK).2
  have := Nat.mod_add_div n K
  constructor <;> omega

theorem succ_divmod_eq {K n : Nat} (hK : 0 < K) (h : n % K + 1 = K) :
    (n + 1) / K = n / K + 1 ∧ (n + 1) % K = 0 := by
  apply (Nat.div_mod_unique hK).2
  have := Nat.mod_add_div n K
  constructor
  · rw [Nat.mul_add]; omega
  · exact hK

theorem bitLen_succ_le (q : Nat) : bitLen (q + 1) ≤ bitLen q + 1 := by
  apply bitLen_le_of_lt_two_pow
  have := lt_two_pow_bitLen q
  rw [Nat.pow_succ]; omega

section
variable (c : Cmp α) (p : α → Bool) {S : List α → Prop} (hS : SortOK c.lt S)
include hS

theorem processFull_spec (s1 : Sketch α) (hk : 0 < s1.k) (hbb : s1.bb.length = 2 * s1.k)
    (hlen : s1.levels.length = bitLen s1.bits) (hsh : LevelsShape S s1.k s1.levels s1.bits)
    (hn : s1.n / (2 * s1.k) = s1.bits + 1) :
    Spec (fun s' => s'.k = s1.k ∧ s'.n = s1.n ∧ s'.bb = [] ∧ s'.bits = s1.bits + 1 ∧
        s'.levels.length = bitLen (s1.bits + 1) ∧ LevelsShape S s1.k s'.levels (s1.bits + 1) ∧
        s'.minItem = s1.minItem ∧ s'.maxItem = s1.maxItem ∧ s'.bbSorted = true)
      (2 :: rippleAr (bitLen (s1.bits + 1)) s1.bits) (wSketch p) (wSketch p s1) (processFullBaseBuffer c s1) := by
  -- the sketch after grow_levels_if_needed
  have hg : ∃ lv, growLevelsIfNeeded s1 = { s1 with levels := lv } ∧ lv.length = bitLen (s1.bits + 1) ∧
      LevelsShape S s1.k lv s1.bits ∧ wLevels p 2 lv = wLevels p 2 s1.levels := by
    unfold growLevelsIfNeeded
    simp only [hn]
    have h1 : bitLen (s1.bits + 1) ≠ 0 := by
      intro h; have := bitLen_eq_zero.mp h; omega
    have h2 := bitLen_succ_le s1.bits
    have h3 : bitLen s1.bits ≤ bitLen (s1.bits + 1) := bitLen_mono (Nat.le_succ s1.bits)
    by_cases hle : bitLen (s1.bits + 1) ≤ s1.levels.length
    · refine ⟨s1.levels, ?_, by omega, hsh, rfl⟩
      simp [h1, hle]
    · refine ⟨s1.levels ++ [[]], ?_, by simp; omega, ?_, ?_⟩
      · simp [h1, hle]
      · exact hsh.append_nil hS.nil 1
      · exact wLevels_append_replicate_nil p 2 s1.levels 1
  obtain ⟨lv, hgeq, hlvlen, hlvsh, hlvw⟩ := hg
  unfold processFullBaseBuffer propagateCarry
  simp only [hgeq, if_true]
  have hsorted : (sortBuf c.lt s1.bb).length = 2 * s1.k := by rw [sortBuf_length, hbb]
  have hroom : s1.bits + 2 ^ 0 < 2 ^ lv.length := by
    rw [hlvlen]; simpa using lt_two_pow_bitLen (s1.bits + 1)
  -- one branch of the first coin
  have hbranch : ∀ cn, cn < 2 →
      Spec (fun s2 : Sketch α => s2.k = s1.k ∧ s2.n = s1.n ∧ s2.bits = s1.bits + 1 ∧ s2.levels.length = bitLen (s1.bits + 1) ∧
          LevelsShape S s1.k s2.levels (s1.bits + 1) ∧ s2.minItem = s1.minItem ∧ s2.maxItem = s1.maxItem)
        (rippleAr (bitLen (s1.bits + 1)) s1.bits) (fun s2 => wLevels p 2 s2.levels)
        (2 * (strided 2 cn (sortBuf c.lt s1.bb)).countP p + wLevels p 2 s1.levels)
        ((carryFrom c.lt 0 lv s1.bits (strided 2 cn (sortBuf c.lt s1.bb))).map
          (fun lv' => { s1 with levels := lv', bits := s1.bits + 2 ^ 0 })) := by
    intro cn hcn
    have h := carryFrom_spec c.lt p s1.k hS 0 lv s1.bits (strided 2 cn (sortBuf c.lt s1.bb)) 2 hlvsh
      (strided_length hsorted hcn) (hS.strided _ _ _ (hS.sort _)) hroom
    refine (Spec.map h ?_).congr (by simp [carryAr, hlvlen]) (by simp [hlvw])
    intro r hr
    exact ⟨⟨rfl, rfl, by simp, by simpa [hlvlen] using hr.2, by simpa using hr.1, rfl, rfl⟩, rfl⟩
  have hch := Spec.choose (Xtot := wSketch p s1) (by omega : 0 < 2) hbranch (by
    simp only [Tree.sumRange, Nat.zero_add]
    have h2 := strided_two_countP p (sortBuf c.lt s1.bb)
    rw [(sortBuf_perm c.lt s1.bb).countP_eq] at h2
    unfold wSketch
    omega)
  refine Spec.map hch ?_
  intro s2 hs2
  obtain ⟨a1, a2, a3, a4, a5, a6, a7⟩ := hs2
  exact ⟨⟨a1, a2, rfl, a3, a4, a5, a6, a7, rfl⟩, by simp [wSketch]⟩

/-- the new minimum after offering `x` -/
def newMin (lt : α → α → Bool) (s : Sketch α) (x : α) : Option α :=
  if s.n = 0 then some x else s.minItem.map (fun m => if lt x m then x else m)

def newMax (lt : α → α → Bool) (s : Sketch α) (x : α) : Option α :=
  if s.n = 0 then some x else s.maxItem.map (fun m => if lt m x then x else m)

/-- postcondition of one accepted `update` -/
def UpdPost (c : Cmp α) (S : List α → Prop) (s : Sketch α) (x : α) (s' : Sketch α) : Prop :=
  Inv c S s' ∧ s'.k = s.k ∧ s'.n = s.n + 1 ∧ s'.minItem = newMin c.lt s x ∧ s'.maxItem = newMax c.lt s x ∧
    ((s'.bb = s.bb ++ [x] ∧ s'.bits = s.bits ∧ s'.levels = s.levels) ∨ (s'.bb = [] ∧ s'.bits = s.bits + 1))

theorem update_spec (s : Sketch α) (x : α) (hs : Inv c S s) (hx : c.nan x = false) :
    Spec (UpdPost c S s x) (updateAr s.k s.n) (wSketch p) (wSketch p s + (if p x then 1 else 0)) (s.update c x) := by
  have hk := hs.kpos
  have hK : 0 < 2 * s.k := by omega
  unfold Sketch.update
  simp only [hx, Bool.false_eq_true, if_false]
  have hlen1 : (s.bb ++ [x]).length = s.n % (2 * s.k) + 1 := by simp [hs.bb_len]
  have hw1 : (s.bb ++ [x]).countP p = s.bb.countP p + (if p x then 1 else 0) := by
    simp [List.countP_append, List.countP_cons]
  by_cases hfull : s.n % (2 * s.k) + 1 = 2 * s.k
  · -- the base buffer is full
    obtain ⟨hd, hm⟩ := succ_divmod_eq hK hfull
    have hcond : (s.bb ++ [x]).length = 2 * s.k := by rw [hlen1, hfull]
    simp only [hcond, if_true]
    have hsp := processFull_spec c p hS
      { s with minItem := newMin c.lt s x, maxItem := newMax c.lt s x, bb := s.bb ++ [x], n := s.n + 1,
               bbSorted := if s.bb.length + 1 > 1 then false else s.bbSorted }
      hk hcond hs.lv_len hs.lv_shape (by simp [hd, hs.bits_eq])
    have har : updateAr s.k s.n = 2 :: rippleAr (bitLen (s.bits + 1)) s.bits := by
      unfold updateAr
      simp [hm, hd, hs.bits_eq]
    refine ((hsp.weaken ?_).congr har.symm ?_)
    · intro s' h'
      obtain ⟨b1, b2, b3, b4, b5, b6, b7, b8, b9⟩ := h'
      simp only at b1 b2 b5 b6 b7 b8
      refine ⟨⟨?_, ?_, ?_, ?_, ?_, ?_, ?_⟩, b1, b2, b7, b8, Or.inr ⟨b3, b4⟩⟩
      · rw [b1]; exact hs.kpow
      · rw [b3, b2, b1, hm]; rfl
      · rw [b4, b2, b1, hd, hs.bits_eq]
      · rw [b5, b4]
      · rw [b1, b4]; exact b6
      · rw [b3]; intro y hy; simp at hy
      · intro _; rw [b3]; exact hS.nil
    · simp only [wSketch, hw1]; omega
  · -- room left in the base buffer
    have hlt : s.n % (2 * s.k) + 1 < 2 * s.k := by
      have := Nat.mod_lt s.n hK; omega
    obtain ⟨hd, hm⟩ := succ_divmod_lt hK hlt
    have hcond : ¬ (s.bb ++ [x]).length = 2 * s.k := by rw [hlen1]; exact hfull
    simp only [hcond, if_false]
    have har : updateAr s.k s.n = [] := by
      unfold updateAr
      have : ¬ (s.n + 1) % (2 * s.k) = 0 := by rw [hm]; omega
      simp [this]
    rw [har]
    refine Spec.done ⟨⟨hs.kpow, ?_, ?_, hs.lv_len, hs.lv_shape, ?_, ?_⟩, rfl, rfl, rfl, rfl, Or.inl ⟨rfl, rfl, rfl⟩⟩ ?_
    · simp only; rw [hlen1, hm]
    · simp only; rw [hd]; exact hs.bits_eq
    · intro y hy
      rcases List.mem_append.mp hy with hy | hy
      · exact hs.bb_ok y hy
      · simp at hy; rw [hy]; exact hx
    · simp only
      intro hflag
      by_cases hl : s.bb.length + 1 > 1
      · simp [hl] at hflag
      · have : s.bb = [] := List.eq_nil_of_length_eq_zero (by omega)
        rw [this]; exact hS.single x
    · simp only [wSketch, hw1]; omega

/-- a run of accepted updates; `R` is any relation between a sketch and the list of items offered so far that is
preserved by single updates (instantiated later with the min/max/content relation) -/
theorem updateAll_spec (R : Sketch α → List α → Prop)
    (hR : ∀ s items x s', Inv c S s → R s items → c.nan x = false → UpdPost c S s x s' → R s' (items ++ [x])) :
    ∀ (xs : List α) (s : Sketch α) (items : List α), Inv c S s → R s items → (∀ x ∈ xs, c.nan x = false) →
    Spec (fun s' => Inv c S s' ∧ s'.k = s.k ∧ s'.n = s.n + xs.length ∧ R s' (items ++ xs))
      (updatesAr s.k s.n xs.length) (wSketch p) (wSketch p s + xs.countP p) (Sketch.updateAll c s xs) := by
  intro xs
  induction xs with
  | nil =>
    intro s items hs hr _
    simp only [Sketch.updateAll, List.length_nil, updatesAr, List.countP_nil, Nat.add_zero, List.append_nil]
    exact Spec.done ⟨hs, rfl, rfl, hr⟩ rfl
  | cons x t ih =>
    intro s items hs hr hok
    have hx : c.nan x = false := hok x (by simp)
    have ht : ∀ y ∈ t, c.nan y = false := fun y hy => hok y (by simp [hy])
    simp only [Sketch.updateAll, List.length_cons, updatesAr]
    have h1 := update_spec c p hS s x hs hx
    refine (Spec.bind (h1.add_const (t.countP p)) ?_).congr rfl ?_
    · intro s' hs'
      obtain ⟨hinv, hk', hn', _, _, _⟩ := id hs'
      have h2 := ih s' (items ++ [x]) hinv (hR s items x s' hs hr hx hs') ht
      refine (h2.weaken ?_).congr (by rw [hk', hn']) (by omega)
      intro s'' h''
      obtain ⟨c1, c2, c3, c4⟩ := h''
      refine ⟨c1, by rw [c2, hk'], by rw [c3, hn']; omega, ?_⟩
      simpa using c4
    · simp only [List.countP_cons]; omega

end

end DS.Quantiles

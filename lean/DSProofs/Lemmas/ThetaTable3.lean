/- L2 part 4: abstraction-level effect of place / update / placeAll. -/
import DSProofs.Lemmas.ThetaTable2
namespace DS.Theta.L2
open DS.Theta
variable {σ : Type}

/-- abstraction of raw slots: key-sorted entries -/
def absE (slots : Slots σ) : List (Nat × σ) := sortKV (entries slots)

theorem absE_spec (bits lg : Nat) (slots : Slots σ) (h : PInv bits lg slots) :
    (keys (absE slots)).Pairwise (· < ·) ∧ (∀ x, x ∈ absE slots ↔ x ∈ entries slots) :=
  ⟨(sortKV_spec _ (keys_entries_nodup slots h.distinct)).1, fun x => mem_sortKV x _⟩

theorem length_insertKV (e : Nat × σ) (l : List (Nat × σ)) : (insertKV e l).length = l.length + 1 := by
  induction l with
  | nil => simp [insertKV]
  | cons a t ih => simp only [insertKV]; split <;> simp [ih]

theorem length_sortKV (l : List (Nat × σ)) : (sortKV l).length = l.length := by
  induction l with
  | nil => rfl
  | cons a t ih =>
    have : sortKV (a :: t) = insertKV a (sortKV t) := rfl
    rw [this, length_insertKV, ih]; simp

theorem absent_iff (bits lg : Nat) (slots : Slots σ) (h : PInv bits lg slots) (k : Nat) :
    (∀ (i : Nat) (v : σ), slots[i]? ≠ some (some (k, v))) ↔ k ∉ keys (absE slots) := by
  constructor
  · intro habs hc
    obtain ⟨v, hv⟩ := exists_of_mem_keys _ _ hc
    obtain ⟨i, hi⟩ := (mem_entries slots (k, v)).1 (((absE_spec bits lg slots h).2 _).1 hv)
    exact habs i v hi
  · intro hn i v hi
    apply hn
    exact mem_keys_of_mem _ (k, v) (((absE_spec bits lg slots h).2 _).2 ((mem_entries slots (k, v)).2 ⟨i, hi⟩))

/-- inserting a new key: `place` succeeds and the abstraction is the sorted insert -/
theorem place_new_abs (bits lg : Nat) (slots : Slots σ) (h : PInv bits lg slots) (k : Nat) (f : Option σ → σ)
    (hn : k ∉ keys (absE slots)) (hroom : (entries slots).length < 2^lg) :
    ∃ idx, find bits lg slots k = some (idx, false) ∧
      PInv bits lg (slots.set idx (some (k, f none))) ∧
      absE (slots.set idx (some (k, f none))) = upsert k f (absE slots) ∧
      (entries (slots.set idx (some (k, f none)))).length = (entries slots).length + 1 := by
  have habs := (absent_iff bits lg slots h k).2 hn
  have hemp : ∃ e, e < 2^lg ∧ slots[e]? = some none := by
    have := exists_empty slots (by rw [h.len]; exact hroom)
    rw [h.len] at this; exact this
  obtain ⟨idx, hfind, hnone, hP', hmem⟩ := place_new bits lg slots h k (f none) habs hemp
  refine ⟨idx, hfind, hP', ?_, entries_set_length slots idx _ hnone⟩
  have s1 := absE_spec bits lg _ hP'
  have s0 := absE_spec bits lg slots h
  apply sorted_ext_kv _ _ s1.1 (sorted_upsert _ _ _ s0.1)
  intro x
  rw [s1.2, hmem, mem_upsert_new k f _ hn, s0.2]

/-- updating the payload of a present key -/
theorem update_old_abs (bits lg : Nat) (slots : Slots σ) (h : PInv bits lg slots) (idx k : Nat) (v : σ) (f : Option σ → σ)
    (hs : slots[idx]? = some (some (k, v))) :
    PInv bits lg (slots.set idx (some (k, f (some v)))) ∧
    absE (slots.set idx (some (k, f (some v)))) = upsert k f (absE slots) ∧
    lookup k (absE slots) = some v ∧
    (entries (slots.set idx (some (k, f (some v))))).length = (entries slots).length := by
  have hidx : idx < slots.length := by
    apply Classical.byContradiction
    intro hc
    rw [List.getElem?_eq_none (by omega)] at hs; cases hs
  have hself : (slots.set idx (some (k, f (some v))))[idx]? = some (some (k, f (some v))) := List.getElem?_set_self hidx
  have hother : ∀ i, i ≠ idx → (slots.set idx (some (k, f (some v))))[i]? = slots[i]? := fun i hi => List.getElem?_set_ne (Ne.symm hi)
  -- any slot of the new table holds the same KEY as before
  have hkey : ∀ (i k2 : Nat) (v2 : σ), (slots.set idx (some (k, f (some v))))[i]? = some (some (k2, v2)) → ∃ v3, slots[i]? = some (some (k2, v3)) := by
    intro i k2 v2 hi
    by_cases hii : i = idx
    · subst hii
      rw [hself] at hi
      simp only [Option.some.injEq, Prod.mk.injEq] at hi
      exact ⟨v, by rw [← hi.1]; exact hs⟩
    · rw [hother i hii] at hi; exact ⟨v2, hi⟩
  have hkey' : ∀ (i k2 : Nat) (v2 : σ), slots[i]? = some (some (k2, v2)) → ∃ v3, (slots.set idx (some (k, f (some v))))[i]? = some (some (k2, v3)) := by
    intro i k2 v2 hi
    by_cases hii : i = idx
    · subst hii
      rw [hs] at hi
      simp only [Option.some.injEq, Prod.mk.injEq] at hi
      exact ⟨f (some v), by rw [hself, hi.1]⟩
    · exact ⟨v2, by rw [hother i hii]; exact hi⟩
  have hP' : PInv bits lg (slots.set idx (some (k, f (some v)))) := by
    refine ⟨by simp [h.len], ?_, ?_⟩
    · intro i k2 v2 hi
      obtain ⟨v3, h3⟩ := hkey i k2 v2 hi
      obtain ⟨j, hj, hji, hpre⟩ := h.path i k2 v3 h3
      refine ⟨j, hj, hji, ?_⟩
      intro j' hj'
      obtain ⟨k', v', h1, h2⟩ := hpre j' hj'
      obtain ⟨v4, h4⟩ := hkey' _ k' v' h1
      exact ⟨k', v4, h4, h2⟩
    · intro i i' k2 v2 v2' hi hi'
      obtain ⟨v3, h3⟩ := hkey i k2 v2 hi
      obtain ⟨v3', h3'⟩ := hkey i' k2 v2' hi'
      exact h.distinct i i' k2 v3 v3' h3 h3'
  have s1 := absE_spec bits lg _ hP'
  have s0 := absE_spec bits lg slots h
  have hlk : lookup k (absE slots) = some v :=
    lookup_of_mem _ s0.1 k v ((s0.2 _).2 ((mem_entries slots (k, v)).2 ⟨idx, hs⟩))
  refine ⟨hP', ?_, hlk, ?_⟩
  · apply sorted_ext_kv _ _ s1.1 (sorted_upsert _ _ _ s0.1)
    intro x
    rw [s1.2, mem_upsert_old k f _ s0.1 v hlk, s0.2, mem_entries, mem_entries]
    constructor
    · rintro ⟨i, hi⟩
      by_cases hii : i = idx
      · subst hii; rw [hself] at hi; simp only [Option.some.injEq] at hi; exact Or.inl hi.symm
      · rw [hother i hii] at hi
        refine Or.inr ⟨⟨i, hi⟩, ?_⟩
        intro hk
        obtain ⟨x1, x2⟩ := x
        simp only at hk
        subst hk
        exact hii (h.distinct i idx x1 x2 v hi hs)
    · rintro (rfl | ⟨⟨i, hi⟩, hne⟩)
      · exact ⟨idx, hself⟩
      · have hii : i ≠ idx := by
          rintro rfl
          rw [hs] at hi
          simp only [Option.some.injEq] at hi
          exact hne (by rw [← hi])
        exact ⟨i, by rw [hother i hii]; exact hi⟩
  · -- same number of non-empty slots: both lists are key-sorted versions with the same length
    have e1 : (entries (slots.set idx (some (k, f (some v))))).length = (absE (slots.set idx (some (k, f (some v))))).length := (length_sortKV _).symm
    have e0 : (entries slots).length = (absE slots).length := (length_sortKV _).symm
    have hin : k ∈ keys (absE slots) := (lookup_some_iff k _).1 ⟨v, hlk⟩
    have : absE (slots.set idx (some (k, f (some v)))) = upsert k f (absE slots) := by
      apply sorted_ext_kv _ _ s1.1 (sorted_upsert _ _ _ s0.1)
      intro x
      rw [s1.2, mem_upsert_old k f _ s0.1 v hlk, s0.2, mem_entries, mem_entries]
      constructor
      · rintro ⟨i, hi⟩
        by_cases hii : i = idx
        · subst hii; rw [hself] at hi; simp only [Option.some.injEq] at hi; exact Or.inl hi.symm
        · rw [hother i hii] at hi
          refine Or.inr ⟨⟨i, hi⟩, ?_⟩
          intro hk
          obtain ⟨x1, x2⟩ := x
          simp only at hk
          subst hk
          exact hii (h.distinct i idx x1 x2 v hi hs)
      · rintro (rfl | ⟨⟨i, hi⟩, hne⟩)
        · exact ⟨idx, hself⟩
        · have hii : i ≠ idx := by
            rintro rfl
            rw [hs] at hi
            simp only [Option.some.injEq] at hi
            exact hne (by rw [← hi])
          exact ⟨i, by rw [hother i hii]; exact hi⟩
    rw [e1, e0, this, length_upsert_old k f _ hin s0.1]

/-- re-inserting a duplicate-free list of new keys into a table with enough room -/
theorem placeAll_abs (bits lg : Nat) : ∀ (l : List (Nat × σ)) (slots : Slots σ), PInv bits lg slots →
    (keys l).Nodup → (∀ x, x ∈ l → x.1 ∉ keys (absE slots)) → (entries slots).length + l.length < 2^lg + 1 →
    ∃ s', placeAll bits lg slots l = some s' ∧ PInv bits lg s' ∧
      (∀ x, x ∈ entries s' ↔ (x ∈ entries slots ∨ x ∈ l)) ∧ (entries s').length = (entries slots).length + l.length
  | [], slots, h, _, _, _ => ⟨slots, rfl, h, by simp, by simp⟩
  | e :: r, slots, h, hnd, hnew, hroom => by
    simp only [keys_cons, List.nodup_cons] at hnd
    simp only [List.length_cons] at hroom
    obtain ⟨idx, hfind, hP', habs', hlen'⟩ := place_new_abs bits lg slots h e.1 (fun _ => e.2) (hnew e (by simp)) (by omega)
    have hplace : place bits lg slots e = some (slots.set idx (some e)) := by
      unfold place; rw [hfind]
    have s0 := absE_spec bits lg slots h
    have s1 := absE_spec bits lg _ hP'
    have hmem1 : ∀ x, x ∈ entries (slots.set idx (some (e.1, e.2))) ↔ (x = e ∨ x ∈ entries slots) := by
      intro x
      rw [← s1.2, habs', mem_upsert_new e.1 _ _ (hnew e (by simp)), s0.2]
    have hnew' : ∀ x, x ∈ r → x.1 ∉ keys (absE (slots.set idx (some (e.1, e.2)))) := by
      intro x hx hc
      obtain ⟨v, hv⟩ := exists_of_mem_keys _ _ hc
      have := (hmem1 (x.1, v)).1 ((s1.2 _).1 hv)
      rcases this with h1 | h1
      · have : x.1 = e.1 := by rw [← h1]
        exact hnd.1 (by rw [← this]; exact mem_keys_of_mem r x hx)
      · exact hnew x (by simp [hx]) (mem_keys_of_mem _ (x.1, v) ((s0.2 _).2 h1))
    obtain ⟨s', hs', hP2, hmem2, hlen2⟩ := placeAll_abs bits lg r _ hP' hnd.2 hnew' (by rw [hlen']; omega)
    refine ⟨s', ?_, hP2, ?_, ?_⟩
    · simp only [placeAll, hplace]; exact hs'
    · intro x
      rw [hmem2, hmem1]
      simp only [List.mem_cons]
      constructor
      · rintro ((h1 | h1) | h1)
        · exact Or.inr (Or.inl h1)
        · exact Or.inl h1
        · exact Or.inr (Or.inr h1)
      · rintro (h1 | h1 | h1)
        · exact Or.inl (Or.inr h1)
        · exact Or.inl (Or.inl h1)
        · exact Or.inr h1
    · rw [hlen2, hlen']; simp only [List.length_cons]; omega

end DS.Theta.L2

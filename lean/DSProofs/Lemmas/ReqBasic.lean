/- List-level lemmas for the REQ model: sorting, merging, evens/odds, counting. (Helper lemmas; free to change.) -/
import DSModel.Req.Driver
namespace DS.Req

abbrev Sorted (l : List Int) : Prop := l.Pairwise (· ≤ ·)

/-! ### cntP -/

@[simp] theorem cntP_nil (p : Int → Bool) : cntP p [] = 0 := rfl
theorem cntP_cons (p : Int → Bool) (a : Int) (l : List Int) :
    cntP p (a :: l) = (if p a then 1 else 0) + cntP p l := by
  unfold cntP; by_cases h : p a <;> simp [h]; omega
theorem cntP_append (p : Int → Bool) (a b : List Int) : cntP p (a ++ b) = cntP p a + cntP p b := by
  simp [cntP, List.filter_append]
theorem cntP_true (l : List Int) : cntP (fun _ => true) l = l.length := by simp [cntP]
theorem cntP_le (p : Int → Bool) (l : List Int) : cntP p l ≤ l.length := by
  simp [cntP]; exact List.length_filter_le _ _

/-! ### insertion sort -/

theorem cntP_insertSorted (p : Int → Bool) (x : Int) (l : List Int) :
    cntP p (insertSorted x l) = (if p x then 1 else 0) + cntP p l := by
  induction l with
  | nil => simp [insertSorted, cntP_cons]
  | cons y t ih =>
    simp only [insertSorted]; split
    · simp [cntP_cons]
    · simp only [cntP_cons, ih]; omega

theorem cntP_sortInts (p : Int → Bool) (l : List Int) : cntP p (sortInts l) = cntP p l := by
  induction l with
  | nil => rfl
  | cons a t ih => simp only [sortInts, List.foldr_cons] at *; rw [cntP_insertSorted, cntP_cons, ih]

theorem length_sortInts (l : List Int) : (sortInts l).length = l.length := by
  have := cntP_sortInts (fun _ => true) l; simpa [cntP_true] using this

theorem mem_insertSorted (x y : Int) (l : List Int) : y ∈ insertSorted x l ↔ y = x ∨ y ∈ l := by
  induction l with
  | nil => simp [insertSorted]
  | cons z t ih =>
    simp only [insertSorted]; split
    · simp
    · simp only [List.mem_cons, ih]
      constructor
      · rintro (h | h | h) <;> simp [h]
      · rintro (h | h | h) <;> simp [h]

theorem sorted_insertSorted (x : Int) (l : List Int) (h : Sorted l) : Sorted (insertSorted x l) := by
  induction l with
  | nil => simp [insertSorted, Sorted]
  | cons y t ih =>
    simp only [Sorted, List.pairwise_cons] at h
    simp only [insertSorted]; split
    · rename_i hxy
      simp only [Sorted, List.pairwise_cons, List.mem_cons]
      refine ⟨?_, h.1, h.2⟩
      rintro z (rfl | hz)
      · exact hxy
      · exact Int.le_trans hxy (h.1 z hz)
    · rename_i hxy
      simp only [Sorted, List.pairwise_cons]
      refine ⟨?_, ih h.2⟩
      intro z hz
      rcases (mem_insertSorted x z t).1 hz with rfl | hz
      · omega
      · exact h.1 z hz

theorem sorted_sortInts (l : List Int) : Sorted (sortInts l) := by
  induction l with
  | nil => simp [sortInts, Sorted]
  | cons a t ih => simp only [sortInts, List.foldr_cons] at *; exact sorted_insertSorted a _ ih

theorem mem_sortInts (x : Int) (l : List Int) : x ∈ sortInts l ↔ x ∈ l := by
  induction l with
  | nil => simp [sortInts]
  | cons a t ih => simp only [sortInts, List.foldr_cons] at *; rw [mem_insertSorted, ih]; simp

theorem sortInts_ne_nil (l : List Int) (h : l ≠ []) : sortInts l ≠ [] := by
  intro h2; have := length_sortInts l; rw [h2] at this; cases l <;> simp_all

/-! ### mergeRuns -/

theorem cntP_mergeAux (p : Int → Bool) (a : Int) (l : List Int) (recL : List Int → List Int)
    (hrec : ∀ r, cntP p (recL r) = cntP p l + cntP p r) (r : List Int) :
    cntP p (mergeAux a recL (a :: l) r) = cntP p (a :: l) + cntP p r := by
  induction r with
  | nil => simp [mergeAux]
  | cons b r ih =>
    simp only [mergeAux]; split
    · simp only [cntP_cons] at ih ⊢; omega
    · simp only [cntP_cons, hrec]; omega

theorem cntP_mergeRuns (p : Int → Bool) (a b : List Int) : cntP p (mergeRuns a b) = cntP p a + cntP p b := by
  induction a generalizing b with
  | nil => simp [mergeRuns]
  | cons x l ih => simp only [mergeRuns]; exact cntP_mergeAux p x l _ ih b

theorem length_mergeRuns (a b : List Int) : (mergeRuns a b).length = a.length + b.length := by
  have := cntP_mergeRuns (fun _ => true) a b; simpa [cntP_true] using this

theorem mem_mergeAux (x a : Int) (l : List Int) (recL : List Int → List Int)
    (hrec : ∀ r, x ∈ recL r ↔ x ∈ l ∨ x ∈ r) (r : List Int) :
    x ∈ mergeAux a recL (a :: l) r ↔ x ∈ a :: l ∨ x ∈ r := by
  induction r with
  | nil => simp [mergeAux]
  | cons b r ih =>
    simp only [mergeAux]; split
    · simp only [List.mem_cons] at ih ⊢; rw [ih]; grind
    · simp only [List.mem_cons, hrec]; grind

theorem mem_mergeRuns (x : Int) (a b : List Int) : x ∈ mergeRuns a b ↔ x ∈ a ∨ x ∈ b := by
  induction a generalizing b with
  | nil => simp [mergeRuns]
  | cons y l ih => simp only [mergeRuns]; exact mem_mergeAux x y l _ ih b

theorem sorted_mergeAux (a : Int) (l : List Int) (recL : List Int → List Int)
    (hmem : ∀ x r, x ∈ recL r ↔ x ∈ l ∨ x ∈ r)
    (hrec : ∀ r, Sorted r → Sorted (recL r)) (hal : Sorted (a :: l)) (r : List Int) (hr : Sorted r) :
    Sorted (mergeAux a recL (a :: l) r) := by
  induction r with
  | nil => simpa [mergeAux] using hal
  | cons b r ih =>
    simp only [Sorted, List.pairwise_cons] at hr hal
    simp only [mergeAux]; split
    · rename_i hlt
      simp only [Sorted, List.pairwise_cons]
      refine ⟨?_, ih hr.2⟩
      intro z hz
      rcases (mem_mergeAux z a l recL (hmem z) r).1 hz with h | h
      · rcases List.mem_cons.1 h with rfl | h
        · omega
        · have := hal.1 z h; omega
      · exact hr.1 z h
    · rename_i hlt
      simp only [Sorted, List.pairwise_cons]
      refine ⟨?_, hrec _ (by simp only [Sorted, List.pairwise_cons]; exact hr)⟩
      intro z hz
      rcases (hmem z (b :: r)).1 hz with h | h
      · exact hal.1 z h
      · rcases List.mem_cons.1 h with rfl | h
        · omega
        · have := hr.1 z h; omega

theorem sorted_mergeRuns (a b : List Int) (ha : Sorted a) (hb : Sorted b) : Sorted (mergeRuns a b) := by
  induction a generalizing b with
  | nil => simpa [mergeRuns] using hb
  | cons x l ih =>
    simp only [mergeRuns]
    have hl : Sorted l := by simp only [Sorted, List.pairwise_cons] at ha; exact ha.2
    exact sorted_mergeAux x l _ (fun z r => mem_mergeRuns z l r) (fun r hr => ih r hl hr) ha b hb

theorem mergeRuns_ne_nil_left (a b : List Int) (h : a ≠ []) : mergeRuns a b ≠ [] := by
  intro h2; have := length_mergeRuns a b; rw [h2] at this; cases a with
  | nil => exact h rfl
  | cons x t => simp at this <;> omega
theorem mergeRuns_ne_nil_right (a b : List Int) (h : b ≠ []) : mergeRuns a b ≠ [] := by
  intro h2; have := length_mergeRuns a b; rw [h2] at this; cases b with
  | nil => exact h rfl
  | cons x t => simp at this <;> omega

/-! ### evens / odds -/

theorem cntP_evens_odds (p : Int → Bool) (l : List Int) : cntP p (evens l) + cntP p (odds l) = cntP p l := by
  fun_induction evens l with
  | case1 => simp [odds]
  | case2 a => simp [odds]
  | case3 a b t ih => simp only [odds, cntP_cons]; omega

theorem length_evens_odds (l : List Int) : (evens l).length + (odds l).length = l.length := by
  have := cntP_evens_odds (fun _ => true) l; simpa [cntP_true] using this

theorem length_odds (l : List Int) : (odds l).length = l.length / 2 := by
  fun_induction odds l with
  | case1 => rfl
  | case2 a => simp
  | case3 a b t ih => simp [ih]; omega

theorem length_evens (l : List Int) : (evens l).length = (l.length + 1) / 2 := by
  have := length_evens_odds l; have := length_odds l; omega

theorem length_promote (l : List Int) (c : Bool) (h : l.length % 2 = 0) : (promote l c).length = l.length / 2 := by
  unfold promote; split
  · exact length_odds l
  · rw [length_evens]; omega

/-- the two halves together are the run: the heart of "a compaction is balanced" -/
theorem cntP_promote_both (p : Int → Bool) (l : List Int) (c : Bool) :
    cntP p (promote l c) + cntP p (promote l (!c)) = cntP p l := by
  cases c <;> simp [promote] <;> have := cntP_evens_odds p l <;> omega

theorem evens_sublist (l : List Int) : (evens l).Sublist l := by
  fun_induction evens l with
  | case1 => simp
  | case2 a => simp
  | case3 a b t ih => exact (ih.cons b).cons_cons a

theorem odds_sublist (l : List Int) : (odds l).Sublist l := by
  fun_induction odds l with
  | case1 => simp
  | case2 a => simp
  | case3 a b t ih => exact (ih.cons_cons b).cons a

theorem promote_sublist (l : List Int) (c : Bool) : (promote l c).Sublist l := by
  unfold promote; split
  · exact odds_sublist l
  · exact evens_sublist l

theorem sorted_sublist {a b : List Int} (h : a.Sublist b) (hb : Sorted b) : Sorted a := List.Pairwise.sublist h hb

/-! ### boundPos on a sorted run is a count -/

theorem boundPos_eq_cnt (l : List Int) (x : Int) (inc : Bool) (h : Sorted l) :
    boundPos l x inc = cntP (fun y => if inc then decide (y ≤ x) else decide (y < x)) l := by
  induction l with
  | nil => rfl
  | cons y t ih =>
    simp only [Sorted, List.pairwise_cons] at h
    simp only [boundPos, cntP_cons]
    cases inc
    · simp only [Bool.false_eq_true, if_false] at *
      by_cases hxy : x ≤ y
      · simp only [hxy, if_true]
        have h0 : cntP (fun y => decide (y < x)) t = 0 := by
          unfold cntP; rw [List.length_eq_zero_iff, List.filter_eq_nil_iff]
          intro z hz; have := h.1 z hz; simp; omega
        have : ¬ (y < x) := by omega
        simp [this, h0]
      · simp only [hxy, if_false]
        have : y < x := by omega
        simp [this, ih h.2]
    · simp only [if_true] at *
      by_cases hxy : x < y
      · simp only [hxy, if_true]
        have h0 : cntP (fun y => decide (y ≤ x)) t = 0 := by
          unfold cntP; rw [List.length_eq_zero_iff, List.filter_eq_nil_iff]
          intro z hz; have := h.1 z hz; simp; omega
        have : ¬ (y ≤ x) := by omega
        simp [this, h0]
      · simp only [hxy, if_false]
        have : y ≤ x := by omega
        simp [this, ih h.2]

end DS.Req

/- Helper lemmas about the L1 frequent-items map (free to change; property statements live in Props/C12.lean). -/
import DSModel.Fi.Abstract
namespace DS.Fi
set_option linter.unusedSectionVars false

variable {ι : Type} [DecidableEq ι]

@[simp] theorem keys_nil : keys ([] : Map ι) = [] := rfl
@[simp] theorem keys_cons (p : ι × Nat) (m : Map ι) : keys (p :: m) = p.1 :: keys m := rfl
@[simp] theorem cnt_nil (x : ι) : cnt ([] : Map ι) x = 0 := rfl
@[simp] theorem cnt_cons (k : ι) (v : Nat) (m : Map ι) (x : ι) :
    cnt ((k, v) :: m) x = (if k = x then v else 0) + cnt m x := rfl

theorem keys_append (m n : Map ι) : keys (m ++ n) = keys m ++ keys n := by simp [keys]

theorem cnt_append (m n : Map ι) (x : ι) : cnt (m ++ n) x = cnt m x + cnt n x := by
  induction m with
  | nil => simp
  | cons p t ih => obtain ⟨k, v⟩ := p; simp [ih]; omega

theorem hasKey_iff (m : Map ι) (x : ι) : hasKey m x = true ↔ x ∈ keys m := by
  induction m with
  | nil => simp [hasKey]
  | cons p t ih =>
    obtain ⟨k, v⟩ := p
    simp only [hasKey, Bool.or_eq_true, decide_eq_true_eq, ih, keys_cons, List.mem_cons]
    constructor
    · rintro (h | h)
      · exact Or.inl h.symm
      · exact Or.inr h
    · rintro (h | h)
      · exact Or.inl h.symm
      · exact Or.inr h

theorem hasKey_false_iff (m : Map ι) (x : ι) : hasKey m x = false ↔ x ∉ keys m := by
  rw [← hasKey_iff]; cases hasKey m x <;> simp

theorem cnt_eq_zero_of_not_mem (m : Map ι) (x : ι) (h : x ∉ keys m) : cnt m x = 0 := by
  induction m with
  | nil => rfl
  | cons p t ih =>
    obtain ⟨k, v⟩ := p
    simp only [keys_cons, List.mem_cons, not_or] at h
    have hk : ¬ k = x := fun e => h.1 e.symm
    simp [hk, ih h.2]

theorem cnt_of_mem (m : Map ι) (hn : (keys m).Nodup) (k : ι) (v : Nat) (h : (k, v) ∈ m) : cnt m k = v := by
  induction m with
  | nil => simp at h
  | cons p t ih =>
    obtain ⟨k', v'⟩ := p
    simp only [keys_cons, List.nodup_cons] at hn
    rcases List.mem_cons.mp h with h | h
    · injection h with h1 h2
      subst h1; subst h2
      simp [cnt_eq_zero_of_not_mem t k hn.1]
    · have hk : k ∈ keys t := List.mem_map.mpr ⟨(k, v), h, rfl⟩
      have hne : ¬ k' = k := fun e => hn.1 (e ▸ hk)
      simp [hne, ih hn.2 h]

theorem mem_of_cnt_pos (m : Map ι) (x : ι) (h : 0 < cnt m x) : (x, cnt m x) ∈ m ∨ ¬ (keys m).Nodup := by
  by_cases hn : (keys m).Nodup
  · left
    induction m with
    | nil => simp at h
    | cons p t ih =>
      obtain ⟨k, v⟩ := p
      simp only [keys_cons, List.nodup_cons] at hn
      by_cases hk : k = x
      · subst hk
        simp [cnt_eq_zero_of_not_mem t k hn.1]
      · simp only [cnt_cons, hk, if_false, Nat.zero_add] at h ⊢
        exact List.mem_cons_of_mem _ (ih h hn.2)
  · exact Or.inr hn

theorem mem_keys_of_cnt_pos (m : Map ι) (x : ι) (h : 0 < cnt m x) : x ∈ keys m := by
  apply Classical.byContradiction
  intro hx
  rw [cnt_eq_zero_of_not_mem m x hx] at h
  exact Nat.lt_irrefl 0 h

/-! ### bump / adjust -/

theorem keys_bump (m : Map ι) (x : ι) (w : Nat) : keys (bump m x w) = keys m := by
  induction m with
  | nil => rfl
  | cons p t ih =>
    obtain ⟨k, v⟩ := p
    simp only [bump, keys_cons, ih]
    split <;> rfl

theorem bump_of_not_mem (m : Map ι) (x : ι) (w : Nat) (h : x ∉ keys m) : bump m x w = m := by
  induction m with
  | nil => rfl
  | cons p t ih =>
    obtain ⟨k, v⟩ := p
    simp only [keys_cons, List.mem_cons, not_or] at h
    have hk : ¬ k = x := fun e => h.1 e.symm
    simp [bump, hk, ih h.2]

theorem cnt_bump (m : Map ι) (hn : (keys m).Nodup) (x : ι) (w : Nat) (hx : x ∈ keys m) (y : ι) :
    cnt (bump m x w) y = cnt m y + (if x = y then w else 0) := by
  induction m with
  | nil => simp at hx
  | cons p t ih =>
    obtain ⟨k, v⟩ := p
    simp only [keys_cons, List.nodup_cons] at hn
    by_cases hk : k = x
    · subst hk
      rw [bump, if_pos rfl, bump_of_not_mem t k w hn.1]
      by_cases hy : k = y
      · simp [hy]; omega
      · simp [hy]
    · have hx' : x ∈ keys t := by
        simp only [keys_cons, List.mem_cons] at hx
        rcases hx with hx | hx
        · exact absurd hx.symm hk
        · exact hx
      rw [bump, if_neg hk, cnt_cons, cnt_cons, ih hn.2 hx']
      omega

theorem len_bump (m : Map ι) (x : ι) (w : Nat) : (bump m x w).length = m.length := by
  induction m with
  | nil => rfl
  | cons p t ih => obtain ⟨k, v⟩ := p; simp [bump, ih]

theorem cnt_adjust (m : Map ι) (hn : (keys m).Nodup) (x : ι) (w : Nat) (y : ι) :
    cnt (adjust m x w) y = cnt m y + (if x = y then w else 0) := by
  unfold adjust
  split
  · rename_i h
    exact cnt_bump m hn x w ((hasKey_iff m x).mp h) y
  · simp [cnt_append]

theorem nodup_adjust (m : Map ι) (hn : (keys m).Nodup) (x : ι) (w : Nat) : (keys (adjust m x w)).Nodup := by
  unfold adjust
  split
  · rw [keys_bump]; exact hn
  · rename_i h
    have hx : x ∉ keys m := (hasKey_false_iff m x).mp (by simpa using h)
    rw [keys_append]
    simp only [keys_cons, keys_nil]
    rw [List.nodup_append]
    refine ⟨hn, by simp, ?_⟩
    intro a ha b hb
    simp only [List.mem_singleton] at hb
    subst hb
    intro e; subst e; exact hx ha

/-! ### purgeMap -/

theorem keys_purgeMap_sublist (m : Map ι) (a : Nat) : (keys (purgeMap m a)).Sublist (keys m) := by
  induction m with
  | nil => simp [purgeMap]
  | cons p t ih =>
    obtain ⟨k, v⟩ := p
    simp only [purgeMap]
    split
    · simp only [keys_cons]; exact ih.cons_cons _
    · simp only [keys_cons]; exact ih.cons _

theorem nodup_purgeMap (m : Map ι) (hn : (keys m).Nodup) (a : Nat) : (keys (purgeMap m a)).Nodup :=
  hn.sublist (keys_purgeMap_sublist m a)

theorem cnt_purgeMap (m : Map ι) (hn : (keys m).Nodup) (a : Nat) (y : ι) :
    cnt (purgeMap m a) y = cnt m y - a := by
  induction m with
  | nil => simp [purgeMap]
  | cons p t ih =>
    obtain ⟨k, v⟩ := p
    simp only [keys_cons, List.nodup_cons] at hn
    simp only [purgeMap]
    by_cases hk : k = y
    · subst hk
      have h0 : cnt t k = 0 := cnt_eq_zero_of_not_mem t k hn.1
      split
      · simp [ih hn.2, h0]
      · simp [ih hn.2, h0]; omega
    · split
      · simp [hk, ih hn.2]
      · simp [hk, ih hn.2]

/-! ### sums, counting, permutations -/

@[simp] theorem sumVals_nil : sumVals ([] : Map ι) = 0 := rfl
@[simp] theorem sumVals_cons (k : ι) (v : Nat) (m : Map ι) : sumVals ((k, v) :: m) = v + sumVals m := rfl

theorem sumVals_append (m n : Map ι) : sumVals (m ++ n) = sumVals m + sumVals n := by
  induction m with
  | nil => simp
  | cons p t ih => obtain ⟨k, v⟩ := p; simp [ih]; omega

theorem sumVals_bump (m : Map ι) (hn : (keys m).Nodup) (x : ι) (w : Nat) (hx : x ∈ keys m) :
    sumVals (bump m x w) = sumVals m + w := by
  induction m with
  | nil => simp at hx
  | cons p t ih =>
    obtain ⟨k, v⟩ := p
    simp only [keys_cons, List.nodup_cons] at hn
    by_cases hk : k = x
    · subst hk
      rw [bump, if_pos rfl, bump_of_not_mem t k w hn.1]
      simp; omega
    · have hx' : x ∈ keys t := by
        simp only [keys_cons, List.mem_cons] at hx
        rcases hx with hx | hx
        · exact absurd hx.symm hk
        · exact hx
      rw [bump, if_neg hk, sumVals_cons, sumVals_cons, ih hn.2 hx']
      omega

theorem sumVals_adjust (m : Map ι) (hn : (keys m).Nodup) (x : ι) (w : Nat) :
    sumVals (adjust m x w) = sumVals m + w := by
  unfold adjust
  split
  · rename_i h
    exact sumVals_bump m hn x w ((hasKey_iff m x).mp h)
  · simp [sumVals_append]

theorem cnt_perm {m n : Map ι} (h : m.Perm n) (x : ι) : cnt m x = cnt n x := by
  induction h with
  | nil => rfl
  | cons p _ ih => obtain ⟨k, v⟩ := p; simp [ih]
  | swap p q l => obtain ⟨k, v⟩ := p; obtain ⟨k', v'⟩ := q; simp; omega
  | trans _ _ ih1 ih2 => exact ih1.trans ih2

theorem sumVals_perm {m n : Map ι} (h : m.Perm n) : sumVals m = sumVals n := by
  induction h with
  | nil => rfl
  | cons p _ ih => obtain ⟨k, v⟩ := p; simp [ih]
  | swap p q l => obtain ⟨k, v⟩ := p; obtain ⟨k', v'⟩ := q; simp; omega
  | trans _ _ ih1 ih2 => exact ih1.trans ih2

@[simp] theorem vals_cons (p : ι × Nat) (m : Map ι) : vals (p :: m) = p.2 :: vals m := rfl
@[simp] theorem vals_nil : vals ([] : Map ι) = [] := rfl
@[simp] theorem vals_length (m : Map ι) : (vals m).length = m.length := by simp [vals]

/-- a purge by `a` removes at least `a` from every counter that is `≥ a` -/
theorem sumVals_purgeMap (m : Map ι) (a : Nat) :
    sumVals (purgeMap m a) + a * countGE (vals m) a ≤ sumVals m := by
  induction m with
  | nil => simp [purgeMap, countGE]
  | cons p t ih =>
    obtain ⟨k, v⟩ := p
    simp only [purgeMap, vals_cons, countGE, sumVals_cons]
    by_cases h1 : a < v
    · have h2 : a ≤ v := Nat.le_of_lt h1
      simp only [h1, if_true, h2, sumVals_cons, Nat.mul_add, Nat.mul_one]
      omega
    · simp only [h1, if_false]
      by_cases h2 : a ≤ v
      · simp only [h2, if_true, Nat.mul_add, Nat.mul_one]; omega
      · simp only [h2, if_false, Nat.zero_add]; omega

theorem countGE_anti (l : List Nat) {a b : Nat} (h : a ≤ b) : countGE l b ≤ countGE l a := by
  induction l with
  | nil => simp [countGE]
  | cons v t ih =>
    simp only [countGE]
    by_cases h1 : b ≤ v
    · have h2 : a ≤ v := Nat.le_trans h h1
      simp [h1, h2]; exact ih
    · simp only [h1, if_false, Nat.zero_add]
      split <;> omega

theorem countGE_perm {l m : List Nat} (h : l.Perm m) (a : Nat) : countGE l a = countGE m a := by
  induction h with
  | nil => rfl
  | cons x _ ih => simp [countGE, ih]
  | swap x y l => simp [countGE]; omega
  | trans _ _ ih1 ih2 => exact ih1.trans ih2

theorem countGE_all (l : List Nat) (a : Nat) (h : ∀ v ∈ l, a ≤ v) : countGE l a = l.length := by
  induction l with
  | nil => rfl
  | cons v t ih =>
    have h1 : a ≤ v := h v (List.mem_cons_self ..)
    simp only [countGE, h1, if_true, List.length_cons]
    rw [ih (fun u hu => h u (List.mem_cons_of_mem _ hu))]; omega

/-! ### insertion sort and the median -/

theorem perm_insertNat (x : Nat) (l : List Nat) : (insertNat x l).Perm (x :: l) := by
  induction l with
  | nil => simp [insertNat]
  | cons y t ih =>
    simp only [insertNat]
    split
    · exact List.Perm.refl _
    · exact (List.Perm.cons y ih).trans (List.Perm.swap x y t)

theorem perm_sortNat (l : List Nat) : (sortNat l).Perm l := by
  induction l with
  | nil => simp [sortNat]
  | cons x t ih =>
    have : sortNat (x :: t) = insertNat x (sortNat t) := rfl
    rw [this]
    exact (perm_insertNat x _).trans (List.Perm.cons x ih)

theorem sorted_insertNat (x : Nat) (l : List Nat) (h : l.Pairwise (· ≤ ·)) : (insertNat x l).Pairwise (· ≤ ·) := by
  induction l with
  | nil => simp [insertNat]
  | cons y t ih =>
    simp only [insertNat]
    rw [List.pairwise_cons] at h
    split
    · rename_i hxy
      rw [List.pairwise_cons]
      refine ⟨?_, List.pairwise_cons.mpr h⟩
      intro z hz
      rcases List.mem_cons.mp hz with hz | hz
      · subst hz; exact hxy
      · exact Nat.le_trans hxy (h.1 z hz)
    · rename_i hxy
      rw [List.pairwise_cons]
      refine ⟨?_, ih h.2⟩
      intro z hz
      have hz' := (perm_insertNat x t).mem_iff.mp hz
      rcases List.mem_cons.mp hz' with hz' | hz'
      · subst hz'; omega
      · exact h.1 z hz'

theorem sorted_sortNat (l : List Nat) : (sortNat l).Pairwise (· ≤ ·) := by
  induction l with
  | nil => simp [sortNat]
  | cons x t ih =>
    have : sortNat (x :: t) = insertNat x (sortNat t) := rfl
    rw [this]
    exact sorted_insertNat x _ ih

/-- in a sorted list at least `n - i` elements are `≥` the element of rank `i` -/
theorem countGE_sorted_getD (s : List Nat) (hs : s.Pairwise (· ≤ ·)) (i : Nat) (hi : i < s.length) :
    s.length - i ≤ countGE s (s.getD i 0) := by
  induction s generalizing i with
  | nil => simp at hi
  | cons h t ih =>
    rw [List.pairwise_cons] at hs
    cases i with
    | zero =>
      have : (h :: t).getD 0 0 = h := rfl
      rw [this, countGE_all]
      · omega
      · intro v hv
        rcases List.mem_cons.mp hv with hv | hv
        · subst hv; exact Nat.le_refl _
        · exact hs.1 v hv
    | succ j =>
      have hj : j < t.length := by simpa using hi
      have : (h :: t).getD (j + 1) 0 = t.getD j 0 := by simp
      rw [this]
      have := ih hs.2 j hj
      simp only [countGE, List.length_cons]
      omega

/-- the code's purge amount (element of rank n/2 of the sample) has at least `n - n/2` sample elements above or at it -/
theorem upperHalf_le_countGE_median (l : List Nat) : upperHalf l.length ≤ countGE l (medianOf l) := by
  by_cases hl : l = []
  · subst hl; simp [upperHalf]
  · have hlen : 0 < l.length := List.length_pos_iff.mpr hl
    have hp := perm_sortNat l
    have hlen' : (sortNat l).length = l.length := hp.length_eq
    have hi : l.length / 2 < (sortNat l).length := by rw [hlen']; omega
    have := countGE_sorted_getD (sortNat l) (sorted_sortNat l) (l.length / 2) hi
    rw [hlen', countGE_perm hp] at this
    exact this

theorem upperHalf_mono {a b : Nat} (h : a ≤ b) : upperHalf a ≤ upperHalf b := by
  unfold upperHalf; omega

theorem two_mul_upperHalf (n : Nat) : n ≤ 2 * upperHalf n := by
  unfold upperHalf; omega

theorem capacity_mono (T : Tun) {a b : Nat} (h : a ≤ b) : capacity T a ≤ capacity T b := by
  unfold capacity
  exact Nat.div_le_div_right (Nat.mul_le_mul_right _ (Nat.pow_le_pow_right (by decide) h))

end DS.Fi

/- The VarOpt sketch invariant `Inv s ins L` (Rat instance): `ins` = all inputs so far (ghost), `L` = the inputs
   absorbed into the reservoir (ghost); `ins` is a permutation of `H ++ L`. -/
import DSProofs.Lemmas.VarOptGrow
namespace DS.VarOpt
open DS

structure EstInv (s : Sk Rat) (L : List E) : Prop where
  cnt : s.H.length + s.R.length = s.k
  heap : IsHeap s.H
  wtR : s.totalWtR = sumW L
  rItems : ∀ x ∈ s.R, ∃ e ∈ L, e.item = x
  rLen : s.R.length < L.length
  lLight : ∀ e ∈ L, e.wt * (s.R.length : Rat) ≤ s.totalWtR
  hHeavy : ∀ e ∈ s.H, s.totalWtR ≤ e.wt * (s.R.length : Rat)

/-- everything except the item counter -/
structure Inv0 (s : Sk Rat) (ins L : List E) : Prop where
  kpos : 1 ≤ s.k
  mnil : s.M = []
  fresh : s.mStale = false
  perm : ins.Perm (s.H ++ L)
  pos : ∀ e ∈ ins, 0 < e.wt
  marks : MarksOK s.gadget s.numMarksInH s.H
  warm : s.R = [] → L = [] ∧ s.H.length ≤ s.k ∧ s.totalWtR = 0
  est : s.R ≠ [] → EstInv s L

structure Inv (s : Sk Rat) (ins L : List E) : Prop extends Inv0 s ins L where
  n_eq : s.n = ins.length

theorem EstInv.setN {s : Sk Rat} {L : List E} (h : EstInv s L) (m : Nat) : EstInv { s with n := m } L :=
  ⟨h.cnt, h.heap, h.wtR, h.rItems, h.rLen, h.lLight, h.hHeavy⟩

theorem Inv0.setN {s : Sk Rat} {ins L : List E} (h : Inv0 s ins L) (m : Nat) : Inv0 { s with n := m } ins L :=
  ⟨h.kpos, h.mnil, h.fresh, h.perm, h.pos, h.marks, h.warm, fun hr => (h.est hr).setN m⟩

theorem mem_of_mem_set_tail {α : Type} {l : List α} {i : Nat} {a x : α} (ha : a ∈ l) (hx : x ∈ (l.set i a).tail) : x ∈ l := by
  have h1 : x ∈ l.set i a := List.mem_of_mem_tail hx
  rcases List.mem_or_eq_of_mem_set h1 with h | h
  · exact h
  · exact h ▸ ha

/-- `grow_candidate_set` + `downsample_candidate_set` from a mid-update state re-establish the invariant; the
    new tau is at least the old one (`W0 / r0`). -/
theorem growCandidateSet_spec (s : Sk Rat) (L ins : List E) (wt : Rat) (nc : Nat) (W0 : Rat) (r0 : Nat) (ds : Draws Rat)
    (hmid : Mid s.H s.M L s.R s.k wt nc W0 r0 ins) (hmk : MarksOK s.gadget s.numMarksInH s.H)
    (hk : 1 ≤ s.k) (hst : s.mStale = false) :
    ∃ s' ds' L', growCandidateSet s wt nc ds = (s', ds') ∧ Inv0 s' ins L' ∧ s'.R ≠ [] ∧
      W0 * (s'.R.length : Rat) ≤ s'.totalWtR * (r0 : Rat) ∧
      s'.k = s.k ∧ s'.gadget = s.gadget ∧ s'.rf = s.rf ∧ s'.n = s.n := by
  obtain ⟨H', M', nm', wt', nc', hgl, hmid', hmk', hheavy⟩ :=
    growLoop_spec s.gadget s.H.length s.H s.M s.numMarksInH wt nc (le_refl _) hmid hmk
  unfold growCandidateSet
  rw [hgl]
  simp only [downsample]
  generalize chooseDeleteSlot M' s.R.length wt' nc' ds = p
  obtain ⟨del, ds1⟩ := p
  have hnc2 := hmid'.nc2
  have hnceq := hmid'.nc_eq
  have hcl : (M'.map (·.item) ++ s.R).length = nc' := by simp [hnceq]
  cases hcands : M'.map (·.item) ++ s.R with
  | nil => rw [hcands] at hcl; simp at hcl; omega
  | cons c0 ct =>
    have hlen : (((c0 :: ct).set del c0).tail).length = nc' - 1 := by
      rw [List.length_tail, List.length_set, ← hcands, hcl]
    have hmem : ∀ x ∈ ((c0 :: ct).set del c0).tail, ∃ e ∈ M' ++ L, e.item = x := by
      intro x hx
      have hx' : x ∈ c0 :: ct := mem_of_mem_set_tail (by simp) hx
      rw [← hcands] at hx'
      rcases List.mem_append.mp hx' with h | h
      · obtain ⟨e, he, rfl⟩ := List.mem_map.mp h
        exact ⟨e, List.mem_append_left _ he, rfl⟩
      · obtain ⟨e, he, hx⟩ := hmid'.rItems x h
        exact ⟨e, List.mem_append_right _ he, hx⟩
    have hcast : (((nc' - 1 : Nat) : Rat)) = (nc' : Rat) - 1 := by
      rw [Nat.cast_sub (by omega)]; simp
    have hr0 : (0 : Rat) < (r0 : Rat) := by exact_mod_cast hmid'.r0pos
    have hnc1 : (0 : Rat) < (nc' : Rat) - 1 := by
      have : (2 : Rat) ≤ (nc' : Rat) := by exact_mod_cast hnc2
      linarith
    refine ⟨_, ds1, M' ++ L, rfl, ?_, ?_, ?_, rfl, rfl, rfl, rfl⟩
    · refine { kpos := hk, mnil := rfl, fresh := hst, perm := hmid'.perm, pos := hmid'.pos,
               marks := hmk', warm := ?_, est := ?_ }
      · intro h
        have : (((c0 :: ct).set del c0).tail).length = 0 := by simp only [] at h; rw [h]; rfl
        omega
      · intro _
        refine { cnt := ?_, heap := hmid'.heap, wtR := ?_, rItems := hmem, rLen := ?_, lLight := ?_, hHeavy := ?_ }
        · show H'.length + (((c0 :: ct).set del c0).tail).length = s.k
          have := hmid'.cnt; omega
        · show wt' = sumW (M' ++ L)
          rw [sumW_append]; exact hmid'.wt_eq
        · show (((c0 :: ct).set del c0).tail).length < (M' ++ L).length
          have := hmid'.rLen
          rw [hlen, List.length_append]; omega
        · intro e he
          show e.wt * ((((c0 :: ct).set del c0).tail).length : Rat) ≤ wt'
          rw [hlen, hcast]
          rcases List.mem_append.mp he with h | h
          · exact le_of_lt (hmid'.mLight e h)
          · have h1 := hmid'.lLight e h
            have h2 := hmid'.tauMono
            have h3 : e.wt * (r0 : Rat) * ((nc' : Rat) - 1) ≤ W0 * ((nc' : Rat) - 1) :=
              mul_le_mul_of_nonneg_right h1 (le_of_lt hnc1)
            have h4 : (e.wt * ((nc' : Rat) - 1)) * (r0 : Rat) ≤ wt' * (r0 : Rat) := by nlinarith
            exact le_of_mul_le_mul_right h4 hr0
        · intro e he
          show wt' ≤ e.wt * ((((c0 :: ct).set del c0).tail).length : Rat)
          rw [hlen, hcast]
          exact hheavy e he
    · intro h
      have : (((c0 :: ct).set del c0).tail).length = 0 := by simp only [] at h; rw [h]; rfl
      omega
    · show W0 * ((((c0 :: ct).set del c0).tail).length : Rat) ≤ wt' * (r0 : Rat)
      rw [hlen, hcast]
      exact hmid'.tauMono

end DS.VarOpt

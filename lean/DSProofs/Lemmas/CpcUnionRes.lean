/- `get_result_from_bit_matrix` yields a valid sketch of the matrix's coupons (free to change). -/
import DSProofs.Lemmas.CpcUnionMat
namespace DS.Cpc

/-- the two inequalities that characterise `determine_correct_offset` -/
theorem dco_bounds (lgK c : Nat) :
    8 * c < (27 + 8 * determineCorrectOffset lgK c) * 2^lgK ∧
    (1 ≤ determineCorrectOffset lgK c → (19 + 8 * determineCorrectOffset lgK c) * 2^lgK ≤ 8 * c) := by
  have hk := Nat.two_pow_pos lgK
  unfold determineCorrectOffset
  split
  · rename_i h
    constructor
    · omega
    · intro h1; omega
  · rename_i h
    have hd := Nat.div_add_mod (8 * c - 19 * 2^lgK) (8 * 2^lgK)
    have hm := Nat.mod_lt (8 * c - 19 * 2^lgK) (show 0 < 8 * 2^lgK by omega)
    generalize (8 * c - 19 * 2^lgK) / (8 * 2^lgK) = q at *
    generalize (8 * c - 19 * 2^lgK) % (8 * 2^lgK) = rm at *
    have e1 : (27 + 8 * q) * 2^lgK = 27 * 2^lgK + 8 * 2^lgK * q := by
      rw [Nat.add_mul, Nat.mul_assoc, Nat.mul_comm q, ← Nat.mul_assoc]
    have e2 : (19 + 8 * q) * 2^lgK = 19 * 2^lgK + 8 * 2^lgK * q := by
      rw [Nat.add_mul, Nat.mul_assoc, Nat.mul_comm q, ← Nat.mul_assoc]
    rw [e1, e2]
    constructor
    · omega
    · intro _; omega

/-- `get_result_from_bit_matrix` -/
theorem inv_resultFromMatrix (lgK : Nat) (m : List Nat) (ys : List Nat) (h : MInv lgK m ys)
    (hv : ∀ y ∈ ys, y < 64 * 2^lgK)
    (h56 : determineCorrectOffset lgK (distinct ys).length ≤ 56) :
    Inv (resultFromMatrix lgK m) ys := by
  have hb : MBits (2^lgK) m ys := ⟨h.len, h.bits, h.high⟩
  have hC : (m.map popcount64).sum = (distinct ys).length := popcount_of_mbits _ m ys hb hv
  have hkpos := Nat.two_pow_pos lgK
  generalize hoff : determineCorrectOffset lgK (distinct ys).length = off at h56
  generalize hR : resultFromMatrix lgK m = R
  have hRl : R.lgK = lgK := by rw [← hR]; rfl
  have hRc : R.numCoupons = (distinct ys).length := by rw [← hR]; exact hC
  have hRo : R.offset = off := by rw [← hR, ← hoff, ← hC]; rfl
  have hRt : R.table = tableOfMatrix (2^lgK) off m.toArray := by rw [← hR, ← hoff, ← hC]; rfl
  have hRw : R.window = windowOfMatrix (2^lgK) off m.toArray := by rw [← hR, ← hoff, ← hC]; rfl
  have hRf : R.fic = ficOfMatrix (2^lgK) off m.toArray := by rw [← hR, ← hoff, ← hC]; rfl
  have hwne : R.window ≠ [] := by
    rw [hRw]; exact window_ne_nil_of_map _ _ hkpos
  have hbit : ∀ r c, r < 2^lgK → c < 64 → R.bit r c = (m.getD r 0).testBit c := by
    intro r c hr' hc
    rw [bit_of_matrix R (2^lgK) off m.toArray hkpos hRw hRt hRo r c hr' hc, getD_toArray]
  have hd := dco_bounds lgK (distinct ys).length
  rw [hoff] at hd
  refine ⟨⟨?_, ?_, ?_, ?_, ?_, ?_, ?_⟩, ?_, hRc, ?_, ?_, ?_, ?_, ?_, ?_⟩
  · rw [hRt]; exact sorted_tableOfMatrix _ _ _
  · intro rc hrc; rw [hRt] at hrc; rw [hRl]; exact ((mem_tableOfMatrix _ _ _ _).1 hrc).1
  · rw [hRo]; exact h56
  · intro e; exact absurd e hwne
  · intro _; rw [hRw, hRl]; simp [windowOfMatrix]
  · rw [hRw]; exact windowOfMatrix_byte _ _ _
  · intro _ rc hrc; rw [hRt] at hrc; rw [hRo]; exact zone_tableOfMatrix _ _ _ rc hrc
  · intro r c hr' hc
    rw [hRl] at hr'
    rw [hbit r c hr' hc]; exact h.bits r c hr' hc
  · rw [hRf, hRo]; exact ficOfMatrix_le _ _ _
  · intro r c hr' hc
    rw [hRl] at hr'
    rw [hRf] at hc
    have hc64 : c < 64 := by
      have := ficOfMatrix_le (2^lgK) off m.toArray
      omega
    rw [hbit r c hr' hc64, ← getD_toArray]
    exact ficOfMatrix_full _ _ _ r c hr' hc
  · intro e; exact absurd e hwne
  · intro _; rw [hRl, hRc]; exact h.dense
  · intro _; left; rw [hRl, hRc, hRo]; exact hd.1
  · intro h1; rw [hRo] at h1; rw [hRl, hRc, hRo]; exact hd.2 h1

end DS.Cpc

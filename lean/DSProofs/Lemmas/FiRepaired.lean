/- C12, repaired source shape: with `is_empty() = (total_weight == 0)` (header flag `emptyByTotal`) the bracketing
   invariant and the exact total hold for EVERY history, including merges and round trips of fully purged sketches. -/
import DSProofs.Lemmas.FiReach
namespace DS.Fi
set_option linter.unusedSectionVars false

variable {ι : Type} [DecidableEq ι]

/-- every history of the sketch with the `is_empty()`-dependent operations as the source has them now
(`mergeF`, `roundtripF`); no exclusion of fully purged operands -/
inductive ReachF (T : Tun) : St ι → (ι → Nat) → Nat → Prop
  | new (lgMax lgStart : Nat) (h : lgStart ≤ lgMax) : ReachF T (init T lgMax lgStart) (fun _ => 0) 0
  | upd {s f N} (x : ι) (w a : Nat) (h : ReachF T s f N) :
      ReachF T (update T s x w a) (fun y => f y + (if x = y then w else 0)) (N + w)
  | merge {s f N o g M} (ents : List (Ent ι)) (hs : ReachF T s f N) (ho : ReachF T o g M)
      (hp : (entPairs ents).Perm o.map) :
      ReachF T (mergeF T s o ents) (fun y => f y + g y) (N + M)
  | roundtrip {s f N} (h : ReachF T s f N) : ReachF T (roundtripF T s) f N
  | congr {s f g N} (h : ReachF T s f N) (hfg : ∀ y, f y = g y) : ReachF T s g N

theorem reachF_inv (T : Tun) (hT : T.emptyByTotal = true) {s : St ι} {f : ι → Nat} {N : Nat} (h : ReachF T s f N) :
    Brk s f ∧ s.total = N ∧ (N = 0 → ∀ y, f y = 0) := by
  induction h with
  | new lgMax lgStart _ => exact ⟨brk_init T lgMax lgStart, rfl, fun _ _ => rfl⟩
  | upd x w a _ ih =>
    refine ⟨brk_update T _ _ ih.1 x w a, by rw [total_update, ih.2.1], ?_⟩
    intro h0 y
    have hw : w = 0 := by omega
    show _ + (if x = y then w else 0) = 0
    rw [ih.2.2 (by omega) y, hw]; simp
  | @merge s f N o g M ents _ _ hp ih1 ih2 =>
    unfold mergeF
    simp only [hT, if_true]
    by_cases h0 : o.total = 0
    · -- operand never saw a positive weight: g ≡ 0
      have hM : M = 0 := by rw [← ih2.2.1]; exact h0
      have hg := ih2.2.2 hM
      simp only [h0, if_true]
      refine ⟨⟨ih1.1.1, ?_⟩, by rw [ih1.2.1, hM]; rfl, ?_⟩
      · intro y; have := ih1.1.2 y
        show cnt s.map y ≤ f y + g y ∧ f y + g y ≤ cnt s.map y + s.offset
        rw [hg y]; simpa using this
      · intro hz y
        show f y + g y = 0
        rw [ih1.2.2 (by omega) y, hg y]
    · simp only [h0, if_false]
      have h1 := brk_replay T ents s f ih1.1
      refine ⟨⟨h1.1, ?_⟩, ?_, ?_⟩
      · intro y
        have h2 := h1.2 y
        have h3 := ih2.1.2 y
        dsimp only at h2 ⊢
        rw [cnt_perm hp y] at h2
        omega
      · show s.total + o.total = N + M
        rw [ih1.2.1, ih2.2.1]
      · intro hz y
        show f y + g y = 0
        rw [ih1.2.2 (by omega) y, ih2.2.2 (by omega) y]
  | @roundtrip s f N _ ih =>
    unfold roundtripF
    simp only [hT, if_true]
    by_cases h0 : s.total = 0
    · have hN : N = 0 := by rw [← ih.2.1]; exact h0
      have hf := ih.2.2 hN
      simp only [h0, if_true]
      refine ⟨⟨by simp, ?_⟩, by show 0 = N; omega, ih.2.2⟩
      intro y; rw [hf y]; simp
    · simp only [h0, if_false]; exact ih
  | congr _ hfg ih =>
    refine ⟨⟨ih.1.1, ?_⟩, ih.2.1, ?_⟩
    · intro y; rw [← hfg y]; exact ih.1.2 y
    · intro hz y; rw [← hfg y]; exact ih.2.2 hz y

end DS.Fi

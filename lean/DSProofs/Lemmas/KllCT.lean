/- Lemmas about coin trees (DSModel/Kll/CoinTree.lean). Core Lean only. -/
import DSModel.Kll.CoinTree
namespace DS.CT

variable {σ τ : Type}

@[simp] theorem bind_ret (s : σ) (k : σ → CT τ) : bind (ret s) k = k s := rfl
@[simp] theorem bind_flip (f : Bool → CT σ) (k : σ → CT τ) : bind (flip f) k = flip (fun b => bind (f b) k) := rfl

theorem bind_assoc {ρ : Type} (t : CT σ) (k : σ → CT τ) (k' : τ → CT ρ) :
    bind (bind t k) k' = bind t (fun s => bind (k s) k') := by
  induction t with
  | ret s => rfl
  | flip f ih => simp only [bind_flip, ih]

theorem bind_ret_right (t : CT σ) : bind t ret = t := by
  induction t with
  | ret s => rfl
  | flip f ih => simp only [bind_flip, ih]

@[simp] theorem All_ret (P : σ → Prop) (s : σ) : All P (ret s) ↔ P s := Iff.rfl
@[simp] theorem All_flip (P : σ → Prop) (f : Bool → CT σ) : All P (flip f) ↔ ∀ b, All P (f b) := Iff.rfl

theorem All.imp {P Q : σ → Prop} (h : ∀ s, P s → Q s) : ∀ {t : CT σ}, All P t → All Q t
  | ret _, hp => h _ hp
  | flip _, hp => fun b => All.imp h (hp b)

theorem All.and {P Q : σ → Prop} : ∀ {t : CT σ}, All P t → All Q t → All (fun s => P s ∧ Q s) t
  | ret _, hp, hq => ⟨hp, hq⟩
  | flip _, hp, hq => fun b => All.and (hp b) (hq b)

theorem All_bind {P : σ → Prop} {Q : τ → Prop} {k : σ → CT τ} :
    ∀ {t : CT σ}, All P t → (∀ s, P s → All Q (k s)) → All Q (bind t k)
  | ret _, hp, hk => hk _ hp
  | flip _, hp, hk => fun b => All_bind (hp b) hk

theorem All_map {P : σ → Prop} {Q : τ → Prop} {g : σ → τ} {t : CT σ} (h : All P t) (hg : ∀ s, P s → Q (g s)) :
    All Q (map g t) := All_bind h (fun s hs => hg s hs)

/-- whatever holds at every leaf holds for the result of every execution -/
theorem All.run {P : σ → Prop} : ∀ {t : CT σ}, All P t → ∀ c : Coins, P (t.run c).1
  | ret _, hp, _ => hp
  | flip _, hp, c => All.run (hp c.next.1) c.next.2

@[simp] theorem sum_ret (g : σ → Nat) (s : σ) : sum g (ret s) = g s := rfl
@[simp] theorem sum_flip (g : σ → Nat) (f : Bool → CT σ) : sum g (flip f) = sum g (f false) + sum g (f true) := rfl
@[simp] theorem leaves_ret (s : σ) : leaves (ret s) = 1 := rfl
@[simp] theorem leaves_flip (f : Bool → CT σ) : leaves (flip f) = leaves (f false) + leaves (f true) := rfl

theorem sum_bind (g : τ → Nat) (k : σ → CT τ) : ∀ t : CT σ, sum g (bind t k) = sum (fun s => sum g (k s)) t
  | ret _ => rfl
  | flip f => by simp only [bind_flip, sum_flip, sum_bind g k (f false), sum_bind g k (f true)]

theorem sum_congr {g h : σ → Nat} {P : σ → Prop} : ∀ {t : CT σ}, All P t → (∀ s, P s → g s = h s) → sum g t = sum h t
  | ret _, hp, hgh => hgh _ hp
  | flip f, hp, hgh => by simp only [sum_flip, sum_congr (hp false) hgh, sum_congr (hp true) hgh]

theorem sum_add (g h : σ → Nat) : ∀ t : CT σ, sum (fun s => g s + h s) t = sum g t + sum h t
  | ret _ => rfl
  | flip f => by simp only [sum_flip, sum_add g h (f false), sum_add g h (f true)]; omega

theorem sum_mul_left (a : Nat) (g : σ → Nat) : ∀ t : CT σ, sum (fun s => a * g s) t = a * sum g t
  | ret _ => rfl
  | flip f => by simp only [sum_flip, sum_mul_left a g (f false), sum_mul_left a g (f true), Nat.mul_add]

theorem sum_const (a : Nat) : ∀ t : CT σ, sum (fun _ => a) t = leaves t * a
  | ret _ => by simp
  | flip f => by simp only [sum_flip, leaves_flip, sum_const a (f false), sum_const a (f true), Nat.add_mul]

theorem leaves_bind (k : σ → CT τ) : ∀ t : CT σ, leaves (bind t k) = sum (fun s => leaves (k s)) t
  | ret _ => rfl
  | flip f => by simp only [bind_flip, leaves_flip, sum_flip, leaves_bind k (f false), leaves_bind k (f true)]

@[simp] theorem Uniform_ret_zero (s : σ) : Uniform 0 (ret s) := trivial
theorem Uniform_flip (d : Nat) (f : Bool → CT σ) : Uniform (d + 1) (flip f) ↔ ∀ b, Uniform d (f b) := Iff.rfl

theorem Uniform.leaves : ∀ {d : Nat} {t : CT σ}, Uniform d t → leaves t = 2 ^ d
  | 0, ret _, _ => rfl
  | _ + 1, ret _, h => absurd h (by simp [Uniform])
  | 0, flip _, h => absurd h (by simp [Uniform])
  | d + 1, flip f, h => by
    simp only [leaves_flip, Uniform.leaves (h false), Uniform.leaves (h true), Nat.pow_succ]; omega

theorem Uniform.depthLeft : ∀ {d : Nat} {t : CT σ}, Uniform d t → depthLeft t = d
  | 0, ret _, _ => rfl
  | _ + 1, ret _, h => absurd h (by simp [Uniform])
  | 0, flip _, h => absurd h (by simp [Uniform])
  | d + 1, flip f, h => by simp only [CT.depthLeft, Uniform.depthLeft (h false)]

theorem Uniform_bind {P : σ → Prop} {k : σ → CT τ} {e : Nat} :
    ∀ {d : Nat} {t : CT σ}, Uniform d t → All P t → (∀ s, P s → Uniform e (k s)) → Uniform (d + e) (bind t k)
  | 0, ret _, _, hp, hk => by simpa using hk _ hp
  | _ + 1, ret _, h, _, _ => absurd h (by simp [Uniform])
  | 0, flip _, h, _, _ => absurd h (by simp [Uniform])
  | d + 1, flip f, h, hp, hk => by
    have : d + 1 + e = (d + e) + 1 := by omega
    rw [this, bind_flip, Uniform_flip]
    intro b
    exact Uniform_bind (h b) (hp b) hk

theorem Uniform_map {g : σ → τ} {d : Nat} {t : CT σ} (h : Uniform d t) : Uniform d (map g t) := by
  have := Uniform_bind (P := fun _ => True) (k := fun s => ret (g s)) (e := 0) h
    (All.imp (P := fun _ => True) (fun _ _ => trivial) (by
      clear h; induction t with
      | ret s => trivial
      | flip f ih => exact fun b => ih b)) (fun _ _ => trivial)
  simpa [map] using this

theorem All_true : ∀ t : CT σ, All (fun _ => True) t
  | ret _ => trivial
  | flip f => fun b => All_true (f b)

theorem leaves_map (h : σ → τ) (t : CT σ) : leaves (map h t) = leaves t := by
  simp only [map, leaves_bind, leaves_ret, sum_const, Nat.mul_one]

theorem sum_map (g : τ → Nat) (h : σ → τ) (t : CT σ) : sum g (map h t) = sum (fun s => g (h s)) t := by
  simp only [map, sum_bind, sum_ret]

/-- executing a uniform tree of depth `d` consumes exactly `d` coins and ignores the rest -/
theorem Uniform.run_append : ∀ {d : Nat} {t : CT σ}, Uniform d t → ∀ (v r : List Bool) (u : Nat), v.length = d →
    (t.run { bits := v ++ r, used := u }).2 = { bits := r, used := u + d } ∧
    (t.run { bits := v ++ r, used := u }).1 = (t.run { bits := v, used := 0 }).1
  | 0, ret _, _, v, r, u, hv => by
    have : v = [] := List.eq_nil_of_length_eq_zero hv
    subst this; simp [CT.run]
  | _ + 1, ret _, h, _, _, _, _ => absurd h (by simp [Uniform])
  | 0, flip _, h, _, _, _, _ => absurd h (by simp [Uniform])
  | d + 1, flip f, h, v, r, u, hv => by
    match v, hv with
    | b :: v', hv' =>
      have hl : v'.length = d := by simpa using hv'
      have := Uniform.run_append (h b) v' r (u + 1) hl
      have h0 := Uniform.run_append (h b) v' [] 1 hl
      simp only [CT.run, Coins.next, List.cons_append, List.headD_cons, List.tail_cons]
      refine ⟨by rw [this.1]; congr 1; omega, ?_⟩
      rw [this.2]
      have h1 := h0.2
      simp only [List.append_nil] at h1
      rw [h1]

/-- the sum over all leaves is the sum over all coin vectors of the uniform depth -/
theorem Uniform.sum_eq_allVecs (g : σ → Nat) : ∀ {d : Nat} {t : CT σ}, Uniform d t →
    sum g t = ((allVecs d).map (fun v => g (t.run { bits := v, used := 0 }).1)).sum
  | 0, ret _, _ => by simp [allVecs, CT.run]
  | _ + 1, ret _, h => absurd h (by simp [Uniform])
  | 0, flip _, h => absurd h (by simp [Uniform])
  | d + 1, flip f, h => by
    simp only [sum_flip, allVecs, List.map_append, List.map_map, List.sum_append,
      Uniform.sum_eq_allVecs g (h false), Uniform.sum_eq_allVecs g (h true)]
    congr 1
    · congr 1; apply List.map_congr_left; intro v hv
      simp only [Function.comp, CT.run, Coins.next, List.headD_cons, List.tail_cons]
      have hl : v.length = d := by
        clear h; induction d generalizing v with
        | zero => simp [allVecs] at hv; simp [hv]
        | succ n ih =>
          simp only [allVecs, List.mem_append, List.mem_map] at hv
          rcases hv with ⟨w, hw, rfl⟩ | ⟨w, hw, rfl⟩ <;> simp [ih w hw]
      have := (Uniform.run_append (h false) v [] 1 hl).2
      simp only [List.append_nil] at this
      rw [this]
    · congr 1; apply List.map_congr_left; intro v hv
      simp only [Function.comp, CT.run, Coins.next, List.headD_cons, List.tail_cons]
      have hl : v.length = d := by
        clear h; induction d generalizing v with
        | zero => simp [allVecs] at hv; simp [hv]
        | succ n ih =>
          simp only [allVecs, List.mem_append, List.mem_map] at hv
          rcases hv with ⟨w, hw, rfl⟩ | ⟨w, hw, rfl⟩ <;> simp [ih w hw]
      have := (Uniform.run_append (h true) v [] 1 hl).2
      simp only [List.append_nil] at this
      rw [this]

end DS.CT

/- Witness constructions for the `…_full_false` theorems of C20 (for every value of the behaviour switches they do not concern). -/
import DSProofs.Lemmas.DensityExact
namespace DS.Density

/-! ### merge loses n (early return on `num_retained_ == 0`) -/

/-- the picker that keeps nothing -/
def dropAll : Picker Unit Nat := fun _ _ => (([], []), ())

/-- A = {0} merged with {100} (k = 2): the merge compacts the two points and the choice keeps none, so A has n = 2 and
num_retained = 0; merging A into C = {5} is skipped by `if (other.is_empty()) return;`. -/
def lossHist : Hist Nat := .merge (.upd (.new 2 1) [5]) (.merge (.upd (.new 2 1) [0]) (.upd (.new 2 1) [100]))

theorem lossHist_n (c : Cfg) (hc : c.mergeSkipOnN = false) :
    lossHist.valid 2 ∧ (run c dropAll lossHist ()).1.n = 1 ∧ lossHist.inputs.length = 3 := by
  obtain ⟨b1, b2, b3, b4⟩ := c
  simp only at hc
  subst hc
  cases b2 <;> cases b3 <;> cases b4 <;> decide

/-! ### an empty top level (pinned shape of `compact()`) -/

/-- {0} merged with {100} (k = 2), the compaction keeps nothing: the freshly pushed top level stays empty -/
def emptyTopHist : Hist Nat := .merge (.upd (.new 2 1) [0]) (.upd (.new 2 1) [100])

theorem emptyTopHist_levels (c : Cfg) (hc : c.popsEmptyTop = false) :
    emptyTopHist.valid 2 ∧ (run c dropAll emptyTopHist ()).1.levels = [[], []] := by
  obtain ⟨b1, b2, b3, b4⟩ := c
  simp only at hc
  subst hc
  cases b1 <;> cases b2 <;> cases b3 <;> decide

/-! ### negative estimate (level weight in 32-bit int) -/

/-- keep every second point of the (unshuffled) level: conserves the total weight -/
def altMask : Nat → List Bool
  | 0 => []
  | n + 1 => (n % 2 == 0) :: altMask n
def keepHalf : Picker Unit Rat := fun _ l => (([], altMask l.length), ())

/-- the balanced merge tree over 2^i one-point sketches (k = 2, dimension 1) -/
def dblHist : Nat → Hist Rat
  | 0 => .upd (.new 2 1) [0]
  | i + 1 => .merge (dblHist i) (dblHist i)

def dblStep (c : Cfg) (s : Sketch Rat) : Sketch Rat := (merge c keepHalf () s s).1
def dblChain (c : Cfg) : Nat → Sketch Rat
  | 0 => (update c keepHalf () (init 2 1) [0]).1
  | i + 1 => dblStep c (dblChain c i)

theorem dblHist_valid (i : Nat) : (dblHist i).valid 2 := by
  induction i with
  | zero => simp [dblHist, Hist.valid]
  | succ i ih => exact ⟨ih, ih⟩

theorem run_dblHist (c : Cfg) (i : Nat) : run c keepHalf (dblHist i) () = (dblChain c i, ()) := by
  induction i with
  | zero => rfl
  | succ i ih =>
    simp only [dblHist, run, ih, dblChain, dblStep]

theorem run_dblHist_fst (c : Cfg) (i : Nat) : (run c keepHalf (dblHist i) ()).1 = dblChain c i := by rw [run_dblHist]

/-- the constant kernel 1 -/
def oneK : Point Rat → Point Rat → Rat := fun _ _ => 1

/-- 2^36 points: 32 levels, 32 points of weight 2^31; the true mean of the kernel is 1, `get_estimate` computes −1 -/
theorem dblChain36 (b1 b2 b4 : Bool) :
    let c : Cfg := { mergeSkipOnN := b1, queryChecksDim := b2, weight64 := false, popsEmptyTop := b4 }
    (dblChain c 36).levels.length = 32 ∧ (dblChain c 36).n = 2 ^ 36 ∧ estimateUB c (dblChain c 36) = false ∧
    estimate c oneK (dblChain c 36) [0] = -1 := by
  cases b1 <;> cases b2 <;> cases b4 <;> decide +kernel

theorem dblChain36_est (c : Cfg) (hc : c.weight64 = false) : estimate c oneK (dblChain c 36) [0] = -1 := by
  obtain ⟨b1, b2, b3, b4⟩ := c
  simp only at hc
  subst hc
  exact (dblChain36 b1 b2 b4).2.2.2

end DS.Density

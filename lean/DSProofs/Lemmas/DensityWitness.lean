/- Witness construction for `ds_estimate_nonneg_full_false` (C20): a merge tree whose sketch has a populated level 31. -/
import DSProofs.Lemmas.DensityExact
namespace DS.Density

/-- keep every second point of the (unshuffled) level: conserves the total weight -/
def altMask : Nat → List Bool
  | 0 => []
  | n + 1 => (n % 2 == 0) :: altMask n
def keepHalf : Picker Unit Rat := fun _ l => (([], altMask l.length), ())

/-- the balanced merge tree over 2^i one-point sketches (k = 2, dimension 1) -/
def dblHist : Nat → Hist Rat
  | 0 => .upd (.new 2 1) [0]
  | i + 1 => .merge (dblHist i) (dblHist i)

def dblStep (c : Sketch Rat) : Sketch Rat := (merge keepHalf () c c).1
def dblChain : Nat → Sketch Rat
  | 0 => (update keepHalf () (init 2 1) [0]).1
  | i + 1 => dblStep (dblChain i)

theorem dblHist_valid (i : Nat) : (dblHist i).valid 2 := by
  induction i with
  | zero => simp [dblHist, Hist.valid]
  | succ i ih => exact ⟨ih, ih⟩

theorem run_dblHist (i : Nat) : run keepHalf (dblHist i) () = (dblChain i, ()) := by
  induction i with
  | zero => rfl
  | succ i ih =>
    simp only [dblHist, run, ih, dblChain, dblStep]

theorem run_dblHist_fst (i : Nat) : (run keepHalf (dblHist i) ()).1 = dblChain i := by rw [run_dblHist]

/-- the constant kernel 1 -/
def oneK : Point Rat → Point Rat → Rat := fun _ _ => 1

/-- 2^36 points: 32 levels, 32 points of weight 2^31; the true mean of the kernel is 1, `get_estimate` computes −1 -/
theorem dblChain36 : (dblChain 36).levels.length = 32 ∧ (dblChain 36).n = 2 ^ 36 ∧ estimateUB (dblChain 36) = false ∧
    estimate oneK (dblChain 36) [0] = -1 := by decide +kernel

theorem dblChain36_est : estimate oneK (dblChain 36) [0] = -1 := dblChain36.2.2.2

end DS.Density

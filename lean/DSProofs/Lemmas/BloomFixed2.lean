/- Repaired model: invariant preservation, part 2 (get_bits_used, copy). -/
import DSProofs.Lemmas.BloomFixed1
namespace DS.Bloom

variable {ι : Type} [DecidableEq ι] (P : Params) (hf : ι → Nat → Option (Nat × Nat))

omit [DecidableEq ι] in
theorem promised_of_M_ne {X : Nat} {s : SInfo ι} {f : Filter} {i : VInfo ι} (hok : ViewOK P hf X s f i) (hM : i.M ≠ []) : i.promised = true := by
  cases hp : i.promised with
  | true => rfl
  | false => exact absurd (hok.up hp) hM

omit [DecidableEq ι] in
/-- a covered, non-empty list forces a set bit inside the capacity window -/
theorem popCount_pos_of_covers (X off : Nat) (c : Cfg) (l : List ι) (hc : Covers hf X off c l) (hh : Hashed hf c.seed l)
    (hl : l ≠ []) (hk : 1 ≤ c.k) (hcap : 0 < c.cap) : 0 < popCount X off c.cap := by
  obtain ⟨x, hx⟩ := List.exists_mem_of_ne_nil l hl
  have hs := hh x hx
  cases hhx : hf x c.seed with
  | none => rw [hhx] at hs; cases hs
  | some h =>
    have ha := (allSet_iff _ _ _).mp (hc x hx h hhx) _ (idx1_mem_indices h.1 h.2 c.cap c.k hk)
    exact popCount_pos X off c.cap _ (idx_lt _ _ _ _ hcap) ha

omit [DecidableEq ι] in
theorem popCount_pos_of_viewOK {X : Nat} {s : SInfo ι} {f : Filter} {i : VInfo ι} (hok : ViewOK P hf X s f i) (hw : FWF f)
    (hM : i.M ≠ []) : 0 < popCount X (f.off P) f.capBits :=
  popCount_pos_of_covers hf X (f.off P) f.cfg i.M hok.cov hok.hs hM (hok.k1 (promised_of_M_ne P hf hok hM)).1 hw.capPos

omit [DecidableEq ι] in
/-- `get_bits_used` on the view itself -/
theorem viewOK_bits {X : Nat} {s : SInfo ι} {f : Filter} {i : VInfo ι} (hok : ViewOK P hf X s f i) (hw : FWF f) :
    ViewOK P hf X s { f with nbs := popCount X (f.off P) f.capBits, dirty := false } i := by
  have hin : insync s { f with nbs := popCount X (f.off P) f.capBits, dirty := false } i = insync s f i := rfl
  refine ⟨hok.up, hok.us, hok.k1, hok.hs, hok.cov, ?_, ?_, ?_, hok.sv, hok.tm, hok.os⟩
  · intro hM
    have := popCount_pos_of_viewOK P hf hok hw hM
    simp only [Filter.isEmpty, Bool.not_false, Bool.true_and, beq_eq_false_iff_ne, ne_eq]
    omega
  · intro _ _ _; rfl
  · intro _ _ _ _ hd; cases hd

theorem good_bits (w : World) (p : PGhost ι) (hg : Good P hf w p) (v : Nat) :
    Good P hf (opBitsUsed P w v).1 (pstep hf p w (opBitsUsed P w v).1 (opBitsUsed P w v).2 (.bits v)) := by
  cases hv : w.filters v with
  | none => simp only [opBitsUsed, pstep, hv]; exact hg
  | some f =>
    by_cases hd : f.dirty = true
    · simp only [opBitsUsed, pstep, hv, hd, if_true]
      have hkeq : ∀ key, keyVal (w.setFilter v { f with nbs := popCount (w.val f) (f.off P) f.capBits, dirty := false }) key = keyVal w key := by
        intro key
        cases key with
        | mem m => rfl
        | own v' =>
          by_cases e : v' = v
          · subst e; simp [keyVal, World.setFilter, hv]
          · exact keyVal_setFilter_own_ne _ _ _ _ e
      refine ⟨?_, ?_, ?_, hg.blk, hg.taintS, ?_, ?_⟩
      · intro v' f' h'
        by_cases e : v' = v
        · subst e; exact hg.tracked v' f hv
        · simp only [World.setFilter, e, if_false] at h'; exact hg.tracked v' f' h'
      · intro v' f' h'
        by_cases e : v' = v
        · subst e
          simp only [setFilter_filters_same, Option.some.injEq] at h'
          have := hg.fwf v' f hv
          rw [← h']; exact ⟨this.capPos, this.cap64, this.capLt, this.nh, this.seed⟩
        · simp only [World.setFilter, e, if_false] at h'; exact hg.fwf v' f' h'
      · intro v' f' i' h' hi'
        by_cases e : v' = v
        · subst e
          simp only [setFilter_filters_same, Option.some.injEq] at h'
          subst h'
          have hk : keyOf v' { f with nbs := popCount (w.val f) (f.off P) f.capBits, dirty := false } = keyOf v' f := rfl
          rw [hk, hkeq, val_eq_keyVal w v' f hv]
          exact viewOK_bits P hf (hg.view v' f i' hv hi') (hg.fwf v' f hv)
        · simp only [World.setFilter, e, if_false] at h'
          rw [hkeq]; exact hg.view v' f' i' h' hi'
      · intro v' f' m h' hr'
        by_cases e : v' = v
        · subst e
          simp only [setFilter_filters_same, Option.some.injEq] at h'
          subst h'
          exact hg.memref v' f m hv hr'
        · simp only [World.setFilter, e, if_false] at h'; exact hg.memref v' f' m h' hr'
      · intro v' f' i' m b' h' hi' hr' hb' hp hin
        by_cases e : v' = v
        · subst e
          simp only [setFilter_filters_same, Option.some.injEq] at h'
          subst h'
          exact hg.memfull v' f i' m b' hv hi' hr' hb' hp hin
        · simp only [World.setFilter, e, if_false] at h'; exact hg.memfull v' f' i' m b' h' hi' hr' hb' hp hin
    · simp [opBitsUsed, pstep, hv, hd]; exact hg

theorem good_copy (w : World) (p : PGhost ι) (hg : Good P hf w p) (v v' : Nat) :
    Good P hf (opCopy w v v').1 (pstep hf p w (opCopy w v v').1 (opCopy w v v').2 (.copy v v')) := by
  cases hv : w.filters v with
  | none => simp only [opCopy, pstep, hv]; exact hg
  | some f =>
    obtain ⟨i, hi⟩ := hg.tracked v f hv
    simp only [opCopy, pstep, hv, hi]
    have hok := hg.view v f i hv hi
    cases hr : f.ref with
    | owned b =>
      simp only []
      have hm : isMem f = false := by simp [isMem, hr]
      have hX : keyVal w (keyOf v f) = b := by simp [keyOf, hr, keyVal, hv]
      rw [hX] at hok
      exact good_bind_owned P hf w p hg v' f b hr _ i (hg.fwf v f hv) (viewOK_owned_si (s := p.si (Key.own v)) P hf hm rfl (by simpa [keyOf, hr] using hok))
    | mem m =>
      simp only []
      have hk : ∀ u, keyOf u f = .mem m := by intro u; simp [keyOf, hr]
      refine ⟨?_, ?_, ?_, ?_, ?_, ?_, ?_⟩
      · intro u fu h'
        by_cases e : u = v'
        · subst e; exact ⟨i, by simp⟩
        · simp only [World.setFilter, e, if_false] at h'
          rw [setV_vi_ne _ _ e]; exact hg.tracked u fu h'
      · intro u fu h'
        by_cases e : u = v'
        · subst e; simp only [setFilter_filters_same, Option.some.injEq] at h'; rw [← h']; exact hg.fwf v f hv
        · simp only [World.setFilter, e, if_false] at h'; exact hg.fwf u fu h'
      · intro u fu iu h' hi'
        by_cases e : u = v'
        · subst e
          simp only [setFilter_filters_same, Option.some.injEq] at h'
          simp only [setV_vi_same, Option.some.injEq] at hi'
          subst h' hi'
          rw [hk u, setV_si, keyVal_setFilter_mem]
          rw [hk v] at hok; exact hok
        · simp only [World.setFilter, e, if_false] at h'
          rw [setV_vi_ne _ _ e] at hi'
          have : keyVal (w.setFilter v' f) (keyOf u fu) = keyVal w (keyOf u fu) := by
            cases hkk : keyOf u fu with
            | mem m' => rfl
            | own u' =>
              have : u' = u := by
                unfold keyOf at hkk; cases hru : fu.ref <;> simp_all
              subst this
              exact keyVal_setFilter_own_ne _ _ _ _ e
          rw [this, setV_si]; exact hg.view u fu iu h' hi'
      · intro m' b' hb' ht; exact hg.blk m' b' hb' ht
      · intro m' ht; exact hg.taintS m' ht
      · intro u fu m' h' hr'
        by_cases e : u = v'
        · subst e; simp only [setFilter_filters_same, Option.some.injEq] at h'; subst h'; exact hg.memref v f m' hv hr'
        · simp only [World.setFilter, e, if_false] at h'; exact hg.memref u fu m' h' hr'
      · intro u fu iu m' b' h' hi' hr' hb' hp hin
        by_cases e : u = v'
        · subst e
          simp only [setFilter_filters_same, Option.some.injEq] at h'
          simp only [setV_vi_same, Option.some.injEq] at hi'
          subst h' hi'
          exact hg.memfull v f i m' b' hv hi hr' hb' hp hin
        · simp only [World.setFilter, e, if_false] at h'
          rw [setV_vi_ne _ _ e] at hi'
          exact hg.memfull u fu iu m' b' h' hi' hr' hb' hp hin

end DS.Bloom

/- Repaired model: assembling `Good` after a write through a memory-backed view. -/
import DSProofs.Lemmas.BloomFixed5
namespace DS.Bloom

variable {ι : Type} (P : Params) (hf : ι → Nat → Option (Nat × Nat))

theorem keyOf_mem_of_eq {u : Nat} {fu : Filter} {m : Nat} (h : keyOf u fu = .mem m) : fu.ref = .mem m ∧ isMem fu = true := by
  unfold keyOf at h; unfold isMem
  cases hr : fu.ref with
  | owned b => rw [hr] at h; cases h
  | mem m' => rw [hr] at h; injection h with h; subst h; exact ⟨rfl, rfl⟩

theorem off_mem (hP : P.Layout) {f : Filter} (hm : isMem f = true) : f.off P = 256 := by
  unfold Filter.off; unfold isMem at hm
  cases hr : f.ref with
  | owned b => rw [hr] at hm; cases hm
  | mem m => simp [hP.2]

/-- a write that taints the block (stale or read-only writer), or a write to an already tainted block:
every view of the block ends with an empty must-set, nothing else is required of the memory -/
theorem good_write_mem_taint (w : World) (p p' : PGhost ι) (hg : Good P hf w p) (v : Nat) (f : Filter) (m : Nat)
    (hv : w.filters v = some f) (hr : f.ref = .mem m)
    (x nbs' : Nat) (d' : Bool) (hdr : Option Nat) (s' : SInfo ι)
    (hsi : p'.si (.mem m) = s') (hsi_ne : ∀ k, k ≠ .mem m → p'.si k = p.si k)
    (ht' : s'.tainted = true) (hS' : s'.S = []) (hver : (p.si (.mem m)).ver ≤ s'.ver)
    (hvi_same : ∀ u fu iu, w.filters u = some fu → p.vi u = some iu → keyOf u fu = .mem m →
        ∃ iu', p'.vi u = some iu' ∧ iu'.M = [] ∧ iu'.promised = iu.promised ∧ iu'.sync = iu.sync)
    (hvi_ne : ∀ u fu, w.filters u = some fu → keyOf u fu ≠ .mem m → p'.vi u = p.vi u) :
    Good P hf (commit P w v f x nbs' d' hdr) p' := by
  have hkey : keyOf v f = .mem m := by simp [keyOf, hr]
  have hfil : ∀ u, (commit P w v f x nbs' d' hdr).filters u = some (if u = v then committed f x nbs' d' else
      match w.filters u with | some fu => fu | none => committed f x nbs' d') ∨ ((commit P w v f x nbs' d' hdr).filters u = none ∧ w.filters u = none ∧ u ≠ v) := by
    intro u
    by_cases e : u = v
    · left; subst e; simp [commit_filter]
    · rw [commit_filters_ne _ _ _ _ _ _ _ _ _ e]
      cases h : w.filters u with
      | none => right; exact ⟨rfl, rfl, e⟩
      | some fu => left; simp [e]
  -- old filter of any id whose new filter is `fu'`
  have hold : ∀ u fu', (commit P w v f x nbs' d' hdr).filters u = some fu' →
      ∃ fu, w.filters u = some fu ∧ keyOf u fu' = keyOf u fu ∧ isMem fu' = isMem fu ∧ (KOK fu → KOK fu') ∧ FWF fu' := by
    intro u fu' h'
    by_cases e : u = v
    · subst e
      rw [commit_filter] at h'; injection h' with h'; subst h'
      exact ⟨f, hv, committed_key _ _ _ _ _, committed_isMem _ _ _ _,
        (fun hk => ⟨by rw [(committed_fields _ _ _ _).2.1]; exact hk.1, by rw [(committed_fields _ _ _ _).1]; exact hk.2⟩),
        fwf_committed (hg.fwf u f hv) _ _ _⟩
    · rw [commit_filters_ne _ _ _ _ _ _ _ _ _ e] at h'
      exact ⟨fu', h', rfl, rfl, id, hg.fwf u fu' h'⟩
  refine ⟨?_, ?_, ?_, ?_, ?_, ?_, ?_⟩
  · intro u fu' h'
    obtain ⟨fu, hfu, _, _, _, _⟩ := hold u fu' h'
    obtain ⟨iu, hiu⟩ := hg.tracked u fu hfu
    by_cases hk : keyOf u fu = .mem m
    · obtain ⟨iu', hiu', _⟩ := hvi_same u fu iu hfu hiu hk; exact ⟨iu', hiu'⟩
    · rw [hvi_ne u fu hfu hk]; exact ⟨iu, hiu⟩
  · intro u fu' h'
    obtain ⟨_, _, _, _, _, hw⟩ := hold u fu' h'; exact hw
  · intro u fu' iu' h' hi'
    obtain ⟨fu, hfu, hkk, hmm, hnh, _⟩ := hold u fu' h'
    obtain ⟨iu, hiu⟩ := hg.tracked u fu hfu
    have hoku := hg.view u fu iu hfu hiu
    by_cases hk : keyOf u fu = .mem m
    · obtain ⟨iu'', hiu'', hM, hpr, hsy⟩ := hvi_same u fu iu hfu hiu hk
      rw [hiu''] at hi'; injection hi' with hi'; subst hi'
      have hmem := (keyOf_mem_of_eq hk).2
      rw [hkk, hk, hsi]
      apply viewOK_tainted P hf (by rw [hmm]; exact hmem) ht' hM
      · intro hp; exact hnh (hoku.k1 (by rw [← hpr]; exact hp))
      · rw [hsy]; have := hoku.sv hmem; rw [hk] at this; omega
    · rw [hvi_ne u fu hfu hk, hiu] at hi'; injection hi' with hi'; subst hi'
      have e : u ≠ v := by intro e; subst e; rw [hv] at hfu; injection hfu with hfu; subst hfu; exact hk hkey
      rw [commit_filters_ne _ _ _ _ _ _ _ _ _ e, hfu] at h'; injection h' with h'; subst h'
      rw [keyVal_commit_ne P w v f _ _ _ _ hv _ (by rw [hkey]; exact hk), hsi_ne _ hk]
      exact hoku
  · intro m' b' hb' ht
    by_cases e : m' = m
    · subst e; rw [hsi, ht'] at ht; cases ht
    · rw [commit_blocks_mem P w v f m hr] at hb'
      simp only [e, if_false] at hb'
      have hk : Key.mem m' ≠ Key.mem m := by intro h; injection h with h; exact e h
      rw [hsi_ne _ hk] at ht ⊢
      exact hg.blk m' b' hb' ht
  · intro m' ht
    by_cases e : m' = m
    · subst e; rw [hsi]; exact hS'
    · have hk : Key.mem m' ≠ Key.mem m := by intro h; injection h with h; exact e h
      rw [hsi_ne _ hk] at ht ⊢
      exact hg.taintS m' ht
  · intro u fu' m' h' hr'
    obtain ⟨fu, hfu, hkk, _, _, _⟩ := hold u fu' h'
    have hr0 : fu.ref = .mem m' := by
      have : keyOf u fu' = .mem m' := by simp [keyOf, hr']
      rw [hkk] at this; exact (keyOf_mem_of_eq this).1
    obtain ⟨b0, hb0⟩ := hg.memref u fu m' hfu hr0
    rw [commit_blocks_mem P w v f m hr]
    by_cases e : m' = m
    · simp [e]
    · simp [e, hb0]
  · intro u fu' iu' m' b' h' hi' hr' hb' hp hin
    obtain ⟨fu, hfu, hkk, hmm, _, _⟩ := hold u fu' h'
    have hku' : keyOf u fu' = .mem m' := by simp [keyOf, hr']
    have hmem' : isMem fu' = true := (keyOf_mem_of_eq hku').2
    by_cases e : m' = m
    · subst e
      rw [hsi] at hin
      rw [insync_mem_false_of_tainted hmem' ht'] at hin; cases hin
    · have hk : Key.mem m' ≠ Key.mem m := by intro h; injection h with h; exact e h
      have hku : keyOf u fu ≠ .mem m := by rw [← hkk, hku']; exact hk
      have e2 : u ≠ v := by intro e2; subst e2; rw [hv] at hfu; injection hfu with hfu; subst hfu; exact hku hkey
      rw [commit_filters_ne _ _ _ _ _ _ _ _ _ e2, hfu] at h'; injection h' with h'; subst h'
      obtain ⟨iu, hiu⟩ := hg.tracked u fu hfu
      rw [hvi_ne u fu hfu hku, hiu] at hi'; injection hi' with hi'; subst hi'
      rw [commit_blocks_mem P w v f m hr] at hb'
      simp only [e, if_false] at hb'
      rw [hsi_ne _ hk] at hin
      exact hg.memfull u fu iu m' b' hfu hiu hr' hb' hp hin

end DS.Bloom

/- C08, pass B: summed over all coin outcomes, the weight below any point is preserved by every KLL operation. -/
import DSProofs.Lemmas.KllShape
import DSProofs.Lemmas.KllHist
namespace DS.CT
variable {σ τ : Type}

/-- sum over the leaves of a bind when the continuation is "fair" at every leaf and its leaf count is constant -/
theorem sum_bind_fair {t : CT σ} {g : σ → CT τ} {val₁ : σ → Nat} {val₂ : τ → Nat} {c V L₂ : Nat}
    (h1 : t.sum val₁ = leaves t * V)
    (hL : All (fun r => leaves (g r) = L₂) t)
    (h2 : All (fun r => (g r).sum val₂ = leaves (g r) * (val₁ r + c)) t) :
    (t.bind g).sum val₂ = leaves (t.bind g) * (V + c) := by
  have e1 : (t.bind g).sum val₂ = t.sum (fun r => L₂ * (val₁ r + c)) := by
    rw [sum_bind]
    exact sum_congr (All.and hL h2) (fun r hr => by rw [hr.2, hr.1])
  have e2 : leaves (t.bind g) = leaves t * L₂ := by
    rw [leaves_bind, sum_congr hL (fun r hr => hr), sum_const]
  rw [e1, e2, sum_mul_left]
  have : t.sum (fun r => val₁ r + c) = t.sum val₁ + leaves t * c := by
    rw [sum_add, sum_const]
  rw [this, h1, Nat.mul_add, Nat.mul_add]
  rw [Nat.mul_left_comm L₂ (leaves t) V, Nat.mul_left_comm L₂ (leaves t) c, Nat.mul_assoc, Nat.mul_assoc]

/-- leaf counts of the continuation are constant when the leaves of `t` are pairwise related and `g` respects the relation -/
theorem leaves_const_of_rel {R : σ → σ → Prop} {t : CT σ} {g : σ → CT τ} {Q : τ → τ → Prop}
    (ht : Rel R t t) (hg : ∀ a b, R a b → Rel Q (g a) (g b)) :
    All (fun r => leaves (g r) = leaves (g (leftLeaf t))) t := by
  have h := Rel.all ht
  refine All.imp ?_ h
  intro a ha
  exact Rel.leaves (hg a _ (All.atLeftLeaf ha))

end DS.CT

namespace DS.Kll
open DS DS.SortedView DS.Mech

variable {α : Type}

/-- weight of the retained items satisfying `p` -/
def W (p : α → Bool) (s : Sketch α) : Nat := wb p 0 s.levels

/-- one compaction is balanced: the two coin outcomes together carry twice the weight -/
theorem wb_compactAt (lt : α → α → Bool) (p : α → Bool) (srt : Bool) (lvl : Nat) (L : List (List α)) (h : lvl + 1 < L.length) :
    wb p 0 (compactAt lt srt false lvl L) + wb p 0 (compactAt lt srt true lvl L) = 2 * wb p 0 L := by
  unfold compactAt
  have h1 := wb_set p 0 L lvl (leftoverOf (L.getD lvl [])) (by omega)
  have h2f := wb_set p 0 (L.set lvl (leftoverOf (L.getD lvl []))) (lvl + 1)
    (newAbove lt srt false (L.getD lvl []) (L.getD (lvl + 1) [])) (by simp only [List.length_set]; exact h)
  have h2t := wb_set p 0 (L.set lvl (leftoverOf (L.getD lvl []))) (lvl + 1)
    (newAbove lt srt true (L.getD lvl []) (L.getD (lvl + 1) [])) (by simp only [List.length_set]; exact h)
  rw [getD_set_ne _ _ _ _ _ (by omega)] at h2f h2t
  have hna := newAbove_filter lt p srt (L.getD lvl []) (L.getD (lvl + 1) [])
  have hlo := cnt_leftover_add_adj lt p srt (L.getD lvl [])
  simp only [Nat.zero_add] at h1 h2f h2t
  rw [Nat.pow_succ] at h2f h2t
  unfold cnt at h1 h2f h2t hlo
  generalize ((leftoverOf (L.getD lvl [])).filter p).length = clo at *
  generalize ((adjOf lt srt (L.getD lvl [])).filter p).length = cadj at *
  generalize ((L.getD lvl []).filter p).length = ccur at *
  generalize ((L.getD (lvl + 1) []).filter p).length = cab at *
  generalize ((newAbove lt srt false (L.getD lvl []) (L.getD (lvl + 1) [])).filter p).length = cf at *
  generalize ((newAbove lt srt true (L.getD lvl []) (L.getD (lvl + 1) [])).filter p).length = ct at *
  generalize 2 ^ lvl = w at *
  have e1 : w * clo + w * cadj = w * ccur := by rw [← Nat.mul_add, hlo]
  have e2 : w * cf + w * ct = w * cadj + 2 * (w * cab) := by
    rw [← Nat.mul_add, hna, Nat.mul_add]; congr 1; rw [Nat.mul_left_comm]
  have e3 : ∀ y, w * 2 * y = 2 * (w * y) := by intro y; rw [Nat.mul_comm w 2, Nat.mul_assoc]
  rw [e3, e3] at h2f h2t
  omega

theorem W_compress (P : Params) (c : Cmp α) (p : α → Bool) (s : Sketch α) :
    W p (compress P c s false) + W p (compress P c s true) = 2 * W p s := by
  unfold W
  rw [compress_eq, compress_eq]
  split
  · omega
  · split
    · rename_i h1 h2
      have := wb_compactAt c.lt p (findLevel P s.k s.levels.length s.levels 0 == 0 && !s.sorted0)
        (findLevel P s.k s.levels.length s.levels 0) (s.levels ++ [[]])
        (by simp only [List.length_append, List.length_singleton]; omega)
      rw [wb_append_nil] at this; exact this
    · rename_i h1 h2
      exact wb_compactAt c.lt p _ _ s.levels (by omega)

theorem W_push (p : α → Bool) (s : Sketch α) (x : α) : W p (push s x) = W p s + (if p x then 1 else 0) := by
  unfold W push
  cases hs : s.levels with
  | nil => simp [wb, cnt, List.filter_cons]; split <;> simp
  | cons l t =>
    have := wb_push p 0 x (l :: t) (by simp)
    simp only [List.headD_cons, List.tail_cons, Nat.pow_zero, Nat.one_mul] at this ⊢
    exact this

theorem internalUpdateT_fair (P : Params) (c : Cmp α) (p : α → Bool) (s : Sketch α) (x : α) :
    (internalUpdateT P c s x).sum (W p) = CT.leaves (internalUpdateT P c s x) * (W p s + (if p x then 1 else 0)) := by
  unfold internalUpdateT
  split
  · simp only [CT.sum_flip, CT.sum_ret, CT.leaves_flip, CT.leaves_ret, W_push]
    have := W_compress P c p s
    omega
  · simp only [CT.sum_ret, CT.leaves_ret, W_push]; omega

theorem replayT_fair (P : Params) (c : Cmp α) (p : α → Bool) : ∀ (xs : List α) (s : Sketch α),
    (replayT P c s xs).sum (W p) = CT.leaves (replayT P c s xs) * (W p s + cnt p xs)
  | [], s => by simp [replayT, cnt]
  | x :: t, s => by
    simp only [replayT]
    have hb := CT.sum_bind_fair (g := fun s' => replayT P c s' t) (val₁ := W p) (val₂ := W p) (c := cnt p t)
      (internalUpdateT_fair P c p s x)
      (CT.leaves_const_of_rel (internalUpdateT_SS P c (SS.refl s) x x) (fun a b hab => replayT_SS P c t t rfl hab))
      (CT.All.imp (fun r _ => replayT_fair P c p t r) (CT.All_true _))
    rw [hb, cnt_cons]; congr 1; omega

theorem wb_zipLevels (lt : α → α → Bool) (p : α → Bool) : ∀ (h : Nat) (a b : List (List α)),
    wb p h (zipLevels lt a b) = wb p h a + wb p h b
  | h, [], b => by simp [zipLevels, wb]
  | h, x :: a, [] => by simp [zipLevels, wb]
  | h, x :: a, y :: b => by
    simp only [zipLevels, wb, cnt_mergeUp, wb_zipLevels lt p (h + 1) a b, Nat.mul_add]; omega

theorem gcLoop_fair (P : Params) (lt : α → α → Bool) (p : α → Bool) (k : Nat) (sorted0 : Bool) :
    ∀ (fuel : Nat) (below : List (List α)) (cur : List α) (rest : List (List α)) (cnt' tgt : Nat),
    (gcLoop P lt k sorted0 fuel below cur rest cnt' tgt).sum (fun r => wb p 0 r.1) =
      CT.leaves (gcLoop P lt k sorted0 fuel below cur rest cnt' tgt) * wb p 0 (below.reverse ++ cur :: rest)
  | 0, below, cur, rest, _, _ => by simp [gcLoop]
  | fuel + 1, below, cur, rest, cnt', tgt => by
    simp only [gcLoop]
    split
    · cases rest with
      | nil => simp
      | cons r rs =>
        have := gcLoop_fair P lt p k sorted0 fuel (cur :: below) r rs cnt' tgt
        simpa only [List.reverse_cons, List.append_assoc, List.singleton_append] using this
    · cases rest with
      | nil =>
        simp only [CT.sum_flip, CT.leaves_flip]
        have hf := gcLoop_fair P lt p k sorted0 fuel (leftoverOf cur :: below)
          (newAbove lt (below.length == 0 && !sorted0) false cur []) [] (cnt' - cur.length / 2) (tgt + levelCapacity P k (below.length + 2) 0)
        have ht := gcLoop_fair P lt p k sorted0 fuel (leftoverOf cur :: below)
          (newAbove lt (below.length == 0 && !sorted0) true cur []) [] (cnt' - cur.length / 2) (tgt + levelCapacity P k (below.length + 2) 0)
        have hl := CT.Rel.leaves (gcLoop_GS P lt k sorted0 sorted0 fuel (leftoverOf cur :: below) (leftoverOf cur :: below)
          (newAbove lt (below.length == 0 && !sorted0) false cur []) (newAbove lt (below.length == 0 && !sorted0) true cur [])
          [] [] (cnt' - cur.length / 2) (tgt + levelCapacity P k (below.length + 2) 0) rfl (by simp [newAbove_length]) rfl)
        have hL' : ∀ coin, (leftoverOf cur :: below).reverse ++ [newAbove lt (below.length == 0 && !sorted0) coin cur []]
            = compactAt lt (below.length == 0 && !sorted0) coin below.reverse.length ((below.reverse ++ [cur]) ++ [[]]) := by
          intro coin
          rw [List.append_assoc]
          simp only [List.singleton_append]
          rw [compactAt_append]
          simp only [List.reverse_cons, List.append_assoc, List.singleton_append]
        have hbal := wb_compactAt lt p (below.length == 0 && !sorted0) below.reverse.length ((below.reverse ++ [cur]) ++ [[]])
          (by simp only [List.length_append, List.length_reverse, List.length_singleton]; omega)
        rw [wb_append_nil, ← hL' false, ← hL' true] at hbal
        rw [hf, ht, hl.symm, ← Nat.mul_add, hbal, Nat.add_mul, Nat.mul_left_comm, Nat.two_mul]
      | cons r rs =>
        simp only [CT.sum_flip, CT.leaves_flip]
        have hf := gcLoop_fair P lt p k sorted0 fuel (leftoverOf cur :: below)
          (newAbove lt (below.length == 0 && !sorted0) false cur r) rs (cnt' - cur.length / 2) tgt
        have ht := gcLoop_fair P lt p k sorted0 fuel (leftoverOf cur :: below)
          (newAbove lt (below.length == 0 && !sorted0) true cur r) rs (cnt' - cur.length / 2) tgt
        have hl := CT.Rel.leaves (gcLoop_GS P lt k sorted0 sorted0 fuel (leftoverOf cur :: below) (leftoverOf cur :: below)
          (newAbove lt (below.length == 0 && !sorted0) false cur r) (newAbove lt (below.length == 0 && !sorted0) true cur r)
          rs rs (cnt' - cur.length / 2) tgt rfl (by simp [newAbove_length]) rfl)
        have hL' : ∀ coin, (leftoverOf cur :: below).reverse ++ newAbove lt (below.length == 0 && !sorted0) coin cur r :: rs
            = compactAt lt (below.length == 0 && !sorted0) coin below.reverse.length (below.reverse ++ cur :: r :: rs) := by
          intro coin
          rw [compactAt_append]
          simp only [List.reverse_cons, List.append_assoc, List.singleton_append]
        have hbal := wb_compactAt lt p (below.length == 0 && !sorted0) below.reverse.length (below.reverse ++ cur :: r :: rs)
          (by simp only [List.length_append, List.length_reverse, List.length_cons]; omega)
        rw [← hL' false, ← hL' true] at hbal
        rw [hf, ht, hl.symm, ← Nat.mul_add, hbal, Nat.add_mul, Nat.mul_left_comm, Nat.two_mul]

theorem mergeHigherT_fair (P : Params) (c : Cmp α) (p : α → Bool) (s o : Sketch α) (hne : s.levels ≠ []) :
    (mergeHigherT P c s o).sum (W p) = CT.leaves (mergeHigherT P c s o) * (W p s + wb p 1 o.levels.tail) := by
  unfold mergeHigherT
  rw [CT.sum_bind, CT.leaves_bind]
  simp only [CT.sum_ret, CT.leaves_ret, W]
  have := gcLoop_fair P c.lt p s.k s.sorted0 (gcFuel (s.levels.headD [] :: zipLevels c.lt s.levels.tail o.levels.tail)) []
    ((s.levels.headD [] :: zipLevels c.lt s.levels.tail o.levels.tail).headD [])
    (s.levels.headD [] :: zipLevels c.lt s.levels.tail o.levels.tail).tail
    (sizeSum (s.levels.headD [] :: zipLevels c.lt s.levels.tail o.levels.tail))
    (computeTotalCapacity P s.k (s.levels.headD [] :: zipLevels c.lt s.levels.tail o.levels.tail).length)
  rw [this, CT.sum_const, Nat.mul_one]
  congr 1
  cases hs : s.levels with
  | nil => exact absurd hs hne
  | cons l0 t =>
    simp only [List.headD_cons, List.tail_cons, List.reverse_nil, List.nil_append, wb, wb_zipLevels, Nat.zero_add]
    omega

theorem W_eq_zero_of_n_zero {P : Params} {lt : α → α → Bool} {s : Sketch α} (h : InvS P lt s) (h0 : s.n = 0) (p : α → Bool) :
    W p s = 0 := by
  have := wb_le_weightSum p 0 s.levels
  rw [h.weight, h0] at this
  unfold W; omega

theorem W_split {P : Params} {lt : α → α → Bool} {s : Sketch α} (h : InvS P lt s) (p : α → Bool) :
    W p s = cnt p (s.levels.headD []) + wb p 1 s.levels.tail := by
  unfold W
  cases hs : s.levels with
  | nil => exact absurd hs h.ne
  | cons l0 t => simp [wb]

/-- merge: summed over all coin outcomes the weight below is the sum of the operands' weights below -/
theorem mergeT_fair {P : Params} (ok : ParamsOk P) {c : Cmp α} (sw : StrictWeak c.lt) (p : α → Bool) {s o : Sketch α}
    (hs : InvS P c.lt s) (ho : InvS P c.lt o) :
    (mergeT P c s o).sum (W p) = CT.leaves (mergeT P c s o) * (W p s + W p o) := by
  unfold mergeT
  split
  · rename_i h0
    have : o.n = 0 := by simpa using h0
    simp only [CT.sum_ret, CT.leaves_ret, W_eq_zero_of_n_zero ho this p]; omega
  · have hf := mergeMinMax_fields c s o
    have hmm := mergeMinMax_inv hs o
    have hWmm : W p (mergeMinMax c s o) = W p s := by unfold W; rw [hf.2.2.1]
    -- the last step only rewrites n and minK
    have hlast : ∀ (t : CT (Sketch α)), (CT.bind t fun s3 => CT.ret
          { s3 with n := s.n + o.n, minK := if o.isEstimationMode then min s3.minK o.minK else s3.minK }).sum (W p) = t.sum (W p) ∧
        CT.leaves (CT.bind t fun s3 => CT.ret
          { s3 with n := s.n + o.n, minK := if o.isEstimationMode then min s3.minK o.minK else s3.minK }) = CT.leaves t := by
      intro t
      rw [CT.sum_bind, CT.leaves_bind]
      refine ⟨rfl, ?_⟩
      simp only [CT.leaves_ret, CT.sum_const, Nat.mul_one]
    rw [← CT.bind_assoc]
    rw [(hlast _).1, (hlast _).2]
    have hrep := replayT_fair P c p (o.levels.headD []) (mergeMinMax c s o)
    rw [hWmm] at hrep
    by_cases ho2 : o.numLevels ≥ 2
    · simp only [ho2, if_true]
      have hb := CT.sum_bind_fair (g := fun s2 => mergeHigherT P c s2 o) (val₁ := W p) (val₂ := W p)
        (c := wb p 1 o.levels.tail) hrep
        (CT.leaves_const_of_rel (replayT_SS P c _ _ rfl (SS.refl _)) (fun a b hab => mergeHigherT_SS P c hab (SS.refl o)))
        (CT.All.imp (fun r hr => mergeHigherT_fair P c p r o hr.1.ne) (replayT_inv ok sw (o.levels.headD []) hmm))
      rw [hb, W_split ho p]; congr 1; omega
    · simp only [ho2, if_false, CT.bind_ret_right]
      have h1 : o.levels.length = 1 := by
        have := List.length_pos_iff.mpr ho.ne
        simp only [Sketch.numLevels] at ho2; omega
      have ht : o.levels.tail = [] := List.eq_nil_of_length_eq_zero (by rw [List.length_tail]; omega)
      rw [hrep, W_split ho p, ht]; simp [wb]

theorem updateT_fair (P : Params) (c : Cmp α) (p : α → Bool) (s : Sketch α) (x : α) :
    (updateT P c s x).sum (W p) =
      CT.leaves (updateT P c s x) * (W p s + (if c.isNaN x then 0 else if p x then 1 else 0)) := by
  unfold updateT
  split
  · simp
  · rename_i hx
    have : W p (updateMinMax c s x) = W p s := by unfold W updateMinMax; split <;> rfl
    rw [internalUpdateT_fair, this]

end DS.Kll

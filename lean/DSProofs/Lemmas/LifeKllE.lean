/- C19, KLL sketch part 5: serialize, query (sorted view), serialize/deserialize round trip. -/
import DSProofs.Lemmas.LifeKllD
namespace DS.Life.Kll
open DS.Life

theorem step_deref_eq {β} {S} {h : Heap} {p : Option Nat} {b : Nat} {f : Nat → M β} {Q : β → Heap → Prop}
    (hp : p = some b) (s : SafeF S h (f b h) Q) : SafeF S h ((deref p >>= f) h) Q := by
  subst hp; exact step_deref b s

/-- `Usable` only looks at these fields (not at `lvl0Sorted`, `minK`) -/
theorem Usable.of_fields {P : Params} {h : Heap} {s s' : Sketch} (u : Usable P h s)
    (e1 : s'.self = s.self) (e2 : s'.k = s.k) (e3 : s'.m = s.m) (e4 : s'.numLevels = s.numLevels) (e5 : s'.n = s.n)
    (e6 : s'.levels = s.levels) (e7 : s'.items = s.items) (e8 : s'.itemsSize = s.itemsSize) (e9 : s'.view = s.view) :
    Usable P h s' := by
  obtain ⟨self, k, m, minK, nl, srt, n, ls, items, sz, view⟩ := s
  obtain ⟨self', k', m', minK', nl', srt', n', ls', items', sz', view'⟩ := s'
  simp only at e1 e2 e3 e4 e5 e6 e7 e8 e9
  subst e1 e2 e3 e4 e5 e6 e7 e8 e9
  exact ⟨⟨u.toInv.m_eq, u.toInv.self_cells, u.toInv.self_lt, u.toInv.view_ok, u.toInv.items_ok⟩, u.items, u.mm0, u.mm1, u.ret,
    u.wt, u.pw⟩

/-- ownership bookkeeping from what was freed (`D`) and what was allocated and kept (`A`) -/
theorem Owns.of_delta {h' : Heap} {ids0 own0 own' : List Nat} {n0 : Nat} (D A : Nat → Prop)
    (hids : ∀ x, x ∈ h'.ids ↔ (x ∈ ids0 ∧ ¬ D x) ∨ A x)
    (hsub : ∀ x, x ∈ own0 → x ∈ ids0) (hD : ∀ x, D x → x ∈ own0) (hA : ∀ x, A x → n0 ≤ x)
    (hown : ∀ x, x ∈ own' ↔ (x ∈ own0 ∧ ¬ D x) ∨ A x) : Owns h' ids0 own0 own' n0 := by
  refine ⟨fun x => ?_, fun x hx => ?_⟩
  · rw [hids x, hown x]
    constructor
    · rintro (⟨a, b⟩ | a)
      · by_cases hx : x ∈ own0
        · exact Or.inr (Or.inl ⟨hx, b⟩)
        · exact Or.inl ⟨a, hx⟩
      · exact Or.inr (Or.inr a)
    · rintro (⟨a, b⟩ | ⟨a, b⟩ | a)
      · exact Or.inl ⟨a, fun d => b (hD x d)⟩
      · exact Or.inl ⟨hsub x a, b⟩
      · exact Or.inr a
  · rcases (hown x).1 hx with ⟨a, _⟩ | a
    · exact Or.inl a
    · exact Or.inr (hA x a)

theorem Owns.of_same {h' : Heap} {ids0 own0 own' : List Nat} {n0 : Nat} (hid : h'.ids = ids0)
    (hsub : ∀ x, x ∈ own0 → x ∈ ids0) (hown : ∀ x, x ∈ own' ↔ x ∈ own0) : Owns h' ids0 own0 own' n0 :=
  Owns.of_delta (fun _ => False) (fun _ => False) (fun x => by simp [hid]) hsub (fun _ d => d.elim) (fun _ a => a.elim)
    (fun x => by simp [hown x])

theorem serialize_contract (P : Params) (n0 : Nat) (s : Sketch) (ids0 : List Nat) :
    TripleS n0 (foot [] n0) (fun h => Usable P h s ∧ h.ids = ids0) (serialize s) (fun _ h' => h'.ids = ids0) := by
  intro h hn ⟨u, hid⟩
  have inv := u.toInv
  obtain ⟨b, hb, hl⟩ := u.items
  obtain ⟨lok, iat, _⟩ := inv.items_ok b hb
  have hl0 : s.levels.getD 0 0 ≤ s.itemsSize := lok.le_top 0 (Nat.zero_le _)
  unfold serialize
  by_cases hn0 : s.n = 0
  · rw [if_pos hn0]; exact SafeF.pure hid
  · rw [if_neg hn0]
    apply step_deref_eq hb
    dsimp only
    have rest : SafeF (foot [] n0) h ((do
        let l0 ← lv s.levels 0
        let lN ← lv s.levels s.numLevels
        loopUp (fun i => do let _ ← read b i; Pure.pure ()) (lN - l0) l0) h) (fun _ h' => h'.ids = ids0) := by
      apply step_lv (by have := lok.len; omega)
      apply step_lv (by have := lok.len; omega)
      rw [lok.top]
      apply SafeF.last
      apply vstep_readRange iat.cells (by omega) (fun j h1 h2 => hl j h1 (by omega))
      exact SafeF.pure hid
    by_cases h1 : s.n ≠ 1
    · rw [if_pos h1]
      obtain ⟨⟨v0, hv0⟩, ⟨v1, hv1⟩⟩ := u.mm1 hn0
      apply vstep_read inv.self_cells (by omega : 0 < 2) hv0
      apply vstep_read inv.self_cells (by omega : 1 < 2) hv1
      exact rest
    · rw [if_neg h1]; exact rest

/-- the items block of a usable sketch: raw below `l0`, live from `l0` on -/
structure ItemsLive (h : Heap) (b l0 size : Nat) : Prop where
  cells : HasCells h b size
  raw : ∀ i, i < l0 → stAt h b i = .raw
  live : ∀ i, l0 ≤ i → i < size → ∃ v, stAt h b i = .live v

theorem ItemsLive.itemsAt {h : Heap} {b l0 size : Nat} (il : ItemsLive h b l0 size) : ItemsAt h b l0 size :=
  ⟨il.cells, il.raw, fun i h1 h2 => by obtain ⟨v, hv⟩ := il.live i h1 h2; rw [hv]; simp⟩

theorem ItemsLive.transfer {h h' : Heap} {b l0 size : Nat} (so : SameOn h h' b) (il : ItemsLive h b l0 size) :
    ItemsLive h' b l0 size :=
  ⟨so.cells _ il.cells, fun j hj => by rw [so.st]; exact il.raw j hj, fun j h1 h2 => by rw [so.st]; exact il.live j h1 h2⟩

theorem Usable.itemsLive {P : Params} {h : Heap} {s : Sketch} (u : Usable P h s) {b : Nat} (hb : s.items = some b) :
    ItemsLive h b (s.levels.getD 0 0) s.itemsSize := by
  obtain ⟨b', hb', hl⟩ := u.items
  rw [hb] at hb'; cases hb'
  obtain ⟨_, iat, _⟩ := u.toInv.items_ok b hb
  exact ⟨iat.cells, iat.raw, hl⟩

/-- assembling `Usable` from its parts -/
theorem Usable.build {P : Params} {h : Heap} {s : Sketch} (m_eq : s.m = P.defaultM)
    (self_cells : HasCells h s.self 2) (self_lt : s.self < h.next)
    (view_ok : ∀ v, s.view = some v → HasCells h v 1 ∧ stAt h v 0 = .raw ∧ v < h.next ∧ v ≠ s.self)
    {b : Nat} (hb : s.items = some b) (lok : LevelsOK s.k s.m s.numLevels s.levels s.itemsSize)
    (il : ItemsLive h b (s.levels.getD 0 0) s.itemsSize) (hblt : b < h.next) (hbself : b ≠ s.self)
    (hbview : s.view ≠ some b)
    (mm0 : s.n = 0 → stAt h s.self 0 = .raw ∧ stAt h s.self 1 = .raw)
    (mm1 : s.n ≠ 0 → (∃ v, stAt h s.self 0 = .live v) ∧ (∃ v, stAt h s.self 1 = .live v))
    (ret : s.n ≠ 0 → s.levels.getD 0 0 < s.itemsSize) (wt : sumSampleWeights s.numLevels s.levels = s.n)
    (pw : s.numLevels = 1 ∨ 2 ^ (s.numLevels - 1) ≤ s.n) : Usable P h s := by
  refine ⟨⟨m_eq, self_cells, self_lt, view_ok, ?_⟩, ⟨b, hb, il.live⟩, mm0, mm1, ret, wt, pw⟩
  intro b' hb'
  rw [hb] at hb'; cases hb'
  exact ⟨lok, il.itemsAt, hblt, hbself, hbview⟩

theorem query_contract (P : Params) (n0 : Nat) (s : Sketch) (ids0 : List Nat) :
    TripleS n0 (foot (owned s) n0) (fun h => Usable P h s ∧ h.ids = ids0 ∧ h.next = n0) (query s)
      (fun s' h' => Usable P h' s' ∧ Owns h' ids0 (owned s) (owned s') n0) := by
  intro h hn ⟨u, hid, hnx⟩
  have inv := u.toInv
  obtain ⟨b, hb, hl⟩ := u.items
  obtain ⟨lok, iat, hblt, hbself, hbview⟩ := inv.items_ok b hb
  have il := u.itemsLive hb
  have hl0 : s.levels.getD 0 0 ≤ s.itemsSize := lok.le_top 0 (Nat.zero_le _)
  have hsub : ∀ x, x ∈ owned s → x ∈ ids0 := fun x hx => hid ▸ (inv.owned_ids x hx).1
  have same : SafeF (foot (owned s) n0) h ((Pure.pure s : M Sketch) h)
      (fun s' h' => Usable P h' s' ∧ Owns h' ids0 (owned s) (owned s') n0) :=
    SafeF.pure ⟨u, Owns.of_same hid hsub (fun _ => Iff.rfl)⟩
  unfold query
  by_cases hn0 : s.n = 0
  · rw [if_pos hn0]; exact same
  · rw [if_neg hn0]
    cases hv : s.view with
    | some v => exact same
    | none =>
      simp only
      apply step_deref_eq hb
      apply step_lv (by have := lok.len; omega)
      apply step_lv (by have := lok.len; have := lok.nl; omega)
      have hSb : foot (owned s) n0 b = true := foot_own (mem_owned.2 (Or.inr (Or.inl hb)))
      have rest : ∀ h1, SameBut h h1 (fun b' _ => b' = b) → ItemsLive h1 b (s.levels.getD 0 0) s.itemsSize →
          SafeF (foot (owned s) n0) h1 ((do
            let lN ← lv s.levels s.numLevels
            loopUp (fun i => do let _ ← read b i; Pure.pure ()) (lN - s.levels.getD 0 0) (s.levels.getD 0 0)
            let v ← alloc Kind.view 1
            Pure.pure { s with lvl0Sorted := true, view := some v }) h1)
            (fun s' h' => Usable P h' s' ∧ Owns h' ids0 (owned s) (owned s') n0) := by
        intro h1 sb1 il1
        apply step_lv (by have := lok.len; omega)
        rw [lok.top]
        apply vstep_readRange il1.cells (by omega) (fun j h1' h2' => il1.live j h1' (by omega))
        have hnx1 : h1.next = n0 := by rw [sb1.next, hnx]
        apply vstep_alloc' _ _ (foot_new (by omega))
        intro h2 hc2 hr2 so2 hid2 hnx2
        apply SafeF.pure
        have ss : SameOn h h2 s.self :=
          (sb1.sameOn (fun j y => hbself y.symm)).trans (so2 _ (by have := inv.self_lt; rw [sb1.next]; omega))
        refine ⟨?_, Owns.of_delta (fun _ => False) (fun x => x = n0) (fun x => ?_) hsub (fun _ d => d.elim)
          (fun x e => by omega) (fun x => ?_)⟩
        · apply Usable.build (s := { s with lvl0Sorted := true, view := some h1.next }) (b := b) inv.m_eq
            (ss.cells _ inv.self_cells) (by have := inv.self_lt; simp only; omega)
          · intro v hv'
            simp only [Option.some.injEq] at hv'
            subst hv'
            exact ⟨hc2, hr2 0 (by omega), by omega, by have := inv.self_lt; rw [sb1.next]; simp only; omega⟩
          · exact hb
          · exact lok
          · exact il1.transfer (so2 b (by rw [sb1.next]; omega))
          · have := sb1.next; omega
          · exact hbself
          · simp only [ne_eq, Option.some.injEq]; rw [sb1.next]; omega
          · intro e; simp only; rw [ss.st, ss.st]; exact u.mm0 e
          · intro e; simp only; rw [ss.st, ss.st]; exact u.mm1 e
          · exact u.ret
          · exact u.wt
          · exact u.pw
        · rw [hid2, sb1.ids, hid, hnx1]; simp [or_comm]
        · rw [hnx1]
          simp only [mem_owned, hv, reduceCtorEq, or_false, Option.some.injEq, not_false_eq_true, and_true]
          constructor
          · rintro (e | e | e)
            · exact Or.inl (Or.inl e)
            · exact Or.inl (Or.inr e)
            · exact Or.inr e.symm
          · rintro ((e | e) | e)
            · exact Or.inl e
            · exact Or.inr (Or.inl e)
            · exact Or.inr (Or.inr e.symm)
      by_cases hs : (!s.lvl0Sorted) = true
      · rw [if_pos hs]
        have h01 : s.levels.getD 0 0 ≤ s.levels.getD 1 0 := lok.mono 0 (by have := lok.nl; omega)
        have h1t : s.levels.getD 1 0 ≤ s.itemsSize := lok.le_top 1 lok.nl
        apply vstep_sortRange iat.cells (by omega : s.levels.getD 0 0 + (s.levels.getD 1 0 - s.levels.getD 0 0) ≤ s.itemsSize)
          (fun j h1' h2' => hl j h1' (by omega)) hSb
        intro h1 sb1 hl1
        apply rest h1 (sb1.mono (fun _ _ x => x.1))
        refine ⟨sb1.cells _ _ iat.cells, fun i hi => ?_, fun i h1' h2' => ?_⟩
        · rw [sb1.st _ _ (fun x => by omega)]; exact iat.raw i hi
        · by_cases hi : i < s.levels.getD 0 0 + (s.levels.getD 1 0 - s.levels.getD 0 0)
          · exact hl1 i h1' hi
          · rw [sb1.st _ _ (fun x => hi x.2.2)]; exact hl i h1' h2'
      · rw [if_neg hs]
        exact rest h (SameBut.refl _ _) il

end DS.Life.Kll

/- Sketch-level lemmas for C18 (Rat instance): `absorb` (the common body of internal_update and of one step of
internal_merge) keeps `c = rho·cumWt` with `rho = min(1/M, k/cumWt)`; updates keep the well-formedness `WF`. -/
import DSProofs.Lemmas.EbppsSample
import DSModel.Ebpps.Run
namespace DS.Ebpps

variable {P : Nat → Prop}

theorem rat_newRho (k : Nat) (M W : Rat) : newRho k M W = min (1 / M) ((k : Rat) / W) := by
  unfold newRho; rw [rat_cmin]; simp

theorem replaceContent_spec {item : Nat} {theta : Rat} (hP : P item) (h0 : 0 < theta) (h1 : theta ≤ 1) :
    SInv P (replaceContent item theta) ∧ (replaceContent item theta).c = theta := by
  unfold replaceContent
  simp only [rat_eq, rat_one, decide_eq_true_eq]
  by_cases h : theta = 1
  · rw [if_pos h]
    have hf : (theta).floor = 1 := floor_eq_iff'.2 ⟨by rw [h]; norm_num, by rw [h]; norm_num⟩
    refine ⟨⟨le_of_lt h0, by simp [hf], ?_, by simpa using hP, by simp⟩, rfl⟩
    simp only [Option.isSome_none, Bool.false_eq_true, false_iff, not_lt, hf]
    rw [h]; norm_num
  · rw [if_neg h]
    have hlt : theta < 1 := lt_of_le_of_ne h1 h
    have hf : (theta).floor = 0 := floor_eq_iff'.2 ⟨by simpa using le_of_lt h0, by simpa using hlt⟩
    refine ⟨⟨le_of_lt h0, by simp [hf], ?_, by simp, by simpa using hP⟩, rfl⟩
    simp only [Option.isSome_some, true_iff, hf]
    simpa using h0

/-- for `theta ≤ 1` the proposed clamp changes nothing -/
theorem replaceContentV_eq_rat (clamp : Bool) (item : Nat) {theta : Rat} (h1 : theta ≤ 1) :
    replaceContentV clamp item theta = replaceContent item theta := by
  unfold replaceContentV replaceContent
  cases clamp
  · rfl
  · simp only [if_true, rat_le, rat_one, rat_eq, rat_cmin, decide_eq_true_eq, min_eq_left h1]
    by_cases h : theta = 1
    · simp [h]
    · have : ¬ (1 ≤ theta) := fun hle => h (le_antisymm h1 hle)
      simp [h, this]

/-- The part of the sketch state that the sample bookkeeping depends on, with the maximum weight `M` and the bound `K`
that `rho` was computed from as parameters (the `wt_max_`/`k_` fields may differ from them in the middle of a merge). -/
structure Core (P : Nat → Prop) (s : Sketch Rat) (M : Rat) (K : Nat) : Prop where
  sinv : SInv P s.sample
  wpos : 0 < s.cumWt
  mpos : 0 < M
  kpos : 1 ≤ K
  rho : s.rho = min (1 / M) ((K : Rat) / s.cumWt)
  c : s.sample.c = s.rho * s.cumWt

theorem Core.mono {Q : Nat → Prop} {s : Sketch Rat} {M : Rat} {K : Nat} (hPQ : ∀ x, P x → Q x) (h : Core P s M K) :
    Core Q s M K := ⟨h.sinv.mono hPQ, h.wpos, h.mpos, h.kpos, h.rho, h.c⟩

theorem Core.rho_pos {s : Sketch Rat} {M : Rat} {K : Nat} (h : Core P s M K) : 0 < s.rho := by
  rw [h.rho]
  have hk : (0 : Rat) < K := by exact_mod_cast h.kpos
  exact lt_min (div_pos one_pos h.mpos) (div_pos hk h.wpos)

/-- closed form: `c = min(K, cumWt / M)` -/
theorem Core.closed {s : Sketch Rat} {M : Rat} {K : Nat} (h : Core P s M K) :
    s.sample.c = min (K : Rat) (s.cumWt / M) := by
  rw [h.c, h.rho]
  have hw := h.wpos
  have hm := h.mpos
  rcases le_total (1 / M) ((K : Rat) / s.cumWt) with hle | hle
  · rw [min_eq_left hle]
    have : s.cumWt / M ≤ K := by
      have := mul_le_mul_of_nonneg_right hle (le_of_lt hw)
      rw [div_mul_cancel₀ _ (ne_of_gt hw)] at this
      rw [div_eq_mul_one_div, mul_comm]; exact this
    rw [min_eq_right this]; ring
  · rw [min_eq_right hle]
    have : (K : Rat) ≤ s.cumWt / M := by
      have := mul_le_mul_of_nonneg_right hle (le_of_lt hw)
      rw [div_mul_cancel₀ _ (ne_of_gt hw)] at this
      rw [div_eq_mul_one_div, mul_comm]; exact this
    rw [min_eq_left this, div_mul_cancel₀ _ (ne_of_gt hw)]

/-- One `absorb` step on a non-empty sketch. `M ≤ newWtMax`, `s.k ≤ K` say that the new `rho` cannot exceed the old one;
`hth1` is the "no item contributes more than 1 to c" condition that the caller has to establish. -/
theorem absorb_core {v : Variant} {s : Sketch Rat} {M : Rat} {K : Nat} {item : Nat} {incr newWtMax : Rat}
    {thetaOf : Rat → Rat} {d : Draws Rat}
    (h : Core P s M K) (hk1 : 1 ≤ s.k) (hkK : s.k ≤ K) (hM : M ≤ newWtMax) (hi : 0 < incr) (hP : P item)
    (hth : ∀ r, thetaOf r = r * incr)
    (hth1 : min (1 / newWtMax) ((s.k : Rat) / (s.cumWt + incr)) * incr ≤ 1)
    (hd : UnitOK v.geDraw d) :
    Core P (absorb v s item incr thetaOf newWtMax d).1 newWtMax s.k ∧
    (absorb v s item incr thetaOf newWtMax d).1.cumWt = s.cumWt + incr ∧
    (absorb v s item incr thetaOf newWtMax d).1.k = s.k ∧
    (absorb v s item incr thetaOf newWtMax d).1.n = s.n ∧
    (absorb v s item incr thetaOf newWtMax d).1.wtMax = s.wtMax ∧
    UnitOK v.geDraw (absorb v s item incr thetaOf newWtMax d).2 := by
  have hw := h.wpos
  have hm := h.mpos
  have hrp := h.rho_pos
  have hM' : 0 < newWtMax := lt_of_lt_of_le hm hM
  have hkq : (0 : Rat) < s.k := by exact_mod_cast hk1
  have hkK' : (s.k : Rat) ≤ K := by exact_mod_cast hkK
  set nr := min (1 / newWtMax) ((s.k : Rat) / (s.cumWt + incr)) with hnr
  have hnrp : 0 < nr := lt_min (div_pos one_pos hM') (div_pos hkq (by linarith))
  -- the new rho does not exceed the old one
  have hle : nr ≤ s.rho := by
    rw [h.rho]
    apply le_min
    · exact le_trans (min_le_left _ _) (one_div_le_one_div_of_le hm hM)
    · refine le_trans (min_le_right _ _) ?_
      calc (s.k : Rat) / (s.cumWt + incr) ≤ (s.k : Rat) / s.cumWt :=
            div_le_div_of_nonneg_left (le_of_lt hkq) hw (by linarith)
        _ ≤ (K : Rat) / s.cumWt := div_le_div_of_nonneg_right hkK' (le_of_lt hw)
  have hcpos : 0 < s.sample.c := by rw [h.c]; exact mul_pos hrp hw
  have hratio : 0 < nr / s.rho := div_pos hnrp hrp
  obtain ⟨d1, d2, d3⟩ := downsample_spec (ge := v.geDraw) (theta := nr / s.rho) h.sinv hcpos hratio hd
  have hratio1 : nr / s.rho ≤ 1 := (div_le_one hrp).2 hle
  rw [min_eq_left hratio1] at d2
  obtain ⟨r1, r2⟩ := replaceContent_spec (P := P) (item := item) (theta := thetaOf nr) hP
    (by rw [hth]; exact mul_pos hnrp hi) (by rw [hth]; exact hth1)
  obtain ⟨m1, m2, m3⟩ := mergeSample_spec (ge := v.geDraw) d1 r1 d3
  have hcond : (Num.lt (zero : Rat) s.cumWt) = true := by simp [hw]
  have hthle : thetaOf nr ≤ 1 := by rw [hth]; exact hth1
  have e : absorb v s item incr thetaOf newWtMax d =
      ({ s with cumWt := s.cumWt + incr, rho := nr,
                sample := (mergeSample v.geDraw (downsample v.geDraw s.sample (nr / s.rho) d).1
                              (replaceContent item (thetaOf nr)) (downsample v.geDraw s.sample (nr / s.rho) d).2).1 },
       (mergeSample v.geDraw (downsample v.geDraw s.sample (nr / s.rho) d).1
                              (replaceContent item (thetaOf nr)) (downsample v.geDraw s.sample (nr / s.rho) d).2).2) := by
    unfold absorb
    simp only [hcond, if_true, rat_newRho, ← hnr, mergeSampleV_eq_rat, replaceContentV_eq_rat _ _ hthle]
  rw [e]
  refine ⟨⟨m1, by simp only; linarith, hM', hk1, rfl, ?_⟩, rfl, rfl, rfl, rfl, m3⟩
  simp only
  rw [m2, d2, r2, hth, h.c]
  have e1 : nr / s.rho * (s.rho * s.cumWt) = nr * s.cumWt := by
    have hne : s.rho ≠ 0 := ne_of_gt hrp
    calc nr / s.rho * (s.rho * s.cumWt) = nr * s.cumWt * (s.rho / s.rho) := by ring
      _ = nr * s.cumWt := by rw [div_self hne, mul_one]
  rw [e1]; ring

/-- The first `absorb` of an empty sketch (`cumulative_wt_ == 0`: no downsampling). -/
theorem absorb_fresh {v : Variant} {s : Sketch Rat} {item : Nat} {incr newWtMax : Rat}
    {thetaOf : Rat → Rat} {d : Draws Rat}
    (hs : SInv P s.sample) (hc0 : s.sample.c = 0) (hw0 : s.cumWt = 0) (hk1 : 1 ≤ s.k) (hM : 0 < newWtMax)
    (hi : 0 < incr) (hP : P item) (hth : ∀ r, thetaOf r = r * incr)
    (hth1 : min (1 / newWtMax) ((s.k : Rat) / (s.cumWt + incr)) * incr ≤ 1)
    (hd : UnitOK v.geDraw d) :
    Core P (absorb v s item incr thetaOf newWtMax d).1 newWtMax s.k ∧
    (absorb v s item incr thetaOf newWtMax d).1.cumWt = s.cumWt + incr ∧
    (absorb v s item incr thetaOf newWtMax d).1.k = s.k ∧
    (absorb v s item incr thetaOf newWtMax d).1.n = s.n ∧
    (absorb v s item incr thetaOf newWtMax d).1.wtMax = s.wtMax ∧
    UnitOK v.geDraw (absorb v s item incr thetaOf newWtMax d).2 := by
  have hkq : (0 : Rat) < s.k := by exact_mod_cast hk1
  set nr := min (1 / newWtMax) ((s.k : Rat) / (s.cumWt + incr)) with hnr
  have hnrp : 0 < nr := lt_min (div_pos one_pos hM) (div_pos hkq (by linarith))
  obtain ⟨r1, r2⟩ := replaceContent_spec (P := P) (item := item) (theta := thetaOf nr) hP
    (by rw [hth]; exact mul_pos hnrp hi) (by rw [hth]; exact hth1)
  obtain ⟨m1, m2, m3⟩ := mergeSample_spec (ge := v.geDraw) hs r1 hd
  have hcond : (Num.lt (zero : Rat) s.cumWt) = false := by simp [hw0]
  have hthle : thetaOf nr ≤ 1 := by rw [hth]; exact hth1
  have e : absorb v s item incr thetaOf newWtMax d =
      ({ s with cumWt := s.cumWt + incr, rho := nr,
                sample := (mergeSample v.geDraw s.sample (replaceContent item (thetaOf nr)) d).1 },
       (mergeSample v.geDraw s.sample (replaceContent item (thetaOf nr)) d).2) := by
    unfold absorb
    simp only [hcond, rat_newRho, ← hnr, mergeSampleV_eq_rat, replaceContentV_eq_rat _ _ hthle]
    rfl
  rw [e]
  refine ⟨⟨m1, by simp only; linarith, hM, hk1, rfl, ?_⟩, rfl, rfl, rfl, rfl, m3⟩
  simp only
  rw [m2, r2, hth, hc0, hw0]
  ring

/-! ### well-formed sketches and `update` -/

/-- States produced by the constructor, `update`, `reset`, serialize→deserialize (and by `merge` once it stores the
new maximum weight): either untouched, or `rho = min(1/wtMax, k/cumWt)`, `c = rho·cumWt` with a well-structured sample. -/
inductive WF (P : Nat → Prop) (s : Sketch Rat) : Prop
  | fresh (hk : 1 ≤ s.k) (hw : s.cumWt = 0) (hn : s.n = 0) (hm : s.wtMax = 0) (hc : s.sample.c = 0) (hs : SInv P s.sample)
  | live (hk : 1 ≤ s.k) (hcore : Core P s s.wtMax s.k) (hmw : s.wtMax ≤ s.cumWt) (hn : 1 ≤ s.n)

theorem wf_fresh {k : Nat} (hk : 1 ≤ k) : WF P (Sketch.fresh k : Sketch Rat) :=
  WF.fresh hk (by simp [Sketch.fresh]) rfl (by simp [Sketch.fresh]) (by simp [Sketch.fresh, Sample.empty]) sinv_empty

theorem WF.mono {Q : Nat → Prop} {s : Sketch Rat} (hPQ : ∀ x, P x → Q x) (h : WF P s) : WF Q s := by
  cases h with
  | fresh a b c d e f => exact WF.fresh a b c d e (f.mono hPQ)
  | live a b c d => exact WF.live a (b.mono hPQ) c d

theorem WF.kpos {s : Sketch Rat} (h : WF P s) : 1 ≤ s.k := by cases h <;> assumption

theorem WF.sinv {s : Sketch Rat} (h : WF P s) : SInv P s.sample := by
  cases h with
  | fresh _ _ _ _ _ hs => exact hs
  | live _ hc _ _ => exact hc.sinv

theorem WF.cum_nonneg {s : Sketch Rat} (h : WF P s) : 0 ≤ s.cumWt := by
  cases h with
  | fresh _ hw _ _ _ _ => rw [hw]
  | live _ hc _ _ => exact le_of_lt hc.wpos

theorem WF.max_nonneg {s : Sketch Rat} (h : WF P s) : 0 ≤ s.wtMax := by
  cases h with
  | fresh _ _ _ hm _ _ => rw [hm]
  | live _ hc _ _ => exact le_of_lt hc.mpos

/-- `update` with a positive weight on a well-formed sketch. -/
theorem update_wf {v : Variant} {s : Sketch Rat} {item : Nat} {w : Rat} {d : Draws Rat}
    (h : WF P s) (hw : 0 < w) (hP : P item) (hd : UnitOK v.geDraw d) :
    ∃ s' d', update v s item w d = some (s', d') ∧ WF P s' ∧ Core P s' s'.wtMax s'.k ∧ s'.n = s.n + 1 ∧
      s'.cumWt = s.cumWt + w ∧ s'.wtMax = max s.wtMax w ∧ s'.k = s.k ∧ UnitOK v.geDraw d' := by
  have hmx : 0 < max s.wtMax w := lt_max_of_lt_right hw
  have hkq : (0 : Rat) < s.k := by exact_mod_cast h.kpos
  have hth1 : min (1 / max s.wtMax w) ((s.k : Rat) / (s.cumWt + w)) * w ≤ 1 := by
    calc min (1 / max s.wtMax w) ((s.k : Rat) / (s.cumWt + w)) * w ≤ 1 / max s.wtMax w * w :=
          mul_le_mul_of_nonneg_right (min_le_left _ _) (le_of_lt hw)
      _ = w / max s.wtMax w := by ring
      _ ≤ 1 := (div_le_one hmx).2 (le_max_right _ _)
  have hnotbad : (Num.lt w (zero : Rat) || !Num.finite w) = false := by simp [le_of_lt hw]
  have hnz : Num.eq w (zero : Rat) = false := by simp [ne_of_gt hw]
  have e : update v s item w d =
      some ({ (absorb v s item w (fun r => r * w) (max s.wtMax w) d).1 with wtMax := max s.wtMax w, n := s.n + 1 },
            (absorb v s item w (fun r => r * w) (max s.wtMax w) d).2) := by
    unfold update
    simp only [hnotbad, hnz, rat_cmax]
    rfl
  rw [e]
  refine ⟨_, _, rfl, ?_⟩
  have key : Core P (absorb v s item w (fun r => r * w) (max s.wtMax w) d).1 (max s.wtMax w) s.k ∧
      (absorb v s item w (fun r => r * w) (max s.wtMax w) d).1.cumWt = s.cumWt + w ∧
      (absorb v s item w (fun r => r * w) (max s.wtMax w) d).1.k = s.k ∧
      (absorb v s item w (fun r => r * w) (max s.wtMax w) d).1.n = s.n ∧
      (absorb v s item w (fun r => r * w) (max s.wtMax w) d).1.wtMax = s.wtMax ∧
      UnitOK v.geDraw (absorb v s item w (fun r => r * w) (max s.wtMax w) d).2 := by
    cases h with
    | fresh hk hw0 hn hm hc hs =>
      exact absorb_fresh hs hc hw0 hk hmx hw hP (fun r => rfl) hth1 hd
    | live hk hcore hmw hn =>
      exact absorb_core hcore hk (le_refl _) (le_max_left _ _) hw hP (fun r => rfl) hth1 hd
  obtain ⟨c1, c2, c3, c4, c5, c6⟩ := key
  have hcore' : Core P { (absorb v s item w (fun r => r * w) (max s.wtMax w) d).1 with wtMax := max s.wtMax w, n := s.n + 1 }
      (max s.wtMax w) s.k := ⟨c1.sinv, c1.wpos, c1.mpos, c1.kpos, c1.rho, c1.c⟩
  have hmw' : max s.wtMax w ≤ s.cumWt + w := by
    apply max_le
    · cases h with
      | fresh _ hw0 _ hm _ _ => rw [hm, hw0]; linarith
      | live _ _ hmw _ => linarith
    · linarith [h.cum_nonneg]
  refine ⟨?_, ?_, rfl, c2, rfl, c3, c6⟩
  · refine WF.live (by simp only [c3]; exact h.kpos) ?_ (by simp only [c2]; exact hmw') (by simp)
    simp only [c3]; exact hcore'
  · simp only [c3]; exact hcore'

end DS.Ebpps

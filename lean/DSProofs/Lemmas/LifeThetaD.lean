/- C19 helper lemmas, theta table part 4: `rebuild`, `insert`, `update`, `trim`, `reset`, copy, compact. -/
import DSProofs.Lemmas.LifeThetaC
namespace DS.Life.Theta
open DS.Life

/-- loop invariant of the re-insertion loop of `rebuild`: old slots `[0, k)` were moved out (raw, keys kept),
    `[k, num)` still hold live entries, `[num, size)` are raw -/
structure RebuildInv (P : Params) (h : Heap) (b size num nb lg k : Nat) (ids : List Nat) : Prop where
  oc : HasCells h b size
  ne : nb ≠ b
  le : num ≤ size
  done : ∀ j, j < k → stAt h b j = .raw
  todo : ∀ j, k ≤ j → j < num → wordAt h b j ≠ 0 ∧ ∃ v, stAt h b j = .live v
  back : ∀ j, num ≤ j → j < size → stAt h b j = .raw
  dist : ∀ p q, p < num → q < num → wordAt h b p = wordAt h b q → p = q
  tbl : TableAt P h nb lg k
  cross : ∀ p, p < 2 ^ lg → wordAt h nb p ≠ 0 → ∃ q, q < k ∧ wordAt h b q = wordAt h nb p
  ids : h.ids = ids

theorem rebuild_body_spec (P : Params) (n0 : Nat) (S : Nat → Bool) (b size num nb lg i : Nat) (ids : List Nat)
    (hSb : S b = true) (hSn : S nb = true) (hi : i < num) :
    TripleS n0 S (fun h => RebuildInv P h b size num nb lg i ids)
      (do
        let key ← readWord b i
        let r ← find P nb lg key
        moveConstructEntry b i nb r.1
        destroy b i)
      (fun _ h => RebuildInv P h b size num nb lg (i + 1) ids) := by
  intro h hn inv
  have his : i < size := by have := inv.le; omega
  apply vstep_readWord inv.oc his
  obtain ⟨hk, v, hv⟩ := inv.todo i (Nat.le_refl _) hi
  have hnk : ∀ p, p < 2 ^ lg → wordAt h nb p ≠ wordAt h b i := by
    intro p hp e
    obtain ⟨q, hq, eq⟩ := inv.cross p hp (by rw [e]; exact hk)
    have := inv.dist q i (by omega) hi (by rw [eq, e])
    omega
  have : (find P nb lg (wordAt h b i) >>= fun r => (moveConstructEntry b i nb r.1 >>= fun _ => destroy b i)) =
      (find P nb lg (wordAt h b i) >>= fun r => (moveConstructEntry b i nb r.1 >>= fun _ => (destroy b i >>= fun a => pure a))) := by
    funext h'
    simp only [bind_eq]
    cases find P nb lg (wordAt h b i) h' with
    | error e => rfl
    | ok r1 =>
      simp only
      cases moveConstructEntry b i nb r1.1.1 r1.2 with
      | error e => rfl
      | ok r2 =>
        simp only
        cases destroy b i r2.2 with
        | error e => rfl
        | ok r3 => rfl
  show SafeF S h ((find P nb lg (wordAt h b i) >>= fun r => (moveConstructEntry b i nb r.1 >>= fun _ => destroy b i)) h) _
  rw [this]
  apply vstep_moveEntry P (n0 := n0) inv.tbl inv.oc his inv.ne hv hk hnk hSb hSn
  intro h1 sb1 ht1 hw1 hs1 hwn
  apply SafeF.pure
  have hwo : ∀ j, j ≠ i → wordAt h1 b j = wordAt h b j := fun j hj =>
    sb1.word b j (fun x => by rcases x with x | x; exact hj x.2; exact inv.ne x.symm)
  have hso : ∀ j, j ≠ i → stAt h1 b j = stAt h b j := fun j hj =>
    sb1.st b j (fun x => by rcases x with x | x; exact hj x.2; exact inv.ne x.symm)
  have hwall : ∀ j, wordAt h1 b j = wordAt h b j := fun j => by
    by_cases hji : j = i
    · subst hji; exact hw1
    · exact hwo j hji
  refine ⟨sb1.cells _ _ inv.oc, inv.ne, inv.le, ?_, ?_, ?_, ?_, ht1, ?_, by rw [sb1.ids]; exact inv.ids⟩
  · intro j hj
    by_cases hji : j = i
    · subst hji; exact hs1
    · rw [hso j hji]; exact inv.done j (by omega)
  · intro j h1' h2'
    have hji : j ≠ i := by omega
    rw [hwo j hji, hso j hji]; exact inv.todo j (by omega) h2'
  · intro j h1' h2'
    have hji : j ≠ i := by omega
    rw [hso j hji]; exact inv.back j h1' h2'
  · intro p q hp hq heq
    rw [hwall p, hwall q] at heq
    exact inv.dist p q hp hq heq
  · intro p hp hne
    rcases hwn p with e | e
    · rw [e] at hne ⊢
      obtain ⟨q, hq, eq⟩ := inv.cross p hp hne
      exact ⟨q, by omega, by rw [hwall q]; exact eq⟩
    · exact ⟨i, by omega, by rw [hwall i, e]⟩

/-- `rebuild()`; the caller guarantees `num > nominal` -/
theorem rebuild_spec (P : Params) (n0 : Nat) (S : Nat → Bool) (t : Table) (b : Nat) (hb : t.entries = some b)
    (hSb : S b = true) (hSn : ∀ x, n0 ≤ x → S x = true) (ids : List Nat) (hnum : 2 ^ t.lgNom < t.num) :
    TripleS n0 S (fun h => TableAt P h b t.lgCur t.num ∧ h.ids = ids)
      (rebuild P t)
      (fun t' h' => ∃ nb theta, n0 ≤ nb ∧ nb ≠ b ∧ t' = { t with entries := some nb, num := 2 ^ t.lgNom, theta := theta } ∧
        TableAt P h' nb t.lgCur (2 ^ t.lgNom) ∧ h'.ids = (nb :: ids).filter (fun x => x != b)) := by
  intro h hn ⟨ht, hid⟩
  unfold rebuild
  rw [hb]
  apply step_deref
  apply SafeF.bind_triple (consolidate_spec n0 S b (2 ^ t.lgCur) t.num ids hSb) hn
    ⟨ht.slots, ht.path.distinct, ht.count.symm, hid⟩
  intro _ h1 ⟨pk1, hid1⟩ hle1
  have hlt1 : b < h1.next := by have := ht.slots.lt; omega
  apply vstep_nthElement pk1 hSb
  intro h2 pk2 _ _ hid2 hnx2
  have hnomlt : 2 ^ t.lgNom < 2 ^ t.lgCur := by have := pk2.le; omega
  apply vstep_readWord pk2.cells hnomlt
  have hSnb : S h2.next = true := hSn _ (by omega)
  apply vstep_alloc _ _ hSnb
  intro h3 hc3 hr3 hv3 hcells3 hid3 hnx3
  have hbne : b ≠ h2.next := by omega
  apply vstep_zeroKeys (n0 := n0) (by omega) hc3 hr3 hSnb
  intro h4 sb4 hz4
  have hwb : ∀ j, wordAt h4 b j = wordAt h2 b j := fun j => by
    rw [sb4.word b j (fun x => hbne x), (hv3 b j hbne).1]
  have hsb : ∀ j, stAt h4 b j = stAt h2 b j := fun j => by
    rw [sb4.st b j (fun x => hbne x), (hv3 b j hbne).2]
  have inv0 : RebuildInv P h4 b (2 ^ t.lgCur) t.num h2.next t.lgCur 0 (h2.next :: ids) := by
    refine ⟨sb4.cells _ _ (hcells3 b _ hbne pk2.cells), fun e => hbne e.symm, pk2.le, fun j hj => by omega, ?_, ?_, ?_,
      TableAt.empty P (sb4.cells _ _ hc3) (by rw [sb4.next, hnx3]; omega) hz4, ?_, by rw [sb4.ids, hid3, hid2, hid1]⟩
    · intro j _ hj; rw [hwb j, hsb j]; exact pk2.front j hj
    · intro j h1' h2'; rw [hsb j]; exact (pk2.back j h1' h2').2
    · intro p q hp hq heq
      rw [hwb p, hwb q] at heq
      exact pk2.dist p q (by have := pk2.le; omega) (by have := pk2.le; omega) heq (pk2.front p hp).1
    · intro p hp hne; exact absurd (hz4 p hp).2 hne
  have loop := TripleS.loopUp (n0 := n0) (S := S)
    (fun k h' => RebuildInv P h' b (2 ^ t.lgCur) t.num h2.next t.lgCur k (h2.next :: ids))
    _ (2 ^ t.lgNom) 0
    (fun i _ hi => rebuild_body_spec P n0 S b (2 ^ t.lgCur) t.num h2.next t.lgCur i (h2.next :: ids) hSb hSnb (by omega))
  apply SafeF.bind_triple loop (by rw [sb4.next, hnx3]; omega) inv0
  intro _ h5 inv5 hle5
  simp only [Nat.zero_add] at inv5
  -- destroy the entries above the new theta
  have loop2 := TripleS.loopUp (n0 := n0) (S := S)
    (fun k h' => HasCells h' b (2 ^ t.lgCur) ∧ (∀ j, j < k → stAt h' b j = .raw) ∧
      (∀ j, k ≤ j → j < t.num → ∃ v, stAt h' b j = .live v) ∧ (∀ j, t.num ≤ j → j < 2 ^ t.lgCur → stAt h' b j = .raw) ∧
      TableAt P h' h2.next t.lgCur (2 ^ t.lgNom) ∧ h'.ids = h2.next :: ids)
    (fun i => destroy b i) (t.num - 2 ^ t.lgNom) (2 ^ t.lgNom) ?_
  · have hnx4 : h4.next = h2.next + 1 := by rw [sb4.next, hnx3]
    apply SafeF.bind_triple loop2 (by omega)
      ⟨inv5.oc, inv5.done, fun j h1' h2' => (inv5.todo j h1' h2').2, inv5.back, inv5.tbl, inv5.ids⟩
    intro _ h6 ⟨hc6, hd6, _, hb6, ht6, hid6⟩ hle6
    have hall : ∀ i, i < 2 ^ t.lgCur → stAt h6 b i = .raw := by
      intro i hi
      by_cases hin : i < 2 ^ t.lgNom + (t.num - 2 ^ t.lgNom)
      · exact hd6 i hin
      · exact hb6 i (by omega) hi
    apply vstep_dealloc hc6 hall hSb
    intro h7 hv7 hcells7 hid7 hnx7
    apply SafeF.pure
    refine ⟨h2.next, wordAt h2 b (2 ^ t.lgNom), by omega, fun e => hbne e.symm, rfl, ?_, by rw [hid7, hid6]⟩
    exact ht6.other' (fun j => hv7 _ j inv5.ne) (hcells7 _ _ inv5.ne) (by omega)
  · intro i hi1 hi2 h' _ ⟨hc', hd', hl', hb', ht', hid'⟩
    have his : i < 2 ^ t.lgCur := by have := inv5.le; omega
    obtain ⟨v, hv⟩ := hl' i (Nat.le_refl _) (by omega)
    apply SafeF.last
    apply vstep_destroy hc' his (by rw [hv]; simp) hSb
    intro h'' sb'' _ hs''
    apply SafeF.pure
    refine ⟨sb''.cells _ _ hc', ?_, ?_, ?_, ht'.other sb'' (fun j x => inv5.ne x.1), by rw [sb''.ids]; exact hid'⟩
    · intro j hj
      by_cases hji : j = i
      · subst hji; exact hs''
      · rw [sb''.st b j (fun x => hji x.2)]; exact hd' j (by omega)
    · intro j h1' h2'
      rw [sb''.st b j (fun x => by omega)]; exact hl' j (by omega) h2'
    · intro j h1' h2'
      rw [sb''.st b j (fun x => by omega)]; exact hb' j h1' h2'

end DS.Life.Theta

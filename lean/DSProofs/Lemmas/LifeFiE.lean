/- C19 / FI part E: `resize`, `resize_or_purge_if_needed`, `adjust_or_insert`, `update`. -/
import DSProofs.Lemmas.LifeFiD
namespace DS.Life.Fi
open DS.Life

/-! ### three deallocations with a continuation -/

theorem step_dealloc3 {β} {S} {h : Heap} {k v s n : Nat} {f : M β} {Q : β → Heap → Prop}
    (ck : HasCells h k n) (cv : HasCells h v n) (cs : HasCells h s n) (kv : k ≠ v) (ks : k ≠ s) (vs : v ≠ s)
    (rk : ∀ j, j < n → stAt h k j = .raw) (rv : ∀ j, stAt h v j = .raw) (rs : ∀ j, stAt h s j = .raw)
    (hS : ∀ b, b ∈ [k, v, s] → S b = true)
    (cont : ∀ h', (∀ b, b ∈ h'.ids ↔ b ∈ h.ids ∧ b ∉ [k, v, s]) → h'.next = h.next →
      (∀ b, b ∉ [k, v, s] → h'.find? b = h.find? b) → SafeF S h' (f h') Q) :
    SafeF S h ((dealloc k n >>= fun _ => dealloc v n >>= fun _ => dealloc s n >>= fun _ => f) h) Q := by
  apply step_dealloc ck ?_ (hS k (by simp))
  · intro k1
    apply step_dealloc (HasCells_afterFree_ne (Ne.symm kv) cv) ?_ (hS v (by simp))
    · intro k2
      apply step_dealloc (HasCells_afterFree_ne (Ne.symm vs) (HasCells_afterFree_ne (Ne.symm ks) cs)) ?_ (hS s (by simp))
      · intro k3
        apply cont
        · intro b
          simp only [ids_afterFree, List.mem_filter, List.mem_cons, List.not_mem_nil, or_false, bne_iff_ne, ne_eq]
          constructor
          · intro ⟨⟨⟨a, b1⟩, c⟩, d⟩; exact ⟨a, fun hh => by rcases hh with e | e | e <;> contradiction⟩
          · intro ⟨a, hh⟩
            exact ⟨⟨⟨a, fun e => hh (Or.inl e)⟩, fun e => hh (Or.inr (Or.inl e))⟩, fun e => hh (Or.inr (Or.inr e))⟩
        · rfl
        · intro b hb
          simp only [List.mem_cons, List.not_mem_nil, or_false, not_or] at hb
          rw [find?_afterFree_ne _ _ _ _ hb.2.2, find?_afterFree_ne _ _ _ _ hb.2.1, find?_afterFree_ne _ _ _ _ hb.1]
      · intro i hi
        obtain ⟨c, e, _, est⟩ := cs.cell_st hi
        refine ⟨c, ?_, by rw [est]; exact rs i⟩
        rw [cell?_afterFree, if_neg (Ne.symm vs), cell?_afterFree, if_neg (Ne.symm ks)]; exact e
    · intro i hi
      obtain ⟨c, e, _, est⟩ := cv.cell_st hi
      refine ⟨c, ?_, by rw [est]; exact rv i⟩
      rw [cell?_afterFree, if_neg (Ne.symm kv)]; exact e
  · intro i hi
    obtain ⟨c, e, _, est⟩ := ck.cell_st hi
    exact ⟨c, e, by rw [est]; exact rk i hi⟩

/-! ### `resize` -/

def resizeBody (P : Params) (ok ov os : Nat) (i : Nat) (mm : Map) : M Map := do
  let st ← readWord os i
  if st > 0 then
    let w ← readWord ov i
    let r ← adjustOrInsertNoGrow P mm (.moveOf ok i) w
    if r.1.numActive > getCapacity P r.1.lgCur then throwExc "nested resize/purge during resize" else
    destroy ok i
    pure r.1
  else pure mm

theorem resize_eq (P : Params) (m : Map) (lgNew : Nat) : resize P m lgNew =
    (deref m.keys >>= fun ok => deref m.values >>= fun ov => deref m.states >>= fun os =>
      alloc .item (2 ^ lgNew) >>= fun k => alloc .u64 (2 ^ lgNew) >>= fun v => alloc .u16 (2 ^ lgNew) >>= fun s =>
      fill0 s (2 ^ lgNew) >>= fun _ =>
      foldUp (resizeBody P ok ov os) (2 ^ m.lgCur) 0
        { m with keys := some k, values := some v, states := some s, numActive := 0, lgCur := lgNew } >>= fun m1 =>
      dealloc ok (2 ^ m.lgCur) >>= fun _ => dealloc ov (2 ^ m.lgCur) >>= fun _ => dealloc os (2 ^ m.lgCur) >>= fun _ =>
      pure m1) := rfl

/-- loop invariant of the re-insertion loop of `resize` -/
def RI (P : Params) (lgNew lgMax k v s ok nOld : Nat) (h4 : Heap) (i : Nat) (mm : Map) (h : Heap) : Prop :=
  Usable P h mm ∧ (∃ na, mm = ⟨lgNew, lgMax, na, some k, some v, some s⟩) ∧ SameBut [k, v, s, ok] h4 h ∧
  HasCells h ok nOld ∧ (∀ j, j < i → stAt h ok j = .raw) ∧ (∀ j, i ≤ j → stAt h ok j = stAt h4 ok j)

theorem resizeBody_spec (P : Params) (n0 : Nat) (S : Nat → Bool) (lgNew lgMax k v s ok ov os nOld : Nat) (h4 : Heap)
    (T0 : Tbl true [] h4 ok ov os nOld) (hk : k ∉ [ok, ov, os]) (hv : v ∉ [ok, ov, os]) (hs : s ∉ [ok, ov, os])
    (hS : ∀ b, b ∈ [k, v, s, ok] → S b = true) (i : Nat) (hi : i < nOld) (mm : Map) :
    TripleS n0 S (RI P lgNew lgMax k v s ok nOld h4 i mm) (resizeBody P ok ov os i mm)
      (fun mm' h => RI P lgNew lgMax k v s ok nOld h4 (i + 1) mm' h) := by
  simp only [List.mem_cons, List.not_mem_nil, or_false, not_or] at hk hv hs
  intro h hn ⟨hu, ⟨na, hmm⟩, sb, hc, hraw, hsame⟩
  subst hmm
  unfold resizeBody
  have eos : h.find? os = h4.find? os :=
    sb.out os (by simp; exact ⟨fun e => hk.2.2 e.symm, fun e => hv.2.2 e.symm, fun e => hs.2.2 e.symm, fun e => T0.ks e.symm⟩)
  have eov : h.find? ov = h4.find? ov :=
    sb.out ov (by simp; exact ⟨fun e => hk.2.1 e.symm, fun e => hv.2.1 e.symm, fun e => hs.2.1 e.symm, fun e => T0.kv e.symm⟩)
  obtain ⟨cs, ecs, ews, _⟩ := (HasCells_congr eos T0.cs).cell_st hi
  rw [wordAt_congr eos] at ews
  apply step_readWord ecs
  have hslot := T0.slot i hi (by simp)
  by_cases hw : cs.word > 0
  · rw [if_pos hw]
    obtain ⟨cv, ecv⟩ := (HasCells_congr eov T0.cv).cell hi
    apply step_readWord ecv
    obtain ⟨x, hx⟩ := hslot.live_of_pos (by omega)
    have hx' : stAt h ok i = .live x := by rw [hsame i (Nat.le_refl _)]; exact hx
    have hown : owned (⟨lgNew, lgMax, na, some k, some v, some s⟩ : Map) = [k, v, s] := rfl
    have hsrc : SrcOK h (owned (⟨lgNew, lgMax, na, some k, some v, some s⟩ : Map)) (.moveOf ok i) := by
      refine ⟨?_, x, hx'⟩
      rw [hown]; simp
      exact ⟨fun e => hk.1 e.symm, fun e => hv.1 e.symm, fun e => hs.1 e.symm⟩
    apply SafeF.bind_triple (noGrow_spec P n0 S ⟨lgNew, lgMax, na, some k, some v, some s⟩ (.moveOf ok i) cv.word
      (by rw [hown]; intro b hb; simp [srcBlk] at hb; exact hS b (by simp; exact hb)) h) hn ⟨rfl, hu, hsrc⟩
    intro r h1 ⟨hu1, ⟨na', hr⟩, sb1, hmv⟩ _
    by_cases hcap : r.1.numActive > getCapacity P r.1.lgCur
    · rw [if_pos hcap]; exact SafeF.exc _
    · rw [if_neg hcap]
      have hmv' : MovedAt h h1 ok i := hmv
      have hnr : stAt h1 ok i ≠ .raw := by
        rcases hmv'.2.2.2 with e | e
        · rw [e, hx']; simp
        · rw [e]; simp
      obtain ⟨c1, ec1, est1, _⟩ := cell_of_stAt_ne_raw hnr
      apply stepR_destroy ec1 (by rw [est1]; exact hnr) (hS ok (by simp))
      intro h2 up
      apply SafeF.pure
      refine ⟨?_, ⟨na', hr⟩, ?_, ?_, ?_, ?_⟩
      · refine Usable.local (fun b hb => ?_) (by rw [up.next]; exact Nat.le_refl _) hu1
        rw [hr] at hb
        have hb' : b ∈ [k, v, s] := hb
        simp only [List.mem_cons, List.not_mem_nil, or_false] at hb'
        apply up.out
        rcases hb' with e | e | e
        · rw [e]; exact hk.1
        · rw [e]; exact hv.1
        · rw [e]; exact hs.1
      · have a1 : SameBut [k, v, s, ok] h h1 := sb1.mono (fun b hb => by rw [hown] at hb; simpa [srcBlk] using hb)
        exact (sb.trans a1).trans (up.sameBut (by simp))
      · apply up.hasCells
        simpa only [HasCells, hmv'.1] using hc
      · intro j hj
        by_cases hji : j = i
        · subst hji; rw [up.stAt_eq]
        · rw [up.stAt_ne (fun hh => hji hh.2), hmv'.2.2.1 j hji]; exact hraw j (by omega)
      · intro j hj
        have hji : j ≠ i := by omega
        rw [up.stAt_ne (fun hh => hji hh.2), hmv'.2.2.1 j hji]; exact hsame j (by omega)
  · rw [if_neg hw]
    apply SafeF.pure
    refine ⟨hu, ⟨na, rfl⟩, sb, hc, ?_, fun j hj => hsame j (by omega)⟩
    intro j hj
    by_cases hji : j = i
    · subst hji
      rw [hsame j (Nat.le_refl _)]
      exact hslot.raw_of_zero (by omega)
    · exact hraw j (by omega)

theorem resize_spec (P : Params) (n0 : Nat) (S : Nat → Bool) (m : Map) (lgNew : Nat) (hS : ∀ b, n0 ≤ b → S b = true)
    (hSo : ∀ b, b ∈ owned m → S b = true) (hlgN : P.lgMinMap ≤ lgNew) (h0 : Heap) :
    TripleS n0 S (fun h => h = h0 ∧ Usable P h m) (resize P m lgNew)
      (fun m1 h' => Usable P h' m1 ∧ owned m1 = [h0.next, h0.next + 1, h0.next + 2] ∧
        (∀ b, b ∈ h'.ids ↔ (b ∈ h0.ids ∧ b ∉ owned m) ∨ b ∈ owned m1) ∧ h'.next = h0.next + 3 ∧
        ∀ b, b ∉ owned m → b < h0.next → h'.find? b = h0.find? b) := by
  intro h hn ⟨he, hu⟩
  subst he
  obtain ⟨ok, ov, os, hk, hv, hs, ho, T, hc⟩ := Usable.ptrs hu
  rw [ho] at hSo ⊢
  clear hu hc
  rw [resize_eq, hk, hv, hs]
  apply step_deref
  apply step_deref
  apply step_deref
  apply step_alloc3 _ (fun b hb => hS b (by omega))
  have F := alloc3_fresh h (2 ^ lgNew)
  generalize alloc3 h (2 ^ lgNew) = h3 at F
  have ltk := T.ltk; have ltv := T.ltv; have lts := T.lts
  apply SafeF.bind_triple (fill0_spec n0 S (h.next + 2) (2 ^ lgNew) (hS _ (by omega)) h3 F.cs) (by rw [F.next]; omega) rfl
  intro _ h4 ⟨sb4, cs4, rs4, hz⟩ _
  have e0 : h4.find? h.next = h3.find? h.next := sb4.out _ (by simp)
  have e1 : h4.find? (h.next + 1) = h3.find? (h.next + 1) := sb4.out _ (by simp)
  have hT := Tbl.empty (u := true) (h := h4) (HasCells_congr e0 F.ck) (HasCells_congr e1 F.cv) cs4
    (by omega) (by omega) (by omega) (by rw [sb4.next, F.next]; omega) (by rw [sb4.next, F.next]; omega)
    (by rw [sb4.next, F.next]; omega) (fun i => by rw [stAt_congr e0]; exact F.rk i)
    (fun i => by rw [stAt_congr e1]; exact F.rv i) (fun i => by rw [rs4]; exact F.rs i) hz
  have hold4 : ∀ b, b < h.next → h4.find? b = h.find? b := by
    intro b hb; rw [sb4.out b (by simp; omega), F.old b hb]
  have T4 : Tbl true [] h4 ok ov os (2 ^ m.lgCur) :=
    T.local (hold4 _ ltk) (hold4 _ ltv) (hold4 _ lts) (by rw [sb4.next, F.next]; omega)
  have hkn : h.next ∉ [ok, ov, os] := by simp; omega
  have hvn : h.next + 1 ∉ [ok, ov, os] := by simp; omega
  have hsn : h.next + 2 ∉ [ok, ov, os] := by simp; omega
  have hS4 : ∀ b, b ∈ [h.next, h.next + 1, h.next + 2, ok] → S b = true := by
    intro b hb
    simp only [List.mem_cons, List.not_mem_nil, or_false] at hb
    rcases hb with e | e | e | e
    · exact hS b (by omega)
    · exact hS b (by omega)
    · exact hS b (by omega)
    · exact hSo b (by simp [e])
  have loop := TripleS.foldUp (n0 := n0) (S := S)
    (RI P lgNew m.lgMax h.next (h.next + 1) (h.next + 2) ok (2 ^ m.lgCur) h4)
    (resizeBody P ok ov os) (2 ^ m.lgCur) 0
    ⟨lgNew, m.lgMax, 0, some h.next, some (h.next + 1), some (h.next + 2)⟩
    (fun i a _ hi => resizeBody_spec P n0 S lgNew m.lgMax h.next (h.next + 1) (h.next + 2) ok ov os (2 ^ m.lgCur) h4 T4
      hkn hvn hsn hS4 i (by omega) a)
  have hu0 : Usable P h4 ⟨lgNew, m.lgMax, 0, some h.next, some (h.next + 1), some (h.next + 2)⟩ :=
    ⟨hlgN, Nat.zero_le _, hT.1, hT.2.symm⟩
  apply SafeF.bind_triple loop (by rw [sb4.next, F.next]; omega)
    ⟨hu0, ⟨0, rfl⟩, SameBut.refl _ _, T4.ck, fun j hj => by omega, fun _ _ => rfl⟩
  intro m1 h5 ⟨hu5, ⟨na, hm1⟩, sb5, hc5, hraw5, _⟩ _
  have eov5 : h5.find? ov = h4.find? ov :=
    sb5.out ov (by simp; exact ⟨by omega, by omega, by omega, fun e => T.kv e.symm⟩)
  have eos5 : h5.find? os = h4.find? os :=
    sb5.out os (by simp; exact ⟨by omega, by omega, by omega, fun e => T.ks e.symm⟩)
  apply step_dealloc3 hc5 (HasCells_congr eov5 T4.cv) (HasCells_congr eos5 T4.cs) T.kv T.ks T.vs
    (fun j hj => hraw5 j (by omega)) (fun j => by rw [stAt_congr eov5]; exact T4.rawv j)
    (fun j => by rw [stAt_congr eos5]; exact T4.raws j) hSo
  intro h6 hids6 hnext6 hout6
  apply SafeF.pure
  have hown1 : owned m1 = [h.next, h.next + 1, h.next + 2] := by rw [hm1]; rfl
  refine ⟨?_, hown1, ?_, by rw [hnext6, sb5.next, sb4.next, F.next], ?_⟩
  · refine Usable.local (fun b hb => hout6 b ?_) (by rw [hnext6]; exact Nat.le_refl _) hu5
    rw [hown1] at hb
    simp only [List.mem_cons, List.not_mem_nil, or_false] at hb
    simp only [List.mem_cons, List.not_mem_nil, or_false, not_or]
    omega
  · intro b
    rw [hids6 b, sb5.ids, sb4.ids, F.ids, hown1]
    simp only [List.mem_cons, List.not_mem_nil, or_false, not_or]
    constructor
    · rintro ⟨e | e | e | e, hne⟩
      · exact Or.inr (Or.inr (Or.inr e))
      · exact Or.inr (Or.inr (Or.inl e))
      · exact Or.inr (Or.inl e)
      · exact Or.inl ⟨e, hne⟩
    · rintro (⟨e, hne⟩ | e | e | e)
      · exact ⟨Or.inr (Or.inr (Or.inr e)), hne⟩
      · exact ⟨Or.inr (Or.inr (Or.inl e)), by omega⟩
      · exact ⟨Or.inr (Or.inl e), by omega⟩
      · exact ⟨Or.inl e, by omega⟩
  · intro b hb hblt
    rw [hout6 b hb, sb5.out b ?_, hold4 b hblt]
    simp only [List.mem_cons, List.not_mem_nil, or_false, not_or] at hb ⊢
    exact ⟨by omega, by omega, by omega, hb.1⟩

/-! ### growth bookkeeping -/

/-- how a (possibly allocating) operation on an object owning `own0` changed the heap: the object now owns `own'`;
    blocks outside `own0 ∪ X` that existed before are untouched -/
structure Grown (h0 h' : Heap) (own0 own' X : List Nat) : Prop where
  ids : ∀ b, b ∈ h'.ids ↔ (b ∈ h0.ids ∧ b ∉ own0) ∨ b ∈ own'
  fresh : ∀ b, b ∈ own' → b ∈ own0 ∨ h0.next ≤ b
  next : h0.next ≤ h'.next
  lt : IdsLt h'
  out : ∀ b, b ∉ own0 → b ∉ X → b < h0.next → h'.find? b = h0.find? b

theorem Grown.of_sameBut {h0 h' : Heap} {own X : List Nat} (sb : SameBut (own ++ X) h0 h') (hlt : IdsLt h0)
    (hown : ∀ b, b ∈ own → b ∈ h0.ids) : Grown h0 h' own own X where
  ids := fun b => by
    rw [sb.ids]
    constructor
    · intro hb
      by_cases ho : b ∈ own
      · exact Or.inr ho
      · exact Or.inl ⟨hb, ho⟩
    · rintro (⟨hb, _⟩ | ho)
      · exact hb
      · exact hown b ho
  fresh := fun b hb => Or.inl hb
  next := by rw [sb.next]; exact Nat.le_refl _
  lt := sb.idsLt hlt
  out := fun b h1 h2 _ => sb.out b (by simp [h1, h2])

theorem Grown.trans {h0 h1 h2 : Heap} {own0 own1 own2 X : List Nat} (a : Grown h0 h1 own0 own1 X)
    (c : Grown h1 h2 own1 own2 X) (hlt : IdsLt h0) : Grown h0 h2 own0 own2 X where
  ids := fun b => by
    rw [c.ids b, a.ids b]
    constructor
    · rintro (⟨⟨hb, hn0⟩ | hb1, hn1⟩ | hb2)
      · exact Or.inl ⟨hb, hn0⟩
      · exact absurd hb1 hn1
      · exact Or.inr hb2
    · rintro (⟨hb, hn0⟩ | hb2)
      · by_cases h1 : b ∈ own1
        · rcases a.fresh b h1 with e | e
          · exact absurd e hn0
          · have := hlt b hb; omega
        · by_cases h2 : b ∈ own2
          · exact Or.inr h2
          · exact Or.inl ⟨Or.inl ⟨hb, hn0⟩, h1⟩
      · exact Or.inr hb2
  fresh := fun b hb => by
    rcases c.fresh b hb with e | e
    · exact a.fresh b e
    · exact Or.inr (Nat.le_trans a.next e)
  next := Nat.le_trans a.next c.next
  lt := c.lt
  out := fun b hb hx hlt' => by
    have h1 : b ∉ own1 := fun hm => by
      rcases a.fresh b hm with e | e
      · exact hb e
      · omega
    rw [c.out b h1 hx (Nat.lt_of_lt_of_le hlt' a.next), a.out b hb hx hlt']

theorem Grown.owns {h0 h' : Heap} {own0 own' X : List Nat} {n0 : Nat} (g : Grown h0 h' own0 own' X) (hn : n0 ≤ h0.next) :
    Owns h' h0.ids own0 own' n0 :=
  ⟨g.ids, fun b hb => by rcases g.fresh b hb with e | e; exact Or.inl e; exact Or.inr (Nat.le_trans hn e)⟩

/-! ### `resize_or_purge_if_needed` -/

theorem resizeOrPurge_spec (P : Params) (hP : P.OK) (n0 : Nat) (S : Nat → Bool) (m : Map) (hS : ∀ b, n0 ≤ b → S b = true)
    (hSo : ∀ b, b ∈ owned m → S b = true) (h0 : Heap) :
    TripleS n0 S (fun h => h = h0 ∧ Usable P h m ∧ IdsLt h) (resizeOrPurgeIfNeeded P m)
      (fun r h' => Usable P h' r.1 ∧ Grown h0 h' (owned m) (owned r.1) []) := by
  intro h hn ⟨he, hu, hlt⟩
  subst he
  unfold resizeOrPurgeIfNeeded
  have hids := hu.inv.owned_ids
  by_cases hfull : m.numActive > getCapacity P m.lgCur
  · rw [if_pos hfull]
    by_cases hgrow : m.lgCur < m.lgMax
    · rw [if_pos hgrow]
      apply SafeF.bind_triple (resize_spec P n0 S m (m.lgCur + 1) hS hSo (by have := hu.lg; omega) h) hn ⟨rfl, hu⟩
      intro m' h' ⟨hu', hown', hids', hnext', hout'⟩ _
      apply SafeF.pure
      refine ⟨hu', hids', ?_, by rw [hnext']; omega, ?_, fun b hb _ hblt => hout' b hb hblt⟩
      · intro b hb
        rw [hown'] at hb
        simp only [List.mem_cons, List.not_mem_nil, or_false] at hb
        right; omega
      · intro b hb
        rw [hnext']
        rcases (hids' b).1 hb with ⟨e, _⟩ | e
        · have := hlt b e; omega
        · rw [hown'] at e
          simp only [List.mem_cons, List.not_mem_nil, or_false] at e
          omega
    · rw [if_neg hgrow]
      obtain ⟨k, v, s, hk, hv, hs, ho, T, hc⟩ := Usable.ptrs hu
      have hroom : m.numActive < 2 ^ m.lgCur := by
        have := cap_room hP hu.lg
        have := hu.cap
        omega
      rw [ho] at hSo hids
      have hlg := hu.lg
      clear hu hfull hgrow
      obtain ⟨lgCur, lgMax, na, keys, values, states⟩ := m
      simp only at hk hv hs
      subst hk hv hs
      apply step_deref
      apply step_deref
      apply step_deref
      apply SafeF.bind_triple (purge_spec P n0 S ⟨lgCur, lgMax, na, some k, some v, some s⟩ k v s (hSo k (by simp))
        (hSo v (by simp)) (hSo s (by simp)) hS h) hn ⟨rfl, T, hc, hroom, hlt⟩
      intro r h' ⟨T', hr, hids', hnext', hout'⟩ _
      by_cases hbad : r.2 > getCapacity P lgCur
      · rw [if_pos hbad]; exact SafeF.exc _
      · rw [if_neg hbad]
        apply SafeF.pure
        have hbad' : r.2 ≤ getCapacity P lgCur := Nat.le_of_not_gt hbad
        refine ⟨?_, ?_⟩
        · exact InvG.mk_some (m := ⟨lgCur, lgMax, r.2, some k, some v, some s⟩) rfl rfl rfl hlg
            (Nat.le_succ_of_le hbad') T' hr
        · show Grown h h' [k, v, s] [k, v, s] []
          refine ⟨?_, fun b hb => Or.inl hb, by rw [hnext']; omega, ?_, ?_⟩
          · intro b
            rw [hids']
            constructor
            · intro hb
              by_cases hbo : b ∈ [k, v, s]
              · exact Or.inr hbo
              · exact Or.inl ⟨hb, hbo⟩
            · rintro (⟨hb, _⟩ | hbo)
              · exact hb
              · exact (hids b hbo).1
          · intro b hb
            rw [hnext']
            have := hlt b (hids' ▸ hb); omega
          · intro b hb _ hblt
            exact hout' b hb hblt
  · rw [if_neg hfull]
    apply SafeF.pure
    exact ⟨hu, Grown.of_sameBut (SameBut.refl _ _) hlt (fun b hb => (hids b hb).1)⟩

/-! ### `adjust_or_insert`, `update` -/

theorem adjustOrInsert_spec (P : Params) (hP : P.OK) (n0 : Nat) (S : Nat → Bool) (m : Map) (src : KeySrc) (w : Nat)
    (hS : ∀ b, n0 ≤ b → S b = true) (hSo : ∀ b, b ∈ owned m ++ srcBlk src → S b = true) (h0 : Heap) :
    TripleS n0 S (fun h => h = h0 ∧ Usable P h m ∧ SrcOK h (owned m) src ∧ IdsLt h ∧ (∀ b, b ∈ srcBlk src → b < h.next))
      (adjustOrInsert P m src w)
      (fun r h' => Usable P h' r.1 ∧ Grown h0 h' (owned m) (owned r.1) (srcBlk src) ∧ SrcPost h0 h' src) := by
  intro h hn ⟨he, hu, hsrc, hlt, hblt⟩
  subst he
  unfold adjustOrInsert
  have hids := hu.inv.owned_ids
  apply SafeF.bind_triple (noGrow_spec P n0 S m src w hSo h) hn ⟨rfl, hu, hsrc⟩
  intro r h1 ⟨hu1, ⟨na, hr⟩, sb1, hpost1⟩ _
  have hown1 : owned r.1 = owned m := by rw [hr]; rfl
  have g1 : Grown h h1 (owned m) (owned r.1) (srcBlk src) := by
    rw [hown1]; exact Grown.of_sameBut sb1 hlt (fun b hb => (hids b hb).1)
  by_cases hnew : r.2 = true
  · rw [if_pos hnew]
    have hSo1 : ∀ b, b ∈ owned r.1 → S b = true := by
      intro b hb; rw [hown1] at hb; exact hSo b (by simp [hb])
    refine SafeF.mono (resizeOrPurge_spec P hP n0 S r.1 hS hSo1 h1 h1 (by rw [sb1.next]; exact hn) ⟨rfl, hu1, g1.lt⟩) ?_
    intro r2 h2 ⟨hu2, g2⟩
    have g2' : Grown h1 h2 (owned r.1) (owned r2.1) (srcBlk src) :=
      ⟨g2.ids, g2.fresh, g2.next, g2.lt, fun b hb _ hl => g2.out b hb (by simp) hl⟩
    refine ⟨hu2, g1.trans g2' hlt, hpost1.trans (SrcPost.of_find? (fun b hb => ?_))⟩
    refine g2.out b ?_ (by simp) (by rw [sb1.next]; exact hblt b hb)
    rw [hown1]; exact hsrc.notOwn b hb
  · rw [if_neg hnew]
    exact SafeF.pure ⟨hu1, g1, hpost1⟩

theorem update_spec (P : Params) (hP : P.OK) (n0 : Nat) (S : Nat → Bool) (s : Sketch) (src : KeySrc) (w : Nat)
    (hS : ∀ b, n0 ≤ b → S b = true) (hSo : ∀ b, b ∈ owned s.map ++ srcBlk src → S b = true) (h0 : Heap) :
    TripleS n0 S
      (fun h => h = h0 ∧ Usable P h s.map ∧ SrcOK h (owned s.map) src ∧ IdsLt h ∧ (∀ b, b ∈ srcBlk src → b < h.next))
      (Sketch.update P s src w)
      (fun s' h' => Usable P h' s'.map ∧ Grown h0 h' (owned s.map) (owned s'.map) (srcBlk src) ∧ SrcPost h0 h' src) := by
  intro h hn ⟨he, hu, hsrc, hlt, hblt⟩
  subst he
  unfold Sketch.update
  by_cases hw : w = 0
  · rw [if_pos hw]
    apply SafeF.pure
    exact ⟨hu, Grown.of_sameBut (SameBut.refl _ _) hlt (fun b hb => (hu.inv.owned_ids b hb).1),
      SrcPost.of_find? (fun _ _ => rfl)⟩
  · rw [if_neg hw]
    apply SafeF.bind_triple (adjustOrInsert_spec P hP n0 S s.map src w hS hSo h) hn ⟨rfl, hu, hsrc, hlt, hblt⟩
    intro r h' post _
    exact SafeF.pure post

end DS.Life.Fi

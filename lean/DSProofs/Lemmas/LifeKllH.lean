/- C19, KLL sketch part 8: `compress_while_updating` cut into tails (each tail is the model text of a suffix of
   the function; the model function is definitionally the composition), specs of the tails bottom-up. -/
import DSProofs.Lemmas.LifeKllG
namespace DS.Life.Kll
open DS.Life

/-- the end of `compress_while_updating`: destroy the vacated slots -/
def tail5 (s : Sketch) (items half destroyBeg : Nat) (coins : List Bool) (levels : List Nat) : M (Sketch × List Bool) := do
  loopUp (fun i => destroy items i) half destroyBeg
  pure ({ s with levels }, coins)

/-- … preceded by the consistency check and the shift of the lower levels -/
def tail4 (s : Sketch) (items level rawBeg half destroyBeg : Nat) (coins : List Bool) (levels : List Nat) :
    M (Sketch × List Bool) := do
  let cur ← lv levels level
  if cur ≠ rawBeg + half then throwExc "compaction error" else
  let levels ← if level > 0 then do
      let l0 ← lv levels 0
      let amount := rawBeg - l0
      loopDown (fun i => moveAssignSlot items i items (i + half)) amount l0
      foldUp (fun lvl (ls : List Nat) => do let x ← lv ls lvl; setLv ls lvl (x + half)) level 0 levels
    else pure levels
  tail5 s items half destroyBeg coins levels

/-- … preceded by the update of `levels_[level + 1]`, `levels_[level]` and the move of the odd item -/
def tail3 (s : Sketch) (items level rawBeg rawPop half destroyBeg : Nat) (coins : List Bool) : M (Sketch × List Bool) := do
  let above ← lv s.levels (level + 1)
  let levels ← setLv s.levels (level + 1) (above - half)
  let levels ← if rawPop % 2 = 1 then do
      let l1 ← lv levels (level + 1)
      let levels ← setLv levels level (l1 - 1)
      if l1 - 1 ≠ rawBeg then moveAssignSlot items rawBeg items (l1 - 1)
      pure levels
    else do
      let l1 ← lv levels (level + 1)
      setLv levels level l1
  tail4 s items level rawBeg half destroyBeg coins levels

/-- … preceded by the coin flip, the halving and the merge with the level above -/
def tail2 (s : Sketch) (items level rawBeg rawLim rawPop adjBeg adjPop popAbove destroyBeg : Nat) (coins : List Bool) :
    M (Sketch × List Bool) := do
  let (coin, coins) := nextCoin coins
  if popAbove = 0 then
    halveUp items adjBeg adjPop coin
  else
    halveDown items adjBeg adjPop coin
    mergeInPlace items adjBeg (adjPop / 2) rawLim popAbove (adjBeg + adjPop / 2)
  tail3 s items level rawBeg rawPop (adjPop / 2) destroyBeg coins

/-- the compaction of level `level` (everything after `find_level_to_compact` / `add_empty_top_level…`) -/
def compactAt (s : Sketch) (level : Nat) (coins : List Bool) : M (Sketch × List Bool) := do
  let items ← deref s.items
  let rawBeg ← lv s.levels level
  let rawLim ← lv s.levels (level + 1)
  let top ← lv s.levels (level + 2)
  let popAbove := top - rawLim
  let rawPop := rawLim - rawBeg
  let oddPop := rawPop % 2 = 1
  let adjBeg := if oddPop then rawBeg + 1 else rawBeg
  let adjPop := if oddPop then rawPop - 1 else rawPop
  let destroyBeg ← lv s.levels 0
  if level = 0 ∧ !s.lvl0Sorted then sortRange items adjBeg adjPop
  tail2 s items level rawBeg rawLim rawPop adjBeg adjPop popAbove destroyBeg coins

theorem compressWhileUpdating_eq (s : Sketch) (coins : List Bool) : compressWhileUpdating s coins = (do
    let level ← findLevelToCompact s (s.numLevels + 1) 0
    let s ← if level = s.numLevels - 1 then addEmptyTopLevel s else pure s
    compactAt s level coins) := rfl

theorem tail5_spec {S : Nat → Bool} (s : Sketch) {b sz l0 half : Nat} (coins : List Bool) (levels : List Nat)
    (hS : S b = true) (h1 : Heap) (hc : HasCells h1 b sz) (hle : l0 + half ≤ sz)
    (hraw : ∀ i, i < l0 → stAt h1 b i = .raw) (hnr : NonRawOn h1 b l0 (l0 + half)) (hl : LiveOn h1 b (l0 + half) sz) :
    SafeF S h1 (tail5 s b half l0 coins levels h1)
      (fun r h' => r = ({ s with levels := levels }, coins) ∧ SameBut h1 h' (fun b' _ => b' = b) ∧
        ItemsLive h' b (l0 + half) sz) := by
  unfold tail5
  apply vstep_destroyRange hc hle hnr hS
  intro h2 sb2 hr2
  apply SafeF.pure
  refine ⟨rfl, sb2.mono (fun _ _ x => x.1), sb2.cells _ _ hc, fun i hi => ?_, fun i h1' h2' => ?_⟩
  · by_cases e : i < l0
    · rw [sb2.st b i (fun x => by omega)]; exact hraw i e
    · exact hr2 i (by omega) hi
  · rw [sb2.st b i (fun x => by omega)]; exact hl i h1' h2'

theorem tail4_spec {S : Nat → Bool} (s : Sketch) {b sz l0 level rawBeg half : Nat} (coins : List Bool) (ls2 : List Nat)
    (hS : S b = true) (h1 : Heap) (hc : HasCells h1 b sz) (hlen : level < ls2.length)
    (hcur : ls2.getD level 0 = rawBeg + half) (hl0 : 0 < level → ls2.getD 0 0 = l0) (hl0' : level = 0 → rawBeg = l0)
    (h0b : l0 ≤ rawBeg) (hle : rawBeg + half ≤ sz) (hh : 1 ≤ half)
    (hraw : ∀ i, i < l0 → stAt h1 b i = .raw) (hlo : LiveOn h1 b l0 rawBeg)
    (hnr : NonRawOn h1 b rawBeg (rawBeg + half)) (hl : LiveOn h1 b (rawBeg + half) sz) :
    SafeF S h1 (tail4 s b level rawBeg half l0 coins ls2 h1)
      (fun r h' => (∃ ls3, r = ({ s with levels := ls3 }, coins) ∧ ls3.length = ls2.length ∧
          ∀ j, ls3.getD j 0 = if j < level then ls2.getD j 0 + half else ls2.getD j 0) ∧
        SameBut h1 h' (fun b' _ => b' = b) ∧ ItemsLive h' b (l0 + half) sz) := by
  unfold tail4
  apply step_lv hlen
  rw [if_neg (by rw [hcur]; simp)]
  by_cases hlv : level > 0
  · rw [if_pos hlv]
    simp only
    apply step_lv (by omega)
    rw [hl0 hlv]
    have e : l0 + (rawBeg - l0) = rawBeg := by omega
    apply vstep_shiftUp hc (by omega) hh (by rw [e]; exact hlo) (by rw [e]; exact hnr) hS
    intro h2 sb2 hl2 hn2
    rw [e] at sb2 hl2
    obtain ⟨ls3, e3, hlen3, hg3⟩ := shiftLevels_ok half level 0 ls2 (by omega)
    rw [e3, pure_bind_apply]
    have r := tail5_spec (S := S) s (sz := sz) coins ls3 hS h2 (sb2.cells _ _ hc) (by omega)
      (fun i hi => by rw [sb2.st b i (fun x => by omega)]; exact hraw i hi) hn2
      (fun j h1' h2' => by
        by_cases e' : j < rawBeg + half
        · exact hl2 j h1' e'
        · rw [sb2.st b j (fun x => by omega)]; exact hl j (by omega) h2')
    refine r.mono ?_
    intro r' h' ⟨er, sb', il⟩
    refine ⟨⟨ls3, er, hlen3, fun j => ?_⟩, (sb2.mono (fun _ _ x => x.1)).trans sb' (fun _ _ x => x) (fun _ _ x => x), il⟩
    rw [hg3 j]
    by_cases hj : j < level
    · rw [if_pos ⟨Nat.zero_le _, by omega⟩, if_pos hj]
    · rw [if_neg (by omega), if_neg hj]
  · rw [if_neg hlv, pure_bind_apply]
    have e0 : level = 0 := by omega
    have e1 := hl0' e0
    subst e1
    have r := tail5_spec (S := S) s (sz := sz) coins ls2 hS h1 hc hle hraw hnr hl
    refine r.mono ?_
    intro r' h' ⟨er, sb', il⟩
    refine ⟨⟨ls2, er, rfl, fun j => ?_⟩, sb', il⟩
    rw [if_neg (by omega)]


/-- the levels after the compaction of `level` -/
def CompLevels (ls ls3 : List Nat) (level rawBeg rawLim half : Nat) : Prop :=
  ls3.length = ls.length ∧
  ∀ j, ls3.getD j 0 = if j < level then ls.getD j 0 + half else if j = level then rawBeg + half
    else if j = level + 1 then rawLim - half else ls.getD j 0

theorem tail3_spec {S : Nat → Bool} (s : Sketch) {b sz l0 level rawBeg rawLim rawPop adjBeg half : Nat}
    (coins : List Bool) (hS : S b = true) (h1 : Heap) (hc : HasCells h1 b sz) (hlen : level + 1 < s.levels.length)
    (e0 : s.levels.getD 0 0 = l0) (eb : s.levels.getD level 0 = rawBeg) (el : s.levels.getD (level + 1) 0 = rawLim)
    (hpop : rawPop = rawLim - rawBeg) (h0b : l0 ≤ rawBeg) (hbl : rawBeg ≤ rawLim) (hlt : rawLim ≤ sz) (hh : 1 ≤ half)
    (hodd : rawPop % 2 = 1 → adjBeg = rawBeg + 1 ∧ 2 * half + 1 = rawPop)
    (hev : ¬ rawPop % 2 = 1 → adjBeg = rawBeg ∧ 2 * half = rawPop)
    (hraw : ∀ i, i < l0 → stAt h1 b i = .raw) (hlo : LiveOn h1 b l0 adjBeg)
    (hnr : NonRawOn h1 b adjBeg (adjBeg + half)) (hl : LiveOn h1 b (adjBeg + half) sz) :
    SafeF S h1 (tail3 s b level rawBeg rawPop half l0 coins h1)
      (fun r h' => (∃ ls3, r = ({ s with levels := ls3 }, coins) ∧ CompLevels s.levels ls3 level rawBeg rawLim half) ∧
        SameBut h1 h' (fun b' _ => b' = b) ∧ ItemsLive h' b (l0 + half) sz) := by
  unfold tail3
  apply step_lv hlen
  apply step_setLv _ hlen
  rw [el]
  generalize hls1 : s.levels.set (level + 1) (rawLim - half) = ls1
  have hlen1 : ls1.length = s.levels.length := by rw [← hls1]; simp
  have hg1 : ∀ j, ls1.getD j 0 = if j = level + 1 then rawLim - half else s.levels.getD j 0 := by
    intro j; rw [← hls1, getD_set]
    by_cases e : j = level + 1
    · rw [if_pos ⟨e, hlen⟩, if_pos e]
    · rw [if_neg (fun x => e x.1), if_neg e]
  -- what remains once `ls2` is known
  have fin : ∀ (ls2 : List Nat) (h2 : Heap), SameBut h1 h2 (fun b' _ => b' = b) → ls2 = ls1.set level (rawBeg + half) →
      (∀ i, i < l0 → stAt h2 b i = .raw) → LiveOn h2 b l0 rawBeg → NonRawOn h2 b rawBeg (rawBeg + half) → LiveOn h2 b (rawBeg + half) sz →
      SafeF S h2 (tail4 s b level rawBeg half l0 coins ls2 h2)
        (fun r h' => (∃ ls3, r = ({ s with levels := ls3 }, coins) ∧ CompLevels s.levels ls3 level rawBeg rawLim half) ∧
          SameBut h1 h' (fun b' _ => b' = b) ∧ ItemsLive h' b (l0 + half) sz) := by
    intro ls2 h2 sb2 els2 hraw2 a c d
    have hlen2 : ls2.length = s.levels.length := by rw [els2]; simp [hlen1]
    have hg2 : ∀ j, ls2.getD j 0 = if j = level then rawBeg + half else ls1.getD j 0 := by
      intro j; rw [els2, getD_set]
      by_cases e : j = level
      · rw [if_pos ⟨e, by omega⟩, if_pos e]
      · rw [if_neg (fun x => e x.1), if_neg e]
    have r := tail4_spec (S := S) s (sz := sz) (l0 := l0) (level := level) (rawBeg := rawBeg) (half := half) coins ls2 hS h2
      (sb2.cells _ _ hc) (by omega)
      (by rw [hg2, if_pos rfl])
      (fun hp => by rw [hg2, if_neg (by omega), hg1, if_neg (by omega)]; exact e0)
      (fun hp => by subst hp; rw [← eb, e0])
      h0b (by by_cases ho : rawPop % 2 = 1
              · have := hodd ho; omega
              · have := hev ho; omega) hh
      hraw2 a c d
    refine r.mono ?_
    intro r' h' ⟨⟨ls3, er, hlen3, hg3⟩, sb', il⟩
    refine ⟨⟨ls3, er, by rw [hlen3, hlen2], fun j => ?_⟩, sb2.trans sb' (fun _ _ x => x) (fun _ _ x => x), il⟩
    rw [hg3 j]
    by_cases hj : j < level
    · rw [if_pos hj, if_pos hj, hg2, if_neg (by omega), hg1, if_neg (by omega)]
    · rw [if_neg hj, if_neg hj, hg2]
      by_cases e : j = level
      · rw [if_pos e, if_pos e]
      · rw [if_neg e, if_neg e, hg1]
  by_cases ho : rawPop % 2 = 1
  · rw [if_pos ho]
    obtain ⟨ea, eh⟩ := hodd ho
    simp only
    apply step_lv (by omega)
    rw [hg1, if_pos rfl]
    apply step_setLv _ (by omega)
    have e1 : rawLim - half - 1 = rawBeg + half := by omega
    rw [e1]
    rw [if_pos (by omega)]
    obtain ⟨v, hv⟩ := hlo rawBeg h0b (by omega)
    apply vstep_moveAssignSlot hc (by omega) hv hc (by omega) (hnr _ (by omega) (by omega)) (fun x => by omega) hS hS
    intro h2 sb2 hd hs
    rw [pure_bind_apply]
    apply fin _ h2 (sb2.mono (fun _ _ x => by rcases x with x | x <;> exact x.1)) rfl
    · intro j hj
      rw [sb2.st b j (fun x => by rcases x with x | x <;> omega)]; exact hraw j hj
    · intro j h1' h2'
      rw [sb2.st b j (fun x => by rcases x with x | x <;> omega)]; exact hlo j h1' (by omega)
    · intro j h1' h2'
      by_cases e : j = rawBeg
      · subst e; rw [hs]; simp
      · rw [sb2.st b j (fun x => by rcases x with x | x <;> omega)]; exact hnr j (by omega) (by omega)
    · intro j h1' h2'
      by_cases e : j = rawBeg + half
      · subst e; exact ⟨v, hd⟩
      · rw [sb2.st b j (fun x => by rcases x with x | x <;> omega)]; exact hl j (by omega) h2'
  · rw [if_neg ho]
    obtain ⟨ea, eh⟩ := hev ho
    subst ea
    simp only
    apply step_lv (by omega)
    rw [hg1, if_pos rfl]
    apply step_setLv _ (by omega)
    have e1 : rawLim - half = adjBeg + half := by omega
    rw [e1]
    exact fin _ h1 (SameBut.refl _ _) rfl hraw hlo hnr hl


theorem nextCoin_le (coins : List Bool) : (nextCoin coins).1 ≤ 1 := by
  cases coins with
  | nil => simp [nextCoin]
  | cons c cs => cases c <;> simp [nextCoin]

theorem tail2_spec {S : Nat → Bool} (s : Sketch) {b sz l0 level rawBeg rawLim top rawPop adjBeg adjPop : Nat}
    (coins : List Bool) (hS : S b = true) (h1 : Heap) (hc : HasCells h1 b sz) (hlen : level + 1 < s.levels.length)
    (e0 : s.levels.getD 0 0 = l0) (eb : s.levels.getD level 0 = rawBeg) (el : s.levels.getD (level + 1) 0 = rawLim)
    (hpop : rawPop = rawLim - rawBeg) (h0b : l0 ≤ rawBeg) (hbl : rawBeg ≤ rawLim) (hlt : rawLim ≤ top) (hts : top ≤ sz)
    (hp2 : 2 ≤ rawPop)
    (hodd : rawPop % 2 = 1 → adjBeg = rawBeg + 1 ∧ adjPop + 1 = rawPop)
    (hev : ¬ rawPop % 2 = 1 → adjBeg = rawBeg ∧ adjPop = rawPop)
    (hraw : ∀ i, i < l0 → stAt h1 b i = .raw) (hl : LiveOn h1 b l0 sz) :
    SafeF S h1 (tail2 s b level rawBeg rawLim rawPop adjBeg adjPop (top - rawLim) l0 coins h1)
      (fun r h' => (∃ ls3, r = ({ s with levels := ls3 }, (nextCoin coins).2) ∧
          CompLevels s.levels ls3 level rawBeg rawLim (adjPop / 2)) ∧
        SameBut h1 h' (fun b' _ => b' = b) ∧ ItemsLive h' b (l0 + adjPop / 2) sz) := by
  unfold tail2
  have hcoin := nextCoin_le coins
  cases hnc : nextCoin coins with
  | mk coin coins' =>
  rw [hnc] at hcoin
  simp only at hcoin ⊢
  have hadj : adjBeg + adjPop = rawLim ∧ adjPop % 2 = 0 ∧ 2 ≤ adjPop ∧ rawBeg ≤ adjBeg := by
    by_cases ho : rawPop % 2 = 1
    · have := hodd ho; omega
    · have := hev ho; omega
  obtain ⟨ha1, ha2, ha3, ha4⟩ := hadj
  have hodd' : rawPop % 2 = 1 → adjBeg = rawBeg + 1 ∧ 2 * (adjPop / 2) + 1 = rawPop := fun ho => by
    have := hodd ho; omega
  have hev' : ¬ rawPop % 2 = 1 → adjBeg = rawBeg ∧ 2 * (adjPop / 2) = rawPop := fun ho => by
    have := hev ho; omega
  -- after the halving (and the merge with the level above)
  have fin : ∀ h2, SameBut h1 h2 (fun b' j => b' = b ∧ adjBeg ≤ j ∧ j < top) →
      NonRawOn h2 b adjBeg (adjBeg + adjPop / 2) → LiveOn h2 b (adjBeg + adjPop / 2) top →
      SafeF S h2 (tail3 s b level rawBeg rawPop (adjPop / 2) l0 coins' h2)
        (fun r h' => (∃ ls3, r = ({ s with levels := ls3 }, coins') ∧
            CompLevels s.levels ls3 level rawBeg rawLim (adjPop / 2)) ∧
          SameBut h1 h' (fun b' _ => b' = b) ∧ ItemsLive h' b (l0 + adjPop / 2) sz) := by
    intro h2 sb2 nr2 l2
    have r := tail3_spec (S := S) s (sz := sz) (l0 := l0) (rawLim := rawLim) (adjBeg := adjBeg) coins' hS h2
      (sb2.cells _ _ hc) hlen e0 eb el hpop h0b hbl (by omega) (by omega) hodd' hev'
      (fun i hi => by rw [sb2.st b i (fun x => by omega)]; exact hraw i hi)
      (fun j h1' h2' => by rw [sb2.st b j (fun x => by omega)]; exact hl j h1' (by omega)) nr2
      (fun j h1' h2' => by
        by_cases e : j < top
        · exact l2 j h1' e
        · rw [sb2.st b j (fun x => by omega)]; exact hl j (by omega) h2')
    refine r.mono ?_
    intro r' h' ⟨x, sb', il⟩
    exact ⟨x, (sb2.mono (fun _ _ y => y.1)).trans sb' (fun _ _ y => y) (fun _ _ y => y), il⟩
  have hlseg : LiveOn h1 b adjBeg (adjBeg + adjPop) := fun j h1' h2' => hl j (by omega) (by omega)
  by_cases hpa : top - rawLim = 0
  · rw [if_pos hpa]
    have et : top = rawLim := by omega
    subst et
    apply vstep_halveUp hc (by omega) hlseg hcoin hS
    intro h2 sb2 l2 n2
    exact fin h2 (sb2.mono (fun _ _ x => ⟨x.1, x.2.1, by omega⟩)) n2 (by rw [← ha1]; exact l2)
  · rw [if_neg hpa]
    apply vstep_halveDown hc (by omega) hlseg hcoin hS
    intro h2 sb2 l2 n2
    have e1 : rawLim = adjBeg + 2 * (adjPop / 2) := by omega
    have e2 : adjBeg + adjPop = adjBeg + 2 * (adjPop / 2) := by omega
    rw [e2] at n2
    have key : mergeInPlace b adjBeg (adjPop / 2) rawLim (top - rawLim) (adjBeg + adjPop / 2) =
        mergeInPlace b adjBeg (adjPop / 2) (adjBeg + 2 * (adjPop / 2)) (top - rawLim) (adjBeg + adjPop / 2) := by
      rw [← e1]
    rw [key]
    apply vstep_mergeInPlace (lenB := top - rawLim) (sb2.cells _ _ hc) (by omega) l2
      (fun j h1' h2' => by rw [sb2.st b j (fun x => by omega)]; exact hl j (by omega) (by omega)) n2 hS
    intro h3 sb3 l3 n3
    have e3 : adjBeg + 2 * (adjPop / 2) + (top - rawLim) = top := by omega
    rw [e3] at sb3 l3
    exact fin h3 ((sb2.mono (fun _ _ x => ⟨x.1, x.2.1, by omega⟩)).trans sb3 (fun _ _ x => x) (fun _ _ x => x)) n3 l3

end DS.Life.Kll

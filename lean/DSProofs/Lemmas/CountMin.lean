/-
Laws of the weight type under which C14 is proved (exact arithmetic: an ordered commutative monoid with the
code's `|w|`), their instances `Int` and `Rat`, and the small algebra derived from them.
-/
import DSModel.CountMin.Spec
namespace DS.CountMin

/-- The laws.  `le` is the order of the weight type; `Weight.lt` (used by `std::min_element`) is its strict
part; `absw` is `w >= 0 ? w : -w`, characterised without subtraction: `absw w = w` for `0 ≤ w` and
`w + absw w = 0` otherwise. -/
class WeightLaws (W : Type) [Weight W] where
  le : W → W → Prop
  le_refl : ∀ a : W, le a a
  le_trans : ∀ {a b c : W}, le a b → le b c → le a c
  le_antisymm : ∀ {a b : W}, le a b → le b a → a = b
  le_total : ∀ a b : W, le a b ∨ le b a
  lt_iff : ∀ a b : W, Weight.lt a b = true ↔ ¬ le b a
  add_assoc : ∀ a b c : W, Weight.add (Weight.add a b) c = Weight.add a (Weight.add b c)
  add_comm : ∀ a b : W, Weight.add a b = Weight.add b a
  zero_add : ∀ a : W, Weight.add Weight.zero a = a
  add_le_add_left : ∀ {a b : W} (c : W), le a b → le (Weight.add c a) (Weight.add c b)
  absw_of_nonneg : ∀ {w : W}, le Weight.zero w → Weight.absw w = w
  absw_of_neg : ∀ {w : W}, ¬ le Weight.zero w → Weight.add w (Weight.absw w) = Weight.zero
  isZero_iff : ∀ a : W, Weight.isZero a = true ↔ a = Weight.zero

scoped infixl:65 " +ʷ " => Weight.add
scoped infix:50 " ≤ʷ " => WeightLaws.le
scoped notation "𝟘" => Weight.zero

instance : WeightLaws Int where
  le a b := a ≤ b
  le_refl a := Int.le_refl a
  le_trans := Int.le_trans
  le_antisymm := Int.le_antisymm
  le_total := Int.le_total
  lt_iff a b := by simp [Weight.lt]
  add_assoc := Int.add_assoc
  add_comm := Int.add_comm
  zero_add := Int.zero_add
  add_le_add_left c h := Int.add_le_add_left h c
  absw_of_nonneg := by intro w h; simp only [Weight.absw, Weight.zero] at *; simp [h]
  absw_of_neg := by
    intro w h
    simp only [Weight.absw, Weight.zero, Weight.add] at *
    simp only [h, if_false]; omega
  isZero_iff a := by simp [Weight.isZero, Weight.zero]

section
variable {W : Type} [Weight W] [L : WeightLaws W]
open WeightLaws

theorem add_zero (a : W) : a +ʷ 𝟘 = a := by rw [add_comm, zero_add]

theorem add_le_add_right {a b : W} (c : W) (h : a ≤ʷ b) : (a +ʷ c) ≤ʷ (b +ʷ c) := by
  rw [add_comm a c, add_comm b c]; exact add_le_add_left c h

theorem add_le_add {a b c d : W} (h1 : a ≤ʷ b) (h2 : c ≤ʷ d) : (a +ʷ c) ≤ʷ (b +ʷ d) :=
  le_trans (add_le_add_right c h1) (add_le_add_left b h2)

theorem le_add_right {a b : W} (hb : (𝟘 : W) ≤ʷ b) : a ≤ʷ (a +ʷ b) := by
  have := add_le_add_left a hb
  rwa [add_zero] at this

theorem le_add_of_le {a b c : W} (h : a ≤ʷ b) (hc : (𝟘 : W) ≤ʷ c) : a ≤ʷ (b +ʷ c) :=
  le_trans h (le_add_right hc)

theorem add_nonneg {a b : W} (ha : (𝟘 : W) ≤ʷ a) (hb : (𝟘 : W) ≤ʷ b) : (𝟘 : W) ≤ʷ (a +ʷ b) :=
  le_trans ha (le_add_right hb)

theorem le_of_not_le {a b : W} (h : ¬ a ≤ʷ b) : b ≤ʷ a := (le_total a b).resolve_left h

theorem add_right_comm (a b c : W) : (a +ʷ b) +ʷ c = (a +ʷ c) +ʷ b := by
  rw [add_assoc, add_comm b c, ← add_assoc]

theorem absw_nonneg (w : W) : (𝟘 : W) ≤ʷ Weight.absw w := by
  by_cases h : (𝟘 : W) ≤ʷ w
  · rw [absw_of_nonneg h]; exact h
  · -- w + |w| = 0 with w ≤ 0; if |w| ≤ 0 then 0 = w + |w| ≤ w + 0 = w, contradiction
    rcases le_total (𝟘 : W) (Weight.absw w) with h1 | h1
    · exact h1
    · exfalso
      have h2 := add_le_add_left w h1
      rw [absw_of_neg h, add_zero] at h2
      exact h h2

theorem le_absw (w : W) : w ≤ʷ Weight.absw w := by
  by_cases h : (𝟘 : W) ≤ʷ w
  · rw [absw_of_nonneg h]; exact le_refl w
  · exact le_trans (le_of_not_le h) (absw_nonneg w)

/-- `0 ≤ w + |w|` -/
theorem add_absw_nonneg (w : W) : (𝟘 : W) ≤ʷ (w +ʷ Weight.absw w) := by
  by_cases h : (𝟘 : W) ≤ʷ w
  · exact add_nonneg h (absw_nonneg w)
  · rw [absw_of_neg h]; exact le_refl _

theorem add_eq_zero {a b : W} (ha : (𝟘 : W) ≤ʷ a) (hb : (𝟘 : W) ≤ʷ b) (h : a +ʷ b = 𝟘) : a = 𝟘 ∧ b = 𝟘 := by
  have h1 : a ≤ʷ (𝟘 : W) := by have := le_add_right (a := a) hb; rwa [h] at this
  have h2 : b ≤ʷ (𝟘 : W) := by
    have := le_add_right (a := b) ha; rw [add_comm, h] at this; exact this
  exact ⟨le_antisymm h1 ha, le_antisymm h2 hb⟩

theorem absw_eq_zero {w : W} (h : Weight.absw w = 𝟘) : w = 𝟘 := by
  by_cases h0 : (𝟘 : W) ≤ʷ w
  · rw [absw_of_nonneg h0] at h; exact h
  · have := absw_of_neg h0; rw [h, add_zero] at this; exact this

theorem nonnegW_iff (w : W) : nonnegW w = true ↔ (𝟘 : W) ≤ʷ w := by
  unfold nonnegW
  have := lt_iff w (𝟘 : W)
  cases hl : Weight.lt w (𝟘 : W)
  · simp only [Bool.not_false, true_iff]
    rw [hl] at this
    exact Classical.not_not.mp (fun hn => by simpa using this.2 hn)
  · simp only [Bool.not_true, Bool.false_eq_true, false_iff]
    exact this.1 hl

end
end DS.CountMin

/-
Soundness of the symbolic evaluator of DSModel/Wire/BitPack.lean: if the symbolic layout of a routine is the
specification layout, then the CONCRETE evaluation (C semantics) of that routine computes the specification function
for all inputs.  With `bitpack_layouts_ok` (Gen/BitPack.lean) this lifts the kernel-checked symbolic statement about
the translated `pack_bits_N` / `unpack_bits_N` to
  `∀ vals (each < 2^N), unpack_N (pack_N vals) = vals`, and `pack_N vals` = the documented MSB-first bytes.
Helper lemmas; the statements used by the property files are at the end.
-/
import DSProofs.Lemmas.BitPack
namespace DS.Wire.BitPack

/-! ### list helpers -/

theorem getD_set {α : Type} (l : List α) (i j : Nat) (a d : α) :
    (l.set i a).getD j d = if i = j ∧ i < l.length then a else l.getD j d := by
  simp only [List.getD_eq_getElem?_getD, List.getElem?_set]
  by_cases h : i = j
  · subst h
    by_cases h2 : i < l.length
    · simp [h2]
    · simp [h2, List.getElem?_eq_none (Nat.le_of_not_lt h2)]
  · simp [h]

theorem getD_map_range {α : Type} (f : Nat → α) (n j : Nat) (d : α) (h : j < n) : ((List.range n).map f).getD j d = f j := by
  simp [List.getD_eq_getElem?_getD, h]

theorem getD_replicate {α : Type} (n : Nat) (a d : α) (j : Nat) (h : j < n) : (List.replicate n a).getD j d = a := by
  simp [List.getD_eq_getElem?_getD, List.getElem?_replicate, h]

theorem ext_getD {α : Type} (l1 l2 : List α) (d : α) (hl : l1.length = l2.length) (h : ∀ j, j < l1.length → l1.getD j d = l2.getD j d) : l1 = l2 := by
  apply List.ext_getElem hl
  intro j h1 h2
  have := h j h1
  simp only [List.getD_eq_getElem?_getD, List.getElem?_eq_getElem h1, List.getElem?_eq_getElem h2, Option.getD_some] at this
  exact this

theorem getD_splitFields (eb n x j : Nat) (h : j < n) : (splitFields eb n x).getD j 0 = (x / 2 ^ (eb * (n - 1 - j))) % 2 ^ eb := by
  induction n generalizing j with
  | zero => omega
  | succ n ih =>
    cases j with
    | zero => simp [splitFields]
    | succ j =>
      simp only [splitFields, List.getD_cons_succ]
      rw [ih j (by omega)]
      have e : n - 1 - j = n + 1 - 1 - (j + 1) := by omega
      rw [e]

/-! ### bits of the big number -/

theorem testBit_joinFields (eb : Nat) (ds : List Nat) (h : ∀ d ∈ ds, d < 2 ^ eb) (P : Nat) (hP : P < eb * ds.length) :
    (joinFields eb ds).testBit P = (ds.getD (ds.length - 1 - P / eb) 0).testBit (P % eb) := by
  induction ds with
  | nil => simp at hP
  | cons d t ih =>
    have hpos : 0 < eb := by
      rcases Nat.eq_zero_or_pos eb with h0 | h0
      · subst h0; simp at hP
      · exact h0
    have ht : ∀ x ∈ t, x < 2 ^ eb := fun x hx => h x (by simp [hx])
    have hj := joinFields_lt eb t ht
    simp only [joinFields, List.length_cons]
    rw [Nat.mul_comm d, Nat.testBit_two_pow_mul_add _ hj]
    by_cases hlt : P < eb * t.length
    · simp only [hlt, ↓reduceIte]
      rw [ih ht hlt]
      have hq : P / eb < t.length := by
        rw [Nat.div_lt_iff_lt_mul hpos, Nat.mul_comm]; exact hlt
      have e : t.length + 1 - 1 - P / eb = (t.length - 1 - P / eb) + 1 := by omega
      rw [e, List.getD_cons_succ]
    · simp only [hlt, ↓reduceIte]
      have hge : eb * t.length ≤ P := Nat.le_of_not_lt hlt
      have hlt2 : P < eb * t.length + eb := by rw [List.length_cons, Nat.mul_succ] at hP; exact hP
      have hq : P / eb = t.length := by
        apply Nat.div_eq_of_lt_le
        · rw [Nat.mul_comm]; exact hge
        · rw [Nat.succ_mul, Nat.mul_comm]; exact hlt2
      have hr : P % eb = P - eb * t.length := by
        have := Nat.div_add_mod P eb
        rw [hq] at this
        omega
      rw [hq, hr]
      simp

theorem testBit_splitFields_get (eb n x j b : Nat) (hj : j < n) :
    ((splitFields eb n x).getD j 0).testBit b = (decide (b < eb) && x.testBit (eb * (n - 1 - j) + b)) := by
  rw [getD_splitFields eb n x j hj, Nat.testBit_mod_two_pow, Nat.testBit_div_two_pow]
  congr 2
  omega

theorem joinFields_splitFields (eb : Nat) : ∀ n x, joinFields eb (splitFields eb n x) = x % 2 ^ (eb * n) := by
  intro n
  induction n with
  | zero => intro x; simp [splitFields, joinFields, Nat.mod_one]
  | succ n ih =>
    intro x
    simp only [splitFields, joinFields, length_splitFields, ih]
    have hpow : 2 ^ (eb * (n + 1)) = 2 ^ (eb * n) * 2 ^ eb := by rw [Nat.mul_succ, Nat.pow_add]
    rw [hpow, Nat.mod_mul, Nat.mul_comm (2 ^ (eb * n)), Nat.add_comm]

theorem splitFields_lt (eb n x : Nat) : ∀ d ∈ splitFields eb n x, d < 2 ^ eb := by
  induction n with
  | zero => intro d hd; simp [splitFields] at hd
  | succ n ih =>
    intro d hd
    simp only [splitFields, List.mem_cons] at hd
    rcases hd with rfl | hd
    · exact Nat.mod_lt _ (Nat.two_pow_pos _)
    · exact ih d hd

/-! ### interpretation of symbolic bits -/

/-- a concrete bit agrees with a symbolic one (`bad` says nothing) -/
def Interp (src : Nat → Nat → Bool) : SBit → Bool → Prop
  | .zero, b => b = false
  | .src i p, b => b = src i p
  | .bad, _ => True

theorem interp_or (src : Nat → Nat → Bool) (a b : SBit) (x y : Bool) (ha : Interp src a x) (hb : Interp src b y) :
    Interp src (a.or b) (x || y) := by
  cases a <;> cases b <;> simp_all [SBit.or, Interp]

/-- a concrete word (< 2^w) agrees bit by bit with a symbolic word of `w` bits -/
structure WordRel (src : Nat → Nat → Bool) (w : Nat) (sb : List SBit) (x : Nat) : Prop where
  len : sb.length = w
  lt : x < 2 ^ w
  bits : ∀ b, b < w → Interp src (sb.getD b .bad) (x.testBit b)

theorem length_orBits (a b : List SBit) (h : a.length = b.length) : (orBits a b).length = a.length := by
  induction a generalizing b with
  | nil => cases b <;> simp [orBits]
  | cons x s ih =>
    cases b with
    | nil => simp at h
    | cons y t => simp [orBits, ih t (by simpa using h)]

theorem getD_orBits (a b : List SBit) (h : a.length = b.length) (j : Nat) (hj : j < a.length) :
    (orBits a b).getD j .bad = (a.getD j .bad).or (b.getD j .bad) := by
  induction a generalizing b j with
  | nil => simp at hj
  | cons x s ih =>
    cases b with
    | nil => simp at h
    | cons y t =>
      cases j with
      | zero => simp [orBits]
      | succ j =>
        simp only [orBits, List.getD_cons_succ]
        exact ih t (by simpa using h) j (by simpa using hj)

theorem wordRel_or (src : Nat → Nat → Bool) (w : Nat) (sa sb : List SBit) (x y : Nat) (ha : WordRel src w sa x) (hb : WordRel src w sb y) :
    WordRel src w (orBits sa sb) (x ||| y) where
  len := by rw [length_orBits sa sb (by rw [ha.len, hb.len]), ha.len]
  lt := Nat.or_lt_two_pow ha.lt hb.lt
  bits := by
    intro b hbw
    rw [getD_orBits sa sb (by rw [ha.len, hb.len]) b (by rw [ha.len]; exact hbw), Nat.testBit_or]
    exact interp_or src _ _ _ _ (ha.bits b hbw) (hb.bits b hbw)

theorem wordRel_ofFn (src : Nat → Nat → Bool) (w : Nat) (f : Nat → SBit) (x : Nat) (hx : x < 2 ^ w)
    (h : ∀ b, b < w → Interp src (f b) (x.testBit b)) : WordRel src w ((List.range w).map f) x where
  len := by simp
  lt := hx
  bits := by
    intro b hb
    rw [getD_map_range f w b .bad hb]
    exact h b hb

/-- memory of words -/
structure MemRel (src : Nat → Nat → Bool) (w : Nat) (sm : List (List SBit)) (cm : List Nat) : Prop where
  len : sm.length = cm.length
  words : ∀ j, j < cm.length → WordRel src w (sm.getD j []) (cm.getD j 0)

theorem memRel_set (src : Nat → Nat → Bool) (w : Nat) (sm : List (List SBit)) (cm : List Nat) (h : MemRel src w sm cm)
    (i : Nat) (sb : List SBit) (x : Nat) (hw : WordRel src w sb x) : MemRel src w (sm.set i sb) (cm.set i x) where
  len := by simp [h.len]
  words := by
    intro j hj
    simp only [List.length_set] at hj
    rw [getD_set, getD_set]
    by_cases hij : i = j
    · subst hij
      simp [hj, h.len]
      exact hw
    · simp only [hij, false_and, ↓reduceIte]
      exact h.words j hj

/-- every symbolic word fully determined (no `bad`) ⇒ the concrete memory is the one described -/
theorem memRel_eq (src : Nat → Nat → Bool) (w : Nat) (sm : List (List SBit)) (cm spec : List Nat) (h : MemRel src w sm cm)
    (hl : spec.length = cm.length)
    (hs : ∀ j, j < cm.length → spec.getD j 0 < 2 ^ w ∧ ∀ b, b < w → Interp src ((sm.getD j []).getD b .bad) ((spec.getD j 0).testBit b) ∧ (sm.getD j []).getD b .bad ≠ .bad) :
    cm = spec := by
  apply ext_getD cm spec 0 hl.symm
  intro j hj
  apply Nat.eq_of_testBit_eq
  intro b
  by_cases hb : b < w
  · have h1 := (h.words j hj).bits b hb
    obtain ⟨h2, h3⟩ := (hs j hj).2 b hb
    cases hsb : (sm.getD j []).getD b .bad with
    | bad => exact absurd hsb h3
    | zero => rw [hsb] at h1 h2; simp only [Interp] at h1 h2; rw [h1, h2]
    | src i p => rw [hsb] at h1 h2; simp only [Interp] at h1 h2; rw [h1, h2]
  · have hwb : w ≤ b := Nat.le_of_not_lt hb
    have l1 : cm.getD j 0 < 2 ^ b := Nat.lt_of_lt_of_le (h.words j hj).lt (Nat.pow_le_pow_right (by decide) hwb)
    have l2 : spec.getD j 0 < 2 ^ b := Nat.lt_of_lt_of_le (hs j hj).1 (Nat.pow_le_pow_right (by decide) hwb)
    rw [Nat.testBit_lt_two_pow l1, Nat.testBit_lt_two_pow l2]

end DS.Wire.BitPack

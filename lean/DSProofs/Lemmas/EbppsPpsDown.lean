/- One-step PPS identity for `downsample` (C18): averaging over the unit draw (region lengths) and over uniform index
draws, every item's inclusion probability is multiplied by `theta`. -/
import DSProofs.Lemmas.EbppsPps
namespace DS.Ebpps

/-! ### finite averages (uniform index draws) -/

/-- `f 0 + … + f (n-1)` -/
def sumTo : Nat → (Nat → Rat) → Rat
  | 0, _ => 0
  | n + 1, f => sumTo n f + f n

/-- expectation of `f j` for `j` uniform on `[0, n)` (what `random_idx(n)` draws) -/
def avg (n : Nat) (f : Nat → Rat) : Rat := sumTo n f / n

theorem sumTo_congr {n : Nat} {f g : Nat → Rat} (h : ∀ j, j < n → f j = g j) : sumTo n f = sumTo n g := by
  induction n with
  | zero => rfl
  | succ n ih => simp only [sumTo]; rw [ih (fun j hj => h j (by omega)), h n (by omega)]

theorem sumTo_add (n : Nat) (f g : Nat → Rat) : sumTo n (fun j => f j + g j) = sumTo n f + sumTo n g := by
  induction n with
  | zero => simp [sumTo]
  | succ n ih => simp only [sumTo]; rw [ih]; ring

theorem sumTo_mul (n : Nat) (a : Rat) (f : Nat → Rat) : sumTo n (fun j => a * f j) = a * sumTo n f := by
  induction n with
  | zero => simp [sumTo]
  | succ n ih => simp only [sumTo]; rw [ih]; ring

theorem sumTo_const (n : Nat) (a : Rat) : sumTo n (fun _ => a) = n * a := by
  induction n with
  | zero => simp [sumTo]
  | succ n ih => simp only [sumTo]; rw [ih]; push_cast; ring

theorem sumTo_succ' (n : Nat) (f : Nat → Rat) : sumTo (n + 1) f = f 0 + sumTo n (fun j => f (j + 1)) := by
  induction n with
  | zero => simp [sumTo]
  | succ n ih => rw [sumTo, ih]; simp only [sumTo]; ring

theorem avg_congr {n : Nat} {f g : Nat → Rat} (h : ∀ j, j < n → f j = g j) : avg n f = avg n g := by
  unfold avg; rw [sumTo_congr h]

theorem avg_affine (n : Nat) (hn : 0 < n) (a b : Rat) (f : Nat → Rat) : avg n (fun j => a * f j + b) = a * avg n f + b := by
  unfold avg
  rw [sumTo_add, sumTo_mul, sumTo_const]
  have : (n : Rat) ≠ 0 := by positivity
  field_simp

/-- indicator -/
def ind (p : Prop) [Decidable p] : Rat := if p then 1 else 0

/-- number of positions holding `x` -/
theorem sumTo_ind_getD (l : List Nat) (x : Nat) : sumTo l.length (fun j => ind (l.getD j 0 = x)) = (l.count x : Rat) := by
  induction l with
  | nil => simp [sumTo]
  | cons a t ih =>
    rw [List.length_cons, sumTo_succ']
    simp only [List.getD_cons_zero, List.getD_cons_succ]
    rw [ih, List.count_cons]
    unfold ind
    by_cases h : a = x
    · simp [h]; ring
    · simp [h]

theorem avg_ind_getD (l : List Nat) (x : Nat) : avg l.length (fun j => ind (l.getD j 0 = x)) = (l.count x : Rat) / l.length := by
  unfold avg; rw [sumTo_ind_getD]

/-! ### effect of one index choice on the counts -/

theorem count_set_add (l : List Nat) (j p x : Nat) (hj : j < l.length) :
    ((l.set j p).count x : Rat) + ind (l.getD j 0 = x) = (l.count x : Rat) + ind (p = x) := by
  induction l generalizing j with
  | nil => simp at hj
  | cons a t ih =>
    cases j with
    | zero =>
      simp only [List.set_cons_zero, List.getD_cons_zero, List.count_cons]
      unfold ind
      by_cases h1 : p = x <;> by_cases h2 : a = x <;> simp [h1, h2]
    | succ j =>
      simp only [List.set_cons_succ, List.getD_cons_succ, List.count_cons]
      have := ih j (by simpa using hj)
      push_cast
      linarith

theorem count_pickSwap (l : List Nat) (j x : Nat) (hj : j < l.length) :
    ((pickSwap l j).2.count x : Rat) + ind (l.getD j 0 = x) = (l.count x : Rat) := by
  unfold pickSwap
  cases l with
  | nil => simp at hj
  | cons a t =>
    cases j with
    | zero => by_cases h : a = x <;> simp [ind, h]
    | succ j =>
      simp only [List.headD_cons, List.set_cons_succ, List.tail_cons, List.getD_cons_succ, List.count_cons]
      have := count_set_add t j a x (by simpa using hj)
      unfold ind at this ⊢
      push_cast
      by_cases h : a = x <;> simp [h] at this ⊢ <;> linarith

theorem count_dropLast (t : List Nat) (x : Nat) (h : t ≠ []) :
    (t.dropLast.count x : Rat) + ind (t.getD (t.length - 1) 0 = x) = (t.count x : Rat) := by
  induction t with
  | nil => exact absurd rfl h
  | cons b t' ih =>
    cases t' with
    | nil => simp [ind]; by_cases hb : b = x <;> simp [hb]
    | cons c t'' =>
      have := ih (by simp)
      simp only [List.dropLast_cons_cons, List.count_cons, List.length_cons] at this ⊢
      have e : (b :: c :: t'').getD (t''.length + 1 + 1 - 1) 0 = (c :: t'').getD (t''.length + 1 - 1) 0 := by
        simp
      simp only [e]
      push_cast at this ⊢
      linarith

theorem length_pickSwap (l : List Nat) (j : Nat) : (pickSwap l j).2.length = l.length - 1 := by
  unfold pickSwap; simp

/-! ### one index draw: swap_with_partial / move_one_to_partial with an explicit index -/

/-- inclusion probability from the components of a sample (`phi` = fractional part of `c`) -/
def inclF (data : List Nat) (part : Option Nat) (phi : Rat) (x : Nat) : Rat :=
  (data.count x : Rat) + (if part = some x then phi else 0)

theorem incl_eq_inclF (s : Sample Rat) (x : Nat) : incl s x = inclF s.data s.part (s.c - ((s.c.floor : Int) : Rat)) x := rfl

theorem inclF_some (data : List Nat) (q : Nat) (phi : Rat) (x : Nat) :
    inclF data (some q) phi x = (data.count x : Rat) + phi * ind (q = x) := by
  unfold inclF ind
  by_cases h : q = x <;> simp [h]

/-- a uniformly chosen full item is swapped with the partial item `p` -/
theorem avg_swap (data : List Nat) (p x : Nat) (phi : Rat) (hm : 0 < data.length) :
    avg data.length (fun j => inclF (data.set j p) (some (data.getD j 0)) phi x) =
      (data.count x : Rat) + ind (p = x) + (phi - 1) * ((data.count x : Rat) / data.length) := by
  have e : ∀ j, j < data.length → inclF (data.set j p) (some (data.getD j 0)) phi x =
      (phi - 1) * ind (data.getD j 0 = x) + ((data.count x : Rat) + ind (p = x)) := by
    intro j hj
    rw [inclF_some]
    have := count_set_add data j p x hj
    linarith
  rw [avg_congr e, avg_affine _ hm, avg_ind_getD]; ring

theorem getD_set_last (data : List Nat) (j : Nat) (hj : j < data.length) :
    (data.set j (data.getD (data.length - 1) 0)).getD (data.length - 1) 0 = data.getD (data.length - 1) 0 := by
  simp only [List.getD_eq_getElem?_getD, List.getElem?_set]
  by_cases h : j = data.length - 1
  · have hpos : 0 < data.length := by omega
    simp [h, hpos]
  · simp [h]

/-- a uniformly chosen full item is moved to the (empty) partial slot -/
theorem avg_move (data : List Nat) (x : Nat) (phi : Rat) (hm : 0 < data.length) :
    avg data.length (fun j => inclF ((data.set j (data.getD (data.length - 1) 0)).dropLast) (some (data.getD j 0)) phi x) =
      (data.count x : Rat) + (phi - 1) * ((data.count x : Rat) / data.length) := by
  have e : ∀ j, j < data.length →
      inclF ((data.set j (data.getD (data.length - 1) 0)).dropLast) (some (data.getD j 0)) phi x =
      (phi - 1) * ind (data.getD j 0 = x) + (data.count x : Rat) := by
    intro j hj
    rw [inclF_some]
    have h1 := count_set_add data j (data.getD (data.length - 1) 0) x hj
    have hne : data.set j (data.getD (data.length - 1) 0) ≠ [] := by
      intro h0
      have h3 : (data.set j (data.getD (data.length - 1) 0)).length = 0 := by rw [h0]; rfl
      rw [List.length_set] at h3; omega
    have h2 := count_dropLast (data.set j (data.getD (data.length - 1) 0)) x hne
    rw [List.length_set, getD_set_last data j hj] at h2
    linarith
  rw [avg_congr e, avg_affine _ hm, avg_ind_getD]; ring

/-! ### the model's primitives on explicit index draws -/

theorem swapWith_some_cons (data : List Nat) (p j : Nat) (us : List Rat) (js : List Nat) :
    swapWithPartial data (some p) ⟨us, j :: js⟩ =
      (data.set (j % data.length) p, some (data.getD (j % data.length) 0), ⟨us, js⟩) := rfl

theorem moveOne_cons (data : List Nat) (j : Nat) (us : List Rat) (js : List Nat) :
    moveOneToPartial data ⟨us, j :: js⟩ =
      ((data.set (j % data.length) (data.getD (data.length - 1) 0)).dropLast, some (data.getD (j % data.length) 0), ⟨us, js⟩) := rfl

theorem swapWith_none (data : List Nat) (d : Draws Rat) : swapWithPartial data none d = moveOneToPartial data d := rfl

/-! ### several index draws: expectation over independent uniform draws with the given bounds -/

/-- expectation of `g [j₀, j₁, …]` for independent `jᵢ` uniform on `[0, bᵢ)` -/
def expIdx : List Nat → (List Nat → Rat) → Rat
  | [], g => g []
  | b :: bs, g => avg b (fun j => expIdx bs (fun js => g (j :: js)))

/-- `js` is a possible outcome of draws with bounds `bs` -/
def InB : List Nat → List Nat → Prop
  | [], js => js = []
  | b :: bs, js => ∃ j rest, js = j :: rest ∧ j < b ∧ InB bs rest

theorem expIdx_congr : ∀ (bs : List Nat) {g h : List Nat → Rat}, (∀ js, InB bs js → g js = h js) → expIdx bs g = expIdx bs h
  | [], g, h, e => e [] rfl
  | b :: bs, g, h, e => by
    simp only [expIdx]
    apply avg_congr
    intro j hj
    exact expIdx_congr bs (fun js hjs => e (j :: js) ⟨j, js, rfl, hj, hjs⟩)

theorem expIdx_affine : ∀ (bs : List Nat), (∀ b ∈ bs, 0 < b) → ∀ (a c : Rat) (g : List Nat → Rat),
    expIdx bs (fun js => a * g js + c) = a * expIdx bs g + c
  | [], _, a, c, g => rfl
  | b :: bs, hp, a, c, g => by
    simp only [expIdx]
    have ih : ∀ j, expIdx bs (fun js => a * g (j :: js) + c) = a * expIdx bs (fun js => g (j :: js)) + c :=
      fun j => expIdx_affine bs (fun b' hb' => hp b' (by simp [hb'])) a c (fun js => g (j :: js))
    rw [avg_congr (fun j _ => ih j), avg_affine _ (hp b (by simp))]

theorem expIdx_append : ∀ (bs1 bs2 : List Nat) (g : List Nat → Rat),
    expIdx (bs1 ++ bs2) g = expIdx bs1 (fun js1 => expIdx bs2 (fun js2 => g (js1 ++ js2)))
  | [], bs2, g => rfl
  | b :: bs1, bs2, g => by
    simp only [List.cons_append, expIdx]
    apply avg_congr
    intro j _
    exact expIdx_append bs1 bs2 (fun js => g (j :: js))

/-- bounds of the draws of the partial Fisher–Yates loop: `n, n-1, …` (`m` of them) -/
def subB : Nat → Nat → List Nat
  | 0, _ => []
  | m + 1, n => n :: subB m (n - 1)

theorem subB_pos : ∀ (m n : Nat), m ≤ n → ∀ b ∈ subB m n, 0 < b
  | 0, _, _, b, hb => by simp [subB] at hb
  | m + 1, n, h, b, hb => by
    simp only [subB, List.mem_cons] at hb
    rcases hb with rfl | hb
    · omega
    · exact subB_pos m (n - 1) (by omega) b hb

/-- the loop on explicit indices -/
def subAt : Nat → List Nat → List Nat → List Nat
  | 0, _, _ => []
  | _ + 1, _, [] => []
  | m + 1, l, j :: js => (pickSwap l j).1 :: subAt m (pickSwap l j).2 js

theorem subsampleGo_append : ∀ (m : Nat) (l : List Nat) (us : List Rat) (js1 js2 : List Nat), InB (subB m l.length) js1 →
    subsampleGo m l (⟨us, js1 ++ js2⟩ : Draws Rat) = (subAt m l js1, ⟨us, js2⟩)
  | 0, l, us, js1, js2, h => by
    simp only [subB, InB] at h; subst h; rfl
  | m + 1, l, us, js1, js2, h => by
    simp only [subB, InB] at h
    obtain ⟨j, rest, rfl, hj, hrest⟩ := h
    have hlen : (pickSwap l j).2.length = l.length - 1 := length_pickSwap l j
    have ih := subsampleGo_append m (pickSwap l j).2 us rest js2 (by rw [hlen]; exact hrest)
    simp only [subsampleGo, Draws.below, List.cons_append, Nat.mod_eq_of_lt hj, subAt]
    rw [ih]

theorem length_subAt : ∀ (m : Nat) (l : List Nat) (js : List Nat), InB (subB m l.length) js → (subAt m l js).length = m
  | 0, _, _, _ => rfl
  | m + 1, l, js, h => by
    simp only [subB, InB] at h
    obtain ⟨j, rest, rfl, hj, hrest⟩ := h
    simp only [subAt, List.length_cons]
    rw [length_subAt m _ rest (by rw [length_pickSwap]; exact hrest)]

/-- uniformity of the partial Fisher–Yates shuffle: the expected number of occurrences of `x` among the `m` selected
items is `m/n` times their number in the list. -/
theorem exp_count_subAt : ∀ (m : Nat) (l : List Nat) (x : Nat), m ≤ l.length →
    expIdx (subB m l.length) (fun js => ((subAt m l js).count x : Rat)) = (m : Rat) * (l.count x : Rat) / l.length
  | 0, l, x, _ => by simp [subB, expIdx, subAt]
  | m + 1, l, x, h => by
    have hn : 0 < l.length := by omega
    simp only [subB, expIdx]
    have step : ∀ j, j < l.length →
        expIdx (subB m (l.length - 1)) (fun js => ((subAt (m + 1) l (j :: js)).count x : Rat)) =
        (1 - (m : Rat) / ((l.length : Rat) - 1)) * ind (l.getD j 0 = x) + (m : Rat) * (l.count x : Rat) / ((l.length : Rat) - 1) := by
      intro j hj
      have hlen : (pickSwap l j).2.length = l.length - 1 := length_pickSwap l j
      have ih := exp_count_subAt m (pickSwap l j).2 x (by rw [hlen]; omega)
      rw [hlen] at ih
      have e1 : ∀ js, ((subAt (m + 1) l (j :: js)).count x : Rat) =
          1 * ((subAt m (pickSwap l j).2 js).count x : Rat) + ind (l.getD j 0 = x) := by
        intro js
        simp only [subAt, List.count_cons, pickSwap, ind]
        by_cases hx : l.getD j 0 = x <;> simp
      rw [expIdx_congr _ (fun js _ => e1 js), expIdx_affine _ (subB_pos m (l.length - 1) (by omega)), ih]
      have hc := count_pickSwap l j x hj
      have hcast : ((l.length - 1 : Nat) : Rat) = (l.length : Rat) - 1 := by
        rw [Nat.cast_sub (by omega)]; simp
      rw [hcast]
      have : ((pickSwap l j).2.count x : Rat) = (l.count x : Rat) - ind (l.getD j 0 = x) := by linarith
      rw [this]
      by_cases hm : m = 0
      · subst hm; simp
      · have hne : (l.length : Rat) - 1 ≠ 0 := by
          have : (2 : Rat) ≤ l.length := by exact_mod_cast (by omega : 2 ≤ l.length)
          linarith
        field_simp
        ring
    rw [avg_congr step, avg_affine _ hn, avg_ind_getD]
    have hne0 : (l.length : Rat) ≠ 0 := by positivity
    by_cases hm : m = 0
    · subst hm; simp
    · have hne : (l.length : Rat) - 1 ≠ 0 := by
        have : (2 : Rat) ≤ l.length := by exact_mod_cast (by omega : 2 ≤ l.length)
        linarith
      push_cast
      field_simp
      ring

/-! ### downsample: outcomes per region of the unit draw and their expected inclusion -/

variable {P : Nat → Prop}

theorem incl_pr (c' : Rat) (d' : List Nat) (q x : Nat) :
    incl ⟨c', d', if c' = ((c'.floor : Int) : Rat) then none else some q⟩ x = inclF d' (some q) (c' - ((c'.floor : Int) : Rat)) x := by
  unfold incl inclF
  by_cases h : c' = ((c'.floor : Int) : Rat)
  · rw [if_pos h]
    have : c' - ((c'.floor : Int) : Rat) = 0 := by linarith
    simp [this]
  · rw [if_neg h]

theorem unit_single (u : Rat) (js : List Nat) : (Draws.unit (⟨[u], js⟩ : Draws Rat)) = (u, ⟨[], js⟩) := rfl

/-- Case "no full item retained" (`⌊theta·c⌋ = 0`): threshold `t = frac(c)/c`; below it the partial item stays, above it a
uniformly chosen full item becomes the partial item. -/
theorem downsample_pps_case1 {ge : Bool} {s : Sample Rat} {theta : Rat} (hs : SInv P s) (hc : 0 < s.c) (ht0 : 0 < theta)
    (ht1 : theta < 1) (hni : (theta * s.c).floor = 0) :
    let t := (s.c - ((s.c.floor : Int) : Rat)) / s.c
    0 ≤ t ∧ t ≤ 1 ∧
    (∀ u js, u < t → (downsample ge s theta ⟨[u], js⟩).1 = ⟨theta * s.c, [], s.part⟩) ∧
    (∀ u js, t < u → (downsample ge s theta ⟨[u], js⟩).1 =
        ⟨theta * s.c, [], (swapWithPartial s.data s.part (⟨[], js⟩ : Draws Rat)).2.1⟩) ∧
    ∀ x, t * incl ⟨theta * s.c, [], s.part⟩ x +
         (1 - t) * expIdx [s.data.length] (fun js => incl ⟨theta * s.c, [], (swapWithPartial s.data s.part (⟨[], js⟩ : Draws Rat)).2.1⟩ x)
        = theta * incl s x := by
  intro t
  obtain ⟨_, hl, hp, -, -⟩ := hs
  have a1 := fl_le s.c
  have a2 := lt_fl_add_one s.c
  have hnc : 0 < theta * s.c := mul_pos ht0 hc
  have ht_0 : 0 ≤ t := div_nonneg (by linarith) (le_of_lt hc)
  have ht_1 : t ≤ 1 := (div_le_one hc).2 (by
    have : (0 : Rat) ≤ ((s.c.floor : Int) : Rat) := by exact_mod_cast floor_nonneg' (le_of_lt hc)
    linarith)
  have hne' : ¬ theta * s.c = 0 := ne_of_gt hnc
  have hunf : ∀ u js, (downsample ge s theta ⟨[u], js⟩).1 =
      ⟨theta * s.c, [], (if drawAbove ge u t then swapWithPartial s.data s.part (⟨[], js⟩ : Draws Rat) else (s.data, s.part, (⟨[], js⟩ : Draws Rat))).2.1⟩ := by
    intro u js
    rw [downsample_eq, downsampleCases_eq]
    simp only [rat_le, rat_one, rat_eq, rat_floor, rat_zero, decide_eq_true_eq, not_le.2 ht1, if_false, hni, Int.cast_zero,
      if_true, unit_single, hne']
    rfl
  refine ⟨ht_0, ht_1, ?_, ?_, ?_⟩
  · intro u js hu
    have hna : drawAbove ge u t = false := by unfold drawAbove; cases ge <;> simp <;> linarith
    rw [hunf, hna]; simp
  · intro u js hu
    have hab : drawAbove ge u t = true := by unfold drawAbove; cases ge <;> simp <;> linarith
    rw [hunf, hab]; simp
  · intro x
    -- every index draw j < n makes data[j] the partial item
    have hE : expIdx [s.data.length] (fun js => incl ⟨theta * s.c, [], (swapWithPartial s.data s.part (⟨[], js⟩ : Draws Rat)).2.1⟩ x) =
        avg s.data.length (fun j => theta * s.c * ind (s.data.getD j 0 = x)) := by
      simp only [expIdx]
      apply avg_congr
      intro j hj
      have hpart : (swapWithPartial s.data s.part (⟨[], [j]⟩ : Draws Rat)).2.1 = some (s.data.getD j 0) := by
        cases hsp : s.part with
        | none => rw [swapWith_none, moveOne_cons, Nat.mod_eq_of_lt hj]
        | some p => rw [swapWith_some_cons, Nat.mod_eq_of_lt hj]
      rw [hpart]
      unfold incl ind
      simp only [List.count_nil, Nat.cast_zero, zero_add, hni, Int.cast_zero, sub_zero, Option.some.injEq]
      by_cases h : s.data.getD j 0 = x <;> simp
    rw [hE]
    have hfr0 : theta * s.c - ((0 : Int) : Rat) = theta * s.c := by simp
    by_cases hn : s.data.length = 0
    · -- no full item: the partial item survives with probability 1
      have hz : s.c.floor = 0 := by omega
      have hd : s.data = [] := List.length_eq_zero_iff.1 hn
      simp only [hn, avg, sumTo, Nat.cast_zero, div_zero, mul_zero, add_zero]
      have ht : t = 1 := by
        show (s.c - ((s.c.floor : Int) : Rat)) / s.c = 1
        rw [hz]; simp [ne_of_gt hc]
      rw [ht, one_mul]
      unfold incl
      simp only [hd, List.count_nil, Nat.cast_zero, zero_add, hni, hz, Int.cast_zero, sub_zero]
      split <;> simp
    · have hn' : 0 < s.data.length := Nat.pos_of_ne_zero hn
      have e : avg s.data.length (fun j => theta * s.c * ind (s.data.getD j 0 = x)) = theta * s.c * ((s.data.count x : Rat) / s.data.length) := by
        have := avg_affine s.data.length hn' (theta * s.c) 0 (fun j => ind (s.data.getD j 0 = x))
        simp only [add_zero] at this
        rw [this, avg_ind_getD]
      rw [e]
      have hN : ((s.data.length : Nat) : Rat) = ((s.c.floor : Int) : Rat) := by exact_mod_cast hl
      have hNne : ((s.data.length : Nat) : Rat) ≠ 0 := by positivity
      unfold incl
      simp only [hni, Int.cast_zero, sub_zero, List.count_nil, Nat.cast_zero, zero_add]
      show (s.c - ((s.c.floor : Int) : Rat)) / s.c * _ + (1 - (s.c - ((s.c.floor : Int) : Rat)) / s.c) * _ = _
      rw [← hN]
      have hcne : s.c ≠ 0 := ne_of_gt hc
      by_cases hx : s.part = some x
      · simp only [hx, if_true]; field_simp; ring
      · simp only [hx, if_false]; field_simp; ring

/-- Case "no item deleted" (`⌊theta·c⌋ = ⌊c⌋ ≥ 1`): threshold `t = (1 - theta·frac c)/(1 - frac(theta·c))`; below it
nothing moves, above it a uniformly chosen full item is swapped with the partial item. -/
theorem downsample_pps_case2 {ge : Bool} {s : Sample Rat} {theta : Rat} (hs : SInv P s) (hc : 0 < s.c) (ht0 : 0 < theta)
    (ht1 : theta < 1) (hni0 : (theta * s.c).floor ≠ 0) (hni : (theta * s.c).floor = s.c.floor) :
    let t := (1 - theta * (s.c - ((s.c.floor : Int) : Rat))) / (1 - (theta * s.c - (((theta * s.c).floor : Int) : Rat)))
    let pr : Option Nat → Option Nat := fun q => if theta * s.c = (((theta * s.c).floor : Int) : Rat) then none else q
    0 ≤ t ∧ t ≤ 1 ∧
    (∀ u js, u < t → (downsample ge s theta ⟨[u], js⟩).1 = ⟨theta * s.c, s.data, pr s.part⟩) ∧
    (∀ u js, t < u → (downsample ge s theta ⟨[u], js⟩).1 =
        ⟨theta * s.c, (swapWithPartial s.data s.part (⟨[], js⟩ : Draws Rat)).1, pr (swapWithPartial s.data s.part (⟨[], js⟩ : Draws Rat)).2.1⟩) ∧
    ∀ x, t * incl ⟨theta * s.c, s.data, pr s.part⟩ x +
         (1 - t) * expIdx [s.data.length] (fun js => incl ⟨theta * s.c, (swapWithPartial s.data s.part (⟨[], js⟩ : Draws Rat)).1,
              pr (swapWithPartial s.data s.part (⟨[], js⟩ : Draws Rat)).2.1⟩ x)
        = theta * incl s x := by
  intro t pr
  obtain ⟨_, hl, hp, -, -⟩ := hs
  have a1 := fl_le s.c
  have a2 := lt_fl_add_one s.c
  have n1 := fl_le (theta * s.c)
  have n2 := lt_fl_add_one (theta * s.c)
  have hnc : 0 < theta * s.c := mul_pos ht0 hc
  have hlt : theta * s.c < s.c := by nlinarith
  have hN : ((s.data.length : Nat) : Rat) = ((s.c.floor : Int) : Rat) := by exact_mod_cast hl
  have hn0 : 0 ≤ (theta * s.c).floor := floor_nonneg' (le_of_lt hnc)
  have hn' : 0 < s.data.length := by omega
  have hNpos : (0 : Rat) < (s.data.length : Rat) := by exact_mod_cast hn'
  -- the fraction was positive (otherwise an item would have been deleted): the partial item exists
  have hfr : ((s.c.floor : Int) : Rat) < s.c := by rw [← hni]; linarith
  obtain ⟨p, hsp⟩ : ∃ p, s.part = some p := Option.isSome_iff_exists.1 (hp.2 hfr)
  have hden : 0 < 1 - (theta * s.c - (((theta * s.c).floor : Int) : Rat)) := by linarith
  have hnum : 0 ≤ 1 - theta * (s.c - ((s.c.floor : Int) : Rat)) := by nlinarith
  have hle : 1 - theta * (s.c - ((s.c.floor : Int) : Rat)) ≤ 1 - (theta * s.c - (((theta * s.c).floor : Int) : Rat)) := by
    rw [hni]; nlinarith
  have ht_0 : 0 ≤ t := div_nonneg hnum (le_of_lt hden)
  have ht_1 : t ≤ 1 := (div_le_one hden).2 hle
  have hunf : ∀ u js, (downsample ge s theta ⟨[u], js⟩).1 =
      ⟨theta * s.c, (if t < u then swapWithPartial s.data s.part (⟨[], js⟩ : Draws Rat) else (s.data, s.part, (⟨[], js⟩ : Draws Rat))).1,
        pr (if t < u then swapWithPartial s.data s.part (⟨[], js⟩ : Draws Rat) else (s.data, s.part, (⟨[], js⟩ : Draws Rat))).2.1⟩ := by
    intro u js
    rw [downsample_eq, downsampleCases_eq]
    have hc1 : ((theta * s.c).floor = 0) = False := by simp [hni0]
    have hc2 : ((theta * s.c).floor = s.c.floor) = True := by simp [hni]
    simp only [rat_le, rat_one, rat_eq, rat_lt, rat_floor, rat_zero, decide_eq_true_eq, not_le.2 ht1, if_false, Int.cast_eq_zero, hc1,
      Int.cast_inj, hc2, if_true, unit_single]
    rfl
  refine ⟨ht_0, ht_1, ?_, ?_, ?_⟩
  · intro u js hu
    rw [hunf, if_neg (not_lt.2 (le_of_lt hu))]
  · intro u js hu
    rw [hunf, if_pos hu]
  · intro x
    have hE : expIdx [s.data.length] (fun js => incl ⟨theta * s.c, (swapWithPartial s.data s.part (⟨[], js⟩ : Draws Rat)).1,
              pr (swapWithPartial s.data s.part (⟨[], js⟩ : Draws Rat)).2.1⟩ x) =
        avg s.data.length (fun j => inclF (s.data.set j p) (some (s.data.getD j 0)) (theta * s.c - (((theta * s.c).floor : Int) : Rat)) x) := by
      simp only [expIdx]
      apply avg_congr
      intro j hj
      rw [hsp, swapWith_some_cons, Nat.mod_eq_of_lt hj]
      exact incl_pr _ _ _ _
    rw [hE, avg_swap _ _ _ _ hn']
    have hA : incl ⟨theta * s.c, s.data, pr s.part⟩ x = inclF s.data (some p) (theta * s.c - (((theta * s.c).floor : Int) : Rat)) x := by
      rw [hsp]; exact incl_pr _ _ _ _
    rw [hA, inclF_some, incl_eq_inclF, hsp, inclF_some]
    -- pure algebra with N = ⌊c⌋ = ⌊theta·c⌋
    show (1 - theta * (s.c - ((s.c.floor : Int) : Rat))) / (1 - (theta * s.c - (((theta * s.c).floor : Int) : Rat))) * _ +
      (1 - (1 - theta * (s.c - ((s.c.floor : Int) : Rat))) / (1 - (theta * s.c - (((theta * s.c).floor : Int) : Rat)))) * _ = _
    rw [hni, ← hN]
    rw [hni, ← hN] at hden
    set N := (s.data.length : Rat) with hNdef
    have hdne : 1 - (theta * s.c - N) ≠ 0 := ne_of_gt hden
    have hNne : N ≠ 0 := ne_of_gt hNpos
    field_simp
    ring

/-! #### the two regions of the case "items are deleted" -/

/-- `partial_item_.reset()` when the new `c` is integral -/
def prc (c' : Rat) (q : Option Nat) : Option Nat := if c' = ((c'.floor : Int) : Rat) then none else q

theorem incl_prc (c' : Rat) (d' : List Nat) (q x : Nat) :
    incl ⟨c', d', prc c' (some q)⟩ x = inclF d' (some q) (c' - ((c'.floor : Int) : Rat)) x := incl_pr c' d' q x

theorem subsample_ne (m : Nat) (l : List Nat) (d : Draws Rat) (h : m ≠ l.length) : subsample m l d = subsampleGo m l d := by
  unfold subsample
  have : (m == l.length) = false := by simpa using h
  simp [this]

theorem subsample_eq_len (l : List Nat) (d : Draws Rat) : subsample l.length l d = (l, d) := by
  unfold subsample; simp

/-- region A: subsample to `m` items (uniformly), then swap a uniformly chosen one of them with the partial item `p` -/
theorem expA (data : List Nat) (p x : Nat) (c' : Rat) (m : Nat) (hm1 : 1 ≤ m) (hmn : m < data.length) :
    expIdx (subB m data.length ++ [m]) (fun js => incl
      ⟨c', (swapWithPartial (subsample m data (⟨[], js⟩ : Draws Rat)).1 (some p) (subsample m data (⟨[], js⟩ : Draws Rat)).2).1,
        prc c' (swapWithPartial (subsample m data (⟨[], js⟩ : Draws Rat)).1 (some p) (subsample m data (⟨[], js⟩ : Draws Rat)).2).2.1⟩ x)
      = (1 + (c' - ((c'.floor : Int) : Rat) - 1) / m) * ((m : Rat) * (data.count x : Rat) / data.length) + ind (p = x) := by
  rw [expIdx_append]
  have inner : ∀ js1, InB (subB m data.length) js1 →
      expIdx [m] (fun js2 => incl
        ⟨c', (swapWithPartial (subsample m data (⟨[], js1 ++ js2⟩ : Draws Rat)).1 (some p) (subsample m data (⟨[], js1 ++ js2⟩ : Draws Rat)).2).1,
          prc c' (swapWithPartial (subsample m data (⟨[], js1 ++ js2⟩ : Draws Rat)).1 (some p) (subsample m data (⟨[], js1 ++ js2⟩ : Draws Rat)).2).2.1⟩ x)
      = (1 + (c' - ((c'.floor : Int) : Rat) - 1) / m) * ((subAt m data js1).count x : Rat) + ind (p = x) := by
    intro js1 hjs
    have hlen := length_subAt m data js1 hjs
    simp only [expIdx]
    have e : ∀ j, j < m → incl
        ⟨c', (swapWithPartial (subsample m data (⟨[], js1 ++ [j]⟩ : Draws Rat)).1 (some p) (subsample m data (⟨[], js1 ++ [j]⟩ : Draws Rat)).2).1,
          prc c' (swapWithPartial (subsample m data (⟨[], js1 ++ [j]⟩ : Draws Rat)).1 (some p) (subsample m data (⟨[], js1 ++ [j]⟩ : Draws Rat)).2).2.1⟩ x
        = inclF ((subAt m data js1).set j p) (some ((subAt m data js1).getD j 0)) (c' - ((c'.floor : Int) : Rat)) x := by
      intro j hj
      rw [subsample_ne m data _ (by omega), subsampleGo_append m data [] js1 [j] hjs]
      simp only
      rw [swapWith_some_cons, hlen, Nat.mod_eq_of_lt hj]
      exact incl_prc _ _ _ _
    rw [avg_congr e]
    have := avg_swap (subAt m data js1) p x (c' - ((c'.floor : Int) : Rat)) (by rw [hlen]; omega)
    rw [hlen] at this
    rw [this]; ring
  rw [expIdx_congr _ inner, expIdx_affine _ (subB_pos m data.length (by omega)), exp_count_subAt m data x (by omega)]

/-- region B: subsample to `m` items (uniformly; nothing to do when `m = n`), then move a uniformly chosen one of them to the
partial slot -/
theorem expB (data : List Nat) (x : Nat) (c' : Rat) (m : Nat) (hm1 : 1 ≤ m) (hmn : m ≤ data.length) :
    expIdx ((if m = data.length then [] else subB m data.length) ++ [m]) (fun js => incl
      ⟨c', (moveOneToPartial (subsample m data (⟨[], js⟩ : Draws Rat)).1 (subsample m data (⟨[], js⟩ : Draws Rat)).2).1,
        prc c' (moveOneToPartial (subsample m data (⟨[], js⟩ : Draws Rat)).1 (subsample m data (⟨[], js⟩ : Draws Rat)).2).2.1⟩ x)
      = (1 + (c' - ((c'.floor : Int) : Rat) - 1) / m) * ((m : Rat) * (data.count x : Rat) / data.length) := by
  have hmq : (m : Rat) ≠ 0 := by
    have : (1 : Rat) ≤ m := by exact_mod_cast hm1
    linarith
  by_cases hmeq : m = data.length
  · -- nothing is deleted first
    subst hmeq
    simp only [if_true, List.nil_append, expIdx]
    have e : ∀ j, j < data.length → incl
        ⟨c', (moveOneToPartial (subsample data.length data (⟨[], [j]⟩ : Draws Rat)).1 (subsample data.length data (⟨[], [j]⟩ : Draws Rat)).2).1,
          prc c' (moveOneToPartial (subsample data.length data (⟨[], [j]⟩ : Draws Rat)).1 (subsample data.length data (⟨[], [j]⟩ : Draws Rat)).2).2.1⟩ x
        = inclF ((data.set j (data.getD (data.length - 1) 0)).dropLast) (some (data.getD j 0)) (c' - ((c'.floor : Int) : Rat)) x := by
      intro j hj
      rw [subsample_eq_len]
      simp only
      rw [moveOne_cons, Nat.mod_eq_of_lt hj]
      exact incl_prc _ _ _ _
    rw [avg_congr e, avg_move data x _ (by omega)]
    field_simp
  · rw [if_neg hmeq, expIdx_append]
    have inner : ∀ js1, InB (subB m data.length) js1 →
        expIdx [m] (fun js2 => incl
          ⟨c', (moveOneToPartial (subsample m data (⟨[], js1 ++ js2⟩ : Draws Rat)).1 (subsample m data (⟨[], js1 ++ js2⟩ : Draws Rat)).2).1,
            prc c' (moveOneToPartial (subsample m data (⟨[], js1 ++ js2⟩ : Draws Rat)).1 (subsample m data (⟨[], js1 ++ js2⟩ : Draws Rat)).2).2.1⟩ x)
        = (1 + (c' - ((c'.floor : Int) : Rat) - 1) / m) * ((subAt m data js1).count x : Rat) + 0 := by
      intro js1 hjs
      have hlen := length_subAt m data js1 hjs
      simp only [expIdx]
      have e : ∀ j, j < m → incl
          ⟨c', (moveOneToPartial (subsample m data (⟨[], js1 ++ [j]⟩ : Draws Rat)).1 (subsample m data (⟨[], js1 ++ [j]⟩ : Draws Rat)).2).1,
            prc c' (moveOneToPartial (subsample m data (⟨[], js1 ++ [j]⟩ : Draws Rat)).1 (subsample m data (⟨[], js1 ++ [j]⟩ : Draws Rat)).2).2.1⟩ x
          = inclF (((subAt m data js1).set j ((subAt m data js1).getD ((subAt m data js1).length - 1) 0)).dropLast)
              (some ((subAt m data js1).getD j 0)) (c' - ((c'.floor : Int) : Rat)) x := by
        intro j hj
        rw [subsample_ne m data _ hmeq, subsampleGo_append m data [] js1 [j] hjs]
        simp only
        rw [moveOne_cons, hlen, Nat.mod_eq_of_lt hj]
        exact incl_prc _ _ _ _
      rw [avg_congr e]
      have := avg_move (subAt m data js1) x (c' - ((c'.floor : Int) : Rat)) (by rw [hlen]; omega)
      simp only [hlen] at this ⊢
      rw [this]; ring
    rw [expIdx_congr _ inner, expIdx_affine _ (subB_pos m data.length hmn), exp_count_subAt m data x hmn]
    ring

/-- Case "items are deleted" (`1 ≤ ⌊theta·c⌋ < ⌊c⌋`): threshold `t = theta·frac c`; below it the sample is cut to
`⌊theta·c⌋` uniformly chosen items one of which is then swapped with the partial item, above it to `⌊theta·c⌋ + 1` items one
of which becomes the partial item. -/
theorem downsample_pps_case3 {ge : Bool} {s : Sample Rat} {theta : Rat} (hs : SInv P s) (hc : 0 < s.c) (ht0 : 0 < theta)
    (ht1 : theta < 1) (hni0 : (theta * s.c).floor ≠ 0) (hni : (theta * s.c).floor ≠ s.c.floor) :
    let t := theta * (s.c - ((s.c.floor : Int) : Rat))
    let m := (theta * s.c).floor.toNat
    let FA : List Nat → Sample Rat := fun js =>
      ⟨theta * s.c, (swapWithPartial (subsample m s.data (⟨[], js⟩ : Draws Rat)).1 s.part (subsample m s.data (⟨[], js⟩ : Draws Rat)).2).1,
        prc (theta * s.c) (swapWithPartial (subsample m s.data (⟨[], js⟩ : Draws Rat)).1 s.part (subsample m s.data (⟨[], js⟩ : Draws Rat)).2).2.1⟩
    let FB : List Nat → Sample Rat := fun js =>
      ⟨theta * s.c, (moveOneToPartial (subsample (m + 1) s.data (⟨[], js⟩ : Draws Rat)).1 (subsample (m + 1) s.data (⟨[], js⟩ : Draws Rat)).2).1,
        prc (theta * s.c) (moveOneToPartial (subsample (m + 1) s.data (⟨[], js⟩ : Draws Rat)).1 (subsample (m + 1) s.data (⟨[], js⟩ : Draws Rat)).2).2.1⟩
    0 ≤ t ∧ t ≤ 1 ∧
    (∀ u js, u < t → (downsample ge s theta ⟨[u], js⟩).1 = FA js) ∧
    (∀ u js, t < u → (downsample ge s theta ⟨[u], js⟩).1 = FB js) ∧
    ∀ x, t * expIdx (subB m s.data.length ++ [m]) (fun js => incl (FA js) x) +
         (1 - t) * expIdx ((if m + 1 = s.data.length then [] else subB (m + 1) s.data.length) ++ [m + 1]) (fun js => incl (FB js) x)
        = theta * incl s x := by
  intro t m FA FB
  obtain ⟨_, hl, hp, -, -⟩ := hs
  have a1 := fl_le s.c
  have a2 := lt_fl_add_one s.c
  have n1 := fl_le (theta * s.c)
  have n2 := lt_fl_add_one (theta * s.c)
  have hnc : 0 < theta * s.c := mul_pos ht0 hc
  have hlt : theta * s.c < s.c := by nlinarith
  have hN : ((s.data.length : Nat) : Rat) = ((s.c.floor : Int) : Rat) := by exact_mod_cast hl
  have hn0 : 0 ≤ (theta * s.c).floor := floor_nonneg' (le_of_lt hnc)
  have hna : (theta * s.c).floor ≤ s.c.floor := floor_mono' (le_of_lt hlt)
  have hm1 : 1 ≤ m := by show 1 ≤ (theta * s.c).floor.toNat; omega
  have hmn : m < s.data.length := by show (theta * s.c).floor.toNat < s.data.length; omega
  have hmq : ((m : Nat) : Rat) = (((theta * s.c).floor : Int) : Rat) := by
    show (((theta * s.c).floor.toNat : Nat) : Rat) = _
    have : (((theta * s.c).floor.toNat : Nat) : Int) = (theta * s.c).floor := Int.toNat_of_nonneg hn0
    exact_mod_cast this
  have hcf0 : 0 ≤ s.c - ((s.c.floor : Int) : Rat) := by linarith
  have ht_0 : 0 ≤ t := mul_nonneg (le_of_lt ht0) hcf0
  have ht_1 : t ≤ 1 := by show theta * (s.c - ((s.c.floor : Int) : Rat)) ≤ 1; nlinarith
  have hunf : ∀ u js, (downsample ge s theta ⟨[u], js⟩).1 = if u < t then FA js else FB js := by
    intro u js
    rw [downsample_eq, downsampleCases_eq]
    have hc1 : ((theta * s.c).floor = 0) = False := by simp [hni0]
    have hc2 : ((theta * s.c).floor = s.c.floor) = False := by simp [hni]
    simp only [rat_le, rat_one, rat_eq, rat_lt, rat_floor, rat_zero, rat_toNat, floor_intCast', decide_eq_true_eq, not_le.2 ht1,
      if_false, Int.cast_eq_zero, hc1, Int.cast_inj, hc2, unit_single]
    split <;> rfl
  refine ⟨ht_0, ht_1, ?_, ?_, ?_⟩
  · intro u js hu; rw [hunf, if_pos hu]
  · intro u js hu; rw [hunf, if_neg (not_lt.2 (le_of_lt hu))]
  · intro x
    have hB := expB s.data x (theta * s.c) (m + 1) (by omega) (by omega)
    have hmq1 : ((m + 1 : Nat) : Rat) = (((theta * s.c).floor : Int) : Rat) + 1 := by push_cast; rw [hmq]
    have hNpos : (0 : Rat) < (s.data.length : Rat) := by exact_mod_cast (by omega : 0 < s.data.length)
    have hNIpos : (0 : Rat) < (((theta * s.c).floor : Int) : Rat) := by
      have : (1 : Int) ≤ (theta * s.c).floor := by omega
      have : (1 : Rat) ≤ (((theta * s.c).floor : Int) : Rat) := by exact_mod_cast this
      linarith
    show t * expIdx (subB m s.data.length ++ [m]) (fun js => incl (FA js) x) + (1 - t) * expIdx _ (fun js => incl (FB js) x) = _
    rw [show (fun js => incl (FB js) x) = _ from rfl, hB, hmq1]
    by_cases hcf : s.c - ((s.c.floor : Int) : Rat) = 0
    · -- integral c: region A is empty (t = 0), and there is no partial item
      have ht : t = 0 := by show theta * (s.c - ((s.c.floor : Int) : Rat)) = 0; rw [hcf, mul_zero]
      have hsn : s.part = none := by
        cases hh : s.part with
        | none => rfl
        | some p => have := hp.1 (by rw [hh]; rfl); linarith
      rw [ht, zero_mul, zero_add, sub_zero, one_mul, incl_eq_inclF, hsn]
      unfold inclF
      simp only [reduceCtorEq, if_false, add_zero]
      have hcN : s.c = (s.data.length : Rat) := by rw [hN]; linarith
      set NI := (((theta * s.c).floor : Int) : Rat) with hNI
      rw [hcN]
      have h1 : NI + 1 ≠ 0 := by linarith
      have h2 : (s.data.length : Rat) ≠ 0 := ne_of_gt hNpos
      field_simp
      ring
    · have hfr : ((s.c.floor : Int) : Rat) < s.c := by
        rcases lt_or_eq_of_le hcf0 with h | h
        · linarith
        · exact absurd h.symm hcf
      obtain ⟨p, hsp⟩ : ∃ p, s.part = some p := Option.isSome_iff_exists.1 (hp.2 hfr)
      have hA := expA s.data p x (theta * s.c) m hm1 hmn
      have hFA : (fun js => incl (FA js) x) = (fun js => incl
          ⟨theta * s.c, (swapWithPartial (subsample m s.data (⟨[], js⟩ : Draws Rat)).1 (some p) (subsample m s.data (⟨[], js⟩ : Draws Rat)).2).1,
            prc (theta * s.c) (swapWithPartial (subsample m s.data (⟨[], js⟩ : Draws Rat)).1 (some p) (subsample m s.data (⟨[], js⟩ : Draws Rat)).2).2.1⟩ x) := by
        funext js; show incl ⟨_, _, _⟩ x = _; rw [hsp]
      rw [hFA, hA, hmq, incl_eq_inclF, hsp, inclF_some]
      show theta * (s.c - ((s.c.floor : Int) : Rat)) * _ + (1 - theta * (s.c - ((s.c.floor : Int) : Rat))) * _ = _
      rw [← hN]
      set NI := (((theta * s.c).floor : Int) : Rat) with hNI
      set N := (s.data.length : Rat) with hNdef
      have h1 : NI + 1 ≠ 0 := by linarith
      have h2 : N ≠ 0 := ne_of_gt hNpos
      have h3 : NI ≠ 0 := ne_of_gt hNIpos
      field_simp
      ring

/-- `downsample(theta)`, `0 < theta < 1`: there is a threshold `t ∈ [0,1]` for the unit draw; draws below `t` lead to the
outcome `FA js`, draws above to `FB js`, where `js` are the index draws (`random_idx`), independent and uniform with the
bounds `bA` resp. `bB`; and for EVERY item `x` the expected inclusion probability afterwards,
`t·E[incl (FA js) x] + (1-t)·E[incl (FB js) x]`, is `theta · incl s x`. -/
theorem downsample_pps {ge : Bool} {s : Sample Rat} {theta : Rat} (hs : SInv P s) (hc : 0 < s.c) (ht0 : 0 < theta)
    (ht1 : theta < 1) :
    ∃ (t : Rat) (bA bB : List Nat) (FA FB : List Nat → Sample Rat), 0 ≤ t ∧ t ≤ 1 ∧
      (∀ u js, u < t → (downsample ge s theta ⟨[u], js⟩).1 = FA js) ∧
      (∀ u js, t < u → (downsample ge s theta ⟨[u], js⟩).1 = FB js) ∧
      ∀ x, t * expIdx bA (fun js => incl (FA js) x) + (1 - t) * expIdx bB (fun js => incl (FB js) x) = theta * incl s x := by
  by_cases h0 : (theta * s.c).floor = 0
  · obtain ⟨a, b, c, d, e⟩ := downsample_pps_case1 (ge := ge) hs hc ht0 ht1 h0
    exact ⟨_, [], [s.data.length], fun _ => _, _, a, b, c, d, e⟩
  · by_cases h1 : (theta * s.c).floor = s.c.floor
    · obtain ⟨a, b, c, d, e⟩ := downsample_pps_case2 (ge := ge) hs hc ht0 ht1 h0 h1
      exact ⟨_, [], [s.data.length], fun _ => _, _, a, b, c, d, e⟩
    · obtain ⟨a, b, c, d, e⟩ := downsample_pps_case3 (ge := ge) hs hc ht0 ht1 h0 h1
      exact ⟨_, _, _, _, _, a, b, c, d, e⟩

end DS.Ebpps

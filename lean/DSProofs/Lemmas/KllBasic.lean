/-
Basic list facts about the helpers of the KLL model (DSModel/Kll/Sketch.lean):
evens / odds / halveUp / halveDown / mergeUp / sortBy / leftoverOf / adjOf / sizeSum / weightSum.
Generic in the item type, the comparator `lt` and the predicate `p`.  Core Lean only.
-/
import DSModel.Kll.Sketch
namespace DS.Kll
open DS DS.SortedView

variable {α : Type}

/-! ### evens / odds -/

theorem evens_length_add_odds_length : ∀ l : List α, (evens l).length + (odds l).length = l.length
  | [] => rfl
  | [_] => rfl
  | _ :: _ :: t => by
    have := evens_length_add_odds_length t
    simp only [evens, odds, List.length_cons]; omega

theorem odds_length : ∀ l : List α, (odds l).length = l.length / 2
  | [] => by simp only [odds, List.length_nil, Nat.zero_div]
  | [_] => by simp only [odds, List.length_cons, List.length_nil]
  | _ :: _ :: t => by
    have := odds_length t
    simp only [odds, List.length_cons]; omega

theorem evens_length (l : List α) : (evens l).length = (l.length + 1) / 2 := by
  have h1 := evens_length_add_odds_length l
  have h2 := odds_length l
  omega

theorem evens_length_of_even (l : List α) (h : l.length % 2 = 0) : (evens l).length = l.length / 2 := by
  have := evens_length l; omega

theorem odds_length_of_even (l : List α) (_h : l.length % 2 = 0) : (odds l).length = l.length / 2 :=
  odds_length l

theorem evens_sublist : ∀ l : List α, (evens l).Sublist l
  | [] => List.Sublist.slnil
  | [_] => List.Sublist.refl _
  | a :: b :: t => List.Sublist.cons_cons a (List.Sublist.cons b (evens_sublist t))

theorem odds_sublist : ∀ l : List α, (odds l).Sublist l
  | [] => List.Sublist.slnil
  | [a] => List.Sublist.cons a List.Sublist.slnil
  | a :: b :: t => List.Sublist.cons a (List.Sublist.cons_cons b (odds_sublist t))

theorem evens_append_odds_perm : ∀ l : List α, (evens l ++ odds l).Perm l
  | [] => List.Perm.refl _
  | [_] => List.Perm.refl _
  | a :: b :: t => by
    simp only [evens, odds, List.cons_append]
    exact List.Perm.cons a (List.perm_middle.trans (List.Perm.cons b (evens_append_odds_perm t)))

/-- `compaction_balanced` at the list level -/
theorem evens_filter_add_odds_filter (p : α → Bool) :
    ∀ l : List α, ((evens l).filter p).length + ((odds l).filter p).length = (l.filter p).length
  | [] => rfl
  | [a] => by simp only [evens, odds, List.filter_nil, List.length_nil, Nat.add_zero]
  | a :: b :: t => by
    have := evens_filter_add_odds_filter p t
    simp only [evens, odds, List.filter_cons]
    cases p a <;> cases p b <;> simp only [List.length_cons, if_true, if_false, Bool.false_eq_true] <;> omega

theorem mem_of_mem_evens {x : α} {l : List α} (h : x ∈ evens l) : x ∈ l := (evens_sublist l).subset h
theorem mem_of_mem_odds {x : α} {l : List α} (h : x ∈ odds l) : x ∈ l := (odds_sublist l).subset h

theorem mem_evens_or_odds {x : α} {l : List α} : x ∈ l ↔ x ∈ evens l ∨ x ∈ odds l := by
  rw [← (evens_append_odds_perm l).mem_iff, List.mem_append]

/-! ### halveUp / halveDown -/

theorem halveUp_sublist (l : List α) (c : Bool) : (halveUp l c).Sublist l := by
  cases c
  · exact odds_sublist l
  · exact evens_sublist l

theorem halveDown_sublist (l : List α) (c : Bool) : (halveDown l c).Sublist l := by
  cases c
  · exact evens_sublist l
  · exact odds_sublist l

theorem halveUp_length (l : List α) (c : Bool) (h : l.length % 2 = 0) : (halveUp l c).length = l.length / 2 := by
  cases c
  · exact odds_length l
  · exact evens_length_of_even l h

theorem halveDown_length (l : List α) (c : Bool) (h : l.length % 2 = 0) : (halveDown l c).length = l.length / 2 := by
  cases c
  · exact evens_length_of_even l h
  · exact odds_length l

theorem halveUp_filter (p : α → Bool) (l : List α) :
    ((halveUp l false).filter p).length + ((halveUp l true).filter p).length = (l.filter p).length := by
  have := evens_filter_add_odds_filter p l
  simp only [halveUp, if_true, if_false, Bool.false_eq_true]; omega

theorem halveDown_filter (p : α → Bool) (l : List α) :
    ((halveDown l false).filter p).length + ((halveDown l true).filter p).length = (l.filter p).length := by
  have := evens_filter_add_odds_filter p l
  simp only [halveDown, if_true, if_false, Bool.false_eq_true]; omega

theorem halveUp_length_add (l : List α) : (halveUp l false).length + (halveUp l true).length = l.length := by
  have := evens_length_add_odds_length l
  simp only [halveUp, if_true, if_false, Bool.false_eq_true]; omega

theorem halveDown_length_add (l : List α) : (halveDown l false).length + (halveDown l true).length = l.length := by
  have := evens_length_add_odds_length l
  simp only [halveDown, if_true, if_false, Bool.false_eq_true]; omega

theorem halfOf_sublist (adj above : List α) (c : Bool) : (halfOf adj above c).Sublist adj := by
  unfold halfOf; split
  · exact halveUp_sublist adj c
  · exact halveDown_sublist adj c

theorem halfOf_length (adj above : List α) (c : Bool) (h : adj.length % 2 = 0) :
    (halfOf adj above c).length = adj.length / 2 := by
  unfold halfOf; split
  · exact halveUp_length adj c h
  · exact halveDown_length adj c h

theorem halfOf_filter (p : α → Bool) (adj above : List α) :
    ((halfOf adj above false).filter p).length + ((halfOf adj above true).filter p).length
      = (adj.filter p).length := by
  unfold halfOf; split
  · exact halveUp_filter p adj
  · exact halveDown_filter p adj

/-! ### Sorted -/

theorem Sorted.sublist {lt : α → α → Bool} {l₁ l₂ : List α} (h : l₁.Sublist l₂) (hs : Sorted lt l₂) :
    Sorted lt l₁ := List.Pairwise.sublist h hs

theorem sorted_evens {lt : α → α → Bool} {l : List α} (h : Sorted lt l) : Sorted lt (evens l) :=
  Sorted.sublist (evens_sublist l) h

theorem sorted_odds {lt : α → α → Bool} {l : List α} (h : Sorted lt l) : Sorted lt (odds l) :=
  Sorted.sublist (odds_sublist l) h

theorem sorted_halveUp {lt : α → α → Bool} {l : List α} (c : Bool) (h : Sorted lt l) : Sorted lt (halveUp l c) :=
  Sorted.sublist (halveUp_sublist l c) h

theorem sorted_halveDown {lt : α → α → Bool} {l : List α} (c : Bool) (h : Sorted lt l) :
    Sorted lt (halveDown l c) :=
  Sorted.sublist (halveDown_sublist l c) h

theorem sorted_halfOf {lt : α → α → Bool} {adj : List α} (above : List α) (c : Bool) (h : Sorted lt adj) :
    Sorted lt (halfOf adj above c) :=
  Sorted.sublist (halfOf_sublist adj above c) h

/-! ### mergeUp -/

@[simp] theorem mergeUp_nil_left (lt : α → α → Bool) (b : List α) : mergeUp lt [] b = b := by
  unfold mergeUp; cases b <;> simp [mergeUpF]

@[simp] theorem mergeUp_nil_right (lt : α → α → Bool) (a : List α) : mergeUp lt a [] = a := by
  unfold mergeUp
  cases a with
  | nil => simp [mergeUpF]
  | cons x a => cases h : (x :: a).length + ([] : List α).length <;> simp [mergeUpF]

theorem mergeUp_cons_cons (lt : α → α → Bool) (x y : α) (a b : List α) :
    mergeUp lt (x :: a) (y :: b)
      = if lt x y then x :: mergeUp lt a (y :: b) else y :: mergeUp lt (x :: a) b := by
  unfold mergeUp
  have e : (x :: a).length + (y :: b).length = (a.length + (b.length + 1)) + 1 := by simp only [List.length_cons]; omega
  rw [e, mergeUpF]
  simp only [List.length_cons]
  have e2 : a.length + 1 + b.length = a.length + (b.length + 1) := by omega
  rw [e2]

theorem mergeUp_perm (lt : α → α → Bool) : ∀ a b : List α, (mergeUp lt a b).Perm (a ++ b)
  | [], b => by simp only [mergeUp_nil_left, List.nil_append]; exact List.Perm.refl _
  | x :: a, [] => by simp only [mergeUp_nil_right, List.append_nil]; exact List.Perm.refl _
  | x :: a, y :: b => by
    rw [mergeUp_cons_cons]
    split
    · exact List.Perm.cons x (mergeUp_perm lt a (y :: b))
    · exact (List.Perm.cons y (mergeUp_perm lt (x :: a) b)).trans List.perm_middle.symm
termination_by a b => a.length + b.length

theorem mergeUp_length (lt : α → α → Bool) (a b : List α) : (mergeUp lt a b).length = a.length + b.length := by
  rw [(mergeUp_perm lt a b).length_eq, List.length_append]

theorem mergeUp_filter (lt : α → α → Bool) (p : α → Bool) (a b : List α) :
    ((mergeUp lt a b).filter p).length = (a.filter p).length + (b.filter p).length := by
  rw [((mergeUp_perm lt a b).filter p).length_eq, List.filter_append, List.length_append]

theorem mem_mergeUp {lt : α → α → Bool} {x : α} {a b : List α} : x ∈ mergeUp lt a b ↔ x ∈ a ∨ x ∈ b := by
  rw [(mergeUp_perm lt a b).mem_iff, List.mem_append]

theorem sorted_mergeUp {lt : α → α → Bool} (sw : StrictWeak lt) :
    ∀ a b : List α, Sorted lt a → Sorted lt b → Sorted lt (mergeUp lt a b)
  | [], b, _, hb => by simp only [mergeUp_nil_left]; exact hb
  | x :: a, [], ha, _ => by simp only [mergeUp_nil_right]; exact ha
  | x :: a, y :: b, ha, hb => by
    rw [mergeUp_cons_cons]
    have ha' := List.pairwise_cons.mp ha
    have hb' := List.pairwise_cons.mp hb
    cases hxy : lt x y
    · simp only [Bool.false_eq_true, if_false]
      refine List.pairwise_cons.mpr ⟨?_, sorted_mergeUp sw (x :: a) b ha hb'.2⟩
      intro z hz
      rcases mem_mergeUp.mp hz with hz | hz
      · rcases List.mem_cons.mp hz with rfl | hz
        · exact hxy
        · exact sw.negTrans z x y (ha'.1 z hz) hxy
      · exact hb'.1 z hz
    · simp only [if_true]
      refine List.pairwise_cons.mpr ⟨?_, sorted_mergeUp sw a (y :: b) ha'.2 hb⟩
      intro z hz
      have hyx : lt y x = false := sw.asymm x y hxy
      rcases mem_mergeUp.mp hz with hz | hz
      · exact ha'.1 z hz
      · rcases List.mem_cons.mp hz with rfl | hz
        · exact hyx
        · exact sw.negTrans z y x (hb'.1 z hz) hyx
termination_by a b => a.length + b.length

/-! ### sortBy -/

theorem insertBy_perm (lt : α → α → Bool) (x : α) : ∀ l : List α, (insertBy lt x l).Perm (x :: l)
  | [] => List.Perm.refl _
  | y :: t => by
    simp only [insertBy]
    split
    · exact (List.Perm.cons y (insertBy_perm lt x t)).trans (List.Perm.swap x y t)
    · exact List.Perm.refl _

theorem sortBy_perm (lt : α → α → Bool) : ∀ l : List α, (sortBy lt l).Perm l
  | [] => List.Perm.refl _
  | x :: t => by
    simp only [sortBy]
    exact (insertBy_perm lt x _).trans (List.Perm.cons x (sortBy_perm lt t))

theorem sortBy_length (lt : α → α → Bool) (l : List α) : (sortBy lt l).length = l.length :=
  (sortBy_perm lt l).length_eq

theorem sortBy_filter (lt : α → α → Bool) (p : α → Bool) (l : List α) :
    ((sortBy lt l).filter p).length = (l.filter p).length :=
  ((sortBy_perm lt l).filter p).length_eq

theorem mem_sortBy {lt : α → α → Bool} {x : α} {l : List α} : x ∈ sortBy lt l ↔ x ∈ l :=
  (sortBy_perm lt l).mem_iff

theorem sorted_insertBy {lt : α → α → Bool} (sw : StrictWeak lt) (x : α) :
    ∀ l : List α, Sorted lt l → Sorted lt (insertBy lt x l)
  | [], _ => List.pairwise_singleton _ _
  | y :: t, h => by
    have h' := List.pairwise_cons.mp h
    simp only [insertBy]
    cases hyx : lt y x
    · simp only [Bool.false_eq_true, if_false]
      refine List.pairwise_cons.mpr ⟨?_, h⟩
      intro z hz
      rcases List.mem_cons.mp hz with rfl | hz
      · exact hyx
      · exact sw.negTrans z y x (h'.1 z hz) hyx
    · simp only [if_true]
      refine List.pairwise_cons.mpr ⟨?_, sorted_insertBy sw x t h'.2⟩
      intro z hz
      rcases List.mem_cons.mp ((insertBy_perm lt x t).mem_iff.mp hz) with rfl | hz
      · exact sw.asymm y z hyx
      · exact h'.1 z hz

theorem sorted_sortBy {lt : α → α → Bool} (sw : StrictWeak lt) : ∀ l : List α, Sorted lt (sortBy lt l)
  | [] => List.Pairwise.nil
  | x :: t => by simp only [sortBy]; exact sorted_insertBy sw x _ (sorted_sortBy sw t)

/-- sorting an already sorted list is the identity (no assumption on `lt`) -/
theorem sortBy_of_sorted {lt : α → α → Bool} : ∀ {l : List α}, Sorted lt l → sortBy lt l = l
  | [], _ => rfl
  | x :: t, h => by
    have h' := List.pairwise_cons.mp h
    simp only [sortBy, sortBy_of_sorted h'.2]
    cases t with
    | nil => rfl
    | cons y t' =>
      have : lt y x = false := h'.1 y (by simp)
      simp only [insertBy, this, Bool.false_eq_true, if_false]

/-! ### leftoverOf / adjOf -/

theorem leftoverOf_length (cur : List α) : (leftoverOf cur).length = cur.length % 2 := by
  unfold leftoverOf
  by_cases h : cur.length % 2 = 1
  · simp only [h, beq_self_eq_true, if_true, List.length_take]; omega
  · have h0 : cur.length % 2 = 0 := by omega
    have hb : (cur.length % 2 == 1) = false := by rw [h0]; rfl
    rw [h0, if_neg (by decide)]; rfl

theorem adjOf_length (lt : α → α → Bool) (srt : Bool) (cur : List α) :
    (adjOf lt srt cur).length = cur.length - cur.length % 2 := by
  unfold adjOf
  by_cases h : cur.length % 2 = 1
  · cases srt <;> simp [h, sortBy_length]
  · have h0 : cur.length % 2 = 0 := by omega
    cases srt <;> simp [h0, sortBy_length]

theorem adjOf_length_even (lt : α → α → Bool) (srt : Bool) (cur : List α) :
    (adjOf lt srt cur).length % 2 = 0 := by
  rw [adjOf_length]; omega

theorem leftoverOf_length_add_adjOf_length (lt : α → α → Bool) (srt : Bool) (cur : List α) :
    (leftoverOf cur).length + (adjOf lt srt cur).length = cur.length := by
  rw [adjOf_length, leftoverOf_length]; omega

theorem leftoverOf_append_adjOf_perm (lt : α → α → Bool) (srt : Bool) (cur : List α) :
    (leftoverOf cur ++ adjOf lt srt cur).Perm cur := by
  unfold leftoverOf adjOf
  by_cases h : cur.length % 2 = 1
  · simp only [h, beq_self_eq_true, if_true]
    cases srt
    · simp only [Bool.false_eq_true, if_false, List.take_append_drop]; exact List.Perm.refl _
    · simp only [if_true]
      exact (List.Perm.append_left _ (sortBy_perm lt _)).trans (by rw [List.take_append_drop])
  · have h0 : cur.length % 2 = 0 := by omega
    have hb : (cur.length % 2 == 1) = false := by rw [h0]; rfl
    simp only [hb, Bool.false_eq_true, if_false, List.nil_append]
    cases srt
    · simp only [Bool.false_eq_true, if_false]; exact List.Perm.refl _
    · simp only [if_true]; exact sortBy_perm lt _

theorem leftoverOf_filter_add_adjOf_filter (lt : α → α → Bool) (p : α → Bool) (srt : Bool) (cur : List α) :
    ((leftoverOf cur).filter p).length + ((adjOf lt srt cur).filter p).length = (cur.filter p).length := by
  rw [← ((leftoverOf_append_adjOf_perm lt srt cur).filter p).length_eq, List.filter_append,
    List.length_append]

theorem mem_leftoverOf_or_adjOf {lt : α → α → Bool} {srt : Bool} {x : α} {cur : List α} :
    x ∈ cur ↔ x ∈ leftoverOf cur ∨ x ∈ adjOf lt srt cur := by
  rw [← (leftoverOf_append_adjOf_perm lt srt cur).mem_iff, List.mem_append]

/-- the unsorted even rest is a sublist of the level -/
theorem adjOf_false_sublist (lt : α → α → Bool) (cur : List α) : (adjOf lt false cur).Sublist cur := by
  unfold adjOf
  simp only [Bool.false_eq_true, if_false]
  split
  · exact List.drop_sublist 1 cur
  · exact List.Sublist.refl _

theorem leftoverOf_sublist (cur : List α) : (leftoverOf cur).Sublist cur := by
  unfold leftoverOf
  split
  · exact List.take_sublist 1 cur
  · exact List.nil_sublist _

/-- the rest of a sorted level is sorted, whether or not it is sorted again -/
theorem sorted_adjOf {lt : α → α → Bool} (srt : Bool) {cur : List α} (h : Sorted lt cur) :
    Sorted lt (adjOf lt srt cur) := by
  have h0 : Sorted lt (adjOf lt false cur) := Sorted.sublist (adjOf_false_sublist lt cur) h
  cases srt
  · exact h0
  · have : adjOf lt true cur = sortBy lt (adjOf lt false cur) := by
      unfold adjOf; simp only [Bool.false_eq_true, if_false, if_true]
    rw [this, sortBy_of_sorted h0]; exact h0

theorem sorted_adjOf_true {lt : α → α → Bool} (sw : StrictWeak lt) (cur : List α) :
    Sorted lt (adjOf lt true cur) := by
  unfold adjOf
  simp only [if_true]
  exact sorted_sortBy sw _

theorem sorted_leftoverOf {lt : α → α → Bool} (cur : List α) : Sorted lt (leftoverOf cur) := by
  unfold leftoverOf Sorted
  split
  · cases cur with
    | nil => exact List.Pairwise.nil
    | cons x t => simp only [List.take_succ_cons, List.take_zero]; exact List.pairwise_singleton _ _
  · exact List.Pairwise.nil

/-! ### newAbove -/

theorem newAbove_length (lt : α → α → Bool) (srt c : Bool) (cur above : List α) :
    (newAbove lt srt c cur above).length = cur.length / 2 + above.length := by
  unfold newAbove
  rw [mergeUp_length, halfOf_length _ _ _ (adjOf_length_even lt srt cur), adjOf_length]; omega

theorem newAbove_filter (lt : α → α → Bool) (p : α → Bool) (srt : Bool) (cur above : List α) :
    ((newAbove lt srt false cur above).filter p).length + ((newAbove lt srt true cur above).filter p).length
      = ((adjOf lt srt cur).filter p).length + 2 * (above.filter p).length := by
  unfold newAbove
  have := halfOf_filter p (adjOf lt srt cur) above
  rw [mergeUp_filter, mergeUp_filter]; omega

theorem sorted_newAbove {lt : α → α → Bool} (sw : StrictWeak lt) (srt c : Bool) {cur above : List α}
    (hc : srt = true ∨ Sorted lt cur) (ha : Sorted lt above) : Sorted lt (newAbove lt srt c cur above) := by
  unfold newAbove
  refine sorted_mergeUp sw _ _ (sorted_halfOf above c ?_) ha
  rcases hc with rfl | hc
  · exact sorted_adjOf_true sw cur
  · exact sorted_adjOf srt hc

/-! ### getD / set on the list of levels -/

theorem getD_set_self {β : Type} (d x : β) : ∀ (L : List β) (i : Nat), i < L.length → (L.set i x).getD i d = x
  | [], _, h => absurd h (Nat.not_lt_zero _)
  | _ :: _, 0, _ => rfl
  | _ :: t, i + 1, h => by
    simp only [List.set_cons_succ, List.getD_cons_succ]
    exact getD_set_self d x t i (Nat.lt_of_succ_lt_succ h)

theorem getD_set_ne {β : Type} (d x : β) : ∀ (L : List β) (i j : Nat), i ≠ j → (L.set i x).getD j d = L.getD j d
  | [], _, _, _ => rfl
  | _ :: _, 0, 0, h => absurd rfl h
  | _ :: _, 0, _ + 1, _ => rfl
  | _ :: _, _ + 1, 0, _ => rfl
  | _ :: t, i + 1, j + 1, h => by
    simp only [List.set_cons_succ, List.getD_cons_succ]
    exact getD_set_ne d x t i j (fun e => h (by rw [e]))

theorem getD_append_left {β : Type} (d : β) : ∀ (L M : List β) (i : Nat), i < L.length → (L ++ M).getD i d = L.getD i d
  | [], _, _, h => absurd h (Nat.not_lt_zero _)
  | _ :: _, _, 0, _ => rfl
  | _ :: t, M, i + 1, h => by
    simp only [List.cons_append, List.getD_cons_succ]
    exact getD_append_left d t M i (Nat.lt_of_succ_lt_succ h)

theorem getD_append_singleton_default {β : Type} (d : β) : ∀ (L : List β) (i : Nat), (L ++ [d]).getD i d = L.getD i d
  | [], 0 => rfl
  | [], _ + 1 => rfl
  | _ :: _, 0 => rfl
  | _ :: t, i + 1 => by
    simp only [List.cons_append, List.getD_cons_succ]
    exact getD_append_singleton_default d t i

theorem getD_of_length_le {β : Type} (d : β) : ∀ (L : List β) (i : Nat), L.length ≤ i → L.getD i d = d
  | [], _, _ => rfl
  | _ :: _, 0, h => absurd h (by simp only [List.length_cons]; omega)
  | _ :: t, i + 1, h => by
    simp only [List.getD_cons_succ]
    exact getD_of_length_le d t i (by simp only [List.length_cons] at h; omega)

theorem map_length_set (L : List (List α)) (i : Nat) (x : List α) :
    (L.set i x).map List.length = (L.map List.length).set i x.length := by
  rw [List.map_set]

/-! ### sizeSum / weightSum -/

theorem sizeSum_append : ∀ a b : List (List α), sizeSum (a ++ b) = sizeSum a + sizeSum b
  | [], b => by simp only [List.nil_append, sizeSum, Nat.zero_add]
  | l :: t, b => by simp only [List.cons_append, sizeSum, sizeSum_append t b, Nat.add_assoc]

theorem sizeSum_append_nil (L : List (List α)) : sizeSum (L ++ [[]]) = sizeSum L := by
  rw [sizeSum_append]; rfl

theorem sizeSum_set : ∀ (L : List (List α)) (i : Nat) (x : List α), i < L.length →
    sizeSum (L.set i x) + (L.getD i []).length = sizeSum L + x.length
  | [], _, _, h => absurd h (Nat.not_lt_zero _)
  | l :: t, 0, x, _ => by simp only [List.set_cons_zero, sizeSum, List.getD_cons_zero]; omega
  | l :: t, i + 1, x, h => by
    have := sizeSum_set t i x (Nat.lt_of_succ_lt_succ h)
    simp only [List.set_cons_succ, sizeSum, List.getD_cons_succ]; omega

theorem sizeSum_eq_sum_map : ∀ L : List (List α), sizeSum L = (L.map List.length).sum
  | [] => rfl
  | l :: t => by simp only [sizeSum, List.map_cons, List.sum_cons, sizeSum_eq_sum_map t]

theorem weightSum_append : ∀ (h : Nat) (a b : List (List α)),
    weightSum h (a ++ b) = weightSum h a + weightSum (h + a.length) b
  | h, [], b => by simp only [List.nil_append, weightSum, Nat.zero_add, List.length_nil, Nat.add_zero]
  | h, l :: t, b => by
    have := weightSum_append (h + 1) t b
    simp only [List.cons_append, weightSum, List.length_cons, this]
    rw [show h + 1 + t.length = h + (t.length + 1) by omega]; omega

theorem weightSum_append_nil (h : Nat) (L : List (List α)) : weightSum h (L ++ [[]]) = weightSum h L := by
  rw [weightSum_append]
  simp only [weightSum, List.length_nil, Nat.mul_zero, Nat.add_zero]

theorem weightSum_set : ∀ (h : Nat) (L : List (List α)) (i : Nat) (x : List α), i < L.length →
    weightSum h (L.set i x) + 2 ^ (h + i) * (L.getD i []).length = weightSum h L + 2 ^ (h + i) * x.length
  | _, [], _, _, hi => absurd hi (Nat.not_lt_zero _)
  | h, l :: t, 0, x, _ => by
    simp only [List.set_cons_zero, weightSum, List.getD_cons_zero, Nat.add_zero]; omega
  | h, l :: t, i + 1, x, hi => by
    have := weightSum_set (h + 1) t i x (Nat.lt_of_succ_lt_succ hi)
    rw [show h + 1 + i = h + (i + 1) by omega] at this
    simp only [List.set_cons_succ, weightSum, List.getD_cons_succ]; omega

/-- pushing an item into level 0 adds weight 2^h -/
theorem weightSum_push (h : Nat) (x : α) (L : List (List α)) (hL : 0 < L.length) :
    weightSum h ((x :: L.headD []) :: L.tail) = weightSum h L + 2 ^ h := by
  cases L with
  | nil => exact absurd hL (Nat.lt_irrefl 0)
  | cons l t =>
    simp only [List.headD_cons, List.tail_cons, weightSum, List.length_cons, Nat.mul_add, Nat.mul_one]; omega

theorem sizeSum_push (x : α) (L : List (List α)) (hL : 0 < L.length) :
    sizeSum ((x :: L.headD []) :: L.tail) = sizeSum L + 1 := by
  cases L with
  | nil => exact absurd hL (Nat.lt_irrefl 0)
  | cons l t => simp only [List.headD_cons, List.tail_cons, sizeSum, List.length_cons]; omega

/-! ### compactAt (the model's compaction step) -/

theorem compactAt_length (lt : α → α → Bool) (srt c : Bool) (lvl : Nat) (L : List (List α)) :
    (compactAt lt srt c lvl L).length = L.length := by
  unfold compactAt; simp only [List.length_set]

/-- a compaction preserves the total weight (for either coin) -/
theorem weightSum_compactAt (lt : α → α → Bool) (srt c : Bool) (lvl : Nat) (L : List (List α))
    (h : lvl + 1 < L.length) : weightSum 0 (compactAt lt srt c lvl L) = weightSum 0 L := by
  unfold compactAt
  have h1 := weightSum_set 0 L lvl (leftoverOf (L.getD lvl [])) (by omega)
  have h2 := weightSum_set 0 (L.set lvl (leftoverOf (L.getD lvl []))) (lvl + 1)
    (newAbove lt srt c (L.getD lvl []) (L.getD (lvl + 1) [])) (by simp only [List.length_set]; exact h)
  rw [getD_set_ne _ _ _ _ _ (by omega)] at h2
  rw [newAbove_length] at h2
  rw [leftoverOf_length] at h1
  simp only [Nat.zero_add] at h1 h2
  rw [Nat.pow_succ] at h2
  generalize (L.getD lvl []).length = n at h1 h2
  generalize (L.getD (lvl + 1) []).length = m at h1 h2
  generalize 2 ^ lvl = w at h1 h2
  rw [Nat.mul_add] at h2
  have e : w * 2 * (n / 2) + w * (n % 2) = w * n := by
    rw [Nat.mul_assoc, ← Nat.mul_add]; congr 1; omega
  omega

/-- the number of retained items drops by half of the compacted level -/
theorem sizeSum_compactAt (lt : α → α → Bool) (srt c : Bool) (lvl : Nat) (L : List (List α))
    (h : lvl + 1 < L.length) :
    sizeSum (compactAt lt srt c lvl L) + (L.getD lvl []).length / 2 = sizeSum L := by
  unfold compactAt
  have h1 := sizeSum_set L lvl (leftoverOf (L.getD lvl [])) (by omega)
  have h2 := sizeSum_set (L.set lvl (leftoverOf (L.getD lvl []))) (lvl + 1)
    (newAbove lt srt c (L.getD lvl []) (L.getD (lvl + 1) [])) (by simp only [List.length_set]; exact h)
  rw [getD_set_ne _ _ _ _ _ (by omega)] at h2
  rw [newAbove_length] at h2
  rw [leftoverOf_length] at h1
  omega

end DS.Kll

/-
Soundness of the symbolic evaluation of unpack routines, and the lifted round trip (helper lemmas; see BitPackSound.lean).
-/
import DSProofs.Lemmas.BitPackSoundPack
namespace DS.Wire.BitPack

def srcMem (mem : List Nat) : Nat → Nat → Bool := fun j b => (mem.getD j 0).testBit b

theorem xbit_sound (mem : List Nat) (j pre mask t : Nat) (hbyte : mem.getD j 0 < 2 ^ 8) :
    Interp (srcMem mem) (xbit j pre mask t) ((((mem.getD j 0) >>> pre) &&& mask).testBit t) := by
  rw [Nat.testBit_and, Nat.testBit_shiftRight]
  unfold xbit
  split
  · rename_i h
    simp only [Interp, srcMem, h.2, Bool.and_true]
    rw [Nat.add_comm]
  · rename_i h
    simp only [Interp]
    by_cases hm : mask.testBit t = true
    · have : ¬ (t + pre < 8) := fun h1 => h ⟨h1, hm⟩
      have hlt : mem.getD j 0 < 2 ^ (pre + t) := Nat.lt_of_lt_of_le hbyte (Nat.pow_le_pow_right (by decide) (by omega))
      rw [Nat.testBit_lt_two_pow hlt]; rfl
    · have : mask.testBit t = false := by simpa using hm
      rw [this]; simp

theorem xval_lt (byte pre mask : Nat) (hb : byte < 2 ^ 8) : (byte >>> pre) &&& mask < 2 ^ 8 := by
  have h1 : (byte >>> pre) &&& mask ≤ byte >>> pre := Nat.and_le_left
  have h2 : byte >>> pre ≤ byte := by rw [Nat.shiftRight_eq_div_pow]; exact Nat.div_le_self _ _
  omega

theorem xbit_zero_of_ge (j pre mask t : Nat) (ht : 8 ≤ t) : xbit j pre mask t = .zero := by
  unfold xbit
  have : ¬ (t + pre < 8 ∧ mask.testBit t = true) := by intro h; omega
  simp [this]

/-- the operand of an accepted unpack statement is defined, below 2^64, and bitwise described by `unpackSBit` -/
theorem uoperand_sound (mem : List Nat) (j : Nat) (st : UStmt) (hbyte : mem.getD j 0 < 2 ^ 8) (hok : ushOk j st = true) :
    ∃ e, uoperand (mem.getD j 0) st = some e ∧ e < 2 ^ 64 ∧ ∀ p, p < 64 → Interp (srcMem mem) (unpackSBit j st p) (e.testBit p) := by
  simp only [ushOk, Bool.and_eq_true, decide_eq_true_eq] at hok
  obtain ⟨hpre, hsh⟩ := hok
  have hx := xval_lt (mem.getD j 0) st.pre st.mask hbyte
  have hx64 : (mem.getD j 0 >>> st.pre) &&& st.mask < 2 ^ 64 := Nat.lt_of_lt_of_le hx (by decide)
  unfold uoperand unpackSBit
  simp only [hpre, ↓reduceIte]
  cases hs : st.sh with
  | none =>
    simp only
    exact ⟨_, rfl, hx64, fun p _ => xbit_sound mem j st.pre st.mask p hbyte⟩
  | shr k =>
    rw [hs] at hsh
    simp only [decide_eq_true_eq] at hsh
    simp only [hsh, ↓reduceIte]
    refine ⟨_, rfl, ?_, ?_⟩
    · have : (mem.getD j 0 >>> st.pre &&& st.mask) >>> k ≤ mem.getD j 0 >>> st.pre &&& st.mask := by
        rw [Nat.shiftRight_eq_div_pow]; exact Nat.div_le_self _ _
      omega
    · intro p _
      rw [Nat.testBit_shiftRight, Nat.add_comm k p]
      exact xbit_sound mem j st.pre st.mask (p + k) hbyte
  | shl k =>
    rw [hs] at hsh
    simp only
    by_cases hc : st.cast = true
    · simp only [hc, ↓reduceIte, decide_eq_true_eq] at hsh ⊢
      simp only [hsh, ↓reduceIte]
      refine ⟨_, rfl, Nat.mod_lt _ (Nat.two_pow_pos _), ?_⟩
      intro p hp
      rw [Nat.testBit_mod_two_pow, Nat.testBit_shiftLeft]
      simp only [hp, decide_true, Bool.true_and]
      by_cases hk : p < k
      · have : ¬ p ≥ k := by omega
        simp [hk, this, Interp]
      · have : p ≥ k := by omega
        simp only [hk, ↓reduceIte, this, decide_true, Bool.true_and]
        exact xbit_sound mem j st.pre st.mask (p - k) hbyte
    · simp only [hc, Bool.false_eq_true, ↓reduceIte, Bool.and_eq_true, decide_eq_true_eq, List.all_eq_true, List.mem_range,
        Bool.or_eq_true, beq_iff_eq] at hsh ⊢
      obtain ⟨hk32, hall⟩ := hsh
      -- no possibly-set operand bit reaches bit 31
      have hlt31 : (mem.getD j 0 >>> st.pre &&& st.mask) <<< k < 2 ^ 31 := by
        apply Nat.lt_pow_two_of_testBit
        intro i hi
        rw [Nat.testBit_shiftLeft]
        by_cases hik : i ≥ k
        · simp only [hik, decide_true, Bool.true_and]
          by_cases ht : i - k < 8
          · rcases hall (i - k) ht with hz | hlt
            · have := xbit_sound mem j st.pre st.mask (i - k) hbyte
              rw [hz] at this
              simpa [Interp] using this
            · omega
          · have hlt : mem.getD j 0 >>> st.pre &&& st.mask < 2 ^ (i - k) :=
              Nat.lt_of_lt_of_le hx (Nat.pow_le_pow_right (by decide) (by omega))
            exact Nat.testBit_lt_two_pow hlt
        · simp [hik]
      simp only [hk32, hlt31, and_self, ↓reduceIte]
      refine ⟨_, rfl, Nat.lt_of_lt_of_le hlt31 (by decide), ?_⟩
      intro p _
      rw [Nat.testBit_shiftLeft]
      by_cases hk : p < k
      · have : ¬ p ≥ k := by omega
        simp [hk, this, Interp]
      · have : p ≥ k := by omega
        simp only [hk, ↓reduceIte, this, decide_true, Bool.true_and]
        exact xbit_sound mem j st.pre st.mask (p - k) hbyte

theorem ustep_sound (mem : List Nat) (hmem : ∀ j, mem.getD j 0 < 2 ^ 8)
    (s s' : SUState) (c : UState) (st : UStmt) (hptr : s.ptr = c.ptr) (hrel : MemRel (srcMem mem) 64 s.vals c.vals)
    (h : sustep mem.length s st = some s') :
    ∃ c', ustep mem c st = some c' ∧ s'.ptr = c'.ptr ∧ MemRel (srcMem mem) 64 s'.vals c'.vals := by
  unfold sustep at h
  split at h
  · rename_i hcond
    obtain ⟨hp, hvi, hok⟩ := hcond
    simp only [Option.some.injEq] at h
    obtain ⟨e, he, helt, hebits⟩ := uoperand_sound mem s.ptr st (hmem s.ptr) hok
    have hnew : WordRel (srcMem mem) 64 ((List.range 64).map (unpackSBit s.ptr st)) e := wordRel_ofFn _ 64 _ e helt hebits
    have hvi' : st.vi < c.vals.length := by rw [← hrel.len]; exact hvi
    unfold ustep
    have hc : c.ptr < mem.length ∧ st.vi < c.vals.length := ⟨by rw [← hptr]; exact hp, hvi'⟩
    rw [← hptr]
    rw [← hptr] at hc
    simp only [hc, and_self, ↓reduceIte, he]
    refine ⟨_, rfl, ?_, ?_⟩
    · rw [← h]
    · rw [← h]
      simp only
      apply memRel_set _ _ _ _ hrel
      by_cases hor : st.isOr = true
      · simp only [hor, ↓reduceIte]
        exact wordRel_or _ 64 _ _ _ _ (hrel.words st.vi hvi') hnew
      · simp only [hor, Bool.false_eq_true, ↓reduceIte]
        exact hnew
  · simp at h

theorem urun_sound (mem : List Nat) (hmem : ∀ j, mem.getD j 0 < 2 ^ 8) (stmts : List UStmt) :
    ∀ (s s' : SUState) (c : UState), s.ptr = c.ptr → MemRel (srcMem mem) 64 s.vals c.vals → surun mem.length stmts s = some s' →
      ∃ c', urun mem stmts c = some c' ∧ MemRel (srcMem mem) 64 s'.vals c'.vals := by
  induction stmts with
  | nil =>
    intro s s' c _ hrel h
    simp only [surun, Option.some.injEq] at h
    exact ⟨c, rfl, by rw [← h]; exact hrel⟩
  | cons st t ih =>
    intro s s' c hptr hrel h
    simp only [surun] at h
    cases h1 : sustep mem.length s st with
    | none => simp [h1] at h
    | some s1 =>
      simp only [h1] at h
      obtain ⟨c1, hc1, hp1, hr1⟩ := ustep_sound mem hmem s s1 c st hptr hrel h1
      obtain ⟨c', hc', hr'⟩ := ih s1 s' c1 hp1 hr1 h
      exact ⟨c', by simp [urun, hc1, hc'], hr'⟩

/-- **unpack soundness**: a routine whose symbolic layout is the specification layout computes the 8 fields of the
`n` big-endian bytes, for every block of `n` bytes and whatever the output array held before -/
theorem unpack_sound (n : Nat) (hn : n ≤ 64) (stmts : List UStmt) (h : symUnpack n stmts = some (specUnpackLayout n))
    (mem : List Nat) (hm : mem.length = n) (hb : ∀ x ∈ mem, x < 256)
    (vals0 : List Nat) (h0 : vals0.length = 8) (hv0 : ∀ v ∈ vals0, v < 2 ^ 64) :
    evalUnpack stmts mem vals0 = some (splitFields n 8 (joinFields 8 mem)) := by
  have hmem' : ∀ d ∈ mem, d < 2 ^ 8 := fun v hv => by
    have := hb v hv
    have e : (2 : Nat) ^ 8 = 256 := by decide
    omega
  have hmem : ∀ j, mem.getD j 0 < 2 ^ 8 := getD_lt_of_mem mem 8 hmem'
  unfold symUnpack at h
  cases hs : surun n stmts ⟨0, List.replicate 8 (List.replicate 64 .bad)⟩ with
  | none => rw [hs] at h; simp at h
  | some s' =>
    rw [hs] at h
    simp only [Option.map_some, Option.some.injEq] at h
    have hinit : MemRel (srcMem mem) 64 (List.replicate 8 (List.replicate 64 SBit.bad)) vals0 := by
      refine ⟨by simp [h0], ?_⟩
      intro j hj
      have hj8 : j < 8 := by rw [← h0]; exact hj
      rw [getD_replicate 8 _ _ j hj8]
      refine ⟨by simp, getD_lt_of_mem vals0 64 hv0 j, ?_⟩
      intro b hb64
      rw [getD_replicate 64 SBit.bad SBit.bad b hb64]
      trivial
    rw [← hm] at hs
    obtain ⟨c', hc', hrel⟩ := urun_sound mem hmem stmts _ s' ⟨0, vals0⟩ rfl hinit hs
    unfold evalUnpack
    simp only [hc', Option.map_some, Option.some.injEq]
    rw [h] at hrel
    have hlen' : c'.vals.length = 8 := by rw [← hrel.len]; simp [specUnpackLayout]
    apply memRel_eq (srcMem mem) 64 (specUnpackLayout n) c'.vals _ hrel (by rw [length_splitFields, hlen'])
    intro i hi
    have hi8 : i < 8 := by omega
    refine ⟨?_, ?_⟩
    · rw [getD_splitFields n 8 _ i hi8]
      exact Nat.lt_of_lt_of_le (Nat.mod_lt _ (Nat.two_pow_pos _)) (Nat.pow_le_pow_right (by decide) hn)
    · intro p hp64
      have hget : ((specUnpackLayout n).getD i []).getD p SBit.bad =
          if p < n then SBit.src (n - 1 - (n * (7 - i) + p) / 8) ((n * (7 - i) + p) % 8) else SBit.zero := by
        unfold specUnpackLayout
        rw [getD_map_range _ 8 i [] hi8, getD_map_range _ 64 p SBit.bad hp64]
      rw [hget, testBit_splitFields_get n 8 _ i p hi8]
      by_cases hpn : p < n
      · simp only [hpn, ↓reduceIte, decide_true, Bool.true_and, Interp, srcMem, ne_eq, reduceCtorEq, not_false_eq_true, and_true]
        have e : 8 - 1 - i = 7 - i := by omega
        rw [e]
        have hP : n * (7 - i) + p < 8 * mem.length := by
          rw [hm]
          have : n * (7 - i) ≤ n * 7 := Nat.mul_le_mul_left n (by omega)
          omega
        rw [testBit_joinFields 8 mem hmem' _ hP, hm]
      · simp [hpn, Interp]

/-! ### the lifted round trip -/

/-- bytes of a pack routine, then the unpack routine of the same width, give the values back -/
theorem unpack_pack_roundtrip (n : Nat) (hn : n ≤ 64) (pk : List PStmt) (up : List UStmt) (init : SBit)
    (hp : symPackInit init n pk = some (specPackLayout n)) (hu : symUnpack n up = some (specUnpackLayout n))
    (vals : List Nat) (hlen : vals.length = 8) (hv : ∀ v ∈ vals, v < 2 ^ n)
    (mem0 : List Nat) (hm : mem0.length = n) (hb : ∀ x ∈ mem0, x < 256)
    (hinit : init = .bad ∨ (init = .zero ∧ ∀ x ∈ mem0, x = 0))
    (vals0 : List Nat) (h0 : vals0.length = 8) (hv0 : ∀ v ∈ vals0, v < 2 ^ 64) :
    (evalPack pk vals mem0).bind (fun bytes => evalUnpack up bytes vals0) = some vals := by
  rw [pack_sound n pk init hp vals hlen hv mem0 hm hb hinit]
  simp only [Option.bind_some]
  have hbytes : ∀ x ∈ splitFields 8 n (joinFields n vals), x < 256 := by
    intro x hx
    have := splitFields_lt 8 n _ x hx
    have e : (2 : Nat) ^ 8 = 256 := by decide
    omega
  rw [unpack_sound n hn up hu _ (length_splitFields 8 n _) hbytes vals0 h0 hv0]
  congr 1
  rw [joinFields_splitFields]
  have hj := joinFields_lt n vals hv
  rw [hlen] at hj
  have e : 8 * n = n * 8 := Nat.mul_comm 8 n
  rw [e, Nat.mod_eq_of_lt hj]
  have := splitFields_joinFields n vals hv
  rw [hlen] at this
  exact this

end DS.Wire.BitPack

/- L2 part 3: list-level facts (entries, upsert membership, extensionality of key-sorted lists). -/
import DSProofs.Lemmas.ThetaTable
import DSProofs.Lemmas.TupleInter
namespace DS.Theta.L2
open DS.Theta
variable {σ : Type}

theorem mem_keys_of_mem (l : List (Nat × σ)) (x : Nat × σ) (h : x ∈ l) : x.1 ∈ keys l := by
  unfold keys; exact List.mem_map.2 ⟨x, h, rfl⟩

theorem exists_of_mem_keys (l : List (Nat × σ)) (k : Nat) (h : k ∈ keys l) : ∃ v, (k, v) ∈ l := by
  unfold keys at h
  obtain ⟨x, hx, rfl⟩ := List.mem_map.1 h
  exact ⟨x.2, hx⟩

/-- two strictly key-sorted entry lists with the same elements are equal -/
theorem sorted_ext_kv : ∀ (l1 l2 : List (Nat × σ)), (keys l1).Pairwise (· < ·) → (keys l2).Pairwise (· < ·) →
    (∀ x, x ∈ l1 ↔ x ∈ l2) → l1 = l2
  | [], [], _, _, _ => rfl
  | [], b :: _, _, _, h => by have := (h b).2 (by simp); simp at this
  | a :: _, [], _, _, h => by have := (h a).1 (by simp); simp at this
  | a :: t1, b :: t2, h1, h2, h => by
    simp only [keys_cons, List.pairwise_cons] at h1 h2
    have hab : a = b := by
      have ha := (h a).1 (by simp)
      have hb := (h b).2 (by simp)
      simp only [List.mem_cons] at ha hb
      rcases ha with ha | ha
      · exact ha
      · rcases hb with hb | hb
        · exact hb.symm
        · have := h2.1 a.1 (mem_keys_of_mem t2 a ha); have := h1.1 b.1 (mem_keys_of_mem t1 b hb); omega
    subst hab
    congr 1
    apply sorted_ext_kv t1 t2 h1.2 h2.2
    intro x
    constructor
    · intro hx
      have := (h x).1 (by simp [hx])
      simp only [List.mem_cons] at this
      rcases this with rfl | h3
      · have := h1.1 x.1 (mem_keys_of_mem t1 x hx); omega
      · exact h3
    · intro hx
      have := (h x).2 (by simp [hx])
      simp only [List.mem_cons] at this
      rcases this with rfl | h3
      · have := h2.1 x.1 (mem_keys_of_mem t2 x hx); omega
      · exact h3

theorem mem_upsert_new (h : Nat) (f : Option σ → σ) (l : List (Nat × σ)) (hn : h ∉ keys l) (x : Nat × σ) :
    x ∈ upsert h f l ↔ (x = (h, f none) ∨ x ∈ l) := by
  induction l with
  | nil => simp [upsert]
  | cons a t ih =>
    obtain ⟨k, v⟩ := a
    simp only [keys_cons, List.mem_cons, not_or] at hn
    simp only [upsert]
    split
    · simp
    · split
      · rename_i _ hk; exact absurd hk hn.1
      · simp only [List.mem_cons, ih hn.2]
        constructor
        · rintro (h1 | h1 | h1) <;> simp [h1]
        · rintro (h1 | h1 | h1) <;> simp [h1]

theorem mem_upsert_old (h : Nat) (f : Option σ → σ) (l : List (Nat × σ)) (hs : (keys l).Pairwise (· < ·)) (v : σ)
    (hl : lookup h l = some v) (x : Nat × σ) :
    x ∈ upsert h f l ↔ (x = (h, f (some v)) ∨ (x ∈ l ∧ x.1 ≠ h)) := by
  induction l with
  | nil => simp [lookup] at hl
  | cons a t ih =>
    obtain ⟨k, v0⟩ := a
    simp only [keys_cons, List.pairwise_cons] at hs
    simp only [lookup] at hl
    simp only [upsert]
    by_cases hk : k = h
    · subst hk
      simp only [if_true, Option.some.injEq] at hl
      subst hl
      simp only [Nat.lt_irrefl, if_false, if_true, List.mem_cons]
      constructor
      · rintro (h1 | h1)
        · exact Or.inl h1
        · right
          refine ⟨Or.inr h1, ?_⟩
          have := hs.1 x.1 (mem_keys_of_mem t x h1); omega
      · rintro (h1 | ⟨h1 | h1, h2⟩)
        · exact Or.inl h1
        · subst h1; exact absurd rfl h2
        · exact Or.inr h1
    · simp only [hk, if_false] at hl
      have hin : h ∈ keys t := (lookup_some_iff h t).1 ⟨v, hl⟩
      have hlt : k < h := hs.1 h hin
      have h1 : ¬ h < k := by omega
      have h2 : ¬ h = k := fun e => hk e.symm
      simp only [h1, h2, if_false, List.mem_cons, ih hs.2 hl]
      constructor
      · rintro (h3 | h3 | ⟨h3, h4⟩)
        · subst h3; exact Or.inr ⟨Or.inl rfl, hk⟩
        · exact Or.inl h3
        · exact Or.inr ⟨Or.inr h3, h4⟩
      · rintro (h3 | ⟨h3 | h3, h4⟩)
        · exact Or.inr (Or.inl h3)
        · exact Or.inl h3
        · exact Or.inr (Or.inr ⟨h3, h4⟩)

/-- index-distinct keys give a duplicate-free key list of the entries -/
theorem keys_entries_nodup : ∀ (slots : Slots σ),
    (∀ (i i' k : Nat) (v v' : σ), slots[i]? = some (some (k, v)) → slots[i']? = some (some (k, v')) → i = i') →
    (keys (entries slots)).Nodup
  | [], _ => by simp [entries]
  | a :: t, h => by
    have ht : ∀ (i i' k : Nat) (v v' : σ), t[i]? = some (some (k, v)) → t[i']? = some (some (k, v')) → i = i' := by
      intro i i' k v v' h1 h2
      have := h (i + 1) (i' + 1) k v v' (by simpa using h1) (by simpa using h2)
      omega
    have ih := keys_entries_nodup t ht
    cases a with
    | none => simpa [entries] using ih
    | some e =>
      have he : entries (some e :: t) = e :: entries t := by simp [entries]
      rw [he, keys_cons, List.nodup_cons]
      refine ⟨?_, ih⟩
      intro hc
      obtain ⟨v', hv'⟩ := exists_of_mem_keys _ _ hc
      obtain ⟨i, hi⟩ := (mem_entries t (e.1, v')).1 hv'
      have := h 0 (i + 1) e.1 e.2 v' (by simp) (by simpa using hi)
      omega

theorem entries_length_le (slots : Slots σ) : (entries slots).length ≤ slots.length := by
  unfold entries; exact List.length_filterMap_le _ _

/-- a table with fewer entries than slots has an empty slot -/
theorem exists_empty : ∀ (slots : Slots σ), (entries slots).length < slots.length → ∃ e, e < slots.length ∧ slots[e]? = some none
  | [], h => by simp at h
  | a :: t, h => by
    cases a with
    | none => exact ⟨0, by simp, by simp⟩
    | some e =>
      have he : entries (some e :: t) = e :: entries t := by simp [entries]
      rw [he] at h
      simp only [List.length_cons] at h
      obtain ⟨i, hi, his⟩ := exists_empty t (by omega)
      exact ⟨i + 1, by simp; omega, by simpa using his⟩

theorem entries_set_length : ∀ (slots : Slots σ) (idx : Nat) (e : Nat × σ), slots[idx]? = some none →
    (entries (slots.set idx (some e))).length = (entries slots).length + 1
  | [], idx, e, h => by simp at h
  | a :: t, 0, e, h => by
    simp only [List.getElem?_cons_zero, Option.some.injEq] at h
    subst h
    simp [entries]
  | a :: t, idx + 1, e, h => by
    simp only [List.getElem?_cons_succ] at h
    have ih := entries_set_length t idx e h
    cases a with
    | none => simpa [entries] using ih
    | some x =>
      have : entries (some x :: t) = x :: entries t := by simp [entries]
      have h2 : entries ((some x :: t).set (idx + 1) (some e)) = x :: entries (t.set idx (some e)) := by simp [entries]
      rw [this, h2]; simp [ih]

end DS.Theta.L2

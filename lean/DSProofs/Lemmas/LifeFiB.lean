/- C19 / FI part B: constructor, destructor, copy constructor, copy assignment, `get`. -/
import DSProofs.Lemmas.LifeFiA
namespace DS.Life.Fi
open DS.Life

/-! ### three fresh arrays -/

def alloc3 (h : Heap) (n : Nat) : Heap := ((h.afterAlloc .item n).afterAlloc .u64 n).afterAlloc .u16 n

structure Fresh3 (h h3 : Heap) (n : Nat) : Prop where
  ck : HasCells h3 h.next n
  cv : HasCells h3 (h.next + 1) n
  cs : HasCells h3 (h.next + 2) n
  rk : ∀ i, stAt h3 h.next i = .raw
  rv : ∀ i, stAt h3 (h.next + 1) i = .raw
  rs : ∀ i, stAt h3 (h.next + 2) i = .raw
  next : h3.next = h.next + 3
  ids : h3.ids = (h.next + 2) :: (h.next + 1) :: h.next :: h.ids
  old : ∀ b, b < h.next → h3.find? b = h.find? b

theorem stAt_afterAlloc_fresh (h : Heap) (k : Kind) (n i : Nat) : stAt (h.afterAlloc k n) h.next i = .raw := by
  unfold stAt
  rw [cell?_afterAlloc, if_pos rfl]
  by_cases hi : i < n <;> simp [hi]

theorem alloc3_fresh (h : Heap) (n : Nat) : Fresh3 h (alloc3 h n) n := by
  unfold alloc3
  refine ⟨?_, ?_, ?_, ?_, ?_, ?_, rfl, rfl, ?_⟩
  · simp [HasCells, count?_afterAlloc]
  · simp [HasCells, count?_afterAlloc]
  · simp [HasCells, count?_afterAlloc]
  · intro i
    rw [stAt_afterAlloc_ne (by simp; omega), stAt_afterAlloc_ne (by simp)]
    exact stAt_afterAlloc_fresh h _ n i
  · intro i
    rw [stAt_afterAlloc_ne (by simp)]
    exact stAt_afterAlloc_fresh (h.afterAlloc .item n) _ n i
  · intro i
    exact stAt_afterAlloc_fresh ((h.afterAlloc .item n).afterAlloc .u64 n) _ n i
  · intro b hb
    simp only [find?_afterAlloc, next_afterAlloc]
    have e1 : ¬ (b = h.next + 1 + 1) := by omega
    have e2 : ¬ (b = h.next + 1) := by omega
    have e3 : ¬ (b = h.next) := by omega
    simp only [e1, e2, e3, if_false]

/-- three allocations in a row -/
theorem step_alloc3 {β} {S} {h : Heap} (n : Nat) {f : Nat → Nat → Nat → M β} {Q : β → Heap → Prop}
    (hS : ∀ b, h.next ≤ b → S b = true)
    (s : SafeF S (alloc3 h n) (f h.next (h.next + 1) (h.next + 2) (alloc3 h n)) Q) :
    SafeF S h ((alloc .item n >>= fun k => alloc .u64 n >>= fun v => alloc .u16 n >>= fun s => f k v s) h) Q := by
  apply step_alloc _ _ (hS _ (Nat.le_refl _))
  apply step_alloc _ _ (hS _ (by simp))
  apply step_alloc _ _ (hS _ (by simp; omega))
  exact s

/-- an all-raw table with zeroed states is an empty usable table -/
theorem Tbl.empty {u : Bool} {h : Heap} {k v s n : Nat} (ck : HasCells h k n) (cv : HasCells h v n) (cs : HasCells h s n)
    (kv : k ≠ v) (ks : k ≠ s) (vs : v ≠ s) (ltk : k < h.next) (ltv : v < h.next) (lts : s < h.next)
    (rk : ∀ i, stAt h k i = .raw) (rv : ∀ i, stAt h v i = .raw) (rs : ∀ i, stAt h s i = .raw)
    (hz : ∀ i, i < n → wordAt h s i = 0) : Tbl u [] h k v s n ∧ cnt (act h s) n = 0 := by
  refine ⟨⟨ck, cv, cs, kv, ks, vs, ltk, ltv, lts, rv, rs, fun i hi _ => SlotOK.inactive (hz i hi) (rk i)⟩, ?_⟩
  apply cnt_zero_of_all_false
  intro i hi
  simp [act, hz i hi]

/-! ### `fill0` and the word copy loop -/

theorem fill0_spec (n0 : Nat) (S : Nat → Bool) (b size : Nat) (hS : S b = true) (h0 : Heap) (hc0 : HasCells h0 b size) :
    TripleS n0 S (fun h => h = h0) (fill0 b size)
      (fun _ h => SameBut [b] h0 h ∧ HasCells h b size ∧ (∀ i, stAt h b i = stAt h0 b i) ∧
        ∀ i, i < size → wordAt h b i = 0) := by
  unfold fill0
  have := TripleS.loopUp (n0 := n0) (S := S)
    (fun k h => SameBut [b] h0 h ∧ HasCells h b size ∧ (∀ i, stAt h b i = stAt h0 b i) ∧ ∀ i, i < k → wordAt h b i = 0)
    (fun i => writeWord b i 0) size 0 ?_
  · refine this.conseq ?_ ?_
    · intro h e; subst e
      exact ⟨SameBut.refl _ _, hc0, fun _ => rfl, fun i hi => by omega⟩
    · intro _ h ⟨a, c, r, z⟩
      exact ⟨a, c, r, fun i hi => z i (by omega)⟩
  · intro i _ hi h _ ⟨sb, hc, hr, hz⟩
    obtain ⟨c, e⟩ := hc.cell (by omega : i < size)
    apply SafeF.last
    apply step_writeWord 0 e hS
    apply SafeF.pure
    refine ⟨sb.setCell _ _ (by simp), HasCells_setCell _ _ _ hc, ?_, ?_⟩
    · intro j; rw [stAt_setCell_word 0 e]; exact hr j
    · intro j hj
      by_cases hji : j = i
      · subst hji; rw [wordAt_setCell_eq _ e]
      · rw [wordAt_setCell_ne _ _ _ _ (fun hh => hji hh.2)]; exact hz j (by omega)

/-- `std::copy(src, src + size, dst)` on trivially copyable elements -/
theorem copyWords_spec (n0 : Nat) (S : Nat → Bool) (src dst size : Nat) (hS : S dst = true) (hne : src ≠ dst) (h0 : Heap)
    (hc0 : HasCells h0 dst size) (hs0 : HasCells h0 src size) :
    TripleS n0 S (fun h => h = h0) (loopUp (fun i => do let w ← readWord src i; writeWord dst i w) size 0)
      (fun _ h => SameBut [dst] h0 h ∧ HasCells h dst size ∧ (∀ i, stAt h dst i = stAt h0 dst i) ∧
        ∀ i, i < size → wordAt h dst i = wordAt h0 src i) := by
  have := TripleS.loopUp (n0 := n0) (S := S)
    (fun k h => SameBut [dst] h0 h ∧ HasCells h dst size ∧ (∀ i, stAt h dst i = stAt h0 dst i) ∧
      ∀ i, i < k → wordAt h dst i = wordAt h0 src i)
    (fun i => do let w ← readWord src i; writeWord dst i w) size 0 ?_
  · refine this.conseq ?_ ?_
    · intro h e; subst e
      exact ⟨SameBut.refl _ _, hc0, fun _ => rfl, fun i hi => by omega⟩
    · intro _ h ⟨a, c, r, z⟩
      exact ⟨a, c, r, fun i hi => z i (by omega)⟩
  · intro i _ hi h _ ⟨sb, hc, hr, hz⟩
    have esrc : h.find? src = h0.find? src := sb.out src (by simp [hne])
    obtain ⟨cs, es, ews, _⟩ := (HasCells_congr esrc hs0).cell_st (by omega : i < size)
    obtain ⟨c, e⟩ := hc.cell (by omega : i < size)
    apply step_readWord es
    apply SafeF.last
    apply step_writeWord _ e hS
    apply SafeF.pure
    refine ⟨sb.setCell _ _ (by simp), HasCells_setCell _ _ _ hc, ?_, ?_⟩
    · intro j; rw [stAt_setCell_word _ e]; exact hr j
    · intro j hj
      by_cases hji : j = i
      · subst hji; rw [wordAt_setCell_eq _ e, ews, wordAt_congr esrc]
      · rw [wordAt_setCell_ne _ _ _ _ (fun hh => hji hh.2)]; exact hz j (by omega)

/-! ### constructor -/

theorem ctor_spec (P : Params) (n0 : Nat) (S : Nat → Bool) (hS : ∀ b, n0 ≤ b → S b = true) (lgCur lgMax : Nat)
    (hlg : P.lgMinMap ≤ lgCur) (h0 : Heap) :
    TripleS n0 S (fun h => h = h0) (ctor lgCur lgMax)
      (fun m h' => Usable P h' m ∧
        m = { lgCur, lgMax, numActive := 0, keys := some h0.next, values := some (h0.next + 1), states := some (h0.next + 2) } ∧
        h'.ids = (h0.next + 2) :: (h0.next + 1) :: h0.next :: h0.ids ∧ h'.next = h0.next + 3 ∧
        ∀ b, b < h0.next → h'.find? b = h0.find? b) := by
  intro h hn he
  subst he
  unfold ctor
  apply step_alloc3 _ (fun b hb => hS b (by omega))
  have F := alloc3_fresh h (2 ^ lgCur)
  generalize alloc3 h (2 ^ lgCur) = h3 at F
  apply SafeF.bind_triple (fill0_spec n0 S (h.next + 2) (2 ^ lgCur) (hS _ (by omega)) h3 F.cs) (by rw [F.next]; omega) rfl
  intro _ h4 ⟨sb, cs4, rs4, hz⟩ _
  apply SafeF.pure
  have e0 : h4.find? h.next = h3.find? h.next := sb.out _ (by simp)
  have e1 : h4.find? (h.next + 1) = h3.find? (h.next + 1) := sb.out _ (by simp)
  have hT := Tbl.empty (u := true) (h := h4) (HasCells_congr e0 F.ck) (HasCells_congr e1 F.cv) cs4
    (by omega) (by omega) (by omega) (by rw [sb.next, F.next]; omega) (by rw [sb.next, F.next]; omega)
    (by rw [sb.next, F.next]; omega) (fun i => by rw [stAt_congr e0]; exact F.rk i)
    (fun i => by rw [stAt_congr e1]; exact F.rv i) (fun i => by rw [rs4]; exact F.rs i) hz
  refine ⟨⟨hlg, Nat.zero_le _, hT.1, hT.2.symm⟩, rfl, by rw [sb.ids, F.ids], by rw [sb.next, F.next], ?_⟩
  intro b hb
  rw [sb.out b (by simp; omega), F.old b hb]

/-! ### destructor -/

/-- the rest of the destructor after the destruction loop -/
def dtorTail (m : Map) : M Unit := do
  match m.keys with
  | some k => dealloc k (2 ^ m.lgCur)
  | none => pure ()
  match m.values with
  | some v => dealloc v (2 ^ m.lgCur)
  | none => pure ()
  match m.states with
  | some s => dealloc s (2 ^ m.lgCur)
  | none => pure ()

theorem dtor_eq (m : Map) : dtor m =
    if m.numActive > 0 then (do
      let k ← deref m.keys
      let s ← deref m.states
      dtorLoop k s (2 ^ m.lgCur) 0 m.numActive
      dtorTail m)
    else dtorTail m := rfl

theorem dtorLoop_succ (k s f i num : Nat) : dtorLoop k s (f + 1) i num = (do
    let st ← readWord s i
    if st > 0 then
      destroy k i
      if num - 1 = 0 then pure () else dtorLoop k s f (i + 1) (num - 1)
    else dtorLoop k s f (i + 1) num) := rfl

/-- the destruction loop leaves the keys array all raw -/
theorem dtorLoop_spec (n0 : Nat) (S : Nat → Bool) (k v s n : Nat) (hS : S k = true) (h0 : Heap)
    (T : Tbl false [] h0 k v s n) :
    ∀ f i num, f + i = n → TripleS n0 S
      (fun h => SameBut [k] h0 h ∧ HasCells h k n ∧ (∀ j, j < i → stAt h k j = .raw) ∧
        (∀ j, i ≤ j → stAt h k j = stAt h0 k j) ∧ cnt (act h0 s) n = cnt (act h0 s) i + num)
      (dtorLoop k s f i num)
      (fun _ h => SameBut [k] h0 h ∧ HasCells h k n ∧ ∀ j, j < n → stAt h k j = .raw) := by
  intro f
  induction f with
  | zero =>
    intro i num hfi h _ ⟨sb, hc, hr, _, _⟩
    apply SafeF.pure
    exact ⟨sb, hc, fun j hj => hr j (by omega)⟩
  | succ f ih =>
    intro i num hfi h hn ⟨sb, hc, hr, hsame, hcnt⟩
    have hi : i < n := by omega
    rw [dtorLoop_succ]
    have es : h.find? s = h0.find? s := sb.out s (by simp; exact fun e => T.ks e.symm)
    obtain ⟨cs, ecs, ews, _⟩ := (HasCells_congr es T.cs).cell_st hi
    rw [wordAt_congr es] at ews
    apply step_readWord ecs
    have hslot := T.slot i hi (by simp)
    by_cases hw : cs.word > 0
    · rw [if_pos hw]
      have hnr : stAt h k i ≠ .raw := by
        rw [hsame i (Nat.le_refl _)]; exact hslot.nonraw_of_pos (by omega)
      obtain ⟨ck, eck, est, _⟩ := cell_of_stAt_ne_raw hnr
      have hai : act h0 s i = true := by simp [act]; omega
      have hc1 : cnt (act h0 s) (i + 1) = cnt (act h0 s) i + 1 := by rw [cnt_succ, hai]; rfl
      have hmono := cnt_mono (act h0 s) (by omega : i + 1 ≤ n)
      apply step_destroy eck (by rw [est]; exact hnr) hS
      intro ev
      have hr' : ∀ j, j < i + 1 → stAt ((h.setCell k i { ck with st := .raw }).addLog ev) k j = .raw := by
        intro j hj
        rw [stAt_addLog]
        by_cases hji : j = i
        · subst hji; rw [stAt_setCell_eq _ eck]
        · rw [stAt_setCell_ne _ _ _ _ (fun hh => hji hh.2)]; exact hr j (by omega)
      have hsame' : ∀ j, i + 1 ≤ j → stAt ((h.setCell k i { ck with st := .raw }).addLog ev) k j = stAt h0 k j := by
        intro j hj
        rw [stAt_addLog, stAt_setCell_ne _ _ _ _ (fun hh => by omega)]; exact hsame j (by omega)
      by_cases hnum : num - 1 = 0
      · rw [if_pos hnum]
        apply SafeF.pure
        refine ⟨(sb.setCell _ _ (by simp)).addLog _, HasCells_addLog _ (HasCells_setCell _ _ _ hc), ?_⟩
        intro j hj
        by_cases hji : j < i + 1
        · exact hr' j hji
        · rw [hsame' j (by omega)]
          have hfalse := cnt_eq_imp_false (f := act h0 s) (m := i + 1) (n := n) (by omega) (by omega) j (by omega) hj
          have : wordAt h0 s j = 0 := by simpa [act] using hfalse
          exact (T.slot j hj (by simp)).raw_of_zero this
      · rw [if_neg hnum]
        exact ih (i + 1) (num - 1) (by omega) _ (by simpa using hn)
          ⟨(sb.setCell _ _ (by simp)).addLog _, HasCells_addLog _ (HasCells_setCell _ _ _ hc), hr', hsame', by omega⟩
    · rw [if_neg hw]
      have hw0 : wordAt h0 s i = 0 := by omega
      have hai : act h0 s i = false := by simp [act, hw0]
      have hc1 : cnt (act h0 s) (i + 1) = cnt (act h0 s) i := by rw [cnt_succ, hai]; rfl
      refine ih (i + 1) num (by omega) h hn ⟨sb, hc, ?_, fun j hj => hsame j (by omega), by omega⟩
      intro j hj
      by_cases hji : j = i
      · subst hji; rw [hsame j (Nat.le_refl _)]; exact hslot.raw_of_zero hw0
      · exact hr j (by omega)

/-- three deallocations of all-raw arrays -/
theorem dealloc3_spec (n0 : Nat) (S : Nat → Bool) (m : Map) (k v s : Nat) (hk : m.keys = some k) (hv : m.values = some v)
    (hs : m.states = some s) (hS : ∀ b, b ∈ [k, v, s] → S b = true) (h0 : Heap) :
    TripleS n0 S
      (fun h => SameBut [k] h0 h ∧ HasCells h k (2 ^ m.lgCur) ∧ HasCells h v (2 ^ m.lgCur) ∧ HasCells h s (2 ^ m.lgCur) ∧
        k ≠ v ∧ k ≠ s ∧ v ≠ s ∧
        (∀ j, j < 2 ^ m.lgCur → stAt h k j = .raw) ∧ (∀ j, stAt h v j = .raw) ∧ (∀ j, stAt h s j = .raw))
      (dtorTail m)
      (fun _ h' => (∀ b, b ∈ h'.ids ↔ b ∈ h0.ids ∧ b ∉ [k, v, s]) ∧ h'.next = h0.next ∧
        ∀ b, b ∉ [k, v, s] → h'.find? b = h0.find? b) := by
  intro h hn ⟨sb, ck, cv, cs, kv, ks, vs, rk, rv, rs⟩
  unfold dtorTail
  simp only [hk, hv, hs]
  apply step_dealloc ck ?_ (hS k (by simp))
  · intro k1
    apply step_dealloc (HasCells_afterFree_ne (Ne.symm kv) cv) ?_ (hS v (by simp))
    · intro k2
      apply SafeF.last
      apply step_dealloc (HasCells_afterFree_ne (Ne.symm vs) (HasCells_afterFree_ne (Ne.symm ks) cs)) ?_ (hS s (by simp))
      · intro k3
        apply SafeF.pure
        refine ⟨?_, by simp [sb.next], ?_⟩
        · intro b
          simp only [ids_afterFree, List.mem_filter, sb.ids, List.mem_cons, List.not_mem_nil, or_false, bne_iff_ne, ne_eq]
          constructor
          · intro ⟨⟨⟨a, b1⟩, c⟩, d⟩; exact ⟨a, fun hh => by rcases hh with e | e | e <;> contradiction⟩
          · intro ⟨a, hh⟩
            exact ⟨⟨⟨a, fun e => hh (Or.inl e)⟩, fun e => hh (Or.inr (Or.inl e))⟩, fun e => hh (Or.inr (Or.inr e))⟩
        · intro b hb
          simp only [List.mem_cons, List.not_mem_nil, or_false, not_or] at hb
          rw [find?_afterFree_ne _ _ _ _ hb.2.2, find?_afterFree_ne _ _ _ _ hb.2.1, find?_afterFree_ne _ _ _ _ hb.1]
          exact sb.out b (by simp [hb.1])
      · intro i hi
        obtain ⟨c, e, _, est⟩ := cs.cell_st hi
        refine ⟨c, ?_, by rw [est]; exact rs i⟩
        rw [cell?_afterFree, if_neg (Ne.symm vs), cell?_afterFree, if_neg (Ne.symm ks)]; exact e
    · intro i hi
      obtain ⟨c, e, _, est⟩ := cv.cell_st hi
      refine ⟨c, ?_, by rw [est]; exact rv i⟩
      rw [cell?_afterFree, if_neg (Ne.symm kv)]; exact e
  · intro i hi
    obtain ⟨c, e, _, est⟩ := ck.cell_st hi
    exact ⟨c, e, by rw [est]; exact rk i hi⟩

/-- destructor, for any footprint that contains the object's blocks -/
theorem dtor_spec (P : Params) (n0 : Nat) (S : Nat → Bool) (m : Map) (hS : ∀ b, b ∈ owned m → S b = true) (h0 : Heap) :
    TripleS n0 S (fun h => h = h0 ∧ Inv P h m) (dtor m)
      (fun _ h' => (∀ b, b ∈ h'.ids ↔ b ∈ h0.ids ∧ b ∉ owned m) ∧ h'.next = h0.next ∧
        ∀ b, b ∉ owned m → h'.find? b = h0.find? b) := by
  intro h hn ⟨he, hi⟩
  subst he
  rcases InvG.ptrs hi with ⟨k, v, s, hk, hv, hs, ho, T, hc⟩ | ⟨hk, hv, hs, ho, _, hc⟩
  · rw [ho] at hS ⊢
    rw [dtor_eq]
    have tail := dealloc3_spec n0 S m k v s hk hv hs hS h
    by_cases hna : m.numActive > 0
    · rw [if_pos hna, hk, hs]
      apply step_deref
      apply step_deref
      apply SafeF.bind_triple (dtorLoop_spec n0 S k v s (2 ^ m.lgCur) (hS k (by simp)) h T (2 ^ m.lgCur) 0 m.numActive rfl)
        hn ⟨SameBut.refl _ _, T.ck, fun j hj => by omega, fun _ _ => rfl, by simp [cnt, hc]⟩
      intro _ h1 ⟨sb, ck1, rk1⟩ hn1
      have ev : h1.find? v = h.find? v := sb.out v (by simp; exact fun e => T.kv e.symm)
      have es : h1.find? s = h.find? s := sb.out s (by simp; exact fun e => T.ks e.symm)
      exact tail h1 (by omega) ⟨sb, ck1, HasCells_congr ev T.cv, HasCells_congr es T.cs, T.kv, T.ks, T.vs, rk1,
        fun j => by rw [stAt_congr ev]; exact T.rawv j, fun j => by rw [stAt_congr es]; exact T.raws j⟩
    · rw [if_neg hna]
      have h0' : cnt (act h s) (2 ^ m.lgCur) = 0 := by omega
      refine tail h hn ⟨SameBut.refl _ _, T.ck, T.cv, T.cs, T.kv, T.ks, T.vs, ?_, T.rawv, T.raws⟩
      intro j hj
      have := cnt_eq_zero_imp h0' j hj
      exact (T.slot j hj (by simp)).raw_of_zero (by simpa [act] using this)
  · rw [dtor_eq, if_neg (by omega)]
    unfold dtorTail
    simp only [hk, hv, hs, ho]
    apply SafeF.pure
    simp

end DS.Life.Fi

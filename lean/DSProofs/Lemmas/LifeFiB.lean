/- C19 / FI part B: constructor, destructor, copy constructor, copy assignment, `get`. -/
import DSProofs.Lemmas.LifeFiA
namespace DS.Life.Fi
open DS.Life

/-! ### three fresh arrays -/

def alloc3 (h : Heap) (n : Nat) : Heap := ((h.afterAlloc .item n).afterAlloc .u64 n).afterAlloc .u16 n

structure Fresh3 (h h3 : Heap) (n : Nat) : Prop where
  ck : HasCells h3 h.next n
  cv : HasCells h3 (h.next + 1) n
  cs : HasCells h3 (h.next + 2) n
  rk : ∀ i, stAt h3 h.next i = .raw
  rv : ∀ i, stAt h3 (h.next + 1) i = .raw
  rs : ∀ i, stAt h3 (h.next + 2) i = .raw
  next : h3.next = h.next + 3
  ids : h3.ids = (h.next + 2) :: (h.next + 1) :: h.next :: h.ids
  old : ∀ b, b < h.next → h3.find? b = h.find? b

theorem stAt_afterAlloc_fresh (h : Heap) (k : Kind) (n i : Nat) : stAt (h.afterAlloc k n) h.next i = .raw := by
  unfold stAt
  rw [cell?_afterAlloc, if_pos rfl]
  by_cases hi : i < n <;> simp [hi]

theorem alloc3_fresh (h : Heap) (n : Nat) : Fresh3 h (alloc3 h n) n := by
  unfold alloc3
  refine ⟨?_, ?_, ?_, ?_, ?_, ?_, rfl, rfl, ?_⟩
  · simp [HasCells, count?_afterAlloc]
  · simp [HasCells, count?_afterAlloc]
  · simp [HasCells, count?_afterAlloc]
  · intro i
    rw [stAt_afterAlloc_ne (by simp; omega), stAt_afterAlloc_ne (by simp)]
    exact stAt_afterAlloc_fresh h _ n i
  · intro i
    rw [stAt_afterAlloc_ne (by simp)]
    exact stAt_afterAlloc_fresh (h.afterAlloc .item n) _ n i
  · intro i
    exact stAt_afterAlloc_fresh ((h.afterAlloc .item n).afterAlloc .u64 n) _ n i
  · intro b hb
    simp only [find?_afterAlloc, next_afterAlloc]
    have e1 : ¬ (b = h.next + 1 + 1) := by omega
    have e2 : ¬ (b = h.next + 1) := by omega
    have e3 : ¬ (b = h.next) := by omega
    simp only [e1, e2, e3, if_false]

/-- three allocations in a row -/
theorem step_alloc3 {β} {S} {h : Heap} (n : Nat) {f : Nat → Nat → Nat → M β} {Q : β → Heap → Prop}
    (hS : ∀ b, h.next ≤ b → S b = true)
    (s : SafeF S (alloc3 h n) (f h.next (h.next + 1) (h.next + 2) (alloc3 h n)) Q) :
    SafeF S h ((alloc .item n >>= fun k => alloc .u64 n >>= fun v => alloc .u16 n >>= fun s => f k v s) h) Q := by
  apply step_alloc _ _ (hS _ (Nat.le_refl _))
  apply step_alloc _ _ (hS _ (by simp))
  apply step_alloc _ _ (hS _ (by simp; omega))
  exact s

/-- an all-raw table with zeroed states is an empty usable table -/
theorem Tbl.empty {u : Bool} {h : Heap} {k v s n : Nat} (ck : HasCells h k n) (cv : HasCells h v n) (cs : HasCells h s n)
    (kv : k ≠ v) (ks : k ≠ s) (vs : v ≠ s) (ltk : k < h.next) (ltv : v < h.next) (lts : s < h.next)
    (rk : ∀ i, stAt h k i = .raw) (rv : ∀ i, stAt h v i = .raw) (rs : ∀ i, stAt h s i = .raw)
    (hz : ∀ i, i < n → wordAt h s i = 0) : Tbl u [] h k v s n ∧ cnt (act h s) n = 0 := by
  refine ⟨⟨ck, cv, cs, kv, ks, vs, ltk, ltv, lts, rv, rs, fun i hi _ => SlotOK.inactive (hz i hi) (rk i)⟩, ?_⟩
  apply cnt_zero_of_all_false
  intro i hi
  simp [act, hz i hi]

/-! ### `fill0` and the word copy loop -/

theorem fill0_spec (n0 : Nat) (S : Nat → Bool) (b size : Nat) (hS : S b = true) (h0 : Heap) (hc0 : HasCells h0 b size) :
    TripleS n0 S (fun h => h = h0) (fill0 b size)
      (fun _ h => SameBut [b] h0 h ∧ HasCells h b size ∧ (∀ i, stAt h b i = stAt h0 b i) ∧
        ∀ i, i < size → wordAt h b i = 0) := by
  unfold fill0
  have := TripleS.loopUp (n0 := n0) (S := S)
    (fun k h => SameBut [b] h0 h ∧ HasCells h b size ∧ (∀ i, stAt h b i = stAt h0 b i) ∧ ∀ i, i < k → wordAt h b i = 0)
    (fun i => writeWord b i 0) size 0 ?_
  · refine this.conseq ?_ ?_
    · intro h e; subst e
      exact ⟨SameBut.refl _ _, hc0, fun _ => rfl, fun i hi => by omega⟩
    · intro _ h ⟨a, c, r, z⟩
      exact ⟨a, c, r, fun i hi => z i (by omega)⟩
  · intro i _ hi h _ ⟨sb, hc, hr, hz⟩
    obtain ⟨c, e⟩ := hc.cell (by omega : i < size)
    apply SafeF.last
    apply step_writeWord 0 e hS
    apply SafeF.pure
    refine ⟨sb.setCell _ _ (by simp), HasCells_setCell _ _ _ hc, ?_, ?_⟩
    · intro j; rw [stAt_setCell_word 0 e]; exact hr j
    · intro j hj
      by_cases hji : j = i
      · subst hji; rw [wordAt_setCell_eq _ e]
      · rw [wordAt_setCell_ne _ _ _ _ (fun hh => hji hh.2)]; exact hz j (by omega)

/-- `std::copy(src, src + size, dst)` on trivially copyable elements -/
theorem copyWords_spec (n0 : Nat) (S : Nat → Bool) (src dst size : Nat) (hS : S dst = true) (hne : src ≠ dst) (h0 : Heap)
    (hc0 : HasCells h0 dst size) (hs0 : HasCells h0 src size) :
    TripleS n0 S (fun h => h = h0) (loopUp (fun i => do let w ← readWord src i; writeWord dst i w) size 0)
      (fun _ h => SameBut [dst] h0 h ∧ HasCells h dst size ∧ (∀ i, stAt h dst i = stAt h0 dst i) ∧
        ∀ i, i < size → wordAt h dst i = wordAt h0 src i) := by
  have := TripleS.loopUp (n0 := n0) (S := S)
    (fun k h => SameBut [dst] h0 h ∧ HasCells h dst size ∧ (∀ i, stAt h dst i = stAt h0 dst i) ∧
      ∀ i, i < k → wordAt h dst i = wordAt h0 src i)
    (fun i => do let w ← readWord src i; writeWord dst i w) size 0 ?_
  · refine this.conseq ?_ ?_
    · intro h e; subst e
      exact ⟨SameBut.refl _ _, hc0, fun _ => rfl, fun i hi => by omega⟩
    · intro _ h ⟨a, c, r, z⟩
      exact ⟨a, c, r, fun i hi => z i (by omega)⟩
  · intro i _ hi h _ ⟨sb, hc, hr, hz⟩
    have esrc : h.find? src = h0.find? src := sb.out src (by simp [hne])
    obtain ⟨cs, es, ews, _⟩ := (HasCells_congr esrc hs0).cell_st (by omega : i < size)
    obtain ⟨c, e⟩ := hc.cell (by omega : i < size)
    apply step_readWord es
    apply SafeF.last
    apply step_writeWord _ e hS
    apply SafeF.pure
    refine ⟨sb.setCell _ _ (by simp), HasCells_setCell _ _ _ hc, ?_, ?_⟩
    · intro j; rw [stAt_setCell_word _ e]; exact hr j
    · intro j hj
      by_cases hji : j = i
      · subst hji; rw [wordAt_setCell_eq _ e, ews, wordAt_congr esrc]
      · rw [wordAt_setCell_ne _ _ _ _ (fun hh => hji hh.2)]; exact hz j (by omega)

/-! ### constructor -/

theorem ctor_spec (P : Params) (n0 : Nat) (S : Nat → Bool) (hS : ∀ b, n0 ≤ b → S b = true) (lgCur lgMax : Nat)
    (hlg : P.lgMinMap ≤ lgCur) (h0 : Heap) :
    TripleS n0 S (fun h => h = h0) (ctor lgCur lgMax)
      (fun m h' => Usable P h' m ∧
        m = { lgCur, lgMax, numActive := 0, keys := some h0.next, values := some (h0.next + 1), states := some (h0.next + 2) } ∧
        h'.ids = (h0.next + 2) :: (h0.next + 1) :: h0.next :: h0.ids ∧ h'.next = h0.next + 3 ∧
        ∀ b, b < h0.next → h'.find? b = h0.find? b) := by
  intro h hn he
  subst he
  unfold ctor
  apply step_alloc3 _ (fun b hb => hS b (by omega))
  have F := alloc3_fresh h (2 ^ lgCur)
  generalize alloc3 h (2 ^ lgCur) = h3 at F
  apply SafeF.bind_triple (fill0_spec n0 S (h.next + 2) (2 ^ lgCur) (hS _ (by omega)) h3 F.cs) (by rw [F.next]; omega) rfl
  intro _ h4 ⟨sb, cs4, rs4, hz⟩ _
  apply SafeF.pure
  have e0 : h4.find? h.next = h3.find? h.next := sb.out _ (by simp)
  have e1 : h4.find? (h.next + 1) = h3.find? (h.next + 1) := sb.out _ (by simp)
  have hT := Tbl.empty (u := true) (h := h4) (HasCells_congr e0 F.ck) (HasCells_congr e1 F.cv) cs4
    (by omega) (by omega) (by omega) (by rw [sb.next, F.next]; omega) (by rw [sb.next, F.next]; omega)
    (by rw [sb.next, F.next]; omega) (fun i => by rw [stAt_congr e0]; exact F.rk i)
    (fun i => by rw [stAt_congr e1]; exact F.rv i) (fun i => by rw [rs4]; exact F.rs i) hz
  refine ⟨⟨hlg, Nat.zero_le _, hT.1, hT.2.symm⟩, rfl, by rw [sb.ids, F.ids], by rw [sb.next, F.next], ?_⟩
  intro b hb
  rw [sb.out b (by simp; omega), F.old b hb]

/-! ### destructor -/

/-- the rest of the destructor after the destruction loop -/
def dtorTail (m : Map) : M Unit := do
  match m.keys with
  | some k => dealloc k (2 ^ m.lgCur)
  | none => pure ()
  match m.values with
  | some v => dealloc v (2 ^ m.lgCur)
  | none => pure ()
  match m.states with
  | some s => dealloc s (2 ^ m.lgCur)
  | none => pure ()

theorem dtor_eq (m : Map) : dtor m =
    if m.numActive > 0 then (do
      let k ← deref m.keys
      let s ← deref m.states
      dtorLoop k s (2 ^ m.lgCur) 0 m.numActive
      dtorTail m)
    else dtorTail m := rfl

theorem dtorLoop_succ (k s f i num : Nat) : dtorLoop k s (f + 1) i num = (do
    let st ← readWord s i
    if st > 0 then
      destroy k i
      if num - 1 = 0 then pure () else dtorLoop k s f (i + 1) (num - 1)
    else dtorLoop k s f (i + 1) num) := rfl

/-- the destruction loop leaves the keys array all raw -/
theorem dtorLoop_spec (n0 : Nat) (S : Nat → Bool) (k v s n : Nat) (hS : S k = true) (h0 : Heap)
    (T : Tbl false [] h0 k v s n) :
    ∀ f i num, f + i = n → TripleS n0 S
      (fun h => SameBut [k] h0 h ∧ HasCells h k n ∧ (∀ j, j < i → stAt h k j = .raw) ∧
        (∀ j, i ≤ j → stAt h k j = stAt h0 k j) ∧ cnt (act h0 s) n = cnt (act h0 s) i + num)
      (dtorLoop k s f i num)
      (fun _ h => SameBut [k] h0 h ∧ HasCells h k n ∧ ∀ j, j < n → stAt h k j = .raw) := by
  intro f
  induction f with
  | zero =>
    intro i num hfi h _ ⟨sb, hc, hr, _, _⟩
    apply SafeF.pure
    exact ⟨sb, hc, fun j hj => hr j (by omega)⟩
  | succ f ih =>
    intro i num hfi h hn ⟨sb, hc, hr, hsame, hcnt⟩
    have hi : i < n := by omega
    rw [dtorLoop_succ]
    have es : h.find? s = h0.find? s := sb.out s (by simp; exact fun e => T.ks e.symm)
    obtain ⟨cs, ecs, ews, _⟩ := (HasCells_congr es T.cs).cell_st hi
    rw [wordAt_congr es] at ews
    apply step_readWord ecs
    have hslot := T.slot i hi (by simp)
    by_cases hw : cs.word > 0
    · rw [if_pos hw]
      have hnr : stAt h k i ≠ .raw := by
        rw [hsame i (Nat.le_refl _)]; exact hslot.nonraw_of_pos (by omega)
      obtain ⟨ck, eck, est, _⟩ := cell_of_stAt_ne_raw hnr
      have hai : act h0 s i = true := by simp [act]; omega
      have hc1 : cnt (act h0 s) (i + 1) = cnt (act h0 s) i + 1 := by rw [cnt_succ, hai]; rfl
      have hmono := cnt_mono (act h0 s) (by omega : i + 1 ≤ n)
      apply step_destroy eck (by rw [est]; exact hnr) hS
      intro ev
      have hr' : ∀ j, j < i + 1 → stAt ((h.setCell k i { ck with st := .raw }).addLog ev) k j = .raw := by
        intro j hj
        rw [stAt_addLog]
        by_cases hji : j = i
        · subst hji; rw [stAt_setCell_eq _ eck]
        · rw [stAt_setCell_ne _ _ _ _ (fun hh => hji hh.2)]; exact hr j (by omega)
      have hsame' : ∀ j, i + 1 ≤ j → stAt ((h.setCell k i { ck with st := .raw }).addLog ev) k j = stAt h0 k j := by
        intro j hj
        rw [stAt_addLog, stAt_setCell_ne _ _ _ _ (fun hh => by omega)]; exact hsame j (by omega)
      by_cases hnum : num - 1 = 0
      · rw [if_pos hnum]
        apply SafeF.pure
        refine ⟨(sb.setCell _ _ (by simp)).addLog _, HasCells_addLog _ (HasCells_setCell _ _ _ hc), ?_⟩
        intro j hj
        by_cases hji : j < i + 1
        · exact hr' j hji
        · rw [hsame' j (by omega)]
          have hfalse := cnt_eq_imp_false (f := act h0 s) (m := i + 1) (n := n) (by omega) (by omega) j (by omega) hj
          have : wordAt h0 s j = 0 := by simpa [act] using hfalse
          exact (T.slot j hj (by simp)).raw_of_zero this
      · rw [if_neg hnum]
        exact ih (i + 1) (num - 1) (by omega) _ (by simpa using hn)
          ⟨(sb.setCell _ _ (by simp)).addLog _, HasCells_addLog _ (HasCells_setCell _ _ _ hc), hr', hsame', by omega⟩
    · rw [if_neg hw]
      have hw0 : wordAt h0 s i = 0 := by omega
      have hai : act h0 s i = false := by simp [act, hw0]
      have hc1 : cnt (act h0 s) (i + 1) = cnt (act h0 s) i := by rw [cnt_succ, hai]; rfl
      refine ih (i + 1) num (by omega) h hn ⟨sb, hc, ?_, fun j hj => hsame j (by omega), by omega⟩
      intro j hj
      by_cases hji : j = i
      · subst hji; rw [hsame j (Nat.le_refl _)]; exact hslot.raw_of_zero hw0
      · exact hr j (by omega)

/-- three deallocations of all-raw arrays -/
theorem dealloc3_spec (n0 : Nat) (S : Nat → Bool) (m : Map) (k v s : Nat) (hk : m.keys = some k) (hv : m.values = some v)
    (hs : m.states = some s) (hS : ∀ b, b ∈ [k, v, s] → S b = true) (h0 : Heap) :
    TripleS n0 S
      (fun h => SameBut [k] h0 h ∧ HasCells h k (2 ^ m.lgCur) ∧ HasCells h v (2 ^ m.lgCur) ∧ HasCells h s (2 ^ m.lgCur) ∧
        k ≠ v ∧ k ≠ s ∧ v ≠ s ∧
        (∀ j, j < 2 ^ m.lgCur → stAt h k j = .raw) ∧ (∀ j, stAt h v j = .raw) ∧ (∀ j, stAt h s j = .raw))
      (dtorTail m)
      (fun _ h' => (∀ b, b ∈ h'.ids ↔ b ∈ h0.ids ∧ b ∉ [k, v, s]) ∧ h'.next = h0.next ∧
        ∀ b, b ∉ [k, v, s] → h'.find? b = h0.find? b) := by
  intro h hn ⟨sb, ck, cv, cs, kv, ks, vs, rk, rv, rs⟩
  unfold dtorTail
  simp only [hk, hv, hs]
  apply step_dealloc ck ?_ (hS k (by simp))
  · intro k1
    apply step_dealloc (HasCells_afterFree_ne (Ne.symm kv) cv) ?_ (hS v (by simp))
    · intro k2
      apply SafeF.last
      apply step_dealloc (HasCells_afterFree_ne (Ne.symm vs) (HasCells_afterFree_ne (Ne.symm ks) cs)) ?_ (hS s (by simp))
      · intro k3
        apply SafeF.pure
        refine ⟨?_, by simp [sb.next], ?_⟩
        · intro b
          simp only [ids_afterFree, List.mem_filter, sb.ids, List.mem_cons, List.not_mem_nil, or_false, bne_iff_ne, ne_eq]
          constructor
          · intro ⟨⟨⟨a, b1⟩, c⟩, d⟩; exact ⟨a, fun hh => by rcases hh with e | e | e <;> contradiction⟩
          · intro ⟨a, hh⟩
            exact ⟨⟨⟨a, fun e => hh (Or.inl e)⟩, fun e => hh (Or.inr (Or.inl e))⟩, fun e => hh (Or.inr (Or.inr e))⟩
        · intro b hb
          simp only [List.mem_cons, List.not_mem_nil, or_false, not_or] at hb
          rw [find?_afterFree_ne _ _ _ _ hb.2.2, find?_afterFree_ne _ _ _ _ hb.2.1, find?_afterFree_ne _ _ _ _ hb.1]
          exact sb.out b (by simp [hb.1])
      · intro i hi
        obtain ⟨c, e, _, est⟩ := cs.cell_st hi
        refine ⟨c, ?_, by rw [est]; exact rs i⟩
        rw [cell?_afterFree, if_neg (Ne.symm vs), cell?_afterFree, if_neg (Ne.symm ks)]; exact e
    · intro i hi
      obtain ⟨c, e, _, est⟩ := cv.cell_st hi
      refine ⟨c, ?_, by rw [est]; exact rv i⟩
      rw [cell?_afterFree, if_neg (Ne.symm kv)]; exact e
  · intro i hi
    obtain ⟨c, e, _, est⟩ := ck.cell_st hi
    exact ⟨c, e, by rw [est]; exact rk i hi⟩

/-- destructor, for any footprint that contains the object's blocks -/
theorem dtor_spec (P : Params) (n0 : Nat) (S : Nat → Bool) (m : Map) (hS : ∀ b, b ∈ owned m → S b = true) (h0 : Heap) :
    TripleS n0 S (fun h => h = h0 ∧ Inv P h m) (dtor m)
      (fun _ h' => (∀ b, b ∈ h'.ids ↔ b ∈ h0.ids ∧ b ∉ owned m) ∧ h'.next = h0.next ∧
        ∀ b, b ∉ owned m → h'.find? b = h0.find? b) := by
  intro h hn ⟨he, hi⟩
  subst he
  rcases InvG.ptrs hi with ⟨k, v, s, hk, hv, hs, ho, T, hc⟩ | ⟨hk, hv, hs, ho, _, hc⟩
  · rw [ho] at hS ⊢
    rw [dtor_eq]
    have tail := dealloc3_spec n0 S m k v s hk hv hs hS h
    by_cases hna : m.numActive > 0
    · rw [if_pos hna, hk, hs]
      apply step_deref
      apply step_deref
      apply SafeF.bind_triple (dtorLoop_spec n0 S k v s (2 ^ m.lgCur) (hS k (by simp)) h T (2 ^ m.lgCur) 0 m.numActive rfl)
        hn ⟨SameBut.refl _ _, T.ck, fun j hj => by omega, fun _ _ => rfl, by simp [cnt, hc]⟩
      intro _ h1 ⟨sb, ck1, rk1⟩ hn1
      have ev : h1.find? v = h.find? v := sb.out v (by simp; exact fun e => T.kv e.symm)
      have es : h1.find? s = h.find? s := sb.out s (by simp; exact fun e => T.ks e.symm)
      exact tail h1 (by omega) ⟨sb, ck1, HasCells_congr ev T.cv, HasCells_congr es T.cs, T.kv, T.ks, T.vs, rk1,
        fun j => by rw [stAt_congr ev]; exact T.rawv j, fun j => by rw [stAt_congr es]; exact T.raws j⟩
    · rw [if_neg hna]
      have h0' : cnt (act h s) (2 ^ m.lgCur) = 0 := by omega
      refine tail h hn ⟨SameBut.refl _ _, T.ck, T.cv, T.cs, T.kv, T.ks, T.vs, ?_, T.rawv, T.raws⟩
      intro j hj
      have := cnt_eq_zero_imp h0' j hj
      exact (T.slot j hj (by simp)).raw_of_zero (by simpa [act] using this)
  · rw [dtor_eq, if_neg (by omega)]
    unfold dtorTail
    simp only [hk, hv, hs, ho]
    apply SafeF.pure
    simp

/-! ### copy constructor -/

def copyTail (o : Map) (k v s : Nat) : M Map := do
  let os ← deref o.states
  loopUp (fun i => do let w ← readWord os i; writeWord s i w) (2 ^ o.lgCur) 0
  pure { o with keys := some k, values := some v, states := some s }

theorem copyCtor_eq (o : Map) : copyCtor o =
    (alloc .item (2 ^ o.lgCur) >>= fun k => alloc .u64 (2 ^ o.lgCur) >>= fun v => alloc .u16 (2 ^ o.lgCur) >>= fun s =>
      if o.numActive > 0 then (do
        let ok ← deref o.keys
        let ov ← deref o.values
        let os ← deref o.states
        copyLoop ok ov os k v (2 ^ o.lgCur) 0 o.numActive
        copyTail o k v s)
      else copyTail o k v s) := rfl

theorem copyLoop_succ (ok ov os k v f i num : Nat) : copyLoop ok ov os k v (f + 1) i num = (do
    let st ← readWord os i
    if st > 0 then
      copyConstruct ok i k i
      let w ← readWord ov i
      writeWord v i w
      if num - 1 = 0 then pure () else copyLoop ok ov os k v f (i + 1) (num - 1)
    else copyLoop ok ov os k v f (i + 1) num) := rfl

/-- key slot `j` of the copy matches the activity `a j` of the source -/
def KS (a : Nat → Bool) (h : Heap) (k j : Nat) : Prop :=
  (a j = true → ∃ x, stAt h k j = .live x) ∧ (a j = false → stAt h k j = .raw)

theorem copyLoop_spec (n0 : Nat) (S : Nat → Bool) (ok ov os k v n : Nat) (hSk : S k = true) (hSv : S v = true) (h3 : Heap)
    (T : Tbl true [] h3 ok ov os n) (hkv : k ≠ v) (hk : k ∉ [ok, ov, os]) (hv : v ∉ [ok, ov, os]) :
    ∀ f i num, f + i = n → TripleS n0 S
      (fun h => SameBut [k, v] h3 h ∧ HasCells h k n ∧ HasCells h v n ∧ (∀ j, stAt h v j = .raw) ∧
        (∀ j, j < i → KS (act h3 os) h k j) ∧ (∀ j, i ≤ j → stAt h k j = .raw) ∧
        cnt (act h3 os) n = cnt (act h3 os) i + num)
      (copyLoop ok ov os k v f i num)
      (fun _ h => SameBut [k, v] h3 h ∧ HasCells h k n ∧ HasCells h v n ∧ (∀ j, stAt h v j = .raw) ∧
        ∀ j, j < n → KS (act h3 os) h k j) := by
  simp only [List.mem_cons, List.not_mem_nil, or_false, not_or] at hk hv
  intro f
  induction f with
  | zero =>
    intro i num hfi h _ ⟨sb, ck, cv, rv, hks, _, _⟩
    apply SafeF.pure
    exact ⟨sb, ck, cv, rv, fun j hj => hks j (by omega)⟩
  | succ f ih =>
    intro i num hfi h hn ⟨sb, ck, cv, rv, hks, hraw, hcnt⟩
    have hi : i < n := by omega
    rw [copyLoop_succ]
    have eos : h.find? os = h3.find? os := sb.out os (by simp; exact ⟨fun e => hk.2.2 e.symm, fun e => hv.2.2 e.symm⟩)
    have eov : h.find? ov = h3.find? ov := sb.out ov (by simp; exact ⟨fun e => hk.2.1 e.symm, fun e => hv.2.1 e.symm⟩)
    have eok : h.find? ok = h3.find? ok := sb.out ok (by simp; exact ⟨fun e => hk.1 e.symm, fun e => hv.1 e.symm⟩)
    obtain ⟨cs, ecs, ews, _⟩ := (HasCells_congr eos T.cs).cell_st hi
    rw [wordAt_congr eos] at ews
    apply step_readWord ecs
    have hslot := T.slot i hi (by simp)
    by_cases hw : cs.word > 0
    · rw [if_pos hw]
      obtain ⟨x, hx⟩ := hslot.live_of_pos (by omega)
      have hx' : stAt h ok i = .live x := by rw [stAt_congr eok]; exact hx
      obtain ⟨cok, ecok, estok, _⟩ := cell_of_stAt_ne_raw (h := h) (b := ok) (i := i) (by rw [hx']; simp)
      obtain ⟨ck0, eck0, _, estk0⟩ := ck.cell_st hi
      have hai : act h3 os i = true := by simp [act]; omega
      have hc1 : cnt (act h3 os) (i + 1) = cnt (act h3 os) i + 1 := by rw [cnt_succ, hai]; rfl
      have hmono := cnt_mono (act h3 os) (by omega : i + 1 ≤ n)
      apply step_copyConstruct ecok (by rw [estok, hx']) eck0 (by rw [estk0]; exact hraw i (Nat.le_refl _)) hSk
      intro ev
      obtain ⟨cov, ecov, _, _⟩ := (HasCells_congr eov T.cv).cell_st hi
      have ecov' : ((h.setCell k i { ck0 with st := .live x }).addLog ev).cell? ov i = some cov := by
        rw [cell?_addLog, cell?_setCell_ne _ _ _ _ (fun hh => hk.2.1 hh.1.symm)]; exact ecov
      apply step_readWord ecov'
      obtain ⟨cv0, ecv0, _, _⟩ := cv.cell_st hi
      have ecv0' : ((h.setCell k i { ck0 with st := .live x }).addLog ev).cell? v i = some cv0 := by
        rw [cell?_addLog, cell?_setCell_ne _ _ _ _ (fun hh => hkv hh.1.symm)]; exact ecv0
      apply step_writeWord _ ecv0' hSv
      have sb' : SameBut [k, v] h3 (((h.setCell k i { ck0 with st := .live x }).addLog ev).setCell v i
          { cv0 with word := cov.word }) := ((sb.setCell _ _ (by simp)).addLog _).setCell _ _ (by simp)
      have ck' := HasCells_setCell v i { cv0 with word := cov.word }
        (HasCells_addLog ev (HasCells_setCell k i { ck0 with st := .live x } ck))
      have cv' := HasCells_setCell v i { cv0 with word := cov.word }
        (HasCells_addLog ev (HasCells_setCell k i { ck0 with st := .live x } cv))
      have stk : ∀ j, stAt (((h.setCell k i { ck0 with st := .live x }).addLog ev).setCell v i
          { cv0 with word := cov.word }) k j = if j = i then .live x else stAt h k j := by
        intro j
        rw [stAt_setCell_word _ ecv0', stAt_addLog]
        by_cases hji : j = i
        · subst hji; rw [stAt_setCell_eq _ eck0]; simp
        · rw [stAt_setCell_ne _ _ _ _ (fun hh => hji hh.2)]; simp [hji]
      have rv' : ∀ j, stAt (((h.setCell k i { ck0 with st := .live x }).addLog ev).setCell v i
          { cv0 with word := cov.word }) v j = .raw := by
        intro j
        rw [stAt_setCell_word _ ecv0', stAt_addLog, stAt_setCell_ne _ _ _ _ (fun hh => hkv hh.1.symm)]; exact rv j
      have hks' : ∀ j, j < i + 1 → KS (act h3 os) (((h.setCell k i { ck0 with st := .live x }).addLog ev).setCell v i
          { cv0 with word := cov.word }) k j := by
        intro j hj
        unfold KS
        rw [stk j]
        by_cases hji : j = i
        · subst hji; simp [hai]
        · simp only [hji, if_false]; exact hks j (by omega)
      have hraw' : ∀ j, i + 1 ≤ j → stAt (((h.setCell k i { ck0 with st := .live x }).addLog ev).setCell v i
          { cv0 with word := cov.word }) k j = .raw := by
        intro j hj
        rw [stk j, if_neg (by omega)]; exact hraw j (by omega)
      by_cases hnum : num - 1 = 0
      · rw [if_pos hnum]
        apply SafeF.pure
        refine ⟨sb', ck', cv', rv', ?_⟩
        intro j hj
        by_cases hji : j < i + 1
        · exact hks' j hji
        · have hfalse := cnt_eq_imp_false (f := act h3 os) (m := i + 1) (n := n) (by omega) (by omega) j (by omega) hj
          exact ⟨fun ht => (by rw [hfalse] at ht; cases ht), fun _ => hraw' j (by omega)⟩
      · rw [if_neg hnum]
        exact ih (i + 1) (num - 1) (by omega) _ (by simpa using hn) ⟨sb', ck', cv', rv', hks', hraw', by omega⟩
    · rw [if_neg hw]
      have hw0 : wordAt h3 os i = 0 := by omega
      have hai : act h3 os i = false := by simp [act, hw0]
      have hc1 : cnt (act h3 os) (i + 1) = cnt (act h3 os) i := by rw [cnt_succ, hai]; rfl
      refine ih (i + 1) num (by omega) h hn ⟨sb, ck, cv, rv, ?_, fun j hj => hraw j (by omega), by omega⟩
      intro j hj
      by_cases hji : j = i
      · subst hji
        exact ⟨fun ht => (by rw [hai] at ht; cases ht), fun _ => hraw j (Nat.le_refl _)⟩
      · exact hks j (by omega)

theorem copyTail_spec (P : Params) (n0 : Nat) (S : Nat → Bool) (o : Map) (ok ov os k v s : Nat) (hSs : S s = true) (h3 : Heap)
    (hos : o.states = some os) (T : Tbl true [] h3 ok ov os (2 ^ o.lgCur)) (hlg : P.lgMinMap ≤ o.lgCur)
    (hcap : o.numActive ≤ getCapacity P o.lgCur + 1) (hna : o.numActive = cnt (act h3 os) (2 ^ o.lgCur))
    (cs3 : HasCells h3 s (2 ^ o.lgCur)) (rs3 : ∀ j, stAt h3 s j = .raw)
    (hkv : k ≠ v) (hks : k ≠ s) (hvs : v ≠ s) (hk : k ∉ [ok, ov, os]) (hv : v ∉ [ok, ov, os]) (hs : s ∉ [ok, ov, os])
    (ltk : k < h3.next) (ltv : v < h3.next) (lts : s < h3.next) :
    TripleS n0 S
      (fun h => SameBut [k, v] h3 h ∧ HasCells h k (2 ^ o.lgCur) ∧ HasCells h v (2 ^ o.lgCur) ∧ (∀ j, stAt h v j = .raw) ∧
        ∀ j, j < 2 ^ o.lgCur → KS (act h3 os) h k j)
      (copyTail o k v s)
      (fun m' h' => Usable P h' m' ∧ m' = { o with keys := some k, values := some v, states := some s } ∧
        SameBut [k, v, s] h3 h') := by
  simp only [List.mem_cons, List.not_mem_nil, or_false, not_or] at hk hv hs
  intro h hn ⟨sb, ck, cv, rv, hKS⟩
  unfold copyTail
  rw [hos]
  apply step_deref
  have eos : h.find? os = h3.find? os := sb.out os (by simp; exact ⟨fun e => hk.2.2 e.symm, fun e => hv.2.2 e.symm⟩)
  have es : h.find? s = h3.find? s := sb.out s (by simp; exact ⟨fun e => hks e.symm, fun e => hvs e.symm⟩)
  apply SafeF.bind_triple (copyWords_spec n0 S os s (2 ^ o.lgCur) hSs (fun e => hs.2.2 e.symm) h (HasCells_congr es cs3)
    (HasCells_congr eos T.cs)) hn rfl
  intro _ h' ⟨sb', cs', rs', hw'⟩ _
  apply SafeF.pure
  have ek' : h'.find? k = h.find? k := sb'.out k (by simp; exact hks)
  have ev' : h'.find? v = h.find? v := sb'.out v (by simp; exact hvs)
  have hact : ∀ j, j < 2 ^ o.lgCur → act h' s j = act h3 os j := by
    intro j hj
    simp only [act, hw' j hj, wordAt_congr eos]
  refine ⟨?_, rfl, ?_⟩
  · refine InvG.mk_some (k := k) (v := v) (s := s) rfl rfl rfl hlg hcap ?_ ?_
    · refine ⟨HasCells_congr ek' ck, HasCells_congr ev' cv, cs', hkv, hks, hvs, ?_, ?_, ?_, ?_, ?_, ?_⟩
      · rw [sb'.next, sb.next]; exact ltk
      · rw [sb'.next, sb.next]; exact ltv
      · rw [sb'.next, sb.next]; exact lts
      · intro j; rw [stAt_congr ev']; exact rv j
      · intro j; rw [rs' j, stAt_congr es]; exact rs3 j
      · intro j hj _
        have hks := hKS j hj
        have ha := hact j hj
        unfold KS at hks
        rw [← stAt_congr ek'] at hks
        cases hb : act h3 os j with
        | true =>
          obtain ⟨x, hx⟩ := hks.1 hb
          rw [hb] at ha
          exact SlotOK.active (by simpa [act] using ha) hx
        | false =>
          rw [hb] at ha
          exact SlotOK.inactive (by simpa [act] using ha) (hks.2 hb)
    · show o.numActive = cnt (act h' s) (2 ^ o.lgCur)
      rw [hna]
      exact (cnt_congr hact).symm
  · refine ⟨by rw [sb'.next, sb.next], by rw [sb'.ids, sb.ids], ?_⟩
    intro b hb
    simp only [List.mem_cons, List.not_mem_nil, or_false, not_or] at hb
    rw [sb'.out b (by simp; exact hb.2.2), sb.out b (by simp; exact ⟨hb.1, hb.2.1⟩)]

/-- copy constructor, for any footprint that contains the new blocks -/
theorem copyCtor_spec (P : Params) (n0 : Nat) (S : Nat → Bool) (hS : ∀ b, n0 ≤ b → S b = true) (o : Map) (h0 : Heap) :
    TripleS n0 S (fun h => h = h0 ∧ Usable P h o) (copyCtor o)
      (fun m' h' => Usable P h' m' ∧
        m' = { o with keys := some h0.next, values := some (h0.next + 1), states := some (h0.next + 2) } ∧
        h'.ids = (h0.next + 2) :: (h0.next + 1) :: h0.next :: h0.ids ∧ h'.next = h0.next + 3 ∧
        ∀ b, b < h0.next → h'.find? b = h0.find? b) := by
  intro h hn ⟨he, hu⟩
  subst he
  obtain ⟨ok, ov, os, hok, hov, hos, _, T, hc⟩ := Usable.ptrs hu
  rw [copyCtor_eq]
  apply step_alloc3 _ (fun b hb => hS b (by omega))
  have F := alloc3_fresh h (2 ^ o.lgCur)
  generalize alloc3 h (2 ^ o.lgCur) = h3 at F
  have T3 : Tbl true [] h3 ok ov os (2 ^ o.lgCur) :=
    T.local (F.old _ T.ltk) (F.old _ T.ltv) (F.old _ T.lts) (by rw [F.next]; omega)
  have hc3 : o.numActive = cnt (act h3 os) (2 ^ o.lgCur) := by rw [act_congr (F.old _ T.lts)]; exact hc
  have ltk := T.ltk; have ltv := T.ltv; have lts := T.lts
  have hk : h.next ∉ [ok, ov, os] := by simp; omega
  have hv : h.next + 1 ∉ [ok, ov, os] := by simp; omega
  have hs : h.next + 2 ∉ [ok, ov, os] := by simp; omega
  have tail := copyTail_spec P n0 S o ok ov os h.next (h.next + 1) (h.next + 2) (hS _ (by omega)) h3 hos T3 hu.lg hu.cap hc3
    F.cs F.rs (by omega) (by omega) (by omega) hk hv hs (by rw [F.next]; omega) (by rw [F.next]; omega) (by rw [F.next]; omega)
  have fin : ∀ (m' : Map) (h' : Heap), (Usable P h' m' ∧
      m' = { o with keys := some h.next, values := some (h.next + 1), states := some (h.next + 2) } ∧
      SameBut [h.next, h.next + 1, h.next + 2] h3 h') →
      (Usable P h' m' ∧ m' = { o with keys := some h.next, values := some (h.next + 1), states := some (h.next + 2) } ∧
        h'.ids = (h.next + 2) :: (h.next + 1) :: h.next :: h.ids ∧ h'.next = h.next + 3 ∧
        ∀ b, b < h.next → h'.find? b = h.find? b) := by
    intro m' h' ⟨a, b, sb⟩
    refine ⟨a, b, by rw [sb.ids, F.ids], by rw [sb.next, F.next], ?_⟩
    intro x hx
    rw [sb.out x (by simp; omega), F.old x hx]
  by_cases hna : o.numActive > 0
  · rw [if_pos hna, hok, hov, hos]
    apply step_deref
    apply step_deref
    apply step_deref
    apply SafeF.bind_triple (copyLoop_spec n0 S ok ov os h.next (h.next + 1) (2 ^ o.lgCur) (hS _ (by omega)) (hS _ (by omega))
      h3 T3 (by omega) hk hv (2 ^ o.lgCur) 0 o.numActive rfl) (by rw [F.next]; omega)
      ⟨SameBut.refl _ _, F.ck, F.cv, F.rv, fun j hj => by omega, fun j _ => F.rk j, by simp [cnt, hc3]⟩
    intro _ h4 post hn4
    exact SafeF.mono (tail h4 (by rw [F.next] at hn4; omega) post) fin
  · rw [if_neg hna]
    have h0' : cnt (act h3 os) (2 ^ o.lgCur) = 0 := by omega
    refine SafeF.mono (tail h3 (by rw [F.next]; omega) ⟨SameBut.refl _ _, F.ck, F.cv, F.rv, ?_⟩) fin
    intro j hj
    have := cnt_eq_zero_imp h0' j hj
    exact ⟨fun ht => (by rw [this] at ht; cases ht), fun _ => F.rk j⟩

/-! ### `get` (read only) -/

theorem getLoop_succ (k v s size kv f probe : Nat) : getLoop k v s size kv (f + 1) probe = (do
    let st ← readWord s probe
    if st > 0 then
      let kk ← read k probe
      if kk = kv then readWord v probe else getLoop k v s size kv f ((probe + 1) % size)
    else pure 0) := rfl

theorem getLoop_spec (S : Nat → Bool) (k v s n kv : Nat) (h : Heap) (T : Tbl true [] h k v s n) :
    ∀ f probe, probe < n → SafeF S h (getLoop k v s n kv f probe h) (fun _ h' => h' = h) := by
  intro f
  induction f with
  | zero => intro probe _; exact SafeF.exc _
  | succ f ih =>
    intro probe hp
    rw [getLoop_succ]
    obtain ⟨cs, ecs, ews, _⟩ := T.cs.cell_st hp
    apply step_readWord ecs
    by_cases hw : cs.word > 0
    · rw [if_pos hw]
      obtain ⟨x, hx⟩ := (T.slot probe hp (by simp)).live_of_pos (by omega)
      obtain ⟨ck, eck, estk, _⟩ := cell_of_stAt_ne_raw (h := h) (b := k) (i := probe) (by rw [hx]; simp)
      apply step_read eck (by rw [estk, hx])
      by_cases hkk : x = kv
      · rw [if_pos hkk]
        obtain ⟨cv, ecv⟩ := T.cv.cell hp
        apply SafeF.last
        apply step_readWord ecv
        exact SafeF.pure rfl
      · rw [if_neg hkk]
        exact ih _ (Nat.mod_lt _ (by omega))
    · rw [if_neg hw]
      exact SafeF.pure rfl

theorem get_spec (P : Params) (n0 : Nat) (S : Nat → Bool) (m : Map) (kv : Nat) (h0 : Heap) :
    TripleS n0 S (fun h => h = h0 ∧ Usable P h m) (get P m kv) (fun _ h' => h' = h0) := by
  intro h hn ⟨he, hu⟩
  subst he
  obtain ⟨k, v, s, hk, hv, hs, _, T, _⟩ := Usable.ptrs hu
  unfold get
  rw [hk, hv, hs]
  apply step_deref
  apply step_deref
  apply step_deref
  exact getLoop_spec S k v s (2 ^ m.lgCur) kv h T _ _ (Nat.mod_lt _ (Nat.pow_pos (by omega)))

end DS.Life.Fi

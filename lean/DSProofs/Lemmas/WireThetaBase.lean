/-
Helper lemmas shared by the theta / tuple / array-of-doubles wire proofs: bind steps over appended writers,
flag bytes, repetition round trips, consumption bounds.  (Property statements live in Props/C09..C11_*.lean.)
-/
import DSProofs.Lemmas.Wire
import DSModel.Wire.Theta
namespace DS.Wire
open Reader

variable {α β : Type}

theorem bind_some {m : Reader α} {f : α → Reader β} {b : Bytes} {x : α} {r : Bytes} (h : m b = some (x, r)) :
    Reader.bind m f b = f x r := by simp [Reader.bind, h]

theorem bind_u8 (f : Nat → Reader β) (x : Nat) (r : Bytes) (hx : x < 256) : Reader.bind u8 f (w8 x ++ r) = f x r :=
  bind_some (u8_w8 x (by omega) r)
theorem bind_u16 (f : Nat → Reader β) (x : Nat) (r : Bytes) (hx : x < 2 ^ 16) : Reader.bind u16 f (w16 x ++ r) = f x r :=
  bind_some (u16_w16 x hx r)
theorem bind_u32 (f : Nat → Reader β) (x : Nat) (r : Bytes) (hx : x < 2 ^ 32) : Reader.bind u32 f (w32 x ++ r) = f x r :=
  bind_some (u32_w32 x hx r)
theorem bind_u64 (f : Nat → Reader β) (x : Nat) (r : Bytes) (hx : x < 2 ^ 64) : Reader.bind u64 f (w64 x ++ r) = f x r :=
  bind_some (u64_w64 x hx r)
theorem bind_leNat (f : Nat → Reader β) (n x : Nat) (r : Bytes) (hx : x < 256 ^ n) :
    Reader.bind (leNat n) f (wLe n x ++ r) = f x r := bind_some (leNat_wLe n x hx r)

theorem skip_append (a r : Bytes) : skip a.length (a ++ r) = some ((), r) := by
  simp [skip, Reader.bind, bytesN_append, Reader.pure]

theorem bind_skip_wLe (f : Unit → Reader β) (n x : Nat) (r : Bytes) : Reader.bind (skip n) f (wLe n x ++ r) = f () r := by
  have h := skip_append (wLe n x) r
  rw [length_wLe] at h
  exact bind_some h

theorem bind_skip_w8 (f : Unit → Reader β) (x : Nat) (r : Bytes) : Reader.bind (skip 1) f (w8 x ++ r) = f () r := bind_skip_wLe f 1 x r
theorem bind_skip_w16 (f : Unit → Reader β) (x : Nat) (r : Bytes) : Reader.bind (skip 2) f (w16 x ++ r) = f () r := bind_skip_wLe f 2 x r
theorem bind_skip_w32 (f : Unit → Reader β) (x : Nat) (r : Bytes) : Reader.bind (skip 4) f (w32 x ++ r) = f () r := bind_skip_wLe f 4 x r

theorem bind_skip_zeros (f : Unit → Reader β) (n : Nat) (r : Bytes) : Reader.bind (skip n) f (wZeros n ++ r) = f () r :=
  bind_some (skip_zeros n r)

theorem bind_guard_true (f : Unit → Reader β) (b : Bytes) : Reader.bind (guard true) f b = f () b := by
  simp [Reader.bind, guard, Reader.pure]

theorem bind_pure (a : α) (f : α → Reader β) (b : Bytes) : Reader.bind (Reader.pure a) f b = f a b := by
  simp [Reader.bind, Reader.pure]

theorem bind_bytesN (f : Bytes → Reader β) (a r : Bytes) : Reader.bind (bytesN a.length) f (a ++ r) = f a r :=
  bind_some (bytesN_append a r)

theorem PS_ite (c : Prop) [Decidable c] (a b : Reader α) (ha : PS a) (hb : PS b) : PS (if c then a else b) := by
  split <;> assumption

/-! ### repetition -/

/-- round trip of `n` repetitions of a reader over the concatenated encodings -/
theorem repeatN_roundtrip (rd : Reader α) (enc : α → Bytes) (P : α → Prop)
    (h : ∀ x, P x → ∀ r, rd (enc x ++ r) = some (x, r)) :
    ∀ (l : List α), (∀ x ∈ l, P x) → ∀ r, repeatN rd l.length (l.foldr (fun x acc => enc x ++ acc) r) = some (l, r) := by
  intro l
  induction l with
  | nil => intro _ r; rfl
  | cons x t ih =>
    intro hP r
    simp only [List.length_cons, List.foldr_cons, repeatN]
    rw [bind_some (h x (hP x (by simp)) _)]
    rw [bind_some (ih (fun y hy => hP y (by simp [hy])) r)]
    rfl

theorem wU64s_eq_foldr (l : List Nat) (r : Bytes) : Theta.wU64s l ++ r = l.foldr (fun x acc => w64 x ++ acc) r := by
  induction l with
  | nil => rfl
  | cons x t ih => simp [Theta.wU64s, List.append_assoc, ih]

theorem repeatN_u64_wU64s (l : List Nat) (hl : ∀ x ∈ l, x < 2 ^ 64) (r : Bytes) :
    repeatN u64 l.length (Theta.wU64s l ++ r) = some (l, r) := by
  rw [wU64s_eq_foldr]
  exact repeatN_roundtrip u64 w64 (fun x => x < 2 ^ 64) (fun x hx r => u64_w64 x hx r) l hl r

theorem length_wU64s (l : List Nat) : (Theta.wU64s l).length = 8 * l.length := by
  induction l with
  | nil => rfl
  | cons x t ih => simp [Theta.wU64s, w64, length_wLe, ih]; omega

/-! ### consumption: how many bytes a successful read used -/

/-- `Consumes rd k`: a successful read leaves at most `length - k` bytes (i.e. used at least `k`) -/
def Consumes (rd : Reader α) (k : Nat) : Prop := ∀ b x r, rd b = some (x, r) → r.length + k ≤ b.length

theorem consumes_leNat (n : Nat) : Consumes (leNat n) n := by
  induction n with
  | zero => intro b x r h; simp [leNat, Reader.pure] at h; simp [h.2]
  | succ n ih =>
    intro b x r h
    cases b with
    | nil => simp [leNat, Reader.bind, byte] at h
    | cons y t =>
      simp only [leNat, Reader.bind, byte] at h
      cases h1 : leNat n t with
      | none => simp [h1] at h
      | some p =>
        obtain ⟨hi, r1⟩ := p
        simp only [h1, Reader.pure, Option.some.injEq, Prod.mk.injEq] at h
        have := ih t hi r1 h1
        simp only [List.length_cons]
        rw [← h.2]; omega

theorem repeatN_length (rd : Reader α) (k : Nat) (hk : Consumes rd k) :
    ∀ n b xs r, repeatN rd n b = some (xs, r) → xs.length = n ∧ r.length + k * n ≤ b.length := by
  intro n
  induction n with
  | zero => intro b xs r h; simp [repeatN, Reader.pure] at h; simp [← h.1, h.2]
  | succ n ih =>
    intro b xs r h
    simp only [repeatN, Reader.bind] at h
    cases h1 : rd b with
    | none => simp [h1] at h
    | some p =>
      obtain ⟨x, r1⟩ := p
      simp only [h1] at h
      cases h2 : repeatN rd n r1 with
      | none => simp [h2] at h
      | some q =>
        obtain ⟨t, r2⟩ := q
        simp only [h2, Reader.pure, Option.some.injEq, Prod.mk.injEq] at h
        have a := hk b x r1 h1
        have b' := ih r1 t r2 h2
        rw [← h.1, ← h.2]
        refine ⟨by simp [b'.1], ?_⟩
        have : k * (n + 1) = k * n + k := by rw [Nat.mul_succ]
        omega

/-- a reader never yields a longer remainder than its input -/
def Shrinks (rd : Reader α) : Prop := Consumes rd 0

theorem consumes_bind (m : Reader α) (f : α → Reader β) (k1 k2 : Nat) (hm : Consumes m k1) (hf : ∀ a, Consumes (f a) k2) :
    Consumes (Reader.bind m f) (k1 + k2) := by
  intro b x r h
  simp only [Reader.bind] at h
  cases h1 : m b with
  | none => simp [h1] at h
  | some p =>
    obtain ⟨a, r1⟩ := p
    simp only [h1] at h
    have := hm b a r1 h1
    have := hf a r1 x r h
    omega

theorem consumes_pure (a : α) : Consumes (Reader.pure a) 0 := by
  intro b x r h; simp [Reader.pure] at h; simp [h.2]

theorem consumes_mono (rd : Reader α) (k k' : Nat) (h : Consumes rd k) (hk : k' ≤ k) : Consumes rd k' := by
  intro b x r hr; have := h b x r hr; omega

theorem consumes_fail : Consumes (Reader.fail : Reader α) 0 := by
  intro b x r h; simp [Reader.fail] at h

theorem consumes_guard (c : Bool) : Consumes (guard c) 0 := by
  unfold guard; split
  · exact consumes_pure ()
  · exact consumes_fail

theorem consumes_ite (c : Prop) [Decidable c] (a b : Reader α) (k : Nat) (ha : Consumes a k) (hb : Consumes b k) :
    Consumes (if c then a else b) k := by
  split <;> assumption

theorem consumes_byte : Consumes byte 1 := by
  intro b x r h
  cases b with
  | nil => simp [byte] at h
  | cons y t => simp [byte] at h; simp [← h.2]

theorem consumes_bytesN : ∀ n, Consumes (bytesN n) n
  | 0 => consumes_pure []
  | n + 1 => by
    have h := consumes_bind byte (fun x => Reader.bind (bytesN n) (fun r => Reader.pure (x :: r))) 1 n consumes_byte
      (fun x => by
        have := consumes_bind (bytesN n) (fun r => Reader.pure (x :: r)) n 0 (consumes_bytesN n) (fun r => consumes_pure _)
        simpa using this)
    have e : 1 + n = n + 1 := by omega
    rw [e] at h
    exact h

theorem bytesN_length : ∀ n b x r, bytesN n b = some (x, r) → x.length = n := by
  intro n
  induction n with
  | zero => intro b x r h; simp [bytesN, Reader.pure] at h; simp [← h.1]
  | succ n ih =>
    intro b x r h
    cases b with
    | nil => simp [bytesN, Reader.bind, byte] at h
    | cons y t =>
      simp only [bytesN, Reader.bind, byte] at h
      cases h1 : bytesN n t with
      | none => simp [h1] at h
      | some p =>
        obtain ⟨l, r1⟩ := p
        simp only [h1, Reader.pure, Option.some.injEq, Prod.mk.injEq] at h
        rw [← h.1]; simp [ih t l r1 h1]

theorem consumes_skip (n : Nat) : Consumes (skip n) n := by
  have := consumes_bind (bytesN n) (fun _ => Reader.pure ()) n 0 (consumes_bytesN n) (fun _ => consumes_pure _)
  simpa [skip] using this

theorem consumes_zero_of (rd : Reader α) (k : Nat) (h : Consumes rd k) : Consumes rd 0 := consumes_mono rd k 0 h (Nat.zero_le _)

theorem c0_u8 : Consumes u8 0 := consumes_zero_of _ _ (consumes_leNat 1)
theorem c0_u16 : Consumes u16 0 := consumes_zero_of _ _ (consumes_leNat 2)
theorem c0_u32 : Consumes u32 0 := consumes_zero_of _ _ (consumes_leNat 4)
theorem c0_u64 : Consumes u64 0 := consumes_zero_of _ _ (consumes_leNat 8)
theorem c0_skip (n : Nat) : Consumes (skip n) 0 := consumes_zero_of _ _ (consumes_skip n)
theorem c8_u64 : Consumes u64 8 := consumes_leNat 8

/-- `BoundedBy sz k rd`: the size of what a successful read returns is at most `k` times the bytes it used -/
def BoundedBy (sz : α → Nat) (k : Nat) (rd : Reader α) : Prop :=
  ∀ b x r, rd b = some (x, r) → sz x + k * r.length ≤ k * b.length

theorem boundedBy_bind {sz : β → Nat} {k : Nat} (m : Reader α) (f : α → Reader β) (hm : Consumes m 0) (hf : ∀ a, BoundedBy sz k (f a)) :
    BoundedBy sz k (Reader.bind m f) := by
  intro b x r h
  simp only [Reader.bind] at h
  cases h1 : m b with
  | none => simp [h1] at h
  | some p =>
    obtain ⟨a, r1⟩ := p
    simp only [h1] at h
    have h2 := hm b a r1 h1
    have h3 := hf a r1 x r h
    have : k * r1.length ≤ k * b.length := Nat.mul_le_mul_left k (by omega)
    omega

theorem boundedBy_pure {sz : α → Nat} {k : Nat} (a : α) (h : sz a = 0) : BoundedBy sz k (Reader.pure a) := by
  intro b x r hr
  simp [Reader.pure] at hr
  rw [← hr.1, ← hr.2, h]; omega

theorem boundedBy_fail {sz : α → Nat} {k : Nat} : BoundedBy sz k (Reader.fail : Reader α) := by
  intro b x r h; simp [Reader.fail] at h

theorem boundedBy_ite {sz : α → Nat} {k : Nat} (c : Prop) [Decidable c] (a b : Reader α) (ha : BoundedBy sz k a) (hb : BoundedBy sz k b) :
    BoundedBy sz k (if c then a else b) := by
  split <;> assumption

/-- the last step of most readers: `n` repetitions of an item reader that uses at least `c ≥ 1` bytes, wrapped into the result -/
theorem boundedBy_repeatN {γ : Type} {sz : β → Nat} {k : Nat} (rd : Reader γ) (c : Nat) (hc : Consumes rd c) (hck : 1 ≤ k * c) (n : Nat) (g : List γ → β)
    (hg : ∀ l, sz (g l) ≤ l.length) : BoundedBy sz k (Reader.bind (repeatN rd n) fun l => Reader.pure (g l)) := by
  intro b x r h
  simp only [Reader.bind] at h
  cases h1 : repeatN rd n b with
  | none => simp [h1] at h
  | some p =>
    obtain ⟨l, r1⟩ := p
    simp only [h1, Reader.pure, Option.some.injEq, Prod.mk.injEq] at h
    obtain ⟨hl, hr⟩ := repeatN_length rd c hc n b l r1 h1
    have h2 := hg l
    rw [← h.1, ← h.2]
    have h3 : k * (r1.length + c * n) ≤ k * b.length := Nat.mul_le_mul_left k hr
    rw [Nat.mul_add, ← Nat.mul_assoc] at h3
    have h4 : n ≤ k * c * n := Nat.le_mul_of_pos_left n hck
    omega

/-! ### flag bytes -/
namespace Theta

theorem flagBit_lt (p : Nat) (b : Bool) (hp : p < 8) : flagBit p b < 256 := by
  unfold flagBit; split
  · calc 2 ^ p < 2 ^ 8 := Nat.pow_lt_pow_right (by decide) hp
      _ = 256 := by decide
  · decide

theorem two_pow_lt_256 (p : Nat) (hp : p < 8) : 2 ^ p < 256 := by
  calc 2 ^ p < 2 ^ 8 := Nat.pow_lt_pow_right (by decide) hp
    _ = 256 := by decide

theorem or_lt_256 (a b : Nat) (ha : a < 256) (hb : b < 256) : a ||| b < 256 := by
  have : (256 : Nat) = 2 ^ 8 := by decide
  rw [this] at *
  exact Nat.or_lt_two_pow ha hb

theorem testBit_flagBit (p q : Nat) (b : Bool) : (flagBit p b).testBit q = (b && decide (p = q)) := by
  unfold flagBit; cases b <;> simp [Nat.testBit_two_pow]

end Theta
end DS.Wire

/- L2 HLL_6 array: arrays, invariant, refinement (helper lemmas for Props/C03.lean `hll6_refines`). -/
import DSProofs.Lemmas.HllArray6
namespace DS.Hll

theorem put6f_lt (f : Nat → Nat) (hf : ∀ j, f j < 256) (s v j : Nat) : put6f f s v j < 256 := by
  unfold put6f
  split
  · exact Nat.mod_lt _ (by decide)
  · split
    · exact Nat.mod_lt _ (by decide)
    · exact hf j

/-! ### arrays -/

theorem get6_eq (b : Array Nat) (s : Nat) : get6 b s = get6f (fun j => b.getD j 0) s := rfl

theorem put6_getD (b : Array Nat) (s v j : Nat) (hb : s * 6 / 8 + 1 < b.size) :
    (put6 b s v).getD j 0 = put6f (fun j => b.getD j 0) s v j := by
  unfold put6 put6f
  simp only
  by_cases h1 : j = s * 6 / 8 + 1
  · subst h1
    rw [if_pos rfl, getD_setIfInBounds_self (by simpa using hb)]
  · rw [if_neg h1, getD_setIfInBounds_ne (Ne.symm h1)]
    by_cases h2 : j = s * 6 / 8
    · subst h2
      rw [if_pos rfl, getD_setIfInBounds_self (by omega)]
    · rw [if_neg h2, getD_setIfInBounds_ne (Ne.symm h2)]

theorem put6_size (b : Array Nat) (s v : Nat) : (put6 b s v).size = b.size := by
  unfold put6; simp

/-- HLL_6 representation invariant: size of the packed array, bytes are bytes -/
structure Inv6 (h : H6) : Prop where
  lgK_ge : 2 ≤ h.lgK
  size : h.bytes.size = (2^h.lgK * 3) / 4 + 1
  blt : ∀ i, h.bytes.getD i 0 < 256

theorem Inv6.idx {h : H6} (hi : Inv6 h) {s : Nat} (hs : s < 2^h.lgK) : s * 6 / 8 + 1 < h.bytes.size := by
  rw [hi.size]
  obtain ⟨m, hm⟩ : ∃ m, 2^h.lgK = 4 * m := by
    obtain ⟨n, hn⟩ : ∃ n, h.lgK = n + 2 := ⟨h.lgK - 2, by have := hi.lgK_ge; omega⟩
    exact ⟨2^n, by rw [hn, Nat.pow_add]; omega⟩
  omega

theorem H6.regs_size (h : H6) : h.regs.size = 2^h.lgK := by simp [H6.regs]
theorem H6.regs_getD (h : H6) {s : Nat} (hs : s < 2^h.lgK) : h.regs.getD s 0 = get6 h.bytes s := by
  simp [H6.regs, Array.getD_eq_getD_getElem?, hs]

theorem Inv6.new (lgK : Nat) (hk : 2 ≤ lgK) : Inv6 (H6.new lgK) := by
  refine ⟨hk, by simp [H6.new], fun i => ?_⟩
  simp only [H6.new, Array.getD_eq_getD_getElem?]
  by_cases hh : i < (2^lgK * 3) / 4 + 1 <;> simp [hh]

/-- the state after a register-raising update -/
def H6.raised (p : Params) (h : H6) (c : Nat) : H6 :=
  { h with bytes := put6 h.bytes (cSlot p h.lgK c) (cValue p c),
           numAtCurMin := if get6 h.bytes (cSlot p h.lgK c) = 0 then h.numAtCurMin - 1 else h.numAtCurMin }

theorem H6.update_eq (p : Params) (h : H6) (c : Nat) :
    h.update p c = if cValue p c > get6 h.bytes (cSlot p h.lgK c) then h.raised p c else h := rfl

/-- HLL_6 refinement: one coupon update of the packed 6-bit array is the abstract `slot := max(slot, value)` (for values
that fit in 6 bits, as every coupon value does), keeps the invariant, and numAtCurMin keeps counting the zero registers -/
theorem h6_refines (p : Params) {h : H6} (hi : Inv6 h) (c : Nat) (hv : cValue p c < 64) :
    Inv6 (h.update p c) ∧ (h.update p c).lgK = h.lgK ∧ (h.update p c).regs = maxUpdate p h.lgK h.regs c ∧
    (h.numAtCurMin = h.regs.count 0 → (h.update p c).numAtCurMin = (h.update p c).regs.count 0) := by
  have hs := cSlot_lt p h.lgK c
  have hgd : h.regs.getD (cSlot p h.lgK c) 0 = get6 h.bytes (cSlot p h.lgK c) := H6.regs_getD h hs
  rw [H6.update_eq]
  unfold maxUpdate
  rw [hgd]
  by_cases hlt : cValue p c > get6 h.bytes (cSlot p h.lgK c)
  · rw [if_pos hlt, if_pos hlt]
    have hidx := hi.idx hs
    have hb : (h.raised p c).bytes = put6 h.bytes (cSlot p h.lgK c) (cValue p c) := rfl
    have hk : (h.raised p c).lgK = h.lgK := rfl
    have hI : Inv6 (h.raised p c) := by
      refine ⟨hi.lgK_ge, by rw [hb, put6_size, hk]; exact hi.size, fun i => ?_⟩
      rw [hb, put6_getD _ _ _ _ hidx]
      exact put6f_lt _ hi.blt _ _ _
    have hregs : (h.raised p c).regs = h.regs.setIfInBounds (cSlot p h.lgK c) (cValue p c) := by
      apply Array.ext
      · simp [H6.regs_size, hk]
      · intro i h1 h2
        rw [← getD_eq_getElem (d := 0) h1, ← getD_eq_getElem (d := 0) h2]
        have hi2 : i < 2^h.lgK := by simpa [H6.regs_size, hk] using h1
        rw [H6.regs_getD _ (by rw [hk]; exact hi2), hb]
        have hfun : get6 (put6 h.bytes (cSlot p h.lgK c) (cValue p c)) i =
            get6f (put6f (fun j => h.bytes.getD j 0) (cSlot p h.lgK c) (cValue p c)) i := by
          unfold get6 get6f
          simp only [put6_getD _ _ _ _ hidx]
        rw [hfun, get6f_put6f _ hi.blt]
        by_cases he : i = cSlot p h.lgK c
        · rw [if_pos he, he, getD_setIfInBounds_self (by rw [H6.regs_size]; exact hs), Nat.mod_eq_of_lt hv]
        · rw [if_neg he, getD_setIfInBounds_ne (Ne.symm he), H6.regs_getD h hi2]; rfl
    refine ⟨hI, hk, hregs, fun hn => ?_⟩
    rw [hregs]
    have hcs := count_setIfInBounds (a := h.regs) (i := cSlot p h.lgK c) (v := cValue p c) (w := 0) (by rw [H6.regs_size]; exact hs)
    rw [hgd, if_neg (show ¬ cValue p c = 0 by omega)] at hcs
    show (if get6 h.bytes (cSlot p h.lgK c) = 0 then h.numAtCurMin - 1 else h.numAtCurMin) = _
    by_cases h0 : get6 h.bytes (cSlot p h.lgK c) = 0
    · rw [if_pos h0] at hcs ⊢; omega
    · rw [if_neg h0] at hcs ⊢; omega
  · rw [if_neg hlt, if_neg hlt]
    exact ⟨hi, rfl, rfl, fun hn => hn⟩

end DS.Hll

/- C06: the hypotheses `MathFns.OK` are satisfiable -- the real square root, logarithm, floor, ceiling and power. -/
import DSProofs.Lemmas.BoundsField
import Mathlib.Analysis.SpecialFunctions.Pow.Real
import Mathlib.Analysis.SpecialFunctions.Sqrt
namespace DS.Bounds

noncomputable def realFns : MathFns ℝ where
  sqrt := Real.sqrt
  log := Real.log
  floor := fun x => (⌊x⌋ : ℝ)
  ceil := fun x => (⌈x⌉ : ℝ)
  pow := fun a b => a ^ b

theorem realFns_ok : realFns.OK where
  sqrt_nonneg := Real.sqrt_nonneg
  sqrt_sq := fun _ h => Real.mul_self_sqrt h
  log_one := Real.log_one
  log_lt := fun _ _ hx hxy => Real.log_lt_log hx hxy
  floor_mono := fun x y h => by
    show ((⌊x⌋ : ℤ) : ℝ) ≤ ((⌊y⌋ : ℤ) : ℝ)
    exact_mod_cast Int.floor_mono h
  ceil_mono := fun x y h => by
    show ((⌈x⌉ : ℤ) : ℝ) ≤ ((⌈y⌉ : ℤ) : ℝ)
    exact_mod_cast Int.ceil_mono h
  le_ceil := fun x => Int.le_ceil x

theorem realFns_expOK : realFns.ExpOK := by
  intro r hr
  show r ≤ litK cIconExp * (2 : ℝ) ^ r
  have hg : (litK cIconExp : ℝ) = 7940236163830469 / 10000000000000000 := by simp [litK, cIconExp]
  have h2 : (2 : ℝ) ^ r = (2 : ℝ) ^ (5 : ℝ) * (2 : ℝ) ^ (r - 5) := by
    rw [← Real.rpow_add (by norm_num)]; congr 1; ring
  have h5 : (2 : ℝ) ^ (5 : ℝ) = 32 := by
    have : ((5 : ℕ) : ℝ) = (5 : ℝ) := by norm_num
    rw [← this, Real.rpow_natCast]; norm_num
  have hl : (1 / 2 : ℝ) ≤ Real.log 2 := by
    have h := Real.log_le_sub_one_of_pos (x := (1 / 2 : ℝ)) (by norm_num)
    have e : Real.log (1 / 2 : ℝ) = - Real.log 2 := by rw [one_div, Real.log_inv]
    rw [e] at h; linarith
  have he : 1 + (r - 5) * (1 / 2) ≤ (2 : ℝ) ^ (r - 5) := by
    rw [Real.rpow_def_of_pos (by norm_num)]
    have := Real.add_one_le_exp (Real.log 2 * (r - 5))
    nlinarith
  rw [hg, h2, h5]
  nlinarith

end DS.Bounds

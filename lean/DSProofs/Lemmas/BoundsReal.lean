/- C06: the hypotheses `MathFns.OK` are satisfiable -- the real square root, logarithm, floor, ceiling and power. -/
import DSProofs.Lemmas.BoundsField
import Mathlib.Analysis.SpecialFunctions.Pow.Real
import Mathlib.Analysis.SpecialFunctions.Sqrt
namespace DS.Bounds

noncomputable def realFns : MathFns ℝ where
  sqrt := Real.sqrt
  log := Real.log
  floor := fun x => (⌊x⌋ : ℝ)
  ceil := fun x => (⌈x⌉ : ℝ)
  pow := fun a b => a ^ b

theorem realFns_ok : realFns.OK where
  sqrt_nonneg := Real.sqrt_nonneg
  sqrt_sq := fun _ h => Real.mul_self_sqrt h
  log_one := Real.log_one
  log_lt := fun _ _ hx hxy => Real.log_lt_log hx hxy
  floor_mono := fun x y h => by
    show ((⌊x⌋ : ℤ) : ℝ) ≤ ((⌊y⌋ : ℤ) : ℝ)
    exact_mod_cast Int.floor_mono h
  ceil_mono := fun x y h => by
    show ((⌈x⌉ : ℤ) : ℝ) ≤ ((⌈y⌉ : ℤ) : ℝ)
    exact_mod_cast Int.ceil_mono h
  le_ceil := fun x => Int.le_ceil x

end DS.Bounds

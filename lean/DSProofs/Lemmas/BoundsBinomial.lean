/- C06 helper lemmas: binomial_bounds model over an ordered field (clamps, Gaussian branch, partial-sum loops). -/
import DSProofs.Lemmas.BoundsField
import DSModel.Bounds.Binomial
namespace DS.Bounds
set_option linter.unusedSectionVars false
set_option linter.unusedVariables false

variable {K : Type} [Field K] [LinearOrder K] [IsStrictOrderedRing K] (F : MathFns K)

/-! ### the clamps -/

theorem stdMin_eq (a b : K) : @stdMin K (fieldNum F) a b = min a b := by
  unfold stdMin
  split
  · rename_i h; exact (min_eq_right (le_of_lt h)).symm
  · rename_i h; exact (min_eq_left (not_lt.mp h)).symm

theorem stdMax_eq (a b : K) : @stdMax K (fieldNum F) a b = max a b := by
  unfold stdMax
  split
  · rename_i h; exact (max_eq_right (le_of_lt h)).symm
  · rename_i h; exact (max_eq_left (not_lt.mp h)).symm

@[simp] theorem nat_eq (n : Nat) : @nat K (fieldNum F) n = (n : K) := rfl
@[simp] theorem lit_eq (t : Lit) : @lit K (fieldNum F) t = litK t := rfl
@[simp] theorem tget_eq (t : List Lit) (i : Nat) : @tget K (fieldNum F) t i = litK (t.getD i (0, 0, 1)) := rfl

@[simp] theorem sqrt_eq (x : K) : @BNum.sqrt K (fieldNum F) x = F.sqrt x := rfl
@[simp] theorem log_eq (x : K) : @BNum.log K (fieldNum F) x = F.log x := rfl
@[simp] theorem floor_eq (x : K) : @BNum.floor K (fieldNum F) x = F.floor x := rfl
@[simp] theorem ceil_eq (x : K) : @BNum.ceil K (fieldNum F) x = F.ceil x := rfl
@[simp] theorem fmax_eq (x y : K) : @BNum.fmax K (fieldNum F) x y = max x y := rfl
@[simp] theorem pow_eq (x y : K) : @BNum.pow K (fieldNum F) x y = F.pow x y := rfl

@[simp] theorem litK_c0 : (litK c0 : K) = 0 := by simp [litK, c0]
@[simp] theorem litK_c1 : (litK c1 : K) = 1 := by simp [litK, c1]
@[simp] theorem litK_c0_5 : (litK c0_5 : K) = 1 / 2 := by simp [litK, c0_5]
@[simp] theorem litK_c2 : (litK c2 : K) = 2 := by simp [litK, c2]
@[simp] theorem litK_c4 : (litK c4 : K) = 4 := by simp [litK, c4]

/-- argsOk unfolds to the documented domain -/
theorem argsOk_iff (θ : K) (k : Nat) :
    @argsOk K (fieldNum F) θ k = true ↔ (0 ≤ θ ∧ θ ≤ 1) ∧ (1 ≤ k ∧ k ≤ 3) := by
  unfold argsOk
  simp only [nat_eq, Nat.cast_zero, Nat.cast_one, Bool.and_eq_true, Bool.not_eq_true', Bool.or_eq_false_iff,
    decide_eq_false_iff_not, not_lt, gt_iff_lt]

/-! ### order: lb ≤ n/θ ≤ ub and n ≤ lb, whatever the inner approximation -/

theorem getLowerBound_order (T : BinomTables) (n k : Nat) (θ lb : K) (h0 : 0 < θ) (h1 : θ ≤ 1)
    (hl : @getLowerBound K (fieldNum F) T n θ k = some lb) : (n : K) ≤ lb ∧ lb ≤ (n : K) / θ := by
  unfold getLowerBound at hl
  split at hl
  · simp only [Option.map_eq_some_iff] at hl
    obtain ⟨a, _, rfl⟩ := hl
    rw [stdMin_eq, stdMax_eq]
    have hn : (0 : K) ≤ n := Nat.cast_nonneg n
    have hest : (n : K) ≤ (n : K) / θ := by
      rw [le_div_iff₀ h0]; nlinarith
    simp only [nat_eq]
    exact ⟨le_min hest (le_max_left _ _), min_le_left _ _⟩
  · simp at hl

theorem getUpperBound_order (T : BinomTables) (n k : Nat) (θ ub : K)
    (hu : @getUpperBound K (fieldNum F) T n θ k = some ub) : (n : K) / θ ≤ ub := by
  unfold getUpperBound at hu
  split at hu
  · simp only [Option.map_eq_some_iff] at hu
    obtain ⟨a, _, rfl⟩ := hu
    rw [stdMax_eq]
    exact le_max_left _ _
  · simp at hu

/-! ### the partial-sum loops are monotone in the threshold -/

theorem nStarLoop_ge (q δ : K) (n : Nat) : ∀ (fuel : Nat) (cur tot : K) (m : Nat),
    m - 1 ≤ @nStarLoop K (fieldNum F) q δ n fuel cur tot m := by
  intro fuel
  induction fuel with
  | zero => intro cur tot m; simp [nStarLoop]
  | succ f ih =>
    intro cur tot m
    unfold nStarLoop
    split
    · exact le_trans (by omega) (ih _ _ (m + 1))
    · exact le_refl _

/-- a smaller tail probability δ' stops the `while (tot <= delta)` loop no later -/
theorem nStarLoop_mono (q δ δ' : K) (hδ : δ' ≤ δ) (n : Nat) : ∀ (fuel : Nat) (cur tot : K) (m : Nat),
    @nStarLoop K (fieldNum F) q δ' n fuel cur tot m ≤ @nStarLoop K (fieldNum F) q δ n fuel cur tot m := by
  intro fuel
  induction fuel with
  | zero => intro cur tot m; simp [nStarLoop]
  | succ f ih =>
    intro cur tot m
    unfold nStarLoop
    by_cases h' : tot ≤ δ'
    · have h : tot ≤ δ := le_trans h' hδ
      simp only [h', h, if_true]
      exact ih _ _ _
    · simp only [h', if_false]
      split
      · exact le_trans (by omega) (nStarLoop_ge F q δ n f _ _ (m + 1))
      · exact le_refl _

theorem nPrimeBLoop_ge (q o : K) (n : Nat) : ∀ (fuel : Nat) (cur tot : K) (m : Nat),
    m ≤ @nPrimeBLoop K (fieldNum F) q o n fuel cur tot m := by
  intro fuel
  induction fuel with
  | zero => intro cur tot m; simp [nPrimeBLoop]
  | succ f ih =>
    intro cur tot m
    unfold nPrimeBLoop
    split
    · exact le_trans (by omega) (ih _ _ (m + 1))
    · exact le_refl _

/-- a larger target 1 − δ keeps the `while (tot < one_minus_delta)` loop running at least as long -/
theorem nPrimeBLoop_mono (q o o' : K) (ho : o ≤ o') (n : Nat) : ∀ (fuel : Nat) (cur tot : K) (m : Nat),
    @nPrimeBLoop K (fieldNum F) q o n fuel cur tot m ≤ @nPrimeBLoop K (fieldNum F) q o' n fuel cur tot m := by
  intro fuel
  induction fuel with
  | zero => intro cur tot m; simp [nPrimeBLoop]
  | succ f ih =>
    intro cur tot m
    unfold nPrimeBLoop
    by_cases h : tot < o
    · have h' : tot < o' := lt_of_lt_of_le h ho
      simp only [h, h', if_true]
      exact ih _ _ _
    · simp only [h, if_false]
      split
      · exact le_trans (by omega) (nPrimeBLoop_ge F q o' n f _ _ (m + 1))
      · exact le_refl _

/-! ### the Gaussian branch: lb = ((√(b²+4n̂) − b)/2)², ub = ((√(b²+4n̂) + b)/2)² -/

/-- with S₁² = b₁²+c, S₂² = b₂²+c, 0 ≤ b₁ ≤ b₂, c ≥ 0: S₂ − b₂ ≤ S₁ − b₁ (and both ≥ 0), S₁ + b₁ ≤ S₂ + b₂ -/
theorem sqrt_shift (b1 b2 S1 S2 c : K) (hb1 : 0 ≤ b1) (hb : b1 ≤ b2) (hc : 0 ≤ c) (hS1 : 0 ≤ S1) (hS2 : 0 ≤ S2)
    (h1 : S1 * S1 = b1 * b1 + c) (h2 : S2 * S2 = b2 * b2 + c) :
    0 ≤ S2 - b2 ∧ S2 - b2 ≤ S1 - b1 ∧ S1 + b1 ≤ S2 + b2 := by
  have hb2 : 0 ≤ b2 := le_trans hb1 hb
  have hS1b : b1 ≤ S1 := by
    by_contra h; have h := not_le.mp h
    nlinarith
  have hS2b : b2 ≤ S2 := by
    by_contra h; have h := not_le.mp h
    nlinarith
  have hS12 : S1 ≤ S2 := by
    by_contra h; have h := not_le.mp h
    nlinarith
  refine ⟨by linarith, ?_, by linarith⟩
  -- (S2 - b2)(S2 + b2) = c = (S1 - b1)(S1 + b1), S1 + b1 ≤ S2 + b2
  by_contra h; have h := not_le.mp h
  have hu1 : 0 ≤ S1 - b1 := by linarith
  have hu2 : 0 < S2 - b2 := by linarith
  have e1 : (S1 - b1) * (S1 + b1) = c := by nlinarith
  have e2 : (S2 - b2) * (S2 + b2) = c := by nlinarith
  have hv : S1 + b1 ≤ S2 + b2 := by linarith
  have hv1 : 0 ≤ S1 + b1 := by linarith
  -- (S2-b2)(S2+b2) ≥ (S2-b2)(S1+b1) ≥ (S1-b1)(S1+b1), with strictness unless S1+b1 = 0
  rcases eq_or_lt_of_le hv1 with h0 | hpos
  · -- S1 = b1 = 0 ⇒ c = 0 ⇒ S2 = b2
    have : c = 0 := by rw [← e1, ← h0]; ring
    have : (S2 - b2) * (S2 + b2) = 0 := by rw [e2, this]
    have h2' : 0 < S2 + b2 := by linarith
    have := mul_pos hu2 h2'
    linarith
  · have : (S1 - b1) * (S1 + b1) < (S2 - b2) * (S1 + b1) := by
      apply mul_lt_mul_of_pos_right h hpos
    have : (S2 - b2) * (S1 + b1) ≤ (S2 - b2) * (S2 + b2) := by
      apply mul_le_mul_of_nonneg_left hv (le_of_lt hu2)
    linarith

theorem contClassicLb_eq (hF : F.OK) (n : Nat) (θ s : K) :
    let nHat : K := ((n : K) - 1 / 2) / θ
    let b : K := s * F.sqrt ((1 - θ) / θ)
    let S : K := F.sqrt (b * b + 4 * nHat)
    0 ≤ b * b + 4 * nHat →
    @contClassicLb K (fieldNum F) n θ s = ((S - b) / 2) * ((S - b) / 2) := by
  intro nHat b S hnn
  have hS : S * S = b * b + 4 * nHat := hF.sqrt_sq _ hnn
  unfold contClassicLb
  simp only [nat_eq, lit_eq, litK_c0_5, litK_c1, litK_c4]
  show nHat + 1 / 2 * (b * b) - 1 / 2 * b * S = _
  have : nHat = (S * S - b * b) / 4 := by rw [hS]; ring
  rw [this]; ring

theorem contClassicUb_eq (hF : F.OK) (n : Nat) (θ s : K) :
    let nHat : K := ((n : K) + 1 / 2) / θ
    let b : K := s * F.sqrt ((1 - θ) / θ)
    let S : K := F.sqrt (b * b + 4 * nHat)
    0 ≤ b * b + 4 * nHat →
    @contClassicUb K (fieldNum F) n θ s = ((S + b) / 2) * ((S + b) / 2) := by
  intro nHat b S hnn
  have hS : S * S = b * b + 4 * nHat := hF.sqrt_sq _ hnn
  unfold contClassicUb
  simp only [nat_eq, lit_eq, litK_c0_5, litK_c1, litK_c4]
  show nHat + 1 / 2 * (b * b) + 1 / 2 * b * S = _
  have : nHat = (S * S - b * b) / 4 := by rw [hS]; ring
  rw [this]; ring

/-- the continuity-corrected Gaussian lower bound is antitone in the number of standard deviations -/
theorem contClassicLb_antitone (hF : F.OK) (n : Nat) (hn : 1 ≤ n) (θ : K) (h0 : 0 < θ) (s1 s2 : K) (hs1 : 0 ≤ s1) (hs : s1 ≤ s2) :
    @contClassicLb K (fieldNum F) n θ s2 ≤ @contClassicLb K (fieldNum F) n θ s1 := by
  have hn' : (1 : K) ≤ n := by exact_mod_cast hn
  have hnHat : (0 : K) ≤ ((n : K) - 1 / 2) / θ := div_nonneg (by linarith) (le_of_lt h0)
  have hr := hF.sqrt_nonneg ((1 - θ) / θ)
  have hnn1 : 0 ≤ s1 * F.sqrt ((1 - θ) / θ) * (s1 * F.sqrt ((1 - θ) / θ)) + 4 * (((n : K) - 1 / 2) / θ) :=
    add_nonneg (mul_self_nonneg _) (mul_nonneg (by norm_num) hnHat)
  have hnn2 : 0 ≤ s2 * F.sqrt ((1 - θ) / θ) * (s2 * F.sqrt ((1 - θ) / θ)) + 4 * (((n : K) - 1 / 2) / θ) :=
    add_nonneg (mul_self_nonneg _) (mul_nonneg (by norm_num) hnHat)
  rw [contClassicLb_eq F hF n θ s1 hnn1, contClassicLb_eq F hF n θ s2 hnn2]
  obtain ⟨g0, g1, _⟩ := sqrt_shift (s1 * F.sqrt ((1 - θ) / θ)) (s2 * F.sqrt ((1 - θ) / θ)) _ _ (4 * (((n : K) - 1 / 2) / θ))
    (mul_nonneg hs1 hr) (mul_le_mul_of_nonneg_right hs hr) (mul_nonneg (by norm_num) hnHat) (hF.sqrt_nonneg _) (hF.sqrt_nonneg _)
    (hF.sqrt_sq _ hnn1) (hF.sqrt_sq _ hnn2)
  apply mul_self_le_mul_self <;> linarith

/-- the continuity-corrected Gaussian upper bound is monotone in the number of standard deviations -/
theorem contClassicUb_monotone (hF : F.OK) (n : Nat) (θ : K) (h0 : 0 < θ) (s1 s2 : K) (hs1 : 0 ≤ s1) (hs : s1 ≤ s2) :
    @contClassicUb K (fieldNum F) n θ s1 ≤ @contClassicUb K (fieldNum F) n θ s2 := by
  have hn' : (0 : K) ≤ n := Nat.cast_nonneg n
  have hnHat : (0 : K) ≤ ((n : K) + 1 / 2) / θ := div_nonneg (by linarith) (le_of_lt h0)
  have hr := hF.sqrt_nonneg ((1 - θ) / θ)
  have hnn1 : 0 ≤ s1 * F.sqrt ((1 - θ) / θ) * (s1 * F.sqrt ((1 - θ) / θ)) + 4 * (((n : K) + 1 / 2) / θ) :=
    add_nonneg (mul_self_nonneg _) (mul_nonneg (by norm_num) hnHat)
  have hnn2 : 0 ≤ s2 * F.sqrt ((1 - θ) / θ) * (s2 * F.sqrt ((1 - θ) / θ)) + 4 * (((n : K) + 1 / 2) / θ) :=
    add_nonneg (mul_self_nonneg _) (mul_nonneg (by norm_num) hnHat)
  rw [contClassicUb_eq F hF n θ s1 hnn1, contClassicUb_eq F hF n θ s2 hnn2]
  obtain ⟨_, _, g2⟩ := sqrt_shift (s1 * F.sqrt ((1 - θ) / θ)) (s2 * F.sqrt ((1 - θ) / θ)) _ _ (4 * (((n : K) + 1 / 2) / θ))
    (mul_nonneg hs1 hr) (mul_le_mul_of_nonneg_right hs hr) (mul_nonneg (by norm_num) hnHat) (hF.sqrt_nonneg _) (hF.sqrt_nonneg _)
    (hF.sqrt_sq _ hnn1) (hF.sqrt_sq _ hnn2)
  have hb1 : 0 ≤ s1 * F.sqrt ((1 - θ) / θ) := mul_nonneg hs1 hr
  have := hF.sqrt_nonneg (s1 * F.sqrt ((1 - θ) / θ) * (s1 * F.sqrt ((1 - θ) / θ)) + 4 * (((n : K) + 1 / 2) / θ))
  apply mul_self_le_mul_self <;> linarith

end DS.Bounds

/- C19 helper lemmas: the theta/tuple hash table programs keep their bookkeeping invariant and never fail a
   precondition (part 1: views, invariant, constructor, destructor, copy). -/
import DSModel.Life.Theta
import DSProofs.Lemmas.LifeView
namespace DS.Life.Theta
open DS.Life

/-! ### the invariant of one table block -/

/-- slot `i` of the table is either empty (key 0, raw storage) or holds a live entry with a non-zero key -/
def SlotOK (h : Heap) (b i : Nat) : Prop :=
  (wordAt h b i = 0 ∧ stAt h b i = .raw) ∨ (wordAt h b i ≠ 0 ∧ ∃ v, stAt h b i = .live v)

structure SlotsOK (h : Heap) (b size : Nat) : Prop where
  cells : HasCells h b size
  lt : b < h.next
  ok : ∀ i, i < size → SlotOK h b i

/-- non-zero keys are pairwise distinct -/
def Distinct (h : Heap) (b size : Nat) : Prop :=
  ∀ p q, p < size → q < size → wordAt h b p = wordAt h b q → wordAt h b p ≠ 0 → p = q

/-- the probe sequence of `find` -/
def probe (P : Params) (lg key : Nat) : Nat → Nat
  | 0 => key % 2 ^ lg
  | j + 1 => (probe P lg key j + stride P key lg) % 2 ^ lg

theorem probe_lt (P : Params) (lg key j : Nat) : probe P lg key j < 2 ^ lg := by
  cases j <;> exact Nat.mod_lt _ (Nat.pow_pos (by omega))

/-- `key` is reachable at probe step `j` and no earlier probe position is empty or holds `key` -/
def PathTo (P : Params) (h : Heap) (b lg key p : Nat) : Prop :=
  ∃ j, probe P lg key j = p ∧ ∀ j', j' < j → wordAt h b (probe P lg key j') ≠ 0 ∧ wordAt h b (probe P lg key j') ≠ key

/-- every stored key is found by `find` -/
def PathInv (P : Params) (h : Heap) (b lg : Nat) : Prop :=
  ∀ p, p < 2 ^ lg → wordAt h b p ≠ 0 → PathTo P h b lg (wordAt h b p) p

def nz (h : Heap) (b : Nat) : Nat → Bool := fun i => wordAt h b i != 0

theorem PathInv.distinct {P : Params} {h : Heap} {b lg : Nat} (hp : PathInv P h b lg) : Distinct h b (2 ^ lg) := by
  intro p q hpl hql heq hne
  obtain ⟨jp, ejp, hjp⟩ := hp p hpl hne
  obtain ⟨jq, ejq, hjq⟩ := hp q hql (heq ▸ hne)
  rw [← heq] at ejq hjq
  rcases Nat.lt_trichotomy jp jq with hlt | heq' | hgt
  · have := (hjq jp hlt).2
    rw [ejp] at this
    exact absurd rfl this
  · rw [← ejp, ← ejq, heq']
  · have := (hjp jq hgt).2
    rw [ejq, ← heq] at this
    exact absurd rfl this

/-- the bookkeeping invariant of the table block `b` of lg size `lg` holding `num` entries -/
structure TableAt (P : Params) (h : Heap) (b lg num : Nat) : Prop where
  slots : SlotsOK h b (2 ^ lg)
  path : PathInv P h b lg
  count : num = cnt (nz h b) (2 ^ lg)

/-- invariant of a table object (nothing is owned when `entries_ == nullptr`) -/
def TableInv (P : Params) (h : Heap) (t : Table) : Prop :=
  match t.entries with
  | none => True
  | some b => TableAt P h b t.lgCur t.num

/-! ### a block of raw cells whose keys are all zero is an empty table -/

theorem SlotsOK.cellAt {h : Heap} {b size i : Nat} (hs : SlotsOK h b size) (hi : i < size) :
    ∃ c, h.cell? b i = some c ∧ c.word = wordAt h b i ∧ c.st = stAt h b i := hs.cells.cell_st hi

/-- `zeroKeys`: cells stay raw, keys become 0 -/
theorem zeroKeys_spec (n0 : Nat) (S : Nat → Bool) (b size : Nat) (hS : S b = true) (ids : List Nat) (nx : Nat) :
    TripleS n0 S (fun h => HasCells h b size ∧ (∀ i, i < size → stAt h b i = .raw) ∧ h.ids = ids ∧ h.next = nx)
      (zeroKeys b size)
      (fun _ h => HasCells h b size ∧ (∀ i, i < size → stAt h b i = .raw ∧ wordAt h b i = 0) ∧ h.ids = ids ∧ h.next = nx) := by
  unfold zeroKeys
  have := TripleS.loopUp (n0 := n0) (S := S)
    (fun k h => HasCells h b size ∧ (∀ i, i < size → stAt h b i = .raw) ∧ (∀ i, i < k → wordAt h b i = 0) ∧ h.ids = ids ∧ h.next = nx)
    (fun i => writeWord b i 0) size 0 ?_
  · refine this.conseq ?_ ?_
    · intro h ⟨a, r, i, n⟩; exact ⟨a, r, fun i hi => by omega, i, n⟩
    · intro _ h ⟨a, r, z, i, n⟩
      exact ⟨a, fun i hi => ⟨r i hi, z i (by omega)⟩, i, n⟩
  · intro i _ hi h _ ⟨hc, hr, hz, hid, hnx⟩
    obtain ⟨c, e, _, est⟩ := hc.cell_st (by omega : i < size)
    apply SafeF.last
    apply step_writeWord 0 e hS
    apply SafeF.pure
    refine ⟨HasCells_setCell _ _ _ hc, ?_, ?_, by simpa using hid, by simpa using hnx⟩
    · intro j hj
      rw [stAt_setCell]
      split
      · simpa [est] using hr i (by omega)
      · exact hr j hj
    · intro j hj
      rw [wordAt_setCell]
      split
      · rfl
      · rename_i h1
        have : j ≠ i := fun e' => h1 ⟨rfl, e', by simp [e]⟩
        exact hz j (by omega)


/-- a freshly allocated block of `2^lg` zero-keyed raw cells is an empty table -/
theorem TableAt.empty (P : Params) {h : Heap} {b lg : Nat} (hc : HasCells h b (2 ^ lg)) (hlt : b < h.next)
    (hz : ∀ i, i < 2 ^ lg → stAt h b i = .raw ∧ wordAt h b i = 0) : TableAt P h b lg 0 := by
  refine ⟨⟨hc, hlt, fun i hi => Or.inl ⟨(hz i hi).2, (hz i hi).1⟩⟩, ?_, ?_⟩
  · intro p hp hne
    exact absurd (hz p hp).2 hne
  · symm
    apply cnt_zero_of_all_false
    intro i hi
    simp [nz, (hz i hi).2]

/-- constructor -/
theorem ctor_spec (P : Params) (n0 : Nat) (lgCur lgNom rf theta0 : Nat) (ids : List Nat) :
    TripleS n0 (foot [] n0) (fun h => h.ids = ids ∧ h.next = n0)
      (ctor lgCur lgNom rf theta0)
      (fun t h => TableInv P h t ∧ t.lgCur = lgCur ∧ t.lgNom = lgNom ∧ t.rf = rf ∧ t.num = 0 ∧
        ((lgCur > 0 ∧ t.entries = some n0 ∧ h.ids = n0 :: ids ∧ h.next = n0 + 1) ∨
         (lgCur = 0 ∧ t.entries = none ∧ h.ids = ids ∧ h.next = n0))) := by
  intro h hn ⟨hid, hnx⟩
  unfold ctor
  by_cases hl : lgCur > 0
  · rw [if_pos hl]
    apply step_alloc _ _ (foot_new (by omega))
    obtain ⟨hc, hr⟩ := afterAlloc_views h .entry (2 ^ lgCur)
    apply SafeF.bind_triple (zeroKeys_spec n0 (foot [] n0) h.next (2 ^ lgCur) (foot_new (by omega)) (h.next :: ids) (h.next + 1))
      (by simp; omega) ⟨hc, hr, by simp [hid], by simp⟩
    intro _ h1 ⟨hc1, hz, hid1, hnx1⟩ _
    apply SafeF.pure
    refine ⟨?_, rfl, rfl, rfl, rfl, Or.inl ⟨hl, by simp [hnx], by simp [hid1, hnx], by simp [hnx1, hnx]⟩⟩
    simp only [TableInv]
    exact TableAt.empty P hc1 (by omega) hz
  · rw [if_neg hl]
    apply SafeF.pure
    exact ⟨by simp [TableInv], rfl, rfl, rfl, rfl, Or.inr ⟨by omega, rfl, hid, hnx⟩⟩


theorem SlotOK_setCell_ne {h : Heap} {b i : Nat} {c : Cell} {b' j : Nat} (hne : ¬ (b' = b ∧ j = i))
    (hs : SlotOK h b' j) : SlotOK (h.setCell b i c) b' j := by
  unfold SlotOK at *
  rw [wordAt_setCell, stAt_setCell]
  have : ¬ (b' = b ∧ j = i ∧ (h.cell? b i).isSome = true) := fun x => hne ⟨x.1, x.2.1⟩
  simpa [this] using hs

/-- destructor of a table that owns block `b` -/
theorem dtor_spec (n0 : Nat) (S : Nat → Bool) (t : Table) (b : Nat) (hb : t.entries = some b) (hS : S b = true)
    (ids : List Nat) :
    TripleS n0 S (fun h => SlotsOK h b (2 ^ t.lgCur) ∧ h.ids = ids)
      (dtor t) (fun _ h => h.ids = ids.filter (fun x => x != b)) := by
  intro h hn ⟨hs, hid⟩
  unfold dtor
  rw [hb]
  simp only
  have loop := TripleS.loopUp (n0 := n0) (S := S)
    (fun k h => HasCells h b (2 ^ t.lgCur) ∧ (∀ i, i < k → stAt h b i = .raw) ∧
      (∀ i, k ≤ i → i < 2 ^ t.lgCur → SlotOK h b i) ∧ h.ids = ids)
    (fun i => do let k ← readWord b i; if k ≠ 0 then destroy b i) (2 ^ t.lgCur) 0 ?_
  · apply SafeF.bind_triple loop hn ⟨hs.cells, fun i hi => by omega, fun i _ hi => hs.ok i hi, hid⟩
    intro _ h1 ⟨hc1, hr1, _, hid1⟩ _
    apply SafeF.last
    apply step_dealloc hc1 ?_ hS
    · intro k
      apply SafeF.pure
      simp [hid1]
    · intro i hi
      obtain ⟨c, e, _, est⟩ := hc1.cell_st hi
      exact ⟨c, e, by rw [est]; exact hr1 i (by omega)⟩
  · intro i _ hi h _ ⟨hc, hr, hok, hid⟩
    have hi' : i < 2 ^ t.lgCur := by omega
    obtain ⟨c, e, ew, est⟩ := hc.cell_st hi'
    apply step_readWord e
    have hso := hok i (Nat.le_refl _) hi'
    by_cases hw : c.word ≠ 0
    · rw [if_pos hw]
      rcases hso with ⟨hz, _⟩ | ⟨_, v, hv⟩
      · exact absurd (ew ▸ hz) hw
      · apply SafeF.last
        apply step_destroy e (by rw [est, hv]; simp) hS
        intro ev
        apply SafeF.pure
        refine ⟨HasCells_addLog _ (HasCells_setCell _ _ _ hc), ?_, ?_, by simpa using hid⟩
        · intro j hj
          rw [stAt_addLog, stAt_setCell]
          split
          · rfl
          · rename_i h1
            have : j ≠ i := fun e' => h1 ⟨rfl, e', by simp [e]⟩
            exact hr j (by omega)
        · intro j hj1 hj2
          have : SlotOK (h.setCell b i { c with st := .raw }) b j :=
            SlotOK_setCell_ne (by omega) (hok j (by omega) hj2)
          exact this
    · rw [if_neg hw]
      apply SafeF.pure
      have hw0 : c.word = 0 := by omega
      refine ⟨hc, ?_, fun j hj1 hj2 => hok j (by omega) hj2, hid⟩
      intro j hj
      by_cases hji : j = i
      · subst hji
        rcases hso with ⟨_, hr'⟩ | ⟨hnz, _⟩
        · exact hr'
        · exact absurd (ew ▸ hw0) hnz
      · exact hr j (by omega)


/-! ### `find` -/

/-- what `find` returns: a slot holding the key, or an empty slot together with the evidence that the key is
    nowhere in the table and that the empty slot is the first such on the key's probe path -/
def FindPost (P : Params) (h : Heap) (b lg key : Nat) (r : Nat × Bool) : Prop :=
  r.1 < 2 ^ lg ∧
  ((r.2 = true ∧ wordAt h b r.1 = key) ∨
   (r.2 = false ∧ wordAt h b r.1 = 0 ∧ (∀ p, p < 2 ^ lg → wordAt h b p ≠ key) ∧ PathTo P h b lg key r.1))

theorem findLoop_spec (P : Params) (n0 : Nat) (S : Nat → Bool) (b lg key : Nat) (hk : key ≠ 0) (h0 : Heap)
    (hc : HasCells h0 b (2 ^ lg)) (hp : PathInv P h0 b lg) :
    ∀ fuel j, (∀ j', j' < j → wordAt h0 b (probe P lg key j') ≠ 0 ∧ wordAt h0 b (probe P lg key j') ≠ key) →
      SafeF S h0 (findLoop b (2 ^ lg) (stride P key lg) key fuel (probe P lg key j) h0)
        (fun r h => h = h0 ∧ FindPost P h0 b lg key r) := by
  intro fuel
  induction fuel with
  | zero => intro j _; exact SafeF.exc _
  | succ f ih =>
    intro j hj
    unfold findLoop
    obtain ⟨c, e, ew, _⟩ := hc.cell_st (probe_lt P lg key j)
    apply step_readWord e
    by_cases h0w : c.word = 0
    · rw [if_pos h0w]
      apply SafeF.pure
      refine ⟨rfl, probe_lt P lg key j, Or.inr ⟨rfl, by rw [← ew]; exact h0w, ?_, ⟨j, rfl, hj⟩⟩⟩
      intro p hpl hpk
      -- the key cannot be stored anywhere: its path would have to cross the empty slot
      have hne : wordAt h0 b p ≠ 0 := by rw [hpk]; exact hk
      obtain ⟨jp, ejp, hjp⟩ := hp p hpl hne
      rw [hpk] at ejp hjp
      rcases Nat.lt_trichotomy jp j with hlt | heq | hgt
      · have := (hj jp hlt).2
        rw [ejp, hpk] at this
        exact this rfl
      · subst heq
        rw [ejp] at e
        have : wordAt h0 b p = c.word := wordAt_of e
        omega
      · have := (hjp j hgt).1
        rw [ew] at h0w
        exact this h0w
    · rw [if_neg h0w]
      by_cases hkw : c.word = key
      · rw [if_pos hkw]
        apply SafeF.pure
        exact ⟨rfl, probe_lt P lg key j, Or.inl ⟨rfl, by rw [← ew]; exact hkw⟩⟩
      · rw [if_neg hkw]
        have := ih (j + 1) (by
          intro j' hj'
          by_cases hjj : j' = j
          · subst hjj; rw [← ew]; exact ⟨h0w, hkw⟩
          · exact hj j' (by omega))
        simpa [probe] using this

theorem find_spec (P : Params) (n0 : Nat) (S : Nat → Bool) (b lg key : Nat) (hk : key ≠ 0) (h0 : Heap)
    (hc : HasCells h0 b (2 ^ lg)) (hp : PathInv P h0 b lg) :
    SafeF S h0 (find P b lg key h0) (fun r h => h = h0 ∧ FindPost P h0 b lg key r) := by
  unfold find
  have := findLoop_spec P n0 S b lg key hk h0 hc hp (2 ^ lg) 0 (by intro j' hj'; omega)
  simpa [probe] using this


/-! ### entry-level steps (key word + summary value) -/

theorem vstep_constructEntry {β} {S} {h : Heap} {b i n : Nat} (key v : Nat) {f : Unit → M β} {Q : β → Heap → Prop}
    (hc : HasCells h b n) (hi : i < n) (hr : stAt h b i = .raw) (hS : S b = true)
    (s : ∀ h', SameBut h h' (fun b' j => b' = b ∧ j = i) → wordAt h' b i = key → stAt h' b i = .live v →
          SafeF S h' (f () h') Q) :
    SafeF S h ((constructEntry b i key v >>= f) h) Q := by
  unfold constructEntry
  simp only [M.bind_assoc]
  apply vstep_construct v hc hi hr hS
  intro h1 sb1 _ hst1
  apply vstep_writeWord key (sb1.cells _ _ hc) hi hS
  intro h2 sb2 hw2 hst2
  exact s h2 (sb1.trans sb2 (fun _ _ x => x) (fun _ _ x => x)) hw2 (by rw [hst2, hst1])

theorem vstep_copyConstructEntry {β} {S} {h : Heap} {sb si sn db di dn v : Nat} {f : Unit → M β} {Q : β → Heap → Prop}
    (hcs : HasCells h sb sn) (hsi : si < sn) (hl : stAt h sb si = .live v)
    (hcd : HasCells h db dn) (hdi : di < dn) (hr : stAt h db di = .raw) (hS : S db = true)
    (s : ∀ h', SameBut h h' (fun b' j => b' = db ∧ j = di) → wordAt h' db di = wordAt h sb si → stAt h' db di = .live v →
          SafeF S h' (f () h') Q) :
    SafeF S h ((copyConstructEntry sb si db di >>= f) h) Q := by
  unfold copyConstructEntry
  simp only [M.bind_assoc]
  apply vstep_read hcs hsi hl
  apply vstep_readWord hcs hsi
  apply vstep_construct v hcd hdi hr hS
  intro h1 sb1 _ hst1
  apply vstep_writeWord _ (sb1.cells _ _ hcd) hdi hS
  intro h2 sb2 hw2 hst2
  exact s h2 (sb1.trans sb2 (fun _ _ x => x) (fun _ _ x => x)) hw2 (by rw [hst2, hst1])

theorem vstep_moveConstructEntry {β} {S} {h : Heap} {sb si sn db di dn v : Nat} {f : Unit → M β} {Q : β → Heap → Prop}
    (hcs : HasCells h sb sn) (hsi : si < sn) (hl : stAt h sb si = .live v)
    (hcd : HasCells h db dn) (hdi : di < dn) (hr : stAt h db di = .raw) (hne : ¬ (db = sb ∧ di = si))
    (hSs : S sb = true) (hSd : S db = true)
    (s : ∀ h', SameBut h h' (fun b' j => (b' = sb ∧ j = si) ∨ (b' = db ∧ j = di)) →
          wordAt h' db di = wordAt h sb si → stAt h' db di = .live v →
          wordAt h' sb si = wordAt h sb si → stAt h' sb si = .moved → SafeF S h' (f () h') Q) :
    SafeF S h ((moveConstructEntry sb si db di >>= f) h) Q := by
  unfold moveConstructEntry
  simp only [M.bind_assoc]
  apply vstep_moveFrom hcs hsi hl hSs
  intro h1 sb1 hw1 hst1
  apply vstep_readWord (sb1.cells _ _ hcs) hsi
  have hr1 : stAt h1 db di = .raw := by rw [sb1.st db di (fun x => hne x)]; exact hr
  apply vstep_construct v (sb1.cells _ _ hcd) hdi hr1 hSd
  intro h2 sb2 _ hst2
  apply vstep_writeWord _ (sb2.cells _ _ (sb1.cells _ _ hcd)) hdi hSd
  intro h3 sb3 hw3 hst3
  have hne' : ¬ (sb = db ∧ si = di) := fun x => hne ⟨x.1.symm, x.2.symm⟩
  apply s h3 ((sb1.trans sb2 (fun _ _ x => Or.inl x) (fun _ _ x => Or.inr x)).trans sb3 (fun _ _ x => x) (fun _ _ x => Or.inr x))
  · rw [hw3, hw1]
  · rw [hst3, hst2]
  · rw [sb3.word sb si hne', sb2.word sb si hne', hw1]
  · rw [sb3.st sb si hne', sb2.st sb si hne', hst1]

end DS.Life.Theta

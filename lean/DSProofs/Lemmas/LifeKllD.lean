/- C19, KLL sketch part 4: self-move-assignment, copy assignment, move assignment. -/
import DSProofs.Lemmas.LifeKllC
namespace DS.Life.Kll
open DS.Life

theorem selfMoveAssign_contract (P : Params) (n0 : Nat) (t : Sketch) (ids0 : List Nat) :
    TripleS n0 (foot (owned t) n0) (fun h => Usable P h t ∧ h.ids = ids0 ∧ h.next = n0) (selfMoveAssign t)
      (fun t' h' => Usable P h' t' ∧ Owns h' ids0 (owned t) (owned t') n0) := by
  intro h hn ⟨u, hid, hnx⟩
  have inv := u.toInv
  unfold selfMoveAssign
  apply SafeF.last
  apply vstep_resetSortedView (fun v hv => ⟨(inv.view_ok v hv).1, (inv.view_ok v hv).2.1,
    foot_own (mem_owned.2 (Or.inr (Or.inr hv)))⟩)
  intro h1 so1 hid1 hnx1
  apply SafeF.pure
  have hsv : t.view ≠ some t.self := fun e => (inv.view_ok _ e).2.2.2 rfl
  have ss := so1 t.self hsv
  refine ⟨u.rehome t.self none (ss.cells _ inv.self_cells) (by rw [hnx1]; exact inv.self_lt) (ss.st 0) (ss.st 1)
    (fun b hb => ⟨so1 b (inv.items_ok b hb).2.2.2.2, (inv.items_ok b hb).2.2.2.1, by simp⟩) (by omega)
    (fun v hv => by cases hv), fun x => ?_, fun x hx => ?_⟩
  · rw [hid1, hid]
    simp only [List.mem_filter, bne_iff_ne, ne_eq, mem_owned, reduceCtorEq, or_false, not_or]
    have hoi := fun y hy => (inv.owned_ids y hy).1
    rw [hid] at hoi
    constructor
    · rintro ⟨a, b⟩
      by_cases h1' : x = t.self
      · exact Or.inr (Or.inl h1')
      · by_cases h2' : t.items = some x
        · exact Or.inr (Or.inr h2')
        · exact Or.inl ⟨a, h1', h2', b⟩
    · rintro (⟨a, _, _, d⟩ | e | e)
      · exact ⟨a, d⟩
      · exact ⟨hoi x (mem_owned.2 (Or.inl e)), fun e' => (inv.view_ok x e').2.2.2 e⟩
      · exact ⟨hoi x (mem_owned.2 (Or.inr (Or.inl e))), (inv.items_ok x e).2.2.2.2⟩
  · simp only [mem_owned, reduceCtorEq, or_false] at hx
    rcases hx with e | e
    · exact Or.inl (mem_owned.2 (Or.inl e))
    · exact Or.inl (mem_owned.2 (Or.inr (Or.inl e)))

theorem moveAssignCore_contract (P : Params) (n0 : Nat) (t o : Sketch) (ids0 : List Nat) :
    TripleS n0 (foot (owned t ++ owned o) n0)
      (fun h => Inv P h t ∧ Usable P h o ∧ (∀ b, b ∈ owned t → b ∉ owned o) ∧ h.ids = ids0 ∧ h.next = n0)
      (moveAssignCore t o)
      (fun r h' => Usable P h' r.1 ∧ Inv P h' r.2 ∧ (∀ b, b ∈ owned r.1 → b ∉ owned r.2) ∧
         Owns h' ids0 (owned t ++ owned o) (owned r.1 ++ owned r.2) n0) := by
  intro h hn ⟨it, uo, dj, hid, hnx⟩
  have io := uo.toInv
  have hSt : ∀ b, b ∈ owned t → foot (owned t ++ owned o) n0 b = true := fun b hb => foot_own (by simp [hb])
  have hSo : ∀ b, b ∈ owned o → foot (owned t ++ owned o) n0 b = true := fun b hb => foot_own (by simp [hb])
  have hts : t.self ∈ owned t := mem_owned.2 (Or.inl rfl)
  have hos : o.self ∈ owned o := mem_owned.2 (Or.inl rfl)
  have hne : t.self ≠ o.self := fun e => dj _ hts (e ▸ hos)
  unfold moveAssignCore
  apply vstep_optSwap it.self_cells (by omega : 0 < 2) io.self_cells (by omega : 0 < 2) hne (hSt _ hts) (hSo _ hos)
  intro h1 sb1 a1 b1
  apply vstep_optSwap (sb1.cells _ _ it.self_cells) (by omega : 1 < 2) (sb1.cells _ _ io.self_cells) (by omega : 1 < 2)
    hne (hSt _ hts) (hSo _ hos)
  intro h2 sb2 a2 b2
  have oth : ∀ b, b ≠ t.self → b ≠ o.self → SameOn h h2 b := fun b x y =>
    (sb1.sameOn (fun j z => by rcases z with z | z; exact x z.1; exact y z.1)).trans
      (sb2.sameOn (fun j z => by rcases z with z | z; exact x z.1; exact y z.1))
  have hview : ∀ v, t.view = some v → v ≠ t.self ∧ v ≠ o.self := fun v hv =>
    ⟨(it.view_ok v hv).2.2.2, fun e => dj v (mem_owned.2 (Or.inr (Or.inr hv))) (e ▸ hos)⟩
  apply vstep_resetSortedView (s := { o with self := t.self, view := t.view })
  · intro v hv
    have sv := oth v (hview v hv).1 (hview v hv).2
    exact ⟨sv.cells _ (it.view_ok v hv).1, by rw [sv.st]; exact (it.view_ok v hv).2.1,
      hSt _ (mem_owned.2 (Or.inr (Or.inr hv)))⟩
  intro h3 so3 hid3 hnx3
  simp only at so3 hid3
  apply SafeF.pure
  have hnx : h3.next = h.next := by rw [hnx3, sb2.next, sb1.next]
  have c23 : ∀ b, t.view ≠ some b → SameOn h2 h3 b := so3
  have hts3 : HasCells h3 t.self 2 :=
    (c23 _ (fun e => (hview _ e).1 rfl)).cells _ (sb2.cells _ _ (sb1.cells _ _ it.self_cells))
  have hos3 : HasCells h3 o.self 2 :=
    (c23 _ (fun e => (hview _ e).2 rfl)).cells _ (sb2.cells _ _ (sb1.cells _ _ io.self_cells))
  have hoi : ∀ b, o.items = some b → b ≠ o.self ∧ b ≠ t.self ∧ t.view ≠ some b ∧ o.view ≠ some b := fun b hb => by
    have hbo : b ∈ owned o := mem_owned.2 (Or.inr (Or.inl hb))
    exact ⟨(io.items_ok b hb).2.2.2.1, fun e => dj _ hts (e ▸ hbo),
      fun e => dj b (mem_owned.2 (Or.inr (Or.inr e))) hbo, (io.items_ok b hb).2.2.2.2⟩
  have hti : ∀ b, t.items = some b → b ≠ t.self ∧ b ≠ o.self ∧ t.view ≠ some b ∧ o.view ≠ some b := fun b hb => by
    have hbt : b ∈ owned t := mem_owned.2 (Or.inr (Or.inl hb))
    exact ⟨(it.items_ok b hb).2.2.2.1, fun e => dj b hbt (e ▸ hos), (it.items_ok b hb).2.2.2.2,
      fun e => dj b hbt (mem_owned.2 (Or.inr (Or.inr e)))⟩
  have hov : ∀ v, o.view = some v → v ≠ o.self ∧ v ≠ t.self ∧ t.view ≠ some v := fun v hv => by
    have hvo : v ∈ owned o := mem_owned.2 (Or.inr (Or.inr hv))
    exact ⟨(io.view_ok v hv).2.2.2, fun e => dj _ hts (e ▸ hvo), fun e => dj v (mem_owned.2 (Or.inr (Or.inr e))) hvo⟩
  have u1 : Usable P h3 { o with self := t.self, view := none } := by
    apply uo.rehome t.self none hts3 (by rw [hnx]; exact it.self_lt)
    · rw [(c23 _ (fun e => (hview _ e).1 rfl)).st, sb2.st _ _ (fun z => by rcases z with z | z <;> omega), a1]
    · rw [(c23 _ (fun e => (hview _ e).1 rfl)).st, a2, sb1.st _ _ (fun z => by rcases z with z | z <;> omega)]
    · intro b hb
      obtain ⟨x1, x2, x3, _⟩ := hoi b hb
      exact ⟨(oth b x2 x1).trans (c23 b x3), x2, by simp⟩
    · omega
    · intro v hv; cases hv
  have i2 : Inv P h3 { t with self := o.self, view := o.view } := by
    apply it.rehome o.self o.view hos3 (by rw [hnx]; exact io.self_lt)
    · intro b hb
      obtain ⟨x1, x2, x3, x4⟩ := hti b hb
      exact ⟨(oth b x1 x2).trans (c23 b x3), x2, x4⟩
    · omega
    · intro v hv
      obtain ⟨x1, x2, x3⟩ := hov v hv
      have sv := (oth v x2 x1).trans (c23 v x3)
      exact ⟨sv.cells _ (io.view_ok v hv).1, by rw [sv.st]; exact (io.view_ok v hv).2.1,
        by rw [hnx]; exact (io.view_ok v hv).2.2.1, x1⟩
  refine ⟨u1, i2, ?_, fun x => ?_, fun x hx => ?_⟩
  · intro b hb hb2
    simp only [mem_owned, reduceCtorEq, or_false] at hb hb2
    rcases hb with rfl | hb
    · rcases hb2 with e | e | e
      · exact hne e
      · exact (hti _ e).1 rfl
      · exact (hov _ e).2.1 rfl
    · obtain ⟨x1, x2, x3, x4⟩ := hoi b hb
      rcases hb2 with e | e | e
      · exact x1 e
      · exact dj b (mem_owned.2 (Or.inr (Or.inl e))) (mem_owned.2 (Or.inr (Or.inl hb)))
      · exact x4 e
  · rw [hid3, sb2.ids, sb1.ids, hid]
    simp only [List.mem_filter, bne_iff_ne, ne_eq, List.mem_append, mem_owned, reduceCtorEq, or_false, not_or]
    have hti' := fun y hy => (it.owned_ids y hy).1
    have hoi' := fun y hy => (io.owned_ids y hy).1
    rw [hid] at hti' hoi'
    constructor
    · rintro ⟨a, b⟩
      by_cases h1' : x = t.self
      · exact Or.inr (Or.inl (Or.inl h1'))
      · by_cases h2' : o.items = some x
        · exact Or.inr (Or.inl (Or.inr h2'))
        · by_cases h3' : x = o.self
          · exact Or.inr (Or.inr (Or.inl h3'))
          · by_cases h4' : t.items = some x
            · exact Or.inr (Or.inr (Or.inr (Or.inl h4')))
            · by_cases h5' : o.view = some x
              · exact Or.inr (Or.inr (Or.inr (Or.inr h5')))
              · exact Or.inl ⟨a, ⟨h1', h4', b⟩, h3', h2', h5'⟩
    · rintro (⟨a, ⟨_, _, b⟩, _⟩ | (e | e) | (e | e | e))
      · exact ⟨a, b⟩
      · exact ⟨hti' x (mem_owned.2 (Or.inl e)), fun e' => (hview x e').1 e⟩
      · exact ⟨hoi' x (mem_owned.2 (Or.inr (Or.inl e))), (hoi x e).2.2.1⟩
      · exact ⟨hoi' x (mem_owned.2 (Or.inl e)), fun e' => (hview x e').2 e⟩
      · exact ⟨hti' x (mem_owned.2 (Or.inr (Or.inl e))), (hti x e).2.2.1⟩
      · exact ⟨hoi' x (mem_owned.2 (Or.inr (Or.inr e))), (hov x e).2.2⟩
  · simp only [List.mem_append, mem_owned, reduceCtorEq, or_false] at hx ⊢
    rcases hx with (e | e) | (e | e | e)
    · exact Or.inl (Or.inl (Or.inl e))
    · exact Or.inl (Or.inr (Or.inr (Or.inl e)))
    · exact Or.inl (Or.inr (Or.inl e))
    · exact Or.inl (Or.inl (Or.inr (Or.inl e)))
    · exact Or.inl (Or.inr (Or.inr (Or.inr e)))


theorem copyAssign_contract (P : Params) (n0 : Nat) (t o : Sketch) (ids0 : List Nat) :
    TripleS n0 (foot (owned t) n0)
      (fun h => Inv P h t ∧ Usable P h o ∧ (t = o ∨ ∀ b, b ∈ owned t → b ∉ owned o) ∧ h.ids = ids0 ∧ h.next = n0 ∧
         (∀ b, b ∈ owned t → b < n0) ∧ (∀ b, b ∈ owned o → b < n0) ∧ (∀ x, x ∈ ids0 → x < n0))
      (copyAssign t o) (fun t' h' => Usable P h' t' ∧ Owns h' ids0 (owned t) (owned t') n0) := by
  intro h hn ⟨it, uo, _, hid, hnx, _, _, hwf⟩
  have hSt : ∀ b, b ∈ owned t → foot (owned t) n0 b = true := fun b hb => foot_own hb
  have hSn : ∀ x, n0 ≤ x → foot (owned t) n0 x = true := fun x hx => foot_new hx
  have hts : t.self ∈ owned t := mem_owned.2 (Or.inl rfl)
  have htlt : ∀ b, b ∈ owned t → b < h.next := fun b hb => (it.owned_ids b hb).2
  unfold copyAssign
  apply SafeF.bind_triple (copyCtor_spec P n0 _ o hSn h) hn ⟨rfl, uo⟩
  intro copy h1 ⟨ec, uc, old1, hid1, hnx1⟩ _
  subst ec
  simp only
  have ic := uc.toInv
  have hcs : HasCells h1 h.next 2 := ic.self_cells
  have st1 := old1 _ (htlt _ hts)
  have hne : t.self ≠ h.next := by have := htlt _ hts; omega
  apply vstep_optSwap (st1.cells _ it.self_cells) (by omega : 0 < 2) hcs (by omega : 0 < 2) hne (hSt _ hts)
    (hSn _ (by omega))
  intro h2 sb2 a2 b2
  apply vstep_optSwap (sb2.cells _ _ (st1.cells _ it.self_cells)) (by omega : 1 < 2) (sb2.cells _ _ hcs)
    (by omega : 1 < 2) hne (hSt _ hts) (hSn _ (by omega))
  intro h3 sb3 a3 b3
  have oth13 : ∀ b, b ≠ t.self → b ≠ h.next → SameOn h1 h3 b := fun b x y =>
    (sb2.sameOn (fun j z => by rcases z with z | z; exact x z.1; exact y z.1)).trans
      (sb3.sameOn (fun j z => by rcases z with z | z; exact x z.1; exact y z.1))
  have hview : ∀ v, t.view = some v → v ≠ t.self ∧ v < h.next := fun v hv =>
    ⟨(it.view_ok v hv).2.2.2, (it.view_ok v hv).2.2.1⟩
  have hti : ∀ b, t.items = some b → b ≠ t.self ∧ b < h.next ∧ t.view ≠ some b := fun b hb =>
    ⟨(it.items_ok b hb).2.2.2.1, (it.items_ok b hb).2.2.1, (it.items_ok b hb).2.2.2.2⟩
  apply vstep_resetSortedView (s := { o with self := t.self, items := some (h.next + 1), view := t.view })
  · intro v hv
    have sv := (old1 v (hview v hv).2).trans (oth13 v (hview v hv).1 (by have := (hview v hv).2; omega))
    exact ⟨sv.cells _ (it.view_ok v hv).1, by rw [sv.st]; exact (it.view_ok v hv).2.1,
      hSt _ (mem_owned.2 (Or.inr (Or.inr hv)))⟩
  intro h4 so4 hid4 hnx4
  simp only at so4 hid4
  have hnx4' : h4.next = h.next + 2 := by rw [hnx4, sb3.next, sb2.next, hnx1]
  -- the temporary holding the old state dies
  have id4 : Inv P h4 { t with self := h.next, view := none } := by
    apply it.rehome h.next none
      ((so4 _ (fun e => by have := (hview _ e).2; omega)).cells _ (sb3.cells _ _ (sb2.cells _ _ hcs))) (by omega)
    · intro b hb
      obtain ⟨x1, x2, x3⟩ := hti b hb
      exact ⟨((old1 b x2).trans (oth13 b x1 (by omega))).trans (so4 b x3), by omega, by simp⟩
    · omega
    · intro v hv; cases hv
  have hSd : ∀ b, b ∈ owned { t with self := h.next, view := none } → foot (owned t) n0 b = true := by
    intro b hb
    simp only [mem_owned, reduceCtorEq, or_false] at hb
    rcases hb with rfl | hb
    · exact hSn _ hn
    · exact hSt _ (mem_owned.2 (Or.inr (Or.inl hb)))
  apply SafeF.bind_triple (dtor_spec P n0 _ _ hSd h4) (by omega) ⟨rfl, id4⟩
  intro _ h5 ⟨so5, hid5, hnx5⟩ _
  apply SafeF.pure
  have hnd : ∀ b, b ≠ h.next → t.items ≠ some b → b ∉ owned { t with self := h.next, view := none } := by
    intro b x y hb
    simp only [mem_owned, reduceCtorEq, or_false] at hb
    rcases hb with e | e
    · exact x e
    · exact y e
  have hts5 : SameOn h3 h5 t.self :=
    (so4 _ (fun e => (hview _ e).1 rfl)).trans (so5 _ (hnd _ hne (fun e => (hti _ e).1 rfl)))
  have hni : ∀ b, h.next ≤ b → t.items ≠ some b ∧ t.view ≠ some b := fun b hb =>
    ⟨fun e => by have := (hti _ e).2.1; omega, fun e => by have := (hview _ e).2; omega⟩
  have u5 : Usable P h5 { o with self := t.self, items := some (h.next + 1), view := none } := by
    apply uc.rehome t.self none (hts5.cells _ (sb3.cells _ _ (sb2.cells _ _ (st1.cells _ it.self_cells))))
      (by rw [hnx5, hnx4']; have := htlt _ hts; omega)
    · rw [hts5.st, sb3.st _ _ (fun z => by rcases z with z | z <;> omega), a2]
    · rw [hts5.st, a3, sb2.st _ _ (fun z => by rcases z with z | z <;> omega)]
    · intro b hb
      simp only [Option.some.injEq] at hb
      subst hb
      refine ⟨((oth13 _ (by have := htlt _ hts; omega) (by omega)).trans (so4 _ (hni _ (by omega)).2)).trans
        (so5 _ (hnd _ (by omega) (hni _ (by omega)).1)), by have := htlt _ hts; omega, by simp⟩
    · omega
    · intro v hv; cases hv
  refine ⟨u5, fun x => ?_, fun x hx => ?_⟩
  · rw [hid5 x, hid4, sb3.ids, sb2.ids, hid1, hid]
    simp only [List.mem_filter, List.mem_cons, bne_iff_ne, ne_eq, mem_owned, reduceCtorEq, or_false, not_or,
      Option.some.injEq]
    have hti' := fun y hy => (it.owned_ids y hy).1
    rw [hid] at hti'
    constructor
    · rintro ⟨⟨a, b⟩, c, d⟩
      rcases a with a | a | a
      · exact Or.inr (Or.inr a.symm)
      · exact absurd a c
      · by_cases h1' : x = t.self
        · exact Or.inr (Or.inl h1')
        · exact Or.inl ⟨a, h1', d, b⟩
    · rintro (⟨a, _, c, d⟩ | e | e)
      · have hxl : x < h.next := by rw [hnx]; exact hwf x a
        exact ⟨⟨Or.inr (Or.inr a), d⟩, by omega, c⟩
      · exact ⟨⟨Or.inr (Or.inr (hti' x (mem_owned.2 (Or.inl e)))), fun e' => (hview x e').1 e⟩,
          by have := htlt _ hts; omega, fun e' => (hti x e').1 e⟩
      · exact ⟨⟨Or.inl e.symm, (hni x (by omega)).2⟩, by omega, (hni x (by omega)).1⟩
  · simp only [mem_owned, reduceCtorEq, or_false, Option.some.injEq] at hx
    rcases hx with e | e
    · exact Or.inl (mem_owned.2 (Or.inl e))
    · right; omega

end DS.Life.Kll

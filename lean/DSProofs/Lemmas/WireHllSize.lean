/- Lengths of HLL images, the advertised size formulas and the published maximum. -/
import DSProofs.Lemmas.WireHllRT

namespace DS.Wire.Hll
open DS.Wire DS.Wire.Reader

theorem drop_append_of_length {a b : Bytes} {n : Nat} (h : a.length = n) : (a ++ b).drop n = b := by
  subst h; simp

/-- header bytes preceding the table / register area -/
def dataStart : Img → Nat
  | .list _ => 8
  | .set _ => 12
  | .hll _ => 40

theorem length_encode (c : Consts) (s : Img) : (encode c s).length = dataStart s + footprint s := by
  cases s <;>
    simp [encode, encodeList, encodeSet, encodeHll, length_encodeHdr, length_wU32s, w64, w32, length_wLe, dataStart, footprint] <;>
    omega

theorem size_eq_of_WF (c : Consts) (s : Img) (hw : s.WF c) : (encode c s).length = serializedSize c s := by
  rw [length_encode]
  cases s with
  | list s =>
    obtain ⟨_, _, _, hl, _⟩ := hw
    simp [dataStart, footprint, serializedSize, listSize, hl]
  | set s =>
    obtain ⟨⟨_, _, _, _, _, hl, _⟩, _⟩ := hw
    simp [dataStart, footprint, serializedSize, setSize, hl]
  | hll s =>
    obtain ⟨_, _, _, _, _, _, _, _, _, hrl, hal, _⟩ := hw
    simp [dataStart, footprint, serializedSize, hllSize, hrl, hal]; omega

theorem arrBytes_ge (tgt lgK : Nat) (hk : 1 ≤ lgK) : 2 ^ (lgK - 1) ≤ arrBytes tgt lgK := by
  have h2 : 2 ^ lgK = 2 * 2 ^ (lgK - 1) := by
    have : lgK = (lgK - 1) + 1 := by omega
    conv => lhs; rw [this, Nat.pow_succ]
    omega
  unfold arrBytes
  split
  · exact Nat.le_refl _
  · split <;> omega

/-- the aux table of an updatable HLL_4 image has its initial size LG_AUX_ARR_INTS[lg_k] (it has not grown) -/
def auxNotGrown (c : Consts) : Img → Prop
  | .hll s => lgAuxOf c s.h s.auxCount ≤ lgAuxDefault c s.h.lgK
  | _ => True
instance (c : Consts) (s : Img) : Decidable (auxNotGrown c s) := by cases s <;> (unfold auxNotGrown; infer_instance)

theorem size_le_max_of_WF (c : Consts) (hL : c.lgInitListSize ≤ 3) (s : Img) (hw : s.WF c)
    (hu : s.hdr.compact c = false) (hg : auxNotGrown c s) :
    serializedSize c s ≤ maxSerializedSize c s.hdr.lgK s.hdr.tgt := by
  cases s with
  | list s =>
    simp only [Img.hdr] at hu
    have h8 : 2 ^ c.lgInitListSize ≤ 2 ^ 3 := Nat.pow_le_pow_right (by omega) hL
    simp only [serializedSize, listSize, listLen, hu, Bool.false_eq_true, if_false, maxSerializedSize, Img.hdr]
    omega
  | set s =>
    simp only [Img.hdr] at hu
    obtain ⟨⟨_, _, _, hk, _, _, _⟩, _, hlo, hhi, _⟩ := hw
    have hnl : ¬ s.h.lgArr < c.lgInitSetSize := by omega
    have hp : 2 ^ (s.h.lgArr + 2) ≤ 2 ^ (s.h.lgK - 1) := Nat.pow_le_pow_right (by omega) (by omega)
    have hge := arrBytes_ge s.h.tgt s.h.lgK (by omega)
    have h4 : 2 ^ (s.h.lgArr + 2) = 4 * 2 ^ s.h.lgArr := by rw [Nat.pow_add]; omega
    simp only [serializedSize, setSize, setLen, setLgArr, hu, hnl, Bool.false_eq_true, if_false, maxSerializedSize, Img.hdr]
    omega
  | hll s =>
    simp only [Img.hdr] at hu
    simp only [auxNotGrown] at hg
    have hp : 2 ^ lgAuxOf c s.h s.auxCount ≤ 2 ^ lgAuxDefault c s.h.lgK := Nat.pow_le_pow_right (by omega) hg
    by_cases ht : s.h.tgt = 0 <;>
      simp only [serializedSize, hllSize, auxLen, hu, ht, Bool.false_eq_true, if_false, if_true, maxSerializedSize, Img.hdr] <;>
      omega

end DS.Wire.Hll

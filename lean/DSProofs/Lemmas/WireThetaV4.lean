/-
Compressed theta images (serial version 4): delta coding, entry-width adequacy, count bytes, round trip (helper lemmas).
-/
import DSProofs.Lemmas.WireTheta
import DSProofs.Lemmas.BitPack
namespace DS.Wire.Theta
open DS.Wire Reader DS.Wire.BitPack

/-! ### delta coding -/

theorem length_deltas (p : Nat) (es : List Nat) : (deltas p es).length = es.length := by
  induction es generalizing p with
  | nil => rfl
  | cons e t ih => simp [deltas, ih]

/-- **delta-sum lemma**: running sums of the deltas give the hashes back -/
theorem undelta_deltas (p : Nat) (es : List Nat) (hasc : ascFrom p es) (hlt : ∀ e ∈ es, e < 2 ^ 64) :
    undelta p (deltas p es) = es := by
  induction es generalizing p with
  | nil => rfl
  | cons e t ih =>
    obtain ⟨hp, ht⟩ := hasc
    have he : e < 2 ^ 64 := hlt e (by simp)
    have h1 : (p + (e - p)) % 2 ^ 64 = e := by
      have : p + (e - p) = e := by omega
      rw [this, Nat.mod_eq_of_lt he]
    simp only [deltas, undelta, h1]
    rw [ih e ht (fun x hx => hlt x (by simp [hx]))]

theorem deltas_lt (p : Nat) (es : List Nat) (k : Nat) (hlt : ∀ e ∈ es, e < k) : ∀ d ∈ deltas p es, d < k := by
  induction es generalizing p with
  | nil => intro d hd; simp [deltas] at hd
  | cons e t ih =>
    intro d hd
    simp only [deltas, List.mem_cons] at hd
    rcases hd with rfl | hd
    · have := hlt e (by simp); omega
    · exact ih e (fun x hx => hlt x (by simp [hx])) d hd

theorem deltas_pos (p : Nat) (es : List Nat) (hasc : ascFrom p es) : ∀ d ∈ deltas p es, 0 < d := by
  induction es generalizing p with
  | nil => intro d hd; simp [deltas] at hd
  | cons e t ih =>
    obtain ⟨hp, ht⟩ := hasc
    intro d hd
    simp only [deltas, List.mem_cons] at hd
    rcases hd with rfl | hd
    · omega
    · exact ih e ht d hd

/-! ### entry width -/

theorem le_orAll (ds : List Nat) : ∀ d ∈ ds, d ≤ orAll ds := by
  induction ds with
  | nil => intro d hd; simp at hd
  | cons x t ih =>
    intro d hd
    simp only [List.mem_cons] at hd
    simp only [orAll]
    rcases hd with rfl | hd
    · exact Nat.left_le_or
    · exact Nat.le_trans (ih d hd) Nat.right_le_or

theorem orAll_lt (ds : List Nat) (k : Nat) (h : ∀ d ∈ ds, d < 2 ^ k) : orAll ds < 2 ^ k := by
  induction ds with
  | nil => simp [orAll, Nat.two_pow_pos]
  | cons x t ih =>
    simp only [orAll]
    exact Nat.or_lt_two_pow (h x (by simp)) (ih (fun d hd => h d (by simp [hd])))

theorem lt_two_pow_bitLen (x : Nat) : x < 2 ^ bitLen x := by
  unfold bitLen; split
  · subst_vars; decide
  · exact Nat.lt_log2_self

theorem bitLen_le (x k : Nat) (h : x < 2 ^ k) : bitLen x ≤ k := by
  unfold bitLen; split
  · omega
  · rename_i hx
    have := (Nat.log2_lt hx).2 h
    omega

theorem bitLen_pos (x : Nat) (h : 0 < x) : 0 < bitLen x := by
  unfold bitLen; split
  · omega
  · omega

/-- **entry-bits adequacy**: every delta fits into the computed entry width -/
theorem deltas_lt_entryBits (es : List Nat) : ∀ d ∈ deltas 0 es, d < 2 ^ entryBits es := by
  intro d hd
  exact Nat.lt_of_le_of_lt (le_orAll _ d hd) (lt_two_pow_bitLen _)

theorem entryBits_le_63 (es : List Nat) (h : ∀ e ∈ es, e < 2 ^ 63) : entryBits es ≤ 63 :=
  bitLen_le _ _ (orAll_lt _ _ (deltas_lt 0 es _ h))

theorem entryBits_pos (es : List Nat) (hne : es ≠ []) (hasc : ascFrom 0 es) : 0 < entryBits es := by
  match es, hne with
  | e :: t, _ =>
    apply bitLen_pos
    have h1 : 0 < e - 0 := deltas_pos 0 (e :: t) hasc _ (by simp [deltas])
    have h2 : e - 0 ≤ orAll (deltas 0 (e :: t)) := le_orAll _ _ (by simp [deltas])
    omega

theorem lt_numEntriesBytes (n : Nat) : n < 256 ^ numEntriesBytes n := by
  unfold numEntriesBytes
  rw [← two_pow_8_mul]
  exact Nat.lt_of_lt_of_le (lt_two_pow_bitLen n) (Nat.pow_le_pow_right (by decide) (eight_bytesForBits _))

theorem numEntriesBytes_le_4 (n : Nat) (h : n < 2 ^ 32) : numEntriesBytes n ≤ 4 := by
  have := bitLen_le n 32 h
  unfold numEntriesBytes bytesForBits
  omega

theorem flagsByteV4_lt {c : Consts} (hc : COk c) : flagsByteV4 c < 256 := by
  unfold flagsByteV4
  exact or_lt_256 _ _ (or_lt_256 _ _ (two_pow_lt_256 _ hc.co) (two_pow_lt_256 _ hc.ro)) (two_pow_lt_256 _ hc.od)

/-! ### round trip -/

theorem suitable_facts (s : Image) (hwf : WF s) (hs : suitable s = true) :
    s.isOrdered = true ∧ s.isEmpty = false ∧ s.entries ≠ [] := by
  obtain ⟨_, _, _, _, hemp, _⟩ := hwf
  simp only [suitable, Bool.and_eq_true, bne_iff_ne, ne_eq, Bool.not_eq_true'] at hs
  obtain ⟨⟨ho, hn⟩, _⟩ := hs
  have hne : s.entries ≠ [] := by intro h; simp [h] at hn
  refine ⟨ho, ?_, hne⟩
  cases he : s.isEmpty with
  | false => rfl
  | true => exact absurd (hemp he).1 hne

theorem decodeV4_encode {c : Consts} (hc : COk c) (s : Image) (h4 : WFv4 s) (exp : Nat) (hseed : s.seedHash = exp) (tail : Bytes) :
    decode c exp (encodeV4 c s ++ tail) = some (s, tail) := by
  obtain ⟨hwf, hsuit, hasc, h63⟩ := h4
  obtain ⟨hord, hemp, hne⟩ := suitable_facts s hwf hsuit
  obtain ⟨hsh, hth, hes, hlen, _, _⟩ := hwf
  have heb := entryBits_le_63 s.entries h63
  have hneb := numEntriesBytes_le_4 _ hlen
  unfold decode encodeV4
  simp only [List.append_assoc]
  have hpre : (if s.estMode = true then 2 else 1) < 256 := by split <;> decide
  rw [bind_u8 _ _ _ hpre, bind_u8 _ _ _ hc.v4, bind_u8 _ _ _ hc.ty]
  simp only [beq_self_eq_true, bind_guard_true, ↓reduceIte]
  unfold decodeV4
  rw [bind_u8 _ _ _ (by omega), bind_u8 _ _ _ (by omega), bind_u8 _ _ _ (flagsByteV4_lt hc), bind_u16 _ _ _ hsh]
  have hpos := entryBits_pos s.entries hne hasc
  have hg : (s.seedHash == exp && decide (numEntriesBytes s.entries.length ≤ 4) && decide (1 ≤ entryBits s.entries ∧ entryBits s.entries ≤ 63)) = true := by
    simp [hseed, hneb, heb]; omega
  rw [hg, bind_guard_true]
  have hrest : ∀ (th : Nat),
      Reader.bind (leNat (numEntriesBytes s.entries.length)) (fun n =>
        Reader.bind (bytesN (bytesForBits (entryBits s.entries * n))) fun bs =>
          Reader.pure (⟨false, true, s.seedHash, th, undelta 0 (unpackFields (entryBits s.entries) n bs)⟩ : Image))
        (wLe (numEntriesBytes s.entries.length) s.entries.length ++ (packFields (entryBits s.entries) (deltas 0 s.entries) ++ tail))
      = some (⟨false, true, s.seedHash, th, s.entries⟩, tail) := by
    intro th
    rw [bind_leNat _ _ _ _ (lt_numEntriesBytes _)]
    have hl : bytesForBits (entryBits s.entries * s.entries.length) = (packFields (entryBits s.entries) (deltas 0 s.entries)).length := by
      rw [length_packFields, length_deltas]
    rw [hl, bind_bytesN]
    have hu := unpackFields_packFields (entryBits s.entries) (deltas 0 s.entries) (deltas_lt_entryBits s.entries)
    rw [length_deltas] at hu
    simp only [Reader.pure, hu]
    rw [undelta_deltas 0 s.entries hasc hes]
  obtain ⟨e, o, sh, th, es⟩ := s
  simp only at *
  subst hord; subst hemp
  by_cases hest : th < maxTheta
  · have hem : Image.estMode ⟨false, true, sh, th, es⟩ = true := by simp [Image.estMode, hest]
    simp only [hem, ↓reduceIte, gt_iff_lt, show (1:Nat) < 2 by decide]
    rw [bind_u64 _ _ _ (by unfold maxTheta at hth; omega)]
    exact hrest th
  · have hth' : th = maxTheta := by omega
    subst hth'
    have hem : Image.estMode ⟨false, true, sh, maxTheta, es⟩ = false := by simp [Image.estMode]
    simp only [hem, Bool.false_eq_true, ↓reduceIte, Nat.lt_irrefl, gt_iff_lt, List.nil_append, bind_pure]
    exact hrest maxTheta

theorem length_encodeV4 (c : Consts) (s : Image) : (encodeV4 c s).length = serializedSizeV4 s := by
  unfold encodeV4 serializedSizeV4
  simp only [List.length_append, w8, w16, w64, length_wLe, length_packFields, length_deltas]
  split <;> simp [length_wLe] <;> omega

end DS.Wire.Theta

/- C19, KLL sketch part 7: the in-place helpers of one items block: `randomly_halve_down`, `randomly_halve_up`,
   in-place `merge_sorted_arrays`, `std::move_backward`. -/
import DSProofs.Lemmas.LifeKllF
namespace DS.Life.Kll
open DS.Life

def LiveOn (h : Heap) (b lo hi : Nat) : Prop := ∀ j, lo ≤ j → j < hi → ∃ v, stAt h b j = .live v
def NonRawOn (h : Heap) (b lo hi : Nat) : Prop := ∀ j, lo ≤ j → j < hi → stAt h b j ≠ .raw

theorem LiveOn.nonRaw {h : Heap} {b lo hi : Nat} (l : LiveOn h b lo hi) : NonRawOn h b lo hi := by
  intro j h1 h2
  obtain ⟨v, hv⟩ := l j h1 h2
  rw [hv]; simp

/-- `if (i != j) buf[i] = std::move(buf[j]);` -/
theorem vstep_moveAssignNe {β} {S} {h : Heap} {b n j i : Nat} {f : Unit → M β} {Q : β → Heap → Prop}
    (hc : HasCells h b n) (hj : j < n) (hi : i < n) (hl : ∃ v, stAt h b j = .live v) (hr : stAt h b i ≠ .raw)
    (hS : S b = true)
    (s : ∀ h', SameBut h h' (fun b' q => b' = b ∧ (q = i ∨ q = j)) → (∃ w, stAt h' b i = .live w) →
          stAt h' b j ≠ .raw → SafeF S h' (f () h') Q) :
    SafeF S h ((moveAssignNe b j i >>= f) h) Q := by
  unfold moveAssignNe
  obtain ⟨v, hv⟩ := hl
  by_cases e : i = j
  · rw [if_pos e]
    subst e
    exact s h (SameBut.refl _ _) ⟨v, hv⟩ hr
  · rw [if_neg e]
    apply vstep_moveAssignSlot hc hj hv hc hi hr (fun x => e x.2) hS hS
    intro h1 sb1 hd hs
    apply s h1 (sb1.mono (fun _ _ x => by rcases x with x | x; exact ⟨x.1, Or.inr x.2⟩; exact ⟨x.1, Or.inl x.2⟩))
      ⟨v, hd⟩
    rw [hs]; simp

/-- `randomly_halve_down` -/
theorem vstep_halveDown {β} {S} {h : Heap} {b n start length offset : Nat} {f : Unit → M β} {Q : β → Heap → Prop}
    (hc : HasCells h b n) (hle : start + length ≤ n) (hl : LiveOn h b start (start + length)) (ho : offset ≤ 1)
    (hS : S b = true)
    (s : ∀ h', SameBut h h' (fun b' j => b' = b ∧ start ≤ j ∧ j < start + length) →
          LiveOn h' b start (start + length / 2) → NonRawOn h' b (start + length / 2) (start + length) →
          SafeF S h' (f () h') Q) :
    SafeF S h ((halveDown b start length offset >>= f) h) Q := by
  unfold halveDown
  by_cases hodd : length % 2 ≠ 0
  · rw [if_pos hodd]; exact SafeF.exc _
  rw [if_neg hodd]
  have loop := TripleS.loopUp (n0 := 0) (S := S)
    (fun i h' => SameBut h h' (fun b' j => b' = b ∧ start ≤ j ∧ j < start + length) ∧
      LiveOn h' b start i ∧ NonRawOn h' b i (start + length) ∧
      (∀ j, start + offset + 2 * (i - start) ≤ j → j < start + length → stAt h' b j = stAt h b j))
    (fun i => moveAssignNe b (start + offset + 2 * (i - start)) i) (length / 2) start ?_
  · apply SafeF.bind_triple loop (Nat.zero_le _)
      ⟨SameBut.refl _ _, fun j h1 h2 => by omega, fun j h1 h2 => (hl.nonRaw) j h1 h2, fun j _ _ => rfl⟩
    intro _ h1 ⟨sb, a, c, _⟩ _
    exact s h1 sb a c
  · intro i hi1 hi2 h' _ ⟨sb, a, c, d⟩
    apply SafeF.last
    have hsrc : start + offset + 2 * (i - start) < start + length := by omega
    apply vstep_moveAssignNe (sb.cells _ _ hc) (by omega) (by omega)
      (by rw [d _ (Nat.le_refl _) hsrc]; exact hl _ (by omega) hsrc) (c i (Nat.le_refl _) (by omega)) hS
    intro h2 sb2 hd hs
    apply SafeF.pure
    refine ⟨sb.trans sb2 (fun _ _ x => x) (fun _ _ x => ⟨x.1, by omega, by omega⟩), ?_, ?_, ?_⟩
    · intro j h1 h2'
      by_cases e : j = i
      · subst e; exact hd
      · rw [sb2.st b j (fun x => by omega)]; exact a j h1 (by omega)
    · intro j h1 h2'
      by_cases e : j = start + offset + 2 * (i - start)
      · subst e; exact hs
      · rw [sb2.st b j (fun x => by omega)]; exact c j (by omega) h2'
    · intro j h1 h2'
      rw [sb2.st b j (fun x => by omega)]; exact d j (by omega) h2'

/-- `randomly_halve_up` -/
theorem vstep_halveUp {β} {S} {h : Heap} {b n start length offset : Nat} {f : Unit → M β} {Q : β → Heap → Prop}
    (hc : HasCells h b n) (hle : start + length ≤ n) (hl : LiveOn h b start (start + length)) (ho : offset ≤ 1)
    (hS : S b = true)
    (s : ∀ h', SameBut h h' (fun b' j => b' = b ∧ start ≤ j ∧ j < start + length) →
          LiveOn h' b (start + length / 2) (start + length) → NonRawOn h' b start (start + length / 2) →
          SafeF S h' (f () h') Q) :
    SafeF S h ((halveUp b start length offset >>= f) h) Q := by
  unfold halveUp
  by_cases hodd : length % 2 ≠ 0
  · rw [if_pos hodd]; exact SafeF.exc _
  rw [if_neg hodd]
  have loop := TripleS.loopDown (n0 := 0) (S := S)
    (fun c h' => SameBut h h' (fun b' j => b' = b ∧ start ≤ j ∧ j < start + length) ∧
      LiveOn h' b (start + length / 2 + c) (start + length) ∧ NonRawOn h' b start (start + length) ∧
      (∀ j, start ≤ j → j + offset + 2 * (length / 2 - c) < start + length + 1 → stAt h' b j = stAt h b j))
    (fun i => moveAssignNe b ((start + length - 1 - offset) - 2 * ((start + length - 1) - i)) i) (length / 2)
    (start + length / 2) ?_
  · apply SafeF.bind_triple loop (Nat.zero_le _)
      ⟨SameBut.refl _ _, fun j h1 h2 => by omega, fun j h1 h2 => (hl.nonRaw) j h1 h2, fun j _ _ => rfl⟩
    intro _ h1 ⟨sb, a, c, _⟩ _
    exact s h1 sb (by simpa using a) (fun j h1' h2' => c j h1' (by omega))
  · intro c hc' h' _ ⟨sb, a, nr, d⟩
    apply SafeF.last
    have hj : (start + length - 1 - offset) - 2 * ((start + length - 1) - (start + length / 2 + c)) =
        start + 1 + 2 * c - offset := by omega
    rw [hj]
    have hd := d (start + 1 + 2 * c - offset) (by omega) (by omega)
    apply vstep_moveAssignNe (sb.cells _ _ hc) (by omega) (by omega)
      (by rw [hd]; exact hl _ (by omega) (by omega)) (nr _ (by omega) (by omega)) hS
    intro h2 sb2 hdst hs
    apply SafeF.pure
    refine ⟨sb.trans sb2 (fun _ _ x => x) (fun _ _ x => ⟨x.1, by omega, by omega⟩), ?_, ?_, ?_⟩
    · intro j h1 h2'
      by_cases e : j = start + length / 2 + c
      · subst e; exact hdst
      · rw [sb2.st b j (fun x => by omega)]; exact a j (by omega) h2'
    · intro j h1 h2'
      by_cases e : j = start + length / 2 + c
      · subst e; obtain ⟨w, hw⟩ := hdst; rw [hw]; simp
      · by_cases e2 : j = start + 1 + 2 * c - offset
        · subst e2; exact hs
        · rw [sb2.st b j (fun x => by omega)]; exact nr j h1 h2'
    · intro j h1 h2'
      rw [sb2.st b j (fun x => by omega)]; exact d j h1 (by omega)


/-! ### effect of one move-assignment on the range predicates -/

theorem LiveOn.after_move {h h1 : Heap} {bf src dst lo hi : Nat}
    (sb : SameBut h h1 (fun b' q => b' = bf ∧ (q = dst ∨ q = src))) (hd : ∃ w, stAt h1 bf dst = .live w)
    (hl : LiveOn h bf lo hi) (hsrc : src < lo ∨ hi ≤ src ∨ src = dst) : LiveOn h1 bf lo hi := by
  intro j h1' h2'
  by_cases e : j = dst
  · subst e; exact hd
  · rw [sb.st bf j (fun x => by rcases x.2 with x | x; exact e x; omega)]
    exact hl j h1' h2'

theorem LiveOn.ext_move {h h1 : Heap} {bf src dst lo hi : Nat}
    (sb : SameBut h h1 (fun b' q => b' = bf ∧ (q = dst ∨ q = src))) (hd : ∃ w, stAt h1 bf dst = .live w)
    (hl : LiveOn h bf lo hi) (hdst : dst = hi) (hsrc : src < lo ∨ hi ≤ src) : LiveOn h1 bf lo (hi + 1) := by
  intro j h1' h2'
  by_cases e : j = dst
  · subst e; exact hd
  · rw [sb.st bf j (fun x => by rcases x.2 with x | x; exact e x; omega)]
    exact hl j h1' (by omega)

theorem NonRawOn.after_move {h h1 : Heap} {bf src dst lo hi : Nat}
    (sb : SameBut h h1 (fun b' q => b' = bf ∧ (q = dst ∨ q = src))) (hd : ∃ w, stAt h1 bf dst = .live w)
    (hs : stAt h1 bf src ≠ .raw) (hn : NonRawOn h bf lo hi) : NonRawOn h1 bf lo hi := by
  intro j h1' h2'
  by_cases e : j = dst
  · subst e; obtain ⟨w, hw⟩ := hd; rw [hw]; simp
  · by_cases e2 : j = src
    · subst e2; exact hs
    · rw [sb.st bf j (fun x => by rcases x.2 with x | x; exact e x; exact e2 x)]
      exact hn j h1' h2'

/-- in-place `merge_sorted_arrays`: `a`-range `[startA, limA)`, `b`-range `[2·limA − startA, limB)`, output from `limA` -/
theorem mergeInPlaceLoop_spec {S : Nat → Bool} {bf n startA limA limB : Nat} (hS : S bf = true) (hlim : limB ≤ n) :
    ∀ fuel a b c h, HasCells h bf n → startA ≤ a → a ≤ limA → b ≤ limB → 2 * limA ≤ startA + b →
      c + limA = a + b → fuel = (limA - a) + (limB - b) →
      LiveOn h bf a limA → LiveOn h bf b limB → LiveOn h bf limA c → NonRawOn h bf startA limB →
      SafeF S h (mergeInPlaceLoop bf limA limB fuel a b c h)
        (fun r h' => r = (limA, limB) ∧ SameBut h h' (fun b' j => b' = bf ∧ startA ≤ j ∧ j < limB) ∧
          LiveOn h' bf limA limB ∧ NonRawOn h' bf startA limA) := by
  intro fuel
  induction fuel with
  | zero =>
    intro a b c h hc ha1 ha2 hb1 hb2 hcab hf la lb lc nr
    unfold mergeInPlaceLoop
    apply SafeF.pure
    have e1 : a = limA := by omega
    have e2 : b = limB := by omega
    have e3 : c = limB := by omega
    subst e1 e2 e3
    exact ⟨rfl, SameBut.refl _ _, lc, fun j h1 h2 => nr j h1 (by omega)⟩
  | succ f ih =>
    intro a b c h hc ha1 ha2 hb1 hb2 hcab hf la lb lc nr
    unfold mergeInPlaceLoop
    -- moving `src` to `c` and continuing with `(a', b')`
    have mv : ∀ (src a' b' : Nat), src < limB → startA ≤ src → (∃ v, stAt h bf src = .live v) →
        startA ≤ a' → a' ≤ limA → b' ≤ limB → 2 * limA ≤ startA + b' → c + 1 + limA = a' + b' →
        f = (limA - a') + (limB - b') → a ≤ a' → b ≤ b' →
        (src < a' ∨ limA ≤ src) → (src < b' ∨ src = c) → (src < limA ∨ c ≤ src) →
        SafeF S h ((moveAssignNe bf src c >>= fun _ => mergeInPlaceLoop bf limA limB f a' b' (c + 1)) h)
          (fun r h' => r = (limA, limB) ∧ SameBut h h' (fun b' j => b' = bf ∧ startA ≤ j ∧ j < limB) ∧
            LiveOn h' bf limA limB ∧ NonRawOn h' bf startA limA) := by
      intro src a' b' hs1 hs2 hsl ha1' ha2' hb1' hb2' hcab' hf' haa hbb x1 x2 x3
      have hclt : c < limB := by omega
      apply vstep_moveAssignNe hc (by omega) (by omega) hsl (nr c (by omega) hclt) hS
      intro h1 sb1 hd hsn
      have la' : LiveOn h bf a' limA := fun j h1' h2' => la j (by omega) h2'
      have lb' : LiveOn h bf b' limB := fun j h1' h2' => lb j (by omega) h2'
      have r := ih a' b' (c + 1) h1 (sb1.cells _ _ hc) ha1' ha2' hb1' hb2' hcab' hf'
        (la'.after_move sb1 hd (by omega))
        (lb'.after_move sb1 hd (by omega))
        (lc.ext_move sb1 hd rfl (by omega))
        (nr.after_move sb1 hd hsn)
      refine r.mono ?_
      intro r' h' ⟨e, sb', l', n'⟩
      exact ⟨e, sb1.trans sb' (fun _ _ x => ⟨x.1, by omega, by omega⟩) (fun _ _ x => x), l', n'⟩
    by_cases hA : a = limA
    · rw [if_pos hA]
      exact mv b a (b + 1) (by omega) (by omega) (lb b (Nat.le_refl _) (by omega)) ha1 ha2 (by omega) (by omega)
        (by omega) (by omega) (Nat.le_refl _) (by omega) (by omega) (by omega) (by omega)
    · rw [if_neg hA]
      by_cases hB : b = limB
      · rw [if_pos hB]
        exact mv a (a + 1) b (by omega) (by omega) (la a (Nat.le_refl _) (by omega)) (by omega) (by omega) hb1 hb2
          (by omega) (by omega) (by omega) (Nat.le_refl _) (by omega) (by omega) (by omega)
      · rw [if_neg hB]
        obtain ⟨va, hva⟩ := la a (Nat.le_refl _) (by omega)
        obtain ⟨vb, hvb⟩ := lb b (Nat.le_refl _) (by omega)
        apply vstep_read hc (by omega : a < n) hva
        apply vstep_read hc (by omega : b < n) hvb
        by_cases hlt : va < vb
        · rw [if_pos hlt]
          exact mv a (a + 1) b (by omega) (by omega) ⟨va, hva⟩ (by omega) (by omega) hb1 hb2
            (by omega) (by omega) (by omega) (Nat.le_refl _) (by omega) (by omega) (by omega)
        · rw [if_neg hlt]
          exact mv b a (b + 1) (by omega) (by omega) ⟨vb, hvb⟩ ha1 ha2 (by omega) (by omega)
            (by omega) (by omega) (Nat.le_refl _) (by omega) (by omega) (by omega) (by omega)

theorem vstep_mergeInPlace {β} {S} {h : Heap} {bf n startA lenA lenB : Nat} {f : Unit → M β} {Q : β → Heap → Prop}
    (hc : HasCells h bf n) (hle : startA + 2 * lenA + lenB ≤ n)
    (la : LiveOn h bf startA (startA + lenA)) (lb : LiveOn h bf (startA + 2 * lenA) (startA + 2 * lenA + lenB))
    (nr : NonRawOn h bf (startA + lenA) (startA + 2 * lenA)) (hS : S bf = true)
    (s : ∀ h', SameBut h h' (fun b' j => b' = bf ∧ startA ≤ j ∧ j < startA + 2 * lenA + lenB) →
          LiveOn h' bf (startA + lenA) (startA + 2 * lenA + lenB) → NonRawOn h' bf startA (startA + lenA) →
          SafeF S h' (f () h') Q) :
    SafeF S h ((mergeInPlace bf startA lenA (startA + 2 * lenA) lenB (startA + lenA) >>= f) h) Q := by
  unfold mergeInPlace
  simp only [M.bind_assoc]
  have r := mergeInPlaceLoop_spec (S := S) (bf := bf) (n := n) (startA := startA) (limA := startA + lenA)
    (limB := startA + 2 * lenA + lenB) hS hle (lenA + lenB) startA (startA + 2 * lenA) (startA + lenA) h hc
    (Nat.le_refl _) (by omega) (by omega) (by omega) (by omega) (by omega) la lb (fun j h1 h2 => by omega)
    (fun j h1 h2 => by
      by_cases e1 : j < startA + lenA
      · exact la.nonRaw j h1 e1
      · by_cases e2 : j < startA + 2 * lenA
        · exact nr j (by omega) e2
        · exact lb.nonRaw j (by omega) h2)
  rw [bind_eq]
  cases hm : mergeInPlaceLoop bf (startA + lenA) (startA + 2 * lenA + lenB) (lenA + lenB) startA (startA + 2 * lenA)
      (startA + lenA) h with
  | error e =>
    rw [hm] at r
    cases e <;> simp_all [SafeX, SafeF]
  | ok res =>
    obtain ⟨r', h1⟩ := res
    rw [hm] at r
    obtain ⟨⟨e, sb, l', n'⟩, fr⟩ := r
    subst e
    simp only
    rw [if_neg (by simp)]
    exact (s h1 sb l' n').rebase fr

/-- `std::move_backward(buf + l0, buf + l0 + amount, buf + l0 + amount + d)` -/
theorem vstep_shiftUp {β} {S} {h : Heap} {b n l0 amount d : Nat} {f : Unit → M β} {Q : β → Heap → Prop}
    (hc : HasCells h b n) (hle : l0 + amount + d ≤ n) (hd : 1 ≤ d) (hl : LiveOn h b l0 (l0 + amount))
    (nr : NonRawOn h b (l0 + amount) (l0 + amount + d)) (hS : S b = true)
    (s : ∀ h', SameBut h h' (fun b' j => b' = b ∧ l0 ≤ j ∧ j < l0 + amount + d) →
          LiveOn h' b (l0 + d) (l0 + amount + d) → NonRawOn h' b l0 (l0 + d) → SafeF S h' (f () h') Q) :
    SafeF S h ((loopDown (fun i => moveAssignSlot b i b (i + d)) amount l0 >>= f) h) Q := by
  have loop := TripleS.loopDown (n0 := 0) (S := S)
    (fun c h' => SameBut h h' (fun b' j => b' = b ∧ l0 ≤ j ∧ j < l0 + amount + d) ∧
      LiveOn h' b (l0 + c + d) (l0 + amount + d) ∧ LiveOn h' b l0 (l0 + c) ∧ NonRawOn h' b l0 (l0 + amount + d))
    (fun i => moveAssignSlot b i b (i + d)) amount l0 ?_
  · apply SafeF.bind_triple loop (Nat.zero_le _)
      ⟨SameBut.refl _ _, fun j h1 h2 => by omega, hl, fun j h1 h2 => by
        by_cases e : j < l0 + amount
        · exact hl.nonRaw j h1 e
        · exact nr j (by omega) h2⟩
    intro _ h1 ⟨sb, a, _, c⟩ _
    exact s h1 sb (by simpa using a) (fun j h1' h2' => c j h1' (by omega))
  · intro c hc' h' _ ⟨sb, a, l, nr'⟩
    apply SafeF.last
    obtain ⟨v, hv⟩ := l (l0 + c) (by omega) (by omega)
    apply vstep_moveAssignSlot (sb.cells _ _ hc) (by omega) hv (sb.cells _ _ hc) (by omega : l0 + c + d < n)
      (nr' _ (by omega) (by omega)) (fun x => by omega) hS hS
    intro h2 sb2 hdst hsrc
    apply SafeF.pure
    refine ⟨sb.trans sb2 (fun _ _ x => x) (fun _ _ x => by rcases x with x | x <;> exact ⟨x.1, by omega, by omega⟩),
      ?_, ?_, ?_⟩
    · intro j h1 h2'
      by_cases e : j = l0 + c + d
      · subst e; exact ⟨v, hdst⟩
      · rw [sb2.st b j (fun x => by rcases x with x | x <;> omega)]; exact a j (by omega) h2'
    · intro j h1 h2'
      rw [sb2.st b j (fun x => by rcases x with x | x <;> omega)]; exact l j h1 (by omega)
    · intro j h1 h2'
      by_cases e : j = l0 + c + d
      · subst e; rw [hdst]; simp
      · by_cases e2 : j = l0 + c
        · subst e2; rw [hsrc]; simp
        · rw [sb2.st b j (fun x => by rcases x with x | x <;> omega)]; exact nr' j h1 h2'

end DS.Life.Kll

/- C19 helper lemmas, theta table part 6: copy constructor, compact + serialize, and the contracts the world-level
   proof consumes. -/
import DSProofs.Lemmas.LifeThetaE
namespace DS.Life.Theta
open DS.Life

/-- a block with the same keys as a valid table (and consistent slot states) is a valid table -/
theorem TableAt.copyOf {P : Params} {h h' : Heap} {ob nb lg num : Nat} (ht : TableAt P h ob lg num)
    (hw : ∀ j, j < 2 ^ lg → wordAt h' nb j = wordAt h ob j) (hs : SlotsOK h' nb (2 ^ lg)) : TableAt P h' nb lg num := by
  refine ⟨hs, ?_, ?_⟩
  · intro p hp hne
    rw [hw p hp] at hne ⊢
    obtain ⟨j, ej, hj⟩ := ht.path p hp hne
    refine ⟨j, ej, fun j' hj' => ?_⟩
    rw [hw _ (probe_lt P lg _ j')]
    exact hj j' hj'
  · rw [ht.count]
    apply cnt_congr
    intro i hi
    simp [nz, hw i hi]

/-- copy constructor of a table owning block `ob` -/
theorem copyCtor_spec (P : Params) (n0 : Nat) (S : Nat → Bool) (o : Table) (ob : Nat) (hb : o.entries = some ob)
    (hSn : ∀ x, n0 ≤ x → S x = true) (ids : List Nat) (h0 : Heap) :
    TripleS n0 S (fun h => h = h0 ∧ TableAt P h ob o.lgCur o.num ∧ h.ids = ids)
      (copyCtor o)
      (fun t' h' => ∃ nb, n0 ≤ nb ∧ nb ≠ ob ∧ t' = { o with entries := some nb } ∧ TableAt P h' nb o.lgCur o.num ∧
        TableAt P h' ob o.lgCur o.num ∧ h'.ids = nb :: ids ∧
        (∀ b' lg' num', b' < nb → TableAt P h0 b' lg' num' → TableAt P h' b' lg' num') ∧
        (∀ i, i < 2 ^ o.lgCur → wordAt h' nb i = wordAt h0 ob i ∧
          ((∃ v, stAt h0 ob i = .live v ∧ stAt h' nb i = .live v) ∨ (stAt h0 ob i = .raw ∧ stAt h' nb i = .raw)))) := by
  obtain ⟨ent, lgCur, lgNom, rf, num, theta, theta0, isEmpty⟩ := o
  simp only at hb ⊢
  subst hb
  intro h hn ⟨e0, ht, hid⟩
  subst e0
  unfold copyCtor
  simp only
  have hSnb : S h.next = true := hSn _ hn
  apply vstep_alloc _ _ hSnb
  intro h1 hc1 hr1 hv1 hcells1 hid1 hnx1
  have hne : ob ≠ h.next := by have := ht.slots.lt; omega
  have loop := TripleS.loopUp (n0 := n0) (S := S)
    (fun k h' => HasCells h' ob (2 ^ lgCur) ∧ HasCells h' h.next (2 ^ lgCur) ∧
      ((∀ b' j, b' ≠ h.next → wordAt h' b' j = wordAt h b' j ∧ stAt h' b' j = stAt h b' j) ∧
       (∀ b' m, b' ≠ h.next → HasCells h b' m → HasCells h' b' m)) ∧
      (∀ j, j < k → wordAt h' h.next j = wordAt h ob j ∧ SlotOK h' h.next j ∧
        ((∃ v, stAt h ob j = .live v ∧ stAt h' h.next j = .live v) ∨ (stAt h ob j = .raw ∧ stAt h' h.next j = .raw))) ∧
      (∀ j, k ≤ j → j < 2 ^ lgCur → stAt h' h.next j = .raw) ∧ h'.ids = h.next :: ids ∧ h'.next = h.next + 1)
    (fun i => do
      let k ← readWord ob i
      if k ≠ 0 then copyConstructEntry ob i h.next i
      else writeWord h.next i 0) (2 ^ lgCur) 0 ?_
  · apply SafeF.bind_triple loop (by omega)
      ⟨hcells1 ob _ hne ht.slots.cells, hc1, ⟨fun b' j hb' => hv1 b' j hb', fun b' m hb' => hcells1 b' m hb'⟩,
       fun j hj => by omega, fun j _ hj => hr1 j hj, by rw [hid1, hid], hnx1⟩
    intro _ h2 ⟨hco, hcn, ⟨hvall, hcall⟩, hnew, _, hid2, hnx2⟩ _
    have hvo : ∀ j, wordAt h2 ob j = wordAt h ob j ∧ stAt h2 ob j = stAt h ob j := fun j => hvall ob j hne
    simp only [Nat.zero_add] at hnew
    apply SafeF.pure
    refine ⟨h.next, hn, fun e => hne e.symm, rfl, ?_, ?_, hid2, ?_, fun i hi => ⟨(hnew i hi).1, (hnew i hi).2.2⟩⟩
    · exact ht.copyOf (fun j hj => (hnew j hj).1) ⟨hcn, by omega, fun j hj => (hnew j hj).2.1⟩
    · exact ht.of_views hco (by have := ht.slots.lt; omega) (fun j => (hvo j).1) (fun j _ => Or.inl (hvo j).2)
    · intro b' lg' num' hb' ht'
      have hb'' : b' ≠ h.next := by omega
      exact ht'.of_views (hcall b' _ hb'' ht'.slots.cells) (by have := ht'.slots.lt; omega)
        (fun j => (hvall b' j hb'').1) (fun j _ => Or.inl (hvall b' j hb'').2)
  · intro i _ hi h' _ ⟨hco, hcn, ⟨hvall, hcall⟩, hnew, hraw, hid', hnx'⟩
    have hvo : ∀ j, wordAt h' ob j = wordAt h ob j ∧ stAt h' ob j = stAt h ob j := fun j => hvall ob j hne
    have hi' : i < 2 ^ lgCur := by omega
    apply vstep_readWord hco hi'
    have hso : SlotOK h ob i := ht.slots.ok i hi'
    by_cases hk : wordAt h' ob i ≠ 0
    · rw [if_pos hk]
      have hk' : wordAt h ob i ≠ 0 := by rw [← (hvo i).1]; exact hk
      rcases hso with ⟨hz, _⟩ | ⟨_, v, hv⟩
      · exact absurd hz hk'
      · apply SafeF.last
        apply vstep_copyConstructEntry hco hi' (by rw [(hvo i).2]; exact hv) hcn hi' (hraw i (Nat.le_refl _) hi') hSnb
        intro h'' sb hw hs
        apply SafeF.pure
        have hall' : (∀ b' j, b' ≠ h.next → wordAt h'' b' j = wordAt h b' j ∧ stAt h'' b' j = stAt h b' j) ∧
            (∀ b' m, b' ≠ h.next → HasCells h b' m → HasCells h'' b' m) :=
          ⟨fun b' j hb' => ⟨(sb.word b' j (fun x => hb' x.1)).trans (hvall b' j hb').1,
                            (sb.st b' j (fun x => hb' x.1)).trans (hvall b' j hb').2⟩,
           fun b' m hb' hc => sb.cells _ _ (hcall b' m hb' hc)⟩
        refine ⟨sb.cells _ _ hco, sb.cells _ _ hcn, hall',
          ?_, ?_, by rw [sb.ids]; exact hid', by rw [sb.next]; exact hnx'⟩
        · intro j hj
          by_cases hji : j = i
          · subst hji
            refine ⟨by rw [hw, (hvo j).1], Or.inr ⟨by rw [hw]; exact hk, v, hs⟩, Or.inl ⟨v, hv, hs⟩⟩
          · have hw' := sb.word h.next j (fun x => hji x.2)
            have hs' := sb.st h.next j (fun x => hji x.2)
            obtain ⟨a, b', c'⟩ := hnew j (by omega)
            exact ⟨by rw [hw']; exact a, b'.of_views hw' hs', by rw [hs']; exact c'⟩
        · intro j h1' h2'
          rw [sb.st h.next j (fun x => by omega)]
          exact hraw j (by omega) h2'
    · rw [if_neg hk]
      have hk0 : wordAt h' ob i = 0 := by omega
      apply SafeF.last
      apply vstep_writeWord 0 hcn hi' hSnb
      intro h'' sb hw hs
      apply SafeF.pure
      have hall' : (∀ b' j, b' ≠ h.next → wordAt h'' b' j = wordAt h b' j ∧ stAt h'' b' j = stAt h b' j) ∧
          (∀ b' m, b' ≠ h.next → HasCells h b' m → HasCells h'' b' m) :=
        ⟨fun b' j hb' => ⟨(sb.word b' j (fun x => hb' x.1)).trans (hvall b' j hb').1,
                          (sb.st b' j (fun x => hb' x.1)).trans (hvall b' j hb').2⟩,
         fun b' m hb' hc => sb.cells _ _ (hcall b' m hb' hc)⟩
      refine ⟨sb.cells _ _ hco, sb.cells _ _ hcn, hall',
        ?_, ?_, by rw [sb.ids]; exact hid', by rw [sb.next]; exact hnx'⟩
      · intro j hj
        by_cases hji : j = i
        · subst hji
          have hrawsrc : stAt h ob j = .raw := by
            rcases hso with ⟨_, hr'⟩ | ⟨hnz, _⟩
            · exact hr'
            · exact absurd (by rw [← (hvo j).1]; exact hk0) hnz
          refine ⟨by rw [hw, ← (hvo j).1, hk0], Or.inl ⟨hw, by rw [hs]; exact hraw j (Nat.le_refl _) hi'⟩,
            Or.inr ⟨hrawsrc, by rw [hs]; exact hraw j (Nat.le_refl _) hi'⟩⟩
        · have hw' := sb.word h.next j (fun x => hji x.2)
          have hs' := sb.st h.next j (fun x => hji x.2)
          obtain ⟨a, b', c'⟩ := hnew j (by omega)
          exact ⟨by rw [hw']; exact a, b'.of_views hw' hs', by rw [hs']; exact c'⟩
      · intro j h1' h2'
        rw [sb.st h.next j (fun x => by omega)]
        exact hraw j (by omega) h2'


/-- `compact().serialize()`: a temporary vector of copies; the table itself is untouched -/
theorem serializeCompact_spec (P : Params) (n0 : Nat) (S : Nat → Bool) (t : Table) (b : Nat) (hb : t.entries = some b)
    (hSn : ∀ x, n0 ≤ x → S x = true) (ids : List Nat) :
    TripleS n0 S (fun h => TableAt P h b t.lgCur t.num ∧ h.ids = ids)
      (serializeCompact t)
      (fun _ h' => TableAt P h' b t.lgCur t.num ∧
        (h'.ids = ids ∨ ∃ vb, n0 ≤ vb ∧ h'.ids = (vb :: ids).filter (fun x => x != vb))) := by
  obtain ⟨ent, lgCur, lgNom, rf, num, theta, theta0, isEmpty⟩ := t
  simp only at hb ⊢
  subst hb
  intro h hn ⟨ht, hid⟩
  unfold serializeCompact
  simp only
  by_cases hnum : num = 0
  · rw [if_pos hnum]
    apply SafeF.pure
    exact ⟨ht, Or.inl hid⟩
  · rw [if_neg hnum]
    apply step_deref
    have hSv : S h.next = true := hSn _ hn
    apply vstep_alloc _ _ hSv
    intro h1 hc1 hr1 hv1 hcells1 hid1 hnx1
    have hne : b ≠ h.next := by have := ht.slots.lt; omega
    have fold := TripleS.foldUp (n0 := n0) (S := S)
      (fun i (j : Nat) h' => HasCells h' b (2 ^ lgCur) ∧ HasCells h' h.next num ∧
        (∀ q, wordAt h' b q = wordAt h b q ∧ stAt h' b q = stAt h b q) ∧ j = cnt (nz h b) i ∧
        (∀ q, q < j → ∃ v, stAt h' h.next q = .live v) ∧ (∀ q, j ≤ q → q < num → stAt h' h.next q = .raw) ∧
        h'.ids = h.next :: ids ∧ h'.next = h.next + 1)
      (fun i (j : Nat) => do
        let k ← readWord b i
        if k ≠ 0 then
          copyConstructEntry b i h.next j
          pure (j + 1)
        else pure j) (2 ^ lgCur) 0 0 ?_
    · apply SafeF.bind_triple fold (by omega)
        ⟨hcells1 b _ hne ht.slots.cells, hc1, fun q => hv1 b q hne, by simp [cnt], fun q hq => by omega,
         fun q _ hq => hr1 q hq, by rw [hid1, hid], hnx1⟩
      intro j h2 ⟨hcb, hcv, hvb, hj, hlive, _, hid2, hnx2⟩ _
      simp only [Nat.zero_add] at hj
      have hjn : j = num := by rw [hj, ← ht.count]
      subst hjn
      -- sd.serialize reads every copied entry
      have rd := TripleS.loopUp (n0 := n0) (S := S)
        (fun _ h' => h' = h2) (fun i => do let _ ← read h.next i; pure ()) j 0 ?_
      · apply SafeF.bind_triple rd (by omega) rfl
        intro _ h3 e3 _
        subst e3
        have ds := TripleS.loopUp (n0 := n0) (S := S)
          (fun k h' => HasCells h' b (2 ^ lgCur) ∧ HasCells h' h.next j ∧
            (∀ q, wordAt h' b q = wordAt h b q ∧ stAt h' b q = stAt h b q) ∧
            (∀ q, q < k → stAt h' h.next q = .raw) ∧ (∀ q, k ≤ q → q < j → ∃ v, stAt h' h.next q = .live v) ∧
            h'.ids = h.next :: ids ∧ h'.next = h.next + 1)
          (fun i => destroy h.next i) j 0 ?_
        · apply SafeF.bind_triple ds (by omega)
            ⟨hcb, hcv, hvb, fun q hq => by omega, fun q _ hq => hlive q hq, hid2, hnx2⟩
          intro _ h4 ⟨hcb4, hcv4, hvb4, hraw4, _, hid4, hnx4⟩ _
          simp only [Nat.zero_add] at hraw4
          apply SafeF.last
          apply vstep_dealloc hcv4 hraw4 hSv
          intro h5 hv5 hcells5 hid5 hnx5
          apply SafeF.pure
          refine ⟨?_, Or.inr ⟨h.next, hn, by rw [hid5, hid4]⟩⟩
          apply ht.of_views (hcells5 b _ hne hcb4) (by have := ht.slots.lt; omega)
          · intro q; rw [(hv5 b q hne).1]; exact (hvb4 q).1
          · intro q _; left; rw [(hv5 b q hne).2]; exact (hvb4 q).2
        · intro i _ hi h' _ ⟨hcb', hcv', hvb', hraw', hl', hid', hnx'⟩
          have hi' : i < j := by omega
          obtain ⟨v, hv⟩ := hl' i (Nat.le_refl _) hi'
          apply SafeF.last
          apply vstep_destroy hcv' hi' (by rw [hv]; simp) hSv
          intro h'' sb _ hs
          apply SafeF.pure
          refine ⟨sb.cells _ _ hcb', sb.cells _ _ hcv', ?_, ?_, ?_, by rw [sb.ids]; exact hid', by rw [sb.next]; exact hnx'⟩
          · intro q
            rw [sb.word b q (fun x => hne x.1), sb.st b q (fun x => hne x.1)]; exact hvb' q
          · intro q hq
            by_cases hqi : q = i
            · subst hqi; exact hs
            · rw [sb.st h.next q (fun x => hqi x.2)]; exact hraw' q (by omega)
          · intro q h1' h2'
            rw [sb.st h.next q (fun x => by omega)]; exact hl' q (by omega) h2'
      · intro i _ hi h' _ e
        subst e
        obtain ⟨v, hv⟩ := hlive i (by omega)
        apply vstep_read hcv (by omega) hv
        apply SafeF.pure
        rfl
    · intro i j _ hi h' _ ⟨hcb, hcv, hvb, hj, hlive, hraw, hid', hnx'⟩
      have hi' : i < 2 ^ lgCur := by omega
      apply vstep_readWord hcb hi'
      by_cases hk : wordAt h' b i ≠ 0
      · rw [if_pos hk]
        have hk' : wordAt h b i ≠ 0 := by rw [← (hvb i).1]; exact hk
        have hnzi : nz h b i = true := by simp [nz, hk']
        have hjlt : j < num := by
          have h1' : cnt (nz h b) (i + 1) = j + 1 := by simp [cnt, hnzi, hj]
          have h2' := cnt_mono (nz h b) (by omega : i + 1 ≤ 2 ^ lgCur)
          have := ht.count
          omega
        obtain ⟨v, hv⟩ : ∃ v, stAt h b i = .live v := by
          rcases ht.slots.ok i hi' with ⟨hz, _⟩ | ⟨_, hl⟩
          · exact absurd hz hk'
          · exact hl
        apply vstep_copyConstructEntry hcb hi' (by rw [(hvb i).2]; exact hv) hcv hjlt (hraw j (Nat.le_refl _) hjlt) hSv
        intro h'' sb _ hs
        apply SafeF.pure
        refine ⟨sb.cells _ _ hcb, sb.cells _ _ hcv, ?_, by simp [cnt, hnzi, hj], ?_, ?_, by rw [sb.ids]; exact hid',
          by rw [sb.next]; exact hnx'⟩
        · intro q
          rw [sb.word b q (fun x => hne x.1), sb.st b q (fun x => hne x.1)]; exact hvb q
        · intro q hq
          by_cases hqj : q = j
          · subst hqj; exact ⟨v, hs⟩
          · rw [sb.st h.next q (fun x => hqj x.2)]; exact hlive q (by omega)
        · intro q h1' h2'
          rw [sb.st h.next q (fun x => by omega)]; exact hraw q (by omega) h2'
      · rw [if_neg hk]
        apply SafeF.pure
        have hk0 : wordAt h b i = 0 := by rw [← (hvb i).1]; omega
        have hnzi : nz h b i = false := by simp [nz, hk0]
        exact ⟨hcb, hcv, hvb, by simp [cnt, hnzi, hj], hlive, hraw, hid', hnx'⟩

end DS.Life.Theta

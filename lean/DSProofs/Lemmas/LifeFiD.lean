/- C19 / FI part D: `hash_delete`, `subtract_and_keep_positive_only`, `purge`. -/
import DSProofs.Lemmas.LifeFiC
namespace DS.Life.Fi
open DS.Life

/-! ### `hash_delete` -/

theorem deleteLoop_succ (P : Params) (k v s size f deleteIndex probe drift : Nat) :
    deleteLoop P k v s size (f + 1) deleteIndex probe drift = (do
      let st ← readWord s probe
      if st > 0 then
        if st > drift then
          moveConstruct k probe k deleteIndex
          let w ← readWord v probe
          writeWord v deleteIndex w
          writeWord s deleteIndex (st - drift)
          writeWord s probe 0
          destroy k probe
          if 1 ≥ P.driftLimit then throwExc "drift limit" else
          deleteLoop P k v s size f probe ((probe + 1) % size) 1
        else
          if drift + 1 ≥ P.driftLimit then throwExc "drift limit" else
          deleteLoop P k v s size f deleteIndex ((probe + 1) % size) (drift + 1)
      else pure ()) := rfl

theorem deleteLoop_spec (P : Params) (S : Nat → Bool) (k v s n : Nat) (hSk : S k = true) (hSv : S v = true)
    (hSs : S s = true) :
    ∀ f h d probe drift, Tbl true [] h k v s n → d < n → wordAt h s d = 0 → probe < n →
      SafeF S h (deleteLoop P k v s n f d probe drift h)
        (fun _ h' => Tbl true [] h' k v s n ∧ SameBut [k, v, s] h h' ∧ cnt (act h' s) n = cnt (act h s) n) := by
  intro f
  induction f with
  | zero => intro h d probe drift _ _ _ _; exact SafeF.exc _
  | succ f ih =>
    intro h d probe drift T hd hwd hp
    rw [deleteLoop_succ]
    have kv := T.kv; have ks := T.ks; have vs := T.vs
    obtain ⟨cs, ecs, ews, _⟩ := T.cs.cell_st hp
    apply step_readWord ecs
    by_cases hw : cs.word > 0
    · rw [if_pos hw]
      by_cases hdr : cs.word > drift
      · rw [if_pos hdr, moveConstruct_bind]
        have hdp : d ≠ probe := by intro e; rw [e] at hwd; omega
        -- K(std::move(keys_[probe])) into keys_[delete_index]
        obtain ⟨x, hx⟩ := (T.slot probe hp (by simp)).live_of_pos (by omega)
        obtain ⟨ckp, eckp, estkp, _⟩ := cell_of_stAt_ne_raw (h := h) (b := k) (i := probe) (by rw [hx]; simp)
        apply stepR_moveFrom eckp (by rw [estkp, hx]) hSk
        intro h1 u1
        obtain ⟨ckd, eckd, _, estkd⟩ := T.ck.cell_st hd
        have hrawd : ckd.st = .raw := by rw [estkd]; exact (T.slot d hd (by simp)).raw_of_zero hwd
        have eckd1 : h1.cell? k d = some ckd := by rw [u1.cell_ne (fun hh => hdp hh.2)]; exact eckd
        apply stepR_construct x eckd1 hrawd hSk
        intro h2 u2
        -- values_[delete_index] = values_[probe]
        obtain ⟨cvp, ecvp⟩ := T.cv.cell hp
        have ecvp2 : h2.cell? v probe = some cvp := by
          rw [u2.cell_ne (fun hh => kv hh.1.symm), u1.cell_ne (fun hh => kv hh.1.symm)]; exact ecvp
        apply step_readWord ecvp2
        obtain ⟨cvd, ecvd⟩ := T.cv.cell hd
        have ecvd2 : h2.cell? v d = some cvd := by
          rw [u2.cell_ne (fun hh => kv hh.1.symm), u1.cell_ne (fun hh => kv hh.1.symm)]; exact ecvd
        apply stepR_writeWord cvp.word ecvd2 hSv
        intro h3 u3
        -- states_[delete_index] = states_[probe] - drift
        obtain ⟨csd, ecsd, ewsd, estsd⟩ := T.cs.cell_st hd
        have ecsd3 : h3.cell? s d = some csd := by
          rw [u3.cell_ne (fun hh => vs hh.1.symm), u2.cell_ne (fun hh => ks hh.1.symm), u1.cell_ne (fun hh => ks hh.1.symm)]
          exact ecsd
        apply stepR_writeWord (cs.word - drift) ecsd3 hSs
        intro h4 u4
        -- states_[probe] = 0
        have ecs4 : h4.cell? s probe = some cs := by
          rw [u4.cell_ne (fun hh => hdp hh.2.symm), u3.cell_ne (fun hh => vs hh.1.symm), u2.cell_ne (fun hh => ks hh.1.symm),
            u1.cell_ne (fun hh => ks hh.1.symm)]
          exact ecs
        apply stepR_writeWord 0 ecs4 hSs
        intro h5 u5
        -- keys_[probe].~K()
        have eckp5 : h5.cell? k probe = some { ckp with st := .moved } := by
          rw [u5.cell_ne (fun hh => ks hh.1), u4.cell_ne (fun hh => ks hh.1), u3.cell_ne (fun hh => kv hh.1),
            u2.cell_ne (fun hh => hdp hh.2.symm)]
          exact u1.cell
        apply stepR_destroy eckp5 (by simp) hSk
        intro h6 u6
        -- the table after the move
        have T1 : Tbl true [d, probe] h1 k v s n :=
          T.upd u1 (fun e => (kv e).elim) (fun e => (ks e).elim) (fun _ hj => by cases hj) (fun _ => by simp)
        have T2 : Tbl true [d, probe] h2 k v s n :=
          T1.upd u2 (fun e => (kv e).elim) (fun e => (ks e).elim) (fun _ hj => hj) (fun _ => by simp)
        have T3 : Tbl true [d, probe] h3 k v s n := T2.updValue ecvd2 u3
        have T4 : Tbl true [d, probe] h4 k v s n :=
          T3.upd u4 (fun e => (vs e.symm).elim) (fun _ => by rw [estsd]; exact T.raws d) (fun _ hj => hj) (fun _ => by simp)
        have hcsst : cs.st = .raw := by rw [← stAt_of ecs]; exact T.raws probe
        have T5 : Tbl true [d, probe] h5 k v s n :=
          T4.upd u5 (fun e => (vs e.symm).elim) (fun _ => hcsst) (fun _ hj => hj) (fun _ => by simp)
        have T6 : Tbl true [d, probe] h6 k v s n :=
          T5.upd u6 (fun e => (kv e).elim) (fun e => (ks e).elim) (fun _ hj => hj) (fun _ => by simp)
        have hwd6 : wordAt h6 s d = cs.word - drift := by
          rw [u6.wordAt_ne (fun hh => ks hh.1.symm), u5.wordAt_ne (fun hh => hdp hh.2), u4.wordAt_eq]
        have hsd6 : stAt h6 k d = .live x := by
          rw [u6.stAt_ne (fun hh => hdp hh.2), u5.stAt_ne (fun hh => ks hh.1), u4.stAt_ne (fun hh => ks hh.1),
            u3.stAt_ne (fun hh => kv hh.1), u2.stAt_eq]
        have hwp6 : wordAt h6 s probe = 0 := by
          rw [u6.wordAt_ne (fun hh => ks hh.1.symm), u5.wordAt_eq]
        have hsp6 : stAt h6 k probe = .raw := by rw [u6.stAt_eq]
        have T7 : Tbl true [] h6 k v s n := by
          refine T6.close (fun j hj _ => ?_)
          simp only [List.mem_cons, List.not_mem_nil, or_false] at hj
          rcases hj with rfl | rfl
          · exact SlotOK.active (x := x) (by rw [hwd6]; omega) hsd6
          · exact SlotOK.inactive hwp6 hsp6
        have hcnt : cnt (act h6 s) n = cnt (act h s) n := by
          have c5 := cnt_upd_off u5 ecs4 hp (by omega) rfl
          have c4 := cnt_upd_on u4 ecsd3 hd (by rw [ewsd]; exact hwd) (show 0 < cs.word - drift by omega)
          rw [act_upd_ne u6 (fun e => ks e.symm)]
          rw [act_upd_ne u3 (fun e => vs e.symm), act_upd_ne u2 (fun e => ks e.symm), act_upd_ne u1 (fun e => ks e.symm)] at c4
          omega
        have sb6 : SameBut [k, v, s] h h6 :=
          (((((u1.sameBut (by simp)).trans (u2.sameBut (by simp))).trans (u3.sameBut (by simp))).trans
            (u4.sameBut (by simp))).trans (u5.sameBut (by simp))).trans (u6.sameBut (by simp))
        by_cases hdl : 1 ≥ P.driftLimit
        · rw [if_pos hdl]; exact SafeF.exc _
        · rw [if_neg hdl]
          refine SafeF.mono (ih h6 probe ((probe + 1) % n) 1 T7 hp hwp6 (Nat.mod_lt _ (by omega))) ?_
          intro _ h' ⟨T', sb', c'⟩
          exact ⟨T', sb6.trans sb', by rw [c', hcnt]⟩
      · rw [if_neg hdr]
        by_cases hdl : drift + 1 ≥ P.driftLimit
        · rw [if_pos hdl]; exact SafeF.exc _
        · rw [if_neg hdl]
          exact ih h d ((probe + 1) % n) (drift + 1) T hd hwd (Nat.mod_lt _ (by omega))
    · rw [if_neg hw]
      exact SafeF.pure ⟨T, SameBut.refl _ _, rfl⟩

theorem hashDelete_spec (P : Params) (S : Nat → Bool) (k v s n : Nat) (hSk : S k = true) (hSv : S v = true)
    (hSs : S s = true) (h : Heap) (d : Nat) (T : Tbl true [] h k v s n) (hd : d < n) (hw : 0 < wordAt h s d) :
    SafeF S h (hashDelete P k v s n d h)
      (fun _ h' => Tbl true [] h' k v s n ∧ SameBut [k, v, s] h h' ∧ cnt (act h' s) n + 1 = cnt (act h s) n) := by
  unfold hashDelete
  have kv := T.kv; have ks := T.ks; have vs := T.vs
  obtain ⟨cs, ecs, ews, ests⟩ := T.cs.cell_st hd
  apply stepR_writeWord 0 ecs hSs
  intro h1 u1
  have hnr : stAt h k d ≠ .raw := (T.slot d hd (by simp)).nonraw_of_pos hw
  obtain ⟨ck, eck, estk, _⟩ := cell_of_stAt_ne_raw hnr
  have eck1 : h1.cell? k d = some ck := by rw [u1.cell_ne (fun hh => ks hh.1)]; exact eck
  apply stepR_destroy eck1 (by rw [estk]; exact hnr) hSk
  intro h2 u2
  have T1 : Tbl true [d] h1 k v s n :=
    T.upd u1 (fun e => (vs e.symm).elim) (fun _ => by rw [ests]; exact T.raws d) (fun _ hj => by cases hj) (fun _ => by simp)
  have T2 : Tbl true [d] h2 k v s n :=
    T1.upd u2 (fun e => (kv e).elim) (fun e => (ks e).elim) (fun _ hj => hj) (fun _ => by simp)
  have hw2 : wordAt h2 s d = 0 := by rw [u2.wordAt_ne (fun hh => ks hh.1.symm), u1.wordAt_eq]
  have T3 : Tbl true [] h2 k v s n := by
    refine T2.close (fun j hj _ => ?_)
    simp only [List.mem_cons, List.not_mem_nil, or_false] at hj
    subst hj
    exact SlotOK.inactive hw2 (by rw [u2.stAt_eq])
  have hcnt : cnt (act h2 s) n + 1 = cnt (act h s) n := by
    rw [act_upd_ne u2 (fun e => ks e.symm)]
    exact cnt_upd_off u1 ecs hd (by rw [ews]; exact hw) rfl
  have sb2 : SameBut [k, v, s] h h2 := (u1.sameBut (by simp)).trans (u2.sameBut (by simp))
  refine SafeF.mono (deleteLoop_spec P S k v s n hSk hSv hSs n h2 d ((d + 1) % n) 1 T3 hd hw2 (Nat.mod_lt _ (by omega))) ?_
  intro _ h' ⟨T', sb', c'⟩
  exact ⟨T', sb2.trans sb', by rw [c']; exact hcnt⟩

/-! ### `subtract_and_keep_positive_only` -/

theorem subtractStep_spec (P : Params) (S : Nat → Bool) (k v s n amount : Nat) (hSk : S k = true) (hSv : S v = true)
    (hSs : S s = true) (h : Heap) (probe na : Nat) (T : Tbl true [] h k v s n) (hp : probe < n) :
    SafeF S h (subtractStep P k v s n amount probe na h)
      (fun na' h' => Tbl true [] h' k v s n ∧ SameBut [k, v, s] h h' ∧
        (na = cnt (act h s) n → na' = cnt (act h' s) n)) := by
  unfold subtractStep
  obtain ⟨cs, ecs, ews, _⟩ := T.cs.cell_st hp
  apply step_readWord ecs
  by_cases hw : cs.word > 0
  · rw [if_pos hw]
    obtain ⟨cv, ecv⟩ := T.cv.cell hp
    apply step_readWord ecv
    by_cases hle : cv.word ≤ amount
    · rw [if_pos hle]
      apply SafeF.bind_safe (hashDelete_spec P S k v s n hSk hSv hSs h probe T hp (by omega))
      intro _ h' ⟨T', sb', c'⟩ _
      apply SafeF.pure
      exact ⟨T', sb', fun e => by omega⟩
    · rw [if_neg hle]
      apply stepR_writeWord _ ecv hSv
      intro h' up
      apply SafeF.pure
      refine ⟨T.updValue ecv up, up.sameBut (by simp), fun e => ?_⟩
      rw [act_upd_ne up (fun e => T.vs e.symm)]; exact e
  · rw [if_neg hw]
    exact SafeF.pure ⟨T, SameBut.refl _ _, fun e => e⟩

theorem firstProbeLoop_succ (s f p : Nat) : firstProbeLoop s (f + 1) p = (do
    let st ← readWord s p
    if st > 0 then
      if p = 0 then fail (.pre "first_probe underflow: no empty cell in the table") else firstProbeLoop s f (p - 1)
    else pure p) := rfl

/-- the backwards search for an empty cell cannot underflow when the table is not full -/
theorem firstProbeLoop_spec (S : Nat → Bool) (s n : Nat) (h : Heap) (hc : HasCells h s n)
    (hroom : cnt (act h s) n < n) :
    ∀ f p, p < n → (∀ j, p < j → j < n → act h s j = true) →
      SafeF S h (firstProbeLoop s f p h) (fun r h' => h' = h ∧ r < n) := by
  intro f
  induction f with
  | zero => intro p _ _; exact SafeF.exc _
  | succ f ih =>
    intro p hp hall
    rw [firstProbeLoop_succ]
    obtain ⟨cs, ecs, ews, _⟩ := hc.cell_st hp
    apply step_readWord ecs
    by_cases hw : cs.word > 0
    · rw [if_pos hw]
      have hap : act h s p = true := by simp [act]; omega
      by_cases hp0 : p = 0
      · exfalso
        have : cnt (act h s) n = n := cnt_full (fun j hj => by
          by_cases hj0 : j = p
          · rw [hj0]; exact hap
          · exact hall j (by omega) hj)
        omega
      · rw [if_neg hp0]
        refine ih (p - 1) (by omega) (fun j hj1 hj2 => ?_)
        by_cases hjp : j = p
        · rw [hjp]; exact hap
        · exact hall j (by omega) hj2
    · rw [if_neg hw]
      exact SafeF.pure ⟨rfl, hp⟩

theorem foldDown_zero {σ} (body : Nat → σ → M σ) (st : Nat) (a : σ) : foldDown body 0 st a = pure a := rfl
theorem foldDown_succ {σ} (body : Nat → σ → M σ) (c st : Nat) (a : σ) :
    foldDown body (c + 1) st a = (do let a' ← body (st + c) a; foldDown body c st a') := rfl

/-- invariant rule for the downward fold -/
theorem foldDown_safe {σ} {S : Nat → Bool} (I : σ → Heap → Prop) (body : Nat → σ → M σ) (start : Nat) :
    ∀ cnt, (∀ c a h, c < cnt → I a h → SafeF S h (body (start + c) a h) I) →
      ∀ a h, I a h → SafeF S h (foldDown body cnt start a h) I := by
  intro cnt
  induction cnt with
  | zero => intro _ a h hI; exact SafeF.pure hI
  | succ c ih =>
    intro hbody a h hI
    rw [foldDown_succ]
    apply SafeF.bind_safe (hbody c a h (by omega) hI)
    intro a' h' hI' _
    exact ih (fun c' a h hc => hbody c' a h (by omega)) a' h' hI'

theorem subtract_spec (P : Params) (S : Nat → Bool) (k v s n amount : Nat) (hSk : S k = true) (hSv : S v = true)
    (hSs : S s = true) (h : Heap) (na : Nat) (T : Tbl true [] h k v s n) (hna : na = cnt (act h s) n) (hroom : na < n) :
    SafeF S h (subtractAndKeepPositiveOnly P k v s n amount na h)
      (fun na' h' => Tbl true [] h' k v s n ∧ SameBut [k, v, s] h h' ∧ na' = cnt (act h' s) n) := by
  unfold subtractAndKeepPositiveOnly
  apply SafeF.bind_safe (firstProbeLoop_spec S s n h T.cs (by omega) n (n - 1) (by omega) (fun j h1 h2 => by omega))
  intro fp h1 ⟨e1, hfp⟩ _
  subst e1
  let I : Nat → Heap → Prop := fun a h' => Tbl true [] h' k v s n ∧ SameBut [k, v, s] h1 h' ∧ a = cnt (act h' s) n
  have step : ∀ start cnt0, start + cnt0 ≤ n → ∀ a h', I a h' →
      SafeF S h' (foldDown (subtractStep P k v s n amount) cnt0 start a h') I := by
    intro start cnt0 hle
    apply foldDown_safe I
    intro c a h' hc ⟨T', sb', ea⟩
    refine SafeF.mono (subtractStep_spec P S k v s n amount hSk hSv hSs h' (start + c) a T' (by omega)) ?_
    intro a'' h'' ⟨T'', sb'', ea''⟩
    exact ⟨T'', sb'.trans sb'', ea'' ea⟩
  apply SafeF.bind_safe (step 0 fp (by omega) na h1 ⟨T, SameBut.refl _ _, hna⟩)
  intro na1 h2 hI2 _
  exact step fp (n - fp) (by omega) na1 h2 hI2

/-! ### `purge` -/

theorem sampleLoop_succ (v s sm limit f i num : Nat) : sampleLoop v s sm limit (f + 1) i num =
    (if num < limit then do
      let st ← readWord s i
      if st > 0 then
        let w ← readWord v i
        writeWord sm num w
        sampleLoop v s sm limit f (i + 1) (num + 1)
      else sampleLoop v s sm limit f (i + 1) num
    else pure ()) := rfl

theorem sampleLoop_spec (S : Nat → Bool) (k v s n sm limit : Nat) (hSm : S sm = true) (h0 : Heap)
    (T : Tbl true [] h0 k v s n) (hsm : sm ∉ [k, v, s]) (hlim : limit ≤ cnt (act h0 s) n) :
    ∀ f i num h, i ≤ n → num = cnt (act h0 s) i → SameBut [sm] h0 h → HasCells h sm limit →
      (∀ j, stAt h sm j = stAt h0 sm j) →
      SafeF S h (sampleLoop v s sm limit f i num h)
        (fun _ h' => SameBut [sm] h0 h' ∧ HasCells h' sm limit ∧ ∀ j, stAt h' sm j = stAt h0 sm j) := by
  simp only [List.mem_cons, List.not_mem_nil, or_false, not_or] at hsm
  intro f
  induction f with
  | zero => intro i num h _ _ sb hc hst; exact SafeF.pure ⟨sb, hc, hst⟩
  | succ f ih =>
    intro i num h hi hnum sb hc hst
    rw [sampleLoop_succ]
    by_cases hlt : num < limit
    · rw [if_pos hlt]
      have hin : i < n := by
        by_cases hin : i < n
        · exact hin
        · have : i = n := by omega
          rw [this] at hnum; omega
      have es : h.find? s = h0.find? s := sb.out s (by simp; exact fun e => hsm.2.2 e.symm)
      have ev : h.find? v = h0.find? v := sb.out v (by simp; exact fun e => hsm.2.1 e.symm)
      obtain ⟨cs, ecs, ews, _⟩ := (HasCells_congr es T.cs).cell_st hin
      rw [wordAt_congr es] at ews
      apply step_readWord ecs
      by_cases hw : cs.word > 0
      · rw [if_pos hw]
        obtain ⟨cv, ecv⟩ := (HasCells_congr ev T.cv).cell hin
        apply step_readWord ecv
        obtain ⟨cm, ecm⟩ := hc.cell hlt
        apply stepR_writeWord _ ecm hSm
        intro h' up
        have hai : act h0 s i = true := by simp [act]; omega
        exact ih (i + 1) (num + 1) h' (by omega) (by rw [cnt_succ, hai, hnum]; rfl) (sb.trans (up.sameBut (by simp)))
          (up.hasCells hc) (fun j => by rw [up.stAt_same ecm rfl]; exact hst j)
      · rw [if_neg hw]
        have hai : act h0 s i = false := by simp [act]; omega
        exact ih (i + 1) num h (by omega) (by rw [cnt_succ, hai, hnum]; rfl) sb hc hst
    · rw [if_neg hlt]
      exact SafeF.pure ⟨sb, hc, hst⟩

theorem readWords_spec (n0 : Nat) (S : Nat → Bool) (b n : Nat) (h0 : Heap) (hc : HasCells h0 b n) :
    TripleS n0 S (fun h => h = h0) (readWords b n) (fun _ h' => h' = h0) := by
  unfold readWords
  have := TripleS.foldUp (n0 := n0) (S := S) (fun _ (_ : List Nat) h => h = h0)
    (fun i acc => do let w ← readWord b i; pure (acc ++ [w])) n 0 [] ?_
  · exact this
  · intro i a _ hi h _ e
    subst e
    obtain ⟨c, ec⟩ := hc.cell (by omega : i < n)
    apply step_readWord ec
    exact SafeF.pure rfl

theorem filter_ne_cons_self (x : Nat) (l : List Nat) (hx : x ∉ l) : (x :: l).filter (fun y => y != x) = l := by
  rw [List.filter_cons]
  simp only [bne_self_eq_false, Bool.false_eq_true, if_false]
  rw [List.filter_eq_self]
  intro a ha
  simp only [bne_iff_ne, ne_eq]
  intro e; exact hx (e ▸ ha)

theorem purge_spec (P : Params) (n0 : Nat) (S : Nat → Bool) (m : Map) (k v s : Nat) (hSk : S k = true) (hSv : S v = true)
    (hSs : S s = true) (hS : ∀ b, n0 ≤ b → S b = true) (h0 : Heap) :
    TripleS n0 S
      (fun h => h = h0 ∧ Tbl true [] h k v s (2 ^ m.lgCur) ∧ m.numActive = cnt (act h s) (2 ^ m.lgCur) ∧
        m.numActive < 2 ^ m.lgCur ∧ IdsLt h)
      (purge P m k v s)
      (fun r h' => Tbl true [] h' k v s (2 ^ m.lgCur) ∧ r.2 = cnt (act h' s) (2 ^ m.lgCur) ∧ h'.ids = h0.ids ∧
        h'.next = h0.next + 1 ∧ ∀ b, b ∉ [k, v, s] → b < h0.next → h'.find? b = h0.find? b) := by
  intro h hn ⟨he, T, hna, hroom, hlt⟩
  subst he
  unfold purge
  have ltk := T.ltk; have ltv := T.ltv; have lts := T.lts
  have hsm : h.next ∉ [k, v, s] := by simp; omega
  have hk' : k ≠ h.next := by omega
  have hv' : v ≠ h.next := by omega
  have hs' : s ≠ h.next := by omega
  apply step_alloc _ _ (hS _ hn)
  have T1 : Tbl true [] (h.afterAlloc .u64 (min P.maxSample m.numActive)) k v s (2 ^ m.lgCur) :=
    T.local (find?_afterAlloc_ne h _ _ (by omega)) (find?_afterAlloc_ne h _ _ (by omega))
      (find?_afterAlloc_ne h _ _ (by omega)) (by simp)
  have hact1 : act (h.afterAlloc .u64 (min P.maxSample m.numActive)) s = act h s :=
    act_congr (find?_afterAlloc_ne h _ _ (by omega))
  have hc1 := (afterAlloc_views h .u64 (min P.maxSample m.numActive)).1
  have hraw1 := stAt_afterAlloc_fresh h .u64 (min P.maxSample m.numActive)
  generalize hh1 : h.afterAlloc .u64 (min P.maxSample m.numActive) = h1 at T1 hact1 hc1 hraw1
  have hnext1 : h1.next = h.next + 1 := by rw [← hh1]; rfl
  have hids1 : h1.ids = h.next :: h.ids := by rw [← hh1]; rfl
  have hold1 : ∀ b, b ≠ h.next → h1.find? b = h.find? b := by
    intro b hb; rw [← hh1]; exact find?_afterAlloc_ne h _ _ hb
  apply SafeF.bind_safe (sampleLoop_spec S k v s (2 ^ m.lgCur) h.next (min P.maxSample m.numActive) (hS _ hn) h1 T1 hsm
    (by rw [hact1, ← hna]; exact Nat.min_le_right _ _) (2 ^ m.lgCur + 1) 0 0 h1 (Nat.zero_le _) rfl (SameBut.refl _ _) hc1
    (fun _ => rfl))
  intro _ h2 ⟨sb2, hc2, hst2⟩ _
  apply SafeF.bind_triple (readWords_spec n0 S h.next (min P.maxSample m.numActive) h2 hc2) (by rw [sb2.next, hnext1]; omega) rfl
  intro ws h2' e2 _
  subst e2
  apply step_dealloc hc2 ?_ (hS _ hn)
  · intro kd
    have T3 : Tbl true [] (h2'.afterFree h.next kd (min P.maxSample m.numActive)) k v s (2 ^ m.lgCur) := by
      refine Tbl.local (h := h1) ?_ ?_ ?_ (by simp [sb2.next]) T1
      · rw [find?_afterFree_ne _ _ _ _ hk', sb2.out k (by simp; exact hk')]
      · rw [find?_afterFree_ne _ _ _ _ hv', sb2.out v (by simp; exact hv')]
      · rw [find?_afterFree_ne _ _ _ _ hs', sb2.out s (by simp; exact hs')]
    have hact3 : act (h2'.afterFree h.next kd (min P.maxSample m.numActive)) s = act h s := by
      rw [← hact1]
      apply act_congr
      rw [find?_afterFree_ne _ _ _ _ hs', sb2.out s (by simp; exact hs')]
    have hids3 : (h2'.afterFree h.next kd (min P.maxSample m.numActive)).ids = h.ids := by
      rw [ids_afterFree, sb2.ids, hids1]
      exact filter_ne_cons_self _ _ (fun hm => Nat.lt_irrefl _ (hlt _ hm))
    have hnext3 : (h2'.afterFree h.next kd (min P.maxSample m.numActive)).next = h.next + 1 := by
      rw [next_afterFree, sb2.next, hnext1]
    have hold3 : ∀ b, b < h.next → (h2'.afterFree h.next kd (min P.maxSample m.numActive)).find? b = h.find? b := by
      intro b hb
      have hne : b ≠ h.next := by omega
      rw [find?_afterFree_ne _ _ _ _ hne, sb2.out b (by simp; exact hne), hold1 b hne]
    generalize h2'.afterFree h.next kd (min P.maxSample m.numActive) = h3 at T3 hact3 hids3 hnext3 hold3
    apply SafeF.bind_safe (subtract_spec P S k v s (2 ^ m.lgCur) _ hSk hSv hSs h3 m.numActive T3 (by rw [hact3]; exact hna) hroom)
    intro na' h4 ⟨T4, sb4, hna4⟩ _
    apply SafeF.pure
    refine ⟨T4, hna4, by rw [sb4.ids, hids3], by rw [sb4.next, hnext3], ?_⟩
    intro b hb hblt
    rw [sb4.out b hb, hold3 b hblt]
  · intro i hi
    obtain ⟨c, ec, _, est⟩ := hc2.cell_st hi
    exact ⟨c, ec, by rw [est, hst2, hraw1]⟩

end DS.Life.Fi

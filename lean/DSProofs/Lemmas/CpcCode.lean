/- Prefix codes with 12-bit look-ahead decoding: symbol, byte-array and pair round trips (free to change). -/
import DSProofs.Lemmas.CpcStream
namespace DS.Cpc

/-- a usable code on the symbols `0..n-1`: lengths 1..12, codewords fit their length, and no 12-bit pattern
starts with two different codewords (prefix freedom) -/
structure CodeOK (enc : Nat → Nat) (n : Nat) : Prop where
  len_pos : ∀ b, b < n → 1 ≤ enc b / 4096
  len_le : ∀ b, b < n → enc b / 4096 ≤ 12
  code_lt : ∀ b, b < n → enc b % 4096 < 2^(enc b / 4096)
  prefixFree : ∀ b b' x, b < n → b' < n → symMatches enc b x = true → symMatches enc b' x = true → b = b'

theorem peek_lt (n : Nat) (bs : Bits) : peek n bs < 2^n := by
  unfold peek
  exact Nat.lt_of_lt_of_le (valOf_lt _) (Nat.pow_le_pow_right (by decide) (by simp; omega))

theorem decEntry_of_matches (enc : Nat → Nat) (n b x : Nat) (h : CodeOK enc n) (hb : b < n)
    (hm : symMatches enc b x = true) : decEntry enc n x = (enc b / 4096) * 256 + b := by
  unfold decEntry
  cases hf : (List.range n).reverse.find? (fun b => symMatches enc b x) with
  | none =>
    rw [List.find?_eq_none] at hf
    have := hf b (by simp; exact hb)
    simp [hm] at this
  | some b' =>
    have h1 := List.find?_some hf
    have h2 := List.mem_of_find?_eq_some hf
    simp only [List.mem_reverse, List.mem_range] at h2
    have : b' = b := h.prefixFree b' b x h2 hb h1 hm
    subst this; rfl

theorem symMatches_encSym (enc : Nat → Nat) (n b : Nat) (h : CodeOK enc n) (hb : b < n) (rest : Bits) :
    symMatches enc b (peek 12 (encSym enc b ++ rest)) = true := by
  unfold symMatches encSym
  rw [peek_bitsOf_append_mod _ _ 12 rest (h.len_le b hb), Nat.mod_eq_of_lt (h.code_lt b hb)]
  simp

/-- one symbol: decode (encode b ++ rest) = (b, rest), for any table function that agrees with `decEntry` below 4096 -/
theorem decSym_encSym (enc : Nat → Nat) (n b : Nat) (dec : Nat → Nat) (h : CodeOK enc n) (hb : b < n) (hn : n ≤ 256)
    (hdec : ∀ x, x < 4096 → dec x = decEntry enc n x) (rest : Bits) :
    decSym dec (encSym enc b ++ rest) = (b, rest) := by
  unfold decSym
  have hx : peek 12 (encSym enc b ++ rest) < 4096 := peek_lt 12 _
  rw [hdec _ hx, decEntry_of_matches enc n b _ h hb (symMatches_encSym enc n b h hb rest)]
  have e1 : (enc b / 4096 * 256 + b) % 256 = b := by omega
  have e2 : (enc b / 4096 * 256 + b) / 256 = enc b / 4096 := by omega
  simp only [e1, e2]
  unfold encSym
  rw [drop_bitsOf_append]

/-- `low_level_uncompress_bytes ∘ low_level_compress_bytes = id` (any trailing bits) -/
theorem decBytes_encBytes (enc : Nat → Nat) (dec : Nat → Nat) (h : CodeOK enc 256)
    (hdec : ∀ x, x < 4096 → dec x = decEntry enc 256 x) (bytes : List Nat) (hb : ∀ b ∈ bytes, b < 256) (rest : Bits) :
    decBytes dec bytes.length (encBytes enc bytes ++ rest) = bytes := by
  induction bytes with
  | nil => simp [decBytes]
  | cons a t ih =>
    simp only [List.length_cons, encBytes, List.flatMap_cons, List.append_assoc, decBytes]
    rw [decSym_encSym enc 256 a dec h (hb a List.mem_cons_self) (Nat.le_refl _) hdec]
    simp only
    congr 1
    exact ih (fun b hb' => hb b (List.mem_cons_of_mem _ hb'))

/-! ### the materialised decoding table -/

theorem decEntryL_symList (enc : Nat → Nat) (n x : Nat) : decEntryL (symList enc n) x = decEntry enc n x := by
  unfold decEntryL symList decEntry
  rw [List.find?_map]
  simp only [Function.comp_def]
  cases hf : (List.range n).reverse.find? (fun b => x % 2^(enc b / 4096) == enc b % 4096) with
  | none => simp [symMatches, hf]
  | some b => simp [symMatches, hf]

theorem decTable_getD (enc : Nat → Nat) (n x : Nat) (hx : x < 4096) : (decTable enc n).getD x 0 = decEntry enc n x := by
  unfold decTable
  simp only
  rw [Array.getD_eq_getD_getElem?]
  simp [List.getElem?_map, List.getElem?_range hx, decEntryL_symList]

/-! ### pairs -/

/-- a pair array acceptable to the pair coder from the prediction (pr, pc): rows non-decreasing, columns
strictly increasing inside a row (≥ pc in the predicted row), columns below 64 -/
def PairsOK : Nat → Nat → List Nat → Prop
  | _, _, [] => True
  | pr, pc, rc :: t => pr ≤ rc / 64 ∧ (rc / 64 = pr → pc ≤ rc % 64) ∧ PairsOK (rc / 64) (rc % 64 + 1) t

theorem pairsOK_of_sorted (l : List Nat) (hs : l.Pairwise (· < ·)) (pr pc : Nat)
    (h0 : ∀ rc ∈ l, pr * 64 + pc ≤ rc) : PairsOK pr pc l := by
  induction l generalizing pr pc with
  | nil => trivial
  | cons a t ih =>
    rw [List.pairwise_cons] at hs
    have ha := h0 a List.mem_cons_self
    refine ⟨by omega, by intro h; omega, ih hs.2 _ _ ?_⟩
    intro rc hrc
    have := hs.1 rc hrc
    omega

theorem decPairs_encPairs (enc65 : Nat → Nat) (dec65 : Nat → Nat) (B : Nat) (h : CodeOK enc65 65)
    (hdec : ∀ x, x < 4096 → dec65 x = decEntry enc65 65 x) (l : List Nat) (pr pc : Nat) (hp : PairsOK pr pc l) (rest : Bits) :
    decPairs dec65 B l.length pr pc (encPairs enc65 B pr pc l ++ rest) = l := by
  induction l generalizing pr pc with
  | nil => simp [decPairs]
  | cons rc t ih =>
    obtain ⟨h1, h2, h3⟩ := hp
    simp only [List.length_cons, encPairs, decPairs, List.append_assoc]
    have hcol : rc % 64 < 64 := Nat.mod_lt _ (by decide)
    have hxd : rc % 64 - (if rc / 64 ≠ pr then 0 else pc) < 65 := by split <;> omega
    rw [decSym_encSym enc65 65 _ dec65 h hxd (by decide) hdec]
    simp only
    rw [readUnary_unaryBits]
    simp only
    rw [peek_bitsOf_append, drop_bitsOf_append]
    have hpow := Nat.two_pow_pos B
    have hyd : (rc / 64 - pr) / 2^B * 2^B + (rc / 64 - pr) % 2^B % 2^B = rc / 64 - pr := by
      rw [Nat.mod_mod]; exact Nat.div_add_mod' _ _
    rw [hyd]
    have hrow : pr + (rc / 64 - pr) = rc / 64 := by omega
    have hcol' : (if rc / 64 - pr > 0 then 0 else pc) + (rc % 64 - (if rc / 64 ≠ pr then 0 else pc)) = rc % 64 := by
      by_cases hne : rc / 64 = pr
      · have := h2 hne
        simp [hne]; omega
      · have : rc / 64 - pr > 0 := by omega
        simp [hne, this]
    rw [hrow, hcol']
    congr 1
    · omega
    · exact ih _ _ h3

end DS.Cpc

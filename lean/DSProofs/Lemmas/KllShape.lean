/- C08, pass A: the control flow of the KLL model depends only on SHAPES (k, n, items_size, level sizes) — never on
item values or coin values.  `CT.Rel R t t'`: the two coin trees have the same structure and R-related leaves. -/
import DSProofs.Lemmas.KllTruth
import DSProofs.Lemmas.KllMech
namespace DS.CT
variable {σ τ : Type}

/-- same tree structure, related leaves -/
def Rel (R : σ → τ → Prop) : CT σ → CT τ → Prop
  | ret a, ret b => R a b
  | flip f, flip g => ∀ b b', Rel R (f b) (g b')
  | ret _, flip _ => False
  | flip _, ret _ => False

theorem Rel.imp {R Q : σ → τ → Prop} (h : ∀ a b, R a b → Q a b) : ∀ {t : CT σ} {t' : CT τ}, Rel R t t' → Rel Q t t'
  | ret _, ret _, hr => h _ _ hr
  | flip _, flip _, hr => fun b b' => Rel.imp h (hr b b')
  | ret _, flip _, hr => hr.elim
  | flip _, ret _, hr => hr.elim

theorem Rel_bind {σ' τ' : Type} {R : σ → τ → Prop} {Q : σ' → τ' → Prop} {k : σ → CT σ'} {k' : τ → CT τ'} :
    ∀ {t : CT σ} {t' : CT τ}, Rel R t t' → (∀ a b, R a b → Rel Q (k a) (k' b)) → Rel Q (bind t k) (bind t' k')
  | ret _, ret _, hr, hk => hk _ _ hr
  | flip _, flip _, hr, hk => fun b b' => Rel_bind (hr b b') hk
  | ret _, flip _, hr, _ => hr.elim
  | flip _, ret _, hr, _ => hr.elim

theorem Rel_map {σ' τ' : Type} {R : σ → τ → Prop} {Q : σ' → τ' → Prop} {g : σ → σ'} {g' : τ → τ'} {t : CT σ} {t' : CT τ}
    (h : Rel R t t') (hg : ∀ a b, R a b → Q (g a) (g' b)) : Rel Q (map g t) (map g' t') :=
  Rel_bind h (fun a b hab => hg a b hab)

theorem Rel.leaves {R : σ → τ → Prop} : ∀ {t : CT σ} {t' : CT τ}, Rel R t t' → leaves t = leaves t'
  | ret _, ret _, _ => rfl
  | flip _, flip _, hr => by simp only [leaves_flip, Rel.leaves (hr false false), Rel.leaves (hr true true)]
  | ret _, flip _, hr => hr.elim
  | flip _, ret _, hr => hr.elim

/-- a tree related to some tree has all its leaves at the depth of that tree's leftmost leaf -/
theorem Rel.uniform {R : σ → τ → Prop} : ∀ {t : CT σ} {t' : CT τ}, Rel R t t' → Uniform (depthLeft t') t
  | ret _, ret _, _ => trivial
  | flip _, flip g, hr => fun b => Rel.uniform (hr b false)
  | ret _, flip _, hr => hr.elim
  | flip _, ret _, hr => hr.elim

theorem All_forall {ι : Type} {P : ι → σ → Prop} : ∀ {t : CT σ}, (∀ i, All (P i) t) → All (fun a => ∀ i, P i a) t
  | ret _, h => h
  | flip _, h => fun b => All_forall (fun i => h i b)

/-- every leaf of `t` is related to every leaf of `t'` -/
theorem Rel.all {R : σ → τ → Prop} : ∀ {t : CT σ} {t' : CT τ}, Rel R t t' → All (fun a => All (fun b => R a b) t') t
  | ret _, ret _, hr => hr
  | flip _, flip _, hr => fun b => All_forall (fun b' => Rel.all (hr b b'))
  | ret _, flip _, hr => hr.elim
  | flip _, ret _, hr => hr.elim

/-- leftmost leaf -/
def leftLeaf : CT σ → σ
  | ret s => s
  | flip f => leftLeaf (f false)

theorem All.atLeftLeaf {P : σ → Prop} : ∀ {t : CT σ}, All P t → P (leftLeaf t)
  | ret _, h => h
  | flip f, h => All.atLeftLeaf (t := f false) (h false)

end DS.CT

namespace DS.Kll
open DS DS.SortedView

variable {α : Type}

/-- same shape: everything the control flow looks at -/
def SS (s s' : Sketch α) : Prop :=
  s.k = s'.k ∧ s.n = s'.n ∧ s.itemsSize = s'.itemsSize ∧ s.levels.map List.length = s'.levels.map List.length

theorem SS.refl (s : Sketch α) : SS s s := ⟨rfl, rfl, rfl, rfl⟩

theorem sizes_length {L L' : List (List α)} (h : L.map List.length = L'.map List.length) : L.length = L'.length := by
  have := congrArg List.length h; simpa using this

theorem sizes_getD {L L' : List (List α)} (h : L.map List.length = L'.map List.length) (i : Nat) :
    (L.getD i []).length = (L'.getD i []).length := by
  have e : ∀ M : List (List α), (M.getD i []).length = (M.map List.length).getD i 0 := by
    intro M
    simp only [List.getD_eq_getElem?_getD, List.getElem?_map]
    cases M[i]? <;> simp
  rw [e, e, h]

theorem sizes_sizeSum {L L' : List (List α)} (h : L.map List.length = L'.map List.length) : sizeSum L = sizeSum L' := by
  rw [sizeSum_eq_sum_map, sizeSum_eq_sum_map, h]

theorem sizes_headD {L L' : List (List α)} (h : L.map List.length = L'.map List.length) :
    (L.headD []).length = (L'.headD []).length := by
  cases L <;> cases L' <;> simp_all

theorem sizes_tail {L L' : List (List α)} (h : L.map List.length = L'.map List.length) :
    L.tail.map List.length = L'.tail.map List.length := by
  cases L <;> cases L' <;> simp_all

theorem findLevel_congr (P : Params) (k N : Nat) : ∀ (L L' : List (List α)) (lvl : Nat),
    L.map List.length = L'.map List.length → findLevel P k N L lvl = findLevel P k N L' lvl
  | [], [], _, _ => rfl
  | [], _ :: _, _, h => by simp at h
  | _ :: _, [], _, h => by simp at h
  | l :: t, l' :: t', lvl, h => by
    simp only [List.map_cons, List.cons.injEq] at h
    simp only [findLevel, h.1, findLevel_congr P k N t t' (lvl + 1) h.2]

theorem compactAt_sizes (lt lt' : α → α → Bool) (srt srt' c c' : Bool) (lvl : Nat) {L L' : List (List α)}
    (h : L.map List.length = L'.map List.length) :
    (compactAt lt srt c lvl L).map List.length = (compactAt lt' srt' c' lvl L').map List.length := by
  unfold compactAt
  rw [map_length_set, map_length_set, map_length_set, map_length_set, leftoverOf_length, leftoverOf_length,
    newAbove_length, newAbove_length, sizes_getD h lvl, sizes_getD h (lvl + 1), h]

theorem sizes_append_nil {L L' : List (List α)} (h : L.map List.length = L'.map List.length) :
    (L ++ [[]]).map List.length = (L' ++ [[]]).map List.length := by simp [h]

theorem compress_SS (P : Params) (c : Cmp α) {s s' : Sketch α} (h : SS s s') (b b' : Bool) :
    SS (compress P c s b) (compress P c s' b') := by
  obtain ⟨hk, hn, hi, hl⟩ := h
  have hlen := sizes_length hl
  rw [compress_eq, compress_eq]
  rw [← hk, ← hlen, ← findLevel_congr P s.k s.levels.length s.levels s'.levels 0 hl]
  split
  · exact ⟨hk, hn, hi, hl⟩
  · split
    · exact ⟨rfl, hn, by show s.itemsSize + _ = s'.itemsSize + _; rw [hi], compactAt_sizes _ _ _ _ _ _ _ (sizes_append_nil hl)⟩
    · exact ⟨rfl, hn, hi, compactAt_sizes _ _ _ _ _ _ _ hl⟩

theorem push_SS {s s' : Sketch α} (h : SS s s') (x x' : α) : SS (push s x) (push s' x') := by
  obtain ⟨hk, hn, hi, hl⟩ := h
  refine ⟨hk, by simp [push, hn], hi, ?_⟩
  simp only [push, List.map_cons, List.length_cons, sizes_headD hl, sizes_tail hl]

theorem full_congr {s s' : Sketch α} (h : SS s s') : s.full = s'.full := by
  simp only [Sketch.full, Sketch.retained, sizes_sizeSum h.2.2.2, h.2.2.1]

theorem internalUpdateT_SS (P : Params) (c : Cmp α) {s s' : Sketch α} (h : SS s s') (x x' : α) :
    CT.Rel SS (internalUpdateT P c s x) (internalUpdateT P c s' x') := by
  unfold internalUpdateT
  rw [← full_congr h]
  split
  · intro b b'; exact push_SS (compress_SS P c h b b') x x'
  · exact push_SS h x x'

theorem updateMinMax_SS (c : Cmp α) (s : Sketch α) (x : α) : SS (updateMinMax c s x) s := by
  unfold updateMinMax; split <;> exact ⟨rfl, rfl, rfl, rfl⟩

theorem SS.trans {a b c : Sketch α} (h1 : SS a b) (h2 : SS b c) : SS a c :=
  ⟨h1.1.trans h2.1, h1.2.1.trans h2.2.1, h1.2.2.1.trans h2.2.2.1, h1.2.2.2.trans h2.2.2.2⟩
theorem SS.symm {a b : Sketch α} (h : SS a b) : SS b a := ⟨h.1.symm, h.2.1.symm, h.2.2.1.symm, h.2.2.2.symm⟩

theorem updateT_SS (P : Params) (c : Cmp α) {s s' : Sketch α} (h : SS s s') (x : α) :
    CT.Rel SS (updateT P c s x) (updateT P c s' x) := by
  unfold updateT
  split
  · exact h
  · exact internalUpdateT_SS P c (((updateMinMax_SS c s x).trans h).trans (updateMinMax_SS c s' x).symm) x x

theorem replayT_SS (P : Params) (c : Cmp α) : ∀ (xs xs' : List α) {s s' : Sketch α}, xs.length = xs'.length → SS s s' →
    CT.Rel SS (replayT P c s xs) (replayT P c s' xs')
  | [], [], _, _, _, h => h
  | [], _ :: _, _, _, hl, _ => by simp at hl
  | _ :: _, [], _, _, hl, _ => by simp at hl
  | x :: t, x' :: t', _, _, hl, h => by
    simp only [replayT]
    exact CT.Rel_bind (internalUpdateT_SS P c h x x') (fun a b hab => replayT_SS P c t t' (by simpa using hl) hab)

theorem zipLevels_sizes (lt : α → α → Bool) : ∀ {a a' b b' : List (List α)}, a.map List.length = a'.map List.length →
    b.map List.length = b'.map List.length → (zipLevels lt a b).map List.length = (zipLevels lt a' b').map List.length
  | [], [], _, _, _, hb => by simpa [zipLevels] using hb
  | [], _ :: _, _, _, ha, _ => by simp at ha
  | _ :: _, [], _, _, ha, _ => by simp at ha
  | x :: a, x' :: a', [], [], ha, _ => by simpa [zipLevels] using ha
  | _ :: _, _ :: _, [], _ :: _, _, hb => by simp at hb
  | _ :: _, _ :: _, _ :: _, [], _, hb => by simp at hb
  | x :: a, x' :: a', y :: b, y' :: b', ha, hb => by
    simp only [List.map_cons, List.cons.injEq] at ha hb
    simp only [zipLevels, List.map_cons, mergeUp_length, ha.1, hb.1, zipLevels_sizes lt ha.2 hb.2]

/-- relation on `gcLoop` results -/
def GS (r r' : List (List α) × Nat) : Prop := r.1.map List.length = r'.1.map List.length ∧ r.2 = r'.2

theorem gcLoop_GS (P : Params) (lt : α → α → Bool) (k : Nat) (sorted0 sorted0' : Bool) :
    ∀ (fuel : Nat) (below below' : List (List α)) (cur cur' : List α) (rest rest' : List (List α)) (cnt tgt : Nat),
    below.map List.length = below'.map List.length → cur.length = cur'.length →
    rest.map List.length = rest'.map List.length →
    CT.Rel GS (gcLoop P lt k sorted0 fuel below cur rest cnt tgt) (gcLoop P lt k sorted0' fuel below' cur' rest' cnt tgt)
  | 0, below, below', cur, cur', rest, rest', cnt, tgt, hb, hc, hr => by
    simp only [gcLoop, CT.Rel]
    exact ⟨by simp [hb, hc, hr], rfl⟩
  | fuel + 1, below, below', cur, cur', rest, rest', cnt, tgt, hb, hc, hr => by
    have hbl := sizes_length hb
    have hrl := sizes_length hr
    simp only [gcLoop]
    rw [← hbl, ← hrl, ← hc]
    split
    · cases rest with
      | nil =>
        cases rest' with
        | nil => simp only [CT.Rel]; exact ⟨by simp [hb, hc], rfl⟩
        | cons _ _ => simp at hr
      | cons r rs =>
        cases rest' with
        | nil => simp at hr
        | cons r' rs' =>
          simp only [List.map_cons, List.cons.injEq] at hr
          exact gcLoop_GS P lt k sorted0 sorted0' fuel (cur :: below) (cur' :: below') r r' rs rs' cnt tgt
            (by simp [hb, hc]) hr.1 hr.2
    · cases rest with
      | nil =>
        cases rest' with
        | nil =>
          intro b b'
          exact gcLoop_GS P lt k sorted0 sorted0' fuel _ _ _ _ [] [] _ _
            (by simp [hb, leftoverOf_length, hc]) (by simp [newAbove_length, hc]) rfl
        | cons _ _ => simp at hr
      | cons r rs =>
        cases rest' with
        | nil => simp at hr
        | cons r' rs' =>
          simp only [List.map_cons, List.cons.injEq] at hr
          intro b b'
          exact gcLoop_GS P lt k sorted0 sorted0' fuel _ _ _ _ rs rs' _ _
            (by simp [hb, leftoverOf_length, hc]) (by simp [newAbove_length, hc, hr.1]) hr.2

theorem mergeHigherT_SS (P : Params) (c : Cmp α) {s s' o o' : Sketch α} (hs : SS s s') (ho : SS o o') :
    CT.Rel SS (mergeHigherT P c s o) (mergeHigherT P c s' o') := by
  unfold mergeHigherT
  obtain ⟨hk, hn, hi, hl⟩ := hs
  have hz := zipLevels_sizes c.lt (sizes_tail hl) (sizes_tail ho.2.2.2)
  have hwl : (s.levels.headD [] :: zipLevels c.lt s.levels.tail o.levels.tail).map List.length =
      (s'.levels.headD [] :: zipLevels c.lt s'.levels.tail o'.levels.tail).map List.length := by
    simp only [List.map_cons, sizes_headD hl, hz]
  simp only [List.headD_cons, List.tail_cons]
  have hfuel : gcFuel (s.levels.headD [] :: zipLevels c.lt s.levels.tail o.levels.tail) =
      gcFuel (s'.levels.headD [] :: zipLevels c.lt s'.levels.tail o'.levels.tail) := by
    unfold gcFuel; rw [sizes_sizeSum hwl, sizes_length hwl]
  rw [hfuel, sizes_sizeSum hwl, sizes_length hwl, hk]
  refine CT.Rel_bind (gcLoop_GS P c.lt s'.k s.sorted0 s'.sorted0 _ [] [] _ _ _ _ _ _ rfl (sizes_headD hl) hz) ?_
  intro r r' hr
  exact ⟨rfl, hn, hr.2, hr.1⟩

theorem mergeT_SS (P : Params) (c : Cmp α) {s s' o o' : Sketch α} (hs : SS s s') (ho : SS o o') :
    CT.Rel SS (mergeT P c s o) (mergeT P c s' o') := by
  unfold mergeT
  rw [← ho.2.1]
  split
  · exact hs
  · have hmm : SS (mergeMinMax c s o) (mergeMinMax c s' o') := by
      have f1 := mergeMinMax_fields c s o
      have f2 := mergeMinMax_fields c s' o'
      exact ⟨by rw [f1.2.1, f2.2.1]; exact hs.1, by rw [f1.1, f2.1]; exact hs.2.1,
        by rw [f1.2.2.2.1, f2.2.2.2.1]; exact hs.2.2.1, by rw [f1.2.2.1, f2.2.2.1]; exact hs.2.2.2⟩
    refine CT.Rel_bind (replayT_SS P c _ _ (sizes_headD ho.2.2.2) hmm) ?_
    intro s2 s2' h2
    have hnl : o.numLevels = o'.numLevels := sizes_length ho.2.2.2
    rw [← hnl]
    refine CT.Rel_bind (R := SS) (Q := SS) ?_ ?_
    · split
      · exact mergeHigherT_SS P c h2 ho
      · exact h2
    · intro s3 s3' h3
      exact ⟨h3.1, by simp only [hs.2.1, ho.2.1], h3.2.2.1, h3.2.2.2⟩

end DS.Kll

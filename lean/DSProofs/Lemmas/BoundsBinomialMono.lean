/- C06 helper lemmas: monotonicity of the binomial bounds in the number of standard deviations, branch by branch. -/
import DSProofs.Lemmas.BoundsBinomial
namespace DS.Bounds
set_option linter.unusedSectionVars false
set_option linter.unusedVariables false

variable {K : Type} [Field K] [LinearOrder K] [IsStrictOrderedRing K] (F : MathFns K)

/-- what the monotonicity proof needs of the three tables of binomial_bounds.hpp (discharged for the generated tables by
    DSProofs/Gen/BoundsTables.lean through DSProofs/Lemmas/BoundsTablesFacts.lean) -/
structure BinomTablesOK (K : Type) [Field K] [LinearOrder K] [IsStrictOrderedRing K] (T : BinomTables) : Prop where
  delta_pos : ∀ k, 1 ≤ k → k ≤ 3 → (0 : K) < litK (T.delta.getD k (0, 0, 1)) ∧ (litK (T.delta.getD k (0, 0, 1)) : K) < 1
  delta_dec : ∀ k, 1 ≤ k → k < 3 → (litK (T.delta.getD (k + 1) (0, 0, 1)) : K) < litK (T.delta.getD k (0, 0, 1))
  lb_row : ∀ n k, 1 ≤ n → n ≤ 120 → 1 ≤ k → k < 3 →
    (0 : K) ≤ litK (T.lbEquiv.getD (3 * n + (k - 1)) (0, 0, 1)) ∧
    (litK (T.lbEquiv.getD (3 * n + (k - 1)) (0, 0, 1)) : K) ≤ litK (T.lbEquiv.getD (3 * n + k) (0, 0, 1))
  ub_row : ∀ n k, 1 ≤ n → n ≤ 120 → 1 ≤ k → k < 3 →
    (0 : K) ≤ litK (T.ubEquiv.getD (3 * n + (k - 1)) (0, 0, 1)) ∧
    (litK (T.ubEquiv.getD (3 * n + (k - 1)) (0, 0, 1)) : K) ≤ litK (T.ubEquiv.getD (3 * n + k) (0, 0, 1))

theorem eqb_eq (a b : K) : @BNum.eqb K (fieldNum F) a b = decide (a = b) := rfl

theorem log_one_sub_neg (hF : F.OK) (θ : K) (h0 : 0 < θ) (h1 : θ < 1) : F.log (1 - θ) < 0 := by
  have := hF.log_lt (1 - θ) 1 (by linarith) (by linarith)
  rwa [hF.log_one] at this

/-- whether the "exact" procedures throw does not depend on delta -/
theorem specialNStar_isSome (n : Nat) (p δ δ' : K) :
    (@specialNStar K (fieldNum F) n p δ).isSome = (@specialNStar K (fieldNum F) n p δ').isSome := by
  unfold specialNStar
  simp only
  split
  · rfl
  · split
    · rfl
    · simp only [Option.isSome_some]

theorem specialNPrimeF_isSome (n : Nat) (p δ δ' : K) :
    (@specialNPrimeF K (fieldNum F) n p δ).isSome = (@specialNPrimeF K (fieldNum F) n p δ').isSome := by
  unfold specialNPrimeF specialNPrimeB
  simp only
  split
  · rfl
  · split
    · rfl
    · simp only [Option.isSome_some]

theorem specialNStar_mono (n : Nat) (p δ δ' : K) (hδ : δ' ≤ δ) (a a' : Nat)
    (h : @specialNStar K (fieldNum F) n p δ = some a) (h' : @specialNStar K (fieldNum F) n p δ' = some a') : a' ≤ a := by
  unfold specialNStar at h h'
  simp only at h h'
  split at h
  · simp at h
  · split at h
    · simp at h
    · rename_i c1 c2
      simp only [c1, c2, if_false, Option.some.injEq] at h h'
      subst h; subst h'
      exact nStarLoop_mono F _ δ δ' hδ n _ _ _ _

theorem specialNPrimeF_mono (n : Nat) (p δ δ' : K) (hδ : δ' ≤ δ) (a a' : Nat)
    (h : @specialNPrimeF K (fieldNum F) n p δ = some a) (h' : @specialNPrimeF K (fieldNum F) n p δ' = some a') : a ≤ a' := by
  unfold specialNPrimeF specialNPrimeB at h h'
  simp only at h h'
  split at h
  · simp at h
  · split at h
    · simp at h
    · rename_i c1 c2
      simp only [c1, c2, if_false, Option.some.injEq] at h h'
      subst h; subst h'
      apply nPrimeBLoop_mono F _ _ _ _ (n + 1)
      simp only [lit_eq, litK_c1]
      linarith

/-- compute_approx_binomial_lower_bound is antitone in the number of standard deviations -/
theorem approxLb_antitone (hF : F.OK) (T : BinomTables) (hT : BinomTablesOK K T) (n : Nat) (θ : K) (h0 : 0 < θ) (h1 : θ ≤ 1)
    (k : Nat) (hk1 : 1 ≤ k) (hk3 : k < 3) (a a' : K)
    (h : @approxLb K (fieldNum F) T n θ k = some a) (h' : @approxLb K (fieldNum F) T n θ (k + 1) = some a') : a' ≤ a := by
  unfold approxLb at h h'
  simp only [nat_eq, lit_eq, tget_eq, litK_c1, litK_c0_5, Nat.cast_one] at h h'
  by_cases c1 : θ = 1
  · have e : (fieldNum F).eqb θ 1 = true := by rw [eqb_eq]; exact decide_eq_true c1
    simp only [e, if_true, Option.some.injEq] at h h'
    rw [← h, ← h']
  have e : (fieldNum F).eqb θ 1 = false := by rw [eqb_eq]; exact decide_eq_false c1
  have hθ1 : θ < 1 := lt_of_le_of_ne h1 c1
  simp only [e, Bool.false_eq_true, if_false] at h h'
  by_cases c2 : n = 0
  · simp only [c2, if_true, Option.some.injEq] at h h'
    rw [← h, ← h']
  simp only [c2, if_false] at h h'
  by_cases c3 : n = 1
  · simp only [c3, if_true, Option.some.injEq] at h h'
    rw [← h, ← h']
    apply hF.floor_mono
    have hL := log_one_sub_neg F hF θ h0 hθ1
    obtain ⟨p1, q1⟩ := hT.delta_pos k hk1 (by omega)
    obtain ⟨p2, q2⟩ := hT.delta_pos (k + 1) (by omega) (by omega)
    have hd := hT.delta_dec k hk1 hk3
    have := hF.log_lt (1 - litK (T.delta.getD k (0, 0, 1))) (1 - litK (T.delta.getD (k + 1) (0, 0, 1))) (by linarith) (by linarith)
    exact div_le_div_of_nonpos_of_le (le_of_lt hL) (le_of_lt this)
  simp only [c3, if_false] at h h'
  by_cases c4 : n > 120
  · simp only [c4, if_true, Option.some.injEq] at h h'
    rw [← h, ← h']
    have := contClassicLb_antitone F hF n (by omega) θ h0 (k : K) ((k + 1 : Nat) : K) (Nat.cast_nonneg k) (by push_cast; linarith)
    linarith
  simp only [c4, if_false] at h h'
  by_cases c5 : θ > 1 - litK c1em5
  · simp only [c5, if_true, Option.some.injEq] at h h'
    rw [← h, ← h']
  simp only [c5, if_false] at h h'
  by_cases c6 : θ < (n : K) / litK c360
  · simp only [c6, if_true, Option.some.injEq] at h h'
    rw [← h, ← h']
    obtain ⟨p1, p2⟩ := hT.lb_row n k (by omega) (by omega) hk1 hk3
    have := contClassicLb_antitone F hF n (by omega) θ h0 _ _ p1 p2
    have e2 : 3 * n + (k + 1 - 1) = 3 * n + k := by omega
    rw [e2]
    linarith
  simp only [c6, if_false, Option.map_eq_some_iff] at h h'
  obtain ⟨m, hm, rfl⟩ := h
  obtain ⟨m', hm', rfl⟩ := h'
  have hd := hT.delta_dec k hk1 hk3
  have := specialNStar_mono F n θ _ _ (le_of_lt hd) m m' hm hm'
  simp only [nat_eq]
  exact_mod_cast this

/-- compute_approx_binomial_upper_bound is monotone in the number of standard deviations -/
theorem approxUb_monotone (hF : F.OK) (T : BinomTables) (hT : BinomTablesOK K T) (n : Nat) (θ : K) (h0 : 0 < θ) (h1 : θ ≤ 1)
    (k : Nat) (hk1 : 1 ≤ k) (hk3 : k < 3) (a a' : K)
    (h : @approxUb K (fieldNum F) T n θ k = some a) (h' : @approxUb K (fieldNum F) T n θ (k + 1) = some a') : a ≤ a' := by
  unfold approxUb at h h'
  simp only [nat_eq, lit_eq, tget_eq, litK_c1, litK_c0_5, Nat.cast_one] at h h'
  by_cases c1 : θ = 1
  · have e : (fieldNum F).eqb θ 1 = true := by rw [eqb_eq]; exact decide_eq_true c1
    simp only [e, if_true, Option.some.injEq] at h h'
    rw [← h, ← h']
  have e : (fieldNum F).eqb θ 1 = false := by rw [eqb_eq]; exact decide_eq_false c1
  have hθ1 : θ < 1 := lt_of_le_of_ne h1 c1
  simp only [e, Bool.false_eq_true, if_false] at h h'
  by_cases c2 : n = 0
  · simp only [c2, if_true, Option.some.injEq] at h h'
    rw [← h, ← h']
    apply hF.ceil_mono
    have hL := log_one_sub_neg F hF θ h0 hθ1
    obtain ⟨p2, q2⟩ := hT.delta_pos (k + 1) (by omega) (by omega)
    have hd := hT.delta_dec k hk1 hk3
    have := hF.log_lt _ _ p2 hd
    exact div_le_div_of_nonpos_of_le (le_of_lt hL) (le_of_lt this)
  simp only [c2, if_false] at h h'
  by_cases c4 : n > 120
  · simp only [c4, if_true, Option.some.injEq] at h h'
    rw [← h, ← h']
    have := contClassicUb_monotone F hF n θ h0 (k : K) ((k + 1 : Nat) : K) (Nat.cast_nonneg k) (by push_cast; linarith)
    linarith
  simp only [c4, if_false] at h h'
  by_cases c5 : θ > 1 - litK c1em5
  · simp only [c5, if_true, Option.some.injEq] at h h'
    rw [← h, ← h']
  simp only [c5, if_false] at h h'
  by_cases c6 : θ < (n : K) / litK c360
  · simp only [c6, if_true, Option.some.injEq] at h h'
    rw [← h, ← h']
    obtain ⟨p1, p2⟩ := hT.ub_row n k (by omega) (by omega) hk1 hk3
    have := contClassicUb_monotone F hF n θ h0 _ _ p1 p2
    have e2 : 3 * n + (k + 1 - 1) = 3 * n + k := by omega
    rw [e2]
    linarith
  simp only [c6, if_false, Option.map_eq_some_iff] at h h'
  obtain ⟨m, hm, rfl⟩ := h
  obtain ⟨m', hm', rfl⟩ := h'
  have hd := hT.delta_dec k hk1 hk3
  have := specialNPrimeF_mono F n θ _ _ (le_of_lt hd) m m' hm hm'
  simp only [nat_eq]
  exact_mod_cast this

/-- whether the approximations throw does not depend on the number of standard deviations -/
theorem approxLb_isSome (T : BinomTables) (n : Nat) (θ : K) (k k' : Nat) :
    (@approxLb K (fieldNum F) T n θ k).isSome = (@approxLb K (fieldNum F) T n θ k').isSome := by
  unfold approxLb
  simp only
  repeat' split
  all_goals first | rfl | (simp only [Option.isSome_map]; exact specialNStar_isSome F _ _ _ _)

theorem approxUb_isSome (T : BinomTables) (n : Nat) (θ : K) (k k' : Nat) :
    (@approxUb K (fieldNum F) T n θ k).isSome = (@approxUb K (fieldNum F) T n θ k').isSome := by
  unfold approxUb
  simp only
  repeat' split
  all_goals first | rfl | (simp only [Option.isSome_map]; exact specialNPrimeF_isSome F _ _ _ _)

end DS.Bounds

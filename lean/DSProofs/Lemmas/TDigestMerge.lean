/-
t-digest (C17), exact arithmetic: what the private `merge(buffer, weight)` leaves behind, in both merge
directions (`reverse_merge_`): a sorted centroid list whose first / last element is the first-minimal /
last-maximal element of the input, with all means inside the input range.
-/
import DSProofs.Lemmas.TDigestCluster
namespace DS.TDigest
open Num Conv

theorem getLast?_cons_ne (a : C) (l : List C) (hl : l ≠ []) : (a :: l).getLast? = l.getLast? := by
  obtain ⟨b, bs, rfl⟩ := List.exists_cons_of_ne_nil hl
  exact List.getLast?_cons_cons

theorem mergeOut_spec (sc : Scale Rat) (hsc : ScaleOK sc) (tun : Tun) (s : St Rat) (tmp : List C) (weight : Nat)
    {x : C} {xs : List C} (hseq : mergeSeq s tmp = x :: xs)
    (hpos : ∀ c ∈ tmp ++ s.cs, 1 ≤ c.weight)
    (hcw : s.cw + weight = sumWeights (tmp ++ s.cs)) :
    Sorted (mergeOut sc tun s weight x xs) ∧
    (mergeOut sc tun s weight x xs).head? = firstMin (tmp ++ s.cs) ∧
    (mergeOut sc tun s weight x xs).getLast? = lastMax (tmp ++ s.cs) ∧
    (∀ c ∈ mergeOut sc tun s weight x xs, 1 ≤ c.weight) ∧
    (∀ lo : Rat, (∀ c ∈ tmp ++ s.cs, lo ≤ c.mean) → ∀ c ∈ mergeOut sc tun s weight x xs, lo ≤ c.mean) ∧
    (∀ hi : Rat, (∀ c ∈ tmp ++ s.cs, c.mean ≤ hi) → ∀ c ∈ mergeOut sc tun s weight x xs, c.mean ≤ hi) := by
  have hsw := sumWeights_mergeSeq s tmp
  rw [hseq] at hsw
  have hmemL : ∀ c, c ∈ x :: xs ↔ c ∈ tmp ++ s.cs := by
    intro c
    rw [← hseq]
    unfold mergeSeq
    split
    · rw [List.mem_reverse]; exact mem_stableSort
    · exact mem_stableSort
  have hposx : 1 ≤ x.weight := hpos x ((hmemL x).1 (List.mem_cons_self ..))
  have hposxs : ∀ c ∈ xs, 1 ≤ c.weight := fun c hc => hpos c ((hmemL c).1 (List.mem_cons_of_mem _ hc))
  have hcw' : s.cw + weight = 0 + x.weight + sumWeights xs := by
    simp at hsw hcw; omega
  -- the cluster call, with casts in the shape the cluster lemmas expect
  set kc : Rat := (Num.ofNat (tun.comprMul * s.k) : Rat) with hkc
  have hout : cluster tun.caddSafe sc kc (Num.ofNat (s.cw + weight) : Rat) true x (Num.ofNat 0 : Rat) xs
      = cluster tun.caddSafe sc kc ((s.cw + weight : Nat) : Rat) true x ((0 : Nat) : Rat) xs := rfl
  have hlast : (cluster tun.caddSafe sc kc ((s.cw + weight : Nat) : Rat) true x ((0 : Nat) : Rat) xs).getLast? = (x :: xs).getLast? := by
    by_cases hnil : xs = []
    · subst hnil; simp [cluster]
    · rw [cluster_getLast tun.caddSafe sc kc hsc (s.cw + weight) xs true x 0 hnil hposx hposxs hcw']
      exact (getLast?_cons_ne x xs hnil).symm
  have hhead := cluster_head tun.caddSafe sc kc ((s.cw + weight : Nat) : Rat) xs x ((0 : Nat) : Rat)
  have hlo : ∀ lo : Rat, (∀ c ∈ tmp ++ s.cs, lo ≤ c.mean) →
      ∀ c ∈ cluster tun.caddSafe sc kc ((s.cw + weight : Nat) : Rat) true x ((0 : Nat) : Rat) xs, lo ≤ c.mean := by
    intro lo h
    exact cluster_lo tun.caddSafe sc kc _ lo xs true x _ (h x ((hmemL x).1 (List.mem_cons_self ..)))
      (fun c hc => h c ((hmemL c).1 (List.mem_cons_of_mem _ hc)))
  have hhi : ∀ hi : Rat, (∀ c ∈ tmp ++ s.cs, c.mean ≤ hi) →
      ∀ c ∈ cluster tun.caddSafe sc kc ((s.cw + weight : Nat) : Rat) true x ((0 : Nat) : Rat) xs, c.mean ≤ hi := by
    intro hi h
    exact cluster_hi tun.caddSafe sc kc _ hi xs true x _ (h x ((hmemL x).1 (List.mem_cons_self ..)))
      (fun c hc => h c ((hmemL c).1 (List.mem_cons_of_mem _ hc)))
  have hp := cluster_pos tun.caddSafe sc kc ((s.cw + weight : Nat) : Rat) xs true x ((0 : Nat) : Rat) hposx hposxs
  unfold mergeOut
  simp only [← hkc, hout]
  unfold mergeSeq at hseq
  cases hrev : s.rev
  · -- forward merge
    simp only [hrev, Bool.false_eq_true, if_false] at hseq ⊢
    have hs : Sorted (x :: xs) := hseq ▸ stableSort_sorted _
    refine ⟨cluster_sorted tun.caddSafe sc kc _ xs true x _ hs, ?_, ?_, hp, hlo, hhi⟩
    · rw [hhead, ← head?_stableSort, hseq]; rfl
    · rw [hlast, ← getLast?_stableSort, hseq]
  · -- reverse merge
    simp only [hrev, if_true] at hseq ⊢
    have hsorted : stableSort (tmp ++ s.cs) = (x :: xs).reverse := by
      rw [← hseq, List.reverse_reverse]
    have hsD : SortedD (x :: xs) := by
      have := (stableSort_sorted (tmp ++ s.cs)).reverse_ge
      rw [hseq] at this
      exact this
    have hD := cluster_sortedD tun.caddSafe sc kc ((s.cw + weight : Nat) : Rat) xs true x ((0 : Nat) : Rat) hsD
    refine ⟨?_, ?_, ?_, ?_, ?_, ?_⟩
    · unfold Sorted
      rw [List.pairwise_reverse]
      exact hD
    · rw [List.head?_reverse, hlast, ← head?_stableSort, hsorted, List.head?_reverse]
    · rw [List.getLast?_reverse, hhead, ← getLast?_stableSort, hsorted, List.getLast?_reverse]; rfl
    · intro c hc; exact hp c (List.mem_reverse.1 hc)
    · intro lo h c hc; exact hlo lo h c (List.mem_reverse.1 hc)
    · intro hi h c hc; exact hhi hi h c (List.mem_reverse.1 hc)

end DS.TDigest

/- Structural invariant through merge: level-0 replay, populate_work_arrays (zipLevels), general_compress (gcLoop). -/
import DSProofs.Lemmas.KllInv
namespace DS.Kll
open DS DS.SortedView

variable {α : Type}

/-! ### replay -/

theorem replayT_inv {P : Params} (ok : ParamsOk P) {c : Cmp α} (sw : StrictWeak c.lt) :
    ∀ (xs : List α) {s : Sketch α}, InvS P c.lt s →
    CT.All (fun s' => InvS P c.lt s' ∧ s'.n = s.n + xs.length ∧ s'.k = s.k ∧ (xs = [] → s' = s) ∧
              (xs ≠ [] → s'.levels.getD 0 [] ≠ [])) (replayT P c s xs)
  | [], s, h => by simp [replayT, h]
  | x :: t, s, h => by
    simp only [replayT]
    refine CT.All_bind (internalUpdateT_inv ok sw h x) ?_
    intro s1 ⟨h1, hn1, hk1, hne1⟩
    refine CT.All.imp ?_ (replayT_inv ok sw t h1)
    intro s2 ⟨h2, hn2, hk2, hnil, hne2⟩
    refine ⟨h2, by simp only [List.length_cons]; omega, by omega, by simp, ?_⟩
    intro _
    by_cases ht : t = []
    · rw [hnil ht]; exact hne1
    · exact hne2 ht

/-! ### zipLevels -/

theorem zipLevels_nil_right (lt : α → α → Bool) : ∀ a : List (List α), zipLevels lt a [] = a
  | [] => rfl
  | _ :: _ => rfl

theorem zipLevels_getD (lt : α → α → Bool) : ∀ (a b : List (List α)) (i : Nat),
    (zipLevels lt a b).getD i [] = mergeUp lt (a.getD i []) (b.getD i [])
  | [], b, i => by simp [zipLevels]
  | x :: a, [], i => by simp [zipLevels]
  | x :: a, y :: b, 0 => by simp [zipLevels]
  | x :: a, y :: b, i + 1 => by simp only [zipLevels, List.getD_cons_succ]; exact zipLevels_getD lt a b i

theorem zipLevels_length (lt : α → α → Bool) : ∀ (a b : List (List α)), (zipLevels lt a b).length = max a.length b.length
  | [], b => by simp [zipLevels]
  | x :: a, [] => by simp [zipLevels]
  | x :: a, y :: b => by simp only [zipLevels, List.length_cons, zipLevels_length lt a b]; omega

theorem weightSum_zipLevels (lt : α → α → Bool) : ∀ (h : Nat) (a b : List (List α)),
    weightSum h (zipLevels lt a b) = weightSum h a + weightSum h b
  | h, [], b => by simp [zipLevels, weightSum]
  | h, x :: a, [] => by simp [zipLevels, weightSum]
  | h, x :: a, y :: b => by
    simp only [zipLevels, weightSum, mergeUp_length, weightSum_zipLevels lt (h + 1) a b, Nat.mul_add]; omega

/-! ### general_compress -/

theorem sizeSum_reverse : ∀ L : List (List α), sizeSum L.reverse = sizeSum L
  | [] => rfl
  | l :: t => by simp only [List.reverse_cons, sizeSum_append, sizeSum_reverse t, sizeSum]; omega

theorem getD_append_len {β : Type} (d : β) : ∀ (pre L : List β), (pre ++ L).getD pre.length d = L.getD 0 d
  | [], L => by simp
  | _ :: ps, L => by simp only [List.cons_append, List.length_cons, List.getD_cons_succ]; exact getD_append_len d ps L

theorem getD_append_add {β : Type} (d : β) : ∀ (pre L : List β) (i : Nat), (pre ++ L).getD (pre.length + i) d = L.getD i d
  | [], L, i => by simp
  | _ :: ps, L, i => by
    have := getD_append_add d ps L i
    simp only [List.cons_append, List.length_cons]
    rw [show ps.length + 1 + i = (ps.length + i) + 1 by omega, List.getD_cons_succ]; exact this

theorem compactAt_cons (lt : α → α → Bool) (srt c : Bool) (i : Nat) (p : List α) (L : List (List α)) :
    compactAt lt srt c (i + 1) (p :: L) = p :: compactAt lt srt c i L := by
  simp [compactAt]

theorem compactAt_append (lt : α → α → Bool) (srt c : Bool) : ∀ (pre : List (List α)) (cur above : List α) (rs : List (List α)),
    compactAt lt srt c pre.length (pre ++ cur :: above :: rs) = pre ++ leftoverOf cur :: newAbove lt srt c cur above :: rs
  | [], cur, above, rs => by simp [compactAt]
  | p :: ps, cur, above, rs => by
    simp only [List.length_cons, List.cons_append, compactAt_cons, compactAt_append lt srt c ps cur above rs]

/-- what `gcLoop` guarantees for every coin outcome -/
structure GcPost (P : Params) (lt : α → α → Bool) (k : Nat) (sorted0 : Bool) (L : List (List α)) (r : List (List α) × Nat) : Prop where
  weight : weightSum 0 r.1 = weightSum 0 L
  cap : r.2 = computeTotalCapacity P k r.1.length
  ret_le : sizeSum r.1 ≤ r.2
  sorted : LevelsSorted lt r.1
  sorted0 : sorted0 = true → Sorted lt (r.1.getD 0 [])
  top : r.1.getD (r.1.length - 1) [] ≠ []
  len : L.length ≤ r.1.length

theorem gcLoop_inv {P : Params} (ok : ParamsOk P) {lt : α → α → Bool} (sw : StrictWeak lt) (k : Nat) (sorted0 : Bool) :
    ∀ (fuel : Nat) (below : List (List α)) (cur : List α) (rest : List (List α)) (cnt tgt : Nat),
    cnt = sizeSum (below.reverse ++ cur :: rest) →
    tgt = computeTotalCapacity P k (below.reverse ++ cur :: rest).length →
    LevelsSorted lt (below.reverse ++ cur :: rest) →
    (sorted0 = true → Sorted lt ((below.reverse ++ cur :: rest).getD 0 [])) →
    (below.reverse ++ cur :: rest).getD ((below.reverse ++ cur :: rest).length - 1) [] ≠ [] →
    (cnt < tgt ∨ sizeSum below + totalCapD P k (1 + rest.length) ≤ tgt) →
    sizeSum (cur :: rest) + rest.length + 1 ≤ fuel →
    CT.All (GcPost P lt k sorted0 (below.reverse ++ cur :: rest)) (gcLoop P lt k sorted0 fuel below cur rest cnt tgt)
  | 0, below, cur, rest, cnt, tgt, _, _, _, _, _, _, hfuel => by omega
  | fuel + 1, below, cur, rest, cnt, tgt, hcnt, htgt, hsort, hs0, htop, hbud, hfuel => by
    have hlen : (below.reverse ++ cur :: rest).length = below.length + 1 + rest.length := by
      simp only [List.length_append, List.length_reverse, List.length_cons]; omega
    have hcapeq : levelCapacity P k (below.length + 1 + rest.length) below.length = capAtDepth P k rest.length := by
      rw [levelCapacity_eq]; congr 1; omega
    have hszL : sizeSum (below.reverse ++ cur :: rest) = sizeSum below + cur.length + sizeSum rest := by
      rw [sizeSum_append, sizeSum_reverse]; simp only [sizeSum]; omega
    simp only [gcLoop]
    split
    · -- the level is moved over as it is
      rename_i hcond
      have hbud' : cnt < tgt ∨ sizeSum (cur :: below) + totalCapD P k rest.length ≤ tgt := by
        by_cases h1 : cnt < tgt
        · exact Or.inl h1
        · right
          have h2 : cur.length < capAtDepth P k rest.length := by
            rw [← hcapeq]; simpa [h1] using hcond
          rcases hbud with hb | hb
          · exact absurd hb h1
          · have e : 1 + rest.length = rest.length + 1 := by omega
            rw [e, totalCapD] at hb
            simp only [sizeSum]; omega
      cases rest with
      | nil =>
        simp only [CT.All_ret]
        refine ⟨rfl, htgt, ?_, hsort, hs0, htop, Nat.le_refl _⟩
        show sizeSum (below.reverse ++ [cur]) ≤ tgt
        simp only [sizeSum, List.length_nil, totalCapD] at hszL hbud' ⊢
        rcases hbud' with hb | hb
        · omega
        · omega
      | cons r rs =>
        have hL : (cur :: below).reverse ++ r :: rs = below.reverse ++ cur :: r :: rs := by
          simp only [List.reverse_cons, List.append_assoc, List.singleton_append]
        have := gcLoop_inv ok sw k sorted0 fuel (cur :: below) r rs cnt tgt
          (by rw [hL]; exact hcnt) (by rw [hL]; exact htgt) (by rw [hL]; exact hsort) (by rw [hL]; exact hs0)
          (by rw [hL]; exact htop)
          (by rcases hbud' with hb | hb
              · exact Or.inl hb
              · right; have e : 1 + rs.length = (r :: rs).length := by simp only [List.length_cons]; omega
                rw [e]; exact hb)
          (by simp only [sizeSum, List.length_cons] at hfuel ⊢; omega)
        rw [hL] at this
        exact this
    · -- the level is compacted
      rename_i hcond
      have hnc : ¬ cnt < tgt := by intro h; exact hcond (by simp [h])
      have hfullc : capAtDepth P k rest.length ≤ cur.length := by
        rw [← hcapeq]
        have : ¬ cur.length < levelCapacity P k (below.length + 1 + rest.length) below.length := by
          intro h; exact hcond (by simp [h])
        omega
      have hm := capAtDepth_ge P k rest.length
      have hm2 := ok.m_ge
      have hb : sizeSum below + totalCapD P k (1 + rest.length) ≤ tgt := by
        rcases hbud with h | h
        · exact absurd h hnc
        · exact h
      have hlo := leftoverOf_length cur
      simp only [CT.All_flip]
      intro coin
      have hc : ((below.length == 0 && !sorted0) = true) ∨ Sorted lt cur := by
        by_cases h0 : below.length = 0
        · have hb0 : below = [] := List.eq_nil_of_length_eq_zero h0
          cases hs : sorted0 with
          | false => left; simp [h0]
          | true => right; have := hs0 hs; simpa [hb0] using this
        · right
          have := hsort below.length (by omega)
          have e := getD_append_len ([] : List α) below.reverse (cur :: rest)
          simp only [List.length_reverse, List.getD_cons_zero] at e
          rw [e] at this; exact this
      cases rest with
      | nil =>
        -- the top level is compacted: one more level
        have hL' : (leftoverOf cur :: below).reverse ++ [newAbove lt (below.length == 0 && !sorted0) coin cur []]
            = compactAt lt (below.length == 0 && !sorted0) coin below.reverse.length ((below.reverse ++ [cur]) ++ [[]]) := by
          rw [List.append_assoc]
          simp only [List.singleton_append]
          rw [compactAt_append]
          simp only [List.reverse_cons, List.append_assoc, List.singleton_append]
        have hlen2 : below.reverse.length + 1 < ((below.reverse ++ [cur]) ++ [[]]).length := by
          simp only [List.length_append, List.length_reverse, List.length_singleton]; omega
        have hw := weightSum_compactAt lt (below.length == 0 && !sorted0) coin below.reverse.length _ hlen2
        have hsz := sizeSum_compactAt lt (below.length == 0 && !sorted0) coin below.reverse.length _ hlen2
        rw [weightSum_append_nil] at hw
        rw [sizeSum_append_nil, getD_append_nil_nil, getD_append_len] at hsz
        simp only [List.getD_cons_zero] at hsz
        have hsrt : LevelsSorted lt ((below.reverse ++ [cur]) ++ [[]]) := by
          intro i hi; rw [getD_append_nil_nil]; exact hsort i hi
        have hc' : ((below.length == 0 && !sorted0) = true) ∨
            Sorted lt (((below.reverse ++ [cur]) ++ [[]]).getD below.reverse.length []) := by
          rcases hc with h | h
          · exact Or.inl h
          · right; rw [getD_append_nil_nil, getD_append_len]; simpa using h
        have hso := compactAt_sorted sw (below.length == 0 && !sorted0) coin below.reverse.length _ hlen2 hsrt hc'
        have ih := gcLoop_inv ok sw k sorted0 fuel (leftoverOf cur :: below)
          (newAbove lt (below.length == 0 && !sorted0) coin cur []) [] (cnt - cur.length / 2)
          (tgt + levelCapacity P k (below.length + 2) 0)
          (by rw [hL']; omega)
          (by rw [hL', compactAt_length, htgt]
              simp only [List.length_append, List.length_reverse, List.length_singleton]
              exact (computeTotalCapacity_succ P k (below.length + 1)).symm)
          (by rw [hL']; exact hso.1)
          (by intro hs; rw [hL']
              by_cases h0 : below.reverse.length = 0
              · exact hso.2 h0
              · rw [compactAt_getD_other _ _ _ _ _ _ (by omega) (by omega), getD_append_nil_nil]; exact hs0 hs)
          (by have e : ((leftoverOf cur :: below).reverse ++ [newAbove lt (below.length == 0 && !sorted0) coin cur []]).length - 1
                  = (leftoverOf cur :: below).reverse.length := by
                simp only [List.length_append, List.length_singleton]; omega
              rw [e, getD_append_len]
              simp only [List.getD_cons_zero]
              intro hnil
              have := congrArg List.length hnil
              rw [newAbove_length] at this
              simp only [List.length_nil] at this hfullc hm
              omega)
          (by right
              have e : levelCapacity P k (below.length + 2) 0 = capAtDepth P k (below.length + 1) := by
                rw [levelCapacity_eq]; congr 1
              have := capAtDepth_ge P k (below.length + 1)
              simp only [sizeSum, List.length_nil, Nat.add_zero] at hb ⊢
              omega)
          (by simp only [sizeSum, List.length_nil, newAbove_length] at hfuel ⊢; omega)
        refine CT.All.imp ?_ ih
        intro r hr
        refine ⟨?_, hr.cap, hr.ret_le, hr.sorted, hr.sorted0, hr.top, ?_⟩
        · rw [hr.weight, hL', hw]
        · have := hr.len
          rw [hL', compactAt_length] at this
          simp only [List.length_append, List.length_reverse, List.length_singleton] at this ⊢
          omega
      | cons r rs =>
        have hL' : (leftoverOf cur :: below).reverse ++ newAbove lt (below.length == 0 && !sorted0) coin cur r :: rs
            = compactAt lt (below.length == 0 && !sorted0) coin below.reverse.length (below.reverse ++ cur :: r :: rs) := by
          rw [compactAt_append]
          simp only [List.reverse_cons, List.append_assoc, List.singleton_append]
        have hlen2 : below.reverse.length + 1 < (below.reverse ++ cur :: r :: rs).length := by
          simp only [List.length_append, List.length_reverse, List.length_cons]; omega
        have hw := weightSum_compactAt lt (below.length == 0 && !sorted0) coin below.reverse.length _ hlen2
        have hsz := sizeSum_compactAt lt (below.length == 0 && !sorted0) coin below.reverse.length _ hlen2
        rw [getD_append_len] at hsz
        simp only [List.getD_cons_zero] at hsz
        have hc' : ((below.length == 0 && !sorted0) = true) ∨
            Sorted lt ((below.reverse ++ cur :: r :: rs).getD below.reverse.length []) := by
          rcases hc with h | h
          · exact Or.inl h
          · right; rw [getD_append_len]; simpa using h
        have hso := compactAt_sorted sw (below.length == 0 && !sorted0) coin below.reverse.length _ hlen2 hsort hc'
        have ih := gcLoop_inv ok sw k sorted0 fuel (leftoverOf cur :: below)
          (newAbove lt (below.length == 0 && !sorted0) coin cur r) rs (cnt - cur.length / 2) tgt
          (by rw [hL']; omega)
          (by rw [hL', compactAt_length]; exact htgt)
          (by rw [hL']; exact hso.1)
          (by intro hs; rw [hL']
              by_cases h0 : below.reverse.length = 0
              · exact hso.2 h0
              · rw [compactAt_getD_other _ _ _ _ _ _ (by omega) (by omega)]; exact hs0 hs)
          (by rw [hL', compactAt_length]
              by_cases h2 : (below.reverse ++ cur :: r :: rs).length - 1 = below.reverse.length + 1
              · rw [h2, compactAt_getD_above _ _ _ _ _ hlen2]
                intro hnil
                have := congrArg List.length hnil
                rw [newAbove_length, getD_append_len] at this
                simp only [List.length_nil, List.getD_cons_zero] at this
                omega
              · rw [compactAt_getD_other _ _ _ _ _ _ (by omega) h2]; exact htop)
          (by right
              have e : 1 + (r :: rs).length = (1 + rs.length) + 1 := by simp only [List.length_cons]; omega
              rw [e, totalCapD] at hb
              have e2 : (r :: rs).length = 1 + rs.length := by simp only [List.length_cons]; omega
              rw [e2] at hm
              simp only [sizeSum] at hb ⊢
              omega)
          (by simp only [sizeSum, List.length_cons, newAbove_length] at hfuel ⊢; omega)
        refine CT.All.imp ?_ ih
        intro r' hr
        refine ⟨?_, hr.cap, hr.ret_le, hr.sorted, hr.sorted0, hr.top, ?_⟩
        · rw [hr.weight, hL', hw]
        · have := hr.len
          rw [hL', compactAt_length] at this
          exact this

end DS.Kll

/- Sorted-list set operations and distinct counting for the CPC model (free to change). -/
import DSModel.Cpc.Sketch
namespace DS.Cpc

theorem mem_insertS (x y : Nat) (l : List Nat) : y ∈ insertS x l ↔ y = x ∨ y ∈ l := by
  induction l with
  | nil => simp [insertS]
  | cons a t ih =>
    simp only [insertS]
    split
    · simp
    · split
      · rename_i _ h; subst h; simp
      · simp only [List.mem_cons, ih]
        constructor
        · rintro (h | h | h) <;> simp [h]
        · rintro (h | h | h) <;> simp [h]

theorem sorted_insertS (x : Nat) (l : List Nat) (hs : l.Pairwise (· < ·)) : (insertS x l).Pairwise (· < ·) := by
  induction l with
  | nil => simp [insertS]
  | cons a t ih =>
    rw [List.pairwise_cons] at hs
    simp only [insertS]
    split
    · rename_i hlt
      refine List.pairwise_cons.2 ⟨?_, List.pairwise_cons.2 hs⟩
      intro y hy
      rcases List.mem_cons.1 hy with rfl | hy
      · exact hlt
      · exact Nat.lt_trans hlt (hs.1 y hy)
    · split
      · exact List.pairwise_cons.2 hs
      · rename_i h1 h2
        refine List.pairwise_cons.2 ⟨?_, ih hs.2⟩
        intro y hy
        rcases (mem_insertS x y t).1 hy with rfl | hy
        · omega
        · exact hs.1 y hy

theorem nodup_of_sorted {l : List Nat} (hs : l.Pairwise (· < ·)) : l.Nodup :=
  hs.imp (fun h => Nat.ne_of_lt h)

theorem sorted_erase (x : Nat) (l : List Nat) (hs : l.Pairwise (· < ·)) : (l.erase x).Pairwise (· < ·) :=
  hs.sublist List.erase_sublist

theorem mem_erase_sorted (x y : Nat) (l : List Nat) (hs : l.Pairwise (· < ·)) : y ∈ l.erase x ↔ y ≠ x ∧ y ∈ l :=
  (nodup_of_sorted hs).mem_erase_iff

theorem mem_distinct (x : Nat) (l : List Nat) : x ∈ distinct l ↔ x ∈ l := by
  induction l with
  | nil => simp [distinct]
  | cons a t ih =>
    simp only [distinct]
    split
    · rename_i h
      rw [ih, List.mem_cons]
      constructor
      · exact Or.inr
      · rintro (rfl | h2)
        · exact h
        · exact h2
    · simp [ih]

theorem nodup_distinct (l : List Nat) : (distinct l).Nodup := by
  induction l with
  | nil => simp [distinct]
  | cons a t ih =>
    simp only [distinct]
    split
    · exact ih
    · rename_i h
      exact List.nodup_cons.2 ⟨fun hm => h ((mem_distinct a t).1 hm), ih⟩

theorem distinct_append_singleton_mem (l : List Nat) (x : Nat) (h : x ∈ l) :
    (distinct (l ++ [x])).length = (distinct l).length := by
  induction l with
  | nil => simp at h
  | cons a t ih =>
    simp only [List.cons_append, distinct, List.mem_append, List.mem_singleton]
    by_cases hat : a ∈ t
    · have hx : x ∈ t ∨ ¬ x ∈ t := Classical.em _
      rcases List.mem_cons.1 h with rfl | hxt
      · simp [hat, ih hat]
      · simp [hat, ih hxt]
    · rcases List.mem_cons.1 h with rfl | hxt
      · simp only [hat, or_true, if_true, if_false, false_or]
        -- x = a ∉ t: distinct (t ++ [a]) has one more element than distinct t
        have : (distinct (t ++ [x])).length = (distinct t).length + 1 := by
          clear ih h
          induction t with
          | nil => simp [distinct]
          | cons b u ihu =>
            have hxb : x ≠ b := fun e => hat (by simp [e])
            have hxu : x ∉ u := fun e => hat (by simp [e])
            simp only [List.cons_append, distinct, List.mem_append, List.mem_singleton]
            have hbx : ¬ b = x := fun e => hxb e.symm
            by_cases hbu : b ∈ u
            · simp [hbu, ihu hxu]
            · simp [hbu, hbx, ihu hxu]
        simp [this]
      · by_cases hax : a = x
        · subst hax; exact absurd hxt hat
        · simp [hat, hax, ih hxt]

theorem distinct_append_singleton_not_mem (l : List Nat) (x : Nat) (h : x ∉ l) :
    (distinct (l ++ [x])).length = (distinct l).length + 1 := by
  induction l with
  | nil => simp [distinct]
  | cons b u ih =>
    have hxb : x ≠ b := fun e => h (by simp [e])
    have hxu : x ∉ u := fun e => h (by simp [e])
    have hbx : ¬ b = x := fun e => hxb e.symm
    simp only [List.cons_append, distinct, List.mem_append, List.mem_singleton]
    by_cases hbu : b ∈ u
    · simp [hbu, ih hxu]
    · simp [hbu, hbx, ih hxu]

end DS.Cpc

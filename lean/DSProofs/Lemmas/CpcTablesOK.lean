/- Obligations on the GENERATED compression tables (DSGen/Cpc.lean, regenerated from compression_data.hpp on every
   run): every Huffman table and the 65-symbol table is a prefix code with lengths 1..12 whose codewords fit their
   length; the 16 column permutations are permutations of 0..55 whose inverse (as `make_inverse_permutation`
   builds it) undoes them.  Checked by kernel evaluation (`decide +kernel`), no axioms. -/
import DSProofs.Lemmas.CpcCompress
import DSGen.Cpc
namespace DS.Cpc

def entryOK (e : Nat) : Bool := decide (1 ≤ e / 4096) && decide (e / 4096 ≤ 12) && decide (e % 4096 < 2^(e / 4096))

/-- two table entries whose codewords differ within the shorter length -/
def differ (e e' : Nat) : Bool :=
  e % 4096 % 2^(min (e / 4096) (e' / 4096)) != e' % 4096 % 2^(min (e / 4096) (e' / 4096))

def prefixFreeL : List Nat → Bool
  | [] => true
  | e :: t => t.all (differ e) && prefixFreeL t

def codeListOK (tab : List Nat) : Bool := tab.all entryOK && prefixFreeL tab

theorem prefixFreeL_spec (l : List Nat) (h : prefixFreeL l = true) (i j : Nat) (hij : i < j) (hj : j < l.length) :
    differ (l.getD i 0) (l.getD j 0) = true := by
  induction l generalizing i j with
  | nil => simp at hj
  | cons e t ih =>
    simp only [prefixFreeL, Bool.and_eq_true, List.all_eq_true] at h
    cases j with
    | zero => omega
    | succ j =>
      simp only [List.length_cons] at hj
      cases i with
      | zero =>
        simp only [List.getD_cons_zero, List.getD_cons_succ]
        apply h.1
        rw [List.getD_eq_getElem?_getD, List.getElem?_eq_getElem (by omega)]
        exact List.getElem_mem _
      | succ i =>
        simp only [List.getD_cons_succ]
        exact ih h.2 i j (by omega) (by omega)

theorem differ_of_matches (enc : Nat → Nat) (b b' x : Nat) (h1 : symMatches enc b x = true) (h2 : symMatches enc b' x = true) :
    differ (enc b) (enc b') = false := by
  unfold symMatches at h1 h2
  have e1 : x % 2^(enc b / 4096) = enc b % 4096 := by simpa using h1
  have e2 : x % 2^(enc b' / 4096) = enc b' % 4096 := by simpa using h2
  unfold differ
  rw [← e1, ← e2, Nat.mod_mod_of_dvd _ (Nat.pow_dvd_pow 2 (Nat.min_le_left _ _)),
    Nat.mod_mod_of_dvd _ (Nat.pow_dvd_pow 2 (Nat.min_le_right _ _))]
  simp

theorem differ_symm (e e' : Nat) : differ e e' = differ e' e := by
  unfold differ
  rw [Nat.min_comm]
  cases h : (e % 4096 % 2^(min (e' / 4096) (e / 4096)) == e' % 4096 % 2^(min (e' / 4096) (e / 4096))) <;>
    simp_all [bne, BEq.comm]

theorem codeOK_of_list (tab : List Nat) (h : codeListOK tab = true) : CodeOK (fun b => tab.getD b 0) tab.length := by
  simp only [codeListOK, Bool.and_eq_true, List.all_eq_true] at h
  have hent : ∀ b, b < tab.length → entryOK (tab.getD b 0) = true := by
    intro b hb
    apply h.1
    rw [List.getD_eq_getElem?_getD, List.getElem?_eq_getElem hb]
    exact List.getElem_mem _
  refine ⟨?_, ?_, ?_, ?_⟩
  · intro b hb; have := hent b hb; simp [entryOK] at this; exact this.1.1
  · intro b hb; have := hent b hb; simp [entryOK] at this; exact this.1.2
  · intro b hb; have := hent b hb; simp [entryOK] at this; exact this.2
  · intro b b' x hb hb' h1 h2
    have hd : differ (tab.getD b 0) (tab.getD b' 0) = false := differ_of_matches (fun b => tab.getD b 0) b b' x h1 h2
    apply Classical.byContradiction
    intro hne
    rcases Nat.lt_or_gt_of_ne hne with hlt | hgt
    · have := prefixFreeL_spec tab h.2 b b' hlt hb'
      rw [hd] at this; exact Bool.noConfusion this
    · have := prefixFreeL_spec tab h.2 b' b hgt hb
      rw [differ_symm] at this
      rw [hd] at this; exact Bool.noConfusion this

/-- the compression tables as generated from the headers -/
def genComp : CompTables :=
  { encTab := fun p b => (DSGen.cpc_ENC_TABLES.getD p []).getD b 0,
    unary65 := fun x => DSGen.cpc_UNARY65.getD x 0,
    perm := fun p c => (DSGen.cpc_COL_PERMS.getD p []).getD c 0 }

theorem gen_enc_shape : DSGen.cpc_ENC_TABLES.length = 22 ∧ DSGen.cpc_ENC_TABLES.all (fun t => t.length == 256) = true := by
  decide +kernel

theorem gen_enc_ok : DSGen.cpc_ENC_TABLES.all codeListOK = true := by decide +kernel

theorem gen_unary_ok : DSGen.cpc_UNARY65.length = 65 ∧ codeListOK DSGen.cpc_UNARY65 = true := by decide +kernel

theorem gen_perm_ok : (List.range 16).all (fun p => (List.range 56).all (fun c =>
    decide (genComp.perm p c < 56) && (invPerm (genComp.perm p) (genComp.perm p c) == c))) = true := by decide +kernel

/-- **the generated tables satisfy everything the lossless theorem needs** -/
theorem gen_tables_ok : TablesOK genComp := by
  refine ⟨?_, ?_, ?_, ?_⟩
  · intro p hp
    have hsh := gen_enc_shape
    have hall := gen_enc_ok
    rw [List.all_eq_true] at hall
    have hshl := hsh.2
    rw [List.all_eq_true] at hshl
    have hmem : DSGen.cpc_ENC_TABLES.getD p [] ∈ DSGen.cpc_ENC_TABLES := by
      rw [List.getD_eq_getElem?_getD, List.getElem?_eq_getElem (by rw [hsh.1]; exact hp)]
      exact List.getElem_mem _
    have h1 := codeOK_of_list _ (hall _ hmem)
    have h2 : (DSGen.cpc_ENC_TABLES.getD p []).length = 256 := by simpa using hshl _ hmem
    rw [h2] at h1
    exact h1
  · have h := gen_unary_ok
    have h1 := codeOK_of_list _ h.2
    rw [h.1] at h1
    exact h1
  · intro p c hp hc
    have h := gen_perm_ok
    rw [List.all_eq_true] at h
    have h1 := h p (List.mem_range.2 hp)
    rw [List.all_eq_true] at h1
    have h2 := h1 c (List.mem_range.2 hc)
    simp only [Bool.and_eq_true, decide_eq_true_eq] at h2
    exact h2.1
  · intro p c hp hc
    have h := gen_perm_ok
    rw [List.all_eq_true] at h
    have h1 := h p (List.mem_range.2 hp)
    rw [List.all_eq_true] at h1
    have h2 := h1 c (List.mem_range.2 hc)
    simp only [Bool.and_eq_true, decide_eq_true_eq] at h2
    simpa using h2.2

end DS.Cpc

/- C19 / FI part H: the iterator visits every active slot at most once (odd stride in a power-of-two table), and
   `merge(frequent_items_sketch&&)`. -/
import DSProofs.Lemmas.LifeFiG
namespace DS.Life.Fi
open DS.Life

/-! ### the stride orbit -/

/-- the `t`-th position of the iterator that started at `i0` -/
def pos (i0 str n t : Nat) : Nat := (i0 + t * str) % n

theorem pos_zero {i0 str n : Nat} (hi : i0 < n) : pos i0 str n 0 = i0 := by
  simp [pos, Nat.mod_eq_of_lt hi]

theorem pos_succ (i0 str n t : Nat) : (pos i0 str n t + str) % n = pos i0 str n (t + 1) := by
  unfold pos
  rw [Nat.mod_add_mod, Nat.succ_mul, Nat.add_assoc]

theorem pos_lt (i0 str : Nat) {n : Nat} (hn : 0 < n) (t : Nat) : pos i0 str n t < n := Nat.mod_lt _ hn

theorem pow2_dvd_of_odd {str : Nat} (hodd : str % 2 = 1) : ∀ lg d, 2 ^ lg ∣ d * str → 2 ^ lg ∣ d := by
  intro lg
  induction lg with
  | zero => intro d _; exact Nat.one_dvd d
  | succ lg ih =>
    intro d hd
    have h2 : (d * str) % 2 = 0 := by
      have : 2 ∣ d * str := Nat.dvd_trans ⟨2 ^ lg, by rw [Nat.pow_succ, Nat.mul_comm]⟩ hd
      exact Nat.mod_eq_zero_of_dvd this
    rw [Nat.mul_mod, hodd] at h2
    have hd2 : d % 2 = 0 := by
      rcases Nat.mod_two_eq_zero_or_one d with e | e
      · exact e
      · rw [e] at h2; simp at h2
    have hdd : d = 2 * (d / 2) := by have := Nat.div_add_mod d 2; omega
    rw [hdd, Nat.pow_succ, Nat.mul_comm (2 ^ lg) 2, Nat.mul_assoc] at hd
    have := ih (d / 2) (Nat.dvd_of_mul_dvd_mul_left (by omega) hd)
    rw [hdd, Nat.pow_succ, Nat.mul_comm (2 ^ lg) 2]
    exact Nat.mul_dvd_mul_left 2 this

theorem pos_inj {str : Nat} (hodd : str % 2 = 1) (i0 lg : Nat) {t1 t2 : Nat} (h1 : t1 < t2) (h2 : t2 < 2 ^ lg) :
    pos i0 str (2 ^ lg) t1 ≠ pos i0 str (2 ^ lg) t2 := by
  intro e
  unfold pos at e
  have hz := Nat.sub_mod_eq_zero_of_mod_eq e.symm
  have hsub : i0 + t2 * str - (i0 + t1 * str) = (t2 - t1) * str := by
    rw [Nat.sub_mul, Nat.add_sub_add_left]
  rw [hsub] at hz
  have hdvd := pow2_dvd_of_odd hodd lg (t2 - t1) (Nat.dvd_of_mod_eq_zero hz)
  have := Nat.le_of_dvd (by omega) hdvd
  omega

/-! ### counting along an injective enumeration -/

theorem cnt_inj_le (n : Nat) : ∀ (m : Nat) (f : Nat → Bool) (σ : Nat → Nat), (∀ t, t < n → σ t < m) →
    (∀ t1 t2, t1 < t2 → t2 < n → σ t1 ≠ σ t2) → cnt (fun t => f (σ t)) n ≤ cnt f m := by
  induction n with
  | zero => intro m f σ _ _; exact Nat.zero_le _
  | succ n ih =>
    intro m f σ hr hinj
    rw [cnt_succ]
    let f' : Nat → Bool := fun i => f i && (i != σ n)
    have h1 : cnt (fun t => f (σ t)) n = cnt (fun t => f' (σ t)) n := by
      apply cnt_congr
      intro t ht
      have : σ t ≠ σ n := hinj t n ht (by omega)
      simp [f', this]
    have h2 := ih m f' σ (fun t ht => hr t (by omega)) (fun t1 t2 a b => hinj t1 t2 a (by omega))
    cases hf : f (σ n) with
    | true =>
      have h3 : cnt f' m + 1 = cnt f m := by
        apply cnt_set_false (hr n (by omega)) hf
        · simp [f']
        · intro i hi; simp [f', hi]
      simp only [if_true]
      omega
    | false =>
      have h3 : cnt f' m = cnt f m := by
        apply cnt_congr
        intro i _
        by_cases hi : i = σ n
        · subst hi; simp [f', hf]
        · simp [f', hi]
      simp only [Bool.false_eq_true, if_false]
      omega

theorem cnt_add_not (f : Nat → Bool) (n : Nat) : cnt f n + cnt (fun i => !f i) n = n := by
  induction n with
  | zero => rfl
  | succ n ih =>
    rw [cnt_succ, cnt_succ]
    cases f n <;> simp <;> omega

theorem cnt_perm (f : Nat → Bool) (σ : Nat → Nat) (n : Nat) (hr : ∀ t, t < n → σ t < n)
    (hinj : ∀ t1 t2, t1 < t2 → t2 < n → σ t1 ≠ σ t2) : cnt (fun t => f (σ t)) n = cnt f n := by
  have a := cnt_inj_le n n f σ hr hinj
  have b := cnt_inj_le n n (fun i => !f i) σ hr hinj
  have c := cnt_add_not f n
  have d := cnt_add_not (fun t => f (σ t)) n
  omega

/-! ### the iterator along the orbit -/

theorem nextActive_orbit (S : Nat → Bool) (s n str i0 : Nat) (h : Heap) (hc : HasCells h s n) (hn : 0 < n) :
    ∀ f t, SafeF S h (nextActive s n str f (pos i0 str n t) h)
      (fun r h' => h' = h ∧ ∃ t', t < t' ∧ r = pos i0 str n t' ∧ act h s (pos i0 str n t') = true ∧
        ∀ t'', t < t'' → t'' < t' → act h s (pos i0 str n t'') = false) := by
  intro f
  induction f with
  | zero => intro _; exact SafeF.exc _
  | succ f ih =>
    intro t
    rw [nextActive_succ, pos_succ]
    obtain ⟨cs, ecs, ews, _⟩ := hc.cell_st (pos_lt i0 str hn (t + 1))
    apply step_readWord ecs
    by_cases hw : cs.word > 0
    · rw [if_pos hw]
      exact SafeF.pure ⟨rfl, t + 1, by omega, rfl, by simp [act]; omega, fun t'' a b => by omega⟩
    · rw [if_neg hw]
      refine SafeF.mono (ih (t + 1)) ?_
      intro r h' ⟨e, t', ht', hr, hact, hbetween⟩
      refine ⟨e, t', by omega, hr, hact, fun t'' a b => ?_⟩
      by_cases ht : t'' = t + 1
      · subst ht; simp [act]; omega
      · exact hbetween t'' (by omega) b

/-- the range-for over a map with an odd stride: the body runs on positions `pos t` of the orbit, each at most once -/
theorem iterLoop_orbit {σ : Type} {S : Nat → Bool} (s lg str na i0 : Nat) (hodd : str % 2 = 1) (body : Nat → σ → M σ)
    (act0 : Nat → Bool) (I : Nat → σ → Heap → Prop)
    (hI : ∀ t a h, I t a h → HasCells h s (2 ^ lg) ∧ act h s = act0)
    (hbody : ∀ t a h, t < 2 ^ lg → act0 (pos i0 str (2 ^ lg) t) = true → I t a h →
      SafeF S h (body (pos i0 str (2 ^ lg) t) a h) (fun a' h' => I (t + 1) a' h'))
    (hskip : ∀ t a h, I t a h → I (t + 1) a h) (hna : na = cnt act0 (2 ^ lg)) :
    ∀ f t c a h, f + c = na → t < 2 ^ lg → c = cnt (fun t' => act0 (pos i0 str (2 ^ lg) t')) t →
      act0 (pos i0 str (2 ^ lg) t) = true → I t a h →
      SafeF S h (iterLoop s (2 ^ lg) str na body f (pos i0 str (2 ^ lg) t) c a h) (fun a' h' => ∃ t', I t' a' h') := by
  have hn : 0 < 2 ^ lg := Nat.pow_pos (by omega)
  have hperm : cnt (fun t' => act0 (pos i0 str (2 ^ lg) t')) (2 ^ lg) = na := by
    rw [hna]
    exact cnt_perm act0 _ _ (fun t _ => pos_lt i0 str hn t) (fun t1 t2 a b => pos_inj hodd i0 lg a b)
  have hskips : ∀ d t a h, I t a h → I (t + d) a h := by
    intro d
    induction d with
    | zero => intro t a h hi; exact hi
    | succ d ihd => intro t a h hi; exact hskip _ _ _ (ihd t a h hi)
  intro f
  induction f with
  | zero =>
    intro t c a h _ _ _ _ hi
    exact SafeF.pure ⟨t, hi⟩
  | succ f ih =>
    intro t c a h hfc ht hc hact hi
    rw [iterLoop_succ, if_pos (by omega : c < na)]
    apply SafeF.bind_safe (hbody t a h ht hact hi)
    intro a' h' hi' _
    by_cases hcn : c + 1 < na
    · rw [if_pos hcn]
      obtain ⟨hcells, hacteq⟩ := hI _ _ _ hi'
      apply SafeF.bind_safe (nextActive_orbit S s (2 ^ lg) str i0 h' hcells hn (2 ^ lg) t)
      intro ix h'' ⟨e, t', htt', hix, hact', hbetween⟩ _
      subst e
      rw [hacteq] at hact' hbetween
      have hc1 : cnt (fun t' => act0 (pos i0 str (2 ^ lg) t')) (t + 1) = c + 1 := by
        rw [cnt_succ, hact, ← hc]; rfl
      have ht'n : t' < 2 ^ lg := by
        by_cases hlt : t' < 2 ^ lg
        · exact hlt
        · exfalso
          have := cnt_all_false (f := fun t' => act0 (pos i0 str (2 ^ lg) t')) (lo := t + 1) (hi := 2 ^ lg) (by omega)
            (fun i a b => hbetween i (by omega) (by omega))
          omega
      have hc' : c + 1 = cnt (fun t' => act0 (pos i0 str (2 ^ lg) t')) t' := by
        have := cnt_all_false (f := fun t' => act0 (pos i0 str (2 ^ lg) t')) (lo := t + 1) (hi := t') (by omega)
          (fun i a b => hbetween i (by omega) b)
        omega
      have hit' : I t' a' h'' := by
        have := hskips (t' - (t + 1)) (t + 1) a' h'' hi'
        have e : t + 1 + (t' - (t + 1)) = t' := by omega
        rw [e] at this
        exact this
      rw [hix]
      exact ih t' (c + 1) a' h'' (by omega) ht'n hc' hact' hit'
    · rw [if_neg hcn]
      exact SafeF.pure ⟨t + 1, hi'⟩

theorem forEachActive_orbit {σ : Type} {S : Nat → Bool} (P : Params) (m : Map) (s : Nat) (hs : m.states = some s)
    (hodd : P.strideOf m.lgCur % 2 = 1) (body : Nat → σ → M σ) (act0 : Nat → Bool) (I : Nat → Nat → σ → Heap → Prop)
    (hI : ∀ i0 t a h, I i0 t a h → HasCells h s (2 ^ m.lgCur) ∧ act h s = act0)
    (hbody : ∀ i0 t a h, i0 < 2 ^ m.lgCur → t < 2 ^ m.lgCur → act0 (pos i0 (P.strideOf m.lgCur) (2 ^ m.lgCur) t) = true →
      I i0 t a h → SafeF S h (body (pos i0 (P.strideOf m.lgCur) (2 ^ m.lgCur) t) a h) (fun a' h' => I i0 (t + 1) a' h'))
    (hskip : ∀ i0 t a h, I i0 t a h → I i0 (t + 1) a h)
    (a : σ) (h : Heap) (h0 : ∀ i0, I i0 0 a h) (hcnt : m.numActive = cnt act0 (2 ^ m.lgCur)) :
    SafeF S h (forEachActive P m body a h) (fun a' h' => ∃ i0 t, I i0 t a' h') := by
  rw [forEachActive_eq]
  by_cases hz : m.numActive = 0
  · rw [if_pos hz]
    exact SafeF.pure ⟨0, 0, h0 0⟩
  · rw [if_neg hz, hs]
    apply step_deref
    have hpos : 0 < 2 ^ m.lgCur := Nat.pow_pos (by omega)
    obtain ⟨hcells, hacteq⟩ := hI 0 0 a h (h0 0)
    apply SafeF.bind_safe (firstActive_spec S s (2 ^ m.lgCur) h hcells (by rw [hacteq]; omega) (2 ^ m.lgCur) 0 rfl
      (fun j hj => by omega))
    intro i0 h' ⟨e, hi0, hact⟩ _
    subst e
    rw [hacteq] at hact
    have hp0 := pos_zero (str := P.strideOf m.lgCur) hi0
    have := iterLoop_orbit (S := S) s m.lgCur (P.strideOf m.lgCur) m.numActive i0 hodd body act0 (I i0) (hI i0)
      (fun t a h ht => hbody i0 t a h hi0 ht) (hskip i0) hcnt m.numActive 0 0 a h' (by omega) hpos rfl
      (by rw [hp0]; exact hact) (h0 i0)
    rw [hp0] at this
    exact SafeF.mono this (fun a' h'' ⟨t, hi⟩ => ⟨i0, t, hi⟩)

/-! ### `merge(frequent_items_sketch&&)` -/

/-- the keys array of the merged-from map: slots not yet visited are as before, visited ones may be moved-from -/
def MI (P : Params) (h : Heap) (s o : Sketch) (ok str : Nat) (i0 t : Nat) (acc : Sketch) (hh : Heap) : Prop :=
  Usable P hh acc.map ∧ Grown h hh (owned s.map) (owned acc.map) [ok] ∧ hh.count? ok = h.count? ok ∧
  (∀ t', t ≤ t' → t' < 2 ^ o.map.lgCur →
    stAt hh ok (pos i0 str (2 ^ o.map.lgCur) t') = stAt h ok (pos i0 str (2 ^ o.map.lgCur) t')) ∧
  (∀ j, stAt hh ok j = stAt h ok j ∨ (stAt hh ok j = .moved ∧ stAt h ok j ≠ .raw))

theorem merge_move_spec (P : Params) (hP : P.OK) (hodd : ∀ lg, P.strideOf lg % 2 = 1) (n0 : Nat) (S : Nat → Bool)
    (hS : ∀ b, n0 ≤ b → S b = true) (s o : Sketch) (hSo : ∀ b, b ∈ owned s.map ++ owned o.map → S b = true) (h0 : Heap) :
    TripleS n0 S
      (fun h => h = h0 ∧ Usable P h s.map ∧ Usable P h o.map ∧ (∀ b, b ∈ owned s.map → b ∉ owned o.map) ∧ IdsLt h)
      (Sketch.merge P s o true)
      (fun s' h' => Usable P h' s'.map ∧ Inv P h' o.map ∧ Grown h0 h' (owned s.map) (owned s'.map) (owned o.map)) := by
  intro h hn ⟨he, hus, huo, hdis, hlt⟩
  subst he
  unfold Sketch.merge
  have hsids := hus.inv.owned_ids
  have g00 : Grown h h (owned s.map) (owned s.map) (owned o.map) :=
    Grown.of_sameBut (SameBut.refl _ _) hlt (fun b hb => (hsids b hb).1)
  by_cases hz : o.map.numActive = 0
  · rw [if_pos hz]
    exact SafeF.pure ⟨hus, huo.inv, g00⟩
  · rw [if_neg hz]
    obtain ⟨ok, ov, os, hok, hov, hos, hoo, T, hc⟩ := Usable.ptrs huo
    rw [hok, hov]
    apply step_deref
    apply step_deref
    have hoids := huo.inv.owned_ids
    have hokm : ok ∈ owned o.map := by rw [hoo]; simp
    have hovm : ov ∈ owned o.map := by rw [hoo]; simp
    have hosm : os ∈ owned o.map := by rw [hoo]; simp
    have hnots : ∀ b, b ∈ owned o.map → b ∉ owned s.map := fun b hb hm => hdis b hm hb
    have g0 : Grown h h (owned s.map) (owned s.map) [ok] :=
      Grown.of_sameBut (SameBut.refl _ _) hlt (fun b hb => (hsids b hb).1)
    -- the values / states arrays of the source are never touched
    have hfix : ∀ i0 t acc hh, MI P h s o ok (P.strideOf o.map.lgCur) i0 t acc hh →
        hh.find? ov = h.find? ov ∧ hh.find? os = h.find? os := by
      intro i0 t acc hh ⟨_, g, _⟩
      exact ⟨g.out ov (hnots ov hovm) (by simp; exact fun e => T.kv e.symm) (hoids ov hovm).2,
        g.out os (hnots os hosm) (by simp; exact fun e => T.ks e.symm) (hoids os hosm).2⟩
    have hinvo : ∀ i0 t acc hh, MI P h s o ok (P.strideOf o.map.lgCur) i0 t acc hh → Inv P hh o.map := by
      intro i0 t acc hh hmi
      obtain ⟨ev, es⟩ := hfix i0 t acc hh hmi
      obtain ⟨_, g, hcount, _, hmoved⟩ := hmi
      refine InvG.mk_some hok hov hos huo.lg huo.cap ?_ (by rw [act_congr es]; exact hc)
      refine ⟨by simpa only [HasCells, hcount] using T.ck, HasCells_congr ev T.cv, HasCells_congr es T.cs, T.kv, T.ks, T.vs,
        Nat.lt_of_lt_of_le T.ltk g.next, Nat.lt_of_lt_of_le T.ltv g.next, Nat.lt_of_lt_of_le T.lts g.next,
        fun j => by rw [stAt_congr ev]; exact T.rawv j, fun j => by rw [stAt_congr es]; exact T.raws j, ?_⟩
      intro j hj _
      have hsl := T.slot j hj (by simp)
      rcases hmoved j with e | ⟨e, hne⟩
      · exact ((SlotOK_congr (wordAt_congr es j) e).2 hsl).weak
      · rcases hsl with ⟨_, hr⟩ | ⟨hw, _, _⟩
        · exact absurd hr hne
        · exact Or.inr ⟨by rw [wordAt_congr es]; exact hw, by rw [e]; simp, fun x => by cases x⟩
    apply SafeF.bind_safe (forEachActive_orbit (S := S) P o.map os hos (hodd _) _ (act h os)
      (MI P h s o ok (P.strideOf o.map.lgCur)) ?_ ?_ ?_ s h
      (fun i0 => ⟨hus, g0, rfl, fun _ _ _ => rfl, fun _ => Or.inl rfl⟩) hc)
    · intro s' h' ⟨i0, t, hmi⟩ _
      apply SafeF.pure
      refine ⟨hmi.1, hinvo i0 t s' h' hmi, ?_⟩
      obtain ⟨_, g, _⟩ := hmi
      exact ⟨g.ids, g.fresh, g.next, g.lt, fun b hb hbo hbl => g.out b hb (by simp; exact fun e => hbo (e ▸ hokm)) hbl⟩
    · -- the invariant keeps the states array
      intro i0 t acc hh hmi
      obtain ⟨_, es⟩ := hfix i0 t acc hh hmi
      exact ⟨HasCells_congr es T.cs, act_congr es⟩
    · -- one `update(std::move(key), weight)`
      intro i0 t acc hh hi0 ht hact hmi
      obtain ⟨ev, es⟩ := hfix i0 t acc hh hmi
      obtain ⟨hua, ga, hcount, hsame, hmoved⟩ := hmi
      have hidx := pos_lt i0 (P.strideOf o.map.lgCur) (Nat.pow_pos (by omega) : 0 < 2 ^ o.map.lgCur) t
      obtain ⟨cv, ecv⟩ := (HasCells_congr ev T.cv).cell hidx
      apply step_readWord ecv
      simp only [if_true]
      have hwpos : 0 < wordAt h os (pos i0 (P.strideOf o.map.lgCur) (2 ^ o.map.lgCur) t) := by simpa [act] using hact
      obtain ⟨x, hx⟩ := (T.slot _ hidx (by simp)).live_of_pos hwpos
      have hoknot : ok ∉ owned acc.map := by
        intro hm
        rcases ga.fresh _ hm with e | e
        · exact hdis ok e hokm
        · have := (hoids ok hokm).2; omega
      have hsrc : SrcOK hh (owned acc.map) (.moveOf ok (pos i0 (P.strideOf o.map.lgCur) (2 ^ o.map.lgCur) t)) :=
        ⟨hoknot, x, by rw [hsame t (Nat.le_refl _) ht]; exact hx⟩
      have hSa : ∀ b, b ∈ owned acc.map ++ srcBlk (.moveOf ok (pos i0 (P.strideOf o.map.lgCur) (2 ^ o.map.lgCur) t)) →
          S b = true := by
        intro b hb
        simp only [srcBlk, List.mem_append, List.mem_cons, List.not_mem_nil, or_false] at hb
        rcases hb with hb | hb
        · rcases ga.fresh b hb with e | e
          · exact hSo b (by simp [e])
          · exact hS b (by omega)
        · exact hSo b (by rw [hb]; simp [hokm])
      refine SafeF.mono (update_spec P hP n0 S acc _ cv.word hS hSa hh hh (by have := ga.next; omega)
        ⟨rfl, hua, hsrc, ga.lt, fun b hb => by
          simp only [srcBlk, List.mem_cons, List.not_mem_nil, or_false] at hb
          have := (hoids ok hokm).2
          have := ga.next
          omega⟩) ?_
      intro acc' hh' ⟨hua', g', hmv⟩
      have hmv' : MovedAt hh hh' ok (pos i0 (P.strideOf o.map.lgCur) (2 ^ o.map.lgCur) t) := hmv
      refine ⟨hua', ga.trans g' hlt, hmv'.1.trans hcount, ?_, ?_⟩
      · intro t' h1 h2
        have hne := pos_inj (hodd o.map.lgCur) i0 o.map.lgCur (t1 := t) (t2 := t') (by omega) h2
        rw [hmv'.2.2.1 _ (Ne.symm hne)]
        exact hsame t' (by omega) h2
      · intro j
        by_cases hj : j = pos i0 (P.strideOf o.map.lgCur) (2 ^ o.map.lgCur) t
        · subst hj
          rcases hmv'.2.2.2 with e | e
          · rw [e]; exact hmoved _
          · exact Or.inr ⟨e, by rw [hx]; simp⟩
        · rw [hmv'.2.2.1 j hj]; exact hmoved j
    · -- inactive positions are skipped
      intro i0 t acc hh ⟨a1, a2, a3, a4, a5⟩
      exact ⟨a1, a2, a3, fun t' h1 h2 => a4 t' (by omega) h2, a5⟩

end DS.Life.Fi

/-
t-digest (C17), exact arithmetic: the centre part of `get_rank` (`rankMid`) on a sorted centroid list.
With `P l = Σ weights of l − (weight of the last element of l)/2` (the centre of the last centroid of the
prefix `l`, in weight units), `rankMid` is
  (A) for a value strictly between two means: the linear interpolation between `P lt` and `P (lt ++ [r0])`,
  (B) for a value equal to the means of the run `eq`: the midpoint of `P (lt ++ [eq.head])` and `P (lt ++ eq)`,
where `lt` are the centroids below the value.  `P` is monotone along prefixes, which gives range and monotonicity.
-/
import DSProofs.Lemmas.TDigestExt
namespace DS.TDigest
open Num Conv

/-! ### list facts -/

theorem takeWhile_append_all {β : Type} (p : β → Bool) (l1 l2 : List β) (h : ∀ c ∈ l1, p c = true) :
    (l1 ++ l2).takeWhile p = l1 ++ l2.takeWhile p := by
  induction l1 with
  | nil => rfl
  | cons a l ih =>
    have ha := h a (List.mem_cons_self ..)
    simp only [List.cons_append, List.takeWhile_cons, ha, if_true]
    rw [ih (fun c hc => h c (List.mem_cons_of_mem _ hc))]

theorem dropWhile_append_all {β : Type} (p : β → Bool) (l1 l2 : List β) (h : ∀ c ∈ l1, p c = true) :
    (l1 ++ l2).dropWhile p = l2.dropWhile p := by
  induction l1 with
  | nil => rfl
  | cons a l ih =>
    have ha := h a (List.mem_cons_self ..)
    simp only [List.cons_append, List.dropWhile_cons, ha, if_true]
    rw [ih (fun c hc => h c (List.mem_cons_of_mem _ hc))]

theorem takeWhile_stop {β : Type} (p : β → Bool) (l1 : List β) (a : β) (l2 : List β)
    (h : ∀ c ∈ l1, p c = true) (ha : p a = false) : (l1 ++ a :: l2).takeWhile p = l1 := by
  rw [takeWhile_append_all p l1 _ h]; simp [ha]

theorem dropWhile_stop {β : Type} (p : β → Bool) (l1 : List β) (a : β) (l2 : List β)
    (h : ∀ c ∈ l1, p c = true) (ha : p a = false) : (l1 ++ a :: l2).dropWhile p = a :: l2 := by
  rw [dropWhile_append_all p l1 _ h]; simp [ha]

theorem takeWhile_all {β : Type} (p : β → Bool) (l : List β) (h : ∀ c ∈ l, p c = true) : l.takeWhile p = l := by
  have := takeWhile_append_all p l [] h
  simpa using this

theorem dropWhile_all {β : Type} (p : β → Bool) (l : List β) (h : ∀ c ∈ l, p c = true) : l.dropWhile p = [] := by
  have := dropWhile_append_all p l [] h
  simpa using this

/-- `acc + Σ weights`, the accumulation loops of get_rank -/
theorem sumW_eq (l : List C) (acc : Rat) : sumW l acc = acc + (sumWeights l : Rat) := by
  induction l generalizing acc with
  | nil => simp [sumW]
  | cons c t ih =>
    simp only [sumW, List.foldl_cons] at ih ⊢
    rw [ih]; simp; ring

/-! ### the decomposition of a sorted list at a value -/

/-- `cs = lt ++ eq ++ gt` with means `< x`, `= x`, `> x` -/
structure Split (cs : List C) (x : Rat) (lt eq gt : List C) : Prop where
  eqn : cs = lt ++ eq ++ gt
  hlt : ∀ c ∈ lt, c.mean < x
  heq : ∀ c ∈ eq, c.mean = x
  hgt : ∀ c ∈ gt, x < c.mean

theorem split_exists {cs : List C} (hs : Sorted cs) (x : Rat) : ∃ lt eq gt, Split cs x lt eq gt := by
  induction cs with
  | nil => exact ⟨[], [], [], ⟨rfl, by simp, by simp, by simp⟩⟩
  | cons c cs ih =>
    unfold Sorted at hs
    rw [List.pairwise_cons] at hs
    obtain ⟨lt, eq, gt, h⟩ := ih hs.2
    rcases lt_trichotomy c.mean x with hc | hc | hc
    · exact ⟨c :: lt, eq, gt, ⟨by rw [h.eqn]; rfl, by
        intro d hd; rcases List.mem_cons.1 hd with rfl | hd
        · exact hc
        · exact h.hlt d hd, h.heq, h.hgt⟩⟩
    · -- c.mean = x: nothing after c is below x
      have hlt : lt = [] := by
        cases lt with
        | nil => rfl
        | cons d lt =>
          have hd := h.hlt d (List.mem_cons_self ..)
          have := hs.1 d (by rw [h.eqn]; simp)
          linarith
      subst hlt
      exact ⟨[], c :: eq, gt, ⟨by rw [h.eqn]; rfl, by simp, by
        intro d hd; rcases List.mem_cons.1 hd with rfl | hd
        · exact hc
        · exact h.heq d hd, h.hgt⟩⟩
    · have hlt : lt = [] := by
        cases lt with
        | nil => rfl
        | cons d lt =>
          have hd := h.hlt d (List.mem_cons_self ..)
          have := hs.1 d (by rw [h.eqn]; simp)
          linarith
      have heq : eq = [] := by
        cases eq with
        | nil => rfl
        | cons d eq =>
          have hd := h.heq d (List.mem_cons_self ..)
          have := hs.1 d (by rw [h.eqn]; simp)
          linarith
      subst hlt; subst heq
      exact ⟨[], [], c :: gt, ⟨by rw [h.eqn]; rfl, by simp, by simp, by
        intro d hd; rcases List.mem_cons.1 hd with rfl | hd
        · exact hc
        · exact h.hgt d hd⟩⟩

variable {cs lt eq gt : List C} {x : Rat}

theorem Split.takeLt (h : Split cs x lt eq gt) : cs.takeWhile (fun c => c.mean <. x) = lt := by
  rw [h.eqn, List.append_assoc]
  cases hr : eq ++ gt with
  | nil => rw [List.append_nil]; exact takeWhile_all _ _ (fun c hc => by simpa using h.hlt c hc)
  | cons a t =>
    apply takeWhile_stop _ _ _ _ (fun c hc => by simpa using h.hlt c hc)
    have ha : a ∈ eq ++ gt := by rw [hr]; exact List.mem_cons_self ..
    rcases List.mem_append.1 ha with h1 | h1
    · simp [h.heq a h1]
    · simp; exact (h.hgt a h1).le

theorem Split.dropLt (h : Split cs x lt eq gt) : cs.dropWhile (fun c => c.mean <. x) = eq ++ gt := by
  rw [h.eqn, List.append_assoc]
  cases hr : eq ++ gt with
  | nil => rw [List.append_nil]; exact dropWhile_all _ _ (fun c hc => by simpa using h.hlt c hc)
  | cons a t =>
    apply dropWhile_stop _ _ _ _ (fun c hc => by simpa using h.hlt c hc)
    have ha : a ∈ eq ++ gt := by rw [hr]; exact List.mem_cons_self ..
    rcases List.mem_append.1 ha with h1 | h1
    · simp [h.heq a h1]
    · simp; exact (h.hgt a h1).le

theorem Split.takeEq (h : Split cs x lt eq gt) : (eq ++ gt).takeWhile (fun c => !(x <. c.mean)) = eq := by
  cases gt with
  | nil => rw [List.append_nil]; exact takeWhile_all _ _ (fun c hc => by simp [h.heq c hc])
  | cons a t =>
    apply takeWhile_stop _ _ _ _ (fun c hc => by simp [h.heq c hc])
    simp; exact h.hgt a (List.mem_cons_self ..)

theorem Split.dropEq (h : Split cs x lt eq gt) : (eq ++ gt).dropWhile (fun c => !(x <. c.mean)) = gt := by
  cases gt with
  | nil => rw [List.append_nil]; exact dropWhile_all _ _ (fun c hc => by simp [h.heq c hc])
  | cons a t =>
    apply dropWhile_stop _ _ _ _ (fun c hc => by simp [h.heq c hc])
    simp; exact h.hgt a (List.mem_cons_self ..)

/-- the splits of a sorted list at `x < y` are nested -/
theorem Split.mono {lt' eq' gt' : List C} {y : Rat} (h : Split cs x lt eq gt) (h' : Split cs y lt' eq' gt')
    (hxy : x < y) : ∃ m, lt' = lt ++ eq ++ m := by
  have h1 := h'.takeLt
  rw [h.eqn, takeWhile_append_all _ (lt ++ eq) gt] at h1
  · exact ⟨_, h1.symm⟩
  · intro c hc
    rcases List.mem_append.1 hc with hc | hc
    · simpa using lt_trans (h.hlt c hc) hxy
    · simpa [h.heq c hc] using hxy

/-! ### centre positions -/

/-- centre (in weight units) of the last centroid of the prefix `l` -/
def P (l : List C) : Rat :=
  match l.getLast? with
  | some e => (sumWeights l : Rat) - (e.weight : Rat) / 2
  | none => 0

theorem P_append_singleton (l : List C) (e : C) : P (l ++ [e]) = (sumWeights l : Rat) + (e.weight : Rat) / 2 := by
  unfold P
  simp; ring

theorem P_nonneg (l : List C) : 0 ≤ P l := by
  unfold P
  cases h : l.getLast? with
  | none => exact le_refl _
  | some e =>
    obtain ⟨l', rfl⟩ : ∃ l', l = l' ++ [e] := by
      have := List.getLast?_eq_some_iff.1 h
      obtain ⟨l', hl⟩ := this
      exact ⟨l', hl⟩
    simp
    have h1 : (0 : Rat) ≤ (sumWeights l' : Rat) := Nat.cast_nonneg _
    have h2 : (0 : Rat) ≤ (e.weight : Rat) := Nat.cast_nonneg _
    linarith

theorem P_le_sum (l : List C) : P l ≤ (sumWeights l : Rat) := by
  unfold P
  cases h : l.getLast? with
  | none => exact Nat.cast_nonneg _
  | some e =>
    have h2 : (0 : Rat) ≤ (e.weight : Rat) := Nat.cast_nonneg _
    simp only []; linarith

/-- `P` is monotone along prefixes -/
theorem P_mono (l m : List C) (_hl : l ≠ []) : P l ≤ P (l ++ m) := by
  rcases List.eq_nil_or_concat m with rfl | ⟨m', e, rfl⟩
  · simp
  · rw [List.concat_eq_append, ← List.append_assoc, P_append_singleton]
    have h1 := P_le_sum l
    have h2 : (0 : Rat) ≤ (sumWeights m' : Rat) := Nat.cast_nonneg _
    have h3 : (0 : Rat) ≤ (e.weight : Rat) := Nat.cast_nonneg _
    simp; linarith

/-! ### evaluation of `rankMid` -/

/-- (B): the value equals the means of the run `eq = e0 :: … = … ++ [e1]` -/
theorem rankMid_eq (h : Split cs x lt eq gt) (cwD : Rat) {e0 e1 : C} {t i : List C}
    (h0 : eq = e0 :: t) (h1 : eq = i ++ [e1]) :
    rankMid cs cwD x = some ((P (lt ++ [e0]) + P (lt ++ eq)) / 2 / cwD) := by
  unfold rankMid
  simp only [h.takeLt, h.dropLt]
  have hx0 : e0.mean = x := h.heq e0 (by rw [h0]; exact List.mem_cons_self ..)
  have hx1 : e1.mean = x := h.heq e1 (by rw [h1]; simp)
  have hrest : eq ++ gt = e0 :: (t ++ gt) := by rw [h0]; rfl
  rw [hrest]
  simp only []
  rw [← hrest, h.takeEq, h.dropEq]
  have hnlt : (x <. e0.mean) = false := by simp [hx0]
  simp only [hnlt, Bool.false_eq_true, if_false]
  have hlast : eq.getLast? = some e1 := by rw [h1]; simp
  rw [hlast]
  simp only []
  have hstep : (gt.isEmpty || !(e1.mean <. x)) = true := by simp [hx1]
  simp only [hstep, if_true]
  have hdrop : eq.dropLast = i := by rw [h1]; simp
  have hd : ((Num.ofNat 0 : Rat) <. (e1.mean -. e0.mean)) = false := by simp [hx0, hx1]
  simp only [hd, Bool.false_eq_true, if_false, hdrop]
  congr 1
  simp only [sumW_eq, rat_add, rat_sub, rat_div, rat_ofNat]
  rw [P_append_singleton]
  unfold P
  rw [List.getLast?_append_of_ne_nil _ (by rw [h1]; simp), hlast]
  simp only []
  rw [h1]
  simp; ring

/-- (A): the value lies strictly between the last centroid `lo` below it and the first centroid `r0` above it -/
theorem rankMid_between (h : Split cs x lt [] gt) (cwD : Rat) {lo r0 : C} {i t : List C}
    (hl : lt = i ++ [lo]) (hg : gt = r0 :: t) :
    rankMid cs cwD x = some ((P lt + (P (lt ++ [r0]) - P lt) * ((x - lo.mean) / (r0.mean - lo.mean))) / cwD) := by
  unfold rankMid
  simp only [h.takeLt, h.dropLt, List.nil_append]
  rw [hg]
  simp only []
  have hx0 : x < r0.mean := h.hgt r0 (by rw [hg]; exact List.mem_cons_self ..)
  have hlo : lo.mean < x := h.hlt lo (by rw [hl]; simp)
  have hlt' : (x <. r0.mean) = true := by simpa using hx0
  simp only [hlt', if_true]
  have hlast : lt.getLast? = some lo := by rw [hl]; simp
  rw [hlast]
  simp only []
  have hd : ((Num.ofNat 0 : Rat) <. (r0.mean -. lo.mean)) = true := by simp; linarith
  simp only [hd, if_true]
  congr 1
  have hdrop : lt.dropLast = i := by rw [hl]; simp
  rw [hdrop]
  simp only [sumW_eq, rat_add, rat_sub, rat_div, rat_mul, rat_ofNat, rat_up]
  rw [P_append_singleton]
  unfold P
  rw [hlast]
  simp only []
  rw [hl]
  simp; ring

end DS.TDigest

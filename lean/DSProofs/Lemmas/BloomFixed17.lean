/- Repaired model: serialize into a fresh block preserves the invariant. -/
import DSProofs.Lemmas.BloomFixed16
namespace DS.Bloom

variable {ι : Type} [DecidableEq ι] (P : Params) (hf : ι → Nat → Option (Nat × Nat))

theorem good_ser (hP : P.Wire) (w : World) (p : PGhost ι) (hg : Good P hf w p) (v m : Nat) :
    Good P hf (opSer P w v m).1 (pstep hf p w (opSer P w v m).1 (opSer P w v m).2 (.ser v m)) := by
  cases hv : w.filters v with
  | none => simp only [opSer, pstep, hv]; exact hg
  | some f =>
  obtain ⟨i, hi⟩ := hg.tracked v f hv
  cases hbm : w.blocks m with
  | some b0 => simp only [opSer, pstep, hv, hi, hbm]; exact hg
  | none =>
  simp only [opSer, pstep, hv, hi, hbm]
  have hok := hg.view v f i hv hi
  have hw := hg.fwf v f hv
  -- no view lives on the fresh block
  have hnv : ∀ u fu, w.filters u = some fu → keyOf u fu ≠ .mem m := by
    intro u fu h' e
    obtain ⟨hr, _⟩ := keyOf_mem_of_eq e
    obtain ⟨b, hb'⟩ := hg.memref u fu m h' hr
    rw [hbm] at hb'; cases hb'
  generalize hokdef : (i.promised && !(p.si (keyOf v f)).tainted && inSync p v f i) = ok
  refine ⟨hg.tracked, hg.fwf, ?_, ?_, ?_, ?_, ?_⟩
  · intro u fu iu h' hi'
    have hk := hnv u fu h'
    exact view_transfer hg u fu iu h' hi' (keyVal_setBlock_ne_mem _ _ _ _ hk) (setS_si_ne _ _ hk)
  · intro m' b' hb' ht
    by_cases e : m' = m
    · subst e
      simp only [World.setBlock, if_true, Option.some.injEq] at hb'
      subst hb'
      simp only [setS_si_same] at ht ⊢
      have hokt : ok = true := by simpa using ht
      rw [hokt]; simp only [if_true]
      rw [← hokdef] at hokt
      simp only [Bool.and_eq_true, Bool.not_eq_true'] at hokt
      obtain ⟨⟨hp, _⟩, hins⟩ := hokt
      rw [inSync_eq] at hins
      by_cases he : f.isEmpty = true
      · left
        have hpe := parse_image_empty P hP w f hw (hok.k1 hp) he
        have hcb : f.capBits ≤ 2 ^ 32 - 64 := by have := (hok.k1 hp).2; have := hw.cap64; omega
        refine ⟨_, _, _, hpe, ?_, hcb⟩
        cases hM : i.M with
        | nil => rfl
        | cons a t =>
          have := hok.ne (by rw [hM]; simp)
          rw [he] at this; cases this
      · have he' : f.isEmpty = false := by simpa using he
        right
        have hbits : ∀ j, j < f.capBits → (image P w f).val.testBit (256 + j) = (w.val f).testBit (f.off P + j) :=
          fun j hj => image_bit P w f he' j hj
        have hpc : popCount (image P w f).val 256 f.capBits = popCount (w.val f) (f.off P) f.capBits :=
          popCount_congr _ _ _ _ _ hbits
        refine ⟨_, _, _, _, _, parse_image_full P hP w f hw (hok.k1 hp) he', hok.k1 hp, ?_, ?_, hok.hs⟩
        · by_cases hd : f.dirty = true
          · left; simp only [hd, if_true]; rw [hP.dirty]
          · right
            have hd' : f.dirty = false := by simpa using hd
            simp only [hd', Bool.false_eq_true, if_false]
            have hex := hok.ex hp hins hd'
            rw [← val_eq_keyVal w v f hv] at hex
            rw [hpc, ← hex]
            have := popCount_le (w.val f) (f.off P) f.capBits
            have := hw.capLt
            exact Nat.mod_eq_of_lt (by omega)
        · have hc := hok.cov
          rw [← val_eq_keyVal w v f hv] at hc
          exact hc.mono hw.capPos (fun j hj hb => by rw [hbits j hj]; exact hb)
    · have hk : Key.mem m' ≠ Key.mem m := by intro h; injection h with h; exact e h
      simp only [World.setBlock, e, if_false] at hb'
      rw [setS_si_ne _ _ hk] at ht ⊢
      exact hg.blk m' b' hb' ht
  · intro m' ht
    by_cases e : m' = m
    · subst e
      simp only [setS_si_same] at ht ⊢
      have : ok = false := by simpa using ht
      rw [this]; rfl
    · have hk : Key.mem m' ≠ Key.mem m := by intro h; injection h with h; exact e h
      rw [setS_si_ne _ _ hk] at ht ⊢
      exact hg.taintS m' ht
  · intro u fu m' h' hr'
    obtain ⟨b0, hb0⟩ := hg.memref u fu m' h' hr'
    by_cases e : m' = m
    · subst e; rw [hbm] at hb0; cases hb0
    · exact ⟨b0, by simp [World.setBlock, e, hb0]⟩
  · intro u fu iu m' b' h' hi' hr' hb' hpu hin
    have hku : keyOf u fu = .mem m' := by simp [keyOf, hr']
    have e : m' ≠ m := by intro e; subst e; exact hnv u fu h' hku
    have hk : Key.mem m' ≠ Key.mem m := by intro h; injection h with h; exact e h
    simp only [World.setBlock, e, if_false] at hb'
    rw [setS_si_ne _ _ hk] at hin
    exact hg.memfull u fu iu m' b' h' hi' hr' hb' hpu hin

end DS.Bloom

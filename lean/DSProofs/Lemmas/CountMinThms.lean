/-
Stream-level lemmas for the count-min model under the weight laws: the row minimum, the brackets of a cell's
exact count (non-negative and signed streams), additivity over concatenation (merge), the round trip, the
constructor.
-/
import DSProofs.Lemmas.CountMinCells
namespace DS.CountMin
set_option linter.unusedSectionVars false

variable {W : Type} [Weight W] [L : WeightLaws W] {ι : Type}
open WeightLaws

/-! ### the row minimum -/

theorem minW_eq (a b : W) : minW a b = a ∨ minW a b = b := by
  unfold minW; split <;> simp

theorem minW_le_left (a b : W) : minW a b ≤ʷ a := by
  unfold minW; split
  · rename_i hl; exact le_of_not_le ((lt_iff b a).1 hl)
  · exact le_refl a

theorem minW_le_right (a b : W) : minW a b ≤ʷ b := by
  unfold minW; split
  · exact le_refl b
  · rename_i hl
    exact Classical.not_not.mp (fun hn => hl ((lt_iff b a).2 hn))

theorem foldl_minW_mem : ∀ (vs : List W) (v : W), vs.foldl minW v ∈ v :: vs
  | [], v => by simp
  | u :: vs, v => by
    rw [List.foldl_cons]
    have := foldl_minW_mem vs (minW v u)
    rcases List.mem_cons.1 this with e | e
    · rcases minW_eq v u with e2 | e2
      · rw [e, e2]; exact List.mem_cons_self
      · rw [e, e2]; exact List.mem_cons_of_mem _ List.mem_cons_self
    · exact List.mem_cons_of_mem _ (List.mem_cons_of_mem _ e)

theorem foldl_minW_le_init : ∀ (vs : List W) (v : W), vs.foldl minW v ≤ʷ v
  | [], v => le_refl v
  | u :: vs, v => by
    rw [List.foldl_cons]
    exact le_trans (foldl_minW_le_init vs (minW v u)) (minW_le_left v u)

theorem foldl_minW_le : ∀ (vs : List W) (v u : W), u ∈ v :: vs → vs.foldl minW v ≤ʷ u
  | vs, v, u, hu => by
    rcases List.mem_cons.1 hu with rfl | hu
    · exact foldl_minW_le_init vs u
    · induction vs generalizing v with
      | nil => cases hu
      | cons t vs ih =>
        rw [List.foldl_cons]
        rcases List.mem_cons.1 hu with rfl | hu'
        · exact le_trans (foldl_minW_le_init vs (minW v u)) (minW_le_right v u)
        · exact ih (minW v t) (List.mem_cons_of_mem _ hu') hu'

/-- `get_estimate` returns the value of one of the rows ... -/
theorem estimate_mem (h : ι → Nat → Nat) (s : St W) (x : ι) (hnh : 0 < s.cfg.numHashes) :
    ∃ r, r < s.cfg.numHashes ∧ estimate h s x = cellAt h s x r := by
  unfold estimate
  generalize hl : rowVals h s x = l
  cases l with
  | nil =>
    exfalso
    have : (rowVals h s x).length = s.cfg.numHashes := by simp [rowVals]
    rw [hl] at this; simp at this; omega
  | cons v vs =>
    simp only
    have hm := foldl_minW_mem vs v
    rw [← hl] at hm
    unfold rowVals at hm
    obtain ⟨r, hr, he⟩ := List.mem_map.1 hm
    exact ⟨r, List.mem_range.1 hr, he.symm⟩

/-- ... and it is below the value of every row -/
theorem estimate_le_row (h : ι → Nat → Nat) (s : St W) (x : ι) {r : Nat} (hr : r < s.cfg.numHashes) :
    estimate h s x ≤ʷ cellAt h s x r := by
  unfold estimate
  generalize hl : rowVals h s x = l
  have hmem : cellAt h s x r ∈ l := by
    rw [← hl]; unfold rowVals; exact List.mem_map.2 ⟨r, List.mem_range.2 hr, rfl⟩
  cases l with
  | nil => cases hmem
  | cons v vs => exact foldl_minW_le vs v _ hmem

/-! ### accumulators -/

/-- running Σ|w| started at `v` -/
def totalAcc (v : W) (ops : List (ι × W)) : W := ops.foldl (fun acc o => Weight.add acc (Weight.absw o.2)) v
def trueAcc [DecidableEq ι] (x : ι) (v : W) (ops : List (ι × W)) : W :=
  ops.foldl (fun acc o => if o.1 = x then Weight.add acc o.2 else acc) v
def negAcc [DecidableEq ι] (x : ι) (v : W) (ops : List (ι × W)) : W :=
  ops.foldl (fun acc o => if o.1 ≠ x ∧ nonnegW o.2 = false then Weight.add acc (Weight.absw o.2) else acc) v
def posAcc [DecidableEq ι] (x : ι) (v : W) (ops : List (ι × W)) : W :=
  ops.foldl (fun acc o => if o.1 ≠ x ∧ nonnegW o.2 = true then Weight.add acc o.2 else acc) v

theorem totalAbs_eq (ops : List (ι × W)) : totalAbs ops = totalAcc 𝟘 ops := rfl
theorem trueWeight_eq [DecidableEq ι] (x : ι) (ops : List (ι × W)) : trueWeight x ops = trueAcc x 𝟘 ops := rfl
theorem negOther_eq [DecidableEq ι] (x : ι) (ops : List (ι × W)) : negOther x ops = negAcc x 𝟘 ops := rfl
theorem posOther_eq [DecidableEq ι] (x : ι) (ops : List (ι × W)) : posOther x ops = posAcc x 𝟘 ops := rfl

theorem cellAcc_cons (c : Cfg) (h : ι → Nat → Nat) (i : Nat) (v : W) (o : ι × W) (ops : List (ι × W)) :
    cellAcc c h i v (o :: ops) = cellAcc c h i (if hits c h o.1 i then v +ʷ o.2 else v) ops := rfl
theorem totalAcc_cons (v : W) (o : ι × W) (ops : List (ι × W)) :
    totalAcc v (o :: ops) = totalAcc (v +ʷ Weight.absw o.2) ops := rfl
theorem trueAcc_cons [DecidableEq ι] (x : ι) (v : W) (o : ι × W) (ops : List (ι × W)) :
    trueAcc x v (o :: ops) = trueAcc x (if o.1 = x then v +ʷ o.2 else v) ops := rfl
theorem negAcc_cons [DecidableEq ι] (x : ι) (v : W) (o : ι × W) (ops : List (ι × W)) :
    negAcc x v (o :: ops) = negAcc x (if o.1 ≠ x ∧ nonnegW o.2 = false then v +ʷ Weight.absw o.2 else v) ops := rfl
theorem posAcc_cons [DecidableEq ι] (x : ι) (v : W) (o : ι × W) (ops : List (ι × W)) :
    posAcc x v (o :: ops) = posAcc x (if o.1 ≠ x ∧ nonnegW o.2 = true then v +ʷ o.2 else v) ops := rfl

/-- Σ|w| ≥ 0 -/
theorem totalAcc_nonneg : ∀ (ops : List (ι × W)) (v : W), (𝟘 : W) ≤ʷ v → (𝟘 : W) ≤ʷ totalAcc v ops
  | [], _, hv => hv
  | o :: ops, v, hv => by
    rw [totalAcc_cons]; exact totalAcc_nonneg ops _ (add_nonneg hv (absw_nonneg o.2))

/-- non-negative stream: the true weight of `x` is below the exact count of every cell `x` hits -/
theorem trueAcc_le_cellAcc [DecidableEq ι] (c : Cfg) (h : ι → Nat → Nat) (x : ι) (i : Nat) (hx : hits c h x i = true) :
    ∀ (ops : List (ι × W)) (A B : W), (∀ o ∈ ops, (𝟘 : W) ≤ʷ o.2) → A ≤ʷ B → trueAcc x A ops ≤ʷ cellAcc c h i B ops
  | [], _, _, _, hab => hab
  | o :: ops, A, B, hpos, hab => by
    rw [trueAcc_cons, cellAcc_cons]
    apply trueAcc_le_cellAcc c h x i hx ops _ _ (fun o' ho' => hpos o' (List.mem_cons_of_mem _ ho'))
    have hw := hpos o List.mem_cons_self
    by_cases hox : o.1 = x
    · rw [if_pos hox, hox, if_pos hx]; exact add_le_add_right _ hab
    · rw [if_neg hox]
      by_cases hh : hits c h o.1 i = true
      · rw [if_pos hh]; exact le_add_of_le hab hw
      · rw [if_neg hh]; exact hab

/-- any stream: a cell's exact count is at most Σ|w| ... -/
theorem cellAcc_le_totalAcc (c : Cfg) (h : ι → Nat → Nat) (i : Nat) :
    ∀ (ops : List (ι × W)) (A B : W), A ≤ʷ B → cellAcc c h i A ops ≤ʷ totalAcc B ops
  | [], _, _, hab => hab
  | o :: ops, A, B, hab => by
    rw [cellAcc_cons, totalAcc_cons]
    apply cellAcc_le_totalAcc c h i ops
    by_cases hh : hits c h o.1 i = true
    · rw [if_pos hh]; exact add_le_add hab (le_absw o.2)
    · rw [if_neg hh]; exact le_add_of_le hab (absw_nonneg o.2)

theorem add_add_add_comm (a b c d : W) : (a +ʷ b) +ʷ (c +ʷ d) = (a +ʷ c) +ʷ (b +ʷ d) := by
  rw [add_assoc, ← add_assoc b c d, add_comm b c, add_assoc c b d, ← add_assoc]

/-- ... and at least −Σ|w| (stated without subtraction) -/
theorem cellAcc_add_totalAcc_nonneg (c : Cfg) (h : ι → Nat → Nat) (i : Nat) :
    ∀ (ops : List (ι × W)) (A B : W), (𝟘 : W) ≤ʷ (A +ʷ B) → (𝟘 : W) ≤ʷ (cellAcc c h i A ops +ʷ totalAcc B ops)
  | [], _, _, hab => hab
  | o :: ops, A, B, hab => by
    rw [cellAcc_cons, totalAcc_cons]
    apply cellAcc_add_totalAcc_nonneg c h i ops
    by_cases hh : hits c h o.1 i = true
    · rw [if_pos hh, add_add_add_comm]; exact add_nonneg hab (add_absw_nonneg o.2)
    · rw [if_neg hh, ← add_assoc]; exact add_nonneg hab (absw_nonneg o.2)

/-- signed stream, lower side: true weight ≤ cell + Σ|negative weights of other items| -/
theorem trueAcc_le_cellAcc_add_negAcc [DecidableEq ι] (c : Cfg) (h : ι → Nat → Nat) (x : ι) (i : Nat)
    (hx : hits c h x i = true) :
    ∀ (ops : List (ι × W)) (T C N : W), T ≤ʷ (C +ʷ N) → trueAcc x T ops ≤ʷ (cellAcc c h i C ops +ʷ negAcc x N ops)
  | [], _, _, _, hab => hab
  | o :: ops, T, C, N, hab => by
    rw [trueAcc_cons, cellAcc_cons, negAcc_cons]
    apply trueAcc_le_cellAcc_add_negAcc c h x i hx ops
    by_cases hox : o.1 = x
    · have hn : ¬ (o.1 ≠ x ∧ nonnegW o.2 = false) := fun hc => hc.1 hox
      rw [if_pos hox, if_neg hn, hox, if_pos hx, add_right_comm]
      exact add_le_add_right _ hab
    · rw [if_neg hox]
      by_cases hw : nonnegW o.2 = true
      · have hn : ¬ (o.1 ≠ x ∧ nonnegW o.2 = false) := fun hc => by rw [hw] at hc; exact absurd hc.2 (by simp)
        rw [if_neg hn]
        by_cases hh : hits c h o.1 i = true
        · rw [if_pos hh, add_right_comm]; exact le_add_of_le hab ((nonnegW_iff _).1 hw)
        · rw [if_neg hh]; exact hab
      · have hw' : nonnegW o.2 = false := by simpa using hw
        have hneg : ¬ (𝟘 : W) ≤ʷ o.2 := fun hc => hw ((nonnegW_iff _).2 hc)
        rw [if_pos (show o.1 ≠ x ∧ nonnegW o.2 = false from ⟨hox, hw'⟩)]
        by_cases hh : hits c h o.1 i = true
        · rw [if_pos hh, add_add_add_comm, absw_of_neg hneg, add_zero]; exact hab
        · rw [if_neg hh, ← add_assoc]; exact le_add_of_le hab (absw_nonneg _)

/-- signed stream, upper side: cell ≤ true weight + Σ non-negative weights of other items -/
theorem cellAcc_le_trueAcc_add_posAcc [DecidableEq ι] (c : Cfg) (h : ι → Nat → Nat) (x : ι) (i : Nat)
    (hx : hits c h x i = true) :
    ∀ (ops : List (ι × W)) (T C P : W), C ≤ʷ (T +ʷ P) → cellAcc c h i C ops ≤ʷ (trueAcc x T ops +ʷ posAcc x P ops)
  | [], _, _, _, hab => hab
  | o :: ops, T, C, P, hab => by
    rw [trueAcc_cons, cellAcc_cons, posAcc_cons]
    apply cellAcc_le_trueAcc_add_posAcc c h x i hx ops
    by_cases hox : o.1 = x
    · have hn : ¬ (o.1 ≠ x ∧ nonnegW o.2 = true) := fun hc => hc.1 hox
      rw [if_pos hox, if_neg hn, hox, if_pos hx, add_right_comm]
      exact add_le_add_right _ hab
    · rw [if_neg hox]
      by_cases hw : nonnegW o.2 = true
      · rw [if_pos (show o.1 ≠ x ∧ nonnegW o.2 = true from ⟨hox, hw⟩)]
        have h0 := (nonnegW_iff _).1 hw
        by_cases hh : hits c h o.1 i = true
        · rw [if_pos hh, ← add_assoc]; exact add_le_add_right _ hab
        · rw [if_neg hh, ← add_assoc]; exact le_add_of_le hab h0
      · have hn : ¬ (o.1 ≠ x ∧ nonnegW o.2 = true) := fun hc => hw hc.2
        have hneg : ¬ (𝟘 : W) ≤ʷ o.2 := fun hc => hw ((nonnegW_iff _).2 hc)
        rw [if_neg hn]
        by_cases hh : hits c h o.1 i = true
        · rw [if_pos hh]
          have : (C +ʷ o.2) ≤ʷ C := by
            have := add_le_add_left C (le_of_not_le hneg); rwa [add_zero] at this
          exact le_trans this hab
        · rw [if_neg hh]; exact hab

/-! ### additivity over concatenation -/

theorem cellAcc_add (c : Cfg) (h : ι → Nat → Nat) (i : Nat) :
    ∀ (ops : List (ι × W)) (v : W), cellAcc c h i v ops = v +ʷ cellAcc c h i 𝟘 ops
  | [], v => (add_zero v).symm
  | o :: ops, v => by
    rw [cellAcc_cons, cellAcc_cons]
    by_cases hh : hits c h o.1 i = true
    · rw [if_pos hh, if_pos hh, cellAcc_add c h i ops (v +ʷ o.2), cellAcc_add c h i ops (𝟘 +ʷ o.2), zero_add, add_assoc]
    · rw [if_neg hh, if_neg hh]; exact cellAcc_add c h i ops v

theorem totalAcc_add : ∀ (ops : List (ι × W)) (v : W), totalAcc v ops = v +ʷ totalAcc 𝟘 ops
  | [], v => (add_zero v).symm
  | o :: ops, v => by
    rw [totalAcc_cons, totalAcc_cons, totalAcc_add ops (v +ʷ _), totalAcc_add ops (𝟘 +ʷ _), zero_add, add_assoc]

theorem cellAcc_append (c : Cfg) (h : ι → Nat → Nat) (i : Nat) (v : W) (a b : List (ι × W)) :
    cellAcc c h i v (a ++ b) = cellAcc c h i (cellAcc c h i v a) b := by
  unfold cellAcc; rw [List.foldl_append]

theorem cellSum_append (c : Cfg) (h : ι → Nat → Nat) (i : Nat) (a b : List (ι × W)) :
    cellSum c h i (a ++ b) = cellSum c h i a +ʷ cellSum c h i b := by
  unfold cellSum; rw [cellAcc_append, cellAcc_add]

theorem totalAbs_append (a b : List (ι × W)) : totalAbs (a ++ b) = totalAbs a +ʷ totalAbs b := by
  rw [totalAbs_eq, totalAbs_eq, totalAbs_eq]
  show totalAcc 𝟘 (a ++ b) = _
  unfold totalAcc; rw [List.foldl_append]; exact totalAcc_add b _

/-! ### states -/

theorem St.ext' {a b : St W} (h1 : a.cfg = b.cfg) (h2 : ∀ i : Nat, a.cells[i]? = b.cells[i]?) (h3 : a.total = b.total) :
    a = b := by
  cases a; cases b
  simp only at h1 h3
  have := Array.ext_getElem? h2
  simp only at this
  subst h1 h3 this; rfl

theorem mergeCore_cells (a b : St W) (i : Nat) :
    (mergeCore a b).cells[i]? = (a.cells[i]?).bind (fun u => (b.cells[i]?).map (fun v => u +ʷ v)) := by
  unfold mergeCore; simp only; rw [Array.getElem?_zipWith]
  cases a.cells[i]? <;> cases b.cells[i]? <;> rfl

/-- merging the sketches of two streams and then feeding `more` = the sketch of `sa ++ sb ++ more` -/
theorem runFrom_mergeCore_run (c : Cfg) (h : ι → Nat → Nat) (hb : 0 < c.numBuckets) (sa sb more : List (ι × W)) :
    runFrom h (mergeCore (run c h sa) (run c h sb)) more = run c h (sa ++ sb ++ more) := by
  apply St.ext'
  · simp [mergeCore]
  · intro i
    have hb' : 0 < (mergeCore (run c h sa) (run c h sb)).cfg.numBuckets := by simpa [mergeCore] using hb
    rw [runFrom_cells h i more _ hb', mergeCore_cells, run_cells c h sa hb, run_cells c h sb hb, run_cells c h _ hb]
    by_cases hi : i < c.numHashes * c.numBuckets
    · simp only [hi, if_true, Option.map_some, Option.bind_some]
      congr 1
      have hcfg : (mergeCore (run c h sa) (run c h sb)).cfg = c := by simp [mergeCore]
      rw [hcfg, cellSum_append, cellSum_append, cellAcc_add]; rfl
    · simp only [hi, if_false, Option.map_none, Option.bind_none]
  · rw [runFrom_total]
    show totalAcc ((run c h sa).total +ʷ (run c h sb).total) more = _
    rw [totalAcc_add, run_total, run_total, run_total, totalAbs_append, totalAbs_append]; rfl

theorem eval_eq_run (c : Cfg) (h : ι → Nat → Nat) (hb : 0 < c.numBuckets) :
    ∀ t : MTree ι W, t.eval c h = run c h t.stream
  | .leaf ops => rfl
  | .node l r more => by
    rw [MTree.eval, eval_eq_run c h hb l, eval_eq_run c h hb r, runFrom_mergeCore_run c h hb]; rfl

/-! ### round trip -/

theorem totalAcc_eq_zero : ∀ (ops : List (ι × W)) (v : W), (𝟘 : W) ≤ʷ v → totalAcc v ops = 𝟘 →
    v = 𝟘 ∧ ∀ o ∈ ops, o.2 = 𝟘
  | [], v, _, h => ⟨h, fun _ ho => by cases ho⟩
  | o :: ops, v, hv, h => by
    rw [totalAcc_cons] at h
    obtain ⟨h1, h2⟩ := totalAcc_eq_zero ops _ (add_nonneg hv (absw_nonneg o.2)) h
    obtain ⟨h3, h4⟩ := add_eq_zero hv (absw_nonneg o.2) h1
    refine ⟨h3, fun o' ho' => ?_⟩
    rcases List.mem_cons.1 ho' with rfl | ho'
    · exact absw_eq_zero h4
    · exact h2 o' ho'

theorem cellAcc_zero_weights (c : Cfg) (h : ι → Nat → Nat) (i : Nat) :
    ∀ (ops : List (ι × W)) (v : W), (∀ o ∈ ops, o.2 = 𝟘) → cellAcc c h i v ops = v
  | [], _, _ => rfl
  | o :: ops, v, hz => by
    rw [cellAcc_cons, hz o List.mem_cons_self, add_zero, ite_self]
    exact cellAcc_zero_weights c h i ops v (fun o' ho' => hz o' (List.mem_cons_of_mem _ ho'))

theorem roundTrip_run (c : Cfg) (h : ι → Nat → Nat) (hb : 0 < c.numBuckets) (ops : List (ι × W)) :
    roundTrip (run c h ops) = run c h ops := by
  unfold roundTrip isEmpty
  split
  · rename_i hz
    rw [isZero_iff, run_total, totalAbs_eq] at hz
    obtain ⟨_, hall⟩ := totalAcc_eq_zero ops 𝟘 (le_refl _) hz
    apply St.ext'
    · simp
    · intro i
      rw [run_cfg, run_cells c h ops hb, init_cells]
      by_cases hi : i < c.numHashes * c.numBuckets
      · simp only [hi, if_true]; congr 1
        exact (cellAcc_zero_weights c h i ops 𝟘 hall).symm
      · simp only [hi, if_false]
    · rw [run_cfg, run_total, totalAbs_eq, hz]; rfl
  · rfl

/-! ### constructor -/

theorem construct_some (p : CtorParams) (nh nb seed : Nat) (s : St W) (hc : construct p nh nb seed = some s)
    (hwide : nh * nb < 2 ^ p.arithBits) :
    s = init ⟨nh, nb, seed⟩ ∧ p.minBuckets ≤ nb ∧ nh * nb < p.maxCells := by
  unfold construct at hc
  split at hc
  · rename_i hok
    unfold ctorOk at hok
    simp only [Bool.and_eq_true, Bool.not_eq_true', decide_eq_false_iff_not, Nat.not_lt, ge_iff_le, Nat.not_le] at hok
    rw [Nat.mul_comm nb nh, Nat.mod_eq_of_lt hwide] at hok
    simp only [Option.some.injEq] at hc
    refine ⟨?_, hok.1, hok.2⟩
    rw [← hc]
    unfold init ctorSize
    simp only [Nat.mod_eq_of_lt hwide, hok.2, if_true]
  · cases hc

end DS.CountMin

/- Repaired model: union / intersect / invert preserve the invariant. -/
import DSProofs.Lemmas.BloomFixed12
namespace DS.Bloom

variable {ι : Type} [DecidableEq ι] (P : Params) (hf : ι → Nat → Option (Nat × Nat))

omit [DecidableEq ι] in
theorem hashed_append {seed : Nat} {l l' : List ι} (h1 : Hashed hf seed l) (h2 : Hashed hf seed l') : Hashed hf seed (l ++ l') := by
  intro y hy
  rcases List.mem_append.mp hy with h | h
  · exact h1 y h
  · exact h2 y h

theorem hashed_filter {seed : Nat} {l : List ι} (q : ι → Bool) (h1 : Hashed hf seed l) : Hashed hf seed (l.filter q) := by
  intro y hy; exact h1 y (List.mem_filter.mp hy).1

omit [DecidableEq ι] in
theorem compatible_cfg {f g' : Filter} (h : compatible f g' = true) : g'.cfg = f.cfg := by
  simp [compatible] at h
  simp [Filter.cfg, h.1.1, h.1.2, h.2]

/-- the lists a set operation leaves in the state (`S'`) and in the acting view (`M'`), and why they are covered -/
theorem setop_lists_covered (f g' : Filter) (op : SetOp) (w : World) (hcap : 0 < f.capBits)
    (hcc : op = .invert ∨ compatible f g' = true)
    (A Mv su : List ι)
    (hA : Covers hf (w.val f) (f.off P) f.cfg A) (hM : Covers hf (w.val f) (f.off P) f.cfg Mv)
    (hB : op ≠ .invert → Covers hf (w.val g') (g'.off P) f.cfg su) :
    let x := setField (w.val f) (f.off P) f.capBits (combine op f.capBits (w.bitsOf P f) (w.bitsOf P g'))
    (op = .union → Covers hf x (f.off P) f.cfg (A ++ su)) ∧
    (op = .inter → Covers hf x (f.off P) f.cfg (A.filter (fun y => decide (y ∈ su))) ∧
                   Covers hf x (f.off P) f.cfg (Mv.filter (fun y => decide (y ∈ su)))) := by
  intro x
  have hbit : ∀ j, j < f.capBits → x.testBit (f.off P + j) =
      combineBit op ((w.val f).testBit (f.off P + j)) ((w.val g').testBit (g'.off P + j)) :=
    fun j hj => setop_bit P w f g' op j hj (hcc.imp id compatible_cap)
  constructor
  · intro hop; subst hop
    have hB' := hB (by intro h; cases h)
    apply Covers.append
    · exact hA.mono hcap (fun j hj hb => by rw [hbit j hj]; simp [combineBit, hb])
    · exact hB'.mono hcap (fun j hj hb => by rw [hbit j hj]; simp [combineBit, hb])
  · intro hop; subst hop
    have hB' := hB (by intro h; cases h)
    exact ⟨Covers.inter hA hB' hcap (fun j hj ha hb => by rw [hbit j hj]; simp [combineBit, ha, hb]),
           Covers.inter hM hB' hcap (fun j hj ha hb => by rw [hbit j hj]; simp [combineBit, ha, hb])⟩

end DS.Bloom

/- C19 helper lemmas: assembling the world-level `ObjSpec` and `Contracts` from per-class pieces.
   A class that has no proved contracts yet is given the empty spec (its invariant is `False`, so no object of the
   class can exist in a world satisfying the invariant, and its constructor is not `Allowed`). -/
import DSProofs.Lemmas.LifeRun
namespace DS.Life

structure ClassSpec (α : Type) where
  owned : α → List Nat
  Inv : Heap → α → Prop
  Usable : Heap → α → Prop
  usable_inv : ∀ {h o}, Usable h o → Inv h o
  inv_local : ∀ {h h' o}, (∀ b, b ∈ owned o → h'.find? b = h.find? b) → h.next ≤ h'.next → Inv h o → Inv h' o
  usable_local : ∀ {h h' o}, (∀ b, b ∈ owned o → h'.find? b = h.find? b) → h.next ≤ h'.next → Usable h o → Usable h' o
  owned_ids : ∀ {h o}, Inv h o → ∀ b, b ∈ owned o → b ∈ h.ids ∧ b < h.next

def ClassSpec.empty (α : Type) : ClassSpec α where
  owned := fun _ => []
  Inv := fun _ _ => False
  Usable := fun _ _ => False
  usable_inv := fun u => u
  inv_local := fun _ _ i => i
  usable_local := fun _ _ u => u
  owned_ids := fun i => i.elim

def combine (ts : ClassSpec Theta.Table) (ks : ClassSpec Kll.Sketch) (fs : ClassSpec Fi.Sketch) : ObjSpec where
  owned := fun o => match o with | .table t => ts.owned t | .kll s => ks.owned s | .fi s => fs.owned s
  Inv := fun h o => match o with | .table t => ts.Inv h t | .kll s => ks.Inv h s | .fi s => fs.Inv h s
  Usable := fun h o => match o with | .table t => ts.Usable h t | .kll s => ks.Usable h s | .fi s => fs.Usable h s
  usable_inv := fun {h o} u => by cases o <;> first | exact ts.usable_inv u | exact ks.usable_inv u | exact fs.usable_inv u
  inv_local := fun {h h' o} e n i => by
    cases o <;> first | exact ts.inv_local e n i | exact ks.inv_local e n i | exact fs.inv_local e n i
  usable_local := fun {h h' o} e n u => by
    cases o <;> first | exact ts.usable_local e n u | exact ks.usable_local e n u | exact fs.usable_local e n u
  owned_ids := fun {h o} i => by
    cases o <;> first | exact ts.owned_ids i | exact ks.owned_ids i | exact fs.owned_ids i

/-- mapping the result of a program through a pure function -/
theorem TripleS.map {α β} {n0 S} {P : Heap → Prop} {m : M α} {Q : β → Heap → Prop} (f : α → β)
    (t : TripleS n0 S P m (fun a h => Q (f a) h)) : TripleS n0 S P (m >>= fun a => (Pure.pure (f a) : M β)) Q := by
  apply TripleS.bind t
  intro a h _ hq
  simp [pure_eq, SafeX, hq, Frame.refl]

/-- a pure result -/
theorem TripleS.pure' {α} {n0 S} {P : Heap → Prop} {Q : α → Heap → Prop} (a : α) (hq : ∀ h, P h → Q a h) :
    TripleS n0 S P (Pure.pure a : M α) Q := by
  intro h _ hp
  simp [pure_eq, SafeX, hq h hp, Frame.refl]

end DS.Life

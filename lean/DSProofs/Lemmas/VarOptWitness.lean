/- Definitions shared by the C16 statements (`FromStream`), their bridge to the invariant, and the concrete inputs
   used by the non-vacuity examples and by the `…_full_false` witnesses. -/
import DSProofs.Lemmas.VarOptStep
import DSProofs.Lemmas.VarOptResult
import DSProofs.Lemmas.VarOptSerde
namespace DS.VarOpt
open DS

/-- the sketch `sk` is what some stream `items` of positive weights (any k, any fill, any draws) leaves behind -/
def FromStream (sk : Sk Rat) (items : List (Int × Rat)) : Prop :=
  ∃ (T : Tunables) (k rf : Nat) (s0 : Sk Rat) (ds ds' : Draws Rat),
    Sk.new T k rf false = some s0 ∧ (∀ p ∈ items, 0 < p.2) ∧ feed T false items s0 ds = some (sk, ds')

theorem FromStream.inv {sk : Sk Rat} {items : List (Int × Rat)} (h : FromStream sk items) :
    ∃ ins L, Inv sk ins L ∧ sumW ins = totalW items ∧ sk.n = items.length ∧ sk.gadget = false := by
  obtain ⟨T, k, rf, s0, ds, ds', h0, hpos, hf⟩ := h
  obtain ⟨hinv0, _, hg0, _⟩ := new_inv T k rf false s0 h0
  obtain ⟨s, ds2, L, hf', hinv, _, hg, _, _⟩ := feed_spec T false items s0 [] [] ds hinv0 hpos (by simp)
  rw [hf] at hf'
  injection hf' with hf'; injection hf' with h1 h2
  subst h1
  exact ⟨_, L, hinv, by rw [List.append_nil, sumW_entriesOf], by rw [hinv.n_eq]; simp [length_entriesOf], by rw [hg, hg0]⟩

theorem unionAll_spec (T : Tunables) (inputs : List (Sk Rat × List (Int × Rat))) (hin : ∀ p ∈ inputs, FromStream p.1 p.2) :
    ∀ (u : Un Rat) (insG LG : List E) (tot : Rat) (cnt : Nat) (ds : Draws Rat), UInv u insG LG tot cnt → TauBook u insG →
    ∃ u' ds' insG' LG', unionAll T u (inputs.map (·.1)) ds = some (u', ds') ∧
      UInv u' insG' LG' (tot + sumR (inputs.map (fun p => totalW p.2))) (cnt + (inputs.map (fun p => p.2.length)).sum) ∧
      u'.maxK = u.maxK ∧ TauBook u' insG' := by
  induction inputs with
  | nil =>
    intro u insG LG tot cnt ds hu hb
    exact ⟨u, ds, insG, LG, rfl, by simpa [sumR] using hu, rfl, hb⟩
  | cons p t ih =>
    intro u insG LG tot cnt ds hu hb
    obtain ⟨ins, L, hinv, htot, hn, _⟩ := (hin p (by simp)).inv
    obtain ⟨u1, ds1, insG1, LG1, hup, hu1, hk1, hb1⟩ := unUpdate_spec T u insG LG tot cnt hu hb p.1 ins L hinv ds
    obtain ⟨u2, ds2, insG2, LG2, hall, hu2, hk2, hb2⟩ := ih (fun q hq => hin q (by simp [hq])) u1 insG1 LG1 _ _ ds1 hu1 hb1
    refine ⟨u2, ds2, insG2, LG2, ?_, ?_, by rw [hk2, hk1], hb2⟩
    · simp only [List.map_cons, unionAll, hup, hall]
    · have e1 : tot + sumW ins + sumR (t.map (fun p => totalW p.2)) = tot + sumR ((p :: t).map (fun p => totalW p.2)) := by
        simp [sumR, htot]; ring
      have e2 : cnt + p.1.n + (t.map (fun p => p.2.length)).sum = cnt + ((p :: t).map (fun p => p.2.length)).sum := by
        simp [hn]; omega
      rw [← e1, ← e2]; exact hu2

theorem newUnion_book (T : Tunables) (maxK : Nat) (u0 : Un Rat) (h : Un.new T maxK = some u0) : TauBook u0 [] := by
  unfold Un.new at h
  split at h
  · injection h with h
    subst h
    exact ⟨Nat.le_refl _, fun _ => by simp [sumW]⟩
  · exact absurd h (by simp)

/-- sample tunables for the non-vacuity examples (the theorems hold for every value) -/
def exT : Tunables :=
  { maxK := 2147483646, minLgArrItems := 3, defaultRf := 3, kappaNum := 2, kappaDen := 1, tolNum := 1, tolDen := 10000000000,
    erfA := [] }   -- all source-shape flags false: the tree the checks were first built on

/-- the same tunables with every repaired source shape switched on (the tree after the six `fix:` commits) -/
def exTR : Tunables :=
  { exT with deserializeM0 := true, validModeSlack := true, slackNum := 1, slackDen := 1000000000000,
             coercerOuterTau := true, coercerHeapify := true, coercerRelTol := true }
-- concrete inputs for the examples and the witnesses below
def wDs : Draws Rat := ⟨[1/2, 1/2, 1/2, 1/2, 1/2, 1/2], [1, 1, 1, 1, 1, 1]⟩
def wNew (k : Nat) : Sk Rat := ((Sk.new exT k 0 false : Option (Sk Rat)).getD
  ⟨1, 0, [], [], [], 0, false, 0, false, 0, 0⟩)
def wItemsA : List (Int × Rat) := [(1, 10), (2, 10), (3, 10)]
def wItemsB : List (Int × Rat) := [(4, 1)]
/-- k = 2 sketch after three items of weight 10: h = 0, r = 2, tau = 15 -/
def wA : Sk Rat := ((feed exT false wItemsA (wNew 2) wDs).getD (wNew 2, wDs)).1
/-- k = 10 sketch holding one item of weight 1 (exact mode) -/
def wB : Sk Rat := ((feed exT false wItemsB (wNew 10) wDs).getD (wNew 10, wDs)).1

theorem wA_fromStream : FromStream wA wItemsA :=
  ⟨exT, 2, 0, wNew 2, wDs, ((feed exT false wItemsA (wNew 2) wDs).getD (wNew 2, wDs)).2, rfl, by decide, rfl⟩
theorem wB_fromStream : FromStream wB wItemsB :=
  ⟨exT, 10, 0, wNew 10, wDs, ((feed exT false wItemsB (wNew 10) wDs).getD (wNew 10, wDs)).2, rfl, by decide, rfl⟩

def wU0 : Un Rat := ((Un.new exT 10 : Option (Un Rat)).getD ⟨0, 0, 0, 0, wNew 1⟩)
def wU : Un Rat := ((unionAll exT wU0 [wA, wB] wDs).getD (wU0, wDs)).1
def wRes : Sk Rat := ((wU.getResult exT wDs).getD (wNew 1, wDs)).1

def wA2 : Sk Rat := ((serdeRoundTrip exT wA).getD wA)


end DS.VarOpt

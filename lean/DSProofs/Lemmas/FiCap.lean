/- The load invariant of the L1 frequent-items model: the number of active items never exceeds the capacity of the
   current table size when every purge deletes at least one counter (true of the median and of every other order
   statistic of the counters). This is why `purge did not reduce number of active items` is unreachable and why
   deserialisation (re-insertion of at most capacity(lgCur) items into a table of size lgCur) never grows or purges.
   (free to change; property statements live in Props/C12.lean) -/
import DSProofs.Lemmas.FiEps
namespace DS.Fi
set_option linter.unusedSectionVars false

variable {ι : Type} [DecidableEq ι]

/-- the purge amount `a` deletes at least one counter if `update x w` purges in state `s` -/
def AmtDel (T : Tun) (s : St ι) (x : ι) (w a : Nat) : Prop :=
  purges T s x w = true → ∃ v ∈ vals (adjust s.map x w), v ≤ a

def CapInv (T : Tun) (s : St ι) : Prop :=
  s.map.length ≤ capacity T s.lgCur ∧ s.lgCur ≤ s.lgMax ∧ T.lgMin ≤ s.lgCur

theorem length_adjust (m : Map ι) (x : ι) (w : Nat) :
    (adjust m x w).length = if hasKey m x then m.length else m.length + 1 := by
  unfold adjust
  split
  · exact len_bump m x w
  · simp

theorem length_purgeMap_le (m : Map ι) (a : Nat) : (purgeMap m a).length ≤ m.length := by
  induction m with
  | nil => simp [purgeMap]
  | cons p t ih =>
    obtain ⟨k, v⟩ := p
    simp only [purgeMap]
    split
    · simp only [List.length_cons]; omega
    · simp only [List.length_cons]; omega

theorem length_purgeMap_lt (m : Map ι) (a : Nat) (h : ∃ v ∈ vals m, v ≤ a) : (purgeMap m a).length < m.length := by
  induction m with
  | nil => obtain ⟨v, hv, _⟩ := h; simp at hv
  | cons p t ih =>
    obtain ⟨k, v⟩ := p
    simp only [purgeMap]
    split
    · rename_i hlt
      obtain ⟨u, hu, hua⟩ := h
      simp only [vals_cons, List.mem_cons] at hu
      rcases hu with hu | hu
      · subst hu; omega
      · have := ih ⟨u, hu, hua⟩
        simp only [List.length_cons]; omega
    · have := length_purgeMap_le t a
      simp only [List.length_cons]; omega

theorem medianOf_mem (l : List Nat) (h : l ≠ []) : medianOf l ∈ l := by
  have hlen : 0 < l.length := List.length_pos_iff.mpr h
  have hp := perm_sortNat l
  have hi : l.length / 2 < (sortNat l).length := by rw [hp.length_eq]; omega
  unfold medianOf
  have he : (sortNat l).getD (l.length / 2) 0 = (sortNat l)[l.length / 2] := by
    simp [List.getD_eq_getElem?_getD, hi]
  rw [he]
  exact hp.mem_iff.mp (List.getElem_mem hi)

/-- the code's purge amount deletes at least one counter -/
theorem amtDel_median (T : Tun) (s : St ι) (x : ι) (w : Nat) : AmtDel T s x w (purgeAmountAll (adjust s.map x w)) := by
  intro hp
  have hne : vals (adjust s.map x w) ≠ [] := by
    intro he
    have hl : (vals (adjust s.map x w)).length = 0 := by rw [he]; rfl
    rw [vals_length, length_adjust] at hl
    simp only [purges, Bool.and_eq_true, Bool.not_eq_true', decide_eq_true_eq] at hp
    rw [hp.1.1.2] at hl
    simp at hl
  exact ⟨_, medianOf_mem _ hne, Nat.le_refl _⟩

theorem capacity_succ (T : Tun) (lg : Nat) (h : 1 ≤ capacity T lg) : capacity T lg + 1 ≤ capacity T (lg + 1) := by
  unfold capacity at *
  have h2 : 2 ^ (lg + 1) * T.lfNum = 2 * (2 ^ lg * T.lfNum) := by rw [Nat.pow_succ]; ac_rfl
  rw [h2]
  have := Nat.mul_div_le_mul_div_assoc 2 (2 ^ lg * T.lfNum) T.lfDen
  have h3 : 2 * (2 ^ lg * T.lfNum / T.lfDen) ≤ 2 * (2 ^ lg * T.lfNum) / T.lfDen := by
    rw [Nat.le_div_iff_mul_le (by
      rcases Nat.eq_zero_or_pos T.lfDen with h0 | h0
      · rw [h0] at h; simp at h
      · exact h0)]
    have := Nat.div_mul_le_self (2 ^ lg * T.lfNum) T.lfDen
    calc 2 * (2 ^ lg * T.lfNum / T.lfDen) * T.lfDen = 2 * ((2 ^ lg * T.lfNum / T.lfDen) * T.lfDen) := by ac_rfl
      _ ≤ 2 * (2 ^ lg * T.lfNum) := Nat.mul_le_mul_left 2 this
  omega

theorem capInv_init (T : Tun) (lgMax lgStart : Nat) (h : lgStart ≤ lgMax) : CapInv T (init T lgMax lgStart : St ι) := by
  refine ⟨by simp [init], ?_, ?_⟩
  · simp only [init]; omega
  · simp only [init]; omega

theorem capInv_update (T : Tun) (hmin : 1 ≤ capacity T T.lgMin) (s : St ι) (h : CapInv T s) (x : ι) (w a : Nat)
    (hdel : AmtDel T s x w a) : CapInv T (update T s x w a) := by
  obtain ⟨hlen, hlg, hmn⟩ := h
  have hla := length_adjust s.map x w
  unfold update
  by_cases hw : w = 0
  · simp only [hw, if_true]; exact ⟨hlen, hlg, hmn⟩
  · simp only [hw, if_false]
    by_cases hk : hasKey s.map x = true
    · simp only [hk, if_true] at hla ⊢
      exact ⟨by show (adjust s.map x w).length ≤ capacity T s.lgCur; omega, hlg, hmn⟩
    · have hk' : hasKey s.map x = false := by simpa using hk
      simp only [hk', Bool.false_eq_true, if_false] at hla ⊢
      by_cases hc : (adjust s.map x w).length > capacity T s.lgCur
      · simp only [hc, if_true]
        by_cases hl : s.lgCur < s.lgMax
        · simp only [hl, if_true]
          have h1 : 1 ≤ capacity T s.lgCur := Nat.le_trans hmin (capacity_mono T hmn)
          have h2 := capacity_succ T s.lgCur h1
          exact ⟨by show (adjust s.map x w).length ≤ capacity T (s.lgCur + 1); omega,
                 by show s.lgCur + 1 ≤ s.lgMax; omega, by show T.lgMin ≤ s.lgCur + 1; omega⟩
        · simp only [hl, if_false]
          have hp : purges T s x w = true := by
            simp only [purges, Bool.and_eq_true, bne_iff_ne, ne_eq, Bool.not_eq_true', decide_eq_true_eq,
              decide_eq_false_iff_not]
            exact ⟨⟨⟨hw, hk'⟩, hc⟩, hl⟩
          have h3 := length_purgeMap_lt _ a (hdel hp)
          exact ⟨by show (purgeMap (adjust s.map x w) a).length ≤ capacity T s.lgCur; omega, hlg, hmn⟩
      · simp only [hc, if_false]
        exact ⟨by show (adjust s.map x w).length ≤ capacity T s.lgCur; omega, hlg, hmn⟩

theorem capInv_replay (T : Tun) (hmin : 1 ≤ capacity T T.lgMin) (ents : List (Ent ι)) (s : St ι) (h : CapInv T s)
    (hok : ReplayP T (AmtDel T) s ents) : CapInv T (replay T s ents) := by
  induction ents generalizing s with
  | nil => exact h
  | cons e t ih => obtain ⟨x, w, a⟩ := e; exact ih _ (capInv_update T hmin s h x w a hok.1) hok.2

theorem reachP_cap (T : Tun) (hmin : 1 ≤ capacity T T.lgMin) {b : Bool} {s : St ι}
    (h : ReachP T b (AmtDel T) s) : CapInv T s := by
  induction h with
  | new lgMax lgStart hl => exact capInv_init T lgMax lgStart hl
  | upd x w a _ hok ih => exact capInv_update T hmin _ ih x w a hok
  | merge ents _ _ _ _ hok ih1 _ =>
    unfold merge
    split
    · exact ih1
    · exact capInv_replay T hmin ents _ ih1 hok
  | roundtrip _ ih =>
    unfold roundtrip
    split
    · exact ⟨by simp, ih.2.1, ih.2.2⟩
    · exact ih

end DS.Fi

/-
t-digest (C17): the `Rat` instance of the numeric classes unfolds to ordinary field operations.
-/
import Mathlib.Algebra.Order.Field.Rat
import Mathlib.Tactic.Linarith
import Mathlib.Tactic.FieldSimp
import Mathlib.Tactic.Positivity
import Mathlib.Tactic.Ring
import DSProofs.Lemmas.TDigestWeight
namespace DS.TDigest
open Num Conv

@[simp] theorem rat_add (a b : Rat) : a +. b = a + b := rfl
@[simp] theorem rat_sub (a b : Rat) : a -. b = a - b := rfl
@[simp] theorem rat_mul (a b : Rat) : a *. b = a * b := rfl
@[simp] theorem rat_div (a b : Rat) : a /. b = a / b := rfl
@[simp] theorem rat_lt (a b : Rat) : (a <. b) = true ↔ a < b := by simp [Num.lt]
@[simp] theorem rat_lt_false (a b : Rat) : (a <. b) = false ↔ b ≤ a := by simp [Num.lt]
@[simp] theorem rat_le (a b : Rat) : (a <=. b) = true ↔ a ≤ b := by simp [Num.le]
@[simp] theorem rat_le_false (a b : Rat) : (a <=. b) = false ↔ b < a := by simp [Num.le]
@[simp] theorem rat_eq (a b : Rat) : (a ==. b) = true ↔ a = b := by simp [Num.eq]
@[simp] theorem rat_ofNat (n : Nat) : (Num.ofNat n : Rat) = (n : Rat) := rfl
@[simp] theorem rat_isNaN (a : Rat) : Num.isNaN a = false := rfl
@[simp] theorem rat_isFinite (a : Rat) : Num.isFinite a = true := rfl
@[simp] theorem rat_up (a : Rat) : (Conv.up a : Rat) = a := rfl
@[simp] theorem rat_down (a : Rat) : (Conv.down a : Rat) = a := rfl

theorem stdMin_eq (a b : Rat) : stdMin a b = min a b := by
  unfold stdMin
  split
  · rename_i h; simp at h; exact (min_eq_right h.le).symm
  · rename_i h; simp at h; exact (min_eq_left h).symm

theorem stdMax_eq (a b : Rat) : stdMax a b = max a b := by
  unfold stdMax
  split
  · rename_i h; simp at h; exact (max_eq_right h.le).symm
  · rename_i h; simp at h; exact (max_eq_left h).symm

@[simp] theorem rat_half : (half : Rat) = 1 / 2 := by simp [half]

end DS.TDigest

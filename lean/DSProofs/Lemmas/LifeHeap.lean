/- C19 helper lemmas: functional characterisation of the heap primitives, the "no precondition failure"
   Hoare triple `TripleS` with a built-in frame (`Out S`: the blocks outside the footprint are untouched),
   and rules for sequencing and loops. -/
import DSModel.Life.Heap
namespace DS.Life

/-! ### outcome predicate and triple -/

/-- the outcome is not a precondition failure (nor an ill-formed-history error); a normal outcome satisfies `Q`;
    a C++ exception thrown by the modelled code (`Err.exc`) is allowed and ends the story -/
def SafeX {α} (r : Except Err (α × Heap)) (Q : α → Heap → Prop) : Prop :=
  match r with
  | .ok (a, h') => Q a h'
  | .error (.exc _) => True
  | .error _ => False

/-- the blocks outside the footprint `S` (in heap order) -/
def Out (S : Nat → Bool) (h : Heap) : List Block := h.blocks.filter (fun B => !S B.id)

/-- block ids are distinct and below `next` -/
def Heap.WF (h : Heap) : Prop := h.ids.Nodup ∧ ∀ b, b ∈ h.ids → b < h.next

/-- the frame part of every postcondition: blocks outside `S` untouched, `next` not lowered, well-formedness kept -/
def Frame (S : Nat → Bool) (h h' : Heap) : Prop := Out S h' = Out S h ∧ h.next ≤ h'.next ∧ (h.WF → h'.WF)

theorem Frame.refl (S : Nat → Bool) (h : Heap) : Frame S h h := ⟨rfl, Nat.le_refl _, id⟩

theorem Frame.trans {S : Nat → Bool} {h1 h2 h3 : Heap} (a : Frame S h1 h2) (b : Frame S h2 h3) : Frame S h1 h3 :=
  ⟨b.1.trans a.1, Nat.le_trans a.2.1 b.2.1, fun w => b.2.2 (a.2.2 w)⟩

/-- `m`, started in a heap satisfying `P` whose `next` is at least `n0`, never fails a precondition, leaves every
    block outside `S` untouched, never lowers `next`, and establishes `Q` when it returns normally -/
def TripleS {α} (n0 : Nat) (S : Nat → Bool) (P : Heap → Prop) (m : M α) (Q : α → Heap → Prop) : Prop :=
  ∀ h, n0 ≤ h.next → P h → SafeX (m h) (fun a h' => Q a h' ∧ Frame S h h')

theorem SafeX.mono {α} {r : Except Err (α × Heap)} {Q Q' : α → Heap → Prop}
    (h : SafeX r Q) (hq : ∀ a h', Q a h' → Q' a h') : SafeX r Q' := by
  unfold SafeX at *
  split <;> simp_all

theorem TripleS.conseq {α} {n0 S} {P P' : Heap → Prop} {m : M α} {Q Q' : α → Heap → Prop}
    (t : TripleS n0 S P m Q) (hp : ∀ h, P' h → P h) (hq : ∀ a h, Q a h → Q' a h) : TripleS n0 S P' m Q' := by
  intro h hn hP
  exact (t h hn (hp h hP)).mono (fun a h' ⟨q, r⟩ => ⟨hq a h' q, r⟩)

theorem bind_eq {α β} (m : M α) (f : α → M β) (h : Heap) :
    (m >>= f) h = match m h with | .ok (a, h') => f a h' | .error e => .error e := rfl

theorem pure_eq {α} (a : α) (h : Heap) : (pure a : M α) h = .ok (a, h) := rfl

theorem TripleS.pure {α} {n0 S} {P : Heap → Prop} (a : α) : TripleS n0 S P (pure a) (fun x h => x = a ∧ P h) := by
  intro h _ hP
  simp [pure_eq, SafeX, hP, Frame.refl]

theorem TripleS.bind {α β} {n0 S} {P : Heap → Prop} {m : M α} {Q : α → Heap → Prop} {f : α → M β} {R : β → Heap → Prop}
    (t1 : TripleS n0 S P m Q) (t2 : ∀ a, TripleS n0 S (Q a) (f a) R) : TripleS n0 S P (m >>= f) R := by
  intro h hn hP
  have h1 := t1 h hn hP
  rw [bind_eq]
  cases hm : m h with
  | error e =>
    rw [hm] at h1
    cases e <;> simp_all [SafeX]
  | ok r =>
    obtain ⟨a, h'⟩ := r
    rw [hm] at h1
    simp only [SafeX] at h1
    obtain ⟨hq, hfr⟩ := h1
    have h2 := t2 a h' (Nat.le_trans hn hfr.2.1) hq
    simp only
    exact h2.mono (fun b h'' ⟨r, fr⟩ => ⟨r, hfr.trans fr⟩)

theorem TripleS.fail_exc {α} {n0 S} {P : Heap → Prop} {Q : α → Heap → Prop} (msg : String) :
    TripleS n0 S P (throwExc msg : M α) Q := by
  intro h _ _
  simp [throwExc, fail, SafeX]

/-- case split on a decidable condition -/
theorem TripleS.ite {α} {n0 S} {P : Heap → Prop} {c : Prop} [Decidable c] {m1 m2 : M α} {Q : α → Heap → Prop}
    (t1 : c → TripleS n0 S P m1 Q) (t2 : ¬c → TripleS n0 S P m2 Q) : TripleS n0 S P (if c then m1 else m2) Q := by
  by_cases hc : c
  · simp [hc]; exact t1 hc
  · simp [hc]; exact t2 hc

/-! ### observers under the pure updates -/

theorem find?_cons_id (B : Block) (Bs : List Block) (b : Nat) :
    (B :: Bs).find? (fun X => X.id == b) = if B.id = b then some B else Bs.find? (fun X => X.id == b) := by
  rw [List.find?_cons]
  by_cases h : B.id = b
  · have e : (B.id == b) = true := by simpa using h
    rw [e]; simp [h]
  · have e : (B.id == b) = false := by simpa using h
    rw [e]; simp [h]

theorem find?_map_upd (l : List Block) (b b' : Nat) (f : Block → Block) (hf : ∀ B, (f B).id = B.id) :
    (l.map (fun B => if B.id = b then f B else B)).find? (fun B => B.id == b') =
      if b' = b then (l.find? (fun B => B.id == b)).map f else l.find? (fun B => B.id == b') := by
  induction l with
  | nil => simp
  | cons B Bs ih =>
    rw [List.map_cons, find?_cons_id, find?_cons_id, find?_cons_id, ih]
    by_cases hB : B.id = b
    · by_cases hb : b' = b
      · subst hb; simp [hB, hf]
      · have : ¬ (b = b') := fun e => hb e.symm
        simp [hB, hb, hf, this]
    · by_cases hb : b' = b
      · subst hb; simp [hB]
      · simp [hB, hb]

@[simp] theorem find?_setCell (h : Heap) (b i : Nat) (c : Cell) (b' : Nat) :
    (h.setCell b i c).find? b' =
      if b' = b then (h.find? b).map (fun B => { B with cells := B.cells.set i c }) else h.find? b' := by
  unfold Heap.setCell Heap.find?
  exact find?_map_upd h.blocks b b' (fun B => { B with cells := B.cells.set i c }) (fun _ => rfl)

@[simp] theorem next_setCell (h : Heap) (b i : Nat) (c : Cell) : (h.setCell b i c).next = h.next := rfl
@[simp] theorem next_addLog (h : Heap) (e : Ev) : (h.addLog e).next = h.next := rfl
@[simp] theorem find?_addLog (h : Heap) (e : Ev) (b : Nat) : (h.addLog e).find? b = h.find? b := rfl
@[simp] theorem blocks_addLog (h : Heap) (e : Ev) : (h.addLog e).blocks = h.blocks := rfl

@[simp] theorem ids_setCell (h : Heap) (b i : Nat) (c : Cell) : (h.setCell b i c).ids = h.ids := by
  unfold Heap.setCell Heap.ids
  simp only [List.map_map]
  apply List.map_congr_left
  intro B _
  simp only [Function.comp]
  split <;> rfl

@[simp] theorem ids_addLog (h : Heap) (e : Ev) : (h.addLog e).ids = h.ids := rfl

theorem cell?_def (h : Heap) (b i : Nat) : h.cell? b i = (h.find? b).bind (·.cells[i]?) := rfl

@[simp] theorem cell?_addLog (h : Heap) (e : Ev) (b i : Nat) : (h.addLog e).cell? b i = h.cell? b i := rfl
@[simp] theorem count?_addLog (h : Heap) (e : Ev) (b : Nat) : (h.addLog e).count? b = h.count? b := rfl
@[simp] theorem kind?_addLog (h : Heap) (e : Ev) (b : Nat) : (h.addLog e).kind? b = h.kind? b := rfl

theorem cell?_setCell (h : Heap) (b i : Nat) (c : Cell) (b' j : Nat) :
    (h.setCell b i c).cell? b' j =
      if b' = b ∧ j = i ∧ (h.cell? b i).isSome then some c else h.cell? b' j := by
  simp only [cell?_def, find?_setCell]
  by_cases hb : b' = b
  · subst hb
    simp only [if_true, true_and]
    cases hf : h.find? b' with
    | none => simp
    | some B =>
      simp only [Option.map_some, Option.bind_some]
      by_cases hj : j = i
      · subst hj
        by_cases hlt : j < B.cells.length
        · simp [hlt]
        · simp [hlt]
      · have : ¬ (i = j) := fun e => hj e.symm
        simp [hj, this]
  · simp [hb]

@[simp] theorem count?_setCell (h : Heap) (b i : Nat) (c : Cell) (b' : Nat) :
    (h.setCell b i c).count? b' = h.count? b' := by
  unfold Heap.count?
  rw [find?_setCell]
  by_cases hb : b' = b
  · subst hb; cases h.find? b' <;> simp
  · simp [hb]

@[simp] theorem kind?_setCell (h : Heap) (b i : Nat) (c : Cell) (b' : Nat) :
    (h.setCell b i c).kind? b' = h.kind? b' := by
  unfold Heap.kind?
  rw [find?_setCell]
  by_cases hb : b' = b
  · subst hb; cases h.find? b' <;> simp
  · simp [hb]

theorem Out_setCell (S : Nat → Bool) (h : Heap) (b i : Nat) (c : Cell) (hS : S b = true) :
    Out S (h.setCell b i c) = Out S h := by
  unfold Out Heap.setCell
  simp only
  induction h.blocks with
  | nil => rfl
  | cons B Bs ih =>
    simp only [List.map_cons, List.filter_cons]
    by_cases hB : B.id = b
    · simp [hB, hS, ih]
    · simp only [hB, if_false]
      rw [ih]

@[simp] theorem Out_addLog (S : Nat → Bool) (h : Heap) (e : Ev) : Out S (h.addLog e) = Out S h := rfl

theorem cell?_lt_count (h : Heap) (b i : Nat) (n : Nat) (hc : h.count? b = some n) :
    (h.cell? b i).isSome ↔ i < n := by
  unfold Heap.count? at hc
  unfold Heap.cell?
  cases hf : h.find? b with
  | none => simp [hf] at hc
  | some B =>
    simp [hf] at hc
    subst hc
    simp

/-- what a block outside the footprint looks like is determined by `Out S` -/
theorem find?_of_Out (S : Nat → Bool) (h h' : Heap) (ho : Out S h' = Out S h) (b : Nat) (hb : S b = false) :
    h'.find? b = h.find? b := by
  have key : ∀ (l : List Block), l.find? (fun B => B.id == b) = (l.filter (fun B => !S B.id)).find? (fun B => B.id == b) := by
    intro l
    induction l with
    | nil => rfl
    | cons B Bs ih =>
      rw [find?_cons_id, List.filter_cons]
      by_cases hB : B.id = b
      · have : (!S B.id) = true := by rw [hB, hb]; rfl
        rw [if_pos this, find?_cons_id]
        simp [hB]
      · by_cases hs : S B.id = true
        · have : (!S B.id) = false := by rw [hs]; rfl
          simp only [hB, if_false, this]
          exact ih
        · have : (!S B.id) = true := by simp [hs]
          rw [if_pos this, find?_cons_id]
          simp only [hB, if_false]
          exact ih
  unfold Heap.find?
  rw [key h'.blocks, key h.blocks]
  unfold Out at ho
  rw [ho]

/-! ### primitive rules.  Each gives the exact resulting heap. -/

theorem readWord_ok {h : Heap} {b i : Nat} {c : Cell} (hc : h.cell? b i = some c) :
    readWord b i h = .ok (c.word, h) := by
  simp [readWord, hc]

theorem writeWord_ok {h : Heap} {b i : Nat} {c : Cell} (w : Nat) (hc : h.cell? b i = some c) :
    writeWord b i w h = .ok ((), h.setCell b i { c with word := w }) := by
  simp [writeWord, hc]

theorem construct_ok {h : Heap} {b i : Nat} {c : Cell} (v : Nat) (hc : h.cell? b i = some c) (hr : c.st = .raw) :
    construct b i v h = .ok ((), (h.setCell b i { c with st := .live v }).addLog (.ctor b ((h.kind? b).getD .item))) := by
  simp [construct, hc, hr]

theorem destroy_ok {h : Heap} {b i : Nat} {c : Cell} (hc : h.cell? b i = some c) (hr : c.st ≠ .raw) :
    destroy b i h = .ok ((), (h.setCell b i { c with st := .raw }).addLog (.dtor b ((h.kind? b).getD .item))) := by
  obtain ⟨st, w⟩ := c
  cases st <;> simp_all [destroy]

theorem read_ok {h : Heap} {b i : Nat} {c : Cell} {v : Nat} (hc : h.cell? b i = some c) (hl : c.st = .live v) :
    read b i h = .ok (v, h) := by
  simp [read, hc, hl]

theorem moveFrom_ok {h : Heap} {b i : Nat} {c : Cell} {v : Nat} (hc : h.cell? b i = some c) (hl : c.st = .live v) :
    moveFrom b i h = .ok (v, h.setCell b i { c with st := .moved }) := by
  simp [moveFrom, hc, hl]

theorem assign_ok {h : Heap} {b i : Nat} {c : Cell} (v : Nat) (hc : h.cell? b i = some c) (hr : c.st ≠ .raw) :
    assign b i v h = .ok ((), h.setCell b i { c with st := .live v }) := by
  obtain ⟨st, w⟩ := c
  cases st <;> simp_all [assign]

theorem deref_some (b : Nat) (h : Heap) : deref (some b) h = .ok (b, h) := rfl

/-! ### alloc / dealloc -/

/-- the heap after `alloc` -/
def Heap.afterAlloc (h : Heap) (k : Kind) (n : Nat) : Heap :=
  { next := h.next + 1,
    blocks := { id := h.next, kind := k, cells := List.replicate n ⟨.raw, poison⟩ } :: h.blocks,
    log := .alloc k n :: h.log }

theorem alloc_ok (k : Kind) (n : Nat) (h : Heap) : alloc k n h = .ok (h.next, h.afterAlloc k n) := rfl

theorem find?_afterAlloc (h : Heap) (k : Kind) (n : Nat) (b : Nat) :
    (h.afterAlloc k n).find? b =
      if b = h.next then some { id := h.next, kind := k, cells := List.replicate n ⟨.raw, poison⟩ } else h.find? b := by
  unfold Heap.afterAlloc Heap.find?
  rw [find?_cons_id]
  by_cases hb : b = h.next
  · subst hb; simp
  · have : ¬ (h.next = b) := fun e => hb e.symm
    simp [hb, this]

theorem cell?_afterAlloc (h : Heap) (k : Kind) (n : Nat) (b i : Nat) :
    (h.afterAlloc k n).cell? b i =
      if b = h.next then (if i < n then some ⟨.raw, poison⟩ else none) else h.cell? b i := by
  simp only [cell?_def, find?_afterAlloc]
  by_cases hb : b = h.next
  · simp only [hb, if_true, Option.bind_some]
    by_cases hi : i < n
    · simp [hi]
    · simp [hi]
  · simp [hb]

theorem count?_afterAlloc (h : Heap) (k : Kind) (n : Nat) (b : Nat) :
    (h.afterAlloc k n).count? b = if b = h.next then some n else h.count? b := by
  unfold Heap.count?
  rw [find?_afterAlloc]
  by_cases hb : b = h.next <;> simp [hb]

theorem kind?_afterAlloc (h : Heap) (k : Kind) (n : Nat) (b : Nat) :
    (h.afterAlloc k n).kind? b = if b = h.next then some k else h.kind? b := by
  unfold Heap.kind?
  rw [find?_afterAlloc]
  by_cases hb : b = h.next <;> simp [hb]

@[simp] theorem ids_afterAlloc (h : Heap) (k : Kind) (n : Nat) : (h.afterAlloc k n).ids = h.next :: h.ids := rfl
@[simp] theorem next_afterAlloc (h : Heap) (k : Kind) (n : Nat) : (h.afterAlloc k n).next = h.next + 1 := rfl

theorem Out_afterAlloc (S : Nat → Bool) (h : Heap) (k : Kind) (n : Nat) (hS : S h.next = true) :
    Out S (h.afterAlloc k n) = Out S h := by
  unfold Out Heap.afterAlloc
  simp [hS]

/-- the heap after a successful `dealloc b` -/
def Heap.afterFree (h : Heap) (b : Nat) (k : Kind) (n : Nat) : Heap :=
  { h with blocks := h.blocks.filter (fun B => B.id != b), log := .free k n :: h.log }

theorem find?_afterFree (h : Heap) (b : Nat) (k : Kind) (n : Nat) (b' : Nat) :
    (h.afterFree b k n).find? b' = if b' = b then none else h.find? b' := by
  unfold Heap.afterFree Heap.find?
  simp only
  induction h.blocks with
  | nil => simp
  | cons B Bs ih =>
    rw [List.filter_cons, find?_cons_id]
    by_cases hB : B.id = b
    · have h1 : (B.id != b) = false := by simp [hB]
      rw [if_neg (by simp [h1]), ih]
      by_cases hb : b' = b
      · simp [hb]
      · have : ¬ (b = b') := fun e => hb e.symm
        simp [hb, hB, this]
    · have h1 : (B.id != b) = true := by simp [hB]
      rw [if_pos h1, find?_cons_id, ih]
      by_cases hb' : B.id = b'
      · have : ¬ (b' = b) := fun e => hB (hb' ▸ e)
        simp [hb', this]
      · simp [hb']

theorem cell?_afterFree (h : Heap) (b : Nat) (k : Kind) (n : Nat) (b' i : Nat) :
    (h.afterFree b k n).cell? b' i = if b' = b then none else h.cell? b' i := by
  simp only [cell?_def, find?_afterFree]
  by_cases hb : b' = b <;> simp [hb]

theorem count?_afterFree (h : Heap) (b : Nat) (k : Kind) (n : Nat) (b' : Nat) :
    (h.afterFree b k n).count? b' = if b' = b then none else h.count? b' := by
  unfold Heap.count?
  rw [find?_afterFree]
  by_cases hb : b' = b <;> simp [hb]

theorem kind?_afterFree (h : Heap) (b : Nat) (k : Kind) (n : Nat) (b' : Nat) :
    (h.afterFree b k n).kind? b' = if b' = b then none else h.kind? b' := by
  unfold Heap.kind?
  rw [find?_afterFree]
  by_cases hb : b' = b <;> simp [hb]

@[simp] theorem ids_afterFree (h : Heap) (b : Nat) (k : Kind) (n : Nat) :
    (h.afterFree b k n).ids = h.ids.filter (fun x => x != b) := by
  unfold Heap.afterFree Heap.ids
  simp only
  induction h.blocks with
  | nil => rfl
  | cons B Bs ih =>
    simp only [List.filter_cons, List.map_cons]
    by_cases hB : B.id = b
    · simp [hB, ih]
    · have h1 : (B.id != b) = true := by simp [hB]
      simp [h1, ih]

@[simp] theorem next_afterFree (h : Heap) (b : Nat) (k : Kind) (n : Nat) : (h.afterFree b k n).next = h.next := rfl

theorem Out_afterFree (S : Nat → Bool) (h : Heap) (b : Nat) (k : Kind) (n : Nat) (hS : S b = true) :
    Out S (h.afterFree b k n) = Out S h := by
  unfold Out Heap.afterFree
  simp only [List.filter_filter]
  apply List.filter_congr
  intro B _
  by_cases hB : B.id = b
  · simp [hB, hS]
  · simp [hB]

/-- `dealloc b n` succeeds exactly when block `b` exists, has `n` cells, all of them raw -/
theorem dealloc_ok {h : Heap} {b n : Nat} {B : Block} (hf : h.find? b = some B) (hn : B.cells.length = n)
    (hr : ∀ c ∈ B.cells, c.st = .raw) : dealloc b n h = .ok ((), h.afterFree b B.kind n) := by
  unfold dealloc
  simp only [hf]
  have hall : B.cells.all (fun c => c.st == .raw) = true := by
    rw [List.all_eq_true]
    intro c hc
    simp [hr c hc]
  simp [hn, hall, Heap.afterFree]

/-- existence of the block from `count?`, and its cells from `cell?` -/
theorem find?_of_count? {h : Heap} {b n : Nat} (hc : h.count? b = some n) :
    ∃ B, h.find? b = some B ∧ B.cells.length = n := by
  unfold Heap.count? at hc
  cases hf : h.find? b with
  | none => simp [hf] at hc
  | some B => exact ⟨B, rfl, by simpa [hf] using hc⟩

theorem dealloc_ok' {h : Heap} {b n : Nat} (hc : h.count? b = some n)
    (hr : ∀ i, i < n → ∃ c, h.cell? b i = some c ∧ c.st = .raw) :
    ∃ k, dealloc b n h = .ok ((), h.afterFree b k n) := by
  obtain ⟨B, hf, hn⟩ := find?_of_count? hc
  refine ⟨B.kind, dealloc_ok hf hn ?_⟩
  intro c hcm
  obtain ⟨i, hi, rfl⟩ := List.getElem_of_mem hcm
  obtain ⟨c', hc', hr'⟩ := hr i (hn ▸ hi)
  simp only [cell?_def, hf, Option.bind_some] at hc'
  rw [List.getElem?_eq_getElem hi] at hc'
  cases hc'
  exact hr'

/-! ### loop rules -/

theorem loopUp_zero (body : Nat → M Unit) (s : Nat) : loopUp body 0 s = pure () := rfl
theorem loopUp_succ (body : Nat → M Unit) (c s : Nat) : loopUp body (c + 1) s = (do body s; loopUp body c (s + 1)) := rfl

/-- invariant rule for `for (i = start; i < start + cnt; ++i) body(i)` -/
theorem TripleS.loopUp {n0 S} (I : Nat → Heap → Prop) (body : Nat → M Unit) (cnt start : Nat)
    (hbody : ∀ i, start ≤ i → i < start + cnt → TripleS n0 S (I i) (body i) (fun _ h => I (i + 1) h)) :
    TripleS n0 S (I start) (loopUp body cnt start) (fun _ h => I (start + cnt) h) := by
  induction cnt generalizing start with
  | zero =>
    intro h _ hI
    simp [loopUp_zero, pure_eq, SafeX, hI, Frame.refl]
  | succ c ih =>
    rw [loopUp_succ]
    apply TripleS.bind (hbody start (Nat.le_refl _) (by omega))
    intro _
    have := ih (start + 1) (fun i h1 h2 => hbody i (by omega) (by omega))
    have e : start + 1 + c = start + (c + 1) := by omega
    rw [e] at this
    exact this

theorem loopDown_zero (body : Nat → M Unit) (s : Nat) : loopDown body 0 s = pure () := rfl
theorem loopDown_succ (body : Nat → M Unit) (c s : Nat) : loopDown body (c + 1) s = (do body (s + c); loopDown body c s) := rfl

/-- invariant rule for `for (i = start + cnt; i-- > start;) body(i)`: `I k` = "`k` iterations remain" -/
theorem TripleS.loopDown {n0 S} (I : Nat → Heap → Prop) (body : Nat → M Unit) (cnt start : Nat)
    (hbody : ∀ c, c < cnt → TripleS n0 S (I (c + 1)) (body (start + c)) (fun _ h => I c h)) :
    TripleS n0 S (I cnt) (loopDown body cnt start) (fun _ h => I 0 h) := by
  induction cnt with
  | zero =>
    intro h _ hI
    simp [loopDown_zero, pure_eq, SafeX, hI, Frame.refl]
  | succ c ih =>
    rw [loopDown_succ]
    apply TripleS.bind (hbody c (by omega))
    intro _
    exact ih (fun c' h' => hbody c' (by omega))

theorem foldUp_zero {σ} (body : Nat → σ → M σ) (s : Nat) (a : σ) : foldUp body 0 s a = pure a := rfl
theorem foldUp_succ {σ} (body : Nat → σ → M σ) (c s : Nat) (a : σ) :
    foldUp body (c + 1) s a = (do let a' ← body s a; foldUp body c (s + 1) a') := rfl

/-- invariant rule for the accumulating loop -/
theorem TripleS.foldUp {σ} {n0 S} (I : Nat → σ → Heap → Prop) (body : Nat → σ → M σ) (cnt start : Nat) (a0 : σ)
    (hbody : ∀ i a, start ≤ i → i < start + cnt → TripleS n0 S (I i a) (body i a) (fun a' h => I (i + 1) a' h)) :
    TripleS n0 S (I start a0) (foldUp body cnt start a0) (fun a h => I (start + cnt) a h) := by
  induction cnt generalizing start a0 with
  | zero =>
    intro h _ hI
    simp [foldUp_zero, pure_eq, SafeX, hI, Frame.refl]
  | succ c ih =>
    rw [foldUp_succ]
    apply TripleS.bind (hbody start a0 (Nat.le_refl _) (by omega))
    intro a'
    have := ih (start + 1) a' (fun i a h1 h2 => hbody i a (by omega) (by omega))
    have e : start + 1 + c = start + (c + 1) := by omega
    rw [e] at this
    exact this

/-! ### triples of the primitives (postcondition = the exact heap) -/

theorem TripleS.of_ok {α} {n0 S} {P : Heap → Prop} {m : M α} {Q : α → Heap → Prop}
    (hm : ∀ h, n0 ≤ h.next → P h → ∃ a h', m h = .ok (a, h') ∧ Q a h' ∧ Frame S h h') :
    TripleS n0 S P m Q := by
  intro h hn hP
  obtain ⟨a, h', e, q, fr⟩ := hm h hn hP
  rw [e]
  exact ⟨q, fr⟩

/-! ### frames of the pure updates -/

theorem Frame_setCell (S : Nat → Bool) (h : Heap) (b i : Nat) (c : Cell) (hS : S b = true) : Frame S h (h.setCell b i c) :=
  ⟨Out_setCell S h b i c hS, Nat.le_refl _, fun w => by simpa [Heap.WF] using w⟩

theorem Frame_addLog (S : Nat → Bool) (h : Heap) (e : Ev) : Frame S h (h.addLog e) := ⟨rfl, Nat.le_refl _, id⟩

theorem Frame_afterAlloc (S : Nat → Bool) (h : Heap) (k : Kind) (n : Nat) (hS : S h.next = true) :
    Frame S h (h.afterAlloc k n) := by
  refine ⟨Out_afterAlloc S h k n hS, by simp, ?_⟩
  intro ⟨nd, lt⟩
  refine ⟨?_, ?_⟩
  · simp only [ids_afterAlloc, List.nodup_cons]
    exact ⟨fun hm => Nat.lt_irrefl _ (lt _ hm), nd⟩
  · intro b hb
    simp only [ids_afterAlloc, List.mem_cons] at hb
    simp only [next_afterAlloc]
    rcases hb with rfl | hb
    · omega
    · have := lt b hb; omega

theorem Frame_afterFree (S : Nat → Bool) (h : Heap) (b : Nat) (k : Kind) (n : Nat) (hS : S b = true) :
    Frame S h (h.afterFree b k n) := by
  refine ⟨Out_afterFree S h b k n hS, by simp, ?_⟩
  intro ⟨nd, lt⟩
  refine ⟨?_, ?_⟩
  · simp only [ids_afterFree]
    exact nd.filter _
  · intro x hx
    simp only [ids_afterFree, List.mem_filter] at hx
    simpa using lt x hx.1


/-! ### forward symbolic execution: `SafeF S h r Q` = outcome `r` of a program started in `h` is safe, satisfies `Q`
    and frames `h` -/

def SafeF {α} (S : Nat → Bool) (h : Heap) (r : Except Err (α × Heap)) (Q : α → Heap → Prop) : Prop :=
  SafeX r (fun a h' => Q a h' ∧ Frame S h h')

theorem TripleS.iff_SafeF {α} {n0 S} {P : Heap → Prop} {m : M α} {Q : α → Heap → Prop} :
    TripleS n0 S P m Q ↔ ∀ h, n0 ≤ h.next → P h → SafeF S h (m h) Q := Iff.rfl

theorem SafeF.pure {α} {S} {h : Heap} {Q : α → Heap → Prop} {a : α} (q : Q a h) : SafeF S h ((pure a : M α) h) Q := by
  simp [SafeF, pure_eq, SafeX, q, Frame.refl]

theorem SafeF.ok {α} {S} {h h' : Heap} {Q : α → Heap → Prop} {a : α} (q : Q a h') (fr : Frame S h h') :
    SafeF S h (.ok (a, h')) Q := ⟨q, fr⟩

theorem SafeF.exc {α} {S} {h : Heap} {Q : α → Heap → Prop} (msg : String) : SafeF S h ((throwExc msg : M α) h) Q := by
  simp [SafeF, throwExc, fail, SafeX]

/-- re-base the frame: a safe outcome from `h1` is a safe outcome from `h` when `h` frames `h1` -/
theorem SafeF.rebase {α} {S} {h h1 : Heap} {r : Except Err (α × Heap)} {Q : α → Heap → Prop}
    (fr : Frame S h h1) (s : SafeF S h1 r Q) : SafeF S h r Q :=
  SafeX.mono s (fun _ _ ⟨q, f⟩ => ⟨q, fr.trans f⟩)

theorem SafeF.mono {α} {S} {h : Heap} {r : Except Err (α × Heap)} {Q Q' : α → Heap → Prop}
    (s : SafeF S h r Q) (hq : ∀ a h', Q a h' → Q' a h') : SafeF S h r Q' :=
  SafeX.mono s (fun a h' ⟨q, f⟩ => ⟨hq a h' q, f⟩)

/-- one primitive step with a known result -/
theorem SafeF.bind_ok {α β} {S} {h h1 : Heap} {m : M α} {f : α → M β} {Q : β → Heap → Prop} {a : α}
    (e : m h = .ok (a, h1)) (fr : Frame S h h1) (s : SafeF S h1 (f a h1) Q) : SafeF S h ((m >>= f) h) Q := by
  rw [bind_eq, e]
  exact s.rebase fr

/-- a sub-program with a proved triple -/
theorem SafeF.bind_triple {α β} {n0 S} {P : Heap → Prop} {m : M α} {Q1 : α → Heap → Prop} {h : Heap}
    {f : α → M β} {Q : β → Heap → Prop} (t : TripleS n0 S P m Q1) (hn : n0 ≤ h.next) (hp : P h)
    (k : ∀ a h1, Q1 a h1 → h.next ≤ h1.next → SafeF S h1 (f a h1) Q) : SafeF S h ((m >>= f) h) Q := by
  have h1 := t h hn hp
  rw [bind_eq]
  cases hm : m h with
  | error e =>
    rw [hm] at h1
    cases e <;> simp_all [SafeX, SafeF]
  | ok r =>
    obtain ⟨a, h'⟩ := r
    rw [hm] at h1
    obtain ⟨hq, hfr⟩ := h1
    exact (k a h' hq hfr.2.1).rebase hfr

theorem SafeF.of_triple {α} {n0 S} {P : Heap → Prop} {m : M α} {Q : α → Heap → Prop} {h : Heap}
    (t : TripleS n0 S P m Q) (hn : n0 ≤ h.next) (hp : P h) : SafeF S h (m h) Q := t h hn hp

/-! primitive steps -/

theorem step_readWord {β} {S} {h : Heap} {b i : Nat} {c : Cell} {f : Nat → M β} {Q : β → Heap → Prop}
    (hc : h.cell? b i = some c) (s : SafeF S h (f c.word h) Q) : SafeF S h ((readWord b i >>= f) h) Q :=
  SafeF.bind_ok (readWord_ok hc) (Frame.refl _ _) s

theorem step_read {β} {S} {h : Heap} {b i : Nat} {c : Cell} {v : Nat} {f : Nat → M β} {Q : β → Heap → Prop}
    (hc : h.cell? b i = some c) (hl : c.st = .live v) (s : SafeF S h (f v h) Q) : SafeF S h ((read b i >>= f) h) Q :=
  SafeF.bind_ok (read_ok hc hl) (Frame.refl _ _) s

theorem step_writeWord {β} {S} {h : Heap} {b i : Nat} {c : Cell} (w : Nat) {f : Unit → M β} {Q : β → Heap → Prop}
    (hc : h.cell? b i = some c) (hS : S b = true)
    (s : SafeF S (h.setCell b i { c with word := w }) (f () (h.setCell b i { c with word := w })) Q) :
    SafeF S h ((writeWord b i w >>= f) h) Q :=
  SafeF.bind_ok (writeWord_ok w hc) (Frame_setCell S h b i _ hS) s

theorem step_construct {β} {S} {h : Heap} {b i : Nat} {c : Cell} (v : Nat) {f : Unit → M β} {Q : β → Heap → Prop}
    (hc : h.cell? b i = some c) (hr : c.st = .raw) (hS : S b = true)
    (s : ∀ e, SafeF S ((h.setCell b i { c with st := .live v }).addLog e)
        (f () ((h.setCell b i { c with st := .live v }).addLog e)) Q) :
    SafeF S h ((construct b i v >>= f) h) Q :=
  SafeF.bind_ok (construct_ok v hc hr) ((Frame_setCell S h b i _ hS).trans (Frame_addLog S _ _)) (s _)

theorem step_destroy {β} {S} {h : Heap} {b i : Nat} {c : Cell} {f : Unit → M β} {Q : β → Heap → Prop}
    (hc : h.cell? b i = some c) (hr : c.st ≠ .raw) (hS : S b = true)
    (s : ∀ e, SafeF S ((h.setCell b i { c with st := .raw }).addLog e)
        (f () ((h.setCell b i { c with st := .raw }).addLog e)) Q) :
    SafeF S h ((destroy b i >>= f) h) Q :=
  SafeF.bind_ok (destroy_ok hc hr) ((Frame_setCell S h b i _ hS).trans (Frame_addLog S _ _)) (s _)

theorem step_moveFrom {β} {S} {h : Heap} {b i : Nat} {c : Cell} {v : Nat} {f : Nat → M β} {Q : β → Heap → Prop}
    (hc : h.cell? b i = some c) (hl : c.st = .live v) (hS : S b = true)
    (s : SafeF S (h.setCell b i { c with st := .moved }) (f v (h.setCell b i { c with st := .moved })) Q) :
    SafeF S h ((moveFrom b i >>= f) h) Q :=
  SafeF.bind_ok (moveFrom_ok hc hl) (Frame_setCell S h b i _ hS) s

theorem step_assign {β} {S} {h : Heap} {b i : Nat} {c : Cell} (v : Nat) {f : Unit → M β} {Q : β → Heap → Prop}
    (hc : h.cell? b i = some c) (hr : c.st ≠ .raw) (hS : S b = true)
    (s : SafeF S (h.setCell b i { c with st := .live v }) (f () (h.setCell b i { c with st := .live v })) Q) :
    SafeF S h ((assign b i v >>= f) h) Q :=
  SafeF.bind_ok (assign_ok v hc hr) (Frame_setCell S h b i _ hS) s

theorem step_alloc {β} {S} {h : Heap} (k : Kind) (n : Nat) {f : Nat → M β} {Q : β → Heap → Prop}
    (hS : S h.next = true) (s : SafeF S (h.afterAlloc k n) (f h.next (h.afterAlloc k n)) Q) :
    SafeF S h ((alloc k n >>= f) h) Q :=
  SafeF.bind_ok (alloc_ok k n h) (Frame_afterAlloc S h k n hS) s

theorem step_dealloc {β} {S} {h : Heap} {b n : Nat} {f : Unit → M β} {Q : β → Heap → Prop}
    (hc : h.count? b = some n) (hr : ∀ i, i < n → ∃ c, h.cell? b i = some c ∧ c.st = .raw) (hS : S b = true)
    (s : ∀ k, SafeF S (h.afterFree b k n) (f () (h.afterFree b k n)) Q) :
    SafeF S h ((dealloc b n >>= f) h) Q := by
  obtain ⟨k, e⟩ := dealloc_ok' hc hr
  exact SafeF.bind_ok e (Frame_afterFree S h b k n hS) (s k)

theorem step_deref {β} {S} {h : Heap} (b : Nat) {f : Nat → M β} {Q : β → Heap → Prop}
    (s : SafeF S h (f b h) Q) : SafeF S h ((deref (some b) >>= f) h) Q :=
  SafeF.bind_ok (deref_some b h) (Frame.refl _ _) s

/-- a program that is the last statement: `m` alone is `m >>= pure` -/
theorem SafeF.last {α} {S} {h : Heap} {m : M α} {Q : α → Heap → Prop} (s : SafeF S h ((m >>= fun a => (Pure.pure a : M α)) h) Q) :
    SafeF S h (m h) Q := by
  have : (m >>= fun a => (Pure.pure a : M α)) h = m h := by
    rw [bind_eq]
    cases m h with
    | error e => rfl
    | ok r => rfl
  rwa [this] at s

end DS.Life

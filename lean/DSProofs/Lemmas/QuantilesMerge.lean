/-
Specs (invariant + arities + weight sums) of the merge machinery of the classic quantiles sketch:
`in_place_propagate_carry` in merge mode, the loop over the source levels, `standard_merge` / `downsampling_merge`
and `merge` with all its branches.
-/
import DSProofs.Lemmas.QuantilesInv
import DSModel.Quantiles.Query
namespace DS.Quantiles

open Tree

variable {α : Type}

/-- all fields except `levels` and `bits` agree -/
def SameRest (t t' : Sketch α) : Prop :=
  t'.k = t.k ∧ t'.n = t.n ∧ t'.bb = t.bb ∧ t'.minItem = t.minItem ∧ t'.maxItem = t.maxItem ∧ t'.bbSorted = t.bbSorted

theorem SameRest.refl (t : Sketch α) : SameRest t t := ⟨rfl, rfl, rfl, rfl, rfl, rfl⟩

theorem SameRest.trans {a b d : Sketch α} (h1 : SameRest a b) (h2 : SameRest b d) : SameRest a d := by
  obtain ⟨a1, a2, a3, a4, a5, a6⟩ := h1
  obtain ⟨b1, b2, b3, b4, b5, b6⟩ := h2
  exact ⟨b1.trans a1, b2.trans a2, b3.trans a3, b4.trans a4, b5.trans a5, b6.trans a6⟩

section
variable (c : Cmp α) (p : α → Bool) {S : List α → Prop} (hS : SortOK c.lt S)
include hS

theorem propagateCarry_spec (start : Nat) (bufK : List α) (t : Sketch α)
    (hsh : LevelsShape S t.k t.levels t.bits) (hbuf : bufK.length = t.k) (hSb : S bufK)
    (hroom : t.bits + 2 ^ start < 2 ^ t.levels.length) :
    Spec (fun t' => SameRest t t' ∧ t'.levels.length = t.levels.length ∧ t'.bits = t.bits + 2 ^ start ∧
        LevelsShape S t.k t'.levels (t.bits + 2 ^ start))
      (carryAr start t.levels.length t.bits) (wSketch p) (wSketch p t + 2 ^ (start + 1) * bufK.countP p)
      (propagateCarry c.lt start bufK [] false t) := by
  unfold propagateCarry
  simp only [Bool.false_eq_true, if_false]
  have h := (carryFrom_spec c.lt p t.k hS start t.levels t.bits bufK 2 hsh hbuf hSb hroom).add_const (t.bb.countP p)
  refine (Spec.map h ?_).congr rfl ?_
  · intro r hr
    exact ⟨⟨SameRest.refl t, hr.2, rfl, hr.1⟩, rfl⟩
  · simp only [wSketch, Nat.pow_succ]
    generalize bufK.countP p = a
    generalize 2 ^ start = b
    rw [Nat.mul_comm b 2]
    omega

/-- the loop over the source levels (`standard_merge`: `factor = 1`; `downsampling_merge`: `factor = 2^lg`) -/
theorem mergeLevels_spec (factor lg k L F : Nat) (hf : factor = 2 ^ lg) (hFL : F < 2 ^ L) :
    ∀ (sl : List (List α)) (pat lvl : Nat) (t : Sketch α),
    LevelsShape S (factor * k) sl pat → t.k = k → LevelsShape S k t.levels t.bits → t.levels.length = L →
    t.bits + pat * 2 ^ (lvl + lg) = F →
    Spec (fun t' => SameRest t t' ∧ t'.levels.length = L ∧ t'.bits = F ∧ LevelsShape S k t'.levels F)
      (levelsAr factor lg sl.length pat lvl L t.bits) (wSketch p) (wSketch p t + wLevels p (2 ^ (lvl + 1)) sl)
      (mergeLevels c.lt factor lg sl pat lvl t) := by
  intro sl
  induction sl with
  | nil =>
    intro pat lvl t hsl hk hsh hlen hF
    simp only [LevelsShape] at hsl
    subst hsl
    simp only [mergeLevels, List.length_nil, levelsAr, wLevels, Nat.add_zero]
    refine Spec.done ⟨SameRest.refl t, hlen, by omega, ?_⟩ rfl
    have : t.bits = F := by omega
    rw [← this]; exact hsh
  | cons l rest ih =>
    intro pat lvl t hsl hk hsh hlen hF
    obtain ⟨hl, hSl, hrest⟩ := hsl
    have hfpos : 0 < factor := by rw [hf]; exact Nat.two_pow_pos lg
    by_cases hodd : pat % 2 = 1
    · -- a valid source level
      simp only [hodd, if_true] at hl
      have hpat : pat = 2 * (pat / 2) + 1 := by omega
      have hX : pat * 2 ^ (lvl + lg) = 2 ^ (lvl + lg) + (pat / 2) * 2 ^ (lvl + 1 + lg) := by
        have e : lvl + 1 + lg = (lvl + lg) + 1 := by omega
        rw [e, Nat.pow_succ]
        generalize 2 ^ (lvl + lg) = X
        conv => lhs; rw [hpat]
        rw [Nat.add_mul, Nat.one_mul, Nat.mul_comm X 2, ← Nat.mul_assoc, Nat.mul_comm (pat / 2) 2]
        omega
      have hroom : t.bits + 2 ^ (lvl + lg) < 2 ^ t.levels.length := by
        rw [hlen]; omega
      -- the carry of this level, as a spec with the weight the level had in the source
      have hstep : Spec (fun t' => SameRest t t' ∧ t'.levels.length = L ∧ t'.bits = t.bits + 2 ^ (lvl + lg) ∧
            LevelsShape S k t'.levels (t.bits + 2 ^ (lvl + lg)))
          ((if factor = 1 then [] else [factor]) ++ rippleAr (L - (lvl + lg)) (t.bits / 2 ^ (lvl + lg)))
          (wSketch p) (wSketch p t + 2 ^ (lvl + 1) * l.countP p)
          (if factor = 1 then propagateCarry c.lt lvl l [] false t
           else Tree.choose factor (fun o => propagateCarry c.lt (lvl + lg) (strided factor o l) [] false t)) := by
        by_cases h1 : factor = 1
        · have hlg : lg = 0 := by
            rw [h1] at hf
            rcases Nat.eq_zero_or_pos lg with h | h
            · exact h
            · have : 2 ≤ 2 ^ lg := by
                calc 2 = 2 ^ 1 := rfl
                  _ ≤ 2 ^ lg := Nat.pow_le_pow_right (by omega) h
              omega
          simp only [h1, if_true, List.nil_append]
          subst hlg
          simp only [Nat.add_zero] at hroom ⊢
          have h := propagateCarry_spec c p hS lvl l t (by rw [hk]; exact hsh) (by rw [hl, h1, hk]; omega) hSl hroom
          refine (h.weaken ?_).congr (by rw [carryAr_eq, hlen]) rfl
          intro t' ht'
          exact ⟨ht'.1, by rw [ht'.2.1, hlen], ht'.2.2.1, by rw [← hk]; exact ht'.2.2.2⟩
        · simp only [h1, if_false, List.singleton_append]
          refine Spec.choose (X := fun o => wSketch p t + 2 ^ (lvl + lg + 1) * (strided factor o l).countP p) hfpos ?_ ?_
          · intro o ho
            have h := propagateCarry_spec c p hS (lvl + lg) (strided factor o l) t (by rw [hk]; exact hsh)
              (by rw [hk]; exact strided_length hl ho) (hS.strided _ _ _ hSl) hroom
            refine (h.weaken ?_).congr (by rw [carryAr_eq, hlen]) rfl
            intro t' ht'
            exact ⟨ht'.1, by rw [ht'.2.1, hlen], ht'.2.2.1, by rw [← hk]; exact ht'.2.2.2⟩
          · rw [Tree.sumRange_add, Tree.sumRange_const, Tree.sumRange_mul, strided_countP_sum p factor hfpos l]
            have e : 2 ^ (lvl + lg + 1) = factor * 2 ^ (lvl + 1) := by
              rw [hf, ← Nat.pow_add]; congr 1; omega
            rw [e, Nat.mul_add, Nat.mul_assoc]
      simp only [mergeLevels, hodd, if_true, List.length_cons, levelsAr]
      refine (Spec.bind (a2 := levelsAr factor lg rest.length (pat / 2) (lvl + 1) L (t.bits + 2 ^ (lvl + lg)))
        (hstep.add_const (wLevels p (2 ^ (lvl + 1 + 1)) rest)) ?_).congr (by simp [List.append_assoc]) ?_
      · intro t1 ht1
        obtain ⟨hsr, hl1, hb1, hs1⟩ := ht1
        have h := ih (pat / 2) (lvl + 1) t1 hrest (by rw [hsr.1, hk]) (by rw [hb1]; exact hs1) hl1
          (by rw [hb1]; omega)
        refine (h.weaken ?_).congr (by rw [hb1]) (by omega)
        intro t' ht'
        exact ⟨hsr.trans ht'.1, ht'.2⟩
      · simp only [wLevels]
        have e : 2 * 2 ^ (lvl + 1) = 2 ^ (lvl + 1 + 1) := by
          rw [Nat.pow_succ 2 (lvl + 1), Nat.mul_comm]
        rw [e]; omega
    · -- an invalid (empty) source level
      have heven : pat % 2 = 0 := by omega
      simp only [hodd, if_false] at hl
      have hnil : l = [] := List.eq_nil_of_length_eq_zero hl
      subst hnil
      simp only [mergeLevels, hodd, if_false, List.length_cons, levelsAr]
      have hX : pat * 2 ^ (lvl + lg) = (pat / 2) * 2 ^ (lvl + 1 + lg) := by
        have e : lvl + 1 + lg = (lvl + lg) + 1 := by omega
        rw [e, Nat.pow_succ]
        generalize 2 ^ (lvl + lg) = X
        have hpat : pat = 2 * (pat / 2) := by omega
        conv => lhs; rw [hpat]
        rw [Nat.mul_comm X 2, ← Nat.mul_assoc, Nat.mul_comm (pat / 2) 2]
      refine (ih (pat / 2) (lvl + 1) t hrest hk hsh hlen (by omega)).congr rfl ?_
      simp only [wLevels, List.countP_nil, Nat.mul_zero, Nat.zero_add]
      have e : 2 * 2 ^ (lvl + 1) = 2 ^ (lvl + 1 + 1) := by
        rw [Nat.pow_succ 2 (lvl + 1), Nat.mul_comm]
      rw [e]

end

theorem sortBB_inv {c : Cmp α} {S : List α → Prop} (hS : SortOK c.lt S) {s : Sketch α} (h : Inv c S s) :
    Inv c S (s.sortBB c) := by
  unfold Sketch.sortBB
  by_cases hb : s.bbSorted = true
  · simp [hb]; exact h
  · simp only [hb, Bool.false_eq_true, if_false]
    exact ⟨h.kpow, by simp only [sortBuf_length]; exact h.bb_len, h.bits_eq, h.lv_len, h.lv_shape,
      fun x hx => h.bb_ok x ((sortBuf_perm c.lt s.bb).mem_iff.mp hx), fun _ => hS.sort _⟩

theorem sortBB_fields (c : Cmp α) (s : Sketch α) :
    (s.sortBB c).k = s.k ∧ (s.sortBB c).n = s.n ∧ (s.sortBB c).bits = s.bits ∧ (s.sortBB c).levels = s.levels ∧
    (s.sortBB c).minItem = s.minItem ∧ (s.sortBB c).maxItem = s.maxItem ∧ (s.sortBB c).bb.Perm s.bb := by
  unfold Sketch.sortBB
  by_cases hb : s.bbSorted = true
  · simp [hb]
  · simp only [hb, Bool.false_eq_true, if_false, true_and]
    exact sortBuf_perm _ _

theorem wSketch_sortBB (p : α → Bool) (c : Cmp α) (s : Sketch α) : wSketch p (s.sortBB c) = wSketch p s := by
  obtain ⟨_, _, _, hl, _, _, hp⟩ := sortBB_fields c s
  simp only [wSketch, hl, hp.countP_eq]

/-- what the finalisation of `standard_merge` / `downsampling_merge` does to the fields: `t1` = target after the
source's base buffer was streamed in, `r` = result -/
def LMFields (lt : α → α → Bool) (t1 r src : Sketch α) (factor : Nat) : Prop :=
  r.k = t1.k ∧ r.bb = t1.bb ∧ r.n + src.bb.length = t1.n + src.n ∧ r.bits = t1.bits + src.bits * factor ∧ 0 < factor ∧
    r.minItem = mergeMin lt t1.minItem src.minItem ∧ r.maxItem = mergeMax lt t1.maxItem src.maxItem ∧
    r.bbSorted = t1.bbSorted

/-- closure properties of a relation `R s items` between a sketch and the list of items it has accepted
(instantiated in Lemmas/QuantilesRel.lean with n / min / max / content) -/
structure RelOK (c : Cmp α) (S : List α → Prop) (R : Sketch α → List α → Prop) : Prop where
  upd : ∀ s items x s', Inv c S s → R s items → c.nan x = false → UpdPost c S s x s' → R s' (items ++ [x])
  perm : ∀ s items items', R s items → items.Perm items' → R s items'
  len : ∀ s items, R s items → s.n = items.length
  bb : ∀ s items, Inv c S s → R s items → s.bits = 0 → s.bb.Perm items
  lm : ∀ (t1 r src : Sketch α) (it is : List α) (factor : Nat), R t1 (it ++ src.bb) → R src is → Inv c S src →
    Inv c S t1 → LMFields c.lt t1 r src factor → R r (it ++ is)
  sortbb : ∀ s items, R s items → R (s.sortBB c) items
  new : ∀ k, R (Sketch.new k) []

theorem pow2_div {k1 k2 e1 e2 : Nat} (h1 : k1 = 2 ^ e1) (h2 : k2 = 2 ^ e2) (hlt : k2 < k1) :
    k1 / k2 = 2 ^ (e1 - e2) ∧ k1 = k1 / k2 * k2 := by
  have he : e2 < e1 := by
    rcases Nat.lt_or_ge e2 e1 with h | h
    · exact h
    · have := Nat.pow_le_pow_right (by omega : 0 < 2) h
      omega
  have hs : 2 ^ e1 = 2 ^ (e1 - e2) * 2 ^ e2 := by rw [← Nat.pow_add]; congr 1; omega
  have hd : k1 / k2 = 2 ^ (e1 - e2) := by
    rw [h1, h2, hs, Nat.mul_div_cancel _ (Nat.two_pow_pos e2)]
  exact ⟨hd, by rw [hd, h1, h2, hs]⟩

theorem ctz_two_pow_eq {factor lg : Nat} (hf : factor = 2 ^ lg) : ctz factor = lg := by rw [hf, ctz_two_pow]

theorem wSketch_empty (p : α → Bool) {c : Cmp α} {S : List α → Prop} {s : Sketch α} (hs : Inv c S s) (hn : s.n = 0) :
    wSketch p s = 0 := by
  have hb : s.bb = [] := List.eq_nil_of_length_eq_zero (by rw [hs.bb_len, hn]; simp)
  have hbits : s.bits = 0 := by rw [hs.bits_eq, hn]; simp
  have hl : s.levels = [] := List.eq_nil_of_length_eq_zero (by rw [hs.lv_len, hbits, bitLen_zero])
  simp [wSketch, hb, hl, wLevels]

section
variable (c : Cmp α) (p : α → Bool) {S : List α → Prop} (hS : SortOK c.lt S)
  {R : Sketch α → List α → Prop} (hR : RelOK c S R)
include hS hR

theorem levelMerge_spec (factor lg : Nat) (tgt src : Sketch α) (it is : List α)
    (ht : Inv c S tgt) (hs : Inv c S src) (hrt : R tgt it) (hrs : R src is)
    (hf : factor = 2 ^ lg) (hk : src.k = factor * tgt.k) :
    Spec (fun r => Inv c S r ∧ r.k = tgt.k ∧ r.n = tgt.n + src.n ∧ R r (it ++ is))
      (levelMergeAr factor tgt.k tgt.n src.k src.n) (wSketch p) (wSketch p tgt + wSketch p src)
      (levelMerge c factor tgt src) := by
  unfold levelMerge levelMergeAr
  by_cases hn : src.n = 0
  · simp only [hn, if_true]
    have his : is = [] := List.eq_nil_of_length_eq_zero (by rw [← hR.len src is hrs, hn])
    refine Spec.done ⟨ht, rfl, by omega, by rw [his]; simpa using hrt⟩ ?_
    rw [wSketch_empty p hs hn]; rfl
  · simp only [hn, if_false]
    have htk := ht.kpos
    have hfpos : 0 < factor := by rw [hf]; exact Nat.two_pow_pos lg
    have hup := updateAll_spec c p hS R hR.upd src.bb tgt it ht hrt hs.bb_ok
    -- arithmetic of the merged size
    have hsn : src.n = src.bits * (2 * src.k) + src.bb.length := by
      rw [hs.bits_eq, hs.bb_len, Nat.mul_comm]; exact (Nat.div_add_mod src.n (2 * src.k)).symm
    have h2k : 2 * src.k = factor * (2 * tgt.k) := by rw [hk]; simp only [Nat.mul_left_comm]
    have hnew : src.n + tgt.n = (tgt.n + src.bb.length) + src.bits * factor * (2 * tgt.k) := by
      rw [hsn, h2k, Nat.mul_assoc]; omega
    have hK : 0 < 2 * tgt.k := by omega
    have hF : (src.n + tgt.n) / (2 * tgt.k) = (tgt.n + src.bb.length) / (2 * tgt.k) + src.bits * factor := by
      rw [hnew, Nat.add_mul_div_right _ _ hK]
    have hM : (src.n + tgt.n) % (2 * tgt.k) = (tgt.n + src.bb.length) % (2 * tgt.k) := by
      rw [hnew, Nat.add_mul_mod_self_right]
    refine (Spec.bind (hup.add_const (wLevels p 2 src.levels)) ?_).congr (by rw [hs.bb_len]) (by simp only [wSketch]; omega)
    intro t1 ht1
    obtain ⟨hi1, hk1, hn1, hr1⟩ := ht1
    -- extended levels
    have hle : t1.levels.length ≤ bitLen ((src.n + tgt.n) / (2 * t1.k)) := by
      rw [hi1.lv_len, hi1.bits_eq, hk1, hn1, hF]
      exact bitLen_mono (by omega)
    have hext : (extendLevels t1.levels (bitLen ((src.n + tgt.n) / (2 * t1.k)))).length
        = bitLen ((src.n + tgt.n) / (2 * t1.k)) := by
      unfold extendLevels; simp; omega
    have hloop := mergeLevels_spec c p hS factor lg tgt.k (bitLen ((src.n + tgt.n) / (2 * t1.k)))
      ((src.n + tgt.n) / (2 * t1.k)) hf (lt_two_pow_bitLen _) src.levels src.bits 0
      { t1 with levels := extendLevels t1.levels (bitLen ((src.n + tgt.n) / (2 * t1.k))) }
      (by rw [← hk]; exact hs.lv_shape) hk1
      (by simp only; rw [← hk1]; exact hi1.lv_shape.append_nil hS.nil _) hext
      (by simp only [Nat.zero_add]; rw [hi1.bits_eq, hk1, hn1, hF, hf])
    rw [ctz_two_pow_eq hf]
    refine (Spec.map hloop ?_).congr ?_ ?_
    · intro t3 ht3
      obtain ⟨hsr, hl3, hb3, hs3⟩ := ht3
      obtain ⟨s1, s2, s3, s4, s5, s6⟩ := hsr
      simp only at s1 s2 s3 s4 s5 s6
      refine ⟨⟨⟨?_, ?_, ?_, ?_, ?_, ?_, ?_⟩, ?_, Nat.add_comm _ _, ?_⟩, rfl⟩
      · simp only; rw [s1, hk1]; exact ht.kpow
      · simp only; rw [s3, s1, hi1.bb_len, hk1, hn1, hM]
      · simp only; rw [hb3, s1]
      · simp only; rw [hl3, hb3]
      · simp only; rw [s1, hk1, hb3]; exact hs3
      · simp only; rw [s3]; exact hi1.bb_ok
      · simp only; rw [s6, s3]; exact hi1.bb_sorted
      · simp only; rw [s1, hk1]
      · refine hR.lm t1 _ src it is factor hr1 hrs hs hi1 ⟨by simp only; exact s1, by simp only; exact s3, ?_, ?_, hfpos,
          by simp only; rw [s4], by simp only; rw [s5], by simp only; exact s6⟩
        · simp only; rw [hn1]; omega
        · simp only; rw [hb3, hi1.bits_eq, hk1, hn1, hF]
    · simp only [Nat.zero_add]
      rw [hs.lv_len, hs.bits_eq, hk1, hi1.bits_eq, hk1, hn1, hs.bb_len]
    · simp only [wSketch, Nat.zero_add, extendLevels, wLevels_append_replicate_nil, Nat.pow_one]
      omega

theorem exact_facts {s : Sketch α} (hs : Inv c S s) (hb : s.bits = 0) :
    s.bb.length = s.n ∧ s.levels = [] := by
  have hK : 0 < 2 * s.k := by have := hs.kpos; omega
  have hlt : s.n < 2 * s.k := by
    have h0 : s.n / (2 * s.k) = 0 := by rw [← hs.bits_eq]; exact hb
    exact (Nat.div_eq_zero_iff_lt hK).mp h0
  refine ⟨by rw [hs.bb_len, Nat.mod_eq_of_lt hlt], ?_⟩
  exact List.eq_nil_of_length_eq_zero (by rw [hs.lv_len, hb, bitLen_zero])

/-- `merge(other)`: all branches -/
theorem merge_spec (tgt src : Sketch α) (it is : List α)
    (ht : Inv c S tgt) (hs : Inv c S src) (hrt : R tgt it) (hrs : R src is) :
    Spec (fun r => Inv c S r ∧ r.k = mergeK tgt.k tgt.n src.k src.n ∧ r.n = tgt.n + src.n ∧ R r (it ++ is))
      (mergeAr tgt.k tgt.n src.k src.n) (wSketch p) (wSketch p tgt + wSketch p src) (tgt.merge c src) := by
  unfold Sketch.merge mergeAr mergeK
  by_cases hn : src.n = 0
  · simp only [hn, if_true]
    have his : is = [] := List.eq_nil_of_length_eq_zero (by rw [← hR.len src is hrs, hn])
    refine Spec.done ⟨ht, rfl, by omega, by rw [his]; simpa using hrt⟩ ?_
    rw [wSketch_empty p hs hn]; rfl
  simp only [hn, if_false]
  by_cases hsb : src.bits = 0
  · -- other is exact: stream in
    have hsb' : src.n / (2 * src.k) = 0 := by rw [← hs.bits_eq]; exact hsb
    simp only [hsb, hsb', if_true]
    obtain ⟨hlen, hlv⟩ := exact_facts c hS hR hs hsb
    have hup := updateAll_spec c p hS R hR.upd src.bb tgt it ht hrt hs.bb_ok
    refine (hup.weaken ?_).congr (by rw [hlen]) (by simp [wSketch, hlv, wLevels])
    intro r hr
    refine ⟨hr.1, hr.2.1, by rw [hr.2.2.1, hlen], ?_⟩
    exact hR.perm r _ _ hr.2.2.2 (List.Perm.append_left it (hR.bb src is hs hrs hsb))
  have hsb' : ¬ src.n / (2 * src.k) = 0 := by rw [← hs.bits_eq]; exact hsb
  simp only [hsb, hsb', if_false]
  obtain ⟨e1, he1⟩ := ht.kpow
  obtain ⟨e2, he2⟩ := hs.kpow
  by_cases htb : tgt.bits = 0
  · -- this is exact or empty
    have htb' : tgt.n / (2 * tgt.k) = 0 := by rw [← ht.bits_eq]; exact htb
    simp only [htb, htb', ne_eq, not_true_eq_false, if_false]
    by_cases hle : tgt.k ≤ src.k
    · simp only [hle, if_true]
      obtain ⟨hlen, hlv⟩ := exact_facts c hS hR ht htb
      have hup := updateAll_spec c p hS R hR.upd tgt.bb src is hs hrs ht.bb_ok
      refine (hup.weaken ?_).congr (by rw [hlen]) (by simp [wSketch, hlv, wLevels]; omega)
      intro r hr
      refine ⟨hr.1, hr.2.1, by rw [hr.2.2.1, hlen]; omega, ?_⟩
      refine hR.perm r _ _ hr.2.2.2 ?_
      exact (List.Perm.append_left is (hR.bb tgt it ht hrt htb)).trans List.perm_append_comm
    · simp only [hle, if_false]
      obtain ⟨hd, hm⟩ := pow2_div he1 he2 (by omega)
      have h := levelMerge_spec c p hS hR (tgt.k / src.k) (e1 - e2) src tgt is it hs ht hrs hrt hd hm
      refine (h.weaken ?_).congr rfl (by omega)
      intro r hr
      exact ⟨hr.1, hr.2.1, by rw [hr.2.2.1]; omega, hR.perm r _ _ hr.2.2.2 List.perm_append_comm⟩
  · have htb' : ¬ tgt.n / (2 * tgt.k) = 0 := by rw [← ht.bits_eq]; exact htb
    simp only [htb, htb', ne_eq, not_false_eq_true, if_true]
    by_cases heq : tgt.k = src.k
    · simp only [heq, if_true, Nat.lt_irrefl, if_false]
      have h := levelMerge_spec c p hS hR 1 0 tgt src it is ht hs hrt hrs rfl (by omega)
      unfold standardMerge
      rw [heq] at h
      exact h.weaken (fun r hr => ⟨hr.1, hr.2.1, hr.2.2.1, hr.2.2.2⟩)
    · simp only [heq, if_false]
      by_cases hgt : tgt.k > src.k
      · simp only [hgt, if_true]
        obtain ⟨hd, hm⟩ := pow2_div he1 he2 hgt
        have h := levelMerge_spec c p hS hR (tgt.k / src.k) (e1 - e2) src tgt is it hs ht hrs hrt hd hm
        unfold downsamplingMerge
        refine (h.weaken ?_).congr rfl (by omega)
        intro r hr
        exact ⟨hr.1, hr.2.1, by rw [hr.2.2.1]; omega, hR.perm r _ _ hr.2.2.2 List.perm_append_comm⟩
      · simp only [hgt, if_false]
        obtain ⟨hd, hm⟩ := pow2_div he2 he1 (by omega)
        have h := levelMerge_spec c p hS hR (src.k / tgt.k) (e2 - e1) tgt src it is ht hs hrt hrs hd hm
        unfold downsamplingMerge
        exact h

end

end DS.Quantiles

/- Sketch-level invariant of the REQ model through update / merge / queries. (Helper lemmas.) -/
import DSProofs.Lemmas.ReqCompress
namespace DS.Req

variable {ρ : Type}

/-! ### exact extremes as a characterisation -/

def IsMin (m : Option Int) (l : List Int) : Prop :=
  (l = [] ∧ m = none) ∨ (∃ x, m = some x ∧ x ∈ l ∧ ∀ y ∈ l, x ≤ y)
def IsMax (m : Option Int) (l : List Int) : Prop :=
  (l = [] ∧ m = none) ∨ (∃ x, m = some x ∧ x ∈ l ∧ ∀ y ∈ l, y ≤ x)

theorem IsMin_cons {m l} (x : Int) (h : IsMin m l) : IsMin (optMin m x) (x :: l) := by
  right
  rcases h with ⟨rfl, rfl⟩ | ⟨y, rfl, hy, hall⟩
  · exact ⟨x, rfl, by simp, by simp⟩
  · simp only [optMin]; split
    · exact ⟨x, rfl, by simp, by intro z hz; rcases List.mem_cons.1 hz with rfl | hz; omega; have := hall z hz; omega⟩
    · exact ⟨y, rfl, by simp [hy], by intro z hz; rcases List.mem_cons.1 hz with rfl | hz; omega; exact hall z hz⟩

theorem IsMax_cons {m l} (x : Int) (h : IsMax m l) : IsMax (optMax m x) (x :: l) := by
  right
  rcases h with ⟨rfl, rfl⟩ | ⟨y, rfl, hy, hall⟩
  · exact ⟨x, rfl, by simp, by simp⟩
  · simp only [optMax]; split
    · exact ⟨x, rfl, by simp, by intro z hz; rcases List.mem_cons.1 hz with rfl | hz; omega; have := hall z hz; omega⟩
    · exact ⟨y, rfl, by simp [hy], by intro z hz; rcases List.mem_cons.1 hz with rfl | hz; omega; exact hall z hz⟩

theorem IsMin_append {a b la lb} (ha : IsMin a la) (hb : IsMin b lb) : IsMin (optMinO a b) (lb ++ la) := by
  rcases hb with ⟨rfl, rfl⟩ | ⟨y, rfl, hy, hally⟩
  · simpa [optMinO] using ha
  · right
    rcases ha with ⟨rfl, rfl⟩ | ⟨x, rfl, hx, hallx⟩
    · exact ⟨y, rfl, by simp [hy], by simpa using hally⟩
    · simp only [optMinO, optMin]; split
      · refine ⟨y, rfl, by simp [hy], ?_⟩
        intro z hz; rcases List.mem_append.1 hz with hz | hz
        · exact hally z hz
        · have := hallx z hz; omega
      · refine ⟨x, rfl, by simp [hx], ?_⟩
        intro z hz; rcases List.mem_append.1 hz with hz | hz
        · have := hally z hz; omega
        · exact hallx z hz

theorem IsMax_append {a b la lb} (ha : IsMax a la) (hb : IsMax b lb) : IsMax (optMaxO a b) (lb ++ la) := by
  rcases hb with ⟨rfl, rfl⟩ | ⟨y, rfl, hy, hally⟩
  · simpa [optMaxO] using ha
  · right
    rcases ha with ⟨rfl, rfl⟩ | ⟨x, rfl, hx, hallx⟩
    · exact ⟨y, rfl, by simp [hy], by simpa using hally⟩
    · simp only [optMaxO, optMax]; split
      · refine ⟨y, rfl, by simp [hy], ?_⟩
        intro z hz; rcases List.mem_append.1 hz with hz | hz
        · exact hally z hz
        · have := hallx z hz; omega
      · refine ⟨x, rfl, by simp [hx], ?_⟩
        intro z hz; rcases List.mem_append.1 hz with hz | hz
        · have := hally z hz; omega
        · exact hallx z hz

/-! ### the sketch invariant -/

/-- ghost: every item ever fed to the sketch (level 0's `entered`) -/
def entered0L (cs : List (Compactor ρ)) : List Int :=
  match cs with
  | c :: _ => c.entered
  | [] => []

def entered0 (s : Sketch ρ) : List Int := entered0L s.compactors

/-- a sketch with a single level has never compacted: level 0 holds exactly what was fed -/
def ExactL (cs : List (Compactor ρ)) : Prop := ∀ c, cs = [c] → ∀ p, cntP p c.items = cntP p c.entered

structure SInv (T : Tun) (s : Sketch ρ) : Prop where
  k2 : 2 ≤ s.k
  cs : CsInv T s.hra 0 s.compactors
  nonnil : s.compactors ≠ []
  ret : s.numRetained = sumItems s.compactors
  cap : s.maxNomSize = sumCap T s.compactors
  tw : s.n = totalW s.compactors
  ne : s.n ≠ 0 → AllNE s.compactors
  one : s.n = 0 → s.compactors.length = 1
  ent : s.n = (entered0 s).length
  mn : IsMin s.minItem (entered0 s)
  mx : IsMax s.maxItem (entered0 s)
  ex : ExactL s.compactors

theorem CsInv_append {T : Tun} {hra : Bool} (h : Nat) (a : List (Compactor ρ)) (c : Compactor ρ) :
    CsInv T hra h (a ++ [c]) ↔ CsInv T hra h a ∧ CInv T hra (h + a.length) c := by
  induction a generalizing h with
  | nil => simp [CsInv]
  | cons x t ih =>
    simp only [List.cons_append, CsInv, ih, List.length_cons]
    have : h + 1 + t.length = h + (t.length + 1) := by omega
    rw [this]; exact and_assoc.symm

theorem effectiveK_ge {T : Tun} (hT : TunOK T) (k : Nat) : 2 ≤ effectiveK T k := by
  unfold effectiveK
  have := hT.minK2; have := hT.minK256
  have : T.minK % 256 = T.minK := Nat.mod_eq_of_lt hT.minK256
  omega

theorem new_compactors (T : Tun) (F : SecFns ρ) (k : Nat) (hra d : Bool) :
    (Sketch.new T F k hra d).compactors = [Compactor.mkC T F hra 0 (effectiveK T k) d] ∧
    (Sketch.new T F k hra d).n = 0 ∧ (Sketch.new T F k hra d).numRetained = 0 ∧ (Sketch.new T F k hra d).k = effectiveK T k ∧
    (Sketch.new T F k hra d).hra = hra ∧ (Sketch.new T F k hra d).minItem = none ∧ (Sketch.new T F k hra d).maxItem = none ∧
    (Sketch.new T F k hra d).maxNomSize = sumCap T [Compactor.mkC T F hra 0 (effectiveK T k) d] := by
  simp [Sketch.new, Sketch.grow]

theorem new_SInv {T : Tun} (hT : TunOK T) (F : SecFns ρ) (k : Nat) (hra d : Bool) : SInv T (Sketch.new T F k hra d) := by
  have hk := effectiveK_ge hT k
  obtain ⟨e1, e2, e3, e4, e5, e6, e7, e8⟩ := new_compactors T F k hra d
  obtain ⟨f1, f2, f3, _⟩ := mkC_fields T F hra 0 (effectiveK T k) d
  refine ⟨by rw [e4]; exact hk, by rw [e1, e5]; exact ⟨mkC_CInv hT F hra 0 _ hk d, trivial⟩, by rw [e1]; simp, ?_, by rw [e8, e1], ?_,
    fun h => absurd e2 h, fun _ => by rw [e1]; rfl, ?_, ?_, ?_, ?_⟩
  · rw [e3, e1]; simp [f1]
  · rw [e2, e1]; simp [f1]
  · rw [e2]; simp [entered0, entered0L, e1, f2]
  · left; exact ⟨by simp [entered0, entered0L, e1, f2], e6⟩
  · left; exact ⟨by simp [entered0, entered0L, e1, f2], e7⟩
  · intro c hc p
    rw [e1] at hc
    simp only [List.cons.injEq, and_true] at hc
    subst hc; rw [f1, f2]

/-! ### compress on a sketch -/

theorem compress_SInv {T : Tun} (hT : TunOK T) (F : SecFns ρ) (s : Sketch ρ) (acc : Acc)
    (h : SInv T s) (hn : s.n ≠ 0) :
    SInv T (s.compress T F acc).1 ∧ (s.compress T F acc).2.throws = acc.throws ∧
    entered0 (s.compress T F acc).1 = entered0 s ∧ (s.compress T F acc).1.n = s.n ∧
    (s.compress T F acc).1.minItem = s.minItem ∧ (s.compress T F acc).1.maxItem = s.maxItem ∧
    (s.compress T F acc).1.hra = s.hra ∧ (s.compress T F acc).1.k = s.k := by
  have sp := compressLoop_spec hT F s.hra s.k h.k2 (sumItems s.compactors + s.compactors.length + 1) 0 s.compactors
    { retained := s.numRetained, maxNom := s.maxNomSize } acc 0 0 h.cs (h.ne hn) (by simp [h.ret]) (by simp [h.cap])
  simp only [Sketch.compress]
  generalize compressLoop T F s.hra s.k (sumItems s.compactors + s.compactors.length + 1) 0 s.compactors
    { retained := s.numRetained, maxNom := s.maxNomSize } acc = out at sp
  have hent : entered0 ({ s with compactors := out.1, numRetained := out.2.1.retained, maxNomSize := out.2.1.maxNom } : Sketch ρ) = entered0 s := by
    have := sp.ent0
    simp only [entered0, entered0L]
    cases h1 : out.1 <;> cases h2 : s.compactors <;> simp [h1, h2] at this ⊢ <;> exact this
  refine ⟨⟨h.k2, sp.inv, sp.nonnil h.nonnil, ?_, ?_, ?_, fun _ => sp.ne, ?_, ?_, ?_, ?_, ?_⟩, sp.throws, hent, ?_, ?_, ?_, ?_, ?_⟩ <;> (try trivial)
  · simpa using sp.ret
  · simpa using sp.cap
  · show s.n = totalW out.1; rw [sp.tw]; exact h.tw
  · intro h0; exact absurd h0 hn
  · rw [hent]; exact h.ent
  · rw [hent]; exact h.mn
  · rw [hent]; exact h.mx
  · intro c hc p
    have h1 : out.1 = s.compactors := sp.one (by rw [show out.1 = [c] from hc]; rfl)
    exact h.ex c (by rw [← h1]; exact hc) p

/-! ### update -/

theorem append1_SInv {T : Tun} (s : Sketch ρ) (x : Int) (h : SInv T s) :
    SInv T (s.append1 x) ∧ entered0 (s.append1 x) = x :: entered0 s := by
  obtain ⟨c, t, hcs⟩ : ∃ c t, s.compactors = c :: t := by
    cases hc : s.compactors with
    | nil => exact absurd hc h.nonnil
    | cons c t => exact ⟨c, t, rfl⟩
  have hcsinv := h.cs; rw [hcs] at hcsinv
  obtain ⟨hc, ht⟩ := hcsinv
  have hs1c : (s.append1 x).compactors = c.append x :: t := by simp [Sketch.append1, hcs, appendLevel0]
  have happ : CInv T s.hra 0 (c.append x) := by
    refine ⟨hc.lg, hc.hraEq, hc.ns, hc.ss, ?_⟩
    intro hs
    rcases hs with hs | hs
    · exact absurd rfl hs
    · simp only [Compactor.append] at hs ⊢
      split at hs
      · exact absurd hs (by simp)
      · rename_i hlen
        have : c.items = [] := by cases hci : c.items with
          | nil => rfl
          | cons a b => rw [hci] at hlen; simp at hlen
        rw [this]; cases c.hra <;> simp [Sorted]
  have hlen : (c.append x).items.length = c.items.length + 1 := by
    simp only [Compactor.append]; split <;> simp
  have hlg : (c.append x).lgWeight = 0 := hc.lg
  have hent1 : entered0 (s.append1 x) = x :: entered0 s := by simp [entered0, entered0L, hs1c, hcs, Compactor.append]
  refine ⟨⟨h.k2, by rw [hs1c]; exact ⟨happ, ht⟩, by rw [hs1c]; simp, ?_, ?_, ?_, ?_, ?_, ?_, ?_, ?_, ?_⟩, hent1⟩
  · show s.numRetained + 1 = sumItems (s.append1 x).compactors
    rw [hs1c, sumItems_cons, hlen, h.ret, hcs, sumItems_cons]; omega
  · show s.maxNomSize = sumCap T (s.append1 x).compactors
    rw [hs1c, sumCap_cons, h.cap, hcs, sumCap_cons]; rfl
  · show s.n + 1 = totalW (s.append1 x).compactors
    rw [hs1c, totalW_cons, hlen, hlg, h.tw, hcs, totalW_cons, hc.lg]; omega
  · intro _
    rw [hs1c]; refine AllNE_cons.2 ⟨?_, ?_⟩
    · intro e; rw [e] at hlen; simp at hlen
    · by_cases hn : s.n = 0
      · have := h.one hn; rw [hcs] at this; simp at this; rw [this]; exact AllNE_nil
      · have := h.ne hn; rw [hcs] at this; exact (AllNE_cons.1 this).2
  · intro h0; simp [Sketch.append1] at h0
  · show s.n + 1 = (entered0 (s.append1 x)).length
    rw [hent1, List.length_cons, ← h.ent]
  · show IsMin (optMin s.minItem x) (entered0 (s.append1 x))
    rw [hent1]; exact IsMin_cons x h.mn
  · show IsMax (optMax s.maxItem x) (entered0 (s.append1 x))
    rw [hent1]; exact IsMax_cons x h.mx
  · intro c' hc' p
    rw [hs1c] at hc'
    simp only [List.cons.injEq] at hc'
    obtain ⟨rfl, rfl⟩ := hc'
    have := h.ex c hcs p
    simp only [Compactor.append]
    split <;> simp only [cntP_cons, cntP_append, this, cntP_nil] <;> omega

theorem update_SInv {T : Tun} (hT : TunOK T) (F : SecFns ρ) (s : Sketch ρ) (x : Int) (acc : Acc) (h : SInv T s) :
    SInv T (s.update T F x acc).1 ∧ (s.update T F x acc).2.throws = acc.throws ∧
    entered0 (s.update T F x acc).1 = x :: entered0 s ∧ (s.update T F x acc).1.hra = s.hra ∧ (s.update T F x acc).1.k = s.k := by
  obtain ⟨hI1, hent1⟩ := append1_SInv s x h
  simp only [Sketch.update]
  split
  · have := compress_SInv hT F (s.append1 x) acc hI1 (by simp [Sketch.append1])
    obtain ⟨a, b, c', d, e, f, g, i⟩ := this
    exact ⟨a, b, by rw [c', hent1], g, i⟩
  · exact ⟨hI1, rfl, hent1, rfl, rfl⟩

end DS.Req

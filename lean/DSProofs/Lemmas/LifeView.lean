/- C19 helper: view-level symbolic execution.  `SameBut h h' X` = the heaps have the same blocks and the same
   word/state views except at the cells selected by `X`; one `vstep_*` lemma per primitive whose continuation
   only sees the views (so the concrete heap terms do not pile up). -/
import DSProofs.Lemmas.LifeInv
namespace DS.Life

theorem M.bind_assoc {α β γ} (m : M α) (f : α → M β) (g : β → M γ) :
    ((m >>= f) >>= g) = (m >>= fun a => f a >>= g) := by
  funext h
  show (match (match m h with | .ok (a, h') => f a h' | .error e => .error e) with
        | .ok (b, h'') => g b h'' | .error e => .error e) =
       (match m h with | .ok (a, h') => (f a >>= g) h' | .error e => .error e)
  cases m h with
  | error e => rfl
  | ok r => rfl

/-- a spec that holds for two footprints gives both frames (the second relative to a named initial heap) -/
theorem TripleS.with_frame {α} {n0 : Nat} {S S' : Nat → Bool} {P : Heap → Prop} {m : M α} {Q Q' : α → Heap → Prop}
    (t1 : TripleS n0 S P m Q) (t2 : TripleS n0 S' P m Q') (h0 : Heap) :
    TripleS n0 S (fun h => h = h0 ∧ P h) m (fun a h' => Q a h' ∧ Q' a h' ∧ Frame S' h0 h') := by
  intro h hn ⟨e, hp⟩
  subst e
  have a := t1 h hn hp
  have b := t2 h hn hp
  unfold SafeX at *
  cases hm : m h with
  | error e =>
    rw [hm] at a
    cases e <;> simp_all
  | ok r =>
    obtain ⟨x, h'⟩ := r
    rw [hm] at a b
    exact ⟨⟨a.1, b.1, b.2⟩, a.2⟩

structure SameBut (h h' : Heap) (X : Nat → Nat → Prop) : Prop where
  word : ∀ b j, ¬ X b j → wordAt h' b j = wordAt h b j
  st : ∀ b j, ¬ X b j → stAt h' b j = stAt h b j
  cells : ∀ b n, HasCells h b n → HasCells h' b n
  ids : h'.ids = h.ids
  next : h'.next = h.next

theorem SameBut.refl (h : Heap) (X : Nat → Nat → Prop) : SameBut h h X :=
  ⟨fun _ _ _ => rfl, fun _ _ _ => rfl, fun _ _ x => x, rfl, rfl⟩

theorem SameBut.trans {h1 h2 h3 : Heap} {X Y Z : Nat → Nat → Prop} (a : SameBut h1 h2 X) (b : SameBut h2 h3 Y)
    (hx : ∀ p q, X p q → Z p q) (hy : ∀ p q, Y p q → Z p q) : SameBut h1 h3 Z :=
  ⟨fun p q hz => (b.word p q (fun y => hz (hy p q y))).trans (a.word p q (fun x => hz (hx p q x))),
   fun p q hz => (b.st p q (fun y => hz (hy p q y))).trans (a.st p q (fun x => hz (hx p q x))),
   fun p n c => b.cells p n (a.cells p n c), b.ids.trans a.ids, b.next.trans a.next⟩

theorem SameBut.mono {h h' : Heap} {X Z : Nat → Nat → Prop} (a : SameBut h h' X) (hx : ∀ p q, X p q → Z p q) :
    SameBut h h' Z := a.trans (SameBut.refl h' X) hx hx

theorem SameBut_setCell (h : Heap) (b i : Nat) (c : Cell) : SameBut h (h.setCell b i c) (fun b' j => b' = b ∧ j = i) := by
  refine ⟨?_, ?_, fun b' n hc => HasCells_setCell _ _ _ hc, by simp, by simp⟩
  · intro b' j hx
    rw [wordAt_setCell]
    have : ¬ (b' = b ∧ j = i ∧ (h.cell? b i).isSome = true) := fun x => hx ⟨x.1, x.2.1⟩
    simp [this]
  · intro b' j hx
    rw [stAt_setCell]
    have : ¬ (b' = b ∧ j = i ∧ (h.cell? b i).isSome = true) := fun x => hx ⟨x.1, x.2.1⟩
    simp [this]

theorem SameBut_addLog (h : Heap) (e : Ev) (X : Nat → Nat → Prop) : SameBut h (h.addLog e) X :=
  ⟨fun _ _ _ => rfl, fun _ _ _ => rfl, fun _ _ x => x, rfl, rfl⟩

/-- `readWord` -/
theorem vstep_readWord {β} {S} {h : Heap} {b i n : Nat} {f : Nat → M β} {Q : β → Heap → Prop}
    (hc : HasCells h b n) (hi : i < n) (s : SafeF S h (f (wordAt h b i) h) Q) :
    SafeF S h ((readWord b i >>= f) h) Q := by
  obtain ⟨c, e, ew, _⟩ := hc.cell_st hi
  apply step_readWord e
  rw [ew]; exact s

/-- `read` of a live value -/
theorem vstep_read {β} {S} {h : Heap} {b i n v : Nat} {f : Nat → M β} {Q : β → Heap → Prop}
    (hc : HasCells h b n) (hi : i < n) (hl : stAt h b i = .live v) (s : SafeF S h (f v h) Q) :
    SafeF S h ((read b i >>= f) h) Q := by
  obtain ⟨c, e, _, est⟩ := hc.cell_st hi
  exact step_read e (by rw [est, hl]) s

/-- `writeWord` -/
theorem vstep_writeWord {β} {S} {h : Heap} {b i n : Nat} (w : Nat) {f : Unit → M β} {Q : β → Heap → Prop}
    (hc : HasCells h b n) (hi : i < n) (hS : S b = true)
    (s : ∀ h', SameBut h h' (fun b' j => b' = b ∧ j = i) → wordAt h' b i = w → stAt h' b i = stAt h b i →
          SafeF S h' (f () h') Q) :
    SafeF S h ((writeWord b i w >>= f) h) Q := by
  obtain ⟨c, e, _, est⟩ := hc.cell_st hi
  apply step_writeWord w e hS
  apply s _ (SameBut_setCell _ _ _ _)
  · rw [wordAt_setCell]; simp [e]
  · rw [stAt_setCell]; simp [e, est]

/-- `construct` into a raw cell -/
theorem vstep_construct {β} {S} {h : Heap} {b i n : Nat} (v : Nat) {f : Unit → M β} {Q : β → Heap → Prop}
    (hc : HasCells h b n) (hi : i < n) (hr : stAt h b i = .raw) (hS : S b = true)
    (s : ∀ h', SameBut h h' (fun b' j => b' = b ∧ j = i) → wordAt h' b i = wordAt h b i → stAt h' b i = .live v →
          SafeF S h' (f () h') Q) :
    SafeF S h ((construct b i v >>= f) h) Q := by
  obtain ⟨c, e, ew, est⟩ := hc.cell_st hi
  apply step_construct v e (by rw [est, hr]) hS
  intro ev
  apply s _ ((SameBut_setCell _ _ _ _).trans (SameBut_addLog _ _ _) (fun _ _ x => x) (fun _ _ x => x))
  · rw [wordAt_addLog, wordAt_setCell]; simp [e, ew]
  · rw [stAt_addLog, stAt_setCell]; simp [e]

/-- `destroy` of a non-raw cell -/
theorem vstep_destroy {β} {S} {h : Heap} {b i n : Nat} {f : Unit → M β} {Q : β → Heap → Prop}
    (hc : HasCells h b n) (hi : i < n) (hr : stAt h b i ≠ .raw) (hS : S b = true)
    (s : ∀ h', SameBut h h' (fun b' j => b' = b ∧ j = i) → wordAt h' b i = wordAt h b i → stAt h' b i = .raw →
          SafeF S h' (f () h') Q) :
    SafeF S h ((destroy b i >>= f) h) Q := by
  obtain ⟨c, e, ew, est⟩ := hc.cell_st hi
  apply step_destroy e (by rw [est]; exact hr) hS
  intro ev
  apply s _ ((SameBut_setCell _ _ _ _).trans (SameBut_addLog _ _ _) (fun _ _ x => x) (fun _ _ x => x))
  · rw [wordAt_addLog, wordAt_setCell]; simp [e, ew]
  · rw [stAt_addLog, stAt_setCell]; simp [e]

/-- `moveFrom` a live cell -/
theorem vstep_moveFrom {β} {S} {h : Heap} {b i n v : Nat} {f : Nat → M β} {Q : β → Heap → Prop}
    (hc : HasCells h b n) (hi : i < n) (hl : stAt h b i = .live v) (hS : S b = true)
    (s : ∀ h', SameBut h h' (fun b' j => b' = b ∧ j = i) → wordAt h' b i = wordAt h b i → stAt h' b i = .moved →
          SafeF S h' (f v h') Q) :
    SafeF S h ((moveFrom b i >>= f) h) Q := by
  obtain ⟨c, e, ew, est⟩ := hc.cell_st hi
  apply step_moveFrom e (by rw [est, hl]) hS
  apply s _ (SameBut_setCell _ _ _ _)
  · rw [wordAt_setCell]; simp [e, ew]
  · rw [stAt_setCell]; simp [e]

/-- `assign` to a non-raw cell -/
theorem vstep_assign {β} {S} {h : Heap} {b i n : Nat} (v : Nat) {f : Unit → M β} {Q : β → Heap → Prop}
    (hc : HasCells h b n) (hi : i < n) (hr : stAt h b i ≠ .raw) (hS : S b = true)
    (s : ∀ h', SameBut h h' (fun b' j => b' = b ∧ j = i) → wordAt h' b i = wordAt h b i → stAt h' b i = .live v →
          SafeF S h' (f () h') Q) :
    SafeF S h ((assign b i v >>= f) h) Q := by
  obtain ⟨c, e, ew, est⟩ := hc.cell_st hi
  apply step_assign v e (by rw [est]; exact hr) hS
  apply s _ (SameBut_setCell _ _ _ _)
  · rw [wordAt_setCell]; simp [e, ew]
  · rw [stAt_setCell]; simp [e]

/-- `alloc`: the new block has id `h.next`, `n` raw cells; everything else is as before -/
theorem vstep_alloc {β} {S} {h : Heap} (k : Kind) (n : Nat) {f : Nat → M β} {Q : β → Heap → Prop}
    (hS : S h.next = true)
    (s : ∀ h', HasCells h' h.next n → (∀ i, i < n → stAt h' h.next i = .raw) →
          (∀ b j, b ≠ h.next → wordAt h' b j = wordAt h b j ∧ stAt h' b j = stAt h b j) →
          (∀ b m, b ≠ h.next → HasCells h b m → HasCells h' b m) →
          h'.ids = h.next :: h.ids → h'.next = h.next + 1 → SafeF S h' (f h.next h') Q) :
    SafeF S h ((alloc k n >>= f) h) Q := by
  apply step_alloc k n hS
  obtain ⟨hc, hr⟩ := afterAlloc_views h k n
  exact s _ hc hr (fun b j hb => ⟨wordAt_afterAlloc_ne hb, stAt_afterAlloc_ne hb⟩)
    (fun b m hb hcm => HasCells_afterAlloc_ne hb hcm) (by simp) (by simp)

/-- `dealloc` of a block whose cells are all raw -/
theorem vstep_dealloc {β} {S} {h : Heap} {b n : Nat} {f : Unit → M β} {Q : β → Heap → Prop}
    (hc : HasCells h b n) (hr : ∀ i, i < n → stAt h b i = .raw) (hS : S b = true)
    (s : ∀ h', (∀ b' j, b' ≠ b → wordAt h' b' j = wordAt h b' j ∧ stAt h' b' j = stAt h b' j) →
          (∀ b' m, b' ≠ b → HasCells h b' m → HasCells h' b' m) →
          h'.ids = h.ids.filter (fun x => x != b) → h'.next = h.next → SafeF S h' (f () h') Q) :
    SafeF S h ((dealloc b n >>= f) h) Q := by
  apply step_dealloc hc ?_ hS
  · intro k
    exact s _ (fun b' j hb => ⟨wordAt_afterFree_ne hb, stAt_afterFree_ne hb⟩)
      (fun b' m hb hcm => HasCells_afterFree_ne hb hcm) (by simp) (by simp)
  · intro i hi
    obtain ⟨c, e, _, est⟩ := hc.cell_st hi
    exact ⟨c, e, by rw [est]; exact hr i hi⟩

end DS.Life
